(* UidRecent/Drop.v — C17: the ways a connection ends.

   pymap/imap/__init__.py: IMAPConnection.run() =
       try: await self._run_state(state)  finally: state.do_disconnect()
   and _run_state()'s command loop leaves in three ways: it returns (break),
   an Exception escapes it (after "* BYE [SERVERBUG]"), or a CancelledError
   (a BaseException: no `except Exception` clause sees it) escapes it.
   [end_kind] enumerates the events that end a connection, [exit_of] is the
   clause of the loop that handles each, [farewell_of] what the client is told
   last.  Whatever the kind and the exit path, the effect on the store is
   do_disconnect -> _deselect -> SelectedMailbox.close(): the connection's
   selection leaves the selected set ([drop_sel]).  Definitions only. *)
From PV Require Import Base.Prelude Wire.SeqSet UidRecent.Model.

Local Open Scope N_scope.

Inductive end_kind :=
(* while the connection waits for a command (read_command) *)
| ELogout          (* LOGOUT: CloseConnection, a terminal response *)
| EEof             (* readline() returns b'' *)
| EEofPartial      (* an unterminated line, then EOF *)
| EReset           (* readline() raises ConnectionResetError *)
| ELineLimit       (* a legal line longer than the StreamReader limit: ValueError *)
| EReadError       (* readline() raises an OSError that is no ConnectionError (ETIMEDOUT) *)
| ECancelRead      (* the connection task is cancelled while it waits *)
| EEofLiteral      (* EOF inside a synchronizing literal (IncompleteReadError) *)
| EEofLiteralPlus  (* EOF inside a non-synchronizing literal *)
| EBadLimit        (* bad_command_limit consecutive BAD commands *)
(* inside a command *)
| ECmdExc          (* an exception raised by the command body *)
| EWriteReset      (* the peer is gone: write/drain raise ConnectionResetError
                      (swallowed by write_response), the next read raises it *)
| EWriteError      (* drain() of the tagged response raises another OSError *)
| ECancelWrite     (* the task is cancelled inside drain() of the tagged response *)
| EEofIdle         (* EOF while idling *)
| ECancelIdle.     (* the task is cancelled while idling *)

Inductive exit_path := XReturn | XException | XCancelled.

Definition exit_of (k : end_kind) : exit_path :=
  match k with
  | ELineLimit | EReadError | ECmdExc | EWriteError => XException
  | ECancelWrite => XCancelled
  | _ => XReturn
  end.

Inductive farewell := FNone | FLogout | FServerBug | FUnavailable | FTooMany.

Definition farewell_of (k : end_kind) : farewell :=
  match k with
  | ELogout => FLogout
  | ELineLimit | EReadError | ECmdExc => FServerBug
  | ECancelRead | ECancelIdle => FUnavailable
  | EBadLimit => FTooMany
  (* nobody can be told: the writer is the thing that failed / the task is
     unwound by the cancellation *)
  | EWriteError | ECancelWrite => FNone
  | _ => FNone
  end.

Definition exit_eqb (a b : exit_path) : bool :=
  match a, b with
  | XReturn, XReturn | XException, XException | XCancelled, XCancelled => true
  | _, _ => false
  end.

Definition farewell_eqb (a b : farewell) : bool :=
  match a, b with
  | FNone, FNone | FLogout, FLogout | FServerBug, FServerBug
  | FUnavailable, FUnavailable | FTooMany, FTooMany => true
  | _, _ => false
  end.

Definition all_kinds : list end_kind :=
  [ELogout; EEof; EEofPartial; EReset; ELineLimit; EReadError; ECancelRead; EEofLiteral;
   EEofLiteralPlus; EBadLimit; ECmdExc; EWriteReset; EWriteError; ECancelWrite; EEofIdle;
   ECancelIdle].

(* labels: an operation of Model.v, or the end of connection [s] *)
Inductive xop :=
| XOp (o : op)
| Drop (s : N) (k : end_kind).

Inductive xout :=
| XOut (o : out)
| XEnd (f : farewell) (x : exit_path).

(* IMAPConnection.run: finally: state.do_disconnect() *)
Definition end_conn (s : N) (st : sys) : sys := drop_sel s st.

Definition xstep (st : sys) (xo : xop) (ch : choice) : sys * xout :=
  match xo with
  | XOp o => let '(st', m) := step st o ch in (st', XOut m)
  | Drop s k => (end_conn s st, XEnd (farewell_of k) (exit_of k))
  end.

Definition xrun (st : sys) (tr : list (xop * choice)) : sys :=
  fold_left (fun st oc => fst (xstep st (fst oc) (snd oc))) tr st.

(* for the store every end is a LOGOUT *)
Definition erase (xo : xop) : op :=
  match xo with XOp o => o | Drop s _ => Logout s end.
