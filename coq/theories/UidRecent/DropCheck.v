(* UidRecent/DropCheck.v — case checker for histories with connection ends
   (harness/c17_ends.py).  As UidRecent/Check.v: the model replays the history,
   every allowed any_selected choice is tried, every observation must be
   explained.  The observation of an end is what the client was told last
   (farewell) and how the connection task finished (returned / exception /
   cancelled): both must be what Drop.v says for the kind. *)
From PV Require Import Base.Prelude Wire.SeqSet UidRecent.Model UidRecent.Check UidRecent.Drop.

Local Open Scope N_scope.

Definition xout_match (full : bool) (lo : N) (vm : vmap) (m o : xout) : option vmap :=
  match m, o with
  | XOut a, XOut b => out_match full lo vm a b
  | XEnd f x, XEnd f' x' => if farewell_eqb f f' && exit_eqb x x' then Some vm else None
  | _, _ => None
  end.

Definition xchoices_for (st : sys) (xo : xop) : list choice :=
  match xo with XOp o => choices_for st o | Drop _ _ => [mkChoice None] end.

Definition xlive_top (st : sys) (xo : xop) : N :=
  match xo with XOp o => live_top st o | Drop _ _ => 0 end.

Fixpoint xsearch (full : bool) (st : sys) (vm : vmap) (tr : list (xop * xout)) : bool :=
  match tr with
  | [] => true
  | (o, ob) :: r =>
    existsb (fun ch =>
               let '(st', m) := xstep st o ch in
               match xout_match full (xlive_top st o) vm m ob with
               | Some vm' => xsearch full st' vm' r
               | None => false
               end) (xchoices_for st o)
  end.

(* (base, shared, history) *)
Definition chk_xhistory (c : N * bool * list (xop * xout)) : bool :=
  let '(base, shared, tr) := c in xsearch true (init_cfg base shared) [] tr.

Fixpoint xexplain (full : bool) (st : sys) (vm : vmap) (tr : list (xop * xout)) : list xout :=
  match tr with
  | [] => []
  | (o, ob) :: r =>
    fold_left (fun best ch =>
                 let '(st', m) := xstep st o ch in
                 let cand := match xout_match full (xlive_top st o) vm m ob with
                             | Some vm' => m :: xexplain full st' vm' r
                             | None => [m]
                             end in
                 if (length best <? length cand)%nat then cand else best)
              (xchoices_for st o) []
  end.

Definition xexplain_history (c : N * bool * list (xop * xout)) : list xout :=
  let '(base, shared, tr) := c in xexplain true (init_cfg base shared) [] tr.
