(* UidRecent/MaildirProofs.v — the maildir folder state refines the [box] of
   Model.v: every maildir primitive is, through [abs], the primitive the model
   uses ([box_add] = what [deliver]/[adopt_one] do to a mailbox, [clear_recent]
   = claim_recent, filtering = delete), external delivery is invisible until
   reset() adopts the file, and UIDNEXT is the persisted counter. *)
From PV Require Import Base.Prelude UidRecent.Model UidRecent.Maildir.

Local Open Scope N_scope.

Lemma find_file_app_none k fs f :
  f_key f <> k -> find_file k (fs ++ [f]) = find_file k fs.
Proof.
  intro H. unfold find_file. induction fs as [|g r IH]; cbn [app find].
  - destruct (N.eqb_spec (f_key f) k); [contradiction|reflexivity].
  - destruct (f_key g =? k); [reflexivity|exact IH].
Qed.

(* a file nobody recorded is not seen by IMAP *)
Theorem abs_external d f :
  ~ In (f_key f) (map snd (d_recs d)) -> abs (md_add_file f d) = abs d.
Proof.
  intro H. unfold abs, md_add_file. cbn [d_next d_recs d_files d_log]. f_equal.
  unfold abs_msgs. induction (d_recs d) as [|r rs IH]; cbn [flat_map]; [reflexivity|].
  cbn [map In] in H. rewrite find_file_app_none.
  - rewrite IH; [reflexivity|]. intro Hin. apply H. right. exact Hin.
  - intro E. apply H. left. symmetry. exact E.
Qed.

(* recording a file = the model's delivery into the mailbox *)
Theorem abs_record d k f :
  1 <= d_next d -> find_file k (d_files d) = Some f ->
  abs (md_record k (f_mark f) d) = box_add (abs d) (f_new f) (f_deleted f) (f_mark f).
Proof.
  intros Hn Hf. unfold abs, md_record, box_add. cbn [d_next d_recs d_files d_log b_max b_msgs b_log].
  replace (d_next d + 1 - 1) with (d_next d - 1 + 1) by lia.
  replace (d_next d - 1 + 1) with (d_next d) by lia. f_equal.
  unfold abs_msgs. rewrite flat_map_app. cbn [flat_map fst snd]. rewrite Hf, app_nil_r. reflexivity.
Qed.

Lemma find_file_last fs f :
  ~ In (f_key f) (map f_key fs) -> find_file (f_key f) (fs ++ [f]) = Some f.
Proof.
  intro H. unfold find_file. induction fs as [|g r IH]; cbn [app find].
  - rewrite N.eqb_refl. reflexivity.
  - cbn [map In] in H. destruct (N.eqb_spec (f_key g) (f_key f)) as [E|_].
    + exfalso. apply H. left. exact E.
    + apply IH. intro Hin. apply H. right. exact Hin.
Qed.

(* APPEND / COPY / MOVE into the folder: file, then record *)
Theorem abs_append d f :
  1 <= d_next d -> ~ In (f_key f) (map f_key (d_files d)) ->
  ~ In (f_key f) (map snd (d_recs d)) ->
  abs (md_append f d) = box_add (abs d) (f_new f) (f_deleted f) (f_mark f).
Proof.
  intros Hn Hk Hr. unfold md_append. rewrite (abs_record (md_add_file f d) (f_key f) f).
  - rewrite abs_external by exact Hr. reflexivity.
  - exact Hn.
  - cbn [md_add_file d_files]. apply find_file_last. exact Hk.
Qed.

Lemma find_file_In fs f : NoDup (map f_key fs) -> In f fs -> find_file (f_key f) fs = Some f.
Proof.
  unfold find_file. induction fs as [|g r IH]; cbn [map In find]; intros Hnd Hin; [destruct Hin|].
  inversion Hnd as [|? ? Hni Hnd']; subst. destruct Hin as [->|Hin].
  - rewrite N.eqb_refl. reflexivity.
  - destruct (N.eqb_spec (f_key g) (f_key f)) as [E|_]; [|auto].
    exfalso. apply Hni. rewrite E. apply in_map. exact Hin.
Qed.

(* reset(): each unknown file, in listing order, is one delivery *)
Theorem abs_reset d :
  1 <= d_next d -> NoDup (map f_key (d_files d)) ->
  abs (md_reset d) =
  fold_left (fun b f => box_add b (f_new f) (f_deleted f) (f_mark f)) (unknown d) (abs d).
Proof.
  intros Hn Hnd. unfold md_reset.
  assert (Hsub : forall f, In f (unknown d) -> In f (d_files d)).
  { intros f Hf. apply filter_In in Hf. tauto. }
  revert Hsub. generalize (unknown d) as l.
  assert (G : forall l d', d_files d' = d_files d -> 1 <= d_next d' ->
              (forall f, In f l -> In f (d_files d)) ->
              abs (fold_left (fun d'' f => md_record (f_key f) (f_mark f) d'') l d') =
              fold_left (fun b f => box_add b (f_new f) (f_deleted f) (f_mark f)) l (abs d')).
  { induction l as [|f r IH]; intros d' Ef Hn' Hsub; cbn [fold_left]; [reflexivity|].
    rewrite IH.
    - rewrite (abs_record d' (f_key f) f); [reflexivity|exact Hn'|].
      rewrite Ef. apply find_file_In; [exact Hnd|]. apply Hsub. left. reflexivity.
    - exact Ef.
    - cbn [md_record d_next]. lia.
    - intros g Hg. apply Hsub. right. exact Hg. }
  intros l Hsub. apply G; auto.
Qed.

(* claim_recent = clearing every stored bit *)
Definition to_cur (f : mfile) : mfile := mkFile (f_key f) false (f_deleted f) (f_mark f).

Lemma find_file_to_cur k fs :
  find_file k (map to_cur fs) = option_map to_cur (find_file k fs).
Proof.
  unfold find_file. induction fs as [|g r IH]; cbn [map find option_map]; [reflexivity|].
  cbn [to_cur f_key]. destruct (f_key g =? k); [reflexivity|exact IH].
Qed.

Theorem abs_claim d :
  abs (md_claim d) = mkBox (b_max (abs d)) (map clear_recent (b_msgs (abs d))) (b_log (abs d)).
Proof.
  unfold abs, md_claim. cbn [d_next d_recs d_files d_log b_max b_msgs b_log]. f_equal.
  fold to_cur. unfold abs_msgs.
  induction (d_recs d) as [|r rs IH]; cbn [flat_map map]; [reflexivity|].
  rewrite map_app, <- IH. f_equal. rewrite find_file_to_cur.
  destruct (find_file (snd r) (d_files d)); reflexivity.
Qed.

(* UIDNEXT (snapshot.next_uid) is the persisted counter = model counter + 1 *)
Theorem uidnext_is_counter d : 1 <= d_next d -> d_next d = b_max (abs d) + 1.
Proof. intro H. unfold abs. cbn [b_max]. lia. Qed.

(* well-formedness is kept by every primitive *)
Theorem md_wf_record d k mk : md_wf d -> md_wf (md_record k mk d).
Proof.
  intros (Hn & Hnd & Hr). unfold md_wf, md_record. cbn [d_next d_recs d_files].
  split; [lia|]. split; [exact Hnd|]. intros r Hin. apply in_app_iff in Hin as [Hin|[<-|[]]].
  - specialize (Hr _ Hin). lia.
  - cbn [fst]. lia.
Qed.

Theorem md_wf_add_file d f :
  md_wf d -> ~ In (f_key f) (map f_key (d_files d)) -> md_wf (md_add_file f d).
Proof.
  intros (Hn & Hnd & Hr) Hk. unfold md_wf, md_add_file. cbn [d_next d_recs d_files].
  split; [exact Hn|]. split; [|exact Hr]. rewrite map_app. cbn [map].
  clear - Hnd Hk. induction (map f_key (d_files d)) as [|x r IH]; cbn [app].
  - constructor; [intros []|constructor].
  - inversion Hnd as [|? ? Hx Hr]; subst. constructor.
    + intro H. apply in_app_iff in H as [H|[E|[]]]; [contradiction|]. apply Hk. left. symmetry. exact E.
    + apply IH; [exact Hr|]. intro H. apply Hk. right. exact H.
Qed.

Theorem md_wf_reset d : md_wf d -> md_wf (md_reset d).
Proof.
  unfold md_reset. generalize (unknown d) as l. intros l. revert d.
  induction l as [|f r IH]; intros d H; cbn [fold_left]; [exact H|].
  apply IH. apply md_wf_record. exact H.
Qed.

(* the model's mailbox updates are [box_add] *)
From PV Require Import UidRecent.MapLemmas UidRecent.UidProofs.

Theorem adopt_one_is_box_add i rc dl mk st b :
  lookup i (boxes st) = Some b ->
  lookup i (boxes (adopt_one i rc dl mk st)) = Some (box_add b rc dl mk).
Proof.
  intro H. unfold adopt_one. rewrite H. cbn [boxes set_boxes]. eapply lookup_replace_eq; eauto.
Qed.

Theorem deliver_is_box_add i c dl mk st b :
  lookup i (boxes st) = Some b ->
  lookup i (boxes (fst (deliver i c dl mk st))) =
    Some (box_add b (match c with None => true | Some _ => false end) dl mk).
Proof. intro H. exact (proj1 (proj2 (deliver_result i c dl mk st b H))). Qed.
