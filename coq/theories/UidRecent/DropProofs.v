(* UidRecent/DropProofs.v — C17: whatever way a connection ends, it holds no
   selection afterwards; so it is no candidate of any_selected, the invariant
   of RecentInv.v is kept over histories with ends of every kind, and the
   arrival clause (stored -> first read-write SELECT) applies right after the
   end of the last read-write selection of a mailbox. *)
From PV Require Import Base.Prelude Wire.SeqSet.
From PV Require Import UidRecent.Model UidRecent.MapLemmas UidRecent.UidProofs
  UidRecent.RecentInv UidRecent.RecentProofs UidRecent.RecentTrace UidRecent.Drop.
From Coq Require Import Lia.

Local Open Scope N_scope.

Ltac unf_end := cbn [xstep fst]; unfold end_conn, drop_sel, set_sess;
                cbn [sess boxes held names cfg_shared].

(* ------------------------------------------------------------ one end *)
Theorem end_no_selection st s k ch :
  lookup s (sess (fst (xstep st (Drop s k) ch))) = None.
Proof. unf_end. apply lookup_remove_eq. Qed.

Theorem end_frame st s k ch :
  let st' := fst (xstep st (Drop s k) ch) in
  boxes st' = boxes st /\ held st' = held st /\ names st' = names st /\
  cfg_shared st' = cfg_shared st /\
  forall t, t <> s -> lookup t (sess st') = lookup t (sess st).
Proof.
  unf_end.
  repeat split; try reflexivity. intros t Ht. apply lookup_remove_neq. exact Ht.
Qed.

Lemma candidates_end st s k ch i x :
  In x (candidates (fst (xstep st (Drop s k) ch)) i) -> In x (candidates st i) /\ x <> s.
Proof.
  unfold candidates. unf_end. destruct (cfg_shared st); [|intros []].
  intro H. apply in_map_iff in H as (p & E & Hp). apply filter_In in Hp as [Hp Hr].
  apply In_remove in Hp as [Hp Hne]. subst x. split; [|exact Hne].
  apply in_map_iff. exists p. split; [reflexivity|]. apply filter_In. split; assumption.
Qed.

(* the ended connection is never picked by any_selected again *)
Theorem end_not_candidate st s k ch i :
  ~ In s (candidates (fst (xstep st (Drop s k) ch)) i).
Proof. intro H. apply candidates_end in H as [_ H]. apply H. reflexivity. Qed.

Theorem end_not_picked st s k ch t i c :
  NoDup (map fst (sess st)) -> t <> s ->
  pick_ok (fst (xstep st (Drop s k) ch)) t i c = true -> c <> Some s.
Proof.
  intros Hnd Hts Hp E. subst c.
  apply pick_ok_valid in Hp.
  - destruct Hp as (sl & Hl & _). rewrite end_no_selection in Hl. discriminate.
  - unf_end. apply NoDup_map_remove. exact Hnd.
Qed.

(* the connection that held the only read-write selection of mailbox [i]
   ends (any kind): the next delivery into [i], by anybody, can be credited
   to nobody and is stored with the bit set *)
Theorem end_then_arrival_stored st s k ch t i c dl mk b :
  NoDup (map fst (sess st)) -> cfg_shared st = true ->
  (forall x, In x (candidates st i) -> x = s) ->
  let st' := fst (xstep st (Drop s k) ch) in
  pick_ok st' t i c = true -> lookup i (boxes st') = Some b ->
  c = None /\
  exists b', lookup i (boxes (fst (deliver i c dl mk st'))) = Some b' /\
             In (mkMsg (b_max b + 1) true dl mk) (b_msgs b').
Proof.
  intros Hnd Hsh Honly st' Hp Hl.
  apply (arrives_unselected_is_stored st' t i c dl mk b); try assumption.
  - subst st'. unf_end. apply NoDup_map_remove. exact Hnd.
  - destruct (candidates st' i) as [|x r] eqn:E; [reflexivity|exfalso].
    assert (Hx : In x (candidates st' i)) by (rewrite E; left; reflexivity).
    subst st'. apply candidates_end in Hx as [Hx Hne]. apply Hne, Honly, Hx.
Qed.

(* --------------------------------------------------------- histories *)
Lemma xstep_erase st xo ch : fst (xstep st xo ch) = fst (step st (erase xo) ch).
Proof.
  destruct xo as [o|s k]; cbn [xstep erase].
  - destruct (step st o ch). reflexivity.
  - reflexivity.
Qed.

Definition erase_tr (tr : list (xop * choice)) : list (op * choice) :=
  map (fun oc => (erase (fst oc), snd oc)) tr.

Lemma xrun_erase tr : forall st, xrun st tr = run st (erase_tr tr).
Proof.
  induction tr as [|[xo ch] r IH]; intro st; [reflexivity|].
  cbn [xrun run erase_tr map fold_left fst snd]. rewrite xstep_erase. apply IH.
Qed.

Theorem xstep_full st xo ch : full st -> full (fst (xstep st xo ch)).
Proof. rewrite xstep_erase. apply step_full. Qed.

Theorem xrun_full tr st : full st -> full (xrun st tr).
Proof. rewrite xrun_erase. apply run_full. Qed.

Theorem xfull_reachable base shared tr : full (xrun (init_cfg base shared) tr).
Proof. apply xrun_full, init_full. Qed.

Theorem xinv_recent_reachable base shared tr i u :
  let st := xrun (init_cfg base shared) tr in
  (length (holders st i u) + stored_bit st i u <= 1)%nat.
Proof. intro st. subst st. rewrite xrun_erase. apply inv_recent_reachable. Qed.

(* a message shown \Recent before and after histories with ends: the same
   SELECT instance, read-write *)
Theorem xreported_reachable base shared tr0 tr s1 sl1 s2 sl2 u :
  let st1 := xrun (init_cfg base shared) tr0 in
  lookup s1 (sess st1) = Some sl1 -> In u (s_recent sl1) ->
  lookup s2 (sess (xrun st1 tr)) = Some sl2 -> In u (s_recent sl2) ->
  s_bid sl1 = s_bid sl2 ->
  s_inst sl1 = s_inst sl2 /\ s_ro sl1 = false /\ s_ro sl2 = false.
Proof.
  intro st1. subst st1. rewrite !xrun_erase. apply reported_reachable.
Qed.

(* no end of any kind is a read-write SELECT *)
Definition xno_rw_select (i : N) (st : sys) (tr : list (xop * choice)) : Prop :=
  no_rw_select i st (erase_tr tr).

Lemma xno_rw_select_ends i st s k ch r :
  xno_rw_select i (fst (xstep st (Drop s k) ch)) r -> xno_rw_select i st ((Drop s k, ch) :: r).
Proof.
  unfold xno_rw_select. cbn [erase_tr map fst snd erase no_rw_select not_rw_select_of].
  intro H. split; [exact I|]. exact H.
Qed.

(* the arrival clause with ends in the history: a stored bit survives any
   history of operations and connection ends (of every kind) in which nobody
   SELECTs the mailbox read-write, and the first read-write SELECT claims it *)
Theorem xarrival_claimed_by_first_rw_select i tr st b m s nm ch b' m' :
  full st -> xno_rw_select i st tr ->
  lookup i (boxes st) = Some b -> In m (b_msgs b) -> m_recent m = true ->
  find_box (xrun st tr) nm = Some (i, b') -> box_ro (xrun st tr) i = false ->
  In m' (b_msgs b') -> m_uid m' = m_uid m ->
  let st2 := fst (step (xrun st tr) (Select s nm false) ch) in
  exists sl' b2,
    snd (step (xrun st tr) (Select s nm false) ch)
      = OSelect i false (nlen (b_msgs b')) (nlen (stored_recent b')) (b_max b' + 1) /\
    lookup s (sess st2) = Some sl' /\ s_ro sl' = false /\ s_bid sl' = i /\
    In (m_uid m) (s_recent sl') /\ In (m_uid m) (s_view sl') /\
    (0 < nlen (stored_recent b')) /\
    lookup i (boxes st2) = Some b2 /\ forall x, In x (b_msgs b2) -> m_recent x = false.
Proof.
  rewrite xrun_erase. unfold xno_rw_select. apply arrival_claimed_by_first_rw_select.
Qed.

(* ------------------------------------------------- the kinds themselves *)
(* the clauses of _run_state: exactly these kinds leave it with an exception
   escaping, so that only the `finally` of run() deselects *)
Theorem escaping_kinds k :
  exit_of k <> XReturn <->
  In k [ELineLimit; EReadError; ECmdExc; EWriteError; ECancelWrite].
Proof.
  split.
  - destruct k; cbn [exit_of In]; intro H; try (exfalso; apply H; reflexivity); tauto.
  - cbn [In]. intros [E|[E|[E|[E|[E|[]]]]]]; subst k; cbn [exit_of]; discriminate.
Qed.

Example all_kinds_end_selection :
  forallb (fun k =>
    match lookup 3 (sess (fst (xstep
      (xrun (init_cfg 100 true) [(XOp (Select 3 0 false), mkChoice None)])
      (Drop 3 k) (mkChoice None)))) with None => true | Some _ => false end) all_kinds = true.
Proof. vm_compute. reflexivity. Qed.

(* the seeded scenario: A selects, A ends by an over-long line, C appends, D
   selects: D is told RECENT 1 and holds UID 101 *)
Definition w_end_history : list (xop * choice) :=
  [ (XOp (Select 0 0 false), mkChoice None);
    (Drop 0 ELineLimit, mkChoice None);
    (XOp (Append 2 0 [(7, false, false)]), mkChoice None);
    (XOp (Select 3 0 false), mkChoice None) ].

Definition xouts (tr : list (xop * choice)) : list xout :=
  snd (fold_left (fun acc oc => let '(st', m) := xstep (fst acc) (fst oc) (snd oc) in
                                (st', snd acc ++ [m])) tr (init, [])).

Lemma w_end_outs : xouts w_end_history =
  [ XOut (OSelect 0 false 0 0 101);
    XEnd FServerBug XException;
    XOut (OAppend 0 [49; 48; 49] PNone);
    XOut (OSelect 0 false 1 1 102) ].
Proof. vm_compute. reflexivity. Qed.

(* had the end kept the selection, the same APPEND could only be credited to
   the dead connection 0 ("nobody" is not an allowed pick) *)
Lemma w_end_kept_refuted :
  let st := xrun init [(XOp (Select 0 0 false), mkChoice None)] in
  pick_ok st 2 0 None = false /\ pick_ok st 2 0 (Some 0) = true /\
  pick_ok (fst (xstep st (Drop 0 ELineLimit) (mkChoice None))) 2 0 None = true /\
  pick_ok (fst (xstep st (Drop 0 ELineLimit) (mkChoice None))) 2 0 (Some 0) = false.
Proof. vm_compute. repeat split. Qed.
