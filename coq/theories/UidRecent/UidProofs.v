(* UidRecent/UidProofs.v — C04: UIDs are strictly increasing, never reused and
   truthfully reported (proofs about UidRecent/Model.v). *)
From PV Require Import Base.Prelude Base.Decimal Wire.SeqSet Wire.SeqSetProofs.
From PV Require Import UidRecent.Model UidRecent.MapLemmas.
From Coq Require Import Sorting.Sorted.

Local Open Scope N_scope.

(* ------------------------------------------------------------ invariant *)
Record box_ok (b : box) : Prop := mk_box_ok {
  bo_log_asc : asc (map fst (b_log b));                      (* strictly increasing, no duplicates *)
  bo_log_rng : Forall (fun e => 0 < fst e <= b_max b) (b_log b);
  bo_msgs_asc : asc (map m_uid (b_msgs b));
  bo_msgs_log : forall m, In m (b_msgs b) -> In (m_uid m, m_mark m) (b_log b)
}.

Definition Inv_uid (st : sys) : Prop := forall i b, In (i, b) (boxes st) -> box_ok b.

(* how one mailbox may evolve: the log only grows, by entries above the
   old counter; the counter never decreases *)
Definition box_step (b b' : box) : Prop :=
  exists ext, b_log b' = b_log b ++ ext /\ Forall (fun e => b_max b < fst e) ext /\
              b_max b <= b_max b'.

Definition sys_step (st st' : sys) : Prop :=
  forall i b, lookup i (boxes st) = Some b ->
              exists b', lookup i (boxes st') = Some b' /\ box_step b b'.

Lemma box_step_refl b : box_step b b.
Proof. exists []. rewrite app_nil_r. repeat split; [constructor|lia]. Qed.

Lemma box_step_trans a b c : box_step a b -> box_step b c -> box_step a c.
Proof.
  intros (e1 & L1 & F1 & M1) (e2 & L2 & F2 & M2). exists (e1 ++ e2).
  rewrite L2, L1, app_assoc. repeat split; [|lia].
  apply Forall_app. split; [exact F1|].
  eapply Forall_impl; [|exact F2]. cbn. intros e He. lia.
Qed.

Lemma sys_step_refl st : sys_step st st.
Proof. intros i b H. exists b. split; [exact H|apply box_step_refl]. Qed.

Lemma sys_step_trans a b c : sys_step a b -> sys_step b c -> sys_step a c.
Proof.
  intros H1 H2 i x Hx. destruct (H1 _ _ Hx) as (y & Hy & S1).
  destruct (H2 _ _ Hy) as (z & Hz & S2). exists z. split; [exact Hz|].
  eapply box_step_trans; eauto.
Qed.

Definition good (st st' : sys) : Prop := (Inv_uid st -> Inv_uid st') /\ sys_step st st'.

Lemma good_refl st : good st st.
Proof. split; [auto|apply sys_step_refl]. Qed.

Lemma good_trans a b c : good a b -> good b c -> good a c.
Proof. intros [I1 S1] [I2 S2]. split; [auto|eapply sys_step_trans; eauto]. Qed.

Lemma good_same_boxes st st' : boxes st' = boxes st -> good st st'.
Proof.
  intro E. split.
  - unfold Inv_uid. rewrite E. auto.
  - intros i b H. exists b. rewrite E. split; [exact H|apply box_step_refl].
Qed.

(* replacing one mailbox by a successor *)
Lemma good_replace st i b b' :
  lookup i (boxes st) = Some b -> box_step b b' -> (box_ok b -> box_ok b') ->
  good st (set_boxes (replace i b' (boxes st)) st).
Proof.
  intros Hl Hs Hok. split.
  - intros Hinv j x Hin. cbn [boxes set_boxes] in Hin.
    apply In_replace in Hin as [E|Hin].
    + inversion E; subst. apply Hok. eapply Hinv. apply lookup_In. exact Hl.
    + eapply Hinv; eauto.
  - intros j x Hx. cbn [boxes set_boxes]. destruct (N.eq_dec j i) as [->|Hne].
    + exists b'. split; [eapply lookup_replace_eq; eauto|]. congruence.
    + exists x. rewrite lookup_replace_neq by exact Hne. split; [exact Hx|apply box_step_refl].
Qed.

(* ----------------------------------------------------------- primitives *)
Lemma boxes_add_recent t i u st : boxes (add_recent t i u st) = boxes st.
Proof. unfold add_recent. destruct (lookup t (sess st)); reflexivity. Qed.

Lemma asc_le_lt l x : asc l -> Forall (fun y => y <= x) l -> asc (l ++ [x + 1]).
Proof.
  intros Ha Hf. apply asc_app_one; [exact Ha|].
  eapply Forall_impl; [|exact Hf]. cbn. intros; lia.
Qed.

Lemma box_ok_add b rc dl mk :
  box_ok b ->
  box_ok (mkBox (b_max b + 1) (b_msgs b ++ [mkMsg (b_max b + 1) rc dl mk])
                (b_log b ++ [(b_max b + 1, mk)])).
Proof.
  intros [La Lr Ma Ml].
  assert (Hmsg : Forall (fun y => y <= b_max b) (map m_uid (b_msgs b))).
  { apply Forall_forall. intros y Hy. apply in_map_iff in Hy as (m & <- & Hm).
    apply Ml in Hm. rewrite Forall_forall in Lr. apply Lr in Hm. cbn [fst] in Hm. lia. }
  constructor; cbn [b_log b_msgs b_max].
  - rewrite map_app. cbn [map fst]. apply asc_le_lt; [exact La|].
    apply Forall_forall. intros y Hy. apply in_map_iff in Hy as (e & <- & He).
    rewrite Forall_forall in Lr. apply Lr in He. lia.
  - apply Forall_app. split.
    + eapply Forall_impl; [|exact Lr]. cbn. intros; lia.
    + constructor; [cbn [fst]; lia|constructor].
  - rewrite map_app. cbn [map m_uid]. apply asc_le_lt; assumption.
  - intros m Hm. apply in_app_iff in Hm as [Hm|[<-|[]]]; apply in_app_iff.
    + left. auto.
    + right. left. reflexivity.
Qed.

Lemma box_step_add b rc dl mk :
  box_step b (mkBox (b_max b + 1) (b_msgs b ++ [mkMsg (b_max b + 1) rc dl mk])
                    (b_log b ++ [(b_max b + 1, mk)])).
Proof.
  exists [(b_max b + 1, mk)]. cbn [b_log b_max]. repeat split; [|lia].
  constructor; [cbn [fst]; lia|constructor].
Qed.

Lemma deliver_good i c dl mk st : good st (fst (deliver i c dl mk st)).
Proof.
  unfold deliver. destruct (lookup i (boxes st)) as [b|] eqn:Hl; cbn [fst]; [|apply good_refl].
  destruct c as [t|].
  - eapply good_trans.
    + eapply good_replace; [exact Hl|apply box_step_add|apply box_ok_add].
    + apply good_same_boxes. apply boxes_add_recent.
  - eapply good_replace; [exact Hl|apply box_step_add|apply box_ok_add].
Qed.

Lemma deliver_result i c dl mk st b :
  lookup i (boxes st) = Some b ->
  snd (deliver i c dl mk st) = Some (b_max b + 1) /\
  lookup i (boxes (fst (deliver i c dl mk st))) =
    Some (mkBox (b_max b + 1)
                (b_msgs b ++ [mkMsg (b_max b + 1) (match c with None => true | Some _ => false end)
                                    dl mk])
                (b_log b ++ [(b_max b + 1, mk)])) /\
  forall j, j <> i -> lookup j (boxes (fst (deliver i c dl mk st))) = lookup j (boxes st).
Proof.
  intro Hl. unfold deliver. rewrite Hl. cbn [fst snd]. split; [reflexivity|].
  assert (E : boxes (match c with
                     | Some t => add_recent t i (b_max b + 1)
                         (set_boxes (replace i (mkBox (b_max b + 1)
                            (b_msgs b ++ [mkMsg (b_max b + 1)
                               (match c with None => true | Some _ => false end) dl mk])
                            (b_log b ++ [(b_max b + 1, mk)])) (boxes st)) st)
                     | None => set_boxes (replace i (mkBox (b_max b + 1)
                            (b_msgs b ++ [mkMsg (b_max b + 1)
                               (match c with None => true | Some _ => false end) dl mk])
                            (b_log b ++ [(b_max b + 1, mk)])) (boxes st)) st
                     end)
              = replace i (mkBox (b_max b + 1)
                            (b_msgs b ++ [mkMsg (b_max b + 1)
                               (match c with None => true | Some _ => false end) dl mk])
                            (b_log b ++ [(b_max b + 1, mk)])) (boxes st)).
  { destruct c; [rewrite boxes_add_recent|]; reflexivity. }
  rewrite E. split.
  - eapply lookup_replace_eq; eauto.
  - intros j Hj. apply lookup_replace_neq. exact Hj.
Qed.

Lemma deliver_none i c dl mk st :
  lookup i (boxes st) = None -> deliver i c dl mk st = (st, None).
Proof. intro H. unfold deliver. rewrite H. reflexivity. Qed.

Lemma box_ok_filter b f :
  box_ok b -> box_ok (mkBox (b_max b) (filter f (b_msgs b)) (b_log b)).
Proof.
  intros [La Lr Ma Ml]. constructor; cbn [b_log b_msgs b_max]; auto.
  - apply asc_map_filter. exact Ma.
  - intros m Hm. apply filter_In in Hm as [Hm _]. auto.
Qed.

Lemma remove_msgs_good i drop st : good st (remove_msgs i drop st).
Proof.
  unfold remove_msgs. destruct (lookup i (boxes st)) as [b|] eqn:Hl; [|apply good_refl].
  eapply good_replace; [exact Hl| |apply box_ok_filter].
  exists []. cbn [b_log b_max]. rewrite app_nil_r. repeat split; [constructor|lia].
Qed.

Lemma box_ok_map b f :
  (forall m, m_uid (f m) = m_uid m /\ m_mark (f m) = m_mark m) ->
  box_ok b -> box_ok (mkBox (b_max b) (map f (b_msgs b)) (b_log b)).
Proof.
  intros Hf [La Lr Ma Ml]. constructor; cbn [b_log b_msgs b_max]; auto.
  - rewrite map_map. erewrite map_ext; [exact Ma|]. intro m. apply Hf.
  - intros m Hm. apply in_map_iff in Hm as (m0 & <- & Hm0).
    destruct (Hf m0) as [-> ->]. auto.
Qed.

Lemma map_msgs_good i f st :
  (forall m, m_uid (f m) = m_uid m /\ m_mark (f m) = m_mark m) -> good st (map_msgs i f st).
Proof.
  intro Hf. unfold map_msgs. destruct (lookup i (boxes st)) as [b|] eqn:Hl; [|apply good_refl].
  eapply good_replace; [exact Hl| |apply box_ok_map; exact Hf].
  exists []. cbn [b_log b_max]. rewrite app_nil_r. repeat split; [constructor|lia].
Qed.

Lemma box_ok_empty base : box_ok (empty_box base).
Proof.
  constructor; cbn; try constructor. intros m [].
Qed.

Lemma good_add_box st st' i base :
  boxes st' = boxes st ++ [(i, empty_box base)] -> good st st'.
Proof.
  intro E. split.
  - intros Hinv j x Hin. rewrite E in Hin. apply in_app_iff in Hin as [Hin|[Hin|[]]].
    + eapply Hinv; eauto.
    + inversion Hin; subst. apply box_ok_empty.
  - intros j x Hx. exists x. rewrite E, lookup_app, Hx. split; [reflexivity|apply box_step_refl].
Qed.

Lemma create_box_good nm st : good st (create_box nm st).
Proof. eapply good_add_box. reflexivity. Qed.

Lemma rename_box_good a b st : good st (rename_box a b st).
Proof.
  unfold rename_box. destruct (lookup a (names st)); [|apply good_refl].
  destruct (a =? INBOX).
  - eapply good_add_box. reflexivity.
  - apply good_same_boxes. reflexivity.
Qed.

Lemma rename_tree_good a b st : good st (rename_tree a b st).
Proof.
  unfold rename_tree. destruct (name_sub a), (name_sub b); try apply rename_box_good.
  eapply good_trans; apply rename_box_good.
Qed.

Lemma adopt_one_good i rc dl mk st : good st (adopt_one i rc dl mk st).
Proof.
  unfold adopt_one. destruct (lookup i (boxes st)) as [b|] eqn:Hl; [|apply good_refl].
  eapply good_replace; [exact Hl|apply box_step_add|apply box_ok_add].
Qed.

Lemma adopt_loop_good i ms : forall st, good st (adopt_loop i ms st).
Proof.
  induction ms as [|[[mk dl] rc] r IH]; intro st; cbn [adopt_loop]; [apply good_refl|].
  eapply good_trans; [apply adopt_one_good|apply IH].
Qed.

Lemma boxes_drop_sel s st : boxes (drop_sel s st) = boxes st.
Proof. reflexivity. Qed.

Lemma boxes_do_sync s sl b st : boxes (fst (do_sync s sl b st)) = boxes st.
Proof. unfold do_sync. destruct (sync_sel sl b). reflexivity. Qed.

Lemma boxes_post_sync s h st : boxes (fst (post_sync s h st)) = boxes st.
Proof.
  unfold post_sync. destruct (lookup s (sess st)) as [sl|]; [|reflexivity].
  assert (H : boxes (fst (match find_box st (s_name sl) with
                          | Some (i, b) => if i =? s_bid sl then do_sync s sl b st else (drop_sel s st, PBye)
                          | None => (drop_sel s st, PBye)
                          end)) = boxes st).
  { destruct (find_box st (s_name sl)) as [[i b]|]; [|reflexivity].
    destruct (i =? s_bid sl); [apply boxes_do_sync|reflexivity]. }
  destruct h as [i|]; [|exact H].
  destruct (i =? s_bid sl); [|exact H].
  destruct (lookup i (boxes st)); [apply boxes_do_sync|exact H].
Qed.

Lemma boxes_resync s st : boxes (fst (resync s st)) = boxes st.
Proof.
  unfold resync. destruct (resolve st s); try reflexivity; apply boxes_do_sync.
Qed.

Lemma append_loop_good i c ms : forall st, good st (fst (append_loop i c ms st)).
Proof.
  induction ms as [|[[mk dl] rc] r IH]; intro st; cbn [append_loop]; [apply good_refl|].
  pose proof (deliver_good i c dl mk st) as G.
  destruct (deliver i c dl mk st) as [st1 [u|]]; cbn [fst] in G.
  - specialize (IH st1). destruct (append_loop i c r st1) as [st2 us]. cbn [fst] in *.
    eapply good_trans; eauto.
  - eapply good_trans; [exact G|apply IH].
Qed.

Lemma copy_loop_good mv src dst c us : forall st, good st (fst (copy_loop mv src dst c us st)).
Proof.
  induction us as [|u r IH]; intro st; cbn [copy_loop]; [apply good_refl|].
  destruct (lookup src (boxes st)) as [b|]; [|apply IH].
  destruct (find_msg u b) as [m|]; [|apply IH].
  set (st0 := if mv then remove_msgs src (fun x => m_uid x =? u) st else st).
  assert (G0 : good st st0).
  { subst st0. destruct mv; [apply remove_msgs_good|apply good_refl]. }
  pose proof (deliver_good dst c (m_deleted m) (m_mark m) st0) as G.
  destruct (deliver dst c (m_deleted m) (m_mark m) st0) as [st1 [du|]]; cbn [fst] in G.
  - specialize (IH st1). destruct (copy_loop mv src dst c r st1) as [st2 ps]. cbn [fst] in *.
    eapply good_trans; [exact G0|]. eapply good_trans; eauto.
  - eapply good_trans; [exact G0|]. eapply good_trans; [exact G|apply IH].
Qed.

Lemma clear_recent_keeps m : m_uid (clear_recent m) = m_uid m /\ m_mark (clear_recent m) = m_mark m.
Proof. split; reflexivity. Qed.

Lemma select_new_good s nm ro st : good st (fst (select_new s nm ro st)).
Proof.
  unfold select_new. destruct (find_box st nm) as [[i b]|]; [|apply good_refl].
  destruct (ro || box_ro st i); cbn [fst].
  - apply good_same_boxes. reflexivity.
  - eapply good_trans; [apply (map_msgs_good i clear_recent st clear_recent_keeps)|].
    apply good_same_boxes. reflexivity.
Qed.

Lemma apply_store_keeps set md fd m :
  m_uid ((fun m => if in_set set (m_uid m) then apply_store md fd m else m) m) = m_uid m /\
  m_mark ((fun m => if in_set set (m_uid m) then apply_store md fd m else m) m) = m_mark m.
Proof. cbn beta. destruct (in_set set (m_uid m)); split; reflexivity. Qed.

Ltac pair_fst e :=
  let st' := fresh "st'" in let p := fresh "p" in let E := fresh "E" in
  destruct e as [st' p] eqn:E; cbn [fst];
  replace st' with (fst e) by (rewrite E; reflexivity).

(* every operation, whatever the environment's choice *)
Theorem step_good st o ch : good st (fst (step st o ch)).
Proof.
  destruct o; cbn [step].
  - (* Create *)
    destruct (nm =? INBOX); [apply good_refl|].
    destruct (lookup nm (names st)); [apply good_refl|].
    destruct (post_sync s None (create_box nm st)) as [st' p] eqn:E. cbn [fst].
    replace st' with (fst (post_sync s None (create_box nm st))) by (rewrite E; reflexivity).
    eapply good_trans; [apply create_box_good|]. apply good_same_boxes, boxes_post_sync.
  - (* Delete *)
    destruct (nm =? INBOX); [apply good_refl|].
    destruct (lookup nm (names st)); [|apply good_refl].
    destruct (post_sync s None (set_names (remove nm (names st)) st)) as [st' p] eqn:E. cbn [fst].
    replace st' with (fst (post_sync s None (set_names (remove nm (names st)) st)))
      by (rewrite E; reflexivity).
    apply good_same_boxes. rewrite boxes_post_sync. reflexivity.
  - (* Rename *)
    destruct (b =? INBOX); [apply good_refl|].
    destruct (in_tree st a && negb (in_tree st b)); [|apply good_refl].
    match goal with |- context [if ?c then _ else _] => destruct c end.
    + apply rename_tree_good.
    + destruct (post_sync s None (rename_tree a b st)) as [st' p] eqn:E. cbn [fst].
      replace st' with (fst (post_sync s None (rename_tree a b st))) by (rewrite E; reflexivity).
      eapply good_trans; [apply rename_tree_good|]. apply good_same_boxes, boxes_post_sync.
  - (* Append *)
    destruct (find_box st nm) as [[i b]|]; [|apply good_refl].
    destruct (box_ro st i); [apply good_refl|].
    destruct (pick_ok st s i (c_pick ch)); [|apply good_refl].
    pose proof (append_loop_good i (c_pick ch) ms st) as G.
    destruct (append_loop i (c_pick ch) ms st) as [st1 us]. cbn [fst] in G.
    destruct (post_sync s (Some i) st1) as [st2 p] eqn:E. cbn [fst].
    replace st2 with (fst (post_sync s (Some i) st1)) by (rewrite E; reflexivity).
    eapply good_trans; [exact G|]. apply good_same_boxes, boxes_post_sync.
  - (* Select *)
    eapply good_trans; [|apply select_new_good]. apply good_same_boxes. reflexivity.
  - (* Close *)
    destruct (lookup s (sess st)) as [sl|]; [|apply good_refl].
    destruct (s_ro sl); [apply good_same_boxes; reflexivity|].
    destruct (find_box st (s_name sl)) as [[i b]|]; [|apply good_same_boxes; reflexivity].
    destruct (i =? s_bid sl); [|apply good_same_boxes; reflexivity].
    cbn [fst]. eapply good_trans; [apply remove_msgs_good|]. apply good_same_boxes. reflexivity.
  - (* Logout *) apply good_same_boxes. reflexivity.
  - (* Noop *)
    destruct (resolve st s) as [| |sl i b]; try apply good_refl.
    destruct (do_sync s sl b st) as [st' p] eqn:E. cbn [fst].
    replace st' with (fst (do_sync s sl b st)) by (rewrite E; reflexivity).
    apply good_same_boxes, boxes_do_sync.
  - (* Expunge *)
    destruct (resolve st s) as [| |sl i b]; try apply good_refl.
    destruct (s_ro sl); [apply good_refl|].
    match goal with |- context [resync s ?X] =>
      destruct (resync s X) as [st2 p] eqn:E; cbn [fst];
      replace st2 with (fst (resync s X)) by (rewrite E; reflexivity);
      eapply good_trans; [apply remove_msgs_good|]; apply good_same_boxes, boxes_resync end.
  - (* Copy *)
    destruct (resolve st s) as [| |sl i b]; try apply good_refl.
    destruct (find_box st nm) as [[j bj]|]; [|apply good_refl].
    destruct (box_ro st j); [apply good_refl|].
    destruct (pick_ok st s j (c_pick ch)); [|apply good_refl].
    match goal with |- context [copy_loop false i j ?c ?us st] =>
      pose proof (copy_loop_good false i j c us st) as G;
      destruct (copy_loop false i j c us st) as [st1 ps] end.
    cbn [fst] in G.
    destruct (resync s st1) as [st2 p] eqn:E. cbn [fst].
    replace st2 with (fst (resync s st1)) by (rewrite E; reflexivity).
    eapply good_trans; [exact G|]. apply good_same_boxes, boxes_resync.
  - (* Move *)
    destruct (resolve st s) as [| |sl i b]; try apply good_refl.
    destruct (find_box st nm) as [[j bj]|]; [|apply good_refl].
    destruct (s_ro sl || box_ro st j); [apply good_refl|].
    destruct (pick_ok st s j (c_pick ch)); [|apply good_refl].
    match goal with |- context [copy_loop true i j ?c ?us st] =>
      pose proof (copy_loop_good true i j c us st) as G;
      destruct (copy_loop true i j c us st) as [st1 ps] end.
    cbn [fst] in G.
    destruct (resync s st1) as [st2 p] eqn:E. cbn [fst].
    replace st2 with (fst (resync s st1)) by (rewrite E; reflexivity).
    eapply good_trans; [exact G|]. apply good_same_boxes, boxes_resync.
  - (* Status *)
    destruct (find_box st nm) as [[i b]|]; [|apply good_refl].
    destruct (post_sync s (Some i) st) as [st1 p] eqn:E. cbn [fst].
    replace st1 with (fst (post_sync s (Some i) st)) by (rewrite E; reflexivity).
    apply good_same_boxes, boxes_post_sync.
  - (* Fetch *)
    destruct (resolve st s) as [| |sl i b]; try apply good_refl.
    destruct (do_sync s sl b st) as [st1 p] eqn:E.
    assert (G : good st st1).
    { replace st1 with (fst (do_sync s sl b st)) by (rewrite E; reflexivity).
      apply good_same_boxes, boxes_do_sync. }
    destruct (lookup s (sess st1)); exact G.
  - (* Store *)
    destruct (resolve st s) as [| |sl i b]; try apply good_refl.
    destruct (do_sync s sl b st) as [st1 p] eqn:E.
    assert (G : good st st1).
    { replace st1 with (fst (do_sync s sl b st)) by (rewrite E; reflexivity).
      apply good_same_boxes, boxes_do_sync. }
    destruct (s_ro sl); cbn [fst]; [exact G|].
    eapply good_trans; [exact G|]. apply map_msgs_good. intro m. apply apply_store_keeps.
  - (* Idle *) destruct (lookup s (sess st)); apply good_refl.
  - (* IdleWake *)
    destruct (resolve st s) as [| |sl i b]; try apply good_refl.
    destruct (do_sync s sl b st) as [st' p] eqn:E. cbn [fst].
    replace st' with (fst (do_sync s sl b st)) by (rewrite E; reflexivity).
    apply good_same_boxes, boxes_do_sync.
  - (* Done *)
    destruct (resolve st s) as [| |sl i b]; try apply good_refl.
    destruct (do_sync s sl b st) as [st' p] eqn:E. cbn [fst].
    replace st' with (fst (do_sync s sl b st)) by (rewrite E; reflexivity).
    apply good_same_boxes, boxes_do_sync.
  - (* MakeRo *)
    destruct (find_box st nm) as [[i b]|]; [|apply good_refl]. apply good_same_boxes. reflexivity.
  - (* Adopt *)
    destruct (find_box st nm) as [[i b]|]; [|apply good_refl]. apply adopt_loop_good.
Qed.

Lemma run_good tr : forall st, good st (run st tr).
Proof.
  induction tr as [|[o ch] r IH]; intro st; cbn [run fold_left]; [apply good_refl|].
  eapply good_trans; [apply step_good|]. apply IH.
Qed.

Lemma init_inv_uid base shared : Inv_uid (init_cfg base shared).
Proof.
  intros i b [E|[]]. inversion E; subst. apply box_ok_empty.
Qed.

Theorem inv_uid_reachable base shared tr : Inv_uid (run (init_cfg base shared) tr).
Proof. apply run_good. apply init_inv_uid. Qed.

(* ------------------------------------ consequences for single mailboxes *)
Lemma box_ok_live_lt b m : box_ok b -> In m (b_msgs b) -> 0 < m_uid m <= b_max b.
Proof.
  intros [_ Lr _ Ml] Hm. apply Ml in Hm. rewrite Forall_forall in Lr. apply Lr in Hm. exact Hm.
Qed.

(* one UID denotes one message within a mailbox's log *)
Lemma log_functional b u m1 m2 : box_ok b -> In (u, m1) (b_log b) -> In (u, m2) (b_log b) -> m1 = m2.
Proof.
  intros [La _ _ _]. apply asc_NoDup in La. revert La.
  induction (b_log b) as [|[u0 m0] r IH]; cbn [map fst In]; intros Hnd H1 H2; [destruct H1|].
  inversion Hnd as [|? ? Hni Hnd']; subst.
  destruct H1 as [E1|H1], H2 as [E2|H2].
  - congruence.
  - inversion E1; subst. exfalso. apply Hni. apply (in_map fst) in H2. exact H2.
  - inversion E2; subst. exfalso. apply Hni. apply (in_map fst) in H1. exact H1.
  - auto.
Qed.
