(* UidRecent/RecentProofs.v — C17: consequences of the invariant of
   RecentInv.v in the terms of the property statement. *)
From PV Require Import Base.Prelude Wire.SeqSet.
From PV Require Import UidRecent.Model UidRecent.MapLemmas UidRecent.UidProofs.
From PV Require Import UidRecent.RecentInv UidRecent.StepRel.
From Coq Require Import Sorting.Sorted.

Local Open Scope N_scope.

(* ------------------------------------------ (holders) + (stored bit) <= 1 *)
Lemma NoDup_map_inj {A B} (f : A -> B) l x y :
  NoDup (map f l) -> In x l -> In y l -> f x = f y -> x = y.
Proof.
  induction l as [|z r IH]; cbn [map In]; [intros _ []|].
  intros Hnd [E1|H1] [E2|H2] Hf; inversion Hnd as [|? ? Hni Hnd']; subst.
  - reflexivity.
  - exfalso. apply Hni. rewrite Hf. apply in_map. exact H2.
  - exfalso. apply Hni. rewrite <- Hf. apply in_map. exact H1.
  - auto.
Qed.

Theorem inv_recent_count st i u :
  full st -> (length (holders st i u) + stored_bit st i u <= 1)%nat.
Proof.
  intros [Iu I]. unfold holders. rewrite map_length.
  set (P := fun p : N * sel => (s_bid (snd p) =? i) && mem u (s_recent (snd p))).
  assert (HP : forall p, In p (sess st) -> P p = true ->
                         In (i, u, s_inst (snd p)) (held st)).
  { intros [s sl] Hin Hp. unfold P in Hp. cbn [snd] in *. apply andb_true_iff in Hp as [Hb Hm].
    apply N.eqb_eq in Hb. apply mem_In in Hm. rewrite <- Hb. eapply ir_held_in; eauto. }
  assert (H1 : (length (filter P (sess st)) <= 1)%nat).
  { apply filter_unique_length.
    - eapply NoDup_map_inv. exact (ir_keys _ I).
    - intros [s x] [t y] Hx Hy Px Py.
      pose proof (HP _ Hx Px) as Hhx. pose proof (HP _ Hy Py) as Hhy. cbn [snd] in *.
      eapply inst_unique; [exact (ir_insts _ I)|exact Hx|exact Hy|].
      eapply ir_held_fun; eauto. }
  unfold stored_bit. destruct (lookup i (boxes st)) as [b|] eqn:Hl; [|lia].
  assert (Hin : In (i, b) (boxes st)) by (apply lookup_In; exact Hl).
  assert (Hok : box_ok b) by (eapply Iu; eauto).
  set (Q := fun m => (m_uid m =? u) && m_recent m).
  assert (H2 : (length (filter Q (b_msgs b)) <= 1)%nat).
  { apply filter_unique_length.
    - eapply NoDup_map_inv. apply asc_NoDup. exact (bo_msgs_asc _ Hok).
    - intros x y Hx Hy Qx Qy. unfold Q in *.
      apply andb_true_iff in Qx as [Ex _]. apply andb_true_iff in Qy as [Ey _].
      apply N.eqb_eq in Ex. apply N.eqb_eq in Ey.
      eapply (NoDup_map_inj m_uid); eauto; [apply asc_NoDup; exact (bo_msgs_asc _ Hok)|congruence]. }
  destruct (filter P (sess st)) as [|p ps] eqn:EP; [cbn [length]; lia|].
  destruct (filter Q (b_msgs b)) as [|m ms] eqn:EQ; [cbn [length] in *; lia|].
  exfalso.
  assert (Hp : In p (filter P (sess st))) by (rewrite EP; left; reflexivity).
  assert (Hm : In m (filter Q (b_msgs b))) by (rewrite EQ; left; reflexivity).
  apply filter_In in Hp as [Hp Pp]. apply filter_In in Hm as [Hm Qm].
  unfold Q in Qm. apply andb_true_iff in Qm as [Eu Hr]. apply N.eqb_eq in Eu.
  pose proof (HP _ Hp Pp) as Hh. rewrite <- Eu in Hh.
  eapply (ir_stored _ I); eauto.
Qed.

(* --------------------------------------------- the hand-out log only grows *)
Definition held_ext (st st' : sys) : Prop := exists ext, held st' = held st ++ ext.

Lemma held_ext_refl st : held_ext st st.
Proof. exists []. symmetry. apply app_nil_r. Qed.

Lemma held_ext_trans a b c : held_ext a b -> held_ext b c -> held_ext a c.
Proof. intros [e1 H1] [e2 H2]. exists (e1 ++ e2). rewrite H2, H1, app_assoc. reflexivity. Qed.

Lemma held_same st st' : held st' = held st -> held_ext st st'.
Proof. intro E. exists []. rewrite E. symmetry. apply app_nil_r. Qed.

Lemma held_map_msgs i f st : held (map_msgs i f st) = held st.
Proof. unfold map_msgs. destruct (lookup i (boxes st)); reflexivity. Qed.

Lemma held_remove_msgs i f st : held (remove_msgs i f st) = held st.
Proof. unfold remove_msgs. destruct (lookup i (boxes st)); reflexivity. Qed.

Lemma held_ext_step st o ch : held_ext st (fst (step st o ch)).
Proof.
  apply (step_rel held_ext (fun _ _ => True)); auto using held_ext_refl.
  - exact held_ext_trans.
  - intros i c dl mk s0. unfold deliver. destruct (lookup i (boxes s0)); [|apply held_ext_refl].
    cbn [fst]. destruct c as [t|]; [|apply held_same; reflexivity].
    unfold add_recent. cbn [sess set_boxes]. destruct (lookup t (sess s0)).
    + eexists. reflexivity.
    + apply held_same. reflexivity.
  - intros. apply held_same, held_remove_msgs.
  - intros. apply held_same, held_map_msgs.
  - intros s sl b s0. unfold do_sync. destruct (sync_sel sl b). apply held_same. reflexivity.
  - intros. apply held_same. reflexivity.
  - intros. apply held_same. reflexivity.
  - intros a b s0. unfold rename_box. destruct (lookup a (names s0)); [|apply held_ext_refl].
    destruct (a =? INBOX); apply held_same; reflexivity.
  - intros. apply held_same. reflexivity.
  - intros. apply held_same. reflexivity.
  - intros i rc dl mk s0. apply held_same. unfold adopt_one. destruct (lookup i (boxes s0)); reflexivity.
  - intros s nm ro s0 _. unfold select_new. destruct (find_box (drop_sel s s0) nm) as [[i b]|];
      [|apply held_ext_refl].
    destruct (ro || box_ro (drop_sel s s0) i); cbn [fst].
    + eexists. reflexivity.
    + eexists. cbn [held add_sel]. rewrite held_map_msgs. reflexivity.
Qed.

Lemma held_ext_run tr : forall st, held_ext st (run st tr).
Proof.
  induction tr as [|[o ch] r IH]; intro st; cbn [run fold_left]; [apply held_ext_refl|].
  eapply held_ext_trans; [apply held_ext_step|apply IH].
Qed.

(* A selection that shows u \Recent (FETCH puts \Recent on u iff u is in
   the selection's recent set) at one time, and a selection that shows it at
   any later time, are the same SELECT, and it was a read-write one. *)
Theorem reported_to_one_selection st1 tr s1 sl1 s2 sl2 u :
  full st1 ->
  lookup s1 (sess st1) = Some sl1 -> In u (s_recent sl1) ->
  lookup s2 (sess (run st1 tr)) = Some sl2 -> In u (s_recent sl2) ->
  s_bid sl1 = s_bid sl2 ->
  s_inst sl1 = s_inst sl2 /\ s_ro sl1 = false /\ s_ro sl2 = false.
Proof.
  intros F1 H1 U1 H2 U2 Eb.
  pose proof (run_full tr st1 F1) as F2.
  destruct F1 as [_ I1]. destruct F2 as [_ I2].
  apply lookup_In in H1. apply lookup_In in H2.
  pose proof (ir_held_in _ I1 _ _ _ H1 U1) as K1.
  pose proof (ir_held_in _ I2 _ _ _ H2 U2) as K2.
  destruct (held_ext_run tr st1) as [ext E].
  assert (K1' : In (s_bid sl2, u, s_inst sl1) (held (run st1 tr))).
  { rewrite E. apply in_app_iff. left. rewrite <- Eb. exact K1. }
  split; [eapply ir_held_fun; eauto|].
  split.
  - destruct (s_ro sl1) eqn:R; [|reflexivity]. rewrite (ir_ro _ I1 _ _ H1 R) in U1. destruct U1.
  - destruct (s_ro sl2) eqn:R; [|reflexivity]. rewrite (ir_ro _ I2 _ _ H2 R) in U2. destruct U2.
Qed.

(* ------------------------------------------------ read-only never consumes *)
Theorem examine_consumes_nothing st s nm ch :
  let st' := fst (step st (Select s nm true) ch) in
  boxes st' = boxes st /\ held st' = held st /\
  forall t, t <> s -> lookup t (sess st') = lookup t (sess st).
Proof.
  cbn [step]. unfold select_new.
  destruct (find_box (drop_sel s st) nm) as [[i b]|]; cbn [orb fst boxes held sess add_sel drop_sel set_sess].
  - repeat split; [apply app_nil_r|]. intros t Ht. rewrite lookup_app, lookup_remove_neq by exact Ht.
    destruct (lookup t (sess st)); [reflexivity|]. cbn [lookup].
    destruct (N.eqb_spec s t); [congruence|reflexivity].
  - repeat split. intros t Ht. apply lookup_remove_neq. exact Ht.
Qed.

Theorem readonly_holds_nothing base shared tr s sl :
  lookup s (sess (run (init_cfg base shared) tr)) = Some sl -> s_ro sl = true -> s_recent sl = [].
Proof.
  intros H R. destruct (full_reachable base shared tr) as [_ I].
  eapply ir_ro; eauto. apply lookup_In. exact H.
Qed.

(* --------------------------------- the first read-write SELECT claims them *)
Lemma find_box_lookup st nm i b : find_box st nm = Some (i, b) -> lookup i (boxes st) = Some b.
Proof.
  unfold find_box. destruct (lookup nm (names st)) as [j|]; [|discriminate].
  destruct (lookup j (boxes st)) as [x|] eqn:E; [|discriminate]. intro H. inversion H; subst. exact E.
Qed.

Theorem first_rw_select_claims st s nm ch i b :
  find_box st nm = Some (i, b) -> box_ro st i = false ->
  exists sl' b',
    snd (step st (Select s nm false) ch)
      = OSelect i false (nlen (b_msgs b)) (nlen (stored_recent b)) (b_max b + 1) /\
    lookup s (sess (fst (step st (Select s nm false) ch))) = Some sl' /\
    s_bid sl' = i /\ s_ro sl' = false /\ s_view sl' = live_uids b /\
    s_recent sl' = stored_recent b /\ s_ann sl' = nlen (stored_recent b) /\
    lookup i (boxes (fst (step st (Select s nm false) ch))) = Some b' /\
    map m_uid (b_msgs b') = map m_uid (b_msgs b) /\
    forall m, In m (b_msgs b') -> m_recent m = false.
Proof.
  intros Hf Hro. cbn [step]. unfold select_new.
  assert (Hf' : find_box (drop_sel s st) nm = Some (i, b)) by exact Hf.
  assert (Hro' : box_ro (drop_sel s st) i = false) by exact Hro.
  rewrite Hf', Hro'. cbn [orb fst snd].
  pose proof (find_box_lookup _ _ _ _ Hf) as Hl.
  eexists. exists (mkBox (b_max b) (map clear_recent (b_msgs b)) (b_log b)).
  split; [reflexivity|]. split.
  - cbn [sess add_sel]. rewrite lookup_app.
    replace (sess (map_msgs i clear_recent (drop_sel s st))) with (remove s (sess st))
      by (unfold map_msgs; destruct (lookup i (boxes (drop_sel s st))); reflexivity).
    rewrite lookup_remove_eq. cbn [lookup]. rewrite N.eqb_refl. reflexivity.
  - cbn [s_bid s_ro s_view s_recent s_ann]. repeat split.
    + cbn [boxes add_sel]. unfold map_msgs. cbn [boxes drop_sel set_sess]. rewrite Hl.
      cbn [boxes set_boxes]. eapply lookup_replace_eq; eauto.
    + cbn [b_msgs]. rewrite map_map. reflexivity.
    + cbn [b_msgs]. intros m Hm. apply in_map_iff in Hm as (m0 & <- & _). reflexivity.
Qed.

(* A stored \Recent bit survives every operation except a read-write SELECT
   of that very mailbox (and the disappearance of the message). *)
Definition keeps (b b' : box) : Prop :=
  b_max b <= b_max b' /\
  forall m', In m' (b_msgs b') -> m_uid m' <= b_max b ->
             exists m, In m (b_msgs b) /\ m_uid m = m_uid m' /\ m_recent m = m_recent m'.

Definition Rkeep (i : N) (st st' : sys) : Prop :=
  forall b, lookup i (boxes st) = Some b ->
            exists b', lookup i (boxes st') = Some b' /\ keeps b b'.

Lemma keeps_refl b : keeps b b.
Proof. split; [lia|]. intros m Hm _. eauto. Qed.

Lemma keeps_trans a b c : keeps a b -> keeps b c -> keeps a c.
Proof.
  intros [M1 K1] [M2 K2]. split; [lia|]. intros m'' Hm Hle.
  destruct (K2 _ Hm ltac:(lia)) as (m' & Hm' & Eu & Er).
  destruct (K1 _ Hm' ltac:(lia)) as (m & Hm0 & Eu0 & Er0).
  exists m. repeat split; [exact Hm0|congruence|congruence].
Qed.

Lemma Rkeep_refl i st : Rkeep i st st.
Proof. intros b H. exists b. split; [exact H|apply keeps_refl]. Qed.

Lemma Rkeep_trans i a b c : Rkeep i a b -> Rkeep i b c -> Rkeep i a c.
Proof.
  intros H1 H2 x Hx. destruct (H1 _ Hx) as (y & Hy & K1). destruct (H2 _ Hy) as (z & Hz & K2).
  exists z. split; [exact Hz|eapply keeps_trans; eauto].
Qed.

Lemma Rkeep_same i st st' : boxes st' = boxes st -> Rkeep i st st'.
Proof. intros E b H. exists b. rewrite E. split; [exact H|apply keeps_refl]. Qed.

Lemma Rkeep_replace i j st b b' :
  lookup j (boxes st) = Some b -> keeps b b' ->
  Rkeep i st (set_boxes (replace j b' (boxes st)) st).
Proof.
  intros Hl K x Hx. cbn [boxes set_boxes]. destruct (N.eq_dec i j) as [->|Hne].
  - exists b'. split; [eapply lookup_replace_eq; eauto|]. congruence.
  - exists x. rewrite lookup_replace_neq by exact Hne. split; [exact Hx|apply keeps_refl].
Qed.

Definition not_rw_select_of (i : N) (st : sys) (o : op) : Prop :=
  match o with
  | Select s nm false => forall b, find_box st nm <> Some (i, b)
  | _ => True
  end.

Lemma Rkeep_step i st o ch : not_rw_select_of i st o -> Rkeep i st (fst (step st o ch)).
Proof.
  apply (step_rel (Rkeep i) (not_rw_select_of i)); auto using Rkeep_refl.
  - apply Rkeep_trans.
  - intros j c dl mk s0. unfold deliver. destruct (lookup j (boxes s0)) as [b|] eqn:Hl;
      [|apply Rkeep_refl]. cbn [fst].
    assert (K : forall rc, keeps b (mkBox (b_max b + 1) (b_msgs b ++ [mkMsg (b_max b + 1) rc dl mk])
                                          (b_log b ++ [(b_max b + 1, mk)]))).
    { intro rc. split; cbn [b_max b_msgs]; [lia|].
      intros m' Hm Hle. apply in_app_iff in Hm as [Hm|[<-|[]]]; [eauto|]. cbn [m_uid] in Hle. lia. }
    destruct c as [t|].
    + eapply Rkeep_trans; [|apply Rkeep_same; apply boxes_add_recent].
      eapply Rkeep_replace; [exact Hl|apply K].
    + eapply Rkeep_replace; [exact Hl|apply K].
  - intros j drop s0. unfold remove_msgs. destruct (lookup j (boxes s0)) as [b|] eqn:Hl;
      [|apply Rkeep_refl].
    eapply Rkeep_replace; [exact Hl|]. split; cbn [b_max b_msgs]; [lia|].
    intros m' Hm _. apply filter_In in Hm as [Hm _]. eauto.
  - intros j set md fd s0. unfold map_msgs. destruct (lookup j (boxes s0)) as [b|] eqn:Hl;
      [|apply Rkeep_refl].
    eapply Rkeep_replace; [exact Hl|]. split; cbn [b_max b_msgs]; [lia|].
    intros m' Hm _. apply in_map_iff in Hm as (m0 & <- & Hm0). exists m0.
    destruct (in_set set (m_uid m0)); auto.
  - intros. apply Rkeep_same, boxes_do_sync.
  - intros. apply Rkeep_same. reflexivity.
  - intros nm s0 b H. exists b. cbn [boxes create_box]. rewrite lookup_app, H.
    split; [reflexivity|apply keeps_refl].
  - intros a b s0. unfold rename_box. destruct (lookup a (names s0)); [|apply Rkeep_refl].
    destruct (a =? INBOX); [|apply Rkeep_same; reflexivity].
    intros x H. exists x. cbn [boxes]. rewrite lookup_app, H. split; [reflexivity|apply keeps_refl].
  - intros. apply Rkeep_same. reflexivity.
  - intros. apply Rkeep_same. reflexivity.
  - intros j rc dl mk s0. unfold adopt_one. destruct (lookup j (boxes s0)) as [b|] eqn:Hl;
      [|apply Rkeep_refl].
    eapply Rkeep_replace; [exact Hl|]. split; cbn [b_max b_msgs]; [lia|].
    intros m' Hm Hle. apply in_app_iff in Hm as [Hm|[<-|[]]]; [eauto|]. cbn [m_uid] in Hle. lia.
  - intros s nm ro s0 Hal. unfold select_new.
    destruct (find_box (drop_sel s s0) nm) as [[j b]|] eqn:Hf; [|apply Rkeep_refl].
    destruct (ro || box_ro (drop_sel s s0) j) eqn:Hor; cbn [fst]; [apply Rkeep_same; reflexivity|].
    apply orb_false_iff in Hor as [-> _].
    cbn [not_rw_select_of] in Hal.
    assert (Hne : i <> j) by (intros ->; exact (Hal b Hf)).
    apply Rkeep_trans with (map_msgs j clear_recent (drop_sel s s0));
      [|apply Rkeep_same; reflexivity].
    unfold map_msgs. destruct (lookup j (boxes (drop_sel s s0))) as [bj|]; [|apply Rkeep_refl].
    intros x Hx. exists x. cbn [boxes set_boxes]. rewrite lookup_replace_neq by exact Hne.
    split; [exact Hx|apply keeps_refl].
Qed.

Theorem stored_recent_survives i st o ch b m :
  full st -> not_rw_select_of i st o ->
  lookup i (boxes st) = Some b -> In m (b_msgs b) -> m_recent m = true ->
  exists b', lookup i (boxes (fst (step st o ch))) = Some b' /\
             forall m', In m' (b_msgs b') -> m_uid m' = m_uid m -> m_recent m' = true.
Proof.
  intros [Iu I] Hal Hl Hm Hr. destruct (Rkeep_step i st o ch Hal b Hl) as (b' & Hl' & [_ K]).
  exists b'. split; [exact Hl'|]. intros m' Hm' Eu.
  assert (Hok : box_ok b) by (eapply Iu; apply lookup_In; exact Hl).
  pose proof (box_ok_live_lt _ _ Hok Hm) as Hle.
  destruct (K _ Hm' ltac:(lia)) as (m0 & Hm0 & Eu0 & Er0).
  assert (m0 = m).
  { eapply (NoDup_map_inj m_uid); eauto; [apply asc_NoDup; exact (bo_msgs_asc _ Hok)|congruence]. }
  subst m0. congruence.
Qed.

(* a message delivered while no read-write selection of the mailbox exists
   is stored with the bit set *)
Theorem arrives_unselected_is_stored st s i c dl mk b :
  NoDup (map fst (sess st)) ->
  cfg_shared st = true -> candidates st i = [] -> pick_ok st s i c = true ->
  lookup i (boxes st) = Some b ->
  c = None /\
  exists b', lookup i (boxes (fst (deliver i c dl mk st))) = Some b' /\
             In (mkMsg (b_max b + 1) true dl mk) (b_msgs b').
Proof.
  intros Hnd Hsh Hc Hp Hl.
  assert (c = None).
  { destruct c as [t|]; [|reflexivity]. exfalso.
    apply pick_ok_valid in Hp; [|exact Hnd]. destruct Hp as (sl & Ht & Hb & Hr).
    assert (In t (candidates st i)); [|rewrite Hc in *; contradiction].
    unfold candidates. rewrite Hsh. apply in_map_iff. exists (t, sl). split; [reflexivity|].
    apply filter_In. split; [apply lookup_In; exact Ht|]. unfold rw_on. cbn [snd].
    rewrite Hb, N.eqb_refl, Hr. reflexivity. }
  subst c. split; [reflexivity|].
  destruct (deliver_result i None dl mk st b Hl) as (_ & Hb' & _).
  eexists. split; [exact Hb'|]. cbn [b_msgs]. apply in_app_iff. right. left. reflexivity.
Qed.

(* ------------------------------------------------------- RECENT counts *)
Lemma mem_cons u x r : mem u (x :: r) = (u =? x) || mem u r.
Proof. reflexivity. Qed.

Lemma filter_mem_cons x r l2 : NoDup l2 -> ~ In x r ->
  length (filter (fun u => mem u (x :: r)) l2)
  = ((if mem x l2 then 1 else 0) + length (filter (fun u => mem u r) l2))%nat.
Proof.
  intros H2 Hx. induction l2 as [|y q IHq]; [reflexivity|].
  inversion H2 as [|? ? Hy Hq]; subst. specialize (IHq Hq).
  cbn [filter]. rewrite (mem_cons y x r), (mem_cons x y q).
  destruct (N.eqb_spec y x) as [->|Hne].
  - rewrite N.eqb_refl. cbn [orb length].
    assert (Hq0 : mem x q = false) by (apply mem_false; exact Hy).
    assert (Hr0 : mem x r = false) by (apply mem_false; exact Hx).
    rewrite Hq0 in IHq. rewrite Hr0. rewrite IHq. reflexivity.
  - destruct (N.eqb_spec x y) as [E|_]; [congruence|]. cbn [orb].
    destruct (mem y r); cbn [length]; rewrite IHq; destruct (mem x q); lia.
Qed.

Lemma count_common (l1 l2 : list N) : NoDup l1 -> NoDup l2 ->
  length (filter (fun u => mem u l2) l1) = length (filter (fun u => mem u l1) l2).
Proof.
  revert l2. induction l1 as [|x r IH]; intros l2 H1 H2.
  - cbn [filter length]. induction l2 as [|y q IHq]; [reflexivity|]. cbn [filter mem existsb].
    inversion H2; subst. auto.
  - inversion H1 as [|? ? Hx Hr]; subst. cbn [filter].
    rewrite (filter_mem_cons x r l2 H2 Hx).
    destruct (mem x l2); cbn [length]; rewrite (IH l2 Hr H2); lia.
Qed.

Lemma filter_map_comm {A B} (g : A -> B) (f : B -> bool) l :
  filter f (map g l) = map g (filter (fun a => f (g a)) l).
Proof.
  induction l as [|a r IH]; cbn [map filter]; [reflexivity|].
  destruct (f (g a)); cbn [map]; rewrite IH; reflexivity.
Qed.

(* what a session sees: FETCH rows carry \Recent iff the UID is in its
   recent set; their number is the RECENT count last announced *)
Theorem fetch_count_agrees st s ch st' p rows :
  full st -> step st (Fetch s) ch = (st', OFetch p rows) ->
  exists sl', lookup s (sess st') = Some sl' /\
    (forall u r d m, In (u, r, d, m) rows -> r = mem u (s_recent sl')) /\
    nlen (filter (fun row => snd (fst (fst row))) rows) = s_ann sl'.
Proof.
  intros F. cbn [step]. destruct (resolve st s) as [| |sl i b] eqn:R; try discriminate.
  apply resolve_box in R as (Hl & Hf & ->).
  pose proof (full_do_sync st s sl b F Hl (find_box_In _ _ _ _ Hf)) as F1.
  unfold do_sync in *. unfold sync_sel in *. cbn [fst] in F1.
  set (sl1 := mkSel (s_bid sl) (s_name sl) (s_ro sl) (s_inst sl)
                    (filter (fun u => mem u (live_uids b)) (s_recent sl)) (live_uids b)
                    (nlen (filter (fun u => mem u (live_uids b))
                                  (filter (fun u => mem u (live_uids b)) (s_recent sl))))) in *.
  cbn [sess set_sess]. erewrite lookup_replace_eq by eauto.
  intro H. inversion H; subst. clear H. exists sl1. split.
  { cbn [sess set_sess]. eapply lookup_replace_eq; eauto. }
  split.
  - intros u r d m Hin. unfold fetch_rows in Hin. apply in_map_iff in Hin as (m0 & E & _).
    inversion E; subst. reflexivity.
  - destruct F as [Iu I]. destruct F1 as [_ I1].
    assert (Hin1 : In (s, sl1) (sess (set_sess (replace s sl1 (sess st)) st))).
    { cbn [sess set_sess]. eapply In_replace_new; eauto. }
    pose proof (ir_rec_nodup _ I1 _ _ Hin1) as Hnd. cbn [s_recent sl1] in Hnd.
    assert (Hok : box_ok b) by (eapply Iu; eapply find_box_In; eauto).
    unfold fetch_rows. subst sl1. cbn [s_recent s_ann]. unfold nlen. f_equal.
    rewrite filter_map_comm, map_length. cbn [fst snd].
    rewrite filter_idem.
    set (rec' := filter (fun u => mem u (live_uids b)) (s_recent sl)) in *.
    transitivity (length (filter (fun u => mem u rec') (live_uids b))).
    + unfold live_uids. rewrite filter_map_comm, map_length. reflexivity.
    + rewrite (count_common (live_uids b) rec'); [|apply asc_NoDup; exact (bo_msgs_asc _ Hok)|exact Hnd].
      subst rec'. rewrite filter_idem. reflexivity.
Qed.

(* what a sync announces is what the selection remembers as announced *)
Theorem sync_announces sl b :
  match y_recent (snd (sync_sel sl b)) with
  | Some c => s_ann (fst (sync_sel sl b)) = c /\ c <> s_ann sl
  | None => s_ann (fst (sync_sel sl b)) = s_ann sl
  end.
Proof.
  unfold sync_sel. cbn [fst snd y_recent s_ann].
  destruct (N.eqb_spec (nlen (filter (fun u => mem u (live_uids b))
                                     (filter (fun u => mem u (live_uids b)) (s_recent sl))))
                       (s_ann sl)) as [E|E]; [exact E|split; [reflexivity|exact E]].
Qed.

(* at every reachable state: announced count = messages seen flagged *)
Theorem announced_is_seen base shared tr s sl :
  lookup s (sess (run (init_cfg base shared) tr)) = Some sl ->
  s_ann sl = nlen (filter (fun u => mem u (s_view sl)) (s_recent sl)).
Proof.
  intro H. destruct (full_reachable base shared tr) as [_ I].
  eapply ir_ann; eauto. apply lookup_In. exact H.
Qed.

(* ------------------------------------------------ STORE cannot touch it *)
Definition recent_data (st : sys) :=
  (map (fun p => (fst p, map (fun m => (m_uid m, m_recent m)) (b_msgs (snd p)))) (boxes st),
   map (fun p => (fst p, s_recent (snd p))) (sess st),
   held st).

Lemma recent_data_map_msgs i f st :
  (forall m, m_uid (f m) = m_uid m /\ m_recent (f m) = m_recent m) ->
  recent_data (map_msgs i f st) = recent_data st.
Proof.
  intro Hf. unfold map_msgs. destruct (lookup i (boxes st)) as [b|] eqn:Hl; [|reflexivity].
  unfold recent_data. cbn [boxes sess held set_boxes]. f_equal. f_equal.
  revert Hl. induction (boxes st) as [|[j x] r IH]; cbn [lookup replace map]; [discriminate|].
  destruct (N.eqb_spec j i) as [->|Hne]; intro Hl; cbn [map fst snd].
  - inversion Hl; subst. cbn [b_msgs]. f_equal. f_equal. rewrite map_map.
    apply map_ext. intro m. destruct (Hf m) as [-> ->]. reflexivity.
  - f_equal. auto.
Qed.

(* whatever the mode and the flags (\Recent included), a STORE leaves every
   stored bit, every session's recent set and the hand-out log exactly as
   the NOOP that precedes it leaves them *)
Theorem store_cannot_touch_recent st s set md fd fr ch :
  recent_data (fst (step st (Store s set md fd fr) ch)) = recent_data (fst (step st (Noop s) ch)).
Proof.
  cbn [step]. destruct (resolve st s) as [| |sl i b]; try reflexivity.
  destruct (do_sync s sl b st) as [st1 p]. cbn [fst].
  destruct (s_ro sl); cbn [fst]; [reflexivity|].
  apply recent_data_map_msgs. intro m. destruct (in_set set (m_uid m)); split; reflexivity.
Qed.

(* ---------------------------------------------------- COPY carries nothing *)
(* every message a copy/move loop adds to the destination has its stored
   bit decided by the destination's selections alone (set iff nobody was
   picked); the source message's own \Recent status is not an input of
   [deliver] at all *)
Lemma copy_loop_new_bits mv src dst c us : forall st M,
  (forall b, lookup dst (boxes st) = Some b -> M <= b_max b /\
     forall m, In m (b_msgs b) -> M < m_uid m ->
               m_recent m = match c with None => true | Some _ => false end) ->
  forall b', lookup dst (boxes (fst (copy_loop mv src dst c us st))) = Some b' ->
    forall m, In m (b_msgs b') -> M < m_uid m ->
              m_recent m = match c with None => true | Some _ => false end.
Proof.
  induction us as [|u r IH]; intros st M H0; cbn [copy_loop].
  - cbn [fst]. intros b' Hb'. apply (H0 _ Hb').
  - destruct (lookup src (boxes st)) as [b|] eqn:Hs; [|apply IH; exact H0].
    destruct (find_msg u b) as [m0|]; [|apply IH; exact H0].
    set (st0 := if mv then remove_msgs src (fun x => m_uid x =? u) st else st).
    assert (H1 : forall b, lookup dst (boxes st0) = Some b -> M <= b_max b /\
              forall m, In m (b_msgs b) -> M < m_uid m ->
                        m_recent m = match c with None => true | Some _ => false end).
    { subst st0. destruct mv; [|exact H0]. unfold remove_msgs. rewrite Hs.
      cbn [boxes set_boxes]. intros x Hx. destruct (N.eq_dec dst src) as [->|Hne].
      - erewrite lookup_replace_eq in Hx by eauto. inversion Hx; subst. cbn [b_max b_msgs].
        destruct (H0 _ Hs) as [HM Hb]. split; [exact HM|].
        intros m Hm. apply filter_In in Hm as [Hm _]. auto.
      - rewrite lookup_replace_neq in Hx by exact Hne. auto. }
    assert (H2 : forall b, lookup dst (boxes (fst (deliver dst c (m_deleted m0) (m_mark m0) st0)))
                           = Some b -> M <= b_max b /\
              forall m, In m (b_msgs b) -> M < m_uid m ->
                        m_recent m = match c with None => true | Some _ => false end).
    { destruct (lookup dst (boxes st0)) as [bd|] eqn:Hd.
      - destruct (deliver_result dst c (m_deleted m0) (m_mark m0) st0 bd Hd) as (_ & Hb' & _).
        intros x Hx. rewrite Hb' in Hx. inversion Hx; subst. cbn [b_max b_msgs].
        destruct (H1 bd eq_refl) as [HM Hb]. split; [lia|].
        intros m Hm HMm. apply in_app_iff in Hm as [Hm|[<-|[]]]; [auto|reflexivity].
      - rewrite (deliver_none _ _ _ _ _ Hd). cbn [fst]. rewrite Hd. discriminate. }
    destruct (deliver dst c (m_deleted m0) (m_mark m0) st0) as [st1 [du|]]; cbn [fst] in H2.
    + specialize (IH st1 M H2). destruct (copy_loop mv src dst c r st1) as [st2 ps].
      cbn [fst] in *. exact IH.
    + apply IH. exact H2.
Qed.

Theorem copy_not_carried mv src dst c us st b b' m :
  Inv_uid st ->
  lookup dst (boxes st) = Some b ->
  lookup dst (boxes (fst (copy_loop mv src dst c us st))) = Some b' ->
  In m (b_msgs b') -> b_max b < m_uid m ->
  m_recent m = match c with None => true | Some _ => false end.
Proof.
  intros Iu Hl Hl' Hm Hlt.
  eapply (copy_loop_new_bits mv src dst c us st (b_max b)); eauto.
  intros x Hx. rewrite Hl in Hx. inversion Hx; subst. split; [lia|].
  intros m1 Hm1 Hlt1. exfalso.
  assert (Hok : box_ok x) by (eapply Iu; apply lookup_In; exact Hl).
  pose proof (box_ok_live_lt _ _ Hok Hm1). lia.
Qed.

(* ------------------------------------------------ reachable-state versions *)
Theorem inv_recent_reachable base shared tr i u :
  let st := run (init_cfg base shared) tr in
  (length (holders st i u) + stored_bit st i u <= 1)%nat.
Proof. intros. apply inv_recent_count. apply full_reachable. Qed.

Theorem reported_reachable base shared tr0 tr s1 sl1 s2 sl2 u :
  let st1 := run (init_cfg base shared) tr0 in
  lookup s1 (sess st1) = Some sl1 -> In u (s_recent sl1) ->
  lookup s2 (sess (run st1 tr)) = Some sl2 -> In u (s_recent sl2) ->
  s_bid sl1 = s_bid sl2 ->
  s_inst sl1 = s_inst sl2 /\ s_ro sl1 = false /\ s_ro sl2 = false.
Proof. intros. eapply reported_to_one_selection; eauto. apply full_reachable. Qed.
