(* UidRecent/Witness.v — concrete histories evaluated in the model: they show
   the hypotheses of the C04/C17 theorems are satisfiable by non-trivial
   executions and pin the behaviour of the three fixed defects. *)
From PV Require Import Base.Prelude Wire.SeqSet.
From PV Require Import UidRecent.Model UidRecent.Check.

Local Open Scope N_scope.

Definition ch0 : choice := mkChoice None.
Definition chp (t : N) : choice := mkChoice (Some t).

(* connection 1 EXAMINEs INBOX and APPENDs to it (the \Recent it asks for is
   dropped); connection 2 then SELECTs INBOX read-write *)
Definition w_examine_append : list (op * choice) :=
  [ (Select 1 INBOX true, ch0);
    (Append 1 INBOX [(7, false, true)], ch0);
    (Fetch 1, ch0);
    (Select 2 INBOX false, ch0);
    (Fetch 2, ch0) ].

Definition outs (tr : list (op * choice)) : list out :=
  snd (fold_left (fun acc oc => let '(st, os) := acc in
                                let '(st', o) := step st (fst oc) (snd oc) in (st', os ++ [o]))
                 tr (init, [])).

(* the appended message is stored \Recent, the examining connection never
   sees it flagged, the first read-write SELECT is told RECENT 1 and sees it
   flagged *)
Lemma w_examine_append_outs :
  outs w_examine_append =
  [ OSelect 0 true 0 0 101;
    OAppend 0 [49; 48; 49] (PSync (mkSync 0 (Some 1) None));
    OFetch (PSync (mkSync 0 None None)) [(101, false, false, 7)];
    OSelect 0 false 1 1 102;
    OFetch (PSync (mkSync 0 None None)) [(101, true, false, 7)] ].
Proof. vm_compute. reflexivity. Qed.

(* two read-write selections: any_selected may hand the new message to either
   one, never to both, never to the read-only third *)
Definition w_two_rw (t : N) : list (op * choice) :=
  [ (Select 1 INBOX false, ch0); (Select 2 INBOX false, ch0); (Select 3 INBOX true, ch0);
    (Append 4 INBOX [(9, false, false)], chp t);
    (Fetch 1, ch0); (Fetch 2, ch0); (Fetch 3, ch0) ].

Lemma w_two_rw_1 :
  skipn 4 (outs (w_two_rw 1)) =
  [ OFetch (PSync (mkSync 0 (Some 1) (Some 1))) [(101, true, false, 9)];
    OFetch (PSync (mkSync 0 (Some 1) None)) [(101, false, false, 9)];
    OFetch (PSync (mkSync 0 (Some 1) None)) [(101, false, false, 9)] ].
Proof. vm_compute. reflexivity. Qed.

Lemma w_two_rw_2 :
  skipn 4 (outs (w_two_rw 2)) =
  [ OFetch (PSync (mkSync 0 (Some 1) None)) [(101, false, false, 9)];
    OFetch (PSync (mkSync 0 (Some 1) (Some 1))) [(101, true, false, 9)];
    OFetch (PSync (mkSync 0 (Some 1) None)) [(101, false, false, 9)] ].
Proof. vm_compute. reflexivity. Qed.

(* picking the read-only selection, or nobody while candidates exist, is not
   a behaviour of the code *)
Lemma w_two_rw_bad :
  nth_error (outs (w_two_rw 3)) 3 = Some OBadChoice /\
  nth_error (outs [ (Select 1 INBOX false, ch0); (Append 4 INBOX [(9, false, false)], ch0) ]) 1
  = Some OBadChoice.
Proof. vm_compute. split; reflexivity. Qed.

(* expunge the highest UID, append again: the UID is not reused; COPY of
   101,103 into a renamed mailbox pairs in order; UIDNEXT follows *)
Definition w_uids : list (op * choice) :=
  [ (Append 1 INBOX [(1, false, false); (2, false, false); (3, true, false)], ch0);
    (Select 1 INBOX false, ch0);
    (Expunge 1 None, ch0);
    (Append 1 INBOX [(4, false, false)], chp 1);
    (Create 1 1, ch0);
    (Rename 2 1 2, ch0);
    (Copy 1 (UUids [104; 101]) 2, ch0);
    (Status 1 2, ch0);
    (Fetch 1, ch0) ].

Lemma w_uids_outs :
  outs w_uids =
  [ OAppend 0 [49; 48; 49; 58; 49; 48; 51] PNone;
    OSelect 0 false 3 3 104;
    OOk (PSync (mkSync 1 None (Some 2)));
    OAppend 0 [49; 48; 52] (PSync (mkSync 0 (Some 3) (Some 3)));
    OOk (PSync (mkSync 0 None None));
    OOk PNone;
    OCopy (Some (1, [49; 48; 49; 44; 49; 48; 52], [49; 48; 49; 58; 49; 48; 50]))
          (PSync (mkSync 0 None None));
    OStatus 1 2 2 103 (PSync (mkSync 0 None None));
    OFetch (PSync (mkSync 0 None None))
           [(101, true, false, 1); (102, true, false, 2); (104, true, false, 4)] ].
Proof. vm_compute. reflexivity. Qed.

(* fixed finding C04-F1: after RENAME INBOX by another connection the
   connection that had INBOX selected is answered NO (its mailbox is gone),
   and BYE by its next mailbox-independent command; the connection that
   renames the INBOX it has selected itself is not told by its own RENAME *)
Definition w_stale : list (op * choice) :=
  [ (Append 1 INBOX [(1, false, false)], ch0);
    (Select 0 INBOX false, ch0);
    (Select 2 INBOX false, ch0);
    (Rename 2 INBOX 1, ch0);
    (Append 1 INBOX [(2, false, false)], ch0);
    (Fetch 0, ch0); (Noop 2, ch0); (Status 0 INBOX, ch0) ].

Lemma w_stale_outs :
  skipn 3 (outs w_stale) =
  [ OOk PNone; OAppend 1 [49; 48; 49] PNone; ONo; ONo; OStatus 1 1 1 102 PBye ].
Proof. vm_compute. reflexivity. Qed.

(* DELETE + CREATE restart the UIDs under a new identity; a backend-read-only
   mailbox refuses APPEND/COPY and is selected read-only; sequence-number
   COPY; files adopted by a maildir reset (one in new/, one in cur/) *)
Definition w_more : list (op * choice) :=
  [ (Create 1 1, ch0); (Append 1 1 [(1, false, false); (2, false, false)], ch0);
    (Delete 1 1, ch0); (Create 1 1, ch0); (Append 1 1 [(3, false, false)], ch0);
    (Status 1 1, ch0);
    (MakeRo 1, ch0); (Append 1 1 [(4, false, false)], ch0); (Select 1 1 false, ch0);
    (Copy 1 (USeqs [1]) INBOX, ch0); (Copy 1 (USeqs [1; 5]) 1, ch0);
    (Adopt INBOX [(7, false, true); (8, true, false)], ch0);
    (Select 2 INBOX false, ch0); (Fetch 2, ch0) ].

Lemma w_more_outs :
  outs w_more =
  [ OOk PNone; OAppend 1 [49; 48; 49; 58; 49; 48; 50] PNone; OOk PNone; OOk PNone;
    OAppend 2 [49; 48; 49] PNone; OStatus 2 1 1 102 PNone;
    OOk PNone; ONo; OSelect 2 true 1 1 102;
    OCopy (Some (0, [49; 48; 49], [49; 48; 49])) (PSync (mkSync 0 None None)); ONo;
    OOk PNone; OSelect 0 false 3 2 104;
    OFetch (PSync (mkSync 0 None None))
           [(101, true, false, 3); (102, true, false, 7); (103, false, true, 8)] ].
Proof. vm_compute. reflexivity. Qed.
