(* UidRecent/UidTheorems.v — C04 in the terms of the property statement:
   strictly increasing / never reused UIDs, UIDNEXT bounds, RENAME, and the
   truth of APPENDUID / COPYUID as a client expands them. *)
From PV Require Import Base.Prelude Base.Decimal Wire.SeqSet Wire.SeqSetProofs.
From PV Require Import UidRecent.Model UidRecent.MapLemmas UidRecent.UidProofs.
From PV Require Import UidRecent.RecentInv.
From Coq Require Import Sorting.Sorted.

Local Open Scope N_scope.

Lemma find_box_lookup_u st nm i b : find_box st nm = Some (i, b) -> lookup i (boxes st) = Some b.
Proof.
  unfold find_box. destruct (lookup nm (names st)) as [j|]; [|discriminate].
  destruct (lookup j (boxes st)) as [x|] eqn:E; [|discriminate]. intro H. inversion H; subst. exact E.
Qed.

(* ------------------------------------------- strictly increasing, no reuse *)
Lemma run_sys_step tr st : sys_step st (run st tr).
Proof. exact (proj2 (run_good tr st)). Qed.

(* Every operation extends a mailbox's assignment log by UIDs that are above
   the counter, hence above every UID assigned there before (expunged or
   not), and the extended log is still strictly increasing. *)
Theorem uids_strictly_increasing base shared tr o ch i b :
  let st := run (init_cfg base shared) tr in
  lookup i (boxes st) = Some b ->
  exists b' ext,
    lookup i (boxes (fst (step st o ch))) = Some b' /\
    b_log b' = b_log b ++ ext /\
    asc (map fst (b_log b')) /\
    Forall (fun e => forall e0, In e0 (b_log b) -> fst e0 < fst e) ext.
Proof.
  intros st Hl.
  pose proof (inv_uid_reachable base shared tr) as Iu. fold st in Iu.
  destruct (step_good st o ch) as [Hinv Hstep].
  destruct (Hstep _ _ Hl) as (b' & Hl' & ext & Hlog & Hext & Hmax).
  exists b', ext. repeat split; try assumption.
  - apply (bo_log_asc b'). eapply (Hinv Iu). apply lookup_In. exact Hl'.
  - assert (Hok : box_ok b) by (eapply Iu; apply lookup_In; exact Hl).
    eapply Forall_impl; [|exact Hext]. cbn. intros e He e0 He0.
    pose proof (bo_log_rng _ Hok) as Hr. rewrite Forall_forall in Hr. specialize (Hr _ He0). lia.
Qed.

(* Within one mailbox identity (= one UIDVALIDITY) a UID denotes the same
   message at any two points of any history. *)
Theorem uid_never_reused base shared tr1 tr2 i b1 b2 u m1 m2 :
  let st1 := run (init_cfg base shared) tr1 in
  let st2 := run st1 tr2 in
  lookup i (boxes st1) = Some b1 -> lookup i (boxes st2) = Some b2 ->
  In (u, m1) (b_log b1) -> In (u, m2) (b_log b2) -> m1 = m2.
Proof.
  intros st1 st2 H1 H2 L1 L2.
  destruct (run_sys_step tr2 st1 _ _ H1) as (b2' & H2' & ext & Hlog & _).
  fold st2 in H2'. rewrite H2 in H2'. inversion H2'; subst b2'.
  assert (Iu2 : Inv_uid st2).
  { unfold st2, st1. unfold run. rewrite <- fold_left_app. apply inv_uid_reachable. }
  assert (Hok : box_ok b2) by (eapply Iu2; apply lookup_In; exact H2).
  eapply log_functional; [exact Hok| |exact L2]. rewrite Hlog. apply in_app_iff. left. exact L1.
Qed.

(* what UID FETCH finds under a UID is what the log says *)
Theorem fetch_finds_logged base shared tr i b m :
  lookup i (boxes (run (init_cfg base shared) tr)) = Some b -> In m (b_msgs b) ->
  In (m_uid m, m_mark m) (b_log b) /\
  forall m', In m' (b_msgs b) -> m_uid m' = m_uid m -> m' = m.
Proof.
  intros Hl Hm. pose proof (inv_uid_reachable base shared tr) as Iu.
  assert (Hok : box_ok b) by (eapply Iu; apply lookup_In; exact Hl).
  split; [apply (bo_msgs_log _ Hok); exact Hm|].
  intros m' Hm' E. pose proof (asc_NoDup _ (bo_msgs_asc _ Hok)) as Hnd.
  revert Hnd Hm Hm' E. clear. induction (b_msgs b) as [|x r IH]; cbn [map In]; [intros _ []|].
  intros Hnd [E1|H1] [E2|H2] E; inversion Hnd as [|? ? Hni Hnd']; subst.
  - reflexivity.
  - exfalso. apply Hni. rewrite <- E. apply in_map. exact H2.
  - exfalso. apply Hni. rewrite E. apply in_map. exact H1.
  - auto.
Qed.

(* ---------------------------------------------------------- UIDNEXT *)
Definition reported_uidnext (o : out) : option (N * N) :=
  match o with
  | OSelect i _ _ _ n => Some (i, n)
  | OStatus i _ _ n _ => Some (i, n)
  | _ => None
  end.

(* UIDNEXT reported by SELECT/EXAMINE/STATUS is above every existing UID and
   every UID ever assigned in that mailbox, and every UID assigned there
   afterwards is at least that number. *)
Theorem uidnext_bounds base shared tr o ch i n :
  let st := run (init_cfg base shared) tr in
  reported_uidnext (snd (step st o ch)) = Some (i, n) ->
  exists b, lookup i (boxes st) = Some b /\ n = b_max b + 1 /\
    (forall m, In m (b_msgs b) -> m_uid m < n) /\
    (forall e, In e (b_log b) -> fst e < n) /\
    forall tr' b', lookup i (boxes (run (fst (step st o ch)) tr')) = Some b' ->
      forall e, In e (b_log b') -> In e (b_log b) \/ n <= fst e.
Proof.
  intros st Hrep.
  pose proof (inv_uid_reachable base shared tr) as Iu. fold st in Iu.
  assert (Hcore : exists b, lookup i (boxes st) = Some b /\ n = b_max b + 1).
  { destruct o; cbn [step] in Hrep;
      repeat match type of Hrep with
             | context [match ?x with _ => _ end] => destruct x eqn:?; cbn [snd reported_uidnext] in Hrep
             end; try discriminate.
    - (* Select *)
      unfold select_new in Hrep.
      destruct (find_box (drop_sel s st) nm) as [[j bj]|] eqn:Hf; [|discriminate].
      destruct (ro || box_ro (drop_sel s st) j); cbn [snd reported_uidnext] in Hrep;
        inversion Hrep; subst;
        exists bj; split; try reflexivity; exact (find_box_lookup_u _ _ _ _ Hf).
    - (* Status *)
      inversion Hrep; subst. eexists. split; [|reflexivity].
      match goal with H : find_box st _ = Some _ |- _ => exact (find_box_lookup_u _ _ _ _ H) end. }
  destruct Hcore as (b & Hl & ->). exists b. split; [exact Hl|]. split; [reflexivity|].
  assert (Hok : box_ok b) by (eapply Iu; apply lookup_In; exact Hl).
  split; [|split].
  - intros m Hm. pose proof (box_ok_live_lt _ _ Hok Hm). lia.
  - intros e He. pose proof (bo_log_rng _ Hok) as Hr. rewrite Forall_forall in Hr.
    specialize (Hr _ He). lia.
  - intros tr' b' Hl' e He.
    destruct (proj2 (step_good st o ch) _ _ Hl) as (b1 & Hl1 & S1).
    destruct (run_sys_step tr' _ _ _ Hl1) as (b2 & Hl2 & S2).
    rewrite Hl' in Hl2. inversion Hl2; subst b2.
    destruct (box_step_trans _ _ _ S1 S2) as (ext & Hlog & Hext & _).
    rewrite Hlog in He. apply in_app_iff in He as [He|He]; [left; exact He|right].
    rewrite Forall_forall in Hext. specialize (Hext _ He). lia.
Qed.

(* -------------------------------------------------------------- RENAME *)
Lemma names_post_sync s h st : names (fst (post_sync s h st)) = names st.
Proof.
  unfold post_sync. destruct (lookup s (sess st)) as [sl|]; [|reflexivity].
  assert (Hd : forall b, names (fst (do_sync s sl b st)) = names st).
  { intro b. unfold do_sync. destruct (sync_sel sl b). reflexivity. }
  assert (H : names (fst (match find_box st (s_name sl) with
                          | Some (i, b) => if i =? s_bid sl then do_sync s sl b st else (drop_sel s st, PBye)
                          | None => (drop_sel s st, PBye)
                          end)) = names st).
  { destruct (find_box st (s_name sl)) as [[i b]|]; [|reflexivity].
    destruct (i =? s_bid sl); [apply Hd|reflexivity]. }
  destruct h as [i|]; [|exact H]. destruct (i =? s_bid sl); [|exact H].
  destruct (lookup i (boxes st)); [apply Hd|exact H].
Qed.

Lemma find_box_post_sync s h st nm : find_box (fst (post_sync s h st)) nm = find_box st nm.
Proof. unfold find_box. rewrite names_post_sync, boxes_post_sync. reflexivity. Qed.

Lemma lookup_remove_none {A} k a (l : list (N * A)) : lookup k l = None -> lookup k (remove a l) = None.
Proof.
  induction l as [|[k' v] r IH]; cbn [lookup remove]; [auto|].
  destruct (N.eqb_spec k' k) as [->|Hne]; [discriminate|]. intro H.
  destruct (k' =? a); [auto|]. cbn [lookup]. destruct (N.eqb_spec k' k); [contradiction|auto].
Qed.

(* RENAME carries the mailbox object: counter, log, messages and identity
   (UIDVALIDITY) are reachable under the new name, unchanged; renaming INBOX
   leaves a brand-new empty INBOX with a fresh identity.  (Stated for a name
   without an existing inferior; an inferior is carried the same way by the
   second [rename_box] of [rename_tree].) *)
Lemma name_sub_spec p c : name_sub p = Some c -> (1 <= p <= 3) /\ c = p + 4.
Proof.
  unfold name_sub. destruct (N.leb_spec 1 p) as [H1|H1], (N.leb_spec p 3) as [H3|H3];
    cbn [andb]; try discriminate.
  intro E. inversion E. lia.
Qed.

Lemma rename_box_find st a b i bx :
  Inv_rec st -> b <> INBOX -> find_box st a = Some (i, bx) -> lookup b (names st) = None ->
  let st' := rename_box a b st in
  find_box st' b = Some (i, bx) /\
  (a <> INBOX -> find_box st' a = None) /\
  (a = INBOX -> find_box st' INBOX = Some (next_bid st, empty_box (cfg_base st)) /\
                next_bid st <> i).
Proof.
  intros I Hb Hf Hnb st'. subst st'.
  assert (Ha : lookup a (names st) = Some i).
  { unfold find_box in Hf. destruct (lookup a (names st)) as [j|]; [|discriminate].
    destruct (lookup j (boxes st)); [|discriminate]. inversion Hf; subst. reflexivity. }
  pose proof (find_box_lookup_u _ _ _ _ Hf) as Hi.
  unfold rename_box. rewrite Ha.
  assert (Hfresh : lookup (next_bid st) (boxes st) = None).
  { apply notin_lookup_None. intro Hin. apply in_map_iff in Hin as ([j x] & Ej & Hx).
    cbn [fst] in Ej. subst j. pose proof (ir_box_lt _ I _ _ Hx). lia. }
  destruct (N.eqb_spec a INBOX) as [->|Hne]; unfold find_box; cbn [names boxes set_names].
  - split; [|split; [congruence|intros _]].
    + rewrite lookup_app, lookup_replace_neq by exact Hb. rewrite Hnb. cbn [lookup].
      rewrite N.eqb_refl, lookup_app, Hi. reflexivity.
    + rewrite lookup_app. erewrite lookup_replace_eq by eauto.
      rewrite lookup_app, Hfresh. cbn [lookup]. rewrite N.eqb_refl. split; [reflexivity|].
      intros E'. rewrite E' in Hfresh. rewrite Hi in Hfresh. discriminate.
  - split; [|split; [intros _|contradiction]].
    + rewrite lookup_app, (lookup_remove_none _ _ _ Hnb). cbn [lookup]. rewrite N.eqb_refl, Hi.
      reflexivity.
    + rewrite lookup_app, lookup_remove_eq. cbn [lookup].
      destruct (N.eqb_spec b a) as [->|_]; [congruence|reflexivity].
Qed.

Theorem rename_carries st s a b ch i bx :
  full st -> b <> INBOX -> find_box st a = Some (i, bx) -> in_tree st b = false ->
  (forall ca, name_sub a = Some ca -> has_name st ca = false) ->
  let st' := fst (step st (Rename s a b) ch) in
  find_box st' b = Some (i, bx) /\
  (a <> INBOX -> find_box st' a = None) /\
  (a = INBOX -> find_box st' INBOX = Some (next_bid st, empty_box (cfg_base st)) /\
                next_bid st <> i).
Proof.
  intros [_ I] Hb Hf Htb Hnosub st'. subst st'. cbn [step].
  destruct (N.eqb_spec b INBOX) as [|_]; [contradiction|].
  assert (Hta : in_tree st a = true).
  { unfold in_tree, has_name, find_box in *. destruct (lookup a (names st)); [reflexivity|discriminate]. }
  assert (Hnb : lookup b (names st) = None).
  { unfold in_tree, has_name in Htb. destruct (lookup b (names st)); [discriminate|reflexivity]. }
  rewrite Hta, Htb. cbn [andb negb].
  assert (Et : rename_tree a b st = rename_box a b st).
  { unfold rename_tree. destruct (name_sub a) as [ca|] eqn:Ea; [|reflexivity].
    destruct (name_sub b) as [cb|] eqn:Eb; [|reflexivity].
    specialize (Hnosub ca eq_refl). unfold rename_box at 1.
    assert (Hc : lookup ca (names (rename_box a b st)) = None).
    { unfold has_name in Hnosub. destruct (lookup ca (names st)) eqn:Hca; [discriminate|].
      assert (Hca_ne : ca <> b).
      { destruct (name_sub_spec _ _ Ea) as [_ ->]. destruct (name_sub_spec _ _ Eb) as [Hb3 _]. lia. }
      unfold rename_box. destruct (lookup a (names st)) as [ia|]; [|exact Hca].
      destruct (a =? INBOX); cbn [names set_names].
      - rewrite lookup_app. destruct (N.eq_dec ca INBOX) as [->|Hn0].
        + destruct (name_sub_spec _ _ Ea) as [_ E0]. unfold INBOX in E0. lia.
        + rewrite lookup_replace_neq by exact Hn0. rewrite Hca. cbn [lookup].
          destruct (N.eqb_spec b ca); [congruence|reflexivity].
      - rewrite lookup_app, (lookup_remove_none _ _ _ Hca). cbn [lookup].
        destruct (N.eqb_spec b ca); [congruence|reflexivity]. }
    rewrite Hc. reflexivity. }
  match goal with |- context [if ?c then _ else _] => destruct c end; cbn [fst].
  - rewrite Et. apply rename_box_find; assumption.
  - destruct (post_sync s None (rename_tree a b st)) as [st1 p] eqn:E. cbn [fst].
    replace st1 with (fst (post_sync s None (rename_tree a b st))) by (rewrite E; reflexivity).
    rewrite !find_box_post_sync. rewrite Et. apply rename_box_find; assumption.
Qed.

(* ----------------------------------------------------- DELETE, re-CREATE *)
Lemma static_post_sync s h st :
  next_bid (fst (post_sync s h st)) = next_bid st /\ cfg_base (fst (post_sync s h st)) = cfg_base st.
Proof.
  unfold post_sync. destruct (lookup s (sess st)) as [sl|]; [|auto].
  assert (Hd : forall b, next_bid (fst (do_sync s sl b st)) = next_bid st /\
                         cfg_base (fst (do_sync s sl b st)) = cfg_base st).
  { intro b. unfold do_sync. destruct (sync_sel sl b). auto. }
  assert (H : next_bid (fst (match find_box st (s_name sl) with
                        | Some (i, b) => if i =? s_bid sl then do_sync s sl b st
                                         else (drop_sel s st, PBye)
                        | None => (drop_sel s st, PBye)
                        end)) = next_bid st /\
              cfg_base (fst (match find_box st (s_name sl) with
                        | Some (i, b) => if i =? s_bid sl then do_sync s sl b st
                                         else (drop_sel s st, PBye)
                        | None => (drop_sel s st, PBye)
                        end)) = cfg_base st).
  { destruct (find_box st (s_name sl)) as [[i b]|]; [|auto].
    destruct (i =? s_bid sl); [apply Hd|auto]. }
  destruct h as [i|]; [|exact H]. destruct (i =? s_bid sl); [|exact H].
  destruct (lookup i (boxes st)); [apply Hd|exact H].
Qed.

(* A deleted name denotes nothing; creating it again gives a brand-new
   mailbox: an identity different from every mailbox that ever existed (hence
   a fresh UIDVALIDITY draw), an empty log and the base counter - UIDs
   restart, under another identity.  Every mailbox object that existed keeps
   its identity and contents: the theorems above are per identity, so "never
   reused" reads: never within one (incarnation of a name, UIDVALIDITY). *)
Theorem recreate_is_fresh st s s' nm ch ch' i :
  full st -> nm <> INBOX -> lookup nm (names st) = Some i ->
  let st1 := fst (step st (Delete s nm) ch) in
  let st2 := fst (step st1 (Create s' nm) ch') in
  find_box st1 nm = None /\
  find_box st2 nm = Some (next_bid st, empty_box (cfg_base st)) /\
  (forall j b, In (j, b) (boxes st) -> j <> next_bid st /\ lookup j (boxes st2) = lookup j (boxes st)).
Proof.
  intros [_ I] Hn Hl st1 st2.
  assert (Hfresh : lookup (next_bid st) (boxes st) = None).
  { apply notin_lookup_None. intro Hin. apply in_map_iff in Hin as ([j x] & Ej & Hx).
    cbn [fst] in Ej. subst j. pose proof (ir_box_lt _ I _ _ Hx). lia. }
  assert (E1 : names st1 = remove nm (names st) /\ boxes st1 = boxes st /\
               next_bid st1 = next_bid st /\ cfg_base st1 = cfg_base st).
  { subst st1. cbn [step]. destruct (N.eqb_spec nm INBOX); [contradiction|]. rewrite Hl.
    destruct (post_sync s None (set_names (remove nm (names st)) st)) as [x p] eqn:E. cbn [fst].
    replace x with (fst (post_sync s None (set_names (remove nm (names st)) st)))
      by (rewrite E; reflexivity).
    rewrite names_post_sync, boxes_post_sync.
    destruct (static_post_sync s None (set_names (remove nm (names st)) st)) as [-> ->]. auto. }
  destruct E1 as (En1 & Eb1 & Enb1 & Ecb1).
  assert (Hnone : lookup nm (names st1) = None) by (rewrite En1; apply lookup_remove_eq).
  split; [unfold find_box; rewrite Hnone; reflexivity|].
  assert (E2 : names st2 = names st1 ++ [(nm, next_bid st)] /\
               boxes st2 = boxes st ++ [(next_bid st, empty_box (cfg_base st))]).
  { subst st2. cbn [step]. destruct (N.eqb_spec nm INBOX); [contradiction|]. rewrite Hnone.
    destruct (post_sync s' None (create_box nm st1)) as [x p] eqn:E. cbn [fst].
    replace x with (fst (post_sync s' None (create_box nm st1))) by (rewrite E; reflexivity).
    rewrite names_post_sync, boxes_post_sync. cbn [names boxes create_box].
    rewrite Eb1, Enb1, Ecb1. auto. }
  destruct E2 as (En2 & Eb2). split.
  - unfold find_box. rewrite En2, lookup_app, Hnone. cbn [lookup]. rewrite N.eqb_refl.
    rewrite Eb2, lookup_app, Hfresh. cbn [lookup]. rewrite N.eqb_refl. reflexivity.
  - intros j b Hin. pose proof (ir_box_lt _ I _ _ Hin) as Hlt. split; [lia|].
    rewrite Eb2, lookup_app. destruct (lookup j (boxes st)) eqn:Ej; [reflexivity|].
    exfalso. apply In_lookup in Hin; [congruence|exact (ir_bkeys _ I)].
Qed.

(* ------------------------------------------- printed UID sets, expanded *)
Lemma nrange_single lo : nrange lo lo = [lo].
Proof.
  unfold nrange. replace (N.to_nat (N.succ lo - lo)) with 1%nat by lia.
  cbn [seq map]. f_equal. lia.
Qed.

Lemma nrange_snoc lo hi : lo <= hi -> nrange lo (hi + 1) = nrange lo hi ++ [hi + 1].
Proof.
  intro H. unfold nrange.
  replace (N.to_nat (N.succ (hi + 1) - lo)) with (S (N.to_nat (N.succ hi - lo))) by lia.
  rewrite seq_S, map_app. cbn [map plus]. f_equal. f_equal. lia.
Qed.

Definition group_elem (g : N * N) : selem :=
  if fst g =? snd g then SOne (SNum (fst g)) else SRange (SNum (fst g)) (SNum (snd g)).

Lemma get_range_group lo hi mx : lo <= hi -> hi <= mx ->
  get_range mx (group_elem (lo, hi)) = nrange lo hi.
Proof.
  intros H1 H2. unfold group_elem. cbn [fst snd].
  destruct (N.eqb_spec lo hi) as [->|Hne]; cbn [get_range idx_val].
  - destruct (N.leb_spec hi mx); [|lia]. symmetry. apply nrange_single.
  - rewrite N.min_l by lia. destruct (N.leb_spec lo mx); [|lia].
    rewrite N.max_r by lia. rewrite N.min_l by lia. reflexivity.
Qed.

Lemma build_groups_iter l : forall lo hi mx,
  lo <= hi -> hi <= mx -> asc l -> Forall (fun x => hi < x <= mx) l ->
  flat_map (get_range mx) (map group_elem (build_groups (lo, hi) l)) = nrange lo hi ++ l.
Proof.
  induction l as [|x r IH]; intros lo hi mx H1 H2 Ha Hf; cbn [build_groups].
  - cbn [map flat_map]. rewrite get_range_group by assumption. reflexivity.
  - apply asc_cons_inv in Ha as [Hr Hx]. inversion Hf as [|? ? Hx1 Hf']; subst.
    cbn [fst snd].
    assert (Hf2 : Forall (fun y => x < y <= mx) r).
    { rewrite Forall_forall in *. intros y Hy. specialize (Hx _ Hy). specialize (Hf' _ Hy). lia. }
    destruct (N.eqb_spec x (hi + 1)) as [->|Hne].
    + rewrite IH; [|lia|lia|exact Hr|exact Hf2].
      rewrite nrange_snoc by exact H1. rewrite <- app_assoc. reflexivity.
    + cbn [map flat_map]. rewrite get_range_group by assumption.
      rewrite IH; [|lia|lia|exact Hr|exact Hf2]. rewrite nrange_single. reflexivity.
Qed.

Lemma build_seqset_groups l x r : l = x :: r ->
  build_seqset l = map group_elem (build_groups (x, x) r).
Proof. intros ->. reflexivity. Qed.

Theorem build_iter l mx : l <> [] -> asc l -> Forall (fun x => x <= mx) l ->
  seq_iter mx (build_seqset l) = l.
Proof.
  destruct l as [|x r]; [congruence|]. intros _ Ha Hf.
  unfold seq_iter. rewrite (build_seqset_groups _ x r eq_refl).
  inversion Hf as [|? ? Hx Hf']; subst. pose proof (asc_cons_inv _ _ Ha) as [Hr Hlt].
  rewrite build_groups_iter; [rewrite nrange_single; reflexivity|lia|exact Hx|exact Hr|].
  rewrite Forall_forall in *. intros y Hy. split; auto.
Qed.

Lemma build_groups_wf l : forall lo hi, 0 < lo -> lo <= hi -> Forall (fun x => hi < x) l -> asc l ->
  forallb wf_elem (map group_elem (build_groups (lo, hi) l)) = true.
Proof.
  assert (Hg : forall lo hi, 0 < lo -> lo <= hi -> wf_elem (group_elem (lo, hi)) = true).
  { intros lo hi H0 H1. unfold group_elem. cbn [fst snd]. destruct (lo =? hi); cbn [wf_elem wf_idx].
    - apply N.ltb_lt. exact H0.
    - apply andb_true_iff. split; apply N.ltb_lt; lia. }
  induction l as [|x r IH]; intros lo hi H0 H1 Hf Ha; cbn [build_groups].
  - cbn [map forallb]. rewrite Hg by assumption. reflexivity.
  - apply asc_cons_inv in Ha as [Hr Hx]. inversion Hf as [|? ? Hx1 Hf']; subst. cbn [fst snd].
    assert (Hf2 : Forall (fun y => x < y) r) by exact Hx.
    destruct (x =? hi + 1).
    + apply IH; [exact H0|lia|exact Hf2|exact Hr].
    + cbn [map forallb]. rewrite Hg by assumption. cbn [andb].
      apply IH; [lia|lia|exact Hf2|exact Hr].
Qed.

Lemma build_seqset_wf l : l <> [] -> asc l -> Forall (fun x => 0 < x) l ->
  wf_seqset (build_seqset l) = true.
Proof.
  destruct l as [|x r]; [congruence|]. intros _ Ha Hp.
  rewrite (build_seqset_groups _ x r eq_refl). unfold wf_seqset.
  inversion Hp as [|? ? Hx Hp']; subst. pose proof (asc_cons_inv _ _ Ha) as [Hr Hlt].
  pose proof (build_groups_wf r x x Hx ltac:(lia) Hlt Hr) as W.
  destruct (map group_elem (build_groups (x, x) r)) eqn:E; [|exact W].
  destruct r; cbn [build_groups] in E; [discriminate|].
  cbn [fst snd] in E. destruct (n =? x + 1); cbn [map] in E.
  - clear - E. exfalso. revert E. generalize (x, n). induction r as [|y q IHq]; intro g; cbn [build_groups map].
    + discriminate.
    + destruct (y =? snd g + 1); [apply IHq|discriminate].
  - discriminate.
Qed.

(* what a client does with a printed set: parse it, expand it in order *)
Definition client_expand (bs : bytes) (mx : N) : option (list N) :=
  match parse_seqset bs with
  | Ok (s, []) => Some (seq_iter mx s)
  | _ => None
  end.

Theorem uidset_expands l mx :
  l <> [] -> asc l -> Forall (fun x => 0 < x <= mx) l ->
  client_expand (uidset_bytes l) mx = Some l.
Proof.
  intros Hne Ha Hf. unfold client_expand, uidset_bytes. rewrite (nsort_asc _ Ha).
  assert (Hp : Forall (fun x => 0 < x) l) by (eapply Forall_impl; [|exact Hf]; cbn; intros; lia).
  assert (Hm : Forall (fun x => x <= mx) l) by (eapply Forall_impl; [|exact Hf]; cbn; intros; lia).
  pose proof (seqset_roundtrip (build_seqset l) [] (build_seqset_wf l Hne Ha Hp) eq_refl) as R.
  rewrite app_nil_r in R. rewrite R. f_equal. apply build_iter; assumption.
Qed.

(* ------------------------------------------------------ APPENDUID truth *)
Definition marks (ms : list (N * bool * bool)) : list N := map (fun x => fst (fst x)) ms.

Lemma append_loop_spec i c ms : forall st b,
  lookup i (boxes st) = Some b ->
  exists b', lookup i (boxes (fst (append_loop i c ms st))) = Some b' /\
    b_log b' = b_log b ++ combine (snd (append_loop i c ms st)) (marks ms) /\
    length (snd (append_loop i c ms st)) = length ms /\
    asc (snd (append_loop i c ms st)) /\
    Forall (fun u => b_max b < u <= b_max b') (snd (append_loop i c ms st)) /\
    b_max b <= b_max b'.
Proof.
  induction ms as [|[[mk dl] rc] r IH]; intros st b Hl; cbn [append_loop].
  - exists b. cbn [fst snd combine length]. rewrite app_nil_r.
    repeat split; auto using asc_nil; lia.
  - destruct (deliver_result i c dl mk st b Hl) as (Hu & Hb1 & _).
    destruct (deliver i c dl mk st) as [st1 [u|]]; cbn [fst snd] in *; [|discriminate].
    inversion Hu; subst u. clear Hu.
    destruct (IH st1 _ Hb1) as (b' & Hl' & Hlog & Hlen & Hasc & Hrng & Hmax).
    destruct (append_loop i c r st1) as [st2 us]. cbn [fst snd b_log b_max] in *.
    exists b'. split; [exact Hl'|]. split.
    + rewrite Hlog. cbn [marks map combine fst]. rewrite <- app_assoc. reflexivity.
    + split; [cbn [length]; lia|]. split.
      * constructor; [exact Hasc|]. eapply Forall_impl; [|exact Hrng]. cbn. intros; lia.
      * split; [|lia]. constructor; [lia|]. eapply Forall_impl; [|exact Hrng]. cbn. intros; lia.
Qed.

(* The set printed in APPENDUID, expanded by a client, is the list of UIDs
   actually assigned, message by message, and the log records each appended
   content under its UID (so that is what UID FETCH finds there). *)
Theorem appenduid_truth st s nm ms ch st' i bytes p b :
  full st -> ms <> [] ->
  step st (Append s nm ms) ch = (st', OAppend i bytes p) ->
  lookup i (boxes st) = Some b ->
  exists us b',
    lookup i (boxes st') = Some b' /\
    length us = length ms /\
    b_log b' = b_log b ++ combine us (marks ms) /\
    client_expand bytes (b_max b') = Some us.
Proof.
  intros F Hne Hstep Hl. cbn [step] in Hstep.
  destruct (find_box st nm) as [[j bj]|] eqn:Hf; [|discriminate].
  destruct (box_ro st j); [discriminate|].
  destruct (pick_ok st s j (c_pick ch)); [|discriminate].
  destruct (append_loop j (c_pick ch) ms st) as [st1 us] eqn:El.
  destruct (post_sync s (Some j) st1) as [st2 p2] eqn:Ep.
  inversion Hstep; subst. clear Hstep.
  destruct (append_loop_spec i (c_pick ch) ms st b Hl) as (b' & Hl' & Hlog & Hlen & Hasc & Hrng & Hmax).
  rewrite El in *. cbn [fst snd] in *.
  exists us, b'. split.
  { replace st' with (fst (post_sync s (Some i) st1)) by (rewrite Ep; reflexivity).
    rewrite boxes_post_sync. exact Hl'. }
  split; [exact Hlen|]. split; [exact Hlog|].
  apply uidset_expands.
  - destruct us; [|discriminate]. destruct ms; [congruence|discriminate].
  - exact Hasc.
  - eapply Forall_impl; [|exact Hrng]. cbn. intros; lia.
Qed.

(* -------------------------------------------------------- COPYUID pairs *)
Lemma lookup_remove_msgs_log i j drop st b :
  lookup j (boxes st) = Some b ->
  exists b0, lookup j (boxes (remove_msgs i drop st)) = Some b0 /\
             b_log b0 = b_log b /\ b_max b0 = b_max b.
Proof.
  intro Hl. unfold remove_msgs. destruct (lookup i (boxes st)) as [x|] eqn:Hi; [|eauto].
  cbn [boxes set_boxes]. destruct (N.eq_dec j i) as [->|Hne].
  - erewrite lookup_replace_eq by eauto. eexists. split; [reflexivity|].
    rewrite Hi in Hl. inversion Hl; subst. auto.
  - rewrite lookup_replace_neq by exact Hne. eauto.
Qed.

(* the loop of copy_messages / move_messages: sources are visited in the
   order of [us]; each pair's content is logged under the source UID in the
   source mailbox and under the new UID in the destination *)
Lemma copy_loop_spec mv src dst c us : forall st bd,
  Inv_uid st -> lookup dst (boxes st) = Some bd -> asc us ->
  exists bd' mks,
    lookup dst (boxes (fst (copy_loop mv src dst c us st))) = Some bd' /\
    b_log bd' = b_log bd ++ combine (map snd (snd (copy_loop mv src dst c us st))) mks /\
    length mks = length (snd (copy_loop mv src dst c us st)) /\
    asc (map fst (snd (copy_loop mv src dst c us st))) /\
    Forall (fun u => In u us) (map fst (snd (copy_loop mv src dst c us st))) /\
    asc (map snd (snd (copy_loop mv src dst c us st))) /\
    Forall (fun u => b_max bd < u <= b_max bd') (map snd (snd (copy_loop mv src dst c us st))) /\
    b_max bd <= b_max bd' /\
    (forall su mk, In (su, mk) (combine (map fst (snd (copy_loop mv src dst c us st))) mks) ->
       exists bs, lookup src (boxes (fst (copy_loop mv src dst c us st))) = Some bs /\
                  In (su, mk) (b_log bs)).
Proof.
  induction us as [|u r IH]; intros st bd Iu Hd Ha; cbn [copy_loop].
  - exists bd, []. cbn [fst snd map combine length]. rewrite app_nil_r.
    repeat split; auto using asc_nil; try lia. intros su mk [].
  - apply asc_cons_inv in Ha as [Hr Hu].
    assert (Hweak : forall st1 bd1, Inv_uid st1 -> lookup dst (boxes st1) = Some bd1 ->
              b_log bd1 = b_log bd -> b_max bd1 = b_max bd ->
              exists bd' mks,
                lookup dst (boxes (fst (copy_loop mv src dst c r st1))) = Some bd' /\
                b_log bd' = b_log bd ++ combine (map snd (snd (copy_loop mv src dst c r st1))) mks /\
                length mks = length (snd (copy_loop mv src dst c r st1)) /\
                asc (map fst (snd (copy_loop mv src dst c r st1))) /\
                Forall (fun x => In x (u :: r)) (map fst (snd (copy_loop mv src dst c r st1))) /\
                asc (map snd (snd (copy_loop mv src dst c r st1))) /\
                Forall (fun x => b_max bd < x <= b_max bd')
                       (map snd (snd (copy_loop mv src dst c r st1))) /\
                b_max bd <= b_max bd' /\
                (forall su mk, In (su, mk) (combine (map fst (snd (copy_loop mv src dst c r st1))) mks) ->
                   exists bs, lookup src (boxes (fst (copy_loop mv src dst c r st1))) = Some bs /\
                              In (su, mk) (b_log bs))).
    { intros st1 bd1 Iu1 Hd1 El Em.
      destruct (IH st1 bd1 Iu1 Hd1 Hr) as (bd' & mks & H1 & H2 & H3 & H4 & H5 & H6 & H7 & H8 & H9).
      exists bd', mks. rewrite El, Em in *. repeat split; auto.
      eapply Forall_impl; [|exact H5]. cbn. intros; right; assumption. }
    destruct (lookup src (boxes st)) as [bs|] eqn:Hs; [|apply (Hweak st bd); auto].
    destruct (find_msg u bs) as [m|] eqn:Hfm; [|apply (Hweak st bd); auto].
    set (st0 := if mv then remove_msgs src (fun x => m_uid x =? u) st else st).
    assert (Iu0 : Inv_uid st0).
    { subst st0. destruct mv; [apply (proj1 (remove_msgs_good _ _ _)); exact Iu|exact Iu]. }
    assert (Hd0 : exists bd0, lookup dst (boxes st0) = Some bd0 /\ b_log bd0 = b_log bd /\
                              b_max bd0 = b_max bd).
    { subst st0. destruct mv; [apply lookup_remove_msgs_log; exact Hd|eauto]. }
    destruct Hd0 as (bd0 & Hd0 & El0 & Em0).
    (* the source message is in the source log *)
    assert (Hsrc : In (u, m_mark m) (b_log bs)).
    { unfold find_msg in Hfm. apply find_some in Hfm as [Hin E]. apply N.eqb_eq in E. subst u.
      apply (bo_msgs_log bs); [|exact Hin]. eapply Iu. apply lookup_In. exact Hs. }
    destruct (deliver_result dst c (m_deleted m) (m_mark m) st0 bd0 Hd0) as (Hu1 & Hb1 & _).
    pose proof (proj1 (deliver_good dst c (m_deleted m) (m_mark m) st0) Iu0) as Iu1.
    destruct (deliver dst c (m_deleted m) (m_mark m) st0) as [st1 [du|]] eqn:Ed;
      cbn [fst snd] in *; [|discriminate].
    inversion Hu1; subst du. clear Hu1.
    destruct (IH st1 _ Iu1 Hb1 Hr) as (bd' & mks & H1 & H2 & H3 & H4 & H5 & H6 & H7 & H8 & H9).
    (* logs only grow from st to the end of the loop *)
    assert (Hgrow : exists bs', lookup src (boxes (fst (copy_loop mv src dst c r st1))) = Some bs' /\
                                In (u, m_mark m) (b_log bs')).
    { assert (S0 : sys_step st st0).
      { subst st0. destruct mv; [apply (proj2 (remove_msgs_good _ _ _))|apply sys_step_refl]. }
      assert (S1 : sys_step st0 st1).
      { replace st1 with (fst (deliver dst c (m_deleted m) (m_mark m) st0)) by (rewrite Ed; reflexivity).
        apply (proj2 (deliver_good _ _ _ _ _)). }
      pose proof (proj2 (copy_loop_good mv src dst c r st1)) as S2.
      destruct (sys_step_trans _ _ _ (sys_step_trans _ _ _ S0 S1) S2 _ _ Hs)
        as (bs' & Hbs' & ext & Hlog & _).
      exists bs'. split; [exact Hbs'|]. rewrite Hlog. apply in_app_iff. left. exact Hsrc. }
    destruct (copy_loop mv src dst c r st1) as [st2 ps]. cbn [fst snd b_log b_max] in *.
    exists bd', (m_mark m :: mks). cbn [map fst snd combine length].
    split; [exact H1|]. split.
    { rewrite H2, El0, Em0. rewrite <- app_assoc. reflexivity. }
    split; [lia|]. split.
    { constructor; [exact H4|]. rewrite Forall_forall in *. intros x Hx. apply Hu. apply H5. exact Hx. }
    split.
    { constructor; [left; reflexivity|]. eapply Forall_impl; [|exact H5]. cbn. intros; right; assumption. }
    split.
    { constructor; [exact H6|]. eapply Forall_impl; [|exact H7]. cbn. intros; lia. }
    split.
    { constructor; [lia|]. eapply Forall_impl; [|exact H7]. cbn. intros; lia. }
    split; [lia|].
    intros su mk [E|Hin]; [inversion E; subst; exact Hgrow|apply H9; exact Hin].
Qed.

(* COPYUID (UID COPY and UID MOVE): the two printed sets, expanded by a
   client in order, zip to the actual (source, destination) pairs; the
   destinations are fresh UIDs of the destination mailbox and the content
   logged under each destination UID is the content logged under its source
   UID. *)
Theorem copyuid_pairs st s set nm ch (mv : bool) st' j a b p bd :
  full st ->
  step st (if mv then Move s set nm else Copy s set nm) ch = (st', OCopy (Some (j, a, b)) p) ->
  lookup j (boxes st) = Some bd ->
  exists sl i ps mks bd',
    resolve st s = RBox sl i (match lookup i (boxes st) with Some x => x | None => bd end) /\
    ps <> [] /\ length mks = length ps /\
    lookup j (boxes st') = Some bd' /\
    b_log bd' = b_log bd ++ combine (map snd ps) mks /\
    Forall (fun u => b_max bd < u) (map snd ps) /\
    (forall mxa, Forall (fun u => u <= mxa) (map fst ps) ->
                 client_expand a mxa = Some (map fst ps)) /\
    client_expand b (b_max bd') = Some (map snd ps) /\
    (forall su mk, In (su, mk) (combine (map fst ps) mks) ->
       exists bs, lookup i (boxes st') = Some bs /\ In (su, mk) (b_log bs)).
Proof.
  intros F Hstep Hd.
  assert (Hgen : exists sl i bi,
            resolve st s = RBox sl i bi /\
            find_box st nm <> None /\
            exists jj, (exists bj, find_box st nm = Some (jj, bj)) /\
            let us := select_view set (s_view sl) in
            let r := copy_loop mv i jj (c_pick ch) us st in
            exists p',
              (fst (resync s (fst r)), OCopy (match snd r with
                                              | [] => None
                                              | _ => Some (jj, uidset_bytes (map fst (snd r)),
                                                           uidset_bytes (map snd (snd r)))
                                              end) p')
              = (st', OCopy (Some (j, a, b)) p)).
  { destruct mv; cbn [step] in Hstep;
      destruct (resolve st s) as [| |sl i bi] eqn:R; try discriminate;
      destruct (find_box st nm) as [[jj bj]|] eqn:Hf; try discriminate.
    - destruct (s_ro sl || box_ro st jj); [discriminate|].
      destruct (pick_ok st s jj (c_pick ch)); [|discriminate].
      exists sl, i, bi. split; [reflexivity|]. split; [discriminate|]. exists jj. split; [eauto|].
      cbn zeta. destruct (copy_loop true i jj (c_pick ch) (select_view set (s_view sl)) st)
        as [st1 ps]. cbn [fst snd]. destruct (resync s st1) as [st2 p2]. cbn [fst].
      exists p2. exact Hstep.
    - destruct (box_ro st jj); [discriminate|].
      destruct (pick_ok st s jj (c_pick ch)); [|discriminate].
      exists sl, i, bi. split; [reflexivity|]. split; [discriminate|]. exists jj. split; [eauto|].
      cbn zeta. destruct (copy_loop false i jj (c_pick ch) (select_view set (s_view sl)) st)
        as [st1 ps]. cbn [fst snd]. destruct (resync s st1) as [st2 p2]. cbn [fst].
      exists p2. exact Hstep. }
  destruct Hgen as (sl & i & bi & R & _ & jj & (bj & Hf) & p' & E). cbn zeta in E.
  pose proof (resolve_box _ _ _ _ _ R) as (Hsl & Hfi & Ei).
  set (us := select_view set (s_view sl)) in *.
  assert (Hus : asc us /\ Forall (fun u => 0 < u) us).
  { destruct F as [_ I]. apply lookup_In in Hsl. destruct (ir_view_asc _ I _ _ Hsl) as [Hva Hvp].
    destruct (asc_select_view set (s_view sl) Hva) as [Hsa Hsf].
    split; [exact Hsa|].
    rewrite Forall_forall in *. intros u Hu. apply Hvp, Hsf, Hu. }
  destruct Hus as [Hua Hup].
  destruct (snd (copy_loop mv i jj (c_pick ch) us st)) as [|p0 ps0] eqn:Eps; [discriminate|].
  inversion E as [[Est Ej Ea Eb Ep]]. subst jj.
  destruct (copy_loop_spec mv i j (c_pick ch) us st bd (proj1 F) Hd Hua)
    as (bd' & mks & H1 & H2 & H3 & H4 & H5 & H6 & H7 & H8 & H9).
  rewrite Eps in *.
  exists sl, i, (p0 :: ps0), mks, bd'.
  split.
  { rewrite R. f_equal. pose proof (find_box_lookup_u _ _ _ _ Hfi) as Hbi. rewrite Hbi. reflexivity. }
  split; [discriminate|]. split; [exact H3|].
  split; [rewrite boxes_resync; exact H1|]. split; [exact H2|].
  split; [eapply Forall_impl; [|exact H7]; cbn; intros; lia|].
  split.
  { intros mxa Hmx. apply uidset_expands; [discriminate|exact H4|].
    rewrite Forall_forall in *. intros u Hu. split; [apply Hup, H5, Hu|apply Hmx, Hu]. }
  split.
  { apply uidset_expands; [discriminate|exact H6|].
    eapply Forall_impl; [|exact H7]. cbn. intros; lia. }
  intros su mk Hin. destruct (H9 _ _ Hin) as (bs & Hbs & Hlog).
  exists bs. split; [rewrite boxes_resync; exact Hbs|exact Hlog].
Qed.
