(* Namespace/LayoutSpec.v — what the definitions generated from
   pymap/backend/maildir/layout.py (Namespace/LayoutGen.v) are compared with:
   the hand model's guard (MdModel.valid_part / lsplit) extended by the length
   guard of _split (the UTF-8 length of the whole name must not exceed 250
   bytes; MdModel.lsplit does not have it: the hand model accepts those names,
   the code refuses them before anything is touched), and the dispatch of the
   generated per-class functions on the model's [layout].  Definitions only. *)
From PV Require Import Base.Prelude Namespace.PyStr Namespace.Glob Namespace.NsBase
     Namespace.ListTree Namespace.NsModel Namespace.MdModel Namespace.Paths Namespace.LayoutGen.

(* len(s.encode('utf-8')) of a string without surrogates *)
Definition utf8_len_char (c : N) : N :=
  if (c <? 128)%N then 1%N else if (c <? 2048)%N then 2%N else if (c <? 65536)%N then 3%N else 4%N.
Fixpoint utf8_len (s : name) : N :=
  match s with [] => 0%N | c :: s' => (utf8_len_char c + utf8_len s')%N end.

Definition NAME_MAX_GUARD : N := 250.

(* _BaseLayout._split as it is now: the part guard, then the length guard *)
Definition lsplit_len (l : layout) (n : name) : option path :=
  match lsplit l n with
  | Some ps => if (NAME_MAX_GUARD <? utf8_len (join ps))%N then None else Some ps
  | None => None
  end.

Definition to_res {A} (o : option A) : pyres A :=
  match o with Some a => PRet a | None => PNotSupported end.

(* _BaseLayout._join *)
Definition ljoin (parts : path) : name := match parts with [] => INBOX | _ => join parts end.

(* DefaultLayout._get_parts: '' -> [] | subdir[1:].split('.') *)
Fixpoint split_dot (s : name) : list name :=
  match s with
  | [] => [[]]
  | c :: s' =>
    if (c =? DOT)%N then [] :: split_dot s'
    else match split_dot s' with
         | p :: ps => (c :: p) :: ps
         | [] => [[c]]
         end
  end.
Definition get_parts (subdir : name) : path :=
  match subdir with [] => [] | _ :: s => split_dot s end.

(* the generated per-class functions, by layout *)
Definition gen_valid_part (l : layout) : pystr -> bool :=
  match l with LPlus => gen_Default__valid_part | LFs => gen_Fs__valid_part end.
Definition gen_split (l : layout) : pystr -> pystr -> pyres (list pystr) :=
  match l with LPlus => gen_Default__split | LFs => gen_Fs__split end.
Definition gen_join (l : layout) : list pystr -> pystr -> pystr :=
  match l with LPlus => gen_Default__join | LFs => gen_Fs__join end.
Definition gen_parts_path (l : layout) : pystr -> list pystr -> pystr :=
  match l with LPlus => gen_Default__get_path | LFs => gen_Fs__get_path end.
Definition gen_get_path (l : layout) : pystr -> pystr -> pystr -> pyres pystr :=
  match l with LPlus => gen_Default_get_path | LFs => gen_Fs_get_path end.
