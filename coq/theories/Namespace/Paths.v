(* Namespace/Paths.v — which filesystem paths a mailbox name can reach on the
   maildir backend: os.path.join, os.path.normpath (POSIX, absolute paths),
   DefaultLayout._get_subdir/_get_path ('++'), FilesystemLayout._get_path
   ('fs'), and, per command, the name-derived directories ("anchors") that
   layout.py add_folder / remove_folder / rename_folder / get_folder compute
   and touch, along the control flow of MdModel.mstep.  Everything else the
   backend touches is an anchor extended by server-chosen components
   (cur, new, tmp, maildirfolder, dovecot-uidlist, message file names) or a
   fixed file of the user's root.  Definitions only. *)
From PV Require Import Base.Prelude Namespace.Glob Namespace.NsBase Namespace.ListTree
     Namespace.NsModel Namespace.MdModel.

Definition pstr := list N.            (* a path string *)
Definition SLASH : N := 47.

Fixpoint ends_with_slash (a : pstr) : bool :=
  match a with
  | [] => false
  | [c] => (c =? SLASH)%N
  | _ :: a' => ends_with_slash a'
  end.

(* posixpath.join(a, b) *)
Definition path_join (a b : pstr) : pstr :=
  match b with
  | c :: _ => if (c =? SLASH)%N then b
              else match a with
                   | [] => b
                   | _ => if ends_with_slash a then a ++ b else a ++ SLASH :: b
                   end
  | [] => match a with
          | [] => []
          | _ => if ends_with_slash a then a else a ++ [SLASH]
          end
  end.

(* posixpath.join(a, *ps) *)
Definition path_joins (a : pstr) (ps : list pstr) : pstr := fold_left path_join ps a.

(* posixpath.normpath of an absolute path, as its list of components:
   '' and '.' are skipped, '..' pops (and is dropped at the root) *)
Fixpoint norm_stack (cs : list name) (stack_rev : list name) : list name :=
  match cs with
  | [] => rev stack_rev
  | c :: cs' =>
    if name_eqb c [] || name_eqb c s_dot then norm_stack cs' stack_rev
    else if name_eqb c s_dotdot then norm_stack cs' (tl stack_rev)
    else norm_stack cs' (c :: stack_rev)
  end.
Definition normpath (p : pstr) : list name := norm_stack (split p) [].

(* a component that normpath keeps as it is *)
Definition clean (c : name) : bool :=
  negb (name_eqb c [] || name_eqb c s_dot || name_eqb c s_dotdot)
  && negb (existsb (fun x => (x =? SLASH)%N) c).

(* the user's directory: '/' + '/'.join(rc), rc clean *)
Definition root_str (rc : list name) : pstr := flat_map (fun c => SLASH :: c) rc.

Definition strictly_inside (rc : list name) (q : list name) : Prop :=
  exists rest, rest <> [] /\ q = rc ++ rest.
Definition inside_or_eq (rc : list name) (q : list name) : Prop :=
  exists rest, q = rc ++ rest.
Definition strictly_inside_b (rc q : list name) : bool :=
  is_prefix name_eqb rc q && (length rc <? length q)%nat.

(* ------------------------------------------------------------ layouts *)
(* DefaultLayout._get_subdir: '' | '.' + '.'.join(parts) *)
Fixpoint join_dot (ps : list name) : name :=
  match ps with
  | [] => []
  | p :: ps' => match ps' with [] => p | _ => p ++ DOT :: join_dot ps' end
  end.
Definition get_subdir (parts : path) : pstr :=
  match parts with [] => [] | _ => DOT :: join_dot parts end.

Definition get_path (l : layout) (root : pstr) (parts : path) : pstr :=
  match l with
  | LPlus => path_join root (get_subdir parts)
  | LFs => path_joins root parts
  end.

(* the same without the name guard: _split of the code before the fix *)
Definition legacy_split (n : name) : path := if name_eqb n INBOX then [] else split n.
Definition legacy_get_path (l : layout) (root : pstr) (n : name) : pstr :=
  get_path l root (legacy_split n).

(* ------------------------------------------------- anchors per command *)
Inductive cmd :=
| KCreate (n : name) | KDelete (n : name) | KRename (a b : name)
| KSubscribe (n : name) | KUnsubscribe (n : name)
| KList (ref pat : name) | KLsub (ref pat : name)
| KStatus (n : name) | KSelect (n : name) | KAppend (n : name) | KCopy (n : name).

Definition cmd_op (c : cmd) : op :=
  match c with
  | KCreate n => OCreate n | KDelete n => ODelete n | KRename a b => ORename a b
  | KSubscribe n => OSubscribe n | KUnsubscribe n => OUnsubscribe n
  | KList r p => OList r p | KLsub r p => OLsub r p
  | KStatus n => OStatus n | KSelect n => OSelect n | KAppend n => OAppend n
  | KCopy n => OAppend n
  end.

Section Anchors.
  Variable lay : layout.
  Variable root : pstr.

  Definition gp (parts : path) : pstr := get_path lay root parts.

  (* every existing folder directory (list_folders walks them) *)
  Definition folder_paths (st : mstate) : list pstr :=
    map (fun k => gp (split (fst k))) (x_folders st).

  (* the prefixes add_folder checks, up to and including the first missing one *)
  Fixpoint checked_prefixes (st : mstate) (parts : path) (ks : list nat) : list pstr * bool :=
    match ks with
    | [] => ([], true)
    | k :: ks' =>
      let p := firstn k parts in
      if is_dir st p then let '(l, okk) := checked_prefixes st parts ks' in (gp p :: l, okk)
      else ([gp p], false)
    end.

  (* get_folder / get_path of a mailbox argument *)
  Definition name_anchor (n : name) : list pstr :=
    if name_eqb n INBOX then []
    else match lsplit lay n with None => [] | Some parts => [gp parts] end.

  (* (must be touched, may be touched in addition) *)
  Definition anchors (st : mstate) (c : cmd) : list pstr * list pstr :=
    match c with
    | KCreate n0 =>
      match create_name n0 with
      | inr _ => ([], [])
      | inl n =>
        match lsplit lay n with
        | None => ([], [])
        | Some parts =>
          let '(pre, okk) := checked_prefixes st parts (seq 1 (length parts - 2)) in
          if okk then (pre ++ [gp parts], []) else (pre, [])
        end
      end
    | KDelete n0 =>
      let n := norm n0 in
      if name_eqb n INBOX then ([], [])
      else match lsplit lay n with
           | None => ([], [])
           | Some parts =>
             ([gp parts],
              match lay with
              | LFs => map (fun k => gp (split (fst k)))
                           (filter (fun k => is_child parts (split (fst k))) (x_folders st))
              | LPlus => []
              end)
           end
    | KRename a0 b0 =>
      let a := norm a0 in
      match rename_dest b0 with
      | inr _ => ([], [])
      | inl b =>
      if name_eqb a INBOX || starts_with (a ++ [DELIM]) b then ([], [])
      else
        let t := x_tree st in
        let fl := folder_paths st in
        match tget t a, tget t b with
        | None, _ => (fl, [])
        | Some _, Some _ => (fl, [])
        | Some _, None =>
          match lsplit lay a, lsplit lay b with
          | None, _ => (fl, [])
          | Some _, None => (fl, [])
          | Some pa, Some pb =>
            let sup := map (fun k => gp (firstn k pb)) (seq 1 (length pb - 1)) in
            let moved :=
                match lay with
                | LFs => [gp pb]
                | LPlus => flat_map (fun k => match drop_prefix pa (split (fst k)) with
                                              | Some rest => [gp (pb ++ rest)]
                                              | None => []
                                              end) (x_folders st)
                end in
            (fl ++ sup ++ moved, match lay with LFs => [gp pa] | LPlus => [] end)
          end
        end
      end
    | KSubscribe _ | KUnsubscribe _ | KLsub _ _ => ([], [])
    | KList _ pat => match pat with [] => ([], []) | _ => (folder_paths st, []) end
    | KStatus n0 | KSelect n0 | KAppend n0 | KCopy n0 => (name_anchor (norm n0), [])
    end.

  Definition paths_touched (st : mstate) (c : cmd) : list pstr :=
    fst (anchors st c) ++ snd (anchors st c).
End Anchors.

(* targets of the removal walk of DELETE and of the os.rename calls of RENAME *)
Definition delete_target (lay : layout) (root : pstr) (n0 : name) : list pstr :=
  let n := norm n0 in
  if name_eqb n INBOX then []            (* do_delete: "Cannot delete INBOX." *)
  else match lsplit lay n with None => [] | Some parts => [get_path lay root parts] end.

Definition rename_targets (lay : layout) (root : pstr) (a0 b0 : name) : list pstr :=
  let a := norm a0 in
  match rename_dest b0 with
  | inr _ => []
  | inl b =>
    if name_eqb a INBOX then []
    else match lsplit lay a, lsplit lay b with
         | Some pa, Some pb => [get_path lay root pa; get_path lay root pb]
         | _, _ => []
         end
  end.

(* the dict backend: one MailboxSet per identity (Config.set_cache) *)
Definition dstore := list (name * dstate).      (* user -> that user's state *)
Definition dstore_step (uid0 : N) (s : dstore) (user : name) (o : op) : dstore :=
  match alookup user s with
  | Some st => aset user (fst (dstep uid0 st o)) s
  | None => s
  end.
