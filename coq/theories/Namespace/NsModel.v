(* Namespace/NsModel.v — the namespace commands of pymap on the dict backend:
   pymap/imap/state.py do_create/do_delete/do_rename/do_subscribe/
   do_unsubscribe/do_list/do_status (+ SELECT/APPEND name resolution),
   pymap/backend/session.py (KeyError -> MailboxNotFound, ValueError ->
   MailboxConflict), pymap/backend/dict/mailbox.py MailboxSet,
   pymap/parsing/specials/mailbox.py (INBOX case normalisation).
   A mailbox's contents are abstract: an identity, a message count and
   UIDNEXT (what STATUS shows), and the backend's read-only flag.
   Definitions only. *)
From PV Require Import Base.Prelude Namespace.Glob Namespace.NsBase Namespace.ListTree.

Record mbox := { m_id : N; m_msgs : N; m_next : N; m_ro : bool }.

Inductive op :=
| OCreate (n : name) | ODelete (n : name) | ORename (a b : name)
| OSubscribe (n : name) | OUnsubscribe (n : name)
| OList (ref pat : name) | OLsub (ref pat : name)
| OStatus (n : name) | OSelect (n : name) | OAppend (n : name).

(* tagged condition: OK, or NO with a code:
   0 no code (the INBOX guards of state.py), 1 ALREADYEXISTS, 2 NONEXISTENT,
   3 TRYCREATE, 4 CANNOT, 5 READ-ONLY, 6 "has inferior hierarchical names";
   CExc = an exception that is not a ResponseError (BYE [SERVERBUG]) *)
Inductive cond := COk | CNo (code : N) | CExc.

Record out := {
  o_cond : cond;
  o_list : list (name * list N);          (* LIST/LSUB lines: name, attributes *)
  o_status : option mbox;                 (* STATUS *)
  o_newid : option N                      (* MAILBOXID of CREATE *)
}.

Definition out_cond (c : cond) : out :=
  {| o_cond := c; o_list := []; o_status := None; o_newid := None |}.
Definition out_ok : out := out_cond COk.
Definition out_no (k : N) : out := out_cond (CNo k).

Record dstate := {
  d_inbox : mbox;
  d_set : list (name * mbox);             (* MailboxSet._set *)
  d_subs : list (name * bool);            (* MailboxSet._subscribed *)
  d_next : N                              (* next fresh mailbox identity *)
}.

Definition with_set (st : dstate) (s : list (name * mbox)) : dstate :=
  {| d_inbox := d_inbox st; d_set := s; d_subs := d_subs st; d_next := d_next st |}.

Section Dict.
  Variable uid0 : N.    (* UIDNEXT of an empty mailbox: 101 (dict), 1 (maildir) *)

  Definition fresh (i : N) : mbox := {| m_id := i; m_msgs := 0; m_next := uid0; m_ro := false |}.

  Definition keys (st : dstate) : list name := map fst (d_set st).

  (* MailboxSet.list_mailboxes / list_subscribed *)
  Definition d_tree (st : dstate) : tree := tupdate (INBOX :: keys st).
  Definition d_subtree (st : dstate) : tree :=
    tupdate (INBOX :: map fst (filter (fun kv : name * bool => snd kv) (d_subs st))).

  (* MailboxSet.get_mailbox (names are already normalised by the parser) *)
  Definition d_get (st : dstate) (n : name) : option mbox :=
    if is_inbox_anycase n then Some (d_inbox st) else alookup n (d_set st).

  (* BaseSession.list_mailboxes *)
  Definition list_out (t : tree) (ref pat : name) : out :=
    {| o_cond := COk;
       o_list := match pat with
                 | [] => [([], [1%N])]
                 | _ => map (fun e => (e_name e, attrs e)) (tmatching t (ref ++ pat))
                 end;
       o_status := None; o_newid := None |}.

  (* the loop of MailboxSet.rename_mailbox *)
  Fixpoint d_moves (mv : list (name * name)) (s : list (name * mbox)) : option (list (name * mbox)) :=
    match mv with
    | [] => Some s
    | (b, a) :: mv' =>
      match alookup b s with
      | None => None                                  (* KeyError *)
      | Some v => d_moves mv' (adel b (aset a v s))
      end
    end.

  Definition d_append (st : dstate) (n : name) (m : mbox) : dstate :=
    let m' := {| m_id := m_id m; m_msgs := m_msgs m + 1; m_next := m_next m + 1; m_ro := m_ro m |} in
    if is_inbox_anycase n
    then {| d_inbox := m'; d_set := d_set st; d_subs := d_subs st; d_next := d_next st |}
    else with_set st (aset n m' (d_set st)).

  Definition dstep (st : dstate) (o : op) : dstate * out :=
    match o with
    | OCreate n0 =>
      match create_name n0 with
      | inr k => (st, out_no k)
      | inl n =>
        if amem n (d_set st) then (st, out_no 1)
        else ({| d_inbox := d_inbox st; d_set := aset n (fresh (d_next st)) (d_set st);
                 d_subs := d_subs st; d_next := d_next st + 1 |},
              {| o_cond := COk; o_list := []; o_status := None; o_newid := Some (d_next st) |})
      end
    | ODelete n0 =>
      let n := norm n0 in
      if name_eqb n INBOX then (st, out_no 0)
      else if amem n (d_set st) then (with_set st (adel n (d_set st)), out_ok)
      else (st, out_no 2)
    | ORename a0 b0 =>
      let a := norm a0 in
      match rename_dest b0 with
      | inr k => (st, out_no k)
      | inl b =>
        let t := d_tree st in
        match tget t a, tget t b with
        | None, _ => (st, out_no 2)
        | Some _, Some _ => (st, out_no 1)
        | Some _, None =>
          if name_eqb a INBOX then
            ({| d_inbox := fresh (d_next st); d_set := aset b (d_inbox st) (d_set st);
                d_subs := d_subs st; d_next := d_next st + 1 |}, out_ok)
          else match d_moves (trenames t a b) (d_set st) with
               | Some s => (with_set st s, out_ok)
               | None => (st, out_cond CExc)
               end
        end
      end
    | OSubscribe n0 =>
      if inbox_case_bad (norm n0) then (st, out_no 4)
      else ({| d_inbox := d_inbox st; d_set := d_set st;
               d_subs := aset (norm n0) true (d_subs st); d_next := d_next st |}, out_ok)
    | OUnsubscribe n0 =>
      ({| d_inbox := d_inbox st; d_set := d_set st;
          d_subs := aset (norm n0) false (d_subs st); d_next := d_next st |}, out_ok)
    | OList ref pat => (st, list_out (d_tree st) (norm ref) pat)
    | OLsub ref pat => (st, list_out (d_subtree st) (norm ref) pat)
    | OStatus n0 =>
      match d_get st (norm n0) with
      | Some m => (st, {| o_cond := COk; o_list := []; o_status := Some m; o_newid := None |})
      | None => (st, out_no 2)
      end
    | OSelect n0 =>
      match d_get st (norm n0) with
      | Some m => (st, out_ok)
      | None => (st, out_no 2)
      end
    | OAppend n0 =>
      match d_get st (norm n0) with
      | None => (st, out_no 3)
      | Some m => if m_ro m then (st, out_no 5) else (d_append st (norm n0) m, out_ok)
      end
    end.

  Definition drun (st : dstate) (prog : list op) : dstate :=
    fold_left (fun s o => fst (dstep s o)) prog st.
End Dict.
