(* Namespace/PyStr.v — target vocabulary of harness/translate_layout.py:
   the Python str / list / os operations that the pure functions of
   pymap/backend/maildir/layout.py use, over strings as lists of code points.
   Hand-written models of *CPython / POSIX* semantics (not of pymap); they are
   compared with CPython on every run by the `layout_gen` families of
   harness/props/C08.py.  Definitions only.

     py_split d s      s.split(d), d non-empty (d = '' raises ValueError in
                       Python: outside the domain, never passed by pymap)
     py_join d ps      d.join(ps)
     py_contains d s   d in s   (substring test; d = '' is True)
     str_in x l        x in (tuple / frozenset of str)
     fsencode_len s    len(os.fsencode(s)) with the UTF-8 filesystem encoding
                       and the surrogateescape error handler (CPython >= 3.7
                       on POSIX, any locale that is UTF-8 / UTF-8 mode):
                       U+DC80..U+DCFF encode to one byte, every other
                       surrogate raises UnicodeEncodeError (None)
     os_sep            os.sep on POSIX
   os.path.join is Namespace.Paths.path_join / path_joins. *)
From PV Require Import Base.Prelude.

Definition pystr := list N.

(* outcome of a translated function that can raise *)
Inductive pyres (A : Type) : Type :=
| PRet (a : A)
| PNotSupported            (* raise NotSupportedError(...) *)
| PUnicodeError.           (* UnicodeEncodeError out of os.fsencode *)
Arguments PRet {A} a.
Arguments PNotSupported {A}.
Arguments PUnicodeError {A}.

Definition pybind {A B} (r : pyres A) (f : A -> pyres B) : pyres B :=
  match r with PRet a => f a | PNotSupported => PNotSupported | PUnicodeError => PUnicodeError end.

Definition str_eqb : pystr -> pystr -> bool := eqb_list N.eqb.
Definition str_in (x : pystr) (l : list pystr) : bool := existsb (str_eqb x) l.
Definition is_nil {A} (l : list A) : bool := match l with [] => true | _ => false end.

Definition os_sep : pystr := [47]%N.

Fixpoint starts (d s : pystr) : bool :=
  match d, s with
  | [], _ => true
  | x :: d', y :: s' => (x =? y)%N && starts d' s'
  | _ :: _, [] => false
  end.

(* d in s *)
Fixpoint py_contains (d s : pystr) : bool :=
  starts d s || match s with [] => false | _ :: s' => py_contains d s' end.

(* s.split(d): scan left to right; at a match emit the piece collected so far
   and skip the len(d) characters of the separator *)
Fixpoint split_aux (d s : pystr) (skip : nat) (cur_rev : pystr) : list pystr :=
  match s with
  | [] => [rev cur_rev]
  | c :: s' =>
    match skip with
    | S k => split_aux d s' k cur_rev
    | O => if starts d s then rev cur_rev :: split_aux d s' (length d - 1) []
           else split_aux d s' 0 (c :: cur_rev)
    end
  end.
Definition py_split (d s : pystr) : list pystr := split_aux d s 0 [].

(* d.join(ps) *)
Fixpoint py_join (d : pystr) (ps : list pystr) : pystr :=
  match ps with
  | [] => []
  | p :: ps' => match ps' with [] => p | _ => p ++ d ++ py_join d ps' end
  end.

(* UTF-8 length of one code point under surrogateescape *)
Definition fsencode_char (c : N) : option N :=
  if (c <? 128)%N then Some 1%N
  else if (c <? 2048)%N then Some 2%N
  else if ((56448 <=? c) && (c <=? 56575))%N then Some 1%N      (* U+DC80..U+DCFF *)
  else if ((55296 <=? c) && (c <=? 57343))%N then None           (* other surrogates *)
  else if (c <? 65536)%N then Some 3%N
  else Some 4%N.

Fixpoint fsencode_len (s : pystr) : option N :=
  match s with
  | [] => Some 0%N
  | c :: s' => match fsencode_char c, fsencode_len s' with
               | Some a, Some b => Some (a + b)%N
               | _, _ => None
               end
  end.
