(* Namespace/ListTreeProofs.v — the tree of split name parts, re-joined, lists
   exactly the delimiter-boundary prefixes of the given names. *)
From PV Require Import Base.Prelude Namespace.Glob Namespace.GlobProofs Namespace.NsBase
     Namespace.NsBaseProofs Namespace.ListTree.
Require Import Lia.

Lemma drop_prefix_spec (p q rest : path) : drop_prefix p q = Some rest <-> q = p ++ rest.
Proof.
  revert q; induction p as [|x p IH]; intros q; cbn [drop_prefix].
  - split; [intros [= ->]; reflexivity|intros ->; reflexivity].
  - destruct q as [|y q].
    + split; [discriminate|intros E; discriminate].
    + destruct (name_eqb x y) eqn:E.
      * apply name_eqb_eq in E. subst. rewrite IH. split; [intros ->; reflexivity|intros [= ->]; reflexivity].
      * apply name_eqb_neq in E. split; [discriminate|intros [= -> _]; congruence].
Qed.

(* ------------------------------------------------------------ string-level spec *)
(* p is n cut at a hierarchy delimiter (or n itself) *)
Definition bprefix (p n : name) : Prop := p = n \/ exists r, n = p ++ DELIM :: r.
Definition inferior (p m : name) : Prop := exists r, m = p ++ DELIM :: r.
Definition in_closure (names : list name) (p : name) : Prop := exists n, In n names /\ bprefix p n.

(* q = the first k parts, 1 <= k *)
Definition prefpath (q parts : path) : Prop := exists k, 1 <= k <= length parts /\ q = firstn k parts.

Lemma prefpath_nonempty q parts : prefpath q parts -> q <> [].
Proof. intros (k & [H1 H2] & ->). destruct parts; [cbn in H2; lia|]. destruct k; [lia|discriminate]. Qed.

Lemma prefpath_app q r : q <> [] -> prefpath q (q ++ r).
Proof.
  intro H. exists (length q). split.
  - rewrite app_length. destruct q; [congruence|cbn [length]; lia].
  - rewrite firstn_app, Nat.sub_diag, firstn_all. cbn [firstn]. now rewrite app_nil_r.
Qed.

Lemma prefpath_inv q parts : prefpath q parts -> exists r, parts = q ++ r.
Proof. intros (k & _ & ->). exists (skipn k parts). now rewrite firstn_skipn. Qed.

Lemma prefpath_trans a b c : prefpath a b -> prefpath b c -> prefpath a c.
Proof.
  intros Hab Hbc. pose proof (prefpath_nonempty _ _ Hab) as Ha.
  apply prefpath_inv in Hab as (r1 & ->). apply prefpath_inv in Hbc as (r2 & ->).
  rewrite <- app_assoc. now apply prefpath_app.
Qed.

Lemma firstn_In' {A} k (l : list A) x : In x (firstn k l) -> In x l.
Proof. intro H. rewrite <- (firstn_skipn k l). apply in_or_app. now left. Qed.

Lemma prefpath_nodelim q parts : Forall nodelim parts -> prefpath q parts -> Forall nodelim q.
Proof. intros HF (k & _ & ->). apply Forall_forall. intros x Hx. apply firstn_In' in Hx. eapply Forall_forall; eauto. Qed.

Lemma bprefix_split p n : bprefix p n <-> prefpath (split p) (split n).
Proof.
  split.
  - intros [->|(r & ->)].
    + exists (length (split n)). split; [|now rewrite firstn_all].
      pose proof (split_nonempty n). destruct (split n); [congruence|cbn [length]; lia].
    + rewrite split_app_delim. apply prefpath_app, split_nonempty.
  - intros H. pose proof (prefpath_inv _ _ H) as (r & E).
    destruct r as [|x r].
    + rewrite app_nil_r in E. left. rewrite <- (join_split p), <- (join_split n). now rewrite E.
    + right. exists (join (x :: r)). rewrite <- (join_split n), E.
      rewrite join_app by (try apply split_nonempty; discriminate). now rewrite join_split.
Qed.

(* ------------------------------------------------------------ tfind / tensure *)
Lemma tfind_tensure p m t q :
  tfind q (tensure p m t) =
  if path_eqb q p then Some (match tfind p t with Some e => e || m | None => m end) else tfind q t.
Proof.
  induction t as [|[r e] t IH]; cbn [tensure tfind].
  - destruct (path_eqb q p); reflexivity.
  - destruct (path_eqb p r) eqn:E.
    + apply path_eqb_eq in E. subst r. cbn [tfind]. destruct (path_eqb q p); reflexivity.
    + cbn [tfind]. rewrite IH. destruct (path_eqb q r) eqn:E2.
      * apply path_eqb_eq in E2. subst r.
        destruct (path_eqb q p) eqn:E3; [|reflexivity].
        apply path_eqb_eq in E3. subst. rewrite path_eqb_refl in E. discriminate.
      * reflexivity.
Qed.

Lemma tfind_None_notin q t : tfind q t = None <-> ~ In q (map fst t).
Proof.
  induction t as [|[r e] t IH]; cbn [tfind map fst In].
  - split; [intros _ []|reflexivity].
  - destruct (path_eqb q r) eqn:E.
    + apply path_eqb_eq in E. subst. split; [discriminate|intro H; exfalso; apply H; now left].
    + apply path_eqb_neq in E. rewrite IH. split; [intros H [H1|H1]; [congruence|contradiction]|tauto].
Qed.

Lemma tfind_In q e t : NoDup (map fst t) -> (In (q, e) t <-> tfind q t = Some e).
Proof.
  induction t as [|[r e'] t IH]; intro ND; cbn [tfind In].
  - split; [intros []|discriminate].
  - cbn [map fst] in ND. inversion ND as [|x xs Hn ND']; subst.
    destruct (path_eqb q r) eqn:E.
    + apply path_eqb_eq in E. subst r. split.
      * intros [[= ->]|H]; [reflexivity|]. exfalso. apply Hn. apply in_map_iff. exists (q, e). auto.
      * intros [= ->]. now left.
    + apply path_eqb_neq in E. rewrite <- IH by exact ND'. split.
      * intros [[= -> _]|H]; [congruence|exact H].
      * intro H. now right.
Qed.

Lemma tensure_keys p m t :
  map fst (tensure p m t) = match tfind p t with Some _ => map fst t | None => map fst t ++ [p] end.
Proof.
  induction t as [|[r e] t IH]; cbn [tensure tfind map fst]; [reflexivity|].
  destruct (path_eqb p r) eqn:E; [reflexivity|]. cbn [map fst]. rewrite IH.
  destruct (tfind p t); reflexivity.
Qed.

Lemma tensure_nodup p m t : NoDup (map fst t) -> NoDup (map fst (tensure p m t)).
Proof.
  intro ND. rewrite tensure_keys. destruct (tfind p t) eqn:E; [exact ND|].
  apply NoDup_snoc; [exact ND|]. now apply tfind_None_notin.
Qed.

(* ------------------------------------------------------------ tadd_from *)
Fixpoint hit (d_rev parts q : path) : option bool :=
  match parts with
  | [] => None
  | x :: rest => if path_eqb q (rev (x :: d_rev))
                 then Some (match rest with [] => true | _ => false end)
                 else hit (x :: d_rev) rest q
  end.

Lemma hit_length d parts q m : hit d parts q = Some m -> length d < length q.
Proof.
  revert d; induction parts as [|x rest IH]; intros d; cbn [hit]; [discriminate|].
  destruct (path_eqb q (rev (x :: d))) eqn:E.
  - apply path_eqb_eq in E. subst. intros _. rewrite rev_length. cbn [length]. lia.
  - intro H. apply IH in H. cbn [length] in H. lia.
Qed.

Lemma tadd_from_nodup d parts t : NoDup (map fst t) -> NoDup (map fst (tadd_from d parts t)).
Proof.
  revert d t; induction parts as [|x rest IH]; intros d t ND; cbn [tadd_from]; [exact ND|].
  apply IH. now apply tensure_nodup.
Qed.

Lemma tfind_tadd_from d parts t q :
  tfind q (tadd_from d parts t) =
  match hit d parts q with
  | Some m => Some (match tfind q t with Some e => e || m | None => m end)
  | None => tfind q t
  end.
Proof.
  revert d t; induction parts as [|x rest IH]; intros d t; cbn [tadd_from hit]; [reflexivity|].
  rewrite IH, tfind_tensure.
  destruct (path_eqb q (rev (x :: d))) eqn:E.
  - apply path_eqb_eq in E. subst q.
    destruct (hit (x :: d) rest (rev (x :: d))) eqn:Eh.
    + apply hit_length in Eh. rewrite rev_length in Eh. lia.
    + reflexivity.
  - reflexivity.
Qed.

Lemma hit_spec d parts q m :
  hit d parts q = Some m <->
  exists k, 1 <= k <= length parts /\ q = rev d ++ firstn k parts /\ m = (k =? length parts).
Proof.
  revert d; induction parts as [|x rest IH]; intros d; cbn [hit].
  - split; [discriminate|intros (k & [H1 H2] & _); cbn in H2; lia].
  - destruct (path_eqb q (rev (x :: d))) eqn:E.
    + apply path_eqb_eq in E. subst q. split.
      * intros [= <-]. exists 1. split; [cbn [length]; lia|]. split.
        -- cbn [rev firstn]. reflexivity.
        -- destruct rest; reflexivity.
      * intros (k & [H1 H2] & Eq & ->). f_equal.
        assert (k = 1).
        { apply (f_equal (@length name)) in Eq. cbn [rev] in Eq.
          rewrite !app_length, !rev_length, firstn_length in Eq. cbn [length] in *. lia. }
        subst k. destruct rest; reflexivity.
    + rewrite IH. apply path_eqb_neq in E. split.
      * intros (k & [H1 H2] & -> & ->). exists (S k). split; [cbn [length]; lia|]. split.
        -- cbn [rev firstn]. now rewrite <- app_assoc.
        -- reflexivity.
      * intros (k & [H1 H2] & -> & ->). destruct k as [|k]; [lia|].
        destruct k as [|k].
        -- exfalso. apply E. reflexivity.
        -- exists (S k). split; [cbn [length] in H2; lia|]. split.
           ++ cbn [rev firstn]. now rewrite <- app_assoc.
           ++ reflexivity.
Qed.

Lemma hit_nil_spec parts q m :
  hit [] parts q = Some m <-> (prefpath q parts /\ m = path_eqb q parts).
Proof.
  rewrite hit_spec. cbn [rev app]. split.
  - intros (k & Hk & -> & ->). split; [now exists k|].
    destruct (Nat.eqb_spec k (length parts)) as [->|Hne].
    + rewrite firstn_all. symmetry. apply path_eqb_refl.
    + symmetry. apply path_eqb_neq. intro E. apply (f_equal (@length name)) in E.
      rewrite firstn_length in E. lia.
  - intros ((k & Hk & ->) & ->). exists k. split; [exact Hk|]. split; [reflexivity|].
    destruct (Nat.eqb_spec k (length parts)) as [->|Hne].
    + rewrite firstn_all. apply path_eqb_refl.
    + apply path_eqb_neq. intro E. apply (f_equal (@length name)) in E.
      rewrite firstn_length in E. lia.
Qed.

Lemma hit_nil_None parts q : hit [] parts q = None <-> ~ prefpath q parts.
Proof.
  destruct (hit [] parts q) eqn:E.
  - apply hit_nil_spec in E as [H _]. split; [discriminate|contradiction].
  - split; [intros _ H|reflexivity].
    assert (hit [] parts q = Some (path_eqb q parts)) by (apply hit_nil_spec; auto). congruence.
Qed.

(* ------------------------------------------------------------ tupdate invariant *)
Record tree_ok (names : list name) (t : tree) : Prop := {
  ok_nodup : NoDup (map fst t);
  ok_sound : forall q e, tfind q t = Some e -> exists n, In n names /\ prefpath q (split n);
  ok_complete : forall n q, In n names -> prefpath q (split n) -> exists e, tfind q t = Some e;
  ok_exists : forall q e, tfind q t = Some e -> (e = true <-> exists n, In n names /\ q = split n)
}.

Lemma tree_ok_nil : tree_ok [] [].
Proof. constructor; cbn; try constructor; try discriminate; intros; contradiction. Qed.

Lemma tree_ok_tadd names t nm : tree_ok names t -> tree_ok (names ++ [nm]) (tadd t nm).
Proof.
  intros [ND So Co Ex]. unfold tadd. constructor.
  - now apply tadd_from_nodup.
  - intros q e. rewrite tfind_tadd_from. destruct (hit [] (split nm) q) eqn:Eh.
    + intros _. apply hit_nil_spec in Eh as [Hp _]. exists nm. split; [apply in_or_app; right; now left|exact Hp].
    + intro H. apply So in H as (n & Hn & Hp). exists n. split; [apply in_or_app; now left|exact Hp].
  - intros n q Hn Hp. rewrite tfind_tadd_from. apply in_app_or in Hn as [Hn|[ <- |[]]].
    + destruct (Co n q Hn Hp) as (e & E). rewrite E. destruct (hit [] (split nm) q); eauto.
    + destruct (hit [] (split nm) q) eqn:Eh; [eauto|]. apply hit_nil_None in Eh. contradiction.
  - intros q e. rewrite tfind_tadd_from. destruct (hit [] (split nm) q) eqn:Eh.
    + apply hit_nil_spec in Eh as [Hp ->]. intros [= <-].
      destruct (tfind q t) as [e0|] eqn:E0.
      * rewrite orb_true_iff, (Ex q e0 E0), path_eqb_eq. split.
        -- intros [(n & Hn & ->)| ->]; [exists n|exists nm]; (split; [apply in_or_app; auto|reflexivity]).
           right. now left.
        -- intros (n & Hn & ->). apply in_app_or in Hn as [Hn|[ <- |[]]]; [left; eauto|now right].
      * rewrite path_eqb_eq. split.
        -- intros ->. exists nm. split; [apply in_or_app; right; now left|reflexivity].
        -- intros (n & Hn & ->). apply in_app_or in Hn as [Hn|[ <- |[]]]; [|reflexivity].
           exfalso. destruct (Co n (split n) Hn) as (e & E); [|congruence].
           apply bprefix_split. now left.
    + intro H. rewrite (Ex q e H). apply hit_nil_None in Eh. split.
      * intros (n & Hn & ->). exists n. split; [apply in_or_app; now left|reflexivity].
      * intros (n & Hn & ->). apply in_app_or in Hn as [Hn|[ <- |[]]]; [eauto|].
        exfalso. apply Eh. apply bprefix_split. now left.
Qed.

Lemma tree_ok_fold names0 t0 names :
  tree_ok names0 t0 -> tree_ok (names0 ++ names) (fold_left tadd names t0).
Proof.
  revert names0 t0; induction names as [|nm names IH]; intros names0 t0 H; cbn [fold_left].
  - now rewrite app_nil_r.
  - replace (names0 ++ nm :: names) with ((names0 ++ [nm]) ++ names) by (rewrite <- app_assoc; reflexivity).
    apply IH. now apply tree_ok_tadd.
Qed.

Lemma tupdate_ok names : tree_ok names (tupdate names).
Proof. apply (tree_ok_fold [] [] names), tree_ok_nil. Qed.

(* ------------------------------------------------------------ entries *)
Lemma node_split names t q e :
  tree_ok names t -> tfind q t = Some e -> split (node_name q) = q /\ in_closure names (node_name q).
Proof.
  intros Hok H. destruct (ok_sound _ _ Hok q e H) as (n & Hn & Hp).
  assert (Hs : split (node_name q) = q).
  { unfold node_name. apply split_join; [eapply prefpath_nonempty; eauto|].
    eapply prefpath_nodelim; [apply split_nodelim|eauto]. }
  split; [exact Hs|]. exists n. split; [exact Hn|]. apply bprefix_split. now rewrite Hs.
Qed.

Lemma closure_found names t p :
  tree_ok names t -> in_closure names p -> exists e, tfind (split p) t = Some e.
Proof. intros Hok (n & Hn & Hb). apply bprefix_split in Hb. eapply ok_complete; eauto. Qed.

Lemma has_children_spec names t q e :
  tree_ok names t -> tfind q t = Some e ->
  (has_children t q = true <-> exists m, in_closure names m /\ inferior (node_name q) m).
Proof.
  intros Hok Hq. destruct (node_split _ _ _ _ Hok Hq) as [Hs Hc].
  unfold has_children. rewrite existsb_exists. split.
  - intros ([c ec] & Hin & Hch). cbn [fst] in Hch. unfold is_child in Hch.
    apply andb_true_iff in Hch as [Hl Hp]. apply Nat.eqb_eq in Hl. apply is_prefix_spec in Hp as (r & ->).
    rewrite app_length in Hl. destruct r as [|x [|y r]]; cbn [length] in Hl; try lia.
    apply (tfind_In _ _ _ (ok_nodup _ _ Hok)) in Hin.
    destruct (node_split _ _ _ _ Hok Hin) as [Hs' Hc'].
    exists (node_name (q ++ [x])). split; [exact Hc'|]. exists x. unfold node_name.
    rewrite join_app; [reflexivity| |discriminate].
    destruct q; [|discriminate]. cbn in Hs. discriminate.
  - intros (m & Hm & (r & ->)).
    pose proof (split_nonempty r) as Hr. destruct (split r) as [|x xs] eqn:Er; [congruence|].
    assert (Hpp : prefpath (q ++ [x]) (split (node_name q ++ DELIM :: r))).
    { rewrite split_app_delim, Hs, Er. replace (q ++ x :: xs) with ((q ++ [x]) ++ xs) by (now rewrite <- app_assoc).
      apply prefpath_app. destruct q; discriminate. }
    destruct Hm as (n & Hn & Hb). apply bprefix_split in Hb.
    destruct (ok_complete _ _ Hok n (q ++ [x]) Hn (prefpath_trans _ _ _ Hpp Hb)) as (ec & Ec).
    exists (q ++ [x], ec). split; [now apply (tfind_In _ _ _ (ok_nodup _ _ Hok))|].
    cbn [fst]. unfold is_child. apply andb_true_iff. split.
    + apply Nat.eqb_eq. rewrite app_length. cbn [length]. lia.
    + apply is_prefix_spec. now exists [x].
Qed.

(* ListTree(...).update( *names ).list(): exactly the closure of the names,
   each once, with the right attributes *)
Theorem tlist_spec names :
  let t := tupdate names in
  (forall e, In e (tlist t) ->
     in_closure names (e_name e)
     /\ (e_exists e = true <-> In (e_name e) names)
     /\ (e_children e = true <-> exists m, in_closure names m /\ inferior (e_name e) m))
  /\ (forall p, in_closure names p -> exists e, In e (tlist t) /\ e_name e = p)
  /\ NoDup (map e_name (tlist t)).
Proof.
  intro t. pose proof (tupdate_ok names) as Hok. fold t in Hok.
  assert (ND := ok_nodup _ _ Hok).
  split; [|split].
  - intros e He. unfold tlist in He. apply in_map_iff in He as ([q ex] & <- & Hin).
    cbn [e_name e_exists e_children fst snd].
    apply (tfind_In _ _ _ ND) in Hin.
    destruct (node_split _ _ _ _ Hok Hin) as [Hs Hc]. split; [exact Hc|]. split.
    + rewrite (ok_exists _ _ Hok q ex Hin). split.
      * intros (n & Hn & ->). unfold node_name. now rewrite join_split.
      * intro H. exists (node_name q). split; [exact H|now rewrite Hs].
    + eapply has_children_spec; eauto.
  - intros p Hp. destruct (closure_found _ _ _ Hok Hp) as (e & E).
    exists {| e_name := node_name (split p); e_exists := e; e_children := has_children t (split p) |}.
    split.
    + unfold tlist. apply in_map_iff. exists (split p, e). split; [reflexivity|].
      now apply (tfind_In _ _ _ ND).
    + cbn [e_name]. unfold node_name. apply join_split.
  - unfold tlist. rewrite map_map. cbn [e_name].
    (* join is injective on the node paths *)
    assert (Hinj : forall a b, In a t -> In b t -> node_name (fst a) = node_name (fst b) -> fst a = fst b).
    { intros [qa ea] [qb eb] Ha Hb E. cbn [fst] in *.
      apply (tfind_In _ _ _ ND) in Ha. apply (tfind_In _ _ _ ND) in Hb.
      destruct (node_split _ _ _ _ Hok Ha) as [Sa _]. destruct (node_split _ _ _ _ Hok Hb) as [Sb _].
      now rewrite <- Sa, <- Sb, E. }
    clear Hok. induction t as [|a t IH]; cbn [map]; [constructor|].
    cbn [map fst] in ND. inversion ND as [|x xs Hn ND']; subst. constructor.
    + intro H. apply in_map_iff in H as (b & Eb & Hb).
      apply Hn. apply in_map_iff. exists b. split; [|exact Hb].
      symmetry. apply Hinj; [now left|now right|now symmetry].
    + apply IH; [exact ND'|]. intros a' b' Ha' Hb'. apply Hinj; now right.
Qed.

(* ListTree.get(name): present iff the name is in the closure *)
Lemma tget_spec names nm :
  (tget (tupdate names) nm <> None <-> in_closure names nm).
Proof.
  pose proof (tupdate_ok names) as Hok. unfold tget.
  destruct (tfind (split nm) (tupdate names)) eqn:E.
  - split; [intros _|intros _; discriminate].
    destruct (ok_sound _ _ Hok _ _ E) as (n & Hn & Hp). exists n. split; [exact Hn|now apply bprefix_split].
  - split; [congruence|]. intro H. destruct (closure_found _ _ _ Hok H) as (e & E'). congruence.
Qed.
