(* Namespace/PyFs.v — target vocabulary of harness/translate_layout_fx.py: what
   an effectful function of pymap/backend/maildir/layout.py hands to the
   filesystem.  Definitions only. *)
From PV Require Import Base.Prelude Namespace.PyStr.

Inductive touch :=
| TRead (p : pystr)        (* os.listdir(p), os.path.isdir(p) *)
| TMut (p : pystr)         (* os.rmdir(p), os.remove(p), open(p, 'x') *)
| TMutTree (p : pystr).    (* p and anything below it: the bottom-up os.walk(p) removal
                              loop, os.rename, Maildir(p, create=True) *)

Definition mut_paths (ts : list touch) : list pystr :=
  flat_map (fun t => match t with TRead _ => [] | TMut p => [p] | TMutTree p => [p] end) ts.
