(* Namespace/MdInv.v — the maildir model: missing/existing names are refused,
   and in the fs layout every folder's superiors are folders, so that the
   os.rename of RENAME always finds its source directory (no CExc). *)
From PV Require Import Base.Prelude Namespace.Glob Namespace.NsBase Namespace.NsBaseProofs
     Namespace.ListTree Namespace.ListTreeProofs Namespace.NsModel Namespace.NsProofs
     Namespace.MdModel Namespace.MdProofs Namespace.Paths Namespace.PathsProofs.
Require Import Lia.

Section Refusals.
  Variable uid0 : N.
  Variable lay : layout.
  Notation step := (mstep uid0 lay).

  Lemma x_get_missing st n : n <> INBOX -> ~ In n (map fst (x_folders st)) ->
    exists k, x_get lay st n = inr k.
  Proof.
    intros Hn Hnin. unfold x_get. rewrite (proj2 (name_eqb_neq _ _) Hn).
    destruct (lsplit lay n); [|eauto].
    destruct (alookup n (x_folders st)) eqn:E; [|eauto].
    exfalso. apply Hnin. apply amem_true. unfold amem. now rewrite E.
  Qed.

  (* deleting, selecting, querying, appending to a missing mailbox: tagged NO,
     nothing changes *)
  Theorem m_missing_refused st n0 :
    norm n0 <> INBOX -> ~ In (norm n0) (map fst (x_folders st)) ->
    forall o, In o [OStatus n0; OSelect n0; OAppend n0; ODelete n0] ->
    exists k, o_cond (snd (step st o)) = CNo k /\ fst (step st o) = st.
  Proof.
    intros Hn Hnin o Ho.
    assert (Hc : exists k, o_cond (snd (step st o)) = CNo k).
    { destruct (x_get_missing st (norm n0) Hn Hnin) as (k & Eg).
      destruct Ho as [<-|[<-|[<-|[<-|[]]]]]; cbn [mstep]; cbv zeta; rewrite ?Eg; cbn; eauto.
      rewrite (proj2 (name_eqb_neq _ _) Hn). destruct (lsplit lay (norm n0)); [|cbn; eauto].
      assert (E : amem (norm n0) (x_folders st) = false).
      { destruct (amem (norm n0) (x_folders st)) eqn:E; [|reflexivity]. apply amem_true in E. contradiction. }
      rewrite E. cbn. eauto. }
    destruct Hc as (k & Hc). exists k. split; [exact Hc|]. eapply m_error_no_effect; eauto.
  Qed.

  (* creating an existing mailbox (or INBOX, or a refused name) *)
  Theorem m_create_refused st n0 :
    (exists k, create_name n0 = inr k)
    \/ (exists n, create_name n0 = inl n /\ In n (map fst (x_folders st))) ->
    exists k, o_cond (snd (step st (OCreate n0))) = CNo k /\ fst (step st (OCreate n0)) = st.
  Proof.
    intro H.
    assert (Hc : exists k, o_cond (snd (step st (OCreate n0))) = CNo k).
    { cbn [mstep]. destruct H as [(k & ->)|(n & -> & Hin)]; [cbn; eauto|].
      destruct (lsplit lay n); [|cbn; eauto].
      destruct (negb (ancestors_ok st p)); [cbn; eauto|].
      apply amem_true in Hin. rewrite Hin. cbn. eauto. }
    destruct Hc as (k & Hc). exists k. split; [exact Hc|]. eapply m_error_no_effect; eauto.
  Qed.

  (* renaming a missing mailbox, or onto an existing name, or onto INBOX *)
  Theorem m_rename_refused st a0 b0 :
    (exists k, rename_dest b0 = inr k)
    \/ ~ in_closure (INBOX :: folder_names st) (norm a0)
    \/ in_closure (INBOX :: folder_names st) (norm b0) ->
    exists k, o_cond (snd (step st (ORename a0 b0))) = CNo k /\ fst (step st (ORename a0 b0)) = st.
  Proof.
    intro H.
    assert (Hc : exists k, o_cond (snd (step st (ORename a0 b0))) = CNo k).
    { cbn [mstep]. cbv zeta. destruct (rename_dest b0) as [b'|k] eqn:Erd; [|cbn; eauto].
      destruct (rename_dest_inl _ _ Erd) as [_ ->].
      destruct (name_eqb (norm a0) INBOX); [cbn; eauto|].
      destruct (starts_with (norm a0 ++ [DELIM]) (norm b0)); [cbn; eauto|].
      destruct H as [(k & H)|[H|H]]; [discriminate| |].
      - destruct (tget (x_tree st) (norm a0)) eqn:E; [|cbn; eauto].
        exfalso. apply H. apply tget_spec. unfold x_tree in E. congruence.
      - apply tget_spec in H. fold (x_tree st) in H.
        destruct (tget (x_tree st) (norm a0)); [|cbn; eauto].
        destruct (tget (x_tree st) (norm b0)); [cbn; eauto|congruence]. }
    destruct Hc as (k & Hc). exists k. split; [exact Hc|]. eapply m_error_no_effect; eauto.
  Qed.
End Refusals.

(* ------------------------------------------------------------ fs: superiors are folders *)
Definition pclosed (f : list (name * mbox)) : Prop :=
  forall k, In k (map fst f) -> forall i, 1 <= i < length (split k) ->
    exists k2, In k2 (map fst f) /\ split k2 = firstn i (split k).

Lemma firstn_nodelim i (l : path) : Forall nodelim l -> Forall nodelim (firstn i l).
Proof. intro H. apply Forall_forall. intros x Hx. apply firstn_In' in Hx. rewrite Forall_forall in H. auto. Qed.

Lemma split_join_firstn b i : 1 <= i -> split (join (firstn i (split b))) = firstn i (split b).
Proof.
  intro Hi. apply split_join.
  - pose proof (split_nonempty b). destruct (split b); [congruence|]. destruct i; [lia|cbn [firstn]; discriminate].
  - apply firstn_nodelim, split_nodelim.
Qed.

(* a name in the listing tree is a folder (not only a superior of one) *)
Lemma tree_name_is_key f a : pclosed f -> a <> INBOX ->
  in_closure (INBOX :: INBOX :: map fst f) a -> In a (map fst f).
Proof.
  intros Hc Ha (n & Hn & Hb).
  assert (Hk : In n (map fst f)).
  { destruct Hn as [<-|[<-|Hn]]; [| |exact Hn]; exfalso; now apply (inbox_not_under a INBOX Ha Hb). }
  apply bprefix_split in Hb. destruct Hb as (i & [Hi1 Hi2] & E).
  destruct (Nat.eq_dec i (length (split n))) as [->|Hne].
  - rewrite firstn_all in E. rewrite <- (join_split a), E, join_split. exact Hk.
  - destruct (Hc n Hk i) as (k2 & Hk2 & E2); [lia|].
    rewrite <- E in E2. rewrite <- (join_split a), <- E2, join_split. exact Hk2.
Qed.

Lemma add_superiors_mono uid0 ks parts : forall f nx x,
  In x (map fst f) -> In x (map fst (fst (add_superiors uid0 ks parts f nx))).
Proof.
  induction ks as [|k ks IH]; intros f nx x Hx; cbn [add_superiors fst]; [exact Hx|].
  destruct (amem (join (firstn k parts)) f) eqn:E; [now apply IH|].
  apply IH. rewrite aset_keys, E. apply in_or_app. now left.
Qed.

Lemma add_superiors_all uid0 ks parts : forall f nx j,
  In j ks -> In (join (firstn j parts)) (map fst (fst (add_superiors uid0 ks parts f nx))).
Proof.
  induction ks as [|k ks IH]; intros f nx j Hj; [destruct Hj|].
  cbn [add_superiors]. destruct Hj as [->|Hj].
  - destruct (amem (join (firstn j parts)) f) eqn:E.
    + apply add_superiors_mono. now apply amem_true.
    + apply add_superiors_mono. rewrite aset_keys, E. apply in_or_app. right. now left.
  - destruct (amem (join (firstn k parts)) f); now apply IH.
Qed.

Lemma firstn_firstn_le {A} i j (l : list A) : i <= j -> firstn i (firstn j l) = firstn i l.
Proof. intro H. rewrite firstn_firstn. now rewrite Nat.min_l. Qed.

Lemma pclosed_superiors uid0 b f nx :
  pclosed f ->
  pclosed (fst (add_superiors uid0 (seq 1 (length (split b) - 1)) (split b) f nx)).
Proof.
  intros Hc k Hk i Hi.
  set (ks := seq 1 (length (split b) - 1)) in *.
  destruct (add_superiors_keys uid0 ks (split b) f nx k Hk) as [Hold|(j & Hj & ->)].
  - destruct (Hc k Hold i Hi) as (k2 & Hk2 & E). exists k2. split; [now apply add_superiors_mono|exact E].
  - apply in_seq in Hj. rewrite split_join_firstn in * by lia.
    rewrite firstn_length in Hi.
    exists (join (firstn i (split b))). split.
    + apply add_superiors_all. apply in_seq. lia.
    + rewrite split_join_firstn by lia. rewrite firstn_firstn_le by lia. reflexivity.
Qed.

(* paths of moved keys *)
Lemma split_move_key a b k :
  split (move_key a b k) =
  match drop_prefix (split a) (split k) with
  | Some rest => split b ++ rest
  | None => split k
  end.
Proof.
  unfold move_key. destruct (drop_prefix (split a) (split k)) as [rest|] eqn:E; [|reflexivity].
  apply drop_prefix_spec in E. apply split_sfx.
  pose proof (split_nodelim k) as H. rewrite E in H. apply Forall_app in H. tauto.
Qed.

Lemma drop_prefix_self (p : path) : drop_prefix p p = Some [].
Proof. apply drop_prefix_spec. now rewrite app_nil_r. Qed.

Lemma pclosed_move a b f :
  pclosed f -> ~ bprefix a b ->
  (forall i, 1 <= i < length (split b) -> exists k2, In k2 (map fst f) /\ split k2 = firstn i (split b)) ->
  pclosed (move_folders a b f).
Proof.
  intros Hc Hab Hsup k' Hk' i Hi.
  destruct (move_folders_spec a b f) as [_ M2]. rewrite M2 in *.
  apply in_map_iff in Hk' as (k1 & <- & Hk1).
  assert (Hpa : split a <> []) by apply split_nonempty.
  assert (Hmove : forall k2, In k2 (map fst f) -> In (move_key a b k2) (map (move_key a b) (map fst f)))
    by (intros; now apply in_map).
  rewrite split_move_key in *.
  destruct (drop_prefix (split a) (split k1)) as [rest|] eqn:Ed.
  - apply drop_prefix_spec in Ed. rewrite app_length in Hi.
    destruct (Nat.lt_ge_cases i (length (split b))) as [Hlt|Hge].
    + (* a superior of the destination *)
      destruct (Hsup i) as (k2 & Hk2 & E2); [lia|].
      exists (move_key a b k2). split; [now apply Hmove|].
      rewrite split_move_key.
      destruct (drop_prefix (split a) (split k2)) as [r2|] eqn:Ed2.
      * exfalso. apply Hab. apply bprefix_split. apply drop_prefix_spec in Ed2.
        rewrite E2 in Ed2. rewrite <- (firstn_skipn i (split b)), Ed2, <- app_assoc.
        now apply prefpath_app.
      * rewrite E2, firstn_app. replace (i - length (split b)) with 0 by lia.
        cbn [firstn]. now rewrite app_nil_r.
    + (* at or below the destination: the image of a key at or below the source *)
      set (m := i - length (split b)).
      destruct (Hc k1 Hk1 (length (split a) + m)) as (k2 & Hk2 & E2).
      { rewrite Ed, app_length. destruct (split a); [congruence|]. cbn [length]. unfold m. lia. }
      exists (move_key a b k2). split; [now apply Hmove|].
      rewrite split_move_key, E2, Ed, firstn_app_2.
      assert (Ed3 : drop_prefix (split a) (split a ++ firstn m rest) = Some (firstn m rest))
        by (now apply drop_prefix_spec).
      rewrite Ed3. replace i with (length (split b) + m) by (unfold m; lia).
      now rewrite firstn_app_2.
  - destruct (Hc k1 Hk1 i Hi) as (k2 & Hk2 & E2).
    exists (move_key a b k2). split; [now apply Hmove|].
    rewrite split_move_key.
    destruct (drop_prefix (split a) (split k2)) as [r2|] eqn:Ed2; [|exact E2].
    exfalso. apply drop_prefix_spec in Ed2. rewrite E2 in Ed2.
    assert (drop_prefix (split a) (split k1) = Some (r2 ++ skipn i (split k1))).
    { apply drop_prefix_spec. rewrite app_assoc, <- Ed2. now rewrite firstn_skipn. }
    congruence.
Qed.

Lemma adel_keys_other {V} k (l : list (name * V)) x :
  x <> k -> In x (map fst l) -> In x (map fst (adel k l)).
Proof.
  intro Hx. induction l as [|[k' v] l IH]; cbn [adel map fst In]; [auto|].
  destruct (name_eqb k k') eqn:E.
  - apply name_eqb_eq in E. subst k'. intros [H|H]; [congruence|exact H].
  - cbn [map fst In]. intros [H|H]; [now left|right; now apply IH].
Qed.

Lemma bprefix_cases a b : bprefix a b -> b = a \/ starts_with (a ++ [DELIM]) b = true.
Proof.
  intros [->|(r & ->)]; [now left|right]. unfold starts_with.
  induction a as [|c a IH]; cbn [app is_prefix]; [now rewrite N.eqb_refl|].
  now rewrite N.eqb_refl, IH.
Qed.

Section FsInv.
  Variable uid0 : N.
  Notation step := (mstep uid0 LFs).

  (* the os.rename of the fs layout always finds its source directory *)
  Theorem fs_no_exc st o : pclosed (x_folders st) -> o_cond (snd (step st o)) <> CExc.
  Proof.
    intro Hc. destruct o; cbn [mstep]; cbv zeta.
    - destruct (create_name n) as [n'|k]; [|cbn; discriminate].
      destruct (lsplit LFs n'); [|cbn; discriminate].
      destruct (negb (ancestors_ok st p)); [cbn; discriminate|].
      destruct (amem n' (x_folders st)); [cbn; discriminate|].
      destruct (negb (parent_ok LFs st p)); cbn; discriminate.
    - destruct (name_eqb (norm n) INBOX); [cbn; discriminate|].
      destruct (lsplit LFs (norm n)); [|cbn; discriminate].
      destruct (negb (amem (norm n) (x_folders st))); [cbn; discriminate|].
      destruct (has_child_folder st p); cbn; discriminate.
    - destruct (rename_dest b) as [b'|k]; [|cbn; discriminate].
      destruct (name_eqb (norm a) INBOX) eqn:Ea; [cbn; discriminate|]. apply name_eqb_neq in Ea.
      destruct (starts_with (norm a ++ [DELIM]) b'); [cbn; discriminate|].
      destruct (tget (x_tree st) (norm a)) eqn:Eta; [|cbn; discriminate].
      destruct (tget (x_tree st) b'); [cbn; discriminate|].
      destruct (lsplit LFs (norm a)); [|cbn; discriminate].
      destruct (lsplit LFs b') as [pb|]; [|cbn; discriminate].
      destruct (add_superiors uid0 (seq 1 (length pb - 1)) pb (x_folders st) (x_next st)) as [f1 nx] eqn:Eadd.
      assert (Hin : In (norm a) (map fst (x_folders st))).
      { apply (tree_name_is_key _ _ Hc Ea). apply tget_spec. unfold x_tree, folder_names in Eta. congruence. }
      assert (Hin1 : In (norm a) (map fst f1)).
      { pose proof (add_superiors_mono uid0 (seq 1 (length pb - 1)) pb (x_folders st) (x_next st) _ Hin) as H.
        now rewrite Eadd in H. }
      apply amem_true in Hin1. rewrite Hin1. cbn. discriminate.
    - destruct (inbox_case_bad (norm n)); [cbn; discriminate|].
      destruct (lsplit LFs (norm n)); cbn; discriminate.
    - destruct (lsplit LFs (norm n)); cbn; discriminate.
    - unfold list_out. cbn. discriminate.
    - unfold list_out. cbn. discriminate.
    - destruct (x_get LFs st (norm n)); cbn; discriminate.
    - destruct (x_get LFs st (norm n)); cbn; discriminate.
    - destruct (x_get LFs st (norm n)); cbn; discriminate.
  Qed.

  Lemma pclosed_same_keys (f f' : list (name * mbox)) :
    (forall x, In x (map fst f') <-> In x (map fst f)) -> pclosed f -> pclosed f'.
  Proof.
    intros H Hc k Hk i Hi. apply H in Hk. destruct (Hc k Hk i Hi) as (k2 & Hk2 & E).
    exists k2. split; [now apply H|exact E].
  Qed.

  Theorem pclosed_step st o : pclosed (x_folders st) -> pclosed (x_folders (fst (step st o))).
  Proof.
    intro Hc. destruct (o_cond (snd (step st o))) eqn:Ec.
    2:{ now rewrite (m_error_no_effect uid0 LFs st o code Ec). }
    2:{ exfalso. now apply (fs_no_exc st o Hc). }
    destruct o; revert Ec; cbn [mstep]; cbv zeta.
    - (* create *)
      destruct (create_name n) as [n'|k] eqn:Ecn; [|cbn; discriminate].
      pose proof (create_name_inl _ _ Ecn) as Hn'.
      destruct (lsplit LFs n') as [parts|] eqn:El; [|cbn; discriminate].
      destruct (lsplit_Some _ _ _ El Hn') as [_ ->].
      destruct (negb (ancestors_ok st (split n'))); [cbn; discriminate|].
      destruct (amem n' (x_folders st)) eqn:Em; [cbn; discriminate|].
      destruct (negb (parent_ok LFs st (split n'))) eqn:Ep; [cbn; discriminate|]. intros _.
      apply negb_false_iff in Ep. cbn [parent_ok] in Ep.
      cbn [fst x_with x_folders]. intros k Hk i Hi.
      assert (Hsub : forall x, In x (map fst (x_folders st)) ->
                               In x (map fst (aset n' (fresh uid0 (x_next st)) (x_folders st)))).
      { intros x Hx. rewrite aset_keys, Em. apply in_or_app. now left. }
      apply aset_keys_incl in Hk as [->|Hk].
      + (* the new folder: its parent exists, and the parent's superiors with it *)
        set (L := length (split n')) in *.
        assert (Hpar : exists p, In p (map fst (x_folders st)) /\ split p = firstn (L - 1) (split n')).
        { unfold is_dir in Ep. destruct (firstn (L - 1) (split n')) as [|x r] eqn:Ef.
          - exfalso. apply (f_equal (@length name)) in Ef. rewrite firstn_length in Ef. cbn [length] in Ef. lia.
          - rewrite <- Ef in *. apply amem_true in Ep. eexists. split; [exact Ep|].
            apply split_join_firstn. lia. }
        destruct Hpar as (p & Hp & Esp).
        destruct (Nat.eq_dec i (L - 1)) as [->|Hne].
        * exists p. split; [now apply Hsub|exact Esp].
        * destruct (Hc p Hp i) as (k2 & Hk2 & E2).
          { rewrite Esp, firstn_length. lia. }
          exists k2. split; [now apply Hsub|]. rewrite E2, Esp. apply firstn_firstn_le. lia.
      + destruct (Hc k Hk i Hi) as (k2 & Hk2 & E2). exists k2. split; [now apply Hsub|exact E2].
    - (* delete *)
      destruct (name_eqb (norm n) INBOX) eqn:En; [cbn; discriminate|]. apply name_eqb_neq in En.
      destruct (lsplit LFs (norm n)) as [parts|] eqn:El; [|cbn; discriminate].
      destruct (negb (amem (norm n) (x_folders st))); [cbn; discriminate|].
      destruct (has_child_folder st parts) eqn:Eh; [cbn; discriminate|]. intros _.
      assert (Eparts : parts = split (norm n)) by (now destruct (lsplit_Some _ _ _ El En)).
      subst parts.
      cbn [fst x_with x_folders]. intros k Hk i Hi.
      apply adel_keys_incl in Hk.
      destruct (Hc k Hk i Hi) as (k2 & Hk2 & E2).
      exists k2. split; [|exact E2]. apply adel_keys_other; [|exact Hk2].
      intros ->.
      (* k has the deleted folder as a proper superior: it has a child folder *)
      assert (Hch : exists c, In c (map fst (x_folders st)) /\ split c = firstn (S i) (split k)).
      { destruct (Nat.eq_dec (S i) (length (split k))) as [E|Hne].
        - exists k. split; [exact Hk|]. now rewrite E, firstn_all.
        - apply Hc; [exact Hk|lia]. }
      destruct Hch as (c & Hcin & Ec).
      assert (has_child_folder st (split (norm n)) = true); [|congruence].
      unfold has_child_folder. apply existsb_exists.
      apply in_map_iff in Hcin as ([c' v] & <- & Hcv). exists (c', v). split; [exact Hcv|].
      cbn [fst] in *. unfold is_child. apply andb_true_iff. split.
      + apply Nat.eqb_eq. rewrite Ec, E2, !firstn_length. lia.
      + apply is_prefix_spec. rewrite Ec, E2.
        exists (firstn 1 (skipn i (split k))).
        rewrite <- (firstn_skipn i (split k)) at 1.
        rewrite firstn_app, firstn_firstn, firstn_length.
        replace (Nat.min (S i) i) with i by lia. replace (S i - Nat.min i (length (split k))) with 1 by lia.
        reflexivity.
    - (* rename *)
      destruct (rename_dest b) as [b'|k] eqn:Erd; [|cbn; discriminate].
      destruct (rename_dest_inl _ _ Erd) as [Hb' _].
      destruct (name_eqb (norm a) INBOX) eqn:Ea; [cbn; discriminate|]. apply name_eqb_neq in Ea.
      destruct (starts_with (norm a ++ [DELIM]) b') eqn:Esw; [cbn; discriminate|].
      destruct (tget (x_tree st) (norm a)) eqn:Eta; [|cbn; discriminate].
      destruct (tget (x_tree st) b') eqn:Etb; [cbn; discriminate|].
      destruct (lsplit LFs (norm a)) as [pa|] eqn:Ela; [|cbn; discriminate].
      destruct (lsplit LFs b') as [pb|] eqn:Elb; [|cbn; discriminate].
      destruct (lsplit_Some _ _ _ Elb Hb') as [_ ->].
      destruct (add_superiors uid0 (seq 1 (length (split b') - 1)) (split b') (x_folders st) (x_next st))
        as [f1 nx] eqn:Eadd.
      destruct (amem (norm a) f1); [|cbn; discriminate]. intros _.
      cbn [fst x_with x_folders].
      pose proof (pclosed_superiors uid0 b' (x_folders st) (x_next st) Hc) as Hc1. rewrite Eadd in Hc1. cbn [fst] in Hc1.
      apply pclosed_move; [exact Hc1| |].
      + intro Hp. apply bprefix_cases in Hp as [->|Hp]; [|congruence].
        (* b' = a: then b' is in the tree *) congruence.
      + intros i Hi. exists (join (firstn i (split b'))). split.
        * pose proof (add_superiors_all uid0 (seq 1 (length (split b') - 1)) (split b') (x_folders st) (x_next st) i) as H.
          rewrite Eadd in H. apply H. apply in_seq. lia.
        * apply split_join_firstn. lia.
    - destruct (inbox_case_bad (norm n)); [intros _; exact Hc|].
      destruct (lsplit LFs (norm n)); intros _; exact Hc.
    - destruct (lsplit LFs (norm n)); intros _; exact Hc.
    - intros _. exact Hc.
    - intros _. exact Hc.
    - destruct (x_get LFs st (norm n)); intros _; exact Hc.
    - destruct (x_get LFs st (norm n)); intros _; exact Hc.
    - (* append: the key set is unchanged *)
      unfold x_get. destruct (name_eqb (norm n) INBOX) eqn:En.
      + intros _. cbn [fst]. unfold x_append. rewrite En. exact Hc.
      + destruct (lsplit LFs (norm n)); [|intros _; exact Hc].
        destruct (alookup (norm n) (x_folders st)) eqn:Eg; [|intros _; exact Hc].
        intros _. cbn [fst]. unfold x_append. rewrite En. cbn [x_with x_folders].
        eapply pclosed_same_keys; [|exact Hc]. intro x. rewrite aset_keys.
        assert (amem (norm n) (x_folders st) = true) by (unfold amem; now rewrite Eg).
        rewrite H. reflexivity.
  Qed.

  Theorem pclosed_run prog : forall st, pclosed (x_folders st) -> pclosed (x_folders (mrun uid0 LFs st prog)).
  Proof.
    unfold mrun. induction prog as [|o prog IH]; intros st H; cbn [fold_left]; [exact H|].
    apply IH. now apply pclosed_step.
  Qed.

  (* no program on the fs layout ever makes the model raise *)
  Theorem fs_no_exc_run prog o : o_cond (snd (step (mrun uid0 LFs md_init prog) o)) <> CExc.
  Proof. apply fs_no_exc. apply pclosed_run. intros k []. Qed.
End FsInv.

(* the ++ layout has no failing os.rename at all *)
Theorem plus_no_exc uid0 st o : o_cond (snd (mstep uid0 LPlus st o)) <> CExc.
Proof.
  destruct o; cbn [mstep]; cbv zeta;
    repeat match goal with
           | |- context [match create_name ?n with _ => _ end] => destruct (create_name n)
           | |- context [match rename_dest ?n with _ => _ end] => destruct (rename_dest n)
           | |- context [if ?c then _ else _] => destruct c
           | |- context [match lsplit ?l ?n with _ => _ end] => destruct (lsplit l n)
           | |- context [match tget ?t ?n with _ => _ end] => destruct (tget t n)
           | |- context [match x_get ?l ?s ?n with _ => _ end] => destruct (x_get l s n)
           | |- context [let '(_, _) := ?p in _] => destruct p
           end; unfold list_out; cbn; discriminate.
Qed.
