(* Namespace/LayoutGenCheck.v — case checkers for the `layout_gen` families of
   harness/props/C08.py: the definitions generated from layout.py
   (Namespace/LayoutGen.v) and the CPython-semantics vocabulary they are
   written in (Namespace/PyStr.v) are run on the inputs on which the real
   functions were run.  This validates the translator and the vocabulary; it is
   independent of the hand model. *)
From PV Require Import Base.Prelude Namespace.PyStr Namespace.Glob Namespace.NsBase
     Namespace.ListTree Namespace.NsModel Namespace.MdModel Namespace.Paths
     Namespace.LayoutGen Namespace.LayoutSpec.

Definition strs_eqb : list pystr -> list pystr -> bool := eqb_list str_eqb.

Definition pyres_eqb {A} (eqb : A -> A -> bool) (a b : pyres A) : bool :=
  match a, b with
  | PRet x, PRet y => eqb x y
  | PNotSupported, PNotSupported => true
  | PUnicodeError, PUnicodeError => true
  | _, _ => false
  end.

Inductive gcase :=
| GValid (l : layout) (part : pystr) (r : bool)                 (* cls._valid_part(part) *)
| GSplit (l : layout) (n d : pystr) (r : pyres (list pystr))   (* cls._split(n, d) *)
| GJoin (l : layout) (ps : list pystr) (d : pystr) (r : pystr) (* cls._join(ps, d) *)
| GSubdir (ps : list pystr) (r : pystr)                        (* DefaultLayout._get_subdir *)
| GParts (s : pystr) (r : list pystr)                          (* DefaultLayout._get_parts *)
| GPartsPath (l : layout) (root : pystr) (ps : list pystr) (r : pystr)   (* obj._get_path(ps) *)
| GGetPath (l : layout) (root n d : pystr) (r : pyres pystr)   (* obj.get_path(n, d) *)
| GPySplit (d s : pystr) (r : list pystr)                      (* s.split(d) *)
| GPyJoin (d : pystr) (ps : list pystr) (r : pystr)            (* d.join(ps) *)
| GPyIn (d s : pystr) (r : bool)                               (* d in s *)
| GFsLen (s : pystr) (r : option N)                            (* len(os.fsencode(s)) *)
| GDelim (d : pystr).                                          (* MailboxSet.delimiter *)

Definition chk_gen (c : gcase) : bool :=
  match c with
  | GValid l part r => Bool.eqb (gen_valid_part l part) r
  | GSplit l n d r => pyres_eqb strs_eqb (gen_split l n d) r
  | GJoin l ps d r => str_eqb (gen_join l ps d) r
  | GSubdir ps r => str_eqb (gen_Default__get_subdir ps) r
  | GParts s r => strs_eqb (gen_Default__get_parts s) r
  | GPartsPath l root ps r => str_eqb (gen_parts_path l root ps) r
  | GGetPath l root n d r => pyres_eqb str_eqb (gen_get_path l root n d) r
  | GPySplit d s r => strs_eqb (py_split d s) r
  | GPyJoin d ps r => str_eqb (py_join d ps) r
  | GPyIn d s r => Bool.eqb (py_contains d s) r
  | GFsLen s r => option_eqb N.eqb (fsencode_len s) r
  | GDelim d => str_eqb gen_delimiter d
  end.
