(* Namespace/GlobProofs.v — the regular expression of ListTree._get_pattern
   denotes exactly the RFC 3501 LIST wildcard matcher. *)
From PV Require Import Base.Prelude Namespace.Glob.
Require Import Lia.

(* ------------------------------------------------ denotation of a regex *)
Inductive lang : regex -> list N -> Prop :=
| LEps : lang Eps []
| LChr c : lang (Chr c) [c]
| LChrI c d : lower d = lower c -> lang (ChrI c) [d]
| LCls k c : in_cls k c = true -> lang (Cls k) [c]
| LCat a b s t : lang a s -> lang b t -> lang (Cat a b) (s ++ t)
| LAltL a b s : lang a s -> lang (Alt a b) s
| LAltR a b s : lang b s -> lang (Alt a b) s
| LStar0 a : lang (Star a) []
| LStarS a s t : lang a s -> lang (Star a) t -> lang (Star a) (s ++ t).

Lemma lang_cat_inv a b w : lang (Cat a b) w -> exists s t, w = s ++ t /\ lang a s /\ lang b t.
Proof. intro H. inversion H; subst. eauto. Qed.
Lemma lang_alt_inv a b w : lang (Alt a b) w -> lang a w \/ lang b w.
Proof. intro H. inversion H; subst; auto. Qed.

Lemma nullable_lang r : nullable r = true <-> lang r [].
Proof.
  induction r as [| | c | c | k | a IHa b IHb | a IHa b IHb | a IHa]; cbn [nullable]; split; intro H;
    try discriminate; try (now constructor); try (now inversion H).
  - apply andb_true_iff in H as [Ha Hb]. apply IHa in Ha. apply IHb in Hb.
    change (@nil N) with (@nil N ++ []). now constructor.
  - inversion H as [| | | |a' b' s t Hs Ht| | | |]; subst.
    match goal with E : _ ++ _ = [] |- _ => apply app_eq_nil in E as [-> ->] end.
    apply andb_true_iff; split; [now apply IHa|now apply IHb].
  - apply orb_true_iff in H as [H|H]; [apply LAltL, IHa|apply LAltR, IHb]; exact H.
  - apply orb_true_iff. inversion H; subst; [left; now apply IHa|right; now apply IHb].
Qed.

(* a non-empty word of Star a starts with a non-empty word of a *)
Lemma star_cons_inv a c s :
  lang (Star a) (c :: s) ->
  exists s1 s2, s = s1 ++ s2 /\ lang a (c :: s1) /\ lang (Star a) s2.
Proof.
  intro H. remember (Star a) as r eqn:Er. remember (c :: s) as w eqn:Ew.
  revert c s Ew. induction H as [| | | | | | | a' | a' s1 t H1 _ H2 IH2]; intros c0 s0 Ew; try discriminate.
  injection Er as ->.
  destruct s1 as [|x s1'].
  - cbn [app] in Ew. apply IH2; [reflexivity|exact Ew].
  - cbn [app] in Ew. injection Ew as -> <-. exists s1', t. auto.
Qed.

Lemma deriv_lang r : forall c s, lang (deriv c r) s <-> lang r (c :: s).
Proof.
  induction r as [| | d | d | k | a IHa b IHb | a IHa b IHb | a IHa]; intros c s; cbn [deriv].
  - split; intro H; inversion H.
  - split; intro H; inversion H.
  - destruct (N.eqb_spec c d) as [->|Hne]; split; intro H.
    + inversion H; subst. constructor.
    + inversion H; subst. constructor.
    + inversion H.
    + inversion H; subst. congruence.
  - destruct (N.eqb_spec (lower c) (lower d)) as [E|Hne]; split; intro H.
    + inversion H; subst. now constructor.
    + inversion H; subst. constructor.
    + inversion H.
    + inversion H; subst. congruence.
  - destruct (in_cls k c) eqn:E; split; intro H.
    + inversion H; subst. now constructor.
    + inversion H; subst. constructor.
    + inversion H.
    + inversion H; subst. congruence.
  - destruct (nullable a) eqn:Na.
    + split; intro H.
      * apply lang_alt_inv in H as [H|H].
        -- apply lang_cat_inv in H as (s1 & t & -> & Hs & Ht).
           apply IHa in Hs. change (c :: s1 ++ t) with ((c :: s1) ++ t). now constructor.
        -- apply IHb in H. change (c :: s) with ([] ++ c :: s). constructor; [now apply nullable_lang|exact H].
      * apply lang_cat_inv in H as (s1 & t & Es & Hs & Ht).
        destruct s1 as [|x s1'].
        -- cbn [app] in Es. subst t. apply LAltR. now apply IHb.
        -- cbn [app] in Es. injection Es as <- ->. apply LAltL. constructor; [now apply IHa|exact Ht].
    + split; intro H.
      * apply lang_cat_inv in H as (s1 & t & -> & Hs & Ht).
        apply IHa in Hs. change (c :: s1 ++ t) with ((c :: s1) ++ t). now constructor.
      * apply lang_cat_inv in H as (s1 & t & Es & Hs & Ht).
        destruct s1 as [|x s1'].
        -- apply nullable_lang in Hs. congruence.
        -- cbn [app] in Es. injection Es as <- ->. constructor; [now apply IHa|exact Ht].
  - split; intro H.
    + apply lang_alt_inv in H as [H|H]; [apply LAltL; now apply IHa|apply LAltR; now apply IHb].
    + apply lang_alt_inv in H as [H|H]; [apply LAltL; now apply IHa|apply LAltR; now apply IHb].
  - split; intro H.
    + apply lang_cat_inv in H as (s1 & t & -> & Hs & Ht).
      apply IHa in Hs. change (c :: s1 ++ t) with ((c :: s1) ++ t). now constructor.
    + apply star_cons_inv in H as (s1 & s2 & -> & H1 & H2).
      constructor; [now apply IHa|exact H2].
Qed.

Theorem matches_lang r s : matches r s = true <-> lang r s.
Proof.
  revert r; induction s as [|c s IH]; intro r; cbn [matches].
  - apply nullable_lang.
  - rewrite IH. apply deriv_lang.
Qed.

Lemma matches_ext r1 r2 :
  (forall s, lang r1 s <-> lang r2 s) -> forall s, matches r1 s = matches r2 s.
Proof.
  intros H s. destruct (matches r1 s) eqn:E1, (matches r2 s) eqn:E2; try reflexivity.
  - apply matches_lang, H, matches_lang in E1. congruence.
  - apply matches_lang, H, matches_lang in E2. congruence.
Qed.

Lemma matches_false_of r : (forall s, ~ lang r s) -> forall s, matches r s = false.
Proof.
  intros H s. destruct (matches r s) eqn:E; [|reflexivity]. apply matches_lang in E. now apply H in E.
Qed.

(* ------------------------------------------ recursion equations of matches *)
Lemma matches_alt a b s : matches (Alt a b) s = matches a s || matches b s.
Proof. revert a b; induction s as [|c s IH]; intros a b; cbn [matches deriv nullable]; [reflexivity|apply IH]. Qed.

Lemma lang_cat_eps r s : lang (Cat Eps r) s <-> lang r s.
Proof.
  split; intro H.
  - apply lang_cat_inv in H as (s1 & t & -> & Hs & Ht). inversion Hs; subst. exact Ht.
  - change s with ([] ++ s). constructor; [constructor|exact H].
Qed.

Lemma lang_cat_empty r s : ~ lang (Cat Empty r) s.
Proof. intro H. apply lang_cat_inv in H as (s1 & t & -> & Hs & Ht). inversion Hs. Qed.

Lemma lang_cat_assoc a b r s : lang (Cat (Cat a b) r) s <-> lang (Cat a (Cat b r)) s.
Proof.
  split; intro H.
  - apply lang_cat_inv in H as (s1 & t & -> & Hs & Ht).
    apply lang_cat_inv in Hs as (s2 & t2 & -> & Hs2 & Ht2).
    rewrite <- app_assoc. constructor; [exact Hs2|]. now constructor.
  - apply lang_cat_inv in H as (s1 & t & -> & Hs & Ht).
    apply lang_cat_inv in Ht as (s2 & t2 & -> & Hs2 & Ht2).
    rewrite app_assoc. constructor; [|exact Ht2]. now constructor.
Qed.

(* a one-character atom in front of r *)
Definition atom_ok (x : regex) (ok : N -> bool) : Prop :=
  forall c, deriv c x = if ok c then Eps else Empty.

Lemma matches_atom_cat x ok r s :
  nullable x = false -> atom_ok x ok ->
  matches (Cat x r) s = match s with d :: s' => ok d && matches r s' | [] => false end.
Proof.
  intros Nx Hx. destruct s as [|d s']; cbn [matches deriv nullable]; rewrite Nx; [reflexivity|].
  rewrite Hx. destruct (ok d); cbn [andb].
  - apply matches_ext. intro s. apply lang_cat_eps.
  - apply matches_false_of. intro s. apply lang_cat_empty.
Qed.

(* Star of a character class in front of r *)
Lemma matches_starcls_cat k r s :
  matches (Cat (Star (Cls k)) r) s =
  matches r s || match s with d :: s' => in_cls k d && matches (Cat (Star (Cls k)) r) s' | [] => false end.
Proof.
  destruct s as [|d s'].
  - cbn [matches nullable andb]. now rewrite orb_false_r.
  - cbn [matches deriv nullable]. rewrite matches_alt. rewrite orb_comm. f_equal.
    destruct (in_cls k d); cbn [andb].
    + apply matches_ext. intro s. rewrite lang_cat_assoc. apply lang_cat_eps.
    + apply matches_false_of. intros s H. apply lang_cat_assoc in H. now apply lang_cat_empty in H.
Qed.

(* ------------------------------------------------------------ glob_correct *)
Lemma matches_end_fixed f s : zend f = true ->
  matches (re_end f) s = match s with [] => true | _ => false end.
Proof.
  intro Z. unfold re_end. rewrite Z. destruct s as [|c s]; [reflexivity|].
  cbn [matches deriv]. apply matches_false_of. intros t H. inversion H.
Qed.

Lemma glob_correct_cs pat : forall name, model_match pat name = rfc_match pat name.
Proof.
  unfold model_match.
  induction pat as [|p pat IH]; intro name; cbn [compile rfc_match].
  - now apply matches_end_fixed.
  - unfold re_of_char. cbn [dotall icase fixed_cs].
    destruct (p =? STAR)%N eqn:Es; [|destruct (p =? PCT)%N eqn:Ep].
    + induction name as [|d name IHn].
      * rewrite matches_starcls_cat, IH. reflexivity.
      * rewrite matches_starcls_cat, IH, IHn. cbn [in_cls andb]. reflexivity.
    + induction name as [|d name IHn].
      * rewrite matches_starcls_cat, IH. reflexivity.
      * rewrite matches_starcls_cat, IH, IHn. cbn [in_cls]. reflexivity.
    + rewrite (matches_atom_cat (Chr p) (fun d => (d =? p)%N)); [|reflexivity|intro c; reflexivity].
      destruct name as [|d name]; [reflexivity|]. rewrite IH. now rewrite (N.eqb_sym d p).
Qed.

Lemma lower_fix_wild p : ((lower p =? STAR)%N = (p =? STAR)%N) /\ ((lower p =? PCT)%N = (p =? PCT)%N).
Proof.
  unfold lower, STAR, PCT.
  destruct ((65 <=? p) && (p <=? 90))%N eqn:E; [|split; reflexivity].
  apply andb_true_iff in E as [E1 E2]. apply N.leb_le in E1. apply N.leb_le in E2.
  split.
  - destruct (N.eqb_spec (p + 32) 42); destruct (N.eqb_spec p 42); try reflexivity; lia.
  - destruct (N.eqb_spec (p + 32) 37); destruct (N.eqb_spec p 37); try reflexivity; lia.
Qed.

Lemma lower_delim d : ((lower d =? DELIM)%N = (d =? DELIM)%N).
Proof.
  unfold lower, DELIM.
  destruct ((65 <=? d) && (d <=? 90))%N eqn:E; [|reflexivity].
  apply andb_true_iff in E as [E1 E2]. apply N.leb_le in E1. apply N.leb_le in E2.
  destruct (N.eqb_spec (d + 32) 47); destruct (N.eqb_spec d 47); try reflexivity; lia.
Qed.

Lemma glob_correct_ci pat : forall name, model_match_ci pat name = rfc_match_ci pat name.
Proof.
  unfold model_match_ci, rfc_match_ci.
  induction pat as [|p pat IH]; intro name; cbn [compile rfc_match map].
  - rewrite matches_end_fixed by reflexivity. destruct name; reflexivity.
  - unfold re_of_char. cbn [dotall icase fixed_ci].
    destruct (lower_fix_wild p) as [-> ->].
    destruct (p =? STAR)%N eqn:Es; [|destruct (p =? PCT)%N eqn:Ep].
    + induction name as [|d name IHn]; cbn [map].
      * rewrite matches_starcls_cat, IH. reflexivity.
      * rewrite matches_starcls_cat, IH, IHn. cbn [in_cls andb map]. reflexivity.
    + induction name as [|d name IHn]; cbn [map].
      * rewrite matches_starcls_cat, IH. reflexivity.
      * rewrite matches_starcls_cat, IH, IHn. cbn [in_cls map]. now rewrite lower_delim.
    + rewrite (matches_atom_cat (ChrI p) (fun d => (lower d =? lower p)%N)); [|reflexivity|intro c; reflexivity].
      destruct name as [|d name]; [reflexivity|]. cbn [map]. rewrite IH.
      now rewrite (N.eqb_sym (lower d) (lower p)).
Qed.

(* ---------------------------------- the boolean matcher vs the declarative reading *)
Lemma rfc_match_star pat' s :
  rfc_match (STAR :: pat') s =
  rfc_match pat' s || match s with [] => false | _ :: s' => rfc_match (STAR :: pat') s' end.
Proof. destruct s; reflexivity. Qed.

Lemma rfc_match_pct pat' s :
  rfc_match (PCT :: pat') s =
  rfc_match pat' s || match s with [] => false
                                | d :: s' => negb (d =? DELIM)%N && rfc_match (PCT :: pat') s' end.
Proof. destruct s; reflexivity. Qed.

Lemma denotes_nil s : glob_denotes [] s <-> s = [].
Proof.
  split.
  - intros (ps & HF & <-). inversion HF; subst. reflexivity.
  - intros ->. exists []. split; constructor.
Qed.

Lemma denotes_cons p pat s :
  glob_denotes (p :: pat) s <->
  exists piece rest, s = piece ++ rest /\ piece_ok p piece /\ glob_denotes pat rest.
Proof.
  split.
  - intros (ps & HF & <-). inversion HF as [|x piece l ps' Hp HF']; subst.
    exists piece, (concat ps'). split; [reflexivity|]. split; [exact Hp|]. exists ps'. auto.
  - intros (piece & rest & -> & Hp & (ps & HF & <-)).
    exists (piece :: ps). split; [now constructor|reflexivity].
Qed.

Lemma rfc_match_denotes pat : forall s, rfc_match pat s = true <-> glob_denotes pat s.
Proof.
  induction pat as [|p pat IH]; intro s.
  - rewrite denotes_nil. cbn [rfc_match]. destruct s; split; intro H; try reflexivity; discriminate.
  - rewrite denotes_cons.
    destruct (N.eqb_spec p STAR) as [->|NS]; [|destruct (N.eqb_spec p PCT) as [->|NP]].
    + (* star *)
      induction s as [|d s IHs]; rewrite rfc_match_star; split.
      * rewrite orb_false_r. intro H. apply IH in H. exists [], []. split; [reflexivity|]. split; [exact I|exact H].
      * intros (piece & rest & E & _ & H). symmetry in E. apply app_eq_nil in E as [-> ->].
        rewrite orb_false_r. now apply IH.
      * intro H. apply orb_true_iff in H as [H|H].
        -- apply IH in H. exists [], (d :: s). split; [reflexivity|]. split; [exact I|exact H].
        -- apply IHs in H as (piece & rest & -> & _ & H).
           exists (d :: piece), rest. split; [reflexivity|]. split; [exact I|exact H].
      * intros (piece & rest & E & _ & H). apply orb_true_iff. destruct piece as [|x piece'].
        -- left. cbn [app] in E. subst rest. now apply IH.
        -- right. cbn [app] in E. injection E as <- ->. apply IHs.
           exists piece', rest. split; [reflexivity|]. split; [exact I|exact H].
    + (* percent *)
      assert (Hpk : forall piece, piece_ok PCT piece <-> Forall (fun d => d <> DELIM) piece)
        by (intro; unfold piece_ok; reflexivity).
      induction s as [|d s IHs]; rewrite rfc_match_pct; split.
      * rewrite orb_false_r. intro H. apply IH in H. exists [], []. split; [reflexivity|].
        split; [apply Hpk; constructor|exact H].
      * intros (piece & rest & E & _ & H). symmetry in E. apply app_eq_nil in E as [-> ->].
        rewrite orb_false_r. now apply IH.
      * intro H. apply orb_true_iff in H as [H|H].
        -- apply IH in H. exists [], (d :: s). split; [reflexivity|]. split; [apply Hpk; constructor|exact H].
        -- apply andb_true_iff in H as [Hd H]. apply IHs in H as (piece & rest & -> & Hp & H).
           exists (d :: piece), rest. split; [reflexivity|]. split; [|exact H].
           apply Hpk. constructor; [|now apply Hpk].
           apply negb_true_iff in Hd. now apply N.eqb_neq in Hd.
      * intros (piece & rest & E & Hp & H). apply orb_true_iff. destruct piece as [|x piece'].
        -- left. cbn [app] in E. subst rest. now apply IH.
        -- right. cbn [app] in E. injection E as <- ->. apply Hpk in Hp.
           inversion Hp as [|y l' Hy Hl]; subst. apply andb_true_iff. split.
           ++ apply negb_true_iff. now apply N.eqb_neq.
           ++ apply IHs. exists piece', rest. split; [reflexivity|]. split; [now apply Hpk|exact H].
    + (* literal *)
      assert (Hpk : forall piece, piece_ok p piece <-> piece = [p]).
      { intro. unfold piece_ok. apply N.eqb_neq in NS. apply N.eqb_neq in NP. rewrite NS, NP. reflexivity. }
      cbn [rfc_match]. apply N.eqb_neq in NS. apply N.eqb_neq in NP. rewrite NS, NP.
      destruct s as [|d s]; split.
      * discriminate.
      * intros (piece & rest & E & Hp & H). apply Hpk in Hp. subst piece. discriminate.
      * intro H. apply andb_true_iff in H as [Hd H]. apply N.eqb_eq in Hd. subst d.
        apply IH in H. exists [p], s. split; [reflexivity|]. split; [now apply Hpk|exact H].
      * intros (piece & rest & E & Hp & H). apply Hpk in Hp. subst piece. cbn [app] in E.
        injection E as <- ->. apply andb_true_iff. split; [apply N.eqb_refl|]. now apply IH.
Qed.

(* --------------------------------------------------- the legacy pattern *)
Lemma legacy_newline_refuted :
  exists pat name, legacy_match pat name <> rfc_match pat name.
Proof. exists [STAR], [97; NL; 98]%N. vm_compute. discriminate. Qed.

Lemma legacy_dollar_refuted :
  exists pat name, legacy_match pat name = true /\ rfc_match pat name = false.
Proof. exists [102;111;111]%N, [102;111;111;NL]%N. vm_compute. split; reflexivity. Qed.
