(* Namespace/LayoutFxProofs.v — the touch sets generated from the effectful
   functions of pymap/backend/maildir/layout.py (Namespace/LayoutFxGen.v,
   rewritten on every run of ./check C08): whatever remove_folder can hand to
   the filesystem, for every directory listing, stays inside the user's
   directory; what it removes is exactly the model's delete target. *)
From PV Require Import Base.Prelude Namespace.PyStr Namespace.PyFs Namespace.Glob Namespace.NsBase
     Namespace.NsBaseProofs Namespace.ListTree Namespace.NsModel Namespace.MdModel
     Namespace.Paths Namespace.PathsProofs Namespace.LayoutGen Namespace.LayoutSpec
     Namespace.LayoutGenProofs Namespace.LayoutFxGen.
Require Import Lia.

Definition fx_remove_folder (l : layout) :=
  match l with LPlus => fx_Default_remove_folder | LFs => fx_Fs_remove_folder end.

(* reads may look at the user's directory itself, mutations must be strictly inside *)
Definition touch_ok (rc : list name) (t : touch) : Prop :=
  match t with
  | TRead p => inside_or_eq rc (normpath p)
  | TMut p | TMutTree p => strictly_inside rc (normpath p)
  end.

(* what os.listdir returns: single, clean components *)
Definition clean_listing (listdir : pystr -> list pystr) : Prop :=
  forall p e, In e (listdir p) -> clean e = true.

Lemma strictly_inside_or_eq rc q : strictly_inside rc q -> inside_or_eq rc q.
Proof. intros (r & _ & E). now exists r. Qed.

(* the string form of C08_get_path_confined *)
Lemma get_path_root_str l rc parts :
  rc <> [] -> Forall (fun c => clean c = true) rc ->
  parts <> [] -> Forall (fun p => valid_part l p = true) parts ->
  exists extra, extra <> [] /\ Forall (fun c => clean c = true) extra
                /\ get_path l (root_str rc) parts = root_str (rc ++ extra).
Proof.
  intros Hne HF Hp HV. destruct l; cbn [get_path].
  - exists [get_subdir parts]. pose proof (subdir_clean parts Hp HV) as Hc.
    split; [discriminate|]. split; [now constructor|]. now apply path_join_clean.
  - exists parts.
    assert (HC : Forall (fun c => clean c = true) parts).
    { eapply Forall_impl; [|exact HV]. intros a. apply valid_clean. }
    split; [exact Hp|]. split; [exact HC|]. now apply path_joins_clean.
Qed.

Lemma root_str_inside rc extra :
  Forall (fun c => clean c = true) rc -> Forall (fun c => clean c = true) extra -> extra <> [] ->
  strictly_inside rc (normpath (root_str (rc ++ extra))).
Proof.
  intros HF HE Hne. rewrite normpath_root_str by (apply Forall_app; auto). now exists extra.
Qed.

Lemma child_inside rc extra e :
  rc <> [] -> Forall (fun c => clean c = true) rc -> Forall (fun c => clean c = true) extra ->
  clean e = true ->
  strictly_inside rc (normpath (path_join (root_str (rc ++ extra)) e)).
Proof.
  intros Hne HF HE He.
  rewrite path_join_clean; [|destruct rc; [congruence|discriminate]|apply Forall_app; auto|exact He].
  rewrite <- app_assoc. apply root_str_inside; [exact HF| |destruct extra; discriminate].
  apply Forall_app. split; [exact HE|]. now constructor.
Qed.

Lemma fx_remove_parts l listdir root n ts :
  n <> INBOX -> fx_remove_folder l listdir root n gen_delimiter = PRet ts ->
  exists parts, lsplit l n = Some parts /\ parts <> []
    /\ Forall (fun p => valid_part l p = true) parts
    /\ ts = match l with
            | LPlus => []
            | LFs => TRead (get_path l root parts)
                     :: flat_map (fun elem =>
                          if negb (str_in elem [s_new; s_cur; s_tmp])
                          then [TRead (path_join (get_path l root parts) elem)] else [])
                        (listdir (get_path l root parts))
            end ++ [TMutTree (get_path l root parts); TMut (get_path l root parts)].
Proof.
  intros Hn H.
  assert (E : fx_remove_folder l listdir root n gen_delimiter =
              pybind (gen_split l n gen_delimiter)
                     (fun parts => PRet (match l with
                                         | LPlus => fx_Default__can_remove listdir root parts
                                         | LFs => fx_Fs__can_remove listdir root parts
                                         end ++ [TMutTree (gen_parts_path l root parts);
                                                 TMut (gen_parts_path l root parts)])))
    by (destruct l; reflexivity).
  rewrite E in H. destruct (gen_split l n gen_delimiter) as [parts| |] eqn:Es; try discriminate.
  cbn [pybind] in H. injection H as <-. apply gen_split_refines in Es.
  destruct (lsplit_Some _ _ _ Es Hn) as [[Hne HV] _].
  exists parts. repeat split; try assumption.
  rewrite gen_parts_path_agrees. f_equal. destruct l; [reflexivity|].
  unfold fx_Fs__can_remove. cbv zeta.
  change (gen_Fs__get_path root parts) with (gen_parts_path LFs root parts).
  rewrite gen_parts_path_agrees. rewrite app_nil_r. f_equal.
  apply flat_map_ext. intros e. destruct (negb _); reflexivity.
Qed.

(* every path remove_folder can hand to the filesystem, whatever the directory
   listings are, is inside the user's directory; every mutation strictly inside *)
Theorem fx_remove_confined l rc listdir n ts :
  root_ok rc -> clean_listing listdir -> n <> INBOX ->
  fx_remove_folder l listdir (root_str rc) n gen_delimiter = PRet ts ->
  Forall (touch_ok rc) ts.
Proof.
  intros [Hne HF] HL Hn H.
  destruct (fx_remove_parts _ _ _ _ _ Hn H) as (parts & _ & Hp & HV & ->).
  destruct (get_path_root_str l rc parts Hne HF Hp HV) as (extra & He & HE & ->).
  pose proof (root_str_inside rc extra HF HE He) as Hin.
  apply Forall_app. split.
  - destruct l; [constructor|]. constructor; [now apply strictly_inside_or_eq|].
    apply Forall_forall. intros t Ht. apply in_flat_map in Ht as (e & Hel & Ht).
    destruct (negb _); [|destruct Ht]. destruct Ht as [<-|[]].
    cbn [touch_ok]. apply strictly_inside_or_eq. apply child_inside; try assumption.
    eapply HL. exact Hel.
  - repeat constructor; exact Hin.
Qed.

(* what remove_folder removes is the model's delete target (Paths.delete_target,
   the subject of C08_delete_not_root), nothing else *)
Theorem fx_remove_mutations l listdir root n ts :
  n <> INBOX -> norm n = n ->
  fx_remove_folder l listdir root n gen_delimiter = PRet ts ->
  forall p, In p (mut_paths ts) -> In p (delete_target l root n).
Proof.
  intros Hn Hnorm H p Hp.
  destruct (fx_remove_parts _ _ _ _ _ Hn H) as (parts & Es & _ & _ & ->).
  unfold delete_target. rewrite Hnorm, (proj2 (name_eqb_neq _ _) Hn), Es.
  unfold mut_paths in Hp. rewrite flat_map_app in Hp. apply in_app_or in Hp as [Hp|Hp].
  - exfalso. destruct l; [exact Hp|]. cbn [flat_map app] in Hp.
    apply in_flat_map in Hp as (t & Ht & Hp). apply in_flat_map in Ht as (e & _ & Ht).
    destruct (negb _); [|destruct Ht]. destruct Ht as [<-|[]]. destruct Hp.
  - cbn in Hp. destruct Hp as [<-|[<-|[]]]; now left.
Qed.

(* ------------------------------------------------- _add_folder, rename_folder *)
Definition fx_add_folder (l : layout) :=
  match l with LPlus => fx_Default__add_folder | LFs => fx_Fs__add_folder end.
Definition fx_rename_folder (l : layout) :=
  match l with LPlus => fx_Default_rename_folder | LFs => fx_Fs_rename_folder end.

(* a path in canonical form strictly inside the root *)
Definition ok_path (rc : list name) (p : pstr) : Prop :=
  exists extra, extra <> [] /\ Forall (fun c => clean c = true) extra /\ p = root_str (rc ++ extra).

Lemma ok_path_inside rc p : Forall (fun c => clean c = true) rc -> ok_path rc p ->
  strictly_inside rc (normpath p).
Proof. intros HF (e & He & HE & ->). now apply root_str_inside. Qed.

Lemma ok_path_child rc p e : rc <> [] -> Forall (fun c => clean c = true) rc ->
  ok_path rc p -> clean e = true -> ok_path rc (path_join p e).
Proof.
  intros Hne HF (x & Hx & HX & ->) He. exists (x ++ [e]). split; [destruct x; discriminate|].
  split; [apply Forall_app; split; [exact HX|now constructor]|].
  rewrite path_join_clean; [now rewrite <- app_assoc|destruct rc; [congruence|discriminate]
                           |apply Forall_app; auto|exact He].
Qed.

Lemma ok_path_root_child rc e : rc <> [] -> Forall (fun c => clean c = true) rc ->
  clean e = true -> ok_path rc (path_join (root_str rc) e).
Proof.
  intros Hne HF He. exists [e]. split; [discriminate|]. split; [now constructor|].
  now apply path_join_clean.
Qed.

Lemma ok_get_path l rc parts : rc <> [] -> Forall (fun c => clean c = true) rc ->
  vparts l parts -> ok_path rc (get_path l (root_str rc) parts).
Proof. intros Hne HF [Hp HV]. now apply get_path_root_str. Qed.

Lemma gen_path_eq l root parts :
  match l with LPlus => gen_Default__get_path | LFs => gen_Fs__get_path end root parts
  = get_path l root parts.
Proof. exact (gen_parts_path_agrees l root parts). Qed.

Lemma Forall_flat_map {A B} (P : B -> Prop) (f : A -> list B) (xs : list A) :
  (forall x, In x xs -> Forall P (f x)) -> Forall P (flat_map f xs).
Proof.
  induction xs as [|x xs IH]; intros H; cbn [flat_map]; [constructor|].
  apply Forall_app. split; [apply H; now left|]. apply IH. intros y Hy. apply H. now right.
Qed.

Lemma clean_maildirfolder : clean [109;97;105;108;100;105;114;102;111;108;100;101;114]%N = true.
Proof. reflexivity. Qed.

Lemma add_folder_ok l rc listdir parts : root_ok rc -> vparts l parts ->
  Forall (touch_ok rc) (fx_add_folder l listdir (root_str rc) parts).
Proof.
  intros [Hne HF] HV.
  assert (E : fx_add_folder l listdir (root_str rc) parts =
    flat_map (fun i => [TRead (get_path l (root_str rc) (firstn i parts))] ++ [] ++ [] ++ [])
             (seq 1 (length parts - 1 - 1))
    ++ [TMutTree (get_path l (root_str rc) parts);
        TMut (path_join (get_path l (root_str rc) parts)
                        [109;97;105;108;100;105;114;102;111;108;100;101;114]%N)]).
  { destruct l; unfold fx_add_folder, fx_Default__add_folder, fx_Fs__add_folder; cbv zeta.
    - rewrite (gen_path_eq LPlus). f_equal. apply flat_map_ext. intros i. now rewrite (gen_path_eq LPlus).
    - reflexivity. }
  rewrite E. apply Forall_app. split.
  - apply Forall_flat_map. intros i Hi. apply in_seq in Hi. cbn [app]. constructor; [|constructor].
    cbn [touch_ok]. apply strictly_inside_or_eq, ok_path_inside; [exact HF|].
    apply ok_get_path; try assumption. apply firstn_vparts; [exact HV|lia].
  - pose proof (ok_get_path l rc parts Hne HF HV) as Hok. constructor; [|constructor; [|constructor]].
    + cbn [touch_ok]. now apply ok_path_inside.
    + cbn [touch_ok]. apply ok_path_inside; [exact HF|].
      apply ok_path_child; try assumption. apply clean_maildirfolder.
Qed.

Lemma in_skipn {A} (x : A) k : forall l, In x (skipn k l) -> In x l.
Proof.
  induction k as [|k IH]; intros l H; [exact H|]. destruct l as [|y l]; [exact H|].
  right. apply IH. exact H.
Qed.

Lemma subdir_app_clean parts s : parts <> [] ->
  Forall (fun p => valid_part LPlus p = true) parts -> ~ In DELIM s ->
  clean (get_subdir parts ++ s) = true.
Proof.
  intros Hne HF Hs. destruct (join_dot_props parts Hne HF) as [(x & r & E & Hx) Hnd].
  unfold get_subdir. destruct parts; [congruence|]. rewrite E. cbn [app]. unfold clean.
  apply andb_true_iff. split.
  - apply negb_true_iff.
    assert (H1 : DOT :: x :: r ++ s <> []) by discriminate.
    assert (H2 : DOT :: x :: r ++ s <> s_dot) by (unfold s_dot; discriminate).
    assert (H3 : DOT :: x :: r ++ s <> s_dotdot).
    { unfold s_dotdot. intro H. injection H as H _. apply Hx. exact H. }
    now rewrite (proj2 (name_eqb_neq _ _) H1), (proj2 (name_eqb_neq _ _) H2), (proj2 (name_eqb_neq _ _) H3).
  - apply negb_true_iff.
    destruct (existsb (fun x0 => (x0 =? SLASH)%N) (DOT :: x :: r ++ s)) eqn:Ex; [|reflexivity].
    apply existsb_exists in Ex as (y & Hy & Ey). apply N.eqb_eq in Ey. subst y. exfalso.
    destruct Hy as [Hy|Hy]; [discriminate Hy|].
    change (x :: r ++ s) with ((x :: r) ++ s) in Hy. rewrite <- E in Hy.
    apply in_app_or in Hy as [Hy|Hy]; [now apply Hnd|now apply Hs].
Qed.

Lemma default_rename_ok rc listdir pa pb : root_ok rc -> clean_listing listdir ->
  vparts LPlus pb ->
  Forall (touch_ok rc) (fx_Default__rename_folder listdir (root_str rc) pa pb).
Proof.
  intros [Hne HF] HL [Hpb HVb]. unfold fx_Default__rename_folder. cbv zeta.
  constructor.
  - cbn [touch_ok]. rewrite normpath_root_str by exact HF. exists []. now rewrite app_nil_r.
  - rewrite app_nil_r. apply Forall_flat_map. intros e He. rewrite app_nil_r.
    pose proof (HL _ _ He) as Hce.
    destruct (_ || _); [|constructor].
    pose proof (ok_path_root_child rc e Hne HF Hce) as Hep.
    cbn [app]. constructor; [cbn [touch_ok]; now apply strictly_inside_or_eq, ok_path_inside|].
    constructor; [cbn [touch_ok]; now apply ok_path_inside|].
    constructor; [|constructor]. cbn [touch_ok]. apply ok_path_inside; [exact HF|].
    apply ok_path_root_child; try assumption.
    rewrite gen_get_subdir_agrees. apply subdir_app_clean; try assumption.
    intros Hin. apply in_skipn in Hin. apply clean_spec in Hce as (_ & _ & _ & Hnd). now apply Hnd.
Qed.

(* every path rename_folder can hand to the filesystem (the superiors it
   checks and creates, the directories it renames, for every directory
   listing) is inside the user's directory, every mutation strictly inside *)
Theorem fx_rename_confined l rc listdir a b ts :
  root_ok rc -> clean_listing listdir -> a <> INBOX -> b <> INBOX ->
  fx_rename_folder l listdir (root_str rc) a b gen_delimiter = PRet ts ->
  Forall (touch_ok rc) ts.
Proof.
  intros Hroot HL Ha Hb H. pose proof Hroot as [Hne HF].
  assert (E : fx_rename_folder l listdir (root_str rc) a b gen_delimiter =
    pybind (gen_split l a gen_delimiter) (fun pa =>
    pybind (gen_split l b gen_delimiter) (fun pb =>
    PRet (flat_map (fun i =>
            [TRead (get_path l (root_str rc) (firstn i pb))]
            ++ (fx_add_folder l listdir (root_str rc) (firstn i pb) ++ []) ++ [] ++ [])
            (seq 1 (length pb - 0 - 1))
          ++ match l with
             | LPlus => fx_Default__rename_folder listdir (root_str rc) pa pb
             | LFs => [TMutTree (get_path l (root_str rc) pa); TMutTree (get_path l (root_str rc) pb)]
             end ++ [])))).
  { destruct l; unfold fx_rename_folder, fx_Default_rename_folder, fx_Fs_rename_folder; cbv zeta.
    - unfold gen_split. destruct (gen_Default__split a gen_delimiter); cbn [pybind]; try reflexivity.
      destruct (gen_Default__split b gen_delimiter); cbn [pybind]; try reflexivity.
      f_equal. f_equal. apply flat_map_ext. intros i. now rewrite (gen_path_eq LPlus).
    - reflexivity. }
  rewrite E in H.
  destruct (gen_split l a gen_delimiter) as [pa| |] eqn:Ea; try discriminate. cbn [pybind] in H.
  destruct (gen_split l b gen_delimiter) as [pb| |] eqn:Eb; try discriminate. cbn [pybind] in H.
  injection H as <-. apply gen_split_refines in Ea, Eb.
  destruct (lsplit_Some _ _ _ Ea Ha) as [HVa _]. destruct (lsplit_Some _ _ _ Eb Hb) as [HVb _].
  apply Forall_app. split.
  - apply Forall_flat_map. intros i Hi. apply in_seq in Hi.
    assert (HVi : vparts l (firstn i pb)) by (apply firstn_vparts; [exact HVb|lia]).
    cbn [app]. constructor.
    + cbn [touch_ok]. apply strictly_inside_or_eq, ok_path_inside; [exact HF|]. now apply ok_get_path.
    + rewrite !app_nil_r. now apply add_folder_ok.
  - rewrite app_nil_r. destruct l.
    + now apply default_rename_ok.
    + constructor; [|constructor; [|constructor]]; cbn [touch_ok];
        (apply ok_path_inside; [exact HF|]); now apply ok_get_path.
Qed.


(* what the fs layout's _rename_folder hands to os.rename are exactly the
   model's rename targets (Paths.rename_targets, the subject of C08_rename_not_root) *)
Theorem fx_fs_rename_targets listdir root a b pa pb :
  a <> INBOX -> norm a = a -> rename_dest b = inl b ->
  lsplit LFs a = Some pa -> lsplit LFs b = Some pb ->
  mut_paths (fx_Fs__rename_folder listdir root pa pb) = rename_targets LFs root a b.
Proof.
  intros Ha Hn Hd Ea Eb. unfold rename_targets.
  rewrite Hn, Hd, (proj2 (name_eqb_neq _ _) Ha), Ea, Eb. reflexivity.
Qed.

Example fx_rename_example :
  fx_rename_folder LPlus (fun _ => [[46;97]; [46;97;46;120]; [46;97;98]; [99;117;114]]%N)
                   R_U1 [97]%N [98;47;99]%N gen_delimiter
  = PRet [TRead [47;114;47;117;49;47;46;98]%N;
          TMutTree [47;114;47;117;49;47;46;98]%N;
          TMut [47;114;47;117;49;47;46;98;47;109;97;105;108;100;105;114;102;111;108;100;101;114]%N;
          TRead [47;114;47;117;49]%N;
          TRead [47;114;47;117;49;47;46;97]%N;
          TMutTree [47;114;47;117;49;47;46;97]%N; TMutTree [47;114;47;117;49;47;46;98;46;99]%N;
          TRead [47;114;47;117;49;47;46;97;46;120]%N;
          TMutTree [47;114;47;117;49;47;46;97;46;120]%N;
          TMutTree [47;114;47;117;49;47;46;98;46;99;46;120]%N].
Proof. vm_compute. reflexivity. Qed.

Example fx_remove_example :
  fx_remove_folder LFs (fun _ => [[120]; [99;117;114]]%N) R_U1 [97;47;98]%N gen_delimiter
  = PRet [TRead [47;114;47;117;49;47;97;47;98]%N; TRead [47;114;47;117;49;47;97;47;98;47;120]%N;
          TMutTree [47;114;47;117;49;47;97;47;98]%N; TMut [47;114;47;117;49;47;97;47;98]%N].
Proof. vm_compute. reflexivity. Qed.
