(* Namespace/LayoutFxCheck.v — case checker for the `layout_fx` family of
   harness/props/C08.py: the real remove_folder / rename_folder / _add_folder
   are run on a temporary store under the filesystem tracer; every path they
   handed to the filesystem must be covered by the generated touch set
   (Namespace/LayoutFxGen.v) evaluated with the directory listings of that
   store.  This validates harness/translate_layout_fx.py (that it drops no
   filesystem call), independently of the hand model. *)
From PV Require Import Base.Prelude Namespace.PyStr Namespace.PyFs Namespace.Glob Namespace.NsBase
     Namespace.ListTree Namespace.NsModel Namespace.MdModel Namespace.Paths
     Namespace.LayoutGen Namespace.LayoutSpec Namespace.LayoutFxGen.

Inductive fxop :=
| FxRemove (n : pystr)
| FxRename (a b : pystr)
| FxAdd (parts : list pystr).

Definition listing := list (pystr * list pystr).
Fixpoint listing_get (ls : listing) (p : pystr) : list pystr :=
  match ls with
  | [] => []
  | (q, es) :: ls' => if str_eqb p q then es else listing_get ls' p
  end.

(* an observed access (w = it can change the filesystem) is accounted for *)
Definition covered (ts : list touch) (w : bool) (p : pystr) : bool :=
  existsb (fun t => match t with
                    | TRead q => negb w && str_eqb p q
                    | TMut q => str_eqb p q
                    | TMutTree q => str_eqb p q || starts (q ++ [47%N]) p
                    end) ts.

Definition fx_run (l : layout) (ls : listing) (root : pystr) (o : fxop) : pyres (list touch) :=
  let ld := listing_get ls in
  match l, o with
  | LPlus, FxRemove n => fx_Default_remove_folder ld root n gen_delimiter
  | LFs, FxRemove n => fx_Fs_remove_folder ld root n gen_delimiter
  | LPlus, FxRename a b => fx_Default_rename_folder ld root a b gen_delimiter
  | LFs, FxRename a b => fx_Fs_rename_folder ld root a b gen_delimiter
  | LPlus, FxAdd ps => PRet (fx_Default__add_folder ld root ps)
  | LFs, FxAdd ps => PRet (fx_Fs__add_folder ld root ps)
  end.

(* (layout, root, listings, operation, NotSupportedError raised, observed accesses) *)
Definition chk_fx (c : layout * pystr * listing * fxop * bool * list (bool * pystr)) : bool :=
  let '(l, root, ls, o, refused, obs) := c in
  match fx_run l ls root o with
  | PRet ts => negb refused && forallb (fun wp => covered ts (fst wp) (snd wp)) obs
  | PNotSupported => refused && is_nil obs
  | PUnicodeError => false
  end.
