(* Namespace/SubsFile.v — the `subscriptions` file of the maildir backend at
   the byte level (pymap/backend/maildir/subscriptions.py Subscriptions.write /
   .read through io.py file_write / file_read: open(path, 'w') and
   open(path, 'r'), text mode, UTF-8, strict, universal newlines on input).

     write   for sub in self._subscribed: fp.write(sub + '\r\n')
             -> the UTF-8 encoding of every name followed by CR LF
             (a lone surrogate raises UnicodeEncodeError: None)
     read    the bytes are decoded as UTF-8 (an ill-formed sequence raises
             UnicodeDecodeError: None); '\r\n' and '\r' become '\n'; the file
             object is iterated line by line (a line ends after '\n' and at
             nothing else); line.rstrip('\r\n') is added to the dict

   The text layer is the one of MaildirFS.UidList (print_subs / parse_subs:
   `unl`, `lines`, `rstrip_nl`, `add_name`), used here on code points instead
   of ASCII.  Namespace/MdModel.v keeps the subscriptions as the list x_subs
   and silently assumes that this list survives the trip through the file at
   every SUBSCRIBE / UNSUBSCRIBE / LSUB: SubsFileProofs.v proves that
   assumption for every name the maildir name guard lets through.

   Only CR and LF are structure.  Every other code point is data: VT, FF,
   FS, GS, RS, NEL (U+0085), LS (U+2028), PS (U+2029) — which str.splitlines()
   treats as line ends —, every Unicode white space (U+00A0, U+2000.., U+3000),
   anything with a case mapping or a compatibility decomposition.
   Definitions only. *)
From PV Require Import Base.Prelude MaildirFS.UidList.
Local Open Scope N_scope.

(* ------------------------------------------------------------------ UTF-8 *)
(* a Python str element that str.encode('utf-8') accepts *)
Definition is_scalar (c : N) : bool :=
  (c <? 55296) || ((57343 <? c) && (c <? 1114112)).

Definition utf8_enc1 (c : N) : bytes :=
  if c <? 128 then [c]
  else if c <? 2048 then [192 + c / 64; 128 + c mod 64]
  else if c <? 65536 then [224 + c / 4096; 128 + (c / 64) mod 64; 128 + c mod 64]
  else [240 + c / 262144; 128 + (c / 4096) mod 64; 128 + (c / 64) mod 64; 128 + c mod 64].

Definition utf8_encode (s : list N) : option bytes :=
  if forallb is_scalar s then Some (flat_map utf8_enc1 s) else None.

Definition cont (b : N) : bool := (128 <=? b) && (b <=? 191).

(* bytes.decode('utf-8'): shortest form only, no surrogates, at most U+10FFFF *)
Fixpoint utf8_decode (bs : bytes) : option (list N) :=
  match bs with
  | [] => Some []
  | b0 :: r =>
    if b0 <? 128 then option_map (cons b0) (utf8_decode r)
    else if b0 <? 194 then None
    else if b0 <? 224 then
      match r with
      | b1 :: r1 =>
        if cont b1 then option_map (cons ((b0 - 192) * 64 + (b1 - 128))) (utf8_decode r1)
        else None
      | _ => None
      end
    else if b0 <? 240 then
      match r with
      | b1 :: b2 :: r2 =>
        if cont b1 && cont b2 then
          let c := (b0 - 224) * 4096 + (b1 - 128) * 64 + (b2 - 128) in
          if (c <? 2048) || ((55296 <=? c) && (c <=? 57343)) then None
          else option_map (cons c) (utf8_decode r2)
        else None
      | _ => None
      end
    else if b0 <? 245 then
      match r with
      | b1 :: b2 :: b3 :: r3 =>
        if cont b1 && cont b2 && cont b3 then
          let c := (b0 - 240) * 262144 + (b1 - 128) * 4096 + (b2 - 128) * 64 + (b3 - 128) in
          if (c <? 65536) || (1114111 <? c) then None
          else option_map (cons c) (utf8_decode r3)
        else None
      | _ => None
      end
    else None
  end.

(* ------------------------------------------------------------------- file *)
(* Subscriptions.write into a text-mode file *)
Definition write_file (names : list (list N)) : option bytes :=
  utf8_encode (print_subs names).

(* Subscriptions.read from a text-mode file into a fresh object; the result
   is list(self._subscribed) *)
Definition read_file (b : bytes) : option (list (list N)) :=
  option_map parse_subs (utf8_decode b).

(* the dict of names that a list of add() calls leaves *)
Definition dedup (names : list (list N)) : list (list N) :=
  fold_left (fun acc n => add_name n acc) names [].

(* what the file format can carry: everything but CR and LF (and, because of
   the encoder, lone surrogates) *)
Definition line_safe (n : list N) : bool :=
  forallb (fun c => negb (c =? 10) && negb (c =? 13) && is_scalar c) n.

(* str.splitlines() line boundaries other than CR / LF — *not* boundaries of
   this file format *)
Definition splitlines_extra : list N := [11; 12; 28; 29; 30; 133; 8232; 8233].
