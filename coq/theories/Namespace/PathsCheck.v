(* Namespace/PathsCheck.v — case checkers for harness/props/C08.py. *)
From PV Require Import Base.Prelude Namespace.Glob Namespace.NsBase Namespace.ListTree
     Namespace.NsModel Namespace.MdModel Namespace.NsCheck Namespace.Paths.

Definition pstr_eqb : pstr -> pstr -> bool := eqb_list N.eqb.
Definition subset (a b : list pstr) : bool := forallb (fun x => existsb (pstr_eqb x) b) a.

(* one command: observed tagged condition code and the set of name-derived
   directories the tracer saw *)
Fixpoint chk_paths_run (l : layout) (root : pstr) (st : mstate)
         (steps : list (cmd * N * list pstr)) : bool :=
  match steps with
  | [] => true
  | (c, cc, obs) :: rest =>
    let '(st', out) := mstep 1 l st (cmd_op c) in
    let '(must, may) := anchors l root st c in
    (cond_code (o_cond out) =? cc)%N && subset must obs && subset obs (must ++ may)
    && chk_paths_run l root st' rest
  end.

Definition chk_paths (c : layout * pstr * list (cmd * N * list pstr)) : bool :=
  let '(l, root, steps) := c in
  chk_paths_run l root
    {| x_inbox := {| m_id := 0; m_msgs := 0; m_next := 1; m_ro := false |};
       x_folders := []; x_subs := []; x_next := 1 |} steps.

(* os.path.join / normpath alone *)
Definition chk_join (c : pstr * list pstr * pstr) : bool :=
  let '(a, ps, r) := c in pstr_eqb (path_joins a ps) r.
Definition chk_normpath (c : pstr * list name) : bool :=
  eqb_list name_eqb (normpath (fst c)) (snd c).
(* layout.get_path(name) of the code (None = NotSupportedError) *)
Definition chk_get_path (c : layout * pstr * name * option pstr) : bool :=
  let '(l, root, n, r) := c in
  match lsplit l n, r with
  | None, None => true
  | Some parts, Some p => pstr_eqb (get_path l root parts) p
  | _, _ => false
  end.
