(* Namespace/PathsProofs.v — proofs about Paths.v. *)
From PV Require Import Base.Prelude Namespace.Glob Namespace.NsBase Namespace.ListTree
     Namespace.NsModel Namespace.MdModel Namespace.Paths.
Require Import Lia.

Definition R_U1 : pstr := [47;114;47;117;49]%N.           (* "/r/u1" *)
Definition RC_U1 : list name := [[114]; [117;49]]%N.      (* ["r"; "u1"] *)

(* without the guard of layout._split: the names ".", "" and "../u2" *)
Lemma legacy_dot_escapes :
  normpath (legacy_get_path LPlus R_U1 [46]%N) = [[114]]%N.
Proof. vm_compute. reflexivity. Qed.
