(* Namespace/PathsProofs.v — every name-derived path of the maildir backend
   stays strictly inside the user's directory. *)
From PV Require Import Base.Prelude Namespace.Glob Namespace.NsBase Namespace.NsBaseProofs
     Namespace.ListTree Namespace.ListTreeProofs Namespace.NsModel Namespace.NsProofs
     Namespace.MdModel Namespace.MdProofs Namespace.Paths.
Require Import Lia.

Definition R_U1 : pstr := [47;114;47;117;49]%N.           (* "/r/u1" *)
Definition RC_U1 : list name := [[114]; [117;49]]%N.      (* ["r"; "u1"] *)

(* ------------------------------------------------------------ strings *)
Lemma clean_spec c : clean c = true ->
  c <> [] /\ c <> s_dot /\ c <> s_dotdot /\ nodelim c.
Proof.
  unfold clean. intro H. apply andb_true_iff in H as [H1 H2].
  apply negb_true_iff in H1. apply orb_false_iff in H1 as [H1 H1c]. apply orb_false_iff in H1 as [H1a H1b].
  apply name_eqb_neq in H1a, H1b, H1c. repeat split; auto.
  intro Hin. apply negb_true_iff in H2. assert (existsb (fun x => (x =? SLASH)%N) c = true); [|congruence].
  apply existsb_exists. exists DELIM. split; [exact Hin|reflexivity].
Qed.

Lemma ends_with_slash_app a c x : ends_with_slash (a ++ c :: x) = ends_with_slash (c :: x).
Proof.
  induction a as [|y a IH]; [reflexivity|]. cbn [app]. 
  change (ends_with_slash (y :: a ++ c :: x)) with
      (match a ++ c :: x with [] => (y =? SLASH)%N | _ :: _ => ends_with_slash (a ++ c :: x) end).
  destruct (a ++ c :: x) eqn:E; [destruct a; discriminate|]. exact IH.
Qed.

Lemma ends_with_slash_nodelim c : c <> [] -> nodelim c -> ends_with_slash c = false.
Proof.
  induction c as [|x c IH]; intros Hne Hnd; [congruence|].
  destruct c as [|y c].
  - cbn. apply N.eqb_neq. intros ->. apply Hnd. now left.
  - change (ends_with_slash (x :: y :: c)) with (ends_with_slash (y :: c)).
    apply IH; [discriminate|]. intro H. apply Hnd. now right.
Qed.

Lemma root_str_snoc rc c : root_str (rc ++ [c]) = root_str rc ++ SLASH :: c.
Proof. unfold root_str. rewrite flat_map_app. cbn [flat_map]. now rewrite app_nil_r. Qed.

Lemma root_str_no_trailing rc : rc <> [] -> Forall (fun c => clean c = true) rc ->
  ends_with_slash (root_str rc) = false /\ root_str rc <> [].
Proof.
  intros Hne HF. destruct (exists_last Hne) as (rc' & c & ->).
  rewrite root_str_snoc. apply Forall_app in HF as [_ HF]. inversion HF as [|? ? Hc _]; subst.
  apply clean_spec in Hc as (Hc1 & _ & _ & Hc4). split.
  - destruct c as [|x c]; [congruence|].
    change (root_str rc' ++ SLASH :: x :: c) with (root_str rc' ++ SLASH :: (x :: c)).
    rewrite ends_with_slash_app. change (ends_with_slash (SLASH :: x :: c)) with (ends_with_slash (x :: c)).
    now apply ends_with_slash_nodelim.
  - destruct (root_str rc'); discriminate.
Qed.

(* joining one clean component *)
Lemma path_join_clean rc c : rc <> [] -> Forall (fun c => clean c = true) rc -> clean c = true ->
  path_join (root_str rc) c = root_str (rc ++ [c]).
Proof.
  intros Hne HF Hc. destruct (root_str_no_trailing rc Hne HF) as [He Hn].
  apply clean_spec in Hc as (Hc1 & _ & _ & Hc4). rewrite root_str_snoc.
  unfold path_join. destruct c as [|x c]; [congruence|].
  assert ((x =? SLASH)%N = false) by (apply N.eqb_neq; intros ->; apply Hc4; now left).
  rewrite H. destruct (root_str rc); [congruence|]. now rewrite He.
Qed.

Lemma path_joins_clean parts : forall rc, rc <> [] -> Forall (fun c => clean c = true) rc ->
  Forall (fun c => clean c = true) parts ->
  path_joins (root_str rc) parts = root_str (rc ++ parts).
Proof.
  unfold path_joins. induction parts as [|p parts IH]; intros rc Hne HF HP; cbn [fold_left].
  - now rewrite app_nil_r.
  - inversion HP as [|? ? Hp HP']; subst. rewrite path_join_clean by assumption.
    rewrite IH; [now rewrite <- app_assoc| destruct rc; discriminate | apply Forall_app; auto | exact HP'].
Qed.

(* normpath of '/' + '/'.join(clean components) *)
Lemma split_root_str cs : Forall (fun c => clean c = true) cs -> split (root_str cs) = [] :: cs.
Proof.
  induction cs as [|c cs IH]; intro HF; [reflexivity|].
  inversion HF as [|? ? Hc HF']; subst. apply clean_spec in Hc as (_ & _ & _ & Hc4).
  change (root_str (c :: cs)) with ([] ++ DELIM :: (c ++ root_str cs)).
  rewrite split_app_delim. cbn [split app]. f_equal.
  destruct cs as [|d cs].
  - cbn [root_str flat_map]. rewrite app_nil_r. now apply split_nodelim_single.
  - change (root_str (d :: cs)) with (DELIM :: (d ++ root_str cs)).
    rewrite split_app_delim, split_nodelim_single by exact Hc4.
    specialize (IH HF'). change (root_str (d :: cs)) with ([] ++ DELIM :: (d ++ root_str cs)) in IH.
    rewrite split_app_delim in IH. cbn [split app] in IH. injection IH as IH. now rewrite IH.
Qed.

Lemma norm_stack_clean cs : forall acc, Forall (fun c => clean c = true) cs ->
  norm_stack cs acc = rev acc ++ cs.
Proof.
  induction cs as [|c cs IH]; intros acc HF; cbn [norm_stack]; [now rewrite app_nil_r|].
  inversion HF as [|? ? Hc HF']; subst. apply clean_spec in Hc as (H1 & H2 & H3 & _).
  rewrite (proj2 (name_eqb_neq _ _) H1), (proj2 (name_eqb_neq _ _) H2), (proj2 (name_eqb_neq _ _) H3).
  cbn [orb]. rewrite IH by exact HF'. cbn [rev]. now rewrite <- app_assoc.
Qed.

Lemma normpath_root_str cs : Forall (fun c => clean c = true) cs -> normpath (root_str cs) = cs.
Proof.
  intro HF. unfold normpath. rewrite split_root_str by exact HF. cbn [norm_stack name_eqb eqb_list orb].
  now rewrite norm_stack_clean.
Qed.

(* ------------------------------------------------------------ the layouts *)
Lemma valid_base_clean p : valid_part_base p = true -> clean p = true.
Proof.
  unfold valid_part_base, clean. intro H. apply andb_true_iff in H as [H _]. exact H.
Qed.

Lemma valid_clean l p : valid_part l p = true -> clean p = true.
Proof. destruct l; cbn [valid_part]; intro H; apply andb_true_iff in H as [_ H]; now apply valid_base_clean. Qed.

Lemma valid_plus_nodot p : valid_part LPlus p = true -> ~ In DOT p /\ p <> [].
Proof.
  cbn [valid_part]. intro H. apply andb_true_iff in H as [H1 H2]. split.
  - intro Hin. apply negb_true_iff in H1.
    assert (existsb (fun c => (c =? DOT)%N) p = true); [|congruence].
    apply existsb_exists. exists DOT. split; [exact Hin|reflexivity].
  - apply valid_base_clean, clean_spec in H2. tauto.
Qed.

Lemma join_dot_props parts : parts <> [] -> Forall (fun p => valid_part LPlus p = true) parts ->
  (exists x r, join_dot parts = x :: r /\ x <> DOT) /\ ~ In DELIM (join_dot parts).
Proof.
  induction parts as [|p parts IH]; intros Hne HF; [congruence|].
  inversion HF as [|? ? Hp HF']; subst.
  destruct (valid_plus_nodot p Hp) as [Hd Hn].
  apply valid_clean, clean_spec in Hp as (_ & _ & _ & Hnd).
  destruct parts as [|q parts].
  - cbn [join_dot]. split; [|exact Hnd]. destruct p as [|x r]; [congruence|].
    exists x, r. split; [reflexivity|]. intros ->. apply Hd. now left.
  - assert (Hne' : q :: parts <> []) by discriminate. destruct (IH Hne' HF') as [_ I2].
    change (join_dot (p :: q :: parts)) with (p ++ DOT :: join_dot (q :: parts)). split.
    + destruct p as [|x r]; [congruence|]. exists x, (r ++ DOT :: join_dot (q :: parts)).
      split; [reflexivity|]. intros ->. apply Hd. now left.
    + rewrite in_app_iff. intros [H|[H|H]]; [now apply Hnd|discriminate H|now apply I2].
Qed.

Lemma subdir_clean parts : parts <> [] -> Forall (fun p => valid_part LPlus p = true) parts ->
  clean (get_subdir parts) = true.
Proof.
  intros Hne HF. destruct (join_dot_props parts Hne HF) as [(x & r & E & Hx) Hnd].
  unfold get_subdir. destruct parts; [congruence|]. rewrite E. unfold clean.
  apply andb_true_iff. split.
  - apply negb_true_iff.
    assert (H1 : DOT :: x :: r <> []) by discriminate.
    assert (H2 : DOT :: x :: r <> s_dot) by (unfold s_dot; discriminate).
    assert (H3 : DOT :: x :: r <> s_dotdot).
    { unfold s_dotdot. intro H. injection H as H _. apply Hx. exact H. }
    now rewrite (proj2 (name_eqb_neq _ _) H1), (proj2 (name_eqb_neq _ _) H2), (proj2 (name_eqb_neq _ _) H3).
  - apply negb_true_iff. destruct (existsb (fun x0 => (x0 =? SLASH)%N) (DOT :: x :: r)) eqn:Ex; [|reflexivity].
    apply existsb_exists in Ex as (y & Hy & Ey). apply N.eqb_eq in Ey. subst y.
    destruct Hy as [Hy|Hy]; [discriminate Hy|]. exfalso. apply Hnd. rewrite E. exact Hy.
Qed.

(* the heart of C08: a guarded name stays strictly inside the user's root *)
Theorem get_path_confined l rc parts :
  rc <> [] -> Forall (fun c => clean c = true) rc ->
  parts <> [] -> Forall (fun p => valid_part l p = true) parts ->
  exists extra, extra <> [] /\ normpath (get_path l (root_str rc) parts) = rc ++ extra.
Proof.
  intros Hne HF Hp HV. destruct l; cbn [get_path].
  - exists [get_subdir parts]. split; [discriminate|].
    pose proof (subdir_clean parts Hp HV) as Hc.
    rewrite path_join_clean by assumption. apply normpath_root_str.
    apply Forall_app. split; [exact HF|]. constructor; [exact Hc|constructor].
  - exists parts. split; [exact Hp|].
    assert (HC : Forall (fun c => clean c = true) parts).
    { eapply Forall_impl; [|exact HV]. intros a. apply valid_clean. }
    rewrite path_joins_clean by assumption. apply normpath_root_str. apply Forall_app. auto.
Qed.

Corollary get_path_strictly_inside l rc parts :
  rc <> [] -> Forall (fun c => clean c = true) rc ->
  parts <> [] -> Forall (fun p => valid_part l p = true) parts ->
  strictly_inside rc (normpath (get_path l (root_str rc) parts)).
Proof. intros. destruct (get_path_confined l rc parts) as (e & He & E); auto. exists e. auto. Qed.

(* ------------------------------------------------------------ refutations *)
(* without the guard of layout._split: the names ".", "" and "../u2" *)
Lemma legacy_dot_escapes : normpath (legacy_get_path LPlus R_U1 [46]%N) = [[114]]%N.
Proof. vm_compute. reflexivity. Qed.
Lemma legacy_slash_escapes : normpath (legacy_get_path LPlus R_U1 [47]%N) = [[114]]%N.
Proof. vm_compute. reflexivity. Qed.
Lemma legacy_empty_is_root : normpath (legacy_get_path LPlus R_U1 []) = RC_U1.
Proof. vm_compute. reflexivity. Qed.
Lemma legacy_dotdot_fs : normpath (legacy_get_path LFs R_U1 [46;46;47;117;50]%N) = [[114]; [117;50]]%N.
Proof. vm_compute. reflexivity. Qed.
Lemma legacy_refuted :
  exists l n, n <> INBOX /\ ~ strictly_inside RC_U1 (normpath (legacy_get_path l R_U1 n)).
Proof.
  exists LPlus, [46]%N. split; [discriminate|]. rewrite legacy_dot_escapes.
  intros (rest & _ & E). discriminate E.
Qed.

(* ------------------------------------------------------------ valid folder sets *)
Definition vparts (l : layout) (parts : path) : Prop :=
  parts <> [] /\ Forall (fun p => valid_part l p = true) parts.
Definition fvalid (l : layout) (st : mstate) : Prop :=
  forall k, In k (map fst (x_folders st)) -> vparts l (split k).

Lemma lsplit_Some l n parts : lsplit l n = Some parts -> n <> INBOX -> vparts l parts /\ parts = split n.
Proof.
  unfold lsplit. intros H Hn. rewrite (proj2 (name_eqb_neq _ _) Hn) in H.
  destruct (forallb (valid_part l) (split n)) eqn:E; [|discriminate]. injection H as <-.
  split; [|reflexivity]. split; [apply split_nonempty|]. apply Forall_forall. now apply forallb_forall.
Qed.

Lemma firstn_vparts l parts k : vparts l parts -> 1 <= k -> vparts l (firstn k parts).
Proof.
  intros [Hne HF] Hk. split.
  - destruct parts as [|p parts]; [congruence|]. destruct k as [|k]; [lia|]. cbn [firstn]. discriminate.
  - apply Forall_forall. intros x Hx. apply firstn_In' in Hx.
    rewrite Forall_forall in HF. now apply HF.
Qed.

Lemma vparts_split_join l parts : vparts l parts -> split (join parts) = parts.
Proof.
  intros [Hne HF]. apply split_join; [exact Hne|]. eapply Forall_impl; [|exact HF].
  intros a Ha. apply valid_clean, clean_spec in Ha. tauto.
Qed.

Lemma vparts_app_suffix l pb q rest pre :
  vparts l pb -> vparts l q -> q = pre ++ rest -> vparts l (pb ++ rest).
Proof.
  intros [Hb Fb] [_ Fq] ->. split; [destruct pb; [congruence|discriminate]|].
  apply Forall_app in Fq as [_ Fr]. apply Forall_app. auto.
Qed.

Lemma aset_keys_incl {V} k (v : V) f x : In x (map fst (aset k v f)) -> x = k \/ In x (map fst f).
Proof.
  rewrite aset_keys. destruct (amem k f); [now right|]. rewrite in_app_iff. intros [H|[H|[]]]; auto.
Qed.

Lemma add_superiors_keys uid0 ks parts : forall f nx x,
  In x (map fst (fst (add_superiors uid0 ks parts f nx))) ->
  In x (map fst f) \/ exists k, In k ks /\ x = join (firstn k parts).
Proof.
  induction ks as [|k ks IH]; intros f nx x; cbn [add_superiors fst]; [now left|].
  destruct (amem (join (firstn k parts)) f).
  - intro H. apply IH in H as [H|(k' & Hk & ->)]; [now left|right; exists k'; split; [now right|reflexivity]].
  - intro H. apply IH in H as [H|(k' & Hk & ->)].
    + apply aset_keys_incl in H as [->|H]; [right; exists k; split; [now left|reflexivity]|now left].
    + right. exists k'. split; [now right|reflexivity].
Qed.

Lemma fvalid_step uid0 l st o : fvalid l st -> fvalid l (fst (mstep uid0 l st o)).
Proof.
  intro Hv. destruct (o_cond (snd (mstep uid0 l st o))) eqn:Ec.
  2:{ now rewrite (m_error_no_effect uid0 l st o code Ec). }
  - destruct o; revert Ec; cbn [mstep]; cbv zeta.
    + (* create *)
      destruct (create_name n) as [n'|k] eqn:Ecn; [|cbn; discriminate].
      pose proof (create_name_inl _ _ Ecn) as En.
      destruct (lsplit l n') as [parts|] eqn:El; [|cbn; discriminate].
      destruct (negb (ancestors_ok st parts)); [cbn; discriminate|].
      destruct (amem n' (x_folders st)); [cbn; discriminate|].
      destruct (negb (parent_ok l st parts)); [cbn; discriminate|]. intros _.
      cbn [fst x_with]. intros k Hk. cbn [x_folders] in Hk. apply aset_keys_incl in Hk as [->|Hk]; [|auto].
      destruct (lsplit_Some _ _ _ El En) as [Hp ->]. exact Hp.
    + (* delete *)
      destruct (name_eqb (norm n) INBOX); [cbn; discriminate|].
      destruct (lsplit l (norm n)); [|cbn; discriminate].
      destruct (negb (amem (norm n) (x_folders st))); [cbn; discriminate|].
      destruct l; [|destruct (has_child_folder st p); [cbn; discriminate|]]; intros _;
        cbn [fst x_with]; intros k Hk; cbn [x_folders] in Hk; apply adel_keys_incl in Hk; auto.
    + (* rename *)
      destruct (rename_dest b) as [b'|k] eqn:Erd; [|cbn; discriminate].
      destruct (rename_dest_inl _ _ Erd) as [Eb ->].
      destruct (name_eqb (norm a) INBOX) eqn:Ea; [cbn; discriminate|]. apply name_eqb_neq in Ea.
      destruct (starts_with (norm a ++ [DELIM]) (norm b)); [cbn; discriminate|].
      destruct (tget (x_tree st) (norm a)); [|cbn; discriminate].
      destruct (tget (x_tree st) (norm b)); [cbn; discriminate|].
      destruct (lsplit l (norm a)) as [pa|] eqn:Ela; [|cbn; discriminate].
      destruct (lsplit l (norm b)) as [pb|] eqn:Elb; [|cbn; discriminate].
      destruct (lsplit_Some _ _ _ Ela Ea) as [Hpa Epa]. destruct (lsplit_Some _ _ _ Elb Eb) as [Hpb Epb].
      destruct (add_superiors uid0 (seq 1 (length pb - 1)) pb (x_folders st) (x_next st)) as [f1 nx] eqn:Eadd.
      assert (Hf1 : forall k, In k (map fst f1) -> vparts l (split k)).
      { intros k Hk. pose proof (add_superiors_keys uid0 (seq 1 (length pb - 1)) pb (x_folders st) (x_next st) k) as H.
        rewrite Eadd in H. cbn [fst] in H. destruct (H Hk) as [H1|(i & Hi & ->)]; [auto|].
        apply in_seq in Hi. rewrite (vparts_split_join l); apply firstn_vparts; auto; lia. }
      assert (Hmv : forall k, In k (map fst (move_folders (norm a) (norm b) f1)) -> vparts l (split k)).
      { intros k Hk. destruct (move_folders_spec (norm a) (norm b) f1) as [_ M2]. rewrite M2 in Hk.
        apply in_map_iff in Hk as (k0 & <- & Hk0). unfold move_key.
        destruct (drop_prefix (split (norm a)) (split k0)) as [rest|] eqn:Ed; [|auto].
        apply drop_prefix_spec in Ed.
        assert (HFr : Forall nodelim rest).
        { pose proof (split_nodelim k0) as H. rewrite Ed in H. apply Forall_app in H. tauto. }
        rewrite split_sfx by exact HFr. rewrite <- Epb.
        eapply vparts_app_suffix; [exact Hpb|apply (Hf1 k0 Hk0)|exact Ed]. }
      destruct l.
      * intros _. cbn [fst x_with]. intros k Hk. cbn [x_folders] in Hk. auto.
      * destruct (amem (norm a) f1); [|cbn; discriminate]. intros _.
        cbn [fst x_with]. intros k Hk. cbn [x_folders] in Hk. auto.
    + destruct (inbox_case_bad (norm n)); [intros _; exact Hv|].
      destruct (lsplit l (norm n)); intros _; cbn [fst]; intros k Hk; cbn [x_folders] in Hk; auto.
    + destruct (lsplit l (norm n)); intros _; cbn [fst]; intros k Hk; cbn [x_folders] in Hk; auto.
    + intros _. exact Hv.
    + intros _. exact Hv.
    + destruct (x_get l st (norm n)); intros _; exact Hv.
    + destruct (x_get l st (norm n)); intros _; exact Hv.
    + (* append *)
      unfold x_get. destruct (name_eqb (norm n) INBOX) eqn:En.
      * intros _. cbn [fst]. unfold x_append. rewrite En. intros k Hk. cbn [x_folders] in Hk. auto.
      * destruct (lsplit l (norm n)); [|intros _; exact Hv].
        destruct (alookup (norm n) (x_folders st)) eqn:Eg; [|intros _; exact Hv].
        intros _. cbn [fst]. unfold x_append. rewrite En. intros k Hk. cbn [x_with x_folders] in Hk.
        apply aset_keys_incl in Hk as [->|Hk]; [|auto]. apply Hv.
        apply amem_true. unfold amem. now rewrite Eg.
  - (* CExc: the failing os.rename of the fs layout, after the superiors were created *)
    destruct o; revert Ec; cbn [mstep]; cbv zeta;
      try (repeat match goal with
                  | |- context [match create_name ?n with _ => _ end] => destruct (create_name n)
                  | |- context [if ?c then _ else _] => destruct c
                  | |- context [match lsplit ?l ?n with _ => _ end] => destruct (lsplit l n)
                  | |- context [match x_get ?l ?s ?n with _ => _ end] => destruct (x_get l s n)
                  | |- context [match l with _ => _ end] => destruct l
                  end; unfold list_out; cbn; discriminate).
    + destruct (rename_dest b) as [b'|k] eqn:Erd; [|cbn; discriminate].
      destruct (rename_dest_inl _ _ Erd) as [Eb ->].
      destruct (name_eqb (norm a) INBOX); [cbn; discriminate|].
      destruct (starts_with (norm a ++ [DELIM]) (norm b)); [cbn; discriminate|].
      destruct (tget (x_tree st) (norm a)); [|cbn; discriminate].
      destruct (tget (x_tree st) (norm b)); [cbn; discriminate|].
      destruct (lsplit l (norm a)) as [pa|]; [|cbn; discriminate].
      destruct (lsplit l (norm b)) as [pb|] eqn:Elb; [|cbn; discriminate].
      destruct (lsplit_Some _ _ _ Elb Eb) as [Hpb Epb].
      destruct (add_superiors uid0 (seq 1 (length pb - 1)) pb (x_folders st) (x_next st)) as [f1 nx] eqn:Eadd.
      destruct l; [cbn; discriminate|]. destruct (amem (norm a) f1); [cbn; discriminate|]. intros _.
      cbn [fst x_with]. intros k Hk. cbn [x_folders] in Hk.
      pose proof (add_superiors_keys uid0 (seq 1 (length pb - 1)) pb (x_folders st) (x_next st) k) as H.
      rewrite Eadd in H. cbn [fst] in H. destruct (H Hk) as [H1|(i & Hi & ->)]; [auto|].
      apply in_seq in Hi. rewrite (vparts_split_join LFs); apply firstn_vparts; auto; lia.
Qed.

(* ------------------------------------------------------------ anchors *)
Lemma checked_prefixes_in l root st parts ks p :
  In p (fst (checked_prefixes l root st parts ks)) -> exists k, In k ks /\ p = get_path l root (firstn k parts).
Proof.
  induction ks as [|k ks IH]; cbn [checked_prefixes fst]; [intros []|].
  destruct (is_dir st (firstn k parts)).
  - destruct (checked_prefixes l root st parts ks) as [pre okk]. cbn [fst] in *.
    intros [<-|H]; [exists k; split; [now left|reflexivity]|].
    destruct (IH H) as (k' & Hk & ->). exists k'. split; [now right|reflexivity].
  - cbn [fst]. intros [<-|[]]. exists k. split; [now left|reflexivity].
Qed.

Lemma folder_paths_valid l root st p : fvalid l st -> In p (folder_paths l root st) ->
  exists parts, vparts l parts /\ p = get_path l root parts.
Proof.
  intros Hv H. unfold folder_paths in H. apply in_map_iff in H as ([k v] & <- & Hk).
  exists (split k). split; [|reflexivity]. apply Hv. apply in_map_iff. exists (k, v). auto.
Qed.

Lemma anchors_valid l root st c p : fvalid l st -> In p (paths_touched l root st c) ->
  exists parts, vparts l parts /\ p = get_path l root parts.
Proof.
  intros Hv. unfold paths_touched. destruct c; cbn [anchors]; cbv zeta.
  - (* create *)
    destruct (create_name n) as [n'|k] eqn:Ecn; [|cbn; tauto].
    pose proof (create_name_inl _ _ Ecn) as En.
    destruct (lsplit l n') as [parts|] eqn:El; [|cbn; tauto].
    destruct (lsplit_Some _ _ _ El En) as [Hp _].
    destruct (checked_prefixes l root st parts (seq 1 (length parts - 2))) as [pre okk] eqn:Ecp.
    assert (Hpre : forall q, In q pre -> exists parts0, vparts l parts0 /\ q = get_path l root parts0).
    { intros q Hq. pose proof (checked_prefixes_in l root st parts (seq 1 (length parts - 2)) q) as H.
      rewrite Ecp in H. destruct (H Hq) as (k & Hk & ->). apply in_seq in Hk.
      exists (firstn k parts). split; [apply firstn_vparts; [exact Hp|lia]|reflexivity]. }
    destruct okk; cbn [fst snd]; rewrite app_nil_r; [|exact (Hpre p)].
    rewrite in_app_iff. intros [H|[<-|[]]]; [now apply Hpre|]. exists parts. auto.
  - (* delete *)
    destruct (name_eqb (norm n) INBOX) eqn:En; [cbn; tauto|]. apply name_eqb_neq in En.
    destruct (lsplit l (norm n)) as [parts|] eqn:El; [|cbn; tauto].
    destruct (lsplit_Some _ _ _ El En) as [Hp _]. cbn [fst snd app]. intros [<-|H]; [exists parts; auto|].
    destruct l; [contradiction|]. apply in_map_iff in H as ([k v] & <- & Hk). apply filter_In in Hk as [Hk _].
    exists (split k). split; [|reflexivity]. apply Hv. apply in_map_iff. exists (k, v). auto.
  - (* rename *)
    destruct (rename_dest b) as [b'|k] eqn:Erd; [|cbn; tauto].
    destruct (rename_dest_inl _ _ Erd) as [Eb ->].
    destruct (name_eqb (norm a) INBOX || starts_with (norm a ++ [DELIM]) (norm b)) eqn:Eg;
      [cbn; tauto|].
    apply orb_false_iff in Eg as [Ea _].
    apply name_eqb_neq in Ea.
    assert (Hfl : forall q, In q (folder_paths l root st ++ []) ->
                            exists parts, vparts l parts /\ q = get_path l root parts).
    { intros q Hq. rewrite app_nil_r in Hq. now apply (folder_paths_valid l root st). }
    destruct (tget (x_tree st) (norm a)); [|exact (Hfl p)].
    destruct (tget (x_tree st) (norm b)); [exact (Hfl p)|].
    destruct (lsplit l (norm a)) as [pa|] eqn:Ela; [|exact (Hfl p)].
    destruct (lsplit l (norm b)) as [pb|] eqn:Elb; [|exact (Hfl p)].
    destruct (lsplit_Some _ _ _ Ela Ea) as [Hpa Epa]. destruct (lsplit_Some _ _ _ Elb Eb) as [Hpb Epb].
    cbn [fst snd]. rewrite !in_app_iff. intros [[H|[H|H]]|H].
    + now apply (folder_paths_valid l root st).
    + apply in_map_iff in H as (k & <- & Hk). apply in_seq in Hk.
      exists (firstn k pb). split; [apply firstn_vparts; [exact Hpb|lia]|reflexivity].
    + destruct l.
      * apply in_flat_map in H as ([k v] & Hk & H). cbn [fst] in H.
        destruct (drop_prefix pa (split k)) as [rest|] eqn:Ed; [|contradiction].
        destruct H as [<-|[]]. apply drop_prefix_spec in Ed.
        exists (pb ++ rest). split; [|reflexivity].
        eapply vparts_app_suffix; [exact Hpb| |exact Ed]. apply Hv. apply in_map_iff. exists (k, v). auto.
      * destruct H as [<-|[]]. exists pb. auto.
    + destruct l; [contradiction|]. destruct H as [<-|[]]. exists pa. auto.
  - cbn. tauto.
  - cbn. tauto.
  - destruct pat; [cbn; tauto|]. cbn [fst snd]. rewrite app_nil_r. now apply (folder_paths_valid l root st).
  - cbn. tauto.
  - cbn [fst snd]. rewrite app_nil_r. unfold name_anchor.
    destruct (name_eqb (norm n) INBOX) eqn:En; [cbn; tauto|]. apply name_eqb_neq in En.
    destruct (lsplit l (norm n)) as [parts|] eqn:El; [|cbn; tauto].
    destruct (lsplit_Some _ _ _ El En) as [Hp _]. intros [<-|[]]. exists parts. auto.
  - cbn [fst snd]. rewrite app_nil_r. unfold name_anchor.
    destruct (name_eqb (norm n) INBOX) eqn:En; [cbn; tauto|]. apply name_eqb_neq in En.
    destruct (lsplit l (norm n)) as [parts|] eqn:El; [|cbn; tauto].
    destruct (lsplit_Some _ _ _ El En) as [Hp _]. intros [<-|[]]. exists parts. auto.
  - cbn [fst snd]. rewrite app_nil_r. unfold name_anchor.
    destruct (name_eqb (norm n) INBOX) eqn:En; [cbn; tauto|]. apply name_eqb_neq in En.
    destruct (lsplit l (norm n)) as [parts|] eqn:El; [|cbn; tauto].
    destruct (lsplit_Some _ _ _ El En) as [Hp _]. intros [<-|[]]. exists parts. auto.
  - cbn [fst snd]. rewrite app_nil_r. unfold name_anchor.
    destruct (name_eqb (norm n) INBOX) eqn:En; [cbn; tauto|]. apply name_eqb_neq in En.
    destruct (lsplit l (norm n)) as [parts|] eqn:El; [|cbn; tauto].
    destruct (lsplit_Some _ _ _ El En) as [Hp _]. intros [<-|[]]. exists parts. auto.
Qed.

Definition root_ok (rc : list name) : Prop := rc <> [] /\ Forall (fun c => clean c = true) rc.

Definition md_init : mstate :=
  {| x_inbox := {| m_id := 0; m_msgs := 0; m_next := 1; m_ro := false |};
     x_folders := []; x_subs := []; x_next := 1 |}.

Lemma fvalid_run uid0 l prog : forall st, fvalid l st -> fvalid l (mrun uid0 l st prog).
Proof.
  unfold mrun. induction prog as [|o prog IH]; intros st H; cbn [fold_left]; [exact H|].
  apply IH. now apply fvalid_step.
Qed.

(* every name-derived directory of every command, in every state a program of
   commands can reach, lies strictly inside the user's directory *)
Theorem confined_all uid0 l rc prog c p : root_ok rc ->
  In p (paths_touched l (root_str rc) (mrun uid0 l md_init prog) c) ->
  strictly_inside rc (normpath p).
Proof.
  intros [Hne HF] H.
  assert (Hv : fvalid l (mrun uid0 l md_init prog)).
  { apply fvalid_run. intros k []. }
  destruct (anchors_valid _ _ _ _ _ Hv H) as (parts & [Hp HV] & ->).
  now apply get_path_strictly_inside.
Qed.

(* extending an inside path by server-chosen clean components stays inside *)
Lemma inside_extend rc q c : strictly_inside rc q -> strictly_inside rc (q ++ [c]).
Proof. intros (rest & Hr & ->). exists (rest ++ [c]). split; [destruct rest; discriminate|now rewrite app_assoc]. Qed.

(* DELETE never removes, RENAME never moves, the user's directory itself *)
Theorem delete_target_inside l rc n0 p : root_ok rc ->
  In p (delete_target l (root_str rc) n0) -> strictly_inside rc (normpath p).
Proof.
  intros [Hne HF]. unfold delete_target.
  destruct (name_eqb (norm n0) INBOX) eqn:En; [intros []|]. apply name_eqb_neq in En.
  destruct (lsplit l (norm n0)) as [parts|] eqn:El; [|intros []].
  destruct (lsplit_Some _ _ _ El En) as [[Hp HV] _]. intros [<-|[]]. now apply get_path_strictly_inside.
Qed.

Theorem rename_targets_inside l rc a0 b0 p : root_ok rc ->
  In p (rename_targets l (root_str rc) a0 b0) -> strictly_inside rc (normpath p).
Proof.
  intros [Hne HF]. unfold rename_targets.
  destruct (rename_dest b0) as [b'|k] eqn:Erd; [|intros []].
  destruct (rename_dest_inl _ _ Erd) as [Eb ->].
  destruct (name_eqb (norm a0) INBOX) eqn:Ea; [intros []|]. apply name_eqb_neq in Ea.
  destruct (lsplit l (norm a0)) as [pa|] eqn:Ela; [|intros []].
  destruct (lsplit l (norm b0)) as [pb|] eqn:Elb; [|intros []].
  destruct (lsplit_Some _ _ _ Ela Ea) as [[Hpa HVa] _]. destruct (lsplit_Some _ _ _ Elb Eb) as [[Hpb HVb] _].
  intros [<-|[<-|[]]]; now apply get_path_strictly_inside.
Qed.

(* the guard is exactly what the layouts need: each refused shape escapes *)
Lemma root_ok_u1 : root_ok RC_U1.
Proof. split; [discriminate|]. repeat constructor. Qed.

(* ------------------------------------------------------------ dict isolation *)
Theorem dict_isolation uid0 (s : dstore) (u v : name) (prog : list op) :
  u <> v ->
  alookup v (fold_left (fun s o => dstore_step uid0 s u o) prog s) = alookup v s.
Proof.
  intro Huv. revert s. induction prog as [|o prog IH]; intro s; cbn [fold_left]; [reflexivity|].
  rewrite IH. unfold dstore_step. destruct (alookup u s); [|reflexivity].
  rewrite alookup_aset. assert (v <> u) by congruence. now rewrite (proj2 (name_eqb_neq _ _) H).
Qed.
