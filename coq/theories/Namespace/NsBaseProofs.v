(* Namespace/NsBaseProofs.v — split/join and association-list lemmas. *)
From PV Require Import Base.Prelude Namespace.Glob Namespace.NsBase.
Require Import Lia.

Lemma name_eqb_eq a b : name_eqb a b = true <-> a = b.
Proof. apply eqb_list_true_iff. intros; apply N.eqb_eq. Qed.
Lemma name_eqb_refl a : name_eqb a a = true.
Proof. now apply name_eqb_eq. Qed.
Lemma name_eqb_neq a b : name_eqb a b = false <-> a <> b.
Proof.
  split; intro H.
  - intros ->. rewrite name_eqb_refl in H. discriminate.
  - destruct (name_eqb a b) eqn:E; [|reflexivity]. apply name_eqb_eq in E. contradiction.
Qed.
Lemma name_eqb_sym a b : name_eqb a b = name_eqb b a.
Proof.
  destruct (name_eqb a b) eqn:E.
  - apply name_eqb_eq in E. subst. now rewrite name_eqb_refl.
  - symmetry. apply name_eqb_neq. apply name_eqb_neq in E. congruence.
Qed.
Lemma name_eq_dec (a b : name) : {a = b} + {a <> b}.
Proof. destruct (name_eqb a b) eqn:E; [left; now apply name_eqb_eq|right; now apply name_eqb_neq]. Qed.

Lemma path_eqb_eq a b : path_eqb a b = true <-> a = b.
Proof. apply eqb_list_true_iff. intros; apply name_eqb_eq. Qed.
Lemma path_eqb_refl a : path_eqb a a = true.
Proof. now apply path_eqb_eq. Qed.
Lemma path_eqb_neq a b : path_eqb a b = false <-> a <> b.
Proof.
  split; intro H.
  - intros ->. rewrite path_eqb_refl in H. discriminate.
  - destruct (path_eqb a b) eqn:E; [|reflexivity]. apply path_eqb_eq in E. contradiction.
Qed.

Definition nodelim (p : name) : Prop := ~ In DELIM p.

(* ------------------------------------------------------------ split / join *)
Lemma split_nonempty s : split s <> [].
Proof.
  destruct s as [|c s]; cbn [split]; [discriminate|].
  destruct (c =? DELIM)%N; [discriminate|]. destruct (split s); discriminate.
Qed.

Lemma split_cons_nd c s : (c =? DELIM)%N = false ->
  exists p ps, split s = p :: ps /\ split (c :: s) = (c :: p) :: ps.
Proof.
  intro E. cbn [split]. rewrite E. destruct (split s) as [|p ps] eqn:Es.
  - now apply split_nonempty in Es.
  - exists p, ps. auto.
Qed.

Lemma join_cons p ps : ps <> [] -> join (p :: ps) = p ++ DELIM :: join ps.
Proof. destruct ps; [congruence|reflexivity]. Qed.

Lemma join_split s : join (split s) = s.
Proof.
  induction s as [|c s IH]; [reflexivity|].
  destruct (c =? DELIM)%N eqn:E.
  - cbn [split]. rewrite E. rewrite join_cons by apply split_nonempty.
    rewrite IH. apply N.eqb_eq in E. now subst.
  - destruct (split_cons_nd c s E) as (p & ps & Es & ->). rewrite Es in IH.
    destruct ps as [|q ps].
    + cbn [join] in *. now subst.
    + rewrite join_cons in * by discriminate. cbn [app]. now rewrite IH.
Qed.

Lemma split_nodelim s : Forall nodelim (split s).
Proof.
  induction s as [|c s IH]; cbn [split].
  - constructor; [intros []|constructor].
  - destruct (c =? DELIM)%N eqn:E.
    + constructor; [intros []|exact IH].
    + destruct (split s) as [|p ps]; [constructor; [|constructor]|].
      * intros [H|[]]. subst. now rewrite N.eqb_refl in E.
      * inversion IH; subst. constructor; [|assumption].
        intros [H|H]; [subst; now rewrite N.eqb_refl in E|contradiction].
Qed.

Lemma split_nodelim_single p : nodelim p -> split p = [p].
Proof.
  induction p as [|c p IH]; intro H; [reflexivity|].
  assert (E : (c =? DELIM)%N = false).
  { apply N.eqb_neq. intros ->. apply H. now left. }
  cbn [split]. rewrite E. rewrite IH; [reflexivity|]. intro Hin. apply H. now right.
Qed.

Lemma split_app_delim p r : split (p ++ DELIM :: r) = split p ++ split r.
Proof.
  induction p as [|c p IH].
  - cbn [app split]. now rewrite N.eqb_refl.
  - cbn [app]. destruct (c =? DELIM)%N eqn:E.
    + cbn [split]. rewrite E. cbn [app]. now rewrite IH.
    + destruct (split_cons_nd c p E) as (q & qs & Es & ->).
      cbn [split]. rewrite E, IH, Es. reflexivity.
Qed.

Lemma split_join ps : ps <> [] -> Forall nodelim ps -> split (join ps) = ps.
Proof.
  induction ps as [|p ps IH]; intros Hne HF; [congruence|].
  inversion HF as [|x l Hp HF']; subst.
  destruct ps as [|q ps].
  - cbn [join]. now apply split_nodelim_single.
  - rewrite join_cons by discriminate. rewrite split_app_delim.
    rewrite split_nodelim_single by exact Hp. rewrite IH; [reflexivity|discriminate|exact HF'].
Qed.

Lemma join_app l1 l2 : l1 <> [] -> l2 <> [] -> join (l1 ++ l2) = join l1 ++ DELIM :: join l2.
Proof.
  induction l1 as [|p l1 IH]; intros H1 H2; [congruence|].
  destruct l1 as [|q l1].
  - cbn [app]. rewrite join_cons by exact H2. reflexivity.
  - change ((p :: q :: l1) ++ l2) with (p :: (q :: l1) ++ l2).
    rewrite join_cons by (cbn [app]; discriminate).
    rewrite IH by (auto; discriminate). rewrite (join_cons p (q :: l1)) by discriminate.
    now rewrite <- app_assoc.
Qed.

Lemma join_inj a b : a <> [] -> b <> [] -> Forall nodelim a -> Forall nodelim b -> join a = join b -> a = b.
Proof. intros Ha Hb Fa Fb E. rewrite <- (split_join a Ha Fa), <- (split_join b Hb Fb). now rewrite E. Qed.

(* join p ++ sfx rest = join (p ++ rest) for a non-empty p *)
Lemma join_sfx p rest : p <> [] -> join p ++ sfx rest = join (p ++ rest).
Proof.
  revert p. induction rest as [|x rest IH]; intros p Hp.
  - cbn [sfx]. now rewrite !app_nil_r.
  - cbn [sfx]. change (p ++ x :: rest) with (p ++ [x] ++ rest). rewrite app_assoc.
    rewrite <- IH by (destruct p; discriminate).
    rewrite (join_app p [x]) by (auto; discriminate). cbn [join].
    rewrite <- !app_assoc. reflexivity.
Qed.

(* ------------------------------------------------------------ is_prefix etc. *)
Lemma is_prefix_spec (p l : path) : is_prefix name_eqb p l = true <-> exists r, l = p ++ r.
Proof.
  revert l; induction p as [|x p IH]; intros l; cbn [is_prefix].
  - split; [intros _; now exists l|reflexivity].
  - destruct l as [|y l].
    + split; [discriminate|intros (r & E); discriminate].
    + rewrite andb_true_iff, name_eqb_eq, IH. split.
      * intros (-> & r & ->). now exists r.
      * intros (r & E). injection E as -> ->. split; [reflexivity|now exists r].
Qed.

(* ------------------------------------------------------------ assoc lists *)
Lemma NoDup_snoc {A} (l : list A) x : NoDup l -> ~ In x l -> NoDup (l ++ [x]).
Proof.
  induction l as [|y l IH]; intros ND Hn; cbn [app].
  - constructor; [intros []|constructor].
  - inversion ND; subst. constructor.
    + rewrite in_app_iff. intros [H|[H|[]]]; [contradiction|]. subst. apply Hn. now left.
    + apply IH; [assumption|]. intro H. apply Hn. now right.
Qed.

Section AssocP.
  Context {V : Type}.
  Implicit Types l : list (name * V).

  Lemma alookup_aset k v l m :
    alookup m (aset k v l) = if name_eqb m k then Some v else alookup m l.
  Proof.
    induction l as [|[k' v'] l IH]; cbn [aset alookup].
    - reflexivity.
    - destruct (name_eqb k k') eqn:E.
      + apply name_eqb_eq in E. subst k'. cbn [alookup]. destruct (name_eqb m k); reflexivity.
      + cbn [alookup]. rewrite IH. destruct (name_eqb m k') eqn:E2; [|reflexivity].
        apply name_eqb_eq in E2. subst m. rewrite name_eqb_sym, E. reflexivity.
  Qed.

  Lemma alookup_None_notin k l : alookup k l = None <-> ~ In k (map fst l).
  Proof.
    induction l as [|[k' v'] l IH]; cbn [alookup map fst In].
    - split; [intros _ []|reflexivity].
    - destruct (name_eqb k k') eqn:E.
      + apply name_eqb_eq in E. subst. split; [discriminate|intro H; exfalso; apply H; now left].
      + apply name_eqb_neq in E. rewrite IH. split; [intros H [H1|H1]; [congruence|contradiction]|tauto].
  Qed.

  Lemma alookup_adel k l m : NoDup (map fst l) ->
    alookup m (adel k l) = if name_eqb m k then None else alookup m l.
  Proof.
    induction l as [|[k' v'] l IH]; intro ND; cbn [adel alookup].
    - destruct (name_eqb m k); reflexivity.
    - cbn [map fst] in ND. inversion ND as [|x xs Hnin ND']; subst.
      destruct (name_eqb k k') eqn:E.
      + apply name_eqb_eq in E. subst k'. destruct (name_eqb m k) eqn:E2; [|reflexivity].
        apply name_eqb_eq in E2. subst m. now apply alookup_None_notin.
      + cbn [alookup]. rewrite IH by exact ND'. destruct (name_eqb m k') eqn:E2; [|reflexivity].
        apply name_eqb_eq in E2. subst m. rewrite name_eqb_sym, E. reflexivity.
  Qed.

  Lemma aset_keys k v l :
    map fst (aset k v l) = if amem k l then map fst l else map fst l ++ [k].
  Proof.
    unfold amem. induction l as [|[k' v'] l IH]; cbn [aset alookup map fst].
    - reflexivity.
    - destruct (name_eqb k k') eqn:E; [reflexivity|]. cbn [map fst]. rewrite IH.
      destruct (alookup k l); reflexivity.
  Qed.

  Lemma amem_true k l : amem k l = true <-> In k (map fst l).
  Proof.
    unfold amem. destruct (alookup k l) eqn:E.
    - split; [intros _|reflexivity]. destruct (in_dec name_eq_dec k (map fst l)); [assumption|].
      apply alookup_None_notin in n. congruence.
    - split; [discriminate|]. apply alookup_None_notin in E. contradiction.
  Qed.

  Lemma aset_nodup k v l : NoDup (map fst l) -> NoDup (map fst (aset k v l)).
  Proof.
    intro ND. rewrite aset_keys. destruct (amem k l) eqn:E; [exact ND|].
    assert (~ In k (map fst l)) by (intro H; apply amem_true in H; congruence).
    apply NoDup_snoc; assumption.
  Qed.

  Lemma adel_keys_incl k l x : In x (map fst (adel k l)) -> In x (map fst l).
  Proof.
    induction l as [|[k' v'] l IH]; cbn [adel map fst]; [auto|].
    destruct (name_eqb k k'); cbn [map fst In]; [auto|]. intros [H|H]; auto.
  Qed.

  Lemma adel_nodup k l : NoDup (map fst l) -> NoDup (map fst (adel k l)).
  Proof.
    induction l as [|[k' v'] l IH]; intro ND; cbn [adel]; [exact ND|].
    cbn [map fst] in ND. inversion ND; subst.
    destruct (name_eqb k k'); [assumption|]. cbn [map fst]. constructor; [|auto].
    intro H. apply adel_keys_incl in H. contradiction.
  Qed.

  Lemma adel_keys k l x : NoDup (map fst l) ->
    In x (map fst (adel k l)) <-> (In x (map fst l) /\ x <> k).
  Proof.
    intro ND. rewrite <- !amem_true. unfold amem.
    rewrite alookup_adel by exact ND. destruct (name_eqb x k) eqn:E.
    - apply name_eqb_eq in E. split; [discriminate|intros [_ H]; contradiction].
    - apply name_eqb_neq in E. tauto.
  Qed.
End AssocP.
