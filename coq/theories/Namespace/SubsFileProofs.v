(* Namespace/SubsFileProofs.v — the subscriptions file carries every list of
   names that contain neither CR nor LF (nor a lone surrogate) exactly; every
   other code point is data.  Hence the list x_subs of Namespace/MdModel.v is
   what the real file holds at every step of every program. *)
From PV Require Import Base.Prelude MaildirFS.UidList MaildirFS.UidListProofs
     Namespace.Glob Namespace.NsBase Namespace.NsBaseProofs Namespace.ListTree Namespace.NsModel
     Namespace.MdModel Namespace.SubsFile.
Require Import Lia ZifyBool.
Local Open Scope N_scope.

(* ------------------------------------------------------------------ UTF-8 *)
Ltac dm x d q r :=
  let E := fresh "E" in let L := fresh "L" in
  pose proof (N.div_mod' x d) as E; pose proof (N.mod_lt x d ltac:(discriminate)) as L;
  set (q := x / d) in *; set (r := x mod d) in *; clearbody q r.

Ltac ltb_l := match goal with |- context [?a <? ?b] => destruct (N.ltb_spec a b); [|lia] end.
Ltac ltb_r := match goal with |- context [?a <? ?b] => destruct (N.ltb_spec a b); [lia|] end.
Ltac leb_l := match goal with |- context [?a <=? ?b] => destruct (N.leb_spec a b); [|lia] end.

Lemma scalar_cases c : is_scalar c = true -> (c < 55296 \/ 57343 < c) /\ c < 1114112.
Proof.
  unfold is_scalar. intro H.
  destruct (N.ltb_spec c 55296); [lia|]. destruct (N.ltb_spec 57343 c); [|discriminate H].
  destruct (N.ltb_spec c 1114112); [lia|discriminate H].
Qed.

Lemma dec_enc1 c rest : is_scalar c = true ->
  utf8_decode (utf8_enc1 c ++ rest) = option_map (cons c) (utf8_decode rest).
Proof.
  intro H. apply scalar_cases in H. unfold utf8_enc1.
  destruct (N.ltb_spec c 128) as [L1|L1].
  { cbn [app utf8_decode]. destruct (N.ltb_spec c 128); [reflexivity|lia]. }
  destruct (N.ltb_spec c 2048) as [L2|L2].
  { dm c 64 q r. cbn [app utf8_decode]. unfold cont.
    ltb_r. ltb_r. ltb_l. leb_l. leb_l.
    cbn [andb]. f_equal. f_equal. lia. }
  destruct (N.ltb_spec c 65536) as [L3|L3].
  { replace (c / 4096) with (c / 64 / 64) by (rewrite N.div_div by discriminate; reflexivity).
    dm c 64 q r. dm q 64 q2 r2. cbn [app utf8_decode]. unfold cont.
    ltb_r. ltb_r. ltb_r. ltb_l. leb_l. leb_l. leb_l. leb_l.
    cbn [andb].
    replace ((224 + q2 - 224) * 4096 + (128 + r2 - 128) * 64 + (128 + r - 128)) with c by lia.
    destruct (N.ltb_spec c 2048); [lia|]. cbn [orb].
    destruct (N.leb_spec 55296 c); destruct (N.leb_spec c 57343); cbn [andb]; try reflexivity.
    lia. }
  replace (c / 262144) with (c / 64 / 64 / 64) by (rewrite !N.div_div by discriminate; reflexivity).
  replace (c / 4096) with (c / 64 / 64) by (rewrite N.div_div by discriminate; reflexivity).
  dm c 64 q r. dm q 64 q2 r2. dm q2 64 q3 r3. cbn [app utf8_decode]. unfold cont.
  ltb_r. ltb_r. ltb_r. ltb_r. ltb_l. leb_l. leb_l. leb_l. leb_l. leb_l. leb_l.
  cbn [andb].
  replace ((240 + q3 - 240) * 262144 + (128 + r3 - 128) * 4096 + (128 + r2 - 128) * 64 + (128 + r - 128))
    with c by lia.
  destruct (N.ltb_spec c 65536); [lia|]. destruct (N.ltb_spec 1114111 c); [lia|].
  reflexivity.
Qed.

(* decoding inverts encoding on every Python string without lone surrogates *)
Theorem utf8_roundtrip s b : utf8_encode s = Some b -> utf8_decode b = Some s.
Proof.
  unfold utf8_encode. destruct (forallb is_scalar s) eqn:H; [|discriminate].
  intro E. injection E as <-. induction s as [|c s IH]; [reflexivity|].
  cbn [forallb] in H. apply andb_true_iff in H as [Hc Hs].
  cbn [flat_map]. rewrite (dec_enc1 c _ Hc), (IH Hs). reflexivity.
Qed.

Lemma utf8_encode_total s : forallb is_scalar s = true -> exists b, utf8_encode s = Some b.
Proof. intro H. unfold utf8_encode. rewrite H. eauto. Qed.

(* --------------------------------------------------------------- the text *)
Lemma rstrip_nl_line l : no_crlf l -> rstrip_nl (l ++ [10]) = l.
Proof.
  induction l as [|c l IH]; intro H; [reflexivity|].
  cbn [app]. unfold rstrip_nl in *. cbn [fold_right].
  rewrite IH by (intros d Hd; apply H; right; exact Hd).
  destruct l; [|reflexivity].
  destruct (H c (or_introl eq_refl)) as [H13 H10].
  destruct (N.eqb_spec c 13); [contradiction|]. destruct (N.eqb_spec c 10); [contradiction|].
  reflexivity.
Qed.

Theorem text_roundtrip names :
  (forall n, In n names -> no_crlf n) -> parse_subs (print_subs names) = dedup names.
Proof.
  intro H. unfold parse_subs, print_subs, lines, dedup.
  rewrite (lines_unl_flat (fun n => n)) by exact H.
  generalize (@nil bytes) as acc. induction names as [|n ns IH]; intro acc; [reflexivity|].
  cbn [map fold_left]. rewrite rstrip_nl_line by (apply H; left; reflexivity).
  apply IH. intros m Hm. apply H. right. exact Hm.
Qed.

Lemma bytes_eqb_false_neq (a b : bytes) : a <> b -> bytes_eqb a b = false.
Proof. intro N0. destruct (bytes_eqb a b) eqn:E; [|reflexivity]. apply bytes_eqb_eq in E. contradiction. Qed.

Lemma add_name_notin n l : ~ In n l -> add_name n l = l ++ [n].
Proof.
  induction l as [|x l IH]; intro H; [reflexivity|].
  cbn [add_name app]. rewrite bytes_eqb_false_neq by (intro E; apply H; left; exact E).
  rewrite IH by (intro I; apply H; right; exact I). reflexivity.
Qed.

Lemma add_name_in n l : In n l -> add_name n l = l.
Proof.
  induction l as [|x l IH]; intro H; [destruct H|].
  cbn [add_name]. destruct (bytes_eqb x n) eqn:E; [reflexivity|].
  destruct H as [H|H]; [subst; rewrite (proj2 (bytes_eqb_eq n n) eq_refl) in E; discriminate|].
  rewrite (IH H). reflexivity.
Qed.

(* a dict built from distinct keys lists them in order *)
Lemma dedup_nodup names : NoDup names -> dedup names = names.
Proof.
  unfold dedup. intro H.
  assert (G : forall acc, NoDup (acc ++ names) ->
              fold_left (fun a n => add_name n a) names acc = acc ++ names).
  { clear H. induction names as [|n ns IH]; intros acc Hn; [rewrite app_nil_r; reflexivity|].
    cbn [fold_left]. rewrite add_name_notin.
    - rewrite IH; rewrite <- app_assoc; [reflexivity|exact Hn].
    - apply NoDup_remove_2 in Hn. intro I. apply Hn. apply in_or_app. left. exact I. }
  exact (G [] H).
Qed.

(* dedup has the members of the list, each once *)
Lemma add_name_members n l x : In x (add_name n l) <-> x = n \/ In x l.
Proof.
  induction l as [|y l IH]; cbn [add_name In]; [intuition|].
  destruct (bytes_eqb y n) eqn:E.
  - apply bytes_eqb_eq in E. subst. cbn [In]. intuition.
  - cbn [In]. rewrite IH. intuition.
Qed.

Lemma dedup_members names x : In x (dedup names) <-> In x names.
Proof.
  unfold dedup.
  assert (G : forall acc, In x (fold_left (fun a n => add_name n a) names acc) <-> In x acc \/ In x names).
  { induction names as [|n ns IH]; intro acc; cbn [fold_left In]; [intuition|].
    rewrite IH, add_name_members. intuition. }
  rewrite G. cbn [In]. intuition.
Qed.

(* ------------------------------------------------------------------- file *)
Lemma line_safe_spec n : line_safe n = true -> no_crlf n /\ forallb is_scalar n = true.
Proof.
  unfold line_safe. intro H. split.
  - intros c Hc. rewrite forallb_forall in H. specialize (H c Hc).
    apply andb_true_iff in H as [H _]. apply andb_true_iff in H as [H10 H13].
    destruct (N.eqb_spec c 10); [discriminate|]. destruct (N.eqb_spec c 13); [discriminate|]. auto.
  - apply forallb_forall. intros c Hc. rewrite forallb_forall in H. specialize (H c Hc).
    apply andb_true_iff in H as [_ H]. exact H.
Qed.

Lemma print_subs_scalar names :
  (forall n, In n names -> forallb is_scalar n = true) -> forallb is_scalar (print_subs names) = true.
Proof.
  intro H. unfold print_subs. induction names as [|n ns IH]; [reflexivity|].
  cbn [flat_map]. rewrite !forallb_app. rewrite (H n (or_introl eq_refl)).
  rewrite IH by (intros m Hm; apply H; right; exact Hm). reflexivity.
Qed.

(* THE assumption of MdModel: what is written is read back, whatever code
   points other than CR / LF the names hold *)
Theorem file_roundtrip names : forallb line_safe names = true ->
  exists b, write_file names = Some b /\ read_file b = Some (dedup names).
Proof.
  intro H. rewrite forallb_forall in H.
  destruct (utf8_encode_total (print_subs names)) as [b Hb].
  { apply print_subs_scalar. intros n Hn. apply (line_safe_spec n (H n Hn)). }
  exists b. split; [exact Hb|]. unfold read_file. rewrite (utf8_roundtrip _ _ Hb).
  cbn [option_map]. rewrite text_roundtrip; [reflexivity|].
  intros n Hn. apply (line_safe_spec n (H n Hn)).
Qed.

Corollary file_roundtrip_nodup names : forallb line_safe names = true -> NoDup names ->
  exists b, write_file names = Some b /\ read_file b = Some names.
Proof.
  intros H Hn. destruct (file_roundtrip names H) as [b [Hw Hr]].
  exists b. rewrite Hr, (dedup_nodup names Hn). auto.
Qed.

(* the str.splitlines() separators that are not CR / LF stay inside the name *)
Theorem splitlines_chars_are_data a c z : In c splitlines_extra ->
  line_safe a = true -> line_safe z = true ->
  exists b, write_file [a ++ c :: z] = Some b /\ read_file b = Some [a ++ c :: z].
Proof.
  intros Hc Ha Hz. apply file_roundtrip_nodup.
  - cbn [forallb]. rewrite andb_true_r. unfold line_safe in *. rewrite forallb_app. rewrite Ha.
    cbn [forallb]. rewrite Hz, andb_true_r.
    cbn [splitlines_extra In] in Hc.
    repeat (destruct Hc as [<-|Hc]; [reflexivity|]). destruct Hc.
  - constructor; [intros []|constructor].
Qed.

Example ls_name_roundtrip :     (* 'Notes Old' and 'Memo\x852024' *)
  let names := [[78;111;116;101;115;8232;79;108;100]; [77;101;109;111;133;50;48;50;52]] in
  option_map read_file (write_file names) = Some (Some names).
Proof. vm_compute. reflexivity. Qed.

(* CR and LF are the format's structure: such a name does not survive *)
Example lf_name_refuted :
  option_map read_file (write_file [[97; 10; 98]]) = Some (Some [[97]; [98]]).
Proof. vm_compute. reflexivity. Qed.

(* ---------------------------------------- MdModel.mstep and the list x_subs *)
Definition subs_step (lay : layout) (s s' : list name) : Prop :=
  s' = s
  \/ (exists n, lsplit lay n <> None /\ s' = if mem_name n s then s else s ++ [n])
  \/ (exists n, s' = filter (fun k => negb (name_eqb k n)) s).

Ltac dmatch :=
  match goal with
  | |- context [match ?x with _ => _ end] =>
    lazymatch x with
    | context [match _ with _ => _ end] => fail
    | _ => destruct x eqn:?
    end
  end.

Lemma mstep_subs uid0 lay st o : subs_step lay (x_subs st) (x_subs (fst (mstep uid0 lay st o))).
Proof.
  unfold subs_step. destruct o; cbn [mstep].
  all: repeat dmatch; cbn [fst x_subs x_with x_append]; try (left; reflexivity).
  all: try (unfold x_append; repeat dmatch; cbn [x_subs x_with]; left; reflexivity).
  - right; left. exists (norm n). split; [congruence|].
    match goal with H : mem_name _ _ = false |- _ => rewrite H end. reflexivity.
  - right; right. exists (norm n). reflexivity.
Qed.

(* -------------------------------------------- the link to Namespace/MdModel *)
(* what the subscription list of the model is at every step: distinct names
   that the layout's name guard accepts *)
Definition subs_ok (lay : layout) (s : list name) : Prop :=
  NoDup s /\ forall n, In n s -> lsplit lay n <> None.

(* a Python str: code points up to U+10FFFF *)
Definition pystr (n : name) : Prop := forall c, In c n -> c < 1114112.

Lemma mem_name_iff n l : mem_name n l = true <-> In n l.
Proof.
  unfold mem_name. rewrite existsb_exists. split.
  - intros [x [Hx E]]. apply name_eqb_eq in E. subst. exact Hx.
  - intro H. exists n. split; [exact H|apply name_eqb_refl].
Qed.

Lemma subs_step_ok lay s s' : subs_ok lay s -> subs_step lay s s' -> subs_ok lay s'.
Proof.
  intros [Hn Hv] [->|[[n [Hl ->]]|[n ->]]].
  - split; assumption.
  - destruct (mem_name n s) eqn:E; [split; assumption|]. split.
    + apply NoDup_snoc; [exact Hn|]. intro I. apply mem_name_iff in I. congruence.
    + intros m Hm. apply in_app_or in Hm as [Hm|[<-|[]]]; [apply Hv; exact Hm|exact Hl].
  - split.
    + apply NoDup_filter. exact Hn.
    + intros m Hm. apply filter_In in Hm as [Hm _]. apply Hv. exact Hm.
Qed.

Theorem md_subs_ok_run uid0 lay prog : forall st,
  subs_ok lay (x_subs st) -> subs_ok lay (x_subs (mrun uid0 lay st prog)).
Proof.
  unfold mrun. induction prog as [|o prog IH]; intros st H; [exact H|].
  cbn [fold_left]. apply IH. exact (subs_step_ok _ _ _ H (mstep_subs uid0 lay st o)).
Qed.

Lemma in_split c s : In c s -> c = DELIM \/ exists p, In p (split s) /\ In c p.
Proof.
  induction s as [|d s IH]; intro H; [destruct H|].
  cbn [split]. destruct (N.eqb_spec d DELIM) as [E|E].
  - destruct H as [<-|H]; [left; exact E|].
    destruct (IH H) as [->|[p [Hp Hc]]]; [left; reflexivity|].
    right. exists p. split; [right; exact Hp|exact Hc].
  - destruct H as [<-|H].
    + right. destruct (split s) as [|p ps]; [exists [d]|exists (d :: p)]; split; left; reflexivity.
    + destruct (IH H) as [->|[p [Hp Hc]]]; [left; reflexivity|]. right.
      destruct (split s) as [|q qs]; [destruct Hp|].
      destruct Hp as [<-|Hp]; [exists (d :: q); split; [left; reflexivity|right; exact Hc]|].
      exists p. split; [right; exact Hp|exact Hc].
Qed.

Lemma existsb_false_In {A} (f : A -> bool) l x : existsb f l = false -> In x l -> f x = false.
Proof.
  intros H Hx. destruct (f x) eqn:E; [|reflexivity].
  assert (existsb f l = true) by (apply existsb_exists; exists x; auto). congruence.
Qed.

Lemma valid_part_chars lay p c : valid_part lay p = true -> In c p ->
  32 <= c /\ (c < 55296 \/ 57343 < c).
Proof.
  intros H Hc.
  assert (B : valid_part_base p = true).
  { destruct lay; cbn [valid_part] in H; apply andb_true_iff in H as [_ H]; exact H. }
  unfold valid_part_base in B. apply andb_true_iff in B as [_ B].
  apply negb_true_iff in B. pose proof (existsb_false_In _ _ _ B Hc) as F. cbn beta in F.
  destruct (N.ltb_spec c 32); [discriminate F|].
  destruct (N.eqb_spec c 127); [discriminate F|]. cbn [orb] in F.
  destruct (N.leb_spec 55296 c); destruct (N.leb_spec c 57343); cbn [andb] in F;
    try discriminate F; lia.
Qed.

(* the name guard of the maildir layouts refuses everything the file format
   cannot carry *)
Lemma lsplit_line_safe lay n : lsplit lay n <> None -> pystr n -> line_safe n = true.
Proof.
  unfold lsplit. intros H P. destruct (name_eqb n INBOX) eqn:E.
  { apply name_eqb_eq in E. subst. reflexivity. }
  destruct (forallb (valid_part lay) (split n)) eqn:V; [|contradiction].
  unfold line_safe. apply forallb_forall. intros c Hc.
  assert (G : 32 <= c /\ (c < 55296 \/ 57343 < c)).
  { destruct (in_split c n Hc) as [->|[p [Hp Hcp]]]; [unfold DELIM; lia|].
    rewrite forallb_forall in V. exact (valid_part_chars lay p c (V p Hp) Hcp). }
  specialize (P c Hc). unfold is_scalar.
  destruct (N.eqb_spec c 10); [lia|]. destruct (N.eqb_spec c 13); [lia|]. cbn [negb andb].
  destruct (N.ltb_spec c 55296); [reflexivity|]. cbn [orb].
  destruct (N.ltb_spec 57343 c); [|lia]. destruct (N.ltb_spec c 1114112); [reflexivity|lia].
Qed.

(* MdModel keeps the subscriptions as a list and never mentions the file:
   along every program that list is exactly what Subscriptions.read gets back
   from what Subscriptions.write wrote — for U+2028, U+0085, U+00A0 and every
   other code point that the name guard lets through alike *)
Theorem md_subs_file_faithful uid0 lay prog st :
  subs_ok lay (x_subs st) ->
  let st' := mrun uid0 lay st prog in
  (forall n, In n (x_subs st') -> pystr n) ->
  exists b, write_file (x_subs st') = Some b /\ read_file b = Some (x_subs st').
Proof.
  intros H st' P. destruct (md_subs_ok_run uid0 lay prog st H) as [Hn Hv]. fold st' in Hn, Hv.
  apply file_roundtrip_nodup; [|exact Hn].
  apply forallb_forall. intros n I. apply (lsplit_line_safe lay); [apply Hv|apply P]; exact I.
Qed.

Example subs_ok_empty lay : subs_ok lay [].
Proof. split; [constructor|intros n []]. Qed.
