(* Namespace/NsProofs.v — the dict-backend namespace model against the
   RFC 3501 reading of CREATE/DELETE/RENAME/SUBSCRIBE/LIST/LSUB/STATUS. *)
From PV Require Import Base.Prelude Namespace.Glob Namespace.GlobProofs Namespace.NsBase
     Namespace.NsBaseProofs Namespace.ListTree Namespace.ListTreeProofs Namespace.NsModel.
Require Import Lia.

(* ------------------------------------------------------------ LIST *)
(* RFC 3501 6.3.8 on one name: INBOX is matched case-insensitively *)
Definition entry_matches (q n : name) : bool :=
  if name_eqb n INBOX then rfc_match_ci q INBOX else rfc_match q n.

Lemma tmatching_filter t q e :
  In e (tmatching t q) <-> In e (tlist t) /\ entry_matches q (e_name e) = true.
Proof.
  unfold tmatching, entry_matches. rewrite filter_In.
  destruct (name_eqb (e_name e) INBOX); [rewrite glob_correct_ci|rewrite glob_correct_cs]; reflexivity.
Qed.

Lemma NoDup_map_filter {A B} (f : A -> B) (p : A -> bool) l :
  NoDup (map f l) -> NoDup (map f (filter p l)).
Proof.
  induction l as [|x l IH]; cbn [map filter]; intro ND; [constructor|].
  inversion ND as [|y ys Hn ND']; subst. destruct (p x); cbn [map]; [|auto].
  constructor; [|auto]. intro H. apply Hn. apply in_map_iff in H as (z & Ez & Hz).
  apply filter_In in Hz as [Hz _]. apply in_map_iff. eauto.
Qed.

Theorem list_exact_names names q :
  let l := tmatching (tupdate names) q in
  (forall e, In e l ->
     in_closure names (e_name e) /\ entry_matches q (e_name e) = true
     /\ (e_exists e = true <-> In (e_name e) names)
     /\ (e_children e = true <-> exists m, in_closure names m /\ inferior (e_name e) m))
  /\ (forall p, in_closure names p -> entry_matches q p = true -> exists e, In e l /\ e_name e = p)
  /\ NoDup (map e_name l).
Proof.
  intro l. destruct (tlist_spec names) as (S1 & S2 & S3). split; [|split].
  - intros e He. apply tmatching_filter in He as [He Hm]. destruct (S1 e He) as (A & B & C). auto.
  - intros p Hp Hm. destruct (S2 p Hp) as (e & He & <-). exists e. split; [|reflexivity].
    apply tmatching_filter. auto.
  - unfold l, tmatching. now apply NoDup_map_filter.
Qed.

(* ------------------------------------------------------------ invariant *)
Definition dnames (st : dstate) : list name := INBOX :: map fst (d_set st).
Definition subscribed (st : dstate) : list name :=
  map fst (filter (fun kv : name * bool => snd kv) (d_subs st)).

Record dinv (st : dstate) : Prop := {
  inv_nodup : NoDup (map fst (d_set st));
  inv_noinbox : ~ In INBOX (map fst (d_set st));
  inv_subs : NoDup (map fst (d_subs st));
  inv_ids : (m_id (d_inbox st) < d_next st)%N
            /\ forall k m, alookup k (d_set st) = Some m -> (m_id m < d_next st)%N
}.

Lemma norm_inbox n : is_inbox_anycase n = true -> norm n = INBOX.
Proof. unfold norm. now intros ->. Qed.

Lemma inbox_anycase_INBOX : is_inbox_anycase INBOX = true.
Proof. reflexivity. Qed.

Lemma norm_anycase n : is_inbox_anycase (norm n) = name_eqb (norm n) INBOX.
Proof.
  unfold norm. destruct (is_inbox_anycase n) eqn:E; [reflexivity|].
  rewrite E. symmetry. apply name_eqb_neq. intros ->. now rewrite inbox_anycase_INBOX in E.
Qed.

Lemma first_part_INBOX : first_part INBOX = INBOX.
Proof. reflexivity. Qed.

Lemma new_name_inl strip n n1 : new_name strip n = inl n1 ->
  n1 <> INBOX /\ n1 = (if strip then strip1 n else n).
Proof.
  unfold new_name. set (m := if strip then strip1 n else n).
  destruct (is_inbox_anycase (first_part m)) eqn:Ea.
  - destruct (name_eqb m (first_part m)) eqn:Em; [discriminate|].
    destruct (name_eqb (first_part m) INBOX) eqn:Ef; [|discriminate].
    intros [= <-]. split; [|reflexivity]. apply name_eqb_eq in Ef. apply name_eqb_neq in Em. congruence.
  - intros [= <-]. split; [|reflexivity]. intros E. rewrite E, first_part_INBOX in Ea. discriminate.
Qed.

Lemma create_name_inl n0 n : create_name n0 = inl n -> n <> INBOX.
Proof.
  unfold create_name. destruct (name_eqb (norm n0) INBOX); [discriminate|].
  intro H. now apply new_name_inl in H.
Qed.

Lemma rename_dest_inl b0 b : rename_dest b0 = inl b -> b <> INBOX /\ b = norm b0.
Proof.
  unfold rename_dest. destruct (name_eqb (norm b0) INBOX); [discriminate|].
  intro H. apply new_name_inl in H. exact H.
Qed.

Lemma create_name_inbox n0 : norm n0 = INBOX -> create_name n0 = inr 0%N.
Proof. unfold create_name. intros ->. now rewrite name_eqb_refl. Qed.
Lemma rename_dest_inbox n0 : norm n0 = INBOX -> rename_dest n0 = inr 0%N.
Proof. unfold rename_dest. intros ->. now rewrite name_eqb_refl. Qed.

(* lookup of a mailbox by its (normalised) name *)
Lemma d_get_norm st n :
  d_get st (norm n) = if name_eqb (norm n) INBOX then Some (d_inbox st) else alookup (norm n) (d_set st).
Proof. unfold d_get. now rewrite norm_anycase. Qed.

(* ------------------------------------------------------------ the rename loop *)
Definition moved_from (mv : list (name * name)) (m : name) : option name :=
  match find (fun p : name * name => name_eqb m (snd p)) mv with
  | Some p => Some (fst p) | None => None end.

Lemma mem_name_In n l : mem_name n l = true <-> In n l.
Proof.
  unfold mem_name. rewrite existsb_exists. split.
  - intros (x & Hx & E). apply name_eqb_eq in E. now subst.
  - intro H. exists n. split; [exact H|apply name_eqb_refl].
Qed.

Lemma moved_from_None mv m : moved_from mv m = None <-> ~ In m (map snd mv).
Proof.
  unfold moved_from. induction mv as [|[k y] mv IH]; cbn [find map snd In].
  - split; [intros _ []|reflexivity].
  - destruct (name_eqb m y) eqn:E.
    + apply name_eqb_eq in E. subst. split; [discriminate|intro H; exfalso; apply H; now left].
    + apply name_eqb_neq in E. rewrite IH. split; [intros H [H1|H1]; [congruence|contradiction]|tauto].
Qed.

Lemma moved_from_Some mv m k : moved_from mv m = Some k -> In (k, m) mv.
Proof.
  unfold moved_from. induction mv as [|[k' y] mv IH]; cbn [find snd]; [discriminate|].
  destruct (name_eqb m y) eqn:E.
  - apply name_eqb_eq in E. subst. cbn [fst]. intros [= <-]. now left.
  - intro H. right. now apply IH.
Qed.

Lemma d_moves_spec mv : forall s,
  NoDup (map fst s) -> NoDup (map fst mv) -> NoDup (map snd mv) ->
  (forall k, In k (map fst mv) -> In k (map fst s)) ->
  (forall y, In y (map snd mv) -> ~ In y (map fst s) /\ ~ In y (map fst mv)) ->
  exists s', d_moves mv s = Some s' /\ NoDup (map fst s') /\
    forall m, alookup m s' =
              match moved_from mv m with
              | Some k => alookup k s
              | None => if mem_name m (map fst mv) then None else alookup m s
              end.
Proof.
  induction mv as [|[k y] mv IH]; intros s NDs NDk NDy Hsrc Hdst.
  - exists s. split; [reflexivity|]. split; [exact NDs|]. intro m. reflexivity.
  - cbn [map fst snd] in *. inversion NDk as [|? ? Hk NDk']; subst. inversion NDy as [|? ? Hy NDy']; subst.
    assert (Hks : In k (map fst s)) by (apply Hsrc; now left).
    destruct (alookup k s) as [v|] eqn:Ek; [|apply alookup_None_notin in Ek; contradiction].
    destruct (Hdst y (or_introl eq_refl)) as [Hys Hyk].
    assert (Hyk' : y <> k) by (intros ->; apply Hyk; now left).
    set (s1 := adel k (aset y v s)).
    assert (ND1 : NoDup (map fst s1)) by (apply adel_nodup, aset_nodup, NDs).
    assert (L1 : forall m, alookup m s1 = if name_eqb m k then None
                                          else if name_eqb m y then Some v else alookup m s).
    { intro m. unfold s1. rewrite alookup_adel by (apply aset_nodup, NDs). now rewrite alookup_aset. }
    assert (K1 : forall x, In x (map fst s1) <-> (x <> k /\ (x = y \/ In x (map fst s)))).
    { intro x. rewrite <- !amem_true. unfold amem. rewrite L1.
      destruct (name_eqb x k) eqn:E1; [apply name_eqb_eq in E1|apply name_eqb_neq in E1].
      - split; [discriminate|intros [H _]; contradiction].
      - destruct (name_eqb x y) eqn:E2; [apply name_eqb_eq in E2|apply name_eqb_neq in E2].
        + split; [intros _; auto|reflexivity].
        + split; [intro H; split; [exact E1|right; exact H]|intros [_ [H|H]]; [contradiction|exact H]]. }
    destruct (IH s1 ND1 NDk' NDy') as (s' & Es & NDs' & Ls).
    + intros k' Hk'. apply K1. split; [intros ->; contradiction|right; apply Hsrc; now right].
    + intros y' Hy'. destruct (Hdst y' (or_intror Hy')) as [A B]. split.
      * rewrite K1. intros [_ [->|H]]; [contradiction|contradiction].
      * intro H. apply B. now right.
    + exists s'. split; [cbn [d_moves]; rewrite Ek; exact Es|]. split; [exact NDs'|].
      intro m. rewrite Ls. unfold moved_from at 2. cbn [find snd fst].
      destruct (name_eqb m y) eqn:Emy.
      * apply name_eqb_eq in Emy. subst m.
        assert (moved_from mv y = None) by (now apply moved_from_None). rewrite H.
        assert (mem_name y (map fst mv) = false).
        { destruct (mem_name y (map fst mv)) eqn:E; [|reflexivity]. apply mem_name_In in E.
          exfalso. apply Hyk. now right. }
        rewrite H0, L1. rewrite (proj2 (name_eqb_neq y k) Hyk'), name_eqb_refl. cbn [fst]. now rewrite Ek.
      * apply name_eqb_neq in Emy. fold (moved_from mv m).
        destruct (moved_from mv m) as [k'|] eqn:Emv.
        -- apply moved_from_Some in Emv.
           assert (Hk'in : In k' (map fst mv)) by (apply in_map_iff; exists (k', m); auto).
           rewrite L1.
           assert (k' <> k) by (intros ->; contradiction).
           assert (k' <> y) by (intros ->; apply Hyk; now right).
           now rewrite (proj2 (name_eqb_neq _ _) H), (proj2 (name_eqb_neq _ _) H0).
        -- cbn [mem_name existsb]. fold (mem_name m (map fst mv)).
           destruct (mem_name m (map fst mv)) eqn:Emem.
           ++ now rewrite orb_true_r.
           ++ rewrite orb_false_r, L1. destruct (name_eqb m k); [reflexivity|].
              now rewrite (proj2 (name_eqb_neq _ _) Emy).
Qed.

(* ------------------------------------------------------------ sfx lemmas *)
Lemma split_sfx x rest : Forall nodelim rest -> split (x ++ sfx rest) = split x ++ rest.
Proof.
  revert x; induction rest as [|p r IH]; intros x HF; cbn [sfx].
  - now rewrite !app_nil_r.
  - inversion HF as [|? ? Hp HF']; subst. rewrite split_app_delim, IH by exact HF'.
    now rewrite (split_nodelim_single p) by exact Hp.
Qed.

Lemma sfx_split r : sfx (split r) = DELIM :: r.
Proof.
  pose proof (join_sfx [[]] (split r)) as H. cbn [join app] in H.
  rewrite H by discriminate. pose proof (split_nonempty r) as Hn.
  destruct (split r) eqn:E; [congruence|]. rewrite <- E. now rewrite join_split.
Qed.

Lemma sfx_inj r1 r2 : Forall nodelim r1 -> Forall nodelim r2 -> sfx r1 = sfx r2 -> r1 = r2.
Proof.
  intros H1 H2 E. assert (E' : split ([] ++ sfx r1) = split ([] ++ sfx r2)) by (now rewrite E).
  rewrite !split_sfx in E' by assumption. now apply app_inv_head in E'.
Qed.

Lemma bprefix_sfx a m : bprefix a m <-> exists rest, Forall nodelim rest /\ m = a ++ sfx rest.
Proof.
  split.
  - intros [->|(r & ->)].
    + exists []. split; [constructor|now rewrite app_nil_r].
    + exists (split r). split; [apply split_nodelim|now rewrite sfx_split].
  - intros ([|p r] & HF & ->).
    + left. now rewrite app_nil_r.
    + right. exists (p ++ sfx r). reflexivity.
Qed.

Lemma NoDup_map_inj_in {A B} (f : A -> B) l :
  NoDup l -> (forall x y, In x l -> In y l -> f x = f y -> x = y) -> NoDup (map f l).
Proof.
  induction l as [|x l IH]; intros ND Hinj; cbn [map]; [constructor|].
  inversion ND as [|? ? Hn ND']; subst. constructor.
  - intro H. apply in_map_iff in H as (y & Ey & Hy). apply Hn.
    rewrite (Hinj x y); [exact Hy|now left|now right|now symmetry].
  - apply IH; [exact ND'|]. intros a b Ha Hb. apply Hinj; now right.
Qed.

Lemma trenames_as_map (tt : tree) (a b : name) :
  trenames tt a b =
  match tfind (split a) tt with
  | None => []
  | Some _ => map (fun qe : path * bool =>
                     match drop_prefix (split a) (fst qe) with
                     | Some rest => (a ++ sfx rest, b ++ sfx rest)
                     | None => ([], [])
                     end)
                  (filter (fun qe : path * bool =>
                             match drop_prefix (split a) (fst qe) with
                             | Some _ => snd qe | None => false end) tt)
  end.
Proof.
  unfold trenames. destruct (tfind (split a) tt); [|reflexivity].
  induction tt as [|[q ex] l IH]; cbn [flat_map map filter fst snd]; [reflexivity|].
  destruct (drop_prefix (split a) q) eqn:E.
  - destruct ex; cbn [app map fst]; rewrite ?E, IH; reflexivity.
  - cbn [app]. exact IH.
Qed.

(* ------------------------------------------------------------ get_renames *)
Section Renames.
  Variable keys0 : list name.
  Variables a b : name.
  Let names := INBOX :: keys0.
  Let t := tupdate names.
  Hypothesis Ha : a <> INBOX.
  Hypothesis Hb : tget t b = None.

  Let mv := trenames t a b.

  Lemma b_not_closure : ~ in_closure names b.
  Proof. intro H. apply tget_spec in H. fold t in H. congruence. Qed.

  Lemma mv_In k y : tfind (split a) t <> None ->
    (In (k, y) mv <-> exists rest, Forall nodelim rest /\ k = a ++ sfx rest /\ y = b ++ sfx rest /\ In k keys0).
  Proof.
    intro Hfa. pose proof (tupdate_ok names) as Hok. fold t in Hok.
    unfold mv, trenames. destruct (tfind (split a) t) eqn:Efa; [clear Hfa|congruence].
    rewrite in_flat_map. split.
    - intros ([q ex] & Hin & Hf). cbn [fst snd] in Hf.
      destruct (drop_prefix (split a) q) as [rest|] eqn:Ed; [|contradiction].
      destruct ex; [|contradiction]. destruct Hf as [[= <- <-]|[]].
      apply drop_prefix_spec in Ed. subst q.
      apply (tfind_In _ _ _ (ok_nodup _ _ Hok)) in Hin.
      destruct (proj1 (ok_exists _ _ Hok _ _ Hin) eq_refl) as (n & Hn & En).
      assert (HF : Forall nodelim rest).
      { pose proof (split_nodelim n) as H. rewrite <- En in H. apply Forall_app in H. tauto. }
      assert (Enn : n = a ++ sfx rest).
      { rewrite <- (join_split n), <- En, <- join_sfx by apply split_nonempty. now rewrite join_split. }
      exists rest. split; [exact HF|]. split; [reflexivity|]. split; [reflexivity|].
      rewrite <- Enn. destruct Hn as [<-|Hn]; [|exact Hn].
      (* n = INBOX would force a = INBOX *)
      exfalso. apply Ha. change (split INBOX) with [INBOX] in En.
      pose proof (split_nonempty a) as Hne. destruct (split a) as [|x [|y l]] eqn:Es; [congruence| |].
      + cbn [app] in En. injection En as <- _. rewrite <- (join_split a), Es. reflexivity.
      + cbn [app] in En. discriminate.
    - intros (rest & HF & -> & -> & Hk).
      assert (Hn : In (a ++ sfx rest) names) by (now right).
      destruct (ok_complete _ _ Hok _ (split (a ++ sfx rest)) Hn) as (e & E).
      { apply bprefix_split. now left. }
      assert (e = true).
      { apply (ok_exists _ _ Hok _ _ E). eauto. }
      subst e. exists (split (a ++ sfx rest), true). split.
      + now apply (tfind_In _ _ _ (ok_nodup _ _ Hok)).
      + cbn [fst snd]. rewrite split_sfx by exact HF.
        assert (Ed : drop_prefix (split a) (split a ++ rest) = Some rest) by (now apply drop_prefix_spec).
        rewrite Ed. now left.
  Qed.

  Lemma mv_nodup : NoDup (map fst mv) /\ NoDup (map snd mv).
  Proof.
    pose proof (tupdate_ok names) as Hok. fold t in Hok.
    unfold mv. rewrite trenames_as_map. destruct (tfind (split a) t); [|split; constructor].
    rewrite !map_map.
    assert (NDf : NoDup (filter (fun qe : path * bool =>
                                   match drop_prefix (split a) (fst qe) with
                                   | Some _ => snd qe | None => false end) t)).
    { apply NoDup_filter. eapply NoDup_map_inv. apply (ok_nodup _ _ Hok). }
    assert (Hel : forall x, In x (filter (fun qe : path * bool =>
                                   match drop_prefix (split a) (fst qe) with
                                   | Some _ => snd qe | None => false end) t) ->
                  exists rest, fst x = split a ++ rest /\ Forall nodelim rest /\ snd x = true
                               /\ drop_prefix (split a) (fst x) = Some rest).
    { intros [q ex] Hx. apply filter_In in Hx as [Hin Hp]. cbn [fst snd] in *.
      destruct (drop_prefix (split a) q) as [rest|] eqn:Ed; [|discriminate]. subst ex.
      exists rest. pose proof Ed as Ed'. apply drop_prefix_spec in Ed. subst q.
      split; [reflexivity|]. split; [|auto].
      apply (tfind_In _ _ _ (ok_nodup _ _ Hok)) in Hin.
      destruct (ok_sound _ _ Hok _ _ Hin) as (n & _ & Hp).
      pose proof (prefpath_nodelim _ _ (split_nodelim n) Hp) as H. apply Forall_app in H. tauto. }
    split; apply NoDup_map_inj_in; try exact NDf.
    - intros x y Hx Hy E. destruct (Hel x Hx) as (rx & Ex & Fx & Sx & Dx).
      destruct (Hel y Hy) as (ry & Ey & Fy & Sy & Dy). rewrite Dx, Dy in E. cbn [fst] in E.
      apply app_inv_head in E. apply sfx_inj in E; [|assumption..]. subst ry.
      destruct x, y. cbn [fst snd] in *. congruence.
    - intros x y Hx Hy E. destruct (Hel x Hx) as (rx & Ex & Fx & Sx & Dx).
      destruct (Hel y Hy) as (ry & Ey & Fy & Sy & Dy). rewrite Dx, Dy in E. cbn [snd] in E.
      apply app_inv_head in E. apply sfx_inj in E; [|assumption..]. subst ry.
      destruct x, y. cbn [fst snd] in *. congruence.
  Qed.

  (* a destination is never an existing key nor a source *)
  Lemma dest_fresh rest : Forall nodelim rest -> ~ In (b ++ sfx rest) keys0.
  Proof.
    intros HF Hin. apply b_not_closure. exists (b ++ sfx rest). split; [now right|].
    apply bprefix_sfx. eauto.
  Qed.
End Renames.

(* ------------------------------------------------------------ RENAME (dict) *)
Lemma snd_unique (mv : list (name * name)) k1 k2 y :
  NoDup (map snd mv) -> In (k1, y) mv -> In (k2, y) mv -> k1 = k2.
Proof.
  induction mv as [|[k y'] mv IH]; cbn [map snd In]; intros ND H1 H2; [contradiction|].
  inversion ND as [|? ? Hn ND']; subst.
  destruct H1 as [E1|H1]; destruct H2 as [E2|H2].
  - congruence.
  - exfalso. apply Hn. apply in_map_iff. exists (k2, y). split; [cbn [snd]; congruence|exact H2].
  - exfalso. apply Hn. apply in_map_iff. exists (k1, y). split; [cbn [snd]; congruence|exact H1].
  - eauto.
Qed.

Lemma inbox_not_dest b rest : b <> INBOX -> INBOX <> b ++ sfx rest \/ ~ Forall nodelim rest.
Proof.
  intro Hb. destruct (Forall_dec nodelim) with (l := rest) as [HF|HF].
  - intro x. unfold nodelim. destruct (in_dec N.eq_dec DELIM x); [right; tauto|left; exact n].
  - left. intro E. apply (f_equal split) in E. rewrite split_sfx in E by exact HF.
    change (split INBOX) with [INBOX] in E.
    pose proof (split_nonempty b) as Hne. destruct (split b) as [|x [|y l]] eqn:Es; [congruence| |].
    + cbn [app] in E. injection E as <- _. apply Hb. rewrite <- (join_split b), Es. reflexivity.
    + cbn [app] in E. discriminate.
  - now right.
Qed.

Section RenameDict.
  Variable uid0 : N.
  Variable st : dstate.
  Variables a b : name.
  Hypothesis Hinv : dinv st.
  Hypothesis Ha : a <> INBOX.
  Hypothesis Hb : b <> INBOX.
  Let t := d_tree st.
  Hypothesis Hta : tget t a <> None.
  Hypothesis Htb : tget t b = None.

  Let s := d_set st.
  Let mv := trenames t a b.

  Lemma rd_tfind : tfind (split a) (tupdate (INBOX :: map fst s)) <> None.
  Proof. unfold tget in Hta. fold t. unfold t, d_tree, keys in *. fold s in Hta. destruct (tfind (split a) _); congruence. Qed.

  Lemma rd_moves :
    exists s', d_moves mv s = Some s' /\ NoDup (map fst s') /\
      (forall rest, Forall nodelim rest -> alookup (b ++ sfx rest) s' = alookup (a ++ sfx rest) s)
      /\ (forall m, ~ bprefix a m -> ~ bprefix b m -> alookup m s' = alookup m s)
      /\ (forall m, bprefix a m -> ~ bprefix b m -> alookup m s' = None)
      /\ (forall m v, alookup m s' = Some v -> exists k, alookup k s = Some v).
  Proof.
    pose proof (mv_nodup (map fst s) a b) as [NDk NDy].
    pose proof rd_tfind as Hfa.
    assert (HIn : forall k y, In (k, y) mv <->
              exists rest, Forall nodelim rest /\ k = a ++ sfx rest /\ y = b ++ sfx rest /\ In k (map fst s)).
    { intros k y. apply (mv_In (map fst s) a b Ha k y Hfa). }
    change (trenames (tupdate (INBOX :: map fst s)) a b) with mv in NDk, NDy.
    change (map fst s) with (keys st) in *.
    destruct (d_moves_spec mv s (inv_nodup _ Hinv) NDk NDy) as (s' & Es & NDs' & Ls).
    - intros k Hk. apply in_map_iff in Hk as ([k' y] & <- & Hin). apply HIn in Hin as (rest & _ & -> & _ & Hk). exact Hk.
    - intros y Hy. apply in_map_iff in Hy as ([k y'] & <- & Hin). cbn [snd].
      apply HIn in Hin as (rest & HF & -> & -> & Hk). split.
      + now apply (dest_fresh (keys st) b Htb).
      + intro Hs. apply in_map_iff in Hs as ([k2 y2] & E2 & Hin2). cbn [fst] in E2. subst k2.
        apply HIn in Hin2 as (rest2 & HF2 & E & _ & Hk2).
        apply (dest_fresh (keys st) b Htb rest HF). exact Hk2.
    - assert (Hmf : forall m k, moved_from mv m = Some k ->
                      exists rest, Forall nodelim rest /\ k = a ++ sfx rest /\ m = b ++ sfx rest /\ In k (keys st)).
      { intros m k H. apply moved_from_Some in H. apply HIn in H as (rest & A & B & C & D). eauto 8. }
      assert (Hsrc : forall m, mem_name m (map fst mv) = true -> bprefix a m /\ In m (keys st)).
      { intros m H. apply mem_name_In in H. apply in_map_iff in H as ([k y] & <- & Hin).
        apply HIn in Hin as (rest & HF & -> & _ & Hk). split; [apply bprefix_sfx; eauto|exact Hk]. }
      exists s'. split; [exact Es|]. split; [exact NDs'|]. split; [|split; [|split]].
      + intros rest HF. rewrite Ls.
        destruct (in_dec name_eq_dec (a ++ sfx rest) (keys st)) as [Hk|Hk].
        * assert (Hin : In (a ++ sfx rest, b ++ sfx rest) mv) by (apply HIn; eauto 8).
          destruct (moved_from mv (b ++ sfx rest)) as [k|] eqn:Em.
          -- apply moved_from_Some in Em. now rewrite (snd_unique _ _ _ _ NDy Em Hin).
          -- apply moved_from_None in Em. exfalso. apply Em. apply in_map_iff. exists (a ++ sfx rest, b ++ sfx rest). auto.
        * assert (En : alookup (a ++ sfx rest) s = None) by (now apply alookup_None_notin).
          rewrite En. destruct (moved_from mv (b ++ sfx rest)) as [k|] eqn:Em.
          -- apply Hmf in Em as (r2 & HF2 & -> & E & Hk2). apply app_inv_head in E.
             apply sfx_inj in E; auto. subst r2. contradiction.
          -- destruct (mem_name (b ++ sfx rest) (map fst mv)) eqn:Emem; [reflexivity|].
             apply alookup_None_notin. now apply (dest_fresh (keys st) b Htb).
      + intros m Hna Hnb. rewrite Ls. destruct (moved_from mv m) as [k|] eqn:Em.
        * apply Hmf in Em as (r2 & HF2 & _ & -> & _). exfalso. apply Hnb. apply bprefix_sfx. eauto.
        * destruct (mem_name m (map fst mv)) eqn:Emem; [|reflexivity].
          apply Hsrc in Emem as [H _]. contradiction.
      + intros m Hpa Hnb. rewrite Ls. destruct (moved_from mv m) as [k|] eqn:Em.
        * apply Hmf in Em as (r2 & HF2 & _ & -> & _). exfalso. apply Hnb. apply bprefix_sfx. eauto.
        * destruct (mem_name m (map fst mv)) eqn:Emem; [reflexivity|].
          apply alookup_None_notin. intro Hk. apply bprefix_sfx in Hpa as (rest & HF & ->).
          assert (Hin : In (a ++ sfx rest, b ++ sfx rest) mv) by (apply HIn; eauto 8).
          assert (mem_name (a ++ sfx rest) (map fst mv) = true).
          { apply mem_name_In. apply in_map_iff. exists (a ++ sfx rest, b ++ sfx rest). auto. }
          congruence.
      + intros m v. rewrite Ls. destruct (moved_from mv m) as [k|]; [eauto|].
        destruct (mem_name m (map fst mv)); [discriminate|eauto].
  Qed.
End RenameDict.

Lemma aset_keys_incl' {V} k (v : V) f x : In x (map fst (aset k v f)) -> x = k \/ In x (map fst f).
Proof.
  rewrite aset_keys. destruct (amem k f); [now right|]. rewrite in_app_iff. intros [H|[H|[]]]; auto.
Qed.

Lemma bprefix_b p m : bprefix p m <-> is_prefix name_eqb (split p) (split m) = true.
Proof.
  rewrite bprefix_split, is_prefix_spec. split.
  - apply prefpath_inv.
  - intros (r & ->). apply prefpath_app, split_nonempty.
Qed.

Lemma classic_bprefix p m : bprefix p m \/ ~ bprefix p m.
Proof. rewrite bprefix_b. destruct (is_prefix name_eqb (split p) (split m)); [now left|right; discriminate]. Qed.

(* ------------------------------------------------------------ steps of the dict model *)
Section DictStep.
  Variable uid0 : N.
  Notation step := (dstep uid0).

  Theorem d_error_no_effect st o : o_cond (snd (step st o)) <> COk -> fst (step st o) = st.
  Proof.
    destruct o; cbn [dstep]; intro H;
      repeat match goal with
             | |- context [match create_name ?n with _ => _ end] => destruct (create_name n)
             | |- context [match rename_dest ?n with _ => _ end] => destruct (rename_dest n)
             | |- context [if ?c then _ else _] => destruct c
             | |- context [match tget ?t ?n with _ => _ end] => destruct (tget t n)
             | |- context [match d_moves ?m ?s with _ => _ end] => destruct (d_moves m s)
             | |- context [match d_get ?s ?n with _ => _ end] => destruct (d_get s n)
             | |- context [match ?p with [] => _ | _ :: _ => _ end] => destruct p
             end; cbn [fst snd o_cond out_no out_ok out_cond list_out] in *; try reflexivity; try congruence.
  Qed.

  Lemma tget_closure st n : tget (d_tree st) n <> None <-> in_closure (dnames st) n.
  Proof. apply tget_spec. Qed.

  (* RENAME of anything but INBOX: the mailbox and all its inferiors move,
     with their contents; nothing else changes *)
  Theorem d_rename_spec st a0 b0 :
    dinv st -> norm a0 <> INBOX ->
    o_cond (snd (step st (ORename a0 b0))) = COk ->
    let a := norm a0 in let b := norm b0 in
    let st' := fst (step st (ORename a0 b0)) in
    (forall rest, Forall nodelim rest ->
                  alookup (b ++ sfx rest) (d_set st') = alookup (a ++ sfx rest) (d_set st))
    /\ (forall m, ~ bprefix a m -> ~ bprefix b m -> alookup m (d_set st') = alookup m (d_set st))
    /\ (forall m, bprefix a m -> ~ bprefix b m -> alookup m (d_set st') = None)
    /\ d_inbox st' = d_inbox st /\ d_subs st' = d_subs st
    /\ in_closure (dnames st) a /\ ~ in_closure (dnames st) b /\ b <> INBOX.
  Proof.
    intros Hinv Ha. cbn [dstep]. cbv zeta.
    destruct (rename_dest b0) as [b'|k] eqn:Erd; [|cbn; discriminate].
    destruct (rename_dest_inl _ _ Erd) as [Eb ->].
    destruct (tget (d_tree st) (norm a0)) eqn:Eta; [|cbn; discriminate].
    destruct (tget (d_tree st) (norm b0)) eqn:Etb; [cbn; discriminate|].
    rewrite (proj2 (name_eqb_neq _ _) Ha).
    assert (Hta : tget (d_tree st) (norm a0) <> None) by congruence.
    destruct (rd_moves st (norm a0) (norm b0) Hinv Ha Hta Etb) as (s' & Es & ND & M1 & M2 & M3 & M4).
    rewrite Es. cbn [fst snd o_cond out_ok out_cond with_set d_set d_inbox d_subs]. intros _.
    repeat split; auto.
    - now apply tget_closure.
    - intro H. apply tget_closure in H. congruence.
  Qed.

  (* RENAME INBOX: the messages move, a fresh empty INBOX stays, inferiors of
     INBOX and everything else are untouched *)
  Theorem d_rename_inbox st a0 b0 :
    dinv st -> norm a0 = INBOX ->
    o_cond (snd (step st (ORename a0 b0))) = COk ->
    let b := norm b0 in
    let st' := fst (step st (ORename a0 b0)) in
    alookup b (d_set st') = Some (d_inbox st)
    /\ d_inbox st' = fresh uid0 (d_next st)
    /\ (forall m, m <> b -> alookup m (d_set st') = alookup m (d_set st))
    /\ ~ in_closure (dnames st) b /\ b <> INBOX.
  Proof.
    intros Hinv Ha. cbn [dstep]. cbv zeta. rewrite Ha.
    destruct (rename_dest b0) as [b'|k] eqn:Erd; [|cbn; discriminate].
    destruct (rename_dest_inl _ _ Erd) as [Eb ->].
    destruct (tget (d_tree st) INBOX) eqn:Eta; [|cbn; discriminate].
    destruct (tget (d_tree st) (norm b0)) eqn:Etb; [cbn; discriminate|].
    rewrite name_eqb_refl. cbn [fst snd o_cond out_ok out_cond d_set d_inbox]. intros _.
    repeat split; auto.
    - rewrite alookup_aset. now rewrite name_eqb_refl.
    - intros m Hm. rewrite alookup_aset. now rewrite (proj2 (name_eqb_neq _ _) Hm).
    - intro H. apply tget_closure in H. congruence.
  Qed.

  Lemma inbox_not_under b m : b <> INBOX -> bprefix b m -> m <> INBOX.
  Proof.
    intros Hb Hp ->. apply bprefix_split in Hp. change (split INBOX) with [INBOX] in Hp.
    destruct Hp as (k & [H1 H2] & E). cbn [length] in H2. assert (k = 1) by lia. subst k.
    cbn [firstn] in E. apply Hb. rewrite <- (join_split b), E. reflexivity.
  Qed.

  Theorem d_inv_step st o : dinv st -> dinv (fst (step st o)).
  Proof.
    intros Hinv. destruct (o_cond (snd (step st o))) eqn:Ec;
      [|rewrite d_error_no_effect by congruence; exact Hinv
       |rewrite d_error_no_effect by congruence; exact Hinv].
    destruct Hinv as [ND NI NS [Ii Ik]].
    assert (Hfresh : forall k m s (i : N), (forall k m, alookup k s = Some m -> (m_id m < i)%N) ->
                       alookup k (aset k m s) = Some m) by (intros; rewrite alookup_aset; now rewrite name_eqb_refl).
    destruct o.
    - (* create *)
      revert Ec. cbn [dstep]. cbv zeta. destruct (create_name n) as [n'|k] eqn:En; [|cbn; discriminate].
      pose proof (create_name_inl _ _ En) as Hn'.
      destruct (amem n' (d_set st)) eqn:Em; [cbn; discriminate|]. intros _.
      cbn [fst]. constructor; cbn [with_set d_set d_subs d_inbox d_next].
      + now apply aset_nodup.
      + rewrite aset_keys, Em. rewrite in_app_iff. intros [H|[H|[]]]; [contradiction|congruence].
      + exact NS.
      + split; [lia|]. intros k m. rewrite alookup_aset. destruct (name_eqb k n').
        * intros [= <-]. cbn [m_id fresh]. lia.
        * intro H. apply Ik in H. lia.
    - (* delete *)
      revert Ec. cbn [dstep]. cbv zeta. destruct (name_eqb (norm n) INBOX); [cbn; discriminate|].
      destruct (amem (norm n) (d_set st)); [|cbn; discriminate]. intros _.
      cbn [fst with_set]. constructor; cbn [with_set d_set d_subs d_inbox d_next].
      + now apply adel_nodup.
      + intro H. apply adel_keys_incl in H. contradiction.
      + exact NS.
      + split; [exact Ii|]. intros k m. rewrite alookup_adel by exact ND.
        destruct (name_eqb k (norm n)); [discriminate|apply Ik].
    - (* rename *)
      assert (Hinv : dinv st) by (constructor; auto).
      revert Ec. cbn [dstep]. cbv zeta.
      destruct (rename_dest b) as [b'|k] eqn:Erd; [|cbn; discriminate].
      destruct (rename_dest_inl _ _ Erd) as [Hb' _].
      destruct (tget (d_tree st) (norm a)) eqn:Eta; [|cbn; discriminate].
      destruct (tget (d_tree st) b') eqn:Etb; [cbn; discriminate|].
      destruct (name_eqb (norm a) INBOX) eqn:Ea.
      + intros _. cbn [fst]. constructor; cbn [with_set d_set d_subs d_inbox d_next].
        * now apply aset_nodup.
        * intro H. apply aset_keys_incl' in H as [H|H]; [congruence|contradiction].
        * exact NS.
        * cbn [m_id fresh]. split; [lia|]. intros k m. rewrite alookup_aset.
          destruct (name_eqb k b'); [intros [= <-]; lia|intro H; apply Ik in H; lia].
      + apply name_eqb_neq in Ea.
        assert (Hta : tget (d_tree st) (norm a) <> None) by congruence.
        destruct (rd_moves st (norm a) b' Hinv Ea Hta Etb) as (s' & Es & NDs' & M1 & M2 & M3 & R4).
        rewrite Es. intros _. cbn [fst with_set]. constructor; cbn [with_set d_set d_subs d_inbox d_next].
        * exact NDs'.
        * apply alookup_None_notin.
          destruct (classic_bprefix b' INBOX) as [Hp|Hp];
            [exfalso; now apply (inbox_not_under b' INBOX Hb' Hp)|].
          destruct (classic_bprefix (norm a) INBOX) as [Hq|Hq];
            [exfalso; now apply (inbox_not_under (norm a) INBOX Ea Hq)|].
          rewrite M2 by assumption. now apply alookup_None_notin.
        * exact NS.
        * split; [exact Ii|]. intros k m H. apply R4 in H as (k' & H). now apply Ik in H.
    - (* subscribe *)
      cbn [dstep]. destruct (inbox_case_bad (norm n)); [cbn [fst]; constructor; auto|].
      cbn [fst]. constructor; cbn [with_set d_set d_subs d_inbox d_next]; auto. now apply aset_nodup.
    - cbn [dstep fst]. constructor; cbn [with_set d_set d_subs d_inbox d_next]; auto. now apply aset_nodup.
    - cbn [dstep fst]. constructor; auto.
    - cbn [dstep fst]. constructor; auto.
    - cbn [dstep]. destruct (d_get st (norm n)); cbn [fst]; constructor; auto.
    - cbn [dstep]. destruct (d_get st (norm n)); cbn [fst]; constructor; auto.
    - (* append *)
      cbn [dstep]. destruct (d_get st (norm n)) as [m|] eqn:Eg; [|cbn [fst]; constructor; auto].
      destruct (m_ro m); [cbn [fst]; constructor; auto|]. cbn [fst]. unfold d_append.
      rewrite d_get_norm in Eg. rewrite norm_anycase.
      destruct (name_eqb (norm n) INBOX) eqn:En.
      + injection Eg as <-. constructor; cbn [d_set d_subs d_inbox d_next m_id]; auto.
      + constructor; cbn [with_set d_set d_subs d_inbox d_next].
        * now apply aset_nodup.
        * rewrite aset_keys. assert (amem (norm n) (d_set st) = true) by (unfold amem; now rewrite Eg).
          now rewrite H.
        * exact NS.
        * split; [exact Ii|]. intros k m'. rewrite alookup_aset. destruct (name_eqb k (norm n)).
          -- intros [= <-]. cbn [m_id]. now apply Ik in Eg.
          -- apply Ik.
  Qed.
End DictStep.

Section DictProgram.
  Variable uid0 : N.
  Notation step := (dstep uid0).

  Theorem d_inv_run prog : forall st, dinv st -> dinv (drun uid0 st prog).
  Proof.
    unfold drun. induction prog as [|o prog IH]; intros st H; cbn [fold_left]; [exact H|].
    apply IH. now apply d_inv_step.
  Qed.

  (* the loop of rename_mailbox never hits a missing key *)
  Theorem d_no_exc st o : dinv st -> o_cond (snd (step st o)) <> CExc.
  Proof.
    intros Hinv. destruct o; cbn [dstep]; cbv zeta.
    - destruct (create_name n) as [n'|k]; [|cbn; discriminate].
      destruct (amem n' (d_set st)); cbn; discriminate.
    - destruct (name_eqb (norm n) INBOX); [cbn; discriminate|].
      destruct (amem (norm n) (d_set st)); cbn; discriminate.
    - destruct (rename_dest b) as [b'|k]; [|cbn; discriminate].
      destruct (tget (d_tree st) (norm a)) eqn:Eta; [|cbn; discriminate].
      destruct (tget (d_tree st) b') eqn:Etb; [cbn; discriminate|].
      destruct (name_eqb (norm a) INBOX) eqn:Ea; [cbn; discriminate|].
      apply name_eqb_neq in Ea.
      assert (Hta : tget (d_tree st) (norm a) <> None) by congruence.
      destruct (rd_moves st (norm a) b' Hinv Ea Hta Etb) as (s' & Es & _).
      rewrite Es. cbn. discriminate.
    - destruct (inbox_case_bad (norm n)); cbn; discriminate.
    - cbn. discriminate.
    - unfold list_out. cbn. discriminate.
    - unfold list_out. cbn. discriminate.
    - destruct (d_get st (norm n)); cbn; discriminate.
    - destruct (d_get st (norm n)); cbn; discriminate.
    - destruct (d_get st (norm n)) as [m|]; [|cbn; discriminate]. destruct (m_ro m); cbn; discriminate.
  Qed.

  (* CREATE: [create_name] is the name actually created (INBOX case folding,
     one trailing delimiter dropped) or the refusal *)
  Theorem d_create_spec st n0 :
    let st' := fst (step st (OCreate n0)) in
    let out := snd (step st (OCreate n0)) in
    (forall k, create_name n0 = inr k -> o_cond out = CNo k /\ st' = st)
    /\ (forall n, create_name n0 = inl n ->
         n <> INBOX
         /\ (In n (map fst (d_set st)) -> o_cond out <> COk /\ st' = st)
         /\ (~ In n (map fst (d_set st)) ->
             o_cond out = COk
             /\ alookup n (d_set st') = Some (fresh uid0 (d_next st))
             /\ (forall m, m <> n -> alookup m (d_set st') = alookup m (d_set st))
             /\ d_inbox st' = d_inbox st /\ d_subs st' = d_subs st)).
  Proof.
    cbv zeta. cbn [dstep]. split.
    - intros k ->. cbn. auto.
    - intros n En. rewrite En. split; [now apply create_name_inl in En|]. split.
      + intro Hin. apply amem_true in Hin. rewrite Hin. cbn. split; [discriminate|reflexivity].
      + intro Hnin.
        assert (E : amem n (d_set st) = false).
        { destruct (amem n (d_set st)) eqn:E; [|reflexivity]. apply amem_true in E. contradiction. }
        rewrite E. cbn [fst snd o_cond d_set d_inbox d_subs]. repeat split.
        * rewrite alookup_aset. now rewrite name_eqb_refl.
        * intros m Hm. rewrite alookup_aset. now rewrite (proj2 (name_eqb_neq _ _) Hm).
  Qed.

  (* DELETE *)
  Theorem d_delete_spec st n0 : dinv st ->
    let n := norm n0 in
    let st' := fst (step st (ODelete n0)) in
    let out := snd (step st (ODelete n0)) in
    (n = INBOX \/ ~ In n (map fst (d_set st)) -> o_cond out <> COk /\ st' = st)
    /\ (n <> INBOX -> In n (map fst (d_set st)) ->
        o_cond out = COk
        /\ alookup n (d_set st') = None
        /\ (forall m, m <> n -> alookup m (d_set st') = alookup m (d_set st))
        /\ d_inbox st' = d_inbox st /\ d_subs st' = d_subs st).
  Proof.
    intro Hinv. cbv zeta. cbn [dstep]. cbv zeta. split.
    - intros [->|Hin].
      + rewrite name_eqb_refl. cbn. split; [discriminate|reflexivity].
      + destruct (name_eqb (norm n0) INBOX); [cbn; split; [discriminate|reflexivity]|].
        assert (E : amem (norm n0) (d_set st) = false).
        { destruct (amem (norm n0) (d_set st)) eqn:E; [|reflexivity]. apply amem_true in E. contradiction. }
        rewrite E. cbn. split; [discriminate|reflexivity].
    - intros Hn Hin. rewrite (proj2 (name_eqb_neq _ _) Hn). apply amem_true in Hin. rewrite Hin.
      cbn [fst snd o_cond out_ok out_cond with_set d_set d_inbox d_subs]. repeat split.
      + rewrite alookup_adel by apply (inv_nodup _ Hinv). now rewrite name_eqb_refl.
      + intros m Hm. rewrite alookup_adel by apply (inv_nodup _ Hinv).
        now rewrite (proj2 (name_eqb_neq _ _) Hm).
  Qed.

  (* RENAME is refused when the source is missing, the destination exists
     (as a mailbox or as a superior of one) or is INBOX *)
  Theorem d_rename_refused st a0 b0 :
    (exists k, rename_dest b0 = inr k)
    \/ ~ in_closure (dnames st) (norm a0) \/ in_closure (dnames st) (norm b0) ->
    o_cond (snd (step st (ORename a0 b0))) <> COk /\ fst (step st (ORename a0 b0)) = st.
  Proof.
    intro H. assert (Hc : o_cond (snd (step st (ORename a0 b0))) <> COk).
    { cbn [dstep]. cbv zeta. destruct (rename_dest b0) as [b'|k] eqn:Erd; [|cbn; discriminate].
      destruct (rename_dest_inl _ _ Erd) as [Eb ->].
      destruct H as [(k & H)|[H|H]]; [discriminate| |].
      - destruct (tget (d_tree st) (norm a0)) eqn:E; [|cbn; discriminate].
        exfalso. apply H. apply tget_closure. congruence.
      - apply tget_closure in H. destruct (tget (d_tree st) (norm a0)); [|cbn; discriminate].
        destruct (tget (d_tree st) (norm b0)); [cbn; discriminate|congruence]. }
    split; [exact Hc|now apply d_error_no_effect].
  Qed.

  (* STATUS / SELECT / APPEND of a missing mailbox *)
  Theorem d_missing_refused st n0 :
    norm n0 <> INBOX -> ~ In (norm n0) (map fst (d_set st)) ->
    forall o, In o [OStatus n0; OSelect n0; OAppend n0] ->
    o_cond (snd (step st o)) <> COk /\ fst (step st o) = st.
  Proof.
    intros Hn Hnin o Ho.
    assert (Eg : d_get st (norm n0) = None).
    { rewrite d_get_norm, (proj2 (name_eqb_neq _ _) Hn). now apply alookup_None_notin. }
    destruct Ho as [<-|[<-|[<-|[]]]]; cbn [dstep]; rewrite Eg; cbn; (split; [discriminate|reflexivity]).
  Qed.

  (* INBOX cannot be created, deleted or overwritten: the guards answer NO
     without effect, and no program ever puts a second mailbox named INBOX
     into the set (so the name always resolves to the user's INBOX) *)
  Theorem d_inbox_protected st prog : dinv st ->
    ~ In INBOX (map fst (d_set (drun uid0 st prog)))
    /\ (forall n0 b0, norm n0 = INBOX ->
          forall o, In o [OCreate n0; ODelete n0; ORename b0 n0] ->
          o_cond (snd (step st o)) <> COk /\ fst (step st o) = st).
  Proof.
    intro Hinv. split; [apply (inv_noinbox _ (d_inv_run prog st Hinv))|].
    intros n0 b0 En o Ho.
    destruct Ho as [<-|[<-|[<-|[]]]]; cbn [dstep]; cbv zeta;
      rewrite ?(create_name_inbox _ En), ?(rename_dest_inbox _ En), ?En, ?name_eqb_refl; cbn;
      (split; [discriminate|reflexivity]).
  Qed.

  (* only RENAME INBOX and APPEND INBOX change the INBOX's contents *)
  Theorem d_inbox_kept st o :
    (forall a b, o = ORename a b -> norm a <> INBOX) ->
    (forall n, o = OAppend n -> norm n <> INBOX) ->
    d_inbox (fst (step st o)) = d_inbox st.
  Proof.
    intros Hr Ha. destruct o; cbn [dstep]; cbv zeta.
    - destruct (create_name n); [|reflexivity]. destruct (amem n0 (d_set st)); reflexivity.
    - destruct (name_eqb (norm n) INBOX); [reflexivity|]. destruct (amem (norm n) (d_set st)); reflexivity.
    - destruct (rename_dest b) as [b'|k]; [|reflexivity].
      destruct (tget (d_tree st) (norm a)); [|reflexivity].
      destruct (tget (d_tree st) b'); [reflexivity|].
      rewrite (proj2 (name_eqb_neq _ _) (Hr a b eq_refl)).
      destruct (d_moves _ _); reflexivity.
    - destruct (inbox_case_bad (norm n)); reflexivity.
    - reflexivity.
    - reflexivity.
    - reflexivity.
    - destruct (d_get st (norm n)); reflexivity.
    - destruct (d_get st (norm n)); reflexivity.
    - destruct (d_get st (norm n)) as [m|]; [|reflexivity]. destruct (m_ro m); [reflexivity|].
      cbn [fst]. unfold d_append. rewrite norm_anycase.
      rewrite (proj2 (name_eqb_neq _ _) (Ha n eq_refl)). reflexivity.
  Qed.

  (* LIST: exactly the closure of the existing names matching the pattern *)
  Theorem d_list_exact st ref pat : pat <> [] ->
    let out := snd (step st (OList ref pat)) in
    fst (step st (OList ref pat)) = st /\ o_cond out = COk
    /\ o_list out = map (fun e => (e_name e, attrs e)) (tmatching (tupdate (dnames st)) (norm ref ++ pat)).
  Proof. intro Hp. cbn [dstep fst snd]. unfold list_out. destruct pat; [congruence|]. cbn. auto. Qed.

  Theorem d_lsub_exact st ref pat : pat <> [] ->
    let out := snd (step st (OLsub ref pat)) in
    fst (step st (OLsub ref pat)) = st /\ o_cond out = COk
    /\ o_list out = map (fun e => (e_name e, attrs e))
                        (tmatching (tupdate (INBOX :: subscribed st)) (norm ref ++ pat)).
  Proof. intro Hp. cbn [dstep fst snd]. unfold list_out. destruct pat; [congruence|]. cbn. auto. Qed.

  Lemma subscribed_spec st n : NoDup (map fst (d_subs st)) ->
    (In n (subscribed st) <-> alookup n (d_subs st) = Some true).
  Proof.
    unfold subscribed. generalize (d_subs st) as l. induction l as [|[k v] l IH]; intro ND; cbn [filter map alookup snd fst].
    - split; [intros []|discriminate].
    - cbn [map fst] in ND. inversion ND as [|? ? Hn ND']; subst.
      destruct (name_eqb n k) eqn:E.
      + apply name_eqb_eq in E. subst k. destruct v; cbn [map fst In].
        * split; [reflexivity|now left].
        * split; [|discriminate]. intro H. exfalso. apply Hn. apply in_map_iff in H as ([k' v'] & <- & H).
          apply filter_In in H as [H _]. apply in_map_iff. exists (k', v'). auto.
      + apply name_eqb_neq in E. destruct v; cbn [map fst In]; rewrite <- IH by exact ND'; [|reflexivity].
        split; [intros [->|H]; [congruence|exact H]|now right].
  Qed.

  (* SUBSCRIBE / UNSUBSCRIBE *)
  Theorem d_subscribe_spec st n0 (flag : bool) :
    (flag = true -> inbox_case_bad (norm n0) = false) ->
    let o := if flag then OSubscribe n0 else OUnsubscribe n0 in
    let st' := fst (step st o) in
    o_cond (snd (step st o)) = COk
    /\ alookup (norm n0) (d_subs st') = Some flag
    /\ (forall m, m <> norm n0 -> alookup m (d_subs st') = alookup m (d_subs st))
    /\ d_set st' = d_set st /\ d_inbox st' = d_inbox st.
  Proof.
    intro Hb. destruct flag; cbn [dstep]; rewrite ?(Hb eq_refl);
      cbn [fst snd d_subs d_set d_inbox o_cond out_ok out_cond]; repeat split;
      try (rewrite alookup_aset; now rewrite name_eqb_refl);
      intros m Hm; rewrite alookup_aset; now rewrite (proj2 (name_eqb_neq _ _) Hm).
  Qed.

  (* with INBOX subscribed, LSUB's name set is the closure of the subscribed
     names; it always contains INBOX (the known deviation) *)
  Lemma closure_cons_mem names n p : In n names -> (in_closure (n :: names) p <-> in_closure names p).
  Proof.
    intro Hn. split; intros (x & Hx & Hb).
    - destruct Hx as [<-|Hx]; [exists n|exists x]; auto.
    - exists x. split; [now right|exact Hb].
  Qed.
End DictProgram.

(* LSUB lists INBOX although nothing was ever subscribed *)
Definition demo_state : dstate :=
  {| d_inbox := {| m_id := 0; m_msgs := 0; m_next := 101; m_ro := false |};
     d_set := []; d_subs := []; d_next := 1 |}.

Lemma lsub_inbox_refuted :
  exists st ref pat, dinv st /\ subscribed st = [] /\
    o_list (snd (dstep 101 st (OLsub ref pat))) = [(INBOX, [3%N])].
Proof.
  exists demo_state, [], [STAR]. split; [|split; [reflexivity|vm_compute; reflexivity]].
  constructor; cbn; try constructor; try tauto; try lia. intros k m; discriminate.
Qed.

Lemma demo_state_inv : dinv demo_state.
Proof. constructor; cbn; try constructor; try tauto; try lia. intros k m; discriminate. Qed.
