(* Namespace/MdModel.v — the namespace commands on the maildir backend:
   pymap/backend/maildir/mailbox.py MailboxSet (add/delete/rename/get,
   list_mailboxes, list_subscribed, set_subscribed), layout.py
   (_valid_part, _split, add_folder, remove_folder, rename_folder,
   _rename_folder, list_folders, _can_remove) for both layouts, and
   subscriptions.py, over an abstract folder set: a folder is a directory
   ('.a.b' below the root for '++', 'a/b' for 'fs').  Definitions only. *)
From PV Require Import Base.Prelude Namespace.Glob Namespace.NsBase Namespace.ListTree
     Namespace.NsModel.

Inductive layout := LPlus | LFs.

Definition DOT : N := 46.
Definition s_dot : name := [46]%N.
Definition s_dotdot : name := [46; 46]%N.
Definition s_new : name := [110; 101; 119]%N.
Definition s_cur : name := [99; 117; 114]%N.
Definition s_tmp : name := [116; 109; 112]%N.

(* FilesystemLayout._reserved: new cur tmp maildirfolder dovecot-uidlist
   dovecot-uidlist.lock dovecot-keywords dovecot.sieve subscriptions
   subscriptions.lock *)
Definition fs_reserved : list name :=
  [ s_new; s_cur; s_tmp;
    [109;97;105;108;100;105;114;102;111;108;100;101;114];
    [100;111;118;101;99;111;116;45;117;105;100;108;105;115;116];
    [100;111;118;101;99;111;116;45;117;105;100;108;105;115;116;46;108;111;99;107];
    [100;111;118;101;99;111;116;45;107;101;121;119;111;114;100;115];
    [100;111;118;101;99;111;116;46;115;105;101;118;101];
    [115;117;98;115;99;114;105;112;116;105;111;110;115];
    [115;117;98;115;99;114;105;112;116;105;111;110;115;46;108;111;99;107] ]%N.

(* _BaseLayout._valid_part (control characters, DEL and lone surrogates
   U+D800..U+DFFF are refused) and the two overrides *)
Definition valid_part_base (p : name) : bool :=
  negb (name_eqb p [] || name_eqb p s_dot || name_eqb p s_dotdot)
  && negb (existsb (fun c => (c =? DELIM)%N) p)
  && negb (existsb (fun c => (c <? 32)%N || (c =? 127)%N || ((55296 <=? c) && (c <=? 57343))%N) p).

Definition valid_part (l : layout) (p : name) : bool :=
  match l with
  | LPlus => negb (existsb (fun c => (c =? DOT)%N) p) && valid_part_base p
  | LFs => negb (mem_name p fs_reserved) && valid_part_base p
  end.

(* _BaseLayout._split: None = NotSupportedError('Invalid mailbox name.') *)
Definition lsplit (l : layout) (n : name) : option path :=
  if name_eqb n INBOX then Some []
  else let ps := split n in if forallb (valid_part l) ps then Some ps else None.

Record mstate := {
  x_inbox : mbox;
  x_folders : list (name * mbox);     (* folder directories, by IMAP name *)
  x_subs : list name;                 (* the subscriptions file *)
  x_next : N
}.

Definition x_with (st : mstate) (f : list (name * mbox)) (nx : N) : mstate :=
  {| x_inbox := x_inbox st; x_folders := f; x_subs := x_subs st; x_next := nx |}.

Section Md.
  Variable uid0 : N.
  Variable lay : layout.

  Definition folder_names (st : mstate) : list name := INBOX :: map fst (x_folders st).

  (* MailboxSet.list_mailboxes: ListTree.update('INBOX', *list_folders()) *)
  Definition x_tree (st : mstate) : tree := tupdate (INBOX :: folder_names st).
  Definition x_subtree (st : mstate) : tree := tupdate (INBOX :: x_subs st).

  Definition is_dir (st : mstate) (p : path) : bool :=
    match p with [] => true | _ => amem (join p) (x_folders st) end.

  (* MailboxSet.get_mailbox: None+code *)
  Definition x_get (st : mstate) (n : name) : mbox + N :=
    if name_eqb n INBOX then inl (x_inbox st)
    else match lsplit lay n with
         | None => inr 4%N
         | Some _ => match alookup n (x_folders st) with
                     | Some m => inl m
                     | None => inr 2%N
                     end
         end.

  (* add_folder's ancestor check: for i in range(1, len(parts) - 1) *)
  Definition ancestors_ok (st : mstate) (parts : path) : bool :=
    forallb (fun i => is_dir st (firstn i parts)) (seq 1 (length parts - 2)).

  (* mailbox.Maildir(path, create=True): os.mkdir needs the parent (fs only) *)
  Definition parent_ok (st : mstate) (parts : path) : bool :=
    match lay with
    | LPlus => true
    | LFs => is_dir st (firstn (length parts - 1) parts)
    end.

  (* fs _can_remove: no sub-directory other than new/cur/tmp *)
  Definition has_child_folder (st : mstate) (parts : path) : bool :=
    existsb (fun k => is_child parts (split (fst k))) (x_folders st).

  (* rename_folder: missing superiors of the destination are created
     (for i in range(1, len(dest_parts))) *)
  Fixpoint add_superiors (ks : list nat) (parts : path) (f : list (name * mbox)) (nx : N)
    : list (name * mbox) * N :=
    match ks with
    | [] => (f, nx)
    | k :: ks' =>
      let nm := join (firstn k parts) in
      if amem nm f then add_superiors ks' parts f nx
      else add_superiors ks' parts (aset nm (fresh uid0 nx) f) (nx + 1)
    end.

  (* _rename_folder: every folder at or below the source moves *)
  Definition move_folders (a b : name) (f : list (name * mbox)) : list (name * mbox) :=
    map (fun k => match drop_prefix (split a) (split (fst k)) with
                  | Some rest => (b ++ sfx rest, snd k)
                  | None => k
                  end) f.

  Definition starts_with (p s : name) : bool := is_prefix N.eqb p s.

  Definition x_append (st : mstate) (n : name) (m : mbox) : mstate :=
    let m' := {| m_id := m_id m; m_msgs := m_msgs m + 1; m_next := m_next m + 1; m_ro := m_ro m |} in
    if name_eqb n INBOX
    then {| x_inbox := m'; x_folders := x_folders st; x_subs := x_subs st; x_next := x_next st |}
    else x_with st (aset n m' (x_folders st)) (x_next st).

  Definition mstep (st : mstate) (o : op) : mstate * out :=
    match o with
    | OCreate n0 =>
      match create_name n0 with
      | inr k => (st, out_no k)
      | inl n =>
        match lsplit lay n with
        | None => (st, out_no 4)
        | Some parts =>
          if negb (ancestors_ok st parts) then (st, out_no 2)
          else if amem n (x_folders st) then (st, out_no 1)
          else if negb (parent_ok st parts) then (st, out_no 2)
          else (x_with st (aset n (fresh uid0 (x_next st)) (x_folders st)) (x_next st + 1),
                {| o_cond := COk; o_list := []; o_status := None; o_newid := Some (x_next st) |})
        end
      end
    | ODelete n0 =>
      let n := norm n0 in
      if name_eqb n INBOX then (st, out_no 0)
      else match lsplit lay n with
           | None => (st, out_no 4)
           | Some parts =>
             if negb (amem n (x_folders st)) then (st, out_no 2)
             else match lay with
                  | LFs => if has_child_folder st parts then (st, out_no 6)
                           else (x_with st (adel n (x_folders st)) (x_next st), out_ok)
                  | LPlus => (x_with st (adel n (x_folders st)) (x_next st), out_ok)
                  end
           end
    | ORename a0 b0 =>
      let a := norm a0 in
      match rename_dest b0 with
      | inr k => (st, out_no k)
      | inl b =>
      if name_eqb a INBOX then (st, out_no 4)
      else if starts_with (a ++ [DELIM]) b then (st, out_no 4)
      else
        let t := x_tree st in
        match tget t a, tget t b with
        | None, _ => (st, out_no 2)
        | Some _, Some _ => (st, out_no 1)
        | Some _, None =>
          match lsplit lay a, lsplit lay b with
          | None, _ => (st, out_no 4)
          | Some _, None => (st, out_no 4)
          | Some pa, Some pb =>
            let '(f1, nx) := add_superiors (seq 1 (length pb - 1)) pb (x_folders st) (x_next st) in
            match lay with
            | LFs => if amem a f1 then (x_with st (move_folders a b f1) nx, out_ok)
                     else (x_with st f1 nx, out_cond CExc)   (* os.rename: no such directory *)
            | LPlus => (x_with st (move_folders a b f1) nx, out_ok)
            end
          end
        end
      end
    | OSubscribe n0 =>
      let n := norm n0 in
      if inbox_case_bad n then (st, out_no 4) else
      match lsplit lay n with
      | None => (st, out_no 4)
      | Some _ => ({| x_inbox := x_inbox st; x_folders := x_folders st;
                      x_subs := if mem_name n (x_subs st) then x_subs st else x_subs st ++ [n];
                      x_next := x_next st |}, out_ok)
      end
    | OUnsubscribe n0 =>
      let n := norm n0 in
      match lsplit lay n with
      | None => (st, out_no 4)
      | Some _ => ({| x_inbox := x_inbox st; x_folders := x_folders st;
                      x_subs := filter (fun k => negb (name_eqb k n)) (x_subs st);
                      x_next := x_next st |}, out_ok)
      end
    | OList ref pat => (st, list_out (x_tree st) (norm ref) pat)
    | OLsub ref pat => (st, list_out (x_subtree st) (norm ref) pat)
    | OStatus n0 =>
      match x_get st (norm n0) with
      | inl m => (st, {| o_cond := COk; o_list := []; o_status := Some m; o_newid := None |})
      | inr k => (st, out_no k)
      end
    | OSelect n0 =>
      match x_get st (norm n0) with
      | inl m => (st, out_ok)
      | inr k => (st, out_no k)
      end
    | OAppend n0 =>
      match x_get st (norm n0) with
      | inl m => (x_append st (norm n0) m, out_ok)
      | inr k => (st, out_no (if (k =? 2)%N then 3 else k))
      end
    end.

  Definition mrun (st : mstate) (prog : list op) : mstate :=
    fold_left (fun s o => fst (mstep s o)) prog st.
End Md.
