(* Namespace/Glob.v — what the regular expression built by
   pymap/listtree.py ListTree._get_pattern denotes, and the RFC 3501 6.3.8
   matcher ("*" = any characters, "%" = any characters except the hierarchy
   delimiter).  Definitions only; proofs in GlobProofs.v.

   Code modelled (after the fix of the newline defect):
     for part in re.split(r'([\*\%])', ref_name + filter_):
        '*' -> '.*?'   '%' -> '[^/]*?'   else re.escape(part)
     pattern = '^' + ''.join(parts) + r'\Z'
     re.compile(pattern, re.DOTALL)                       -- every other name
     re.compile(pattern, re.DOTALL|re.IGNORECASE|re.ASCII) -- the entry INBOX
   Characters are code points (N).  Laziness of the quantifiers does not
   change whether a match exists. *)
From PV Require Import Base.Prelude.

Definition DELIM : N := 47.    (* '/' : MailboxSet.delimiter of every backend *)
Definition STAR : N := 42.
Definition PCT : N := 37.
Definition NL : N := 10.

(* ---------------------------------------------------------------- regex *)
Inductive cls := CAny | CNotNL | CNotDelim.

Definition in_cls (k : cls) (c : N) : bool :=
  match k with
  | CAny => true
  | CNotNL => negb (c =? NL)%N
  | CNotDelim => negb (c =? DELIM)%N
  end.

(* ASCII case folding (re.IGNORECASE | re.ASCII) *)
Definition lower (c : N) : N := if ((65 <=? c) && (c <=? 90))%N then (c + 32)%N else c.

Inductive regex :=
| Empty                      (* matches nothing *)
| Eps                        (* matches "" *)
| Chr (c : N)                (* an escaped literal character *)
| ChrI (c : N)               (* the same under IGNORECASE|ASCII *)
| Cls (k : cls)
| Cat (a b : regex)
| Alt (a b : regex)
| Star (a : regex).

Fixpoint nullable (r : regex) : bool :=
  match r with
  | Empty => false | Eps => true | Chr _ => false | ChrI _ => false | Cls _ => false
  | Cat a b => nullable a && nullable b
  | Alt a b => nullable a || nullable b
  | Star _ => true
  end.

(* Brzozowski derivative *)
Fixpoint deriv (c : N) (r : regex) : regex :=
  match r with
  | Empty => Empty | Eps => Empty
  | Chr d => if (c =? d)%N then Eps else Empty
  | ChrI d => if (lower c =? lower d)%N then Eps else Empty
  | Cls k => if in_cls k c then Eps else Empty
  | Cat a b => if nullable a then Alt (Cat (deriv c a) b) (deriv c b)
               else Cat (deriv c a) b
  | Alt a b => Alt (deriv c a) (deriv c b)
  | Star a => Cat (deriv c a) (Star a)
  end.

(* re.match(pattern, s) for an anchored pattern: the whole string *)
Fixpoint matches (r : regex) (s : list N) : bool :=
  match s with
  | [] => nullable r
  | c :: s' => matches (deriv c r) s'
  end.

(* ------------------------------------------------------ _get_pattern *)
(* [dotall]: re.DOTALL given; [zend]: the pattern ends in \Z rather than $
   ($ without MULTILINE also matches before one trailing newline);
   [icase]: IGNORECASE|ASCII. *)
Record reflags := { dotall : bool; zend : bool; icase : bool }.

Definition re_of_char (f : reflags) (c : N) : regex :=
  if (c =? STAR)%N then Star (Cls (if dotall f then CAny else CNotNL))
  else if (c =? PCT)%N then Star (Cls CNotDelim)
  else if icase f then ChrI c else Chr c.

Definition re_end (f : reflags) : regex :=
  if zend f then Eps else Alt Eps (Chr NL).

Fixpoint compile (f : reflags) (query : list N) : regex :=
  match query with
  | [] => re_end f
  | c :: q => Cat (re_of_char f c) (compile f q)
  end.

Definition fixed_cs : reflags := {| dotall := true; zend := true; icase := false |}.
Definition fixed_ci : reflags := {| dotall := true; zend := true; icase := true |}.
Definition legacy_cs : reflags := {| dotall := false; zend := false; icase := false |}.

(* the two compiled patterns of the current code *)
Definition model_match (query name : list N) : bool := matches (compile fixed_cs query) name.
Definition model_match_ci (query name : list N) : bool := matches (compile fixed_ci query) name.
(* the code before the fix (kept for the refutation witness) *)
Definition legacy_match (query name : list N) : bool := matches (compile legacy_cs query) name.

(* ------------------------------------------------------- RFC matcher *)
(* RFC 3501 6.3.8: "*" matches zero or more characters at this position;
   "%" is similar but does not match a hierarchy delimiter; every other
   character matches itself. *)
Fixpoint rfc_match (pat : list N) (s : list N) : bool :=
  match pat with
  | [] => match s with [] => true | _ => false end
  | p :: pat' =>
    if (p =? STAR)%N then
      (fix star (s : list N) : bool :=
         rfc_match pat' s || match s with [] => false | _ :: s' => star s' end) s
    else if (p =? PCT)%N then
      (fix pct (s : list N) : bool :=
         rfc_match pat' s ||
         match s with [] => false | d :: s' => negb (d =? DELIM)%N && pct s' end) s
    else match s with
         | d :: s' => (p =? d)%N && rfc_match pat' s'
         | [] => false
         end
  end.

(* declarative reading: the name is cut into one piece per pattern character *)
Definition piece_ok (p : N) (piece : list N) : Prop :=
  if (p =? STAR)%N then True
  else if (p =? PCT)%N then Forall (fun d => d <> DELIM) piece
  else piece = [p].

Definition glob_denotes (pat : list N) (s : list N) : Prop :=
  exists pieces, Forall2 piece_ok pat pieces /\ concat pieces = s.

(* INBOX is matched case-insensitively (ASCII) *)
Definition rfc_match_ci (pat s : list N) : bool := rfc_match (map lower pat) (map lower s).
