(* Namespace/LayoutGenProofs.v — the definitions generated from the current
   pymap/backend/maildir/layout.py (Namespace/LayoutGen.v, rewritten by
   ./check C08 on every run) agree, for all inputs, with the hand-written
   model that the C08 / C11 theorems speak about; and the confinement theorem
   restated over the generated definitions.  A change of _valid_part, _split,
   _join, _get_subdir, _get_parts, _get_path, get_path, _reserved or of
   MailboxSet.delimiter that changes their meaning makes a proof of this file
   fail (or the translator refuse the source). *)
From PV Require Import Base.Prelude Namespace.PyStr Namespace.Glob Namespace.NsBase
     Namespace.NsBaseProofs Namespace.ListTree Namespace.NsModel Namespace.MdModel
     Namespace.Paths Namespace.PathsProofs Namespace.LayoutGen Namespace.LayoutSpec.
Require Import Lia ZifyBool.

(* ------------------------------------------- PyStr at a one-character separator *)
Lemma starts_single c s :
  starts [c] s = match s with [] => false | y :: _ => (c =? y)%N end.
Proof. destruct s as [|y s]; cbn [starts]; [reflexivity|]. now rewrite andb_true_r. Qed.

Lemma py_contains_single c s : py_contains [c] s = existsb (fun x => (x =? c)%N) s.
Proof.
  induction s as [|y s IH].
  - reflexivity.
  - cbn [py_contains existsb]. rewrite starts_single, IH, (N.eqb_sym c y). reflexivity.
Qed.

Fixpoint split_on (d : N) (s : name) : list name :=
  match s with
  | [] => [[]]
  | c :: s' =>
    if (c =? d)%N then [] :: split_on d s'
    else match split_on d s' with
         | p :: ps => (c :: p) :: ps
         | [] => [[c]]
         end
  end.

Lemma split_on_nonempty d s : split_on d s <> [].
Proof.
  destruct s as [|c s]; cbn [split_on]; [discriminate|].
  destruct (c =? d)%N; [discriminate|]. destruct (split_on d s); discriminate.
Qed.

Lemma split_aux_single d s : forall acc,
  split_aux [d] s 0 acc =
  match split_on d s with p :: ps => (rev acc ++ p) :: ps | [] => [rev acc] end.
Proof.
  induction s as [|c s IH]; intros acc.
  - cbn [split_aux split_on]. now rewrite app_nil_r.
  - cbn [split_aux split_on]. rewrite starts_single.
    change (length [d] - 1) with 0. rewrite (N.eqb_sym d c).
    destruct (c =? d)%N.
    + rewrite app_nil_r. rewrite IH. cbn [rev app].
      destruct (split_on d s) as [|p ps] eqn:E; [now apply split_on_nonempty in E|reflexivity].
    + rewrite IH. destruct (split_on d s) as [|p ps].
      * cbn [rev]. reflexivity.
      * cbn [rev]. rewrite <- app_assoc. reflexivity.
Qed.

Lemma py_split_single d s : py_split [d] s = split_on d s.
Proof.
  unfold py_split. rewrite split_aux_single. cbn [rev app].
  destruct (split_on d s) eqn:E; [now apply split_on_nonempty in E|reflexivity].
Qed.

Lemma split_on_delim s : split_on DELIM s = split s.
Proof. induction s as [|c s IH]; cbn [split_on split]; [reflexivity|]. now rewrite IH. Qed.

Lemma split_on_dot s : split_on DOT s = split_dot s.
Proof. induction s as [|c s IH]; cbn [split_on split_dot]; [reflexivity|]. now rewrite IH. Qed.

Lemma py_split_delim s : py_split [47%N] s = split s.
Proof. rewrite py_split_single. apply split_on_delim. Qed.

Lemma py_split_dot s : py_split [46%N] s = split_dot s.
Proof. rewrite py_split_single. apply split_on_dot. Qed.

Lemma py_join_cons d p q ps : py_join d (p :: q :: ps) = p ++ d ++ py_join d (q :: ps).
Proof. reflexivity. Qed.

Lemma py_join_delim (ps : list name) : py_join [47%N] ps = join ps.
Proof.
  induction ps as [|p ps IH]; [reflexivity|]. destruct ps as [|q ps]; [reflexivity|].
  change (py_join [47%N] (p :: q :: ps)) with (p ++ [47%N] ++ py_join [47%N] (q :: ps)).
  rewrite IH. symmetry. apply (join_cons p (q :: ps)). discriminate.
Qed.

Lemma join_dot_cons p q ps : join_dot (p :: q :: ps) = p ++ DOT :: join_dot (q :: ps).
Proof. reflexivity. Qed.

Lemma py_join_dot (ps : list name) : py_join [46%N] ps = join_dot ps.
Proof.
  induction ps as [|p ps IH]; [reflexivity|]. destruct ps as [|q ps]; [reflexivity|].
  change (py_join [46%N] (p :: q :: ps)) with (p ++ [46%N] ++ py_join [46%N] (q :: ps)).
  rewrite IH. reflexivity.
Qed.

(* ------------------------------------------------------------- the part guard *)
Ltac base_guard :=
  unfold valid_part_base, os_sep; rewrite py_contains_single;
  unfold str_in; cbn [existsb]; rewrite orb_false_r;
  change str_eqb with name_eqb; unfold s_dot, s_dotdot, DELIM;
  repeat match goal with |- context [name_eqb ?p ?x] => destruct (name_eqb p x) end;
  cbn [orb negb andb];
  repeat match goal with |- context [existsb ?f ?p] => destruct (existsb f p) end;
  reflexivity.

Lemma gen_default_base_guard p : gen_Default_super__valid_part p = valid_part_base p.
Proof. unfold gen_Default_super__valid_part. base_guard. Qed.

Lemma gen_fs_base_guard p : gen_Fs_super__valid_part p = valid_part_base p.
Proof. unfold gen_Fs_super__valid_part. base_guard. Qed.

Lemma gen_reserved_agrees : gen_Fs__reserved = fs_reserved.
Proof. reflexivity. Qed.

Theorem gen_valid_part_agrees l p : gen_valid_part l p = valid_part l p.
Proof.
  destruct l; unfold gen_valid_part, valid_part.
  - unfold gen_Default__valid_part. rewrite py_contains_single, gen_default_base_guard. reflexivity.
  - unfold gen_Fs__valid_part. rewrite gen_fs_base_guard, gen_reserved_agrees. reflexivity.
Qed.

Lemma existsb_invalid l ps :
  existsb (fun p => negb (gen_valid_part l p)) ps = negb (forallb (valid_part l) ps).
Proof.
  induction ps as [|p ps IH]; [reflexivity|]. cbn [existsb forallb].
  rewrite IH, gen_valid_part_agrees, negb_andb. reflexivity.
Qed.

(* ------------------------------------------------------------ the length guard *)
Definition nosurr (c : N) : bool := negb ((55296 <=? c) && (c <=? 57343))%N.

Lemma fsencode_char_nosurr c : nosurr c = true -> fsencode_char c = Some (utf8_len_char c).
Proof.
  unfold nosurr, fsencode_char, utf8_len_char. intros H.
  destruct (c <? 128)%N eqn:E1; [reflexivity|].
  destruct (c <? 2048)%N eqn:E2; [reflexivity|].
  destruct ((56448 <=? c) && (c <=? 56575))%N eqn:E3; [exfalso; lia|].
  apply negb_true_iff in H. rewrite H. destruct (c <? 65536)%N; reflexivity.
Qed.

Lemma fsencode_len_nosurr s : forallb nosurr s = true -> fsencode_len s = Some (utf8_len s).
Proof.
  induction s as [|c s IH]; [reflexivity|]. cbn [forallb fsencode_len utf8_len].
  intros H. apply andb_true_iff in H as [Hc Hs].
  now rewrite (fsencode_char_nosurr c Hc), (IH Hs).
Qed.

Lemma valid_base_nosurr p : valid_part_base p = true -> forallb nosurr p = true.
Proof.
  unfold valid_part_base. intros H. apply andb_true_iff in H as [_ H].
  apply negb_true_iff in H. induction p as [|c p IH]; [reflexivity|].
  cbn [existsb forallb] in *. apply orb_false_iff in H as [Hc Hp].
  rewrite (IH Hp), andb_true_r. unfold nosurr.
  apply orb_false_iff in Hc as [_ Hc]. now rewrite Hc.
Qed.

Lemma valid_nosurr l p : valid_part l p = true -> forallb nosurr p = true.
Proof.
  destruct l; unfold valid_part; intros H; apply andb_true_iff in H as [_ H];
    now apply valid_base_nosurr.
Qed.

Lemma join_nosurr (ps : list name) : forallb (forallb nosurr) ps = true -> forallb nosurr (join ps) = true.
Proof.
  induction ps as [|p ps IH]; [reflexivity|]. cbn [forallb]. intros H.
  apply andb_true_iff in H as [Hp Hps]. destruct ps as [|q ps]; [exact Hp|].
  rewrite join_cons by discriminate. rewrite forallb_app, Hp. cbn [forallb andb].
  now rewrite (IH Hps).
Qed.

Lemma valid_parts_nosurr l ps :
  forallb (valid_part l) ps = true -> forallb nosurr (join ps) = true.
Proof.
  intros H. apply join_nosurr. apply forallb_forall. intros p Hp.
  rewrite forallb_forall in H. eapply valid_nosurr. now apply H.
Qed.

(* --------------------------------------------------------------------- _split *)
Lemma gen_split_unfold l n :
  gen_split l n gen_delimiter =
  if str_eqb n INBOX then PRet []
  else let parts := py_split gen_delimiter n in
       if existsb (fun part => negb (gen_valid_part l part)) parts then PNotSupported
       else match fsencode_len (py_join gen_delimiter parts) with
            | None => PUnicodeError
            | Some k => if (250 <? k)%N then PNotSupported else PRet parts
            end.
Proof. destruct l; reflexivity. Qed.

Theorem gen_split_agrees l n : gen_split l n gen_delimiter = to_res (lsplit_len l n).
Proof.
  rewrite gen_split_unfold. unfold lsplit_len, lsplit, gen_delimiter. cbv zeta.
  change (str_eqb n INBOX) with (name_eqb n INBOX).
  destruct (name_eqb n INBOX); [reflexivity|].
  rewrite py_split_delim, existsb_invalid, py_join_delim, join_split.
  destruct (forallb (valid_part l) (split n)) eqn:E; cbn [negb]; [|reflexivity].
  rewrite fsencode_len_nosurr.
  - rewrite join_split. unfold NAME_MAX_GUARD.
    destruct (250 <? utf8_len n)%N; reflexivity.
  - rewrite <- (join_split n). eapply valid_parts_nosurr. exact E.
Qed.

(* accepted by the code => accepted by the hand model, with the same parts;
   and conversely for names of at most 250 UTF-8 bytes *)
Corollary gen_split_refines l n ps :
  gen_split l n gen_delimiter = PRet ps -> lsplit l n = Some ps.
Proof.
  rewrite gen_split_agrees. unfold lsplit_len. destruct (lsplit l n) as [ps'|]; [|discriminate].
  destruct (_ <? _)%N; [discriminate|]. cbn [to_res]. now intros [= ->].
Qed.

Corollary gen_split_complete l n ps :
  (utf8_len n <= 250)%N -> lsplit l n = Some ps -> gen_split l n gen_delimiter = PRet ps.
Proof.
  intros Hlen H. rewrite gen_split_agrees. unfold lsplit_len. rewrite H.
  assert (E : join ps = n \/ ps = []).
  { unfold lsplit in H. destruct (name_eqb n INBOX); [right; now injection H|].
    destruct (forallb _ _); [|discriminate]. injection H as <-. left. apply join_split. }
  unfold NAME_MAX_GUARD. destruct E as [-> | ->].
  - destruct (250 <? utf8_len n)%N eqn:E; [lia|reflexivity].
  - reflexivity.
Qed.

Lemma gen_split_never_unicode_error l n : gen_split l n gen_delimiter <> PUnicodeError.
Proof. rewrite gen_split_agrees. destruct (lsplit_len l n); discriminate. Qed.

(* ---------------------------------------------------- _join, _get_subdir, paths *)
Theorem gen_join_agrees l parts : gen_join l parts gen_delimiter = ljoin parts.
Proof.
  destruct l, parts as [|p ps]; try reflexivity;
    unfold gen_join, gen_Default__join, gen_Fs__join, gen_delimiter, ljoin; cbn [is_nil];
    apply py_join_delim.
Qed.

Theorem gen_get_subdir_agrees parts : gen_Default__get_subdir parts = get_subdir parts.
Proof.
  destruct parts as [|p ps]; [reflexivity|].
  unfold gen_Default__get_subdir, get_subdir. cbn [is_nil]. rewrite py_join_dot. reflexivity.
Qed.

Theorem gen_get_parts_agrees subdir : gen_Default__get_parts subdir = get_parts subdir.
Proof.
  destruct subdir as [|c s]; [reflexivity|].
  unfold gen_Default__get_parts, get_parts. cbn [is_nil skipn]. apply py_split_dot.
Qed.

Lemma gen_subdir_parts_agree parts :
  gen_Default__get_subdir parts = get_subdir parts
  /\ gen_Default__get_parts (gen_Default__get_subdir parts) = get_parts (get_subdir parts).
Proof.
  split; [apply gen_get_subdir_agrees|]. rewrite gen_get_subdir_agrees. apply gen_get_parts_agrees.
Qed.

Theorem gen_parts_path_agrees l root parts : gen_parts_path l root parts = get_path l root parts.
Proof.
  destruct l; unfold gen_parts_path, get_path.
  - unfold gen_Default__get_path. now rewrite gen_get_subdir_agrees.
  - reflexivity.
Qed.

Theorem gen_get_path_agrees l root n :
  gen_get_path l root n gen_delimiter =
  match lsplit_len l n with
  | Some parts => PRet (get_path l root parts)
  | None => PNotSupported
  end.
Proof.
  assert (E : gen_get_path l root n gen_delimiter =
              pybind (gen_split l n gen_delimiter) (fun parts => PRet (gen_parts_path l root parts)))
    by (destruct l; reflexivity).
  rewrite E, gen_split_agrees. destruct (lsplit_len l n); cbn [to_res pybind]; [|reflexivity].
  now rewrite gen_parts_path_agrees.
Qed.

(* ------------------------------------------------------------------ round trips *)
(* the name that list_folders gives back (_join) for the parts _split made of a
   name is that name *)
Theorem gen_join_split l n ps :
  n <> INBOX -> gen_split l n gen_delimiter = PRet ps -> gen_join l ps gen_delimiter = n.
Proof.
  intros Hn H. apply gen_split_refines in H.
  destruct (lsplit_Some _ _ _ H Hn) as [[Hne _] ->].
  rewrite gen_join_agrees. unfold ljoin.
  destruct (split n) eqn:E; [now apply split_nonempty in E|]. rewrite <- E. apply join_split.
Qed.

Lemma split_dot_nodot (p : name) : ~ In DOT p -> split_dot p = [p].
Proof.
  induction p as [|c p IH]; intros H; [reflexivity|]. cbn [split_dot].
  destruct (c =? DOT)%N eqn:E.
  - exfalso. apply H. left. apply N.eqb_eq in E. now subst.
  - rewrite IH; [reflexivity|]. intros Hin. apply H. now right.
Qed.

Lemma split_dot_app (p r : name) : ~ In DOT p -> split_dot (p ++ DOT :: r) = p :: split_dot r.
Proof.
  induction p as [|c p IH]; intros H.
  - cbn [app split_dot]. now rewrite N.eqb_refl.
  - cbn [app split_dot]. destruct (c =? DOT)%N eqn:E.
    + exfalso. apply H. left. apply N.eqb_eq in E. now subst.
    + rewrite IH; [reflexivity|]. intros Hin. apply H. now right.
Qed.

Lemma split_dot_join_dot (ps : list name) :
  ps <> [] -> Forall (fun p => ~ In DOT p) ps -> split_dot (join_dot ps) = ps.
Proof.
  induction ps as [|p ps IH]; intros Hne HF; [congruence|].
  inversion HF as [|? ? Hp HF']; subst. destruct ps as [|q ps].
  - cbn [join_dot]. now apply split_dot_nodot.
  - rewrite join_dot_cons, split_dot_app by exact Hp. rewrite IH; [reflexivity|discriminate|exact HF'].
Qed.

(* the parts that _list_folders reads back from the directory name that
   _get_subdir made of valid parts are those parts ('++' layout) *)
Theorem gen_parts_subdir ps :
  ps <> [] -> Forall (fun p => valid_part LPlus p = true) ps ->
  gen_Default__get_parts (gen_Default__get_subdir ps) = ps.
Proof.
  intros Hne HV. destruct (gen_subdir_parts_agree ps) as [_ ->].
  destruct ps as [|p ps]; [congruence|]. unfold get_subdir, get_parts.
  apply split_dot_join_dot; [discriminate|].
  eapply Forall_impl; [|exact HV]. intros a Ha. now apply valid_plus_nodot in Ha.
Qed.

(* ------------------------------------ confinement, over the generated get_path *)
Theorem gen_get_path_confined l rc n p :
  root_ok rc -> n <> INBOX ->
  gen_get_path l (root_str rc) n gen_delimiter = PRet p ->
  strictly_inside rc (normpath p).
Proof.
  intros [Hne HF] Hn. rewrite gen_get_path_agrees. unfold lsplit_len.
  destruct (lsplit l n) as [parts|] eqn:E; [|discriminate].
  destruct (_ <? _)%N; [discriminate|]. intros [= <-].
  destruct (lsplit_Some _ _ _ E Hn) as [[Hp HV] _].
  now apply get_path_strictly_inside.
Qed.

(* the hypotheses are satisfiable: "a/b" below "/r/u1", both layouts *)
Example gen_get_path_example :
  gen_get_path LPlus R_U1 [97;47;98]%N gen_delimiter = PRet [47;114;47;117;49;47;46;97;46;98]%N
  /\ gen_get_path LFs R_U1 [97;47;98]%N gen_delimiter = PRet [47;114;47;117;49;47;97;47;98]%N
  /\ gen_get_path LFs R_U1 [46;46;47;117;50]%N gen_delimiter = PNotSupported.
Proof. repeat split; vm_compute; reflexivity. Qed.
