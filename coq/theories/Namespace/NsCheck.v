(* Namespace/NsCheck.v — case checkers for harness/props/C11.py: a case is an
   initial state and a program with the outputs observed on the real server;
   the model recomputes them under vm_compute. *)
From PV Require Import Base.Prelude Namespace.Glob Namespace.NsBase Namespace.ListTree
     Namespace.NsModel Namespace.MdModel.

(* observed output of one command:
   cond code (0 OK, 100+k NO k, 999 an escaped exception),
   LIST/LSUB lines (name, attributes), STATUS (MAILBOXID index, UIDVALIDITY
   index, MESSAGES, UIDNEXT), MAILBOXID index of CREATE.  Indices number the
   distinct values in order of first appearance. *)
Definition expect : Type :=
  N * list (name * list N) * option (N * N * N * N) * option N.

Definition cond_code (c : cond) : N :=
  match c with COk => 0 | CNo k => 100 + k | CExc => 999 end.

Definition line_eqb (a b : name * list N) : bool :=
  name_eqb (fst a) (fst b) && eqb_list N.eqb (snd a) (snd b).

Fixpoint remove_first {A} (eqb : A -> A -> bool) (x : A) (l : list A) : option (list A) :=
  match l with
  | [] => None
  | y :: l' => if eqb x y then Some l'
               else match remove_first eqb x l' with
                    | Some r => Some (y :: r) | None => None end
  end.

Fixpoint perm_eqb {A} (eqb : A -> A -> bool) (a b : list A) : bool :=
  match a with
  | [] => match b with [] => true | _ => false end
  | x :: a' => match remove_first eqb x b with
               | Some b' => perm_eqb eqb a' b'
               | None => false
               end
  end.

(* pairs (model id, observed index) *)
Fixpoint functional (l : list (N * N)) : bool :=
  match l with
  | [] => true
  | (k, v) :: l' => forallb (fun kv => negb (fst kv =? k)%N || (snd kv =? v)%N) l' && functional l'
  end.
Definition swap (kv : N * N) : N * N := (snd kv, fst kv).

Record acc := { ok : bool; ids : list (N * N); uidvs : list (N * N) }.

Definition check_out (use_ids : bool) (a : acc) (o : out) (e : expect) : acc :=
  let '(cc, lines, st, nid) := e in
  let ok1 := (cond_code (o_cond o) =? cc)%N && perm_eqb line_eqb (o_list o) lines in
  let '(ok2, ids2, uv2) :=
      match o_status o, st with
      | None, None => (true, ids a, uidvs a)
      | Some m, Some (oi, ou, om, on) =>
        ((m_msgs m =? om)%N && (m_next m =? on)%N,
         if use_ids then (m_id m, oi) :: ids a else ids a, (m_id m, ou) :: uidvs a)
      | _, _ => (false, ids a, uidvs a)
      end in
  let '(ok3, ids3) :=
      match o_newid o, nid with
      | None, None => (true, ids2)
      | Some i, Some oi => (true, if use_ids then (i, oi) :: ids2 else ids2)
      | _, _ => (false, ids2)
      end in
  {| ok := ok a && ok1 && ok2 && ok3; ids := ids3; uidvs := uv2 |}.

Definition acc_final (a : acc) : bool :=
  ok a && functional (ids a) && functional (map swap (ids a)) && functional (uidvs a).

Definition acc0 : acc := {| ok := true; ids := []; uidvs := [] |}.

(* ------------------------------------------------------------- dict *)
Fixpoint chk_dict_run (uid0 : N) (st : dstate) (steps : list (op * expect)) (a : acc) : bool :=
  match steps with
  | [] => acc_final a
  | (o, e) :: rest =>
    let '(st', out) := dstep uid0 st o in
    chk_dict_run uid0 st' rest (check_out true a out e)
  end.

(* (uid0, inbox, other mailboxes, program) *)
Definition chk_dict (c : N * mbox * list (name * mbox) * N * list (op * expect)) : bool :=
  let '(uid0, inbox, boxes, nx, steps) := c in
  chk_dict_run uid0 {| d_inbox := inbox; d_set := boxes; d_subs := []; d_next := nx |} steps acc0.

(* ---------------------------------------------------------- maildir *)
Fixpoint chk_md_run (uid0 : N) (l : layout) (st : mstate) (steps : list (op * expect)) (a : acc) : bool :=
  match steps with
  | [] => acc_final a
  | (o, e) :: rest =>
    let '(st', out) := mstep uid0 l st o in
    chk_md_run uid0 l st' rest (check_out true a out e)
  end.

Definition chk_md (c : layout * mbox * N * list (op * expect)) : bool :=
  let '(l, inbox, nx, steps) := c in
  chk_md_run 1 l {| x_inbox := inbox; x_folders := []; x_subs := []; x_next := nx |} steps acc0.

(* ------------------------------------------------------------- glob *)
(* (query, name, listed?) for a name other than INBOX; (query, listed?) for INBOX *)
Definition chk_glob (c : list N * list N * bool) : bool :=
  let '(q, n, b) := c in Bool.eqb (model_match q n) b.
Definition chk_glob_inbox (c : list N * bool) : bool :=
  Bool.eqb (model_match_ci (fst c) INBOX) (snd c).
(* exhaustive sweep: one query against many names, expected = the list of matches *)
Definition chk_glob_many (ns : list (list N)) (c : list N * list bool) : bool :=
  let '(q, bs) := c in eqb_list Bool.eqb (map (model_match q) ns) bs.

(* attribute lists, named to keep generated case files small *)
Definition A3 : list N := [3]%N.
Definition A2 : list N := [2]%N.
Definition A12 : list N := [1; 2]%N.
Definition A13 : list N := [1; 3]%N.
Definition A1 : list N := [1]%N.

(* ListTree alone: names -> sorted (name, attrs) of list(); get; get_renames *)
Definition chk_tree_list (c : list name * list (name * list N)) : bool :=
  perm_eqb line_eqb (map (fun e => (e_name e, attrs e)) (tlist (tupdate (fst c)))) (snd c).
Definition pair_eqb (a b : name * name) : bool := name_eqb (fst a) (fst b) && name_eqb (snd a) (snd b).
Definition chk_tree_renames (c : list name * name * name * list (name * name)) : bool :=
  let '(ns, a, b, r) := c in perm_eqb pair_eqb (trenames (tupdate ns) a b) r.
Definition chk_tree_get (c : list name * name * option (list N)) : bool :=
  let '(ns, a, r) := c in
  match tget (tupdate ns) a, r with
  | None, None => true
  | Some e, Some at_ => eqb_list N.eqb (attrs e) at_
  | _, _ => false
  end.
