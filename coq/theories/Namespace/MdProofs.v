(* Namespace/MdProofs.v — the maildir namespace model: refused commands change
   nothing, INBOX is protected, RENAME carries every folder's contents. *)
From PV Require Import Base.Prelude Namespace.Glob Namespace.GlobProofs Namespace.NsBase
     Namespace.NsBaseProofs Namespace.ListTree Namespace.ListTreeProofs Namespace.NsModel
     Namespace.NsProofs Namespace.MdModel.
Require Import Lia.

Section MdStep.
  Variable uid0 : N.
  Variable lay : layout.
  Notation step := (mstep uid0 lay).

  (* a tagged NO leaves the folder set, the subscriptions and every mailbox alone *)
  Theorem m_error_no_effect st o k : o_cond (snd (step st o)) = CNo k -> fst (step st o) = st.
  Proof.
    destruct o; cbn [mstep]; cbv zeta.
    - destruct (create_name n) as [n'|k']; [|reflexivity].
      destruct (lsplit lay n'); [|reflexivity].
      destruct (negb (ancestors_ok st p)); [reflexivity|].
      destruct (amem n' (x_folders st)); [reflexivity|].
      destruct (negb (parent_ok lay st p)); [reflexivity|]. cbn. discriminate.
    - destruct (name_eqb (norm n) INBOX); [reflexivity|].
      destruct (lsplit lay (norm n)); [|reflexivity].
      destruct (negb (amem (norm n) (x_folders st))); [reflexivity|].
      destruct lay; [cbn; discriminate|].
      destruct (has_child_folder st p); [reflexivity|cbn; discriminate].
    - destruct (rename_dest b) as [b'|k']; [|reflexivity].
      destruct (name_eqb (norm a) INBOX); [reflexivity|].
      destruct (starts_with (norm a ++ [DELIM]) b'); [reflexivity|].
      destruct (tget (x_tree st) (norm a)); [|reflexivity].
      destruct (tget (x_tree st) b'); [reflexivity|].
      destruct (lsplit lay (norm a)); [|reflexivity].
      destruct (lsplit lay b'); [|reflexivity].
      destruct (add_superiors uid0 _ _ _ _) as [f1 nx].
      destruct lay; [cbn; discriminate|].
      destruct (amem (norm a) f1); cbn; discriminate.
    - destruct (inbox_case_bad (norm n)); [reflexivity|].
      destruct (lsplit lay (norm n)); [cbn; discriminate|reflexivity].
    - destruct (lsplit lay (norm n)); [cbn; discriminate|reflexivity].
    - reflexivity.
    - reflexivity.
    - destruct (x_get lay st (norm n)); reflexivity.
    - destruct (x_get lay st (norm n)); reflexivity.
    - destruct (x_get lay st (norm n)); [cbn; discriminate|reflexivity].
  Qed.

  (* INBOX cannot be created, deleted, renamed onto; the name always resolves
     to the user's INBOX and only APPEND INBOX changes its contents *)
  Theorem m_inbox_guards st n0 b0 : norm n0 = INBOX ->
    forall o, In o [OCreate n0; ODelete n0; ORename b0 n0] ->
    exists k, o_cond (snd (step st o)) = CNo k /\ fst (step st o) = st.
  Proof.
    intros En o Ho.
    destruct Ho as [<-|[<-|[<-|[]]]]; cbn [mstep]; cbv zeta;
      rewrite ?(create_name_inbox _ En), ?(rename_dest_inbox _ En), ?En, ?name_eqb_refl; cbn; eauto.
  Qed.

  Theorem m_inbox_resolves st : x_get lay st INBOX = inl (x_inbox st).
  Proof. unfold x_get. now rewrite name_eqb_refl. Qed.

  Theorem m_inbox_kept st o :
    (forall n, o = OAppend n -> norm n <> INBOX) -> x_inbox (fst (step st o)) = x_inbox st.
  Proof.
    intro Ha. destruct o; cbn [mstep]; cbv zeta;
      repeat match goal with
             | |- context [match create_name ?n with _ => _ end] => destruct (create_name n)
             | |- context [match rename_dest ?n with _ => _ end] => destruct (rename_dest n)
             | |- context [if ?c then _ else _] => destruct c eqn:?
             | |- context [match lsplit ?l ?n with _ => _ end] => destruct (lsplit l n)
             | |- context [match tget ?t ?n with _ => _ end] => destruct (tget t n)
             | |- context [match x_get ?l ?s ?n with _ => _ end] => destruct (x_get l s n)
             | |- context [let '(_, _) := ?p in _] => destruct p
             | |- context [match lay with _ => _ end] => destruct lay
             end; cbn [fst x_with x_inbox]; try reflexivity.
    all: unfold x_append; rewrite (proj2 (name_eqb_neq _ _) (Ha n eq_refl)); reflexivity.
  Qed.

  (* LIST / LSUB go through the same ListTree *)
  Theorem m_list_exact st ref pat : pat <> [] ->
    let out := snd (step st (OList ref pat)) in
    fst (step st (OList ref pat)) = st /\ o_cond out = COk
    /\ o_list out = map (fun e => (e_name e, attrs e))
                        (tmatching (tupdate (INBOX :: folder_names st)) (norm ref ++ pat)).
  Proof. intro Hp. cbn [mstep fst snd]. unfold list_out. destruct pat; [congruence|]. cbn. auto. Qed.

  Theorem m_lsub_exact st ref pat : pat <> [] ->
    let out := snd (step st (OLsub ref pat)) in
    fst (step st (OLsub ref pat)) = st /\ o_cond out = COk
    /\ o_list out = map (fun e => (e_name e, attrs e))
                        (tmatching (tupdate (INBOX :: x_subs st)) (norm ref ++ pat)).
  Proof. intro Hp. cbn [mstep fst snd]. unfold list_out. destruct pat; [congruence|]. cbn. auto. Qed.
End MdStep.

(* RENAME: every folder keeps its contents; the folders at or below the source
   get the destination in place of the source prefix, all others keep their name *)
Definition move_key (a b k : name) : name :=
  match drop_prefix (split a) (split k) with
  | Some rest => b ++ sfx rest
  | None => k
  end.

Lemma move_folders_spec a b f :
  map snd (move_folders a b f) = map snd f
  /\ map fst (move_folders a b f) = map (move_key a b) (map fst f).
Proof.
  unfold move_folders, move_key. induction f as [|[k v] f [IH1 IH2]]; cbn [map fst snd]; [auto|].
  destruct (drop_prefix (split a) (split k)); cbn [fst snd]; rewrite IH1, IH2; auto.
Qed.

Lemma move_key_under a b k : bprefix a k ->
  exists rest, Forall nodelim rest /\ k = a ++ sfx rest /\ move_key a b k = b ++ sfx rest.
Proof.
  intro H. apply bprefix_sfx in H as (rest & HF & ->). exists rest. split; [exact HF|]. split; [reflexivity|].
  unfold move_key. rewrite split_sfx by exact HF.
  assert (E : drop_prefix (split a) (split a ++ rest) = Some rest) by (now apply drop_prefix_spec).
  now rewrite E.
Qed.

Lemma move_key_other a b k : ~ bprefix a k -> move_key a b k = k.
Proof.
  intro H. unfold move_key. destruct (drop_prefix (split a) (split k)) as [rest|] eqn:E; [|reflexivity].
  exfalso. apply H. apply drop_prefix_spec in E. apply bprefix_split. rewrite E.
  apply prefpath_app, split_nonempty.
Qed.

(* added superiors are fresh empty folders, existing folders are untouched *)
Lemma add_superiors_spec uid0 ks parts : forall f nx,
  let '(f', nx') := add_superiors uid0 ks parts f nx in
  (forall k, In k (map fst f) -> alookup k f' = alookup k f)
  /\ (forall k m, alookup k f' = Some m -> alookup k f = Some m \/ (m_msgs m = 0%N /\ ~ In k (map fst f))).
Proof.
  induction ks as [|k ks IH]; intros f nx; cbn [add_superiors].
  - split; auto.
  - destruct (amem (join (firstn k parts)) f) eqn:Em; [apply IH|].
    specialize (IH (aset (join (firstn k parts)) (fresh uid0 nx) f) (nx + 1)%N).
    destruct (add_superiors uid0 ks parts _ _) as [f' nx'].
    destruct IH as [I1 I2].
    assert (Hn : ~ In (join (firstn k parts)) (map fst f)) by (intro H; apply amem_true in H; congruence).
    split.
    + intros x Hx. rewrite I1.
      * rewrite alookup_aset. destruct (name_eqb x (join (firstn k parts))) eqn:E; [|reflexivity].
        apply name_eqb_eq in E. subst. contradiction.
      * rewrite aset_keys, Em. apply in_or_app. now left.
    + intros x m H. apply I2 in H as [H|[H1 H2]].
      * rewrite alookup_aset in H. destruct (name_eqb x (join (firstn k parts))) eqn:E; [|now left].
        apply name_eqb_eq in E. subst x. injection H as <-. right. split; [reflexivity|exact Hn].
      * right. split; [exact H1|]. intro Hx. apply H2. rewrite aset_keys, Em. apply in_or_app. now left.
Qed.

Theorem m_rename_spec uid0 lay st a0 b0 :
  o_cond (snd (mstep uid0 lay st (ORename a0 b0))) = COk ->
  let a := norm a0 in let b := norm b0 in
  let st' := fst (mstep uid0 lay st (ORename a0 b0)) in
  exists f1 nx,
    add_superiors uid0 (seq 1 (length (split b) - 1)) (split b) (x_folders st) (x_next st) = (f1, nx)
    /\ map snd (x_folders st') = map snd f1
    /\ map fst (x_folders st') = map (move_key a b) (map fst f1)
    /\ x_inbox st' = x_inbox st /\ x_subs st' = x_subs st
    /\ a <> INBOX /\ b <> INBOX
    /\ in_closure (INBOX :: folder_names st) a /\ ~ in_closure (INBOX :: folder_names st) b.
Proof.
  cbn [mstep]. cbv zeta.
  destruct (rename_dest b0) as [b'|k] eqn:Erd; [|cbn; discriminate].
  destruct (rename_dest_inl _ _ Erd) as [Eb0 ->]. pose proof (proj2 (name_eqb_neq _ _) Eb0) as Eb.
  destruct (name_eqb (norm a0) INBOX) eqn:Ea; [cbn; discriminate|].
  destruct (starts_with (norm a0 ++ [DELIM]) (norm b0)); [cbn; discriminate|].
  destruct (tget (x_tree st) (norm a0)) eqn:Eta; [|cbn; discriminate].
  destruct (tget (x_tree st) (norm b0)) eqn:Etb; [cbn; discriminate|].
  unfold lsplit. rewrite Ea, Eb.
  destruct (forallb (valid_part lay) (split (norm a0))); [|cbn; discriminate].
  destruct (forallb (valid_part lay) (split (norm b0))); [|cbn; discriminate].
  destruct (add_superiors uid0 _ _ _ _) as [f1 nx] eqn:Eadd.
  assert (Hcl : in_closure (INBOX :: folder_names st) (norm a0) /\ ~ in_closure (INBOX :: folder_names st) (norm b0)).
  { split; [apply tget_spec; unfold x_tree in Eta; congruence|].
    intro H. apply tget_spec in H. unfold x_tree in Etb. congruence. }
  apply name_eqb_neq in Ea. apply name_eqb_neq in Eb.
  destruct lay.
  - cbn [fst snd o_cond out_ok out_cond x_with x_folders x_inbox x_subs]. intros _.
    exists f1, nx. destruct (move_folders_spec (norm a0) (norm b0) f1) as [M1 M2]. tauto.
  - destruct (amem (norm a0) f1); [|cbn; discriminate].
    cbn [fst snd o_cond out_ok out_cond x_with x_folders x_inbox x_subs]. intros _.
    exists f1, nx. destruct (move_folders_spec (norm a0) (norm b0) f1) as [M1 M2]. tauto.
Qed.
