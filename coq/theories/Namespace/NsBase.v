(* Namespace/NsBase.v — mailbox names as code-point strings; Python
   str.split / str.join with the one-character hierarchy delimiter '/';
   association lists standing for Python dicts (insertion ordered).
   Definitions only. *)
From PV Require Import Base.Prelude Namespace.Glob.

Definition name := list N.
Definition name_eqb : name -> name -> bool := eqb_list N.eqb.

Definition INBOX : name := [73; 78; 66; 79; 88]%N.

(* name.split('/') — never empty *)
Fixpoint split (s : name) : list name :=
  match s with
  | [] => [[]]
  | c :: s' =>
    if (c =? DELIM)%N then [] :: split s'
    else match split s' with
         | p :: ps => (c :: p) :: ps
         | [] => [[c]]
         end
  end.

(* '/'.join(parts) *)
Fixpoint join (ps : list name) : name :=
  match ps with
  | [] => []
  | p :: ps' => match ps' with [] => p | _ => p ++ DELIM :: join ps' end
  end.

Definition path := list name.
Definition path_eqb : path -> path -> bool := eqb_list name_eqb.

Fixpoint is_prefix {A} (eqb : A -> A -> bool) (p l : list A) : bool :=
  match p, l with
  | [], _ => true
  | x :: p', y :: l' => eqb x y && is_prefix eqb p' l'
  | _ :: _, [] => false
  end.

(* suffix of a node below [from]: delimiter.join((name, child.name)) repeated *)
Fixpoint sfx (rest : path) : name :=
  match rest with [] => [] | p :: r => DELIM :: p ++ sfx r end.

(* ------------------------------------------------ dict-like assoc lists *)
Section Assoc.
  Context {V : Type}.
  Fixpoint alookup (k : name) (l : list (name * V)) : option V :=
    match l with
    | [] => None
    | (k', v) :: l' => if name_eqb k k' then Some v else alookup k l'
    end.
  (* d[k] = v : replace in place, else append *)
  Fixpoint aset (k : name) (v : V) (l : list (name * V)) : list (name * V) :=
    match l with
    | [] => [(k, v)]
    | (k', v') :: l' => if name_eqb k k' then (k', v) :: l' else (k', v') :: aset k v l'
    end.
  (* del d[k] (no-op when absent; callers check) *)
  Fixpoint adel (k : name) (l : list (name * V)) : list (name * V) :=
    match l with
    | [] => []
    | (k', v') :: l' => if name_eqb k k' then l' else (k', v') :: adel k l'
    end.
  Definition amem (k : name) (l : list (name * V)) : bool :=
    match alookup k l with Some _ => true | None => false end.
End Assoc.

Definition mem_name (n : name) (l : list name) : bool := existsb (name_eqb n) l.

(* name.isascii() and name.upper() == 'INBOX' (Mailbox.__init__, dict
   get_mailbox): the two ASCII cases of each letter.  (str.upper() alone also
   maps U+0131 to 'I'; the isascii() guard of the fixed code excludes it.) *)
Definition upper_is (c u : N) : bool := ((c =? u) || (c =? u + 32))%N.

Fixpoint upper_matches (s u : list N) : bool :=
  match s, u with
  | [], [] => true
  | c :: s', x :: u' => upper_is c x && upper_matches s' u'
  | _, _ => false
  end.

Definition is_inbox_anycase (n : name) : bool := upper_matches n INBOX.

(* pymap.parsing.specials.Mailbox: any case of INBOX is the name 'INBOX' *)
Definition norm (n : name) : name := if is_inbox_anycase n then INBOX else n.
