(* Namespace/NsBase.v — mailbox names as code-point strings; Python
   str.split / str.join with the one-character hierarchy delimiter '/';
   association lists standing for Python dicts (insertion ordered).
   Definitions only. *)
From PV Require Import Base.Prelude Namespace.Glob.

Definition name := list N.
Definition name_eqb : name -> name -> bool := eqb_list N.eqb.

Definition INBOX : name := [73; 78; 66; 79; 88]%N.

(* name.split('/') — never empty *)
Fixpoint split (s : name) : list name :=
  match s with
  | [] => [[]]
  | c :: s' =>
    if (c =? DELIM)%N then [] :: split s'
    else match split s' with
         | p :: ps => (c :: p) :: ps
         | [] => [[c]]
         end
  end.

(* '/'.join(parts) *)
Fixpoint join (ps : list name) : name :=
  match ps with
  | [] => []
  | p :: ps' => match ps' with [] => p | _ => p ++ DELIM :: join ps' end
  end.

Definition path := list name.
Definition path_eqb : path -> path -> bool := eqb_list name_eqb.

Fixpoint is_prefix {A} (eqb : A -> A -> bool) (p l : list A) : bool :=
  match p, l with
  | [], _ => true
  | x :: p', y :: l' => eqb x y && is_prefix eqb p' l'
  | _ :: _, [] => false
  end.

(* suffix of a node below [from]: delimiter.join((name, child.name)) repeated *)
Fixpoint sfx (rest : path) : name :=
  match rest with [] => [] | p :: r => DELIM :: p ++ sfx r end.

(* ------------------------------------------------ dict-like assoc lists *)
Section Assoc.
  Context {V : Type}.
  Fixpoint alookup (k : name) (l : list (name * V)) : option V :=
    match l with
    | [] => None
    | (k', v) :: l' => if name_eqb k k' then Some v else alookup k l'
    end.
  (* d[k] = v : replace in place, else append *)
  Fixpoint aset (k : name) (v : V) (l : list (name * V)) : list (name * V) :=
    match l with
    | [] => [(k, v)]
    | (k', v') :: l' => if name_eqb k k' then (k', v) :: l' else (k', v') :: aset k v l'
    end.
  (* del d[k] (no-op when absent; callers check) *)
  Fixpoint adel (k : name) (l : list (name * V)) : list (name * V) :=
    match l with
    | [] => []
    | (k', v') :: l' => if name_eqb k k' then l' else (k', v') :: adel k l'
    end.
  Definition amem (k : name) (l : list (name * V)) : bool :=
    match alookup k l with Some _ => true | None => false end.
End Assoc.

Definition mem_name (n : name) (l : list name) : bool := existsb (name_eqb n) l.

(* name.isascii() and name.upper() == 'INBOX' (Mailbox.__init__, dict
   get_mailbox): the two ASCII cases of each letter.  (str.upper() alone also
   maps U+0131 to 'I'; the isascii() guard of the fixed code excludes it.) *)
Definition upper_is (c u : N) : bool := ((c =? u) || (c =? u + 32))%N.

Fixpoint upper_matches (s u : list N) : bool :=
  match s, u with
  | [], [] => true
  | c :: s', x :: u' => upper_is c x && upper_matches s' u'
  | _, _ => false
  end.

Definition is_inbox_anycase (n : name) : bool := upper_matches n INBOX.

(* pymap.parsing.specials.Mailbox: any case of INBOX is the name 'INBOX' *)
Definition norm (n : name) : name := if is_inbox_anycase n then INBOX else n.

(* BaseSession._new_name: the name a client may give to a new mailbox.
   strip: one trailing hierarchy delimiter is only a declaration (RFC 3501
   6.3.3) unless the name is the delimiter itself; a name that is (a case
   variant of) INBOX after that exists already (inr 1 = ALREADYEXISTS); a
   first component that is a case variant of INBOX other than 'INBOX' is
   refused (inr 4 = CANNOT). *)
Fixpoint last_is_delim (n : name) : bool :=
  match n with
  | [] => false
  | [c] => (c =? DELIM)%N
  | _ :: n' => last_is_delim n'
  end.

Definition strip1 (n : name) : name :=
  if last_is_delim n && negb (name_eqb n [DELIM]) then removelast n else n.

Definition first_part (n : name) : name := hd [] (split n).

(* BaseSession._check_inbox_case *)
Definition inbox_case_bad (n : name) : bool :=
  let f := first_part n in negb (name_eqb f INBOX) && is_inbox_anycase f.

Definition new_name (strip : bool) (n : name) : name + N :=
  let n1 := if strip then strip1 n else n in
  let f := first_part n1 in
  if is_inbox_anycase f then
    if name_eqb n1 f then inr 1%N
    else if name_eqb f INBOX then inl n1 else inr 4%N
  else inl n1.

(* do_create / do_rename guard + _new_name: inr 0 = "Cannot ... INBOX." *)
Definition create_name (n0 : name) : name + N :=
  let n := norm n0 in if name_eqb n INBOX then inr 0%N else new_name true n.
Definition rename_dest (b0 : name) : name + N :=
  let b := norm b0 in if name_eqb b INBOX then inr 0%N else new_name false b.
