(* Namespace/ListTree.v — model of pymap/listtree.py (ListTree.update, list,
   get, get_renames, list_matching, ListEntry.attributes).

   The tree of _TreeNode objects is represented by the list of its nodes, each
   identified by its path from the root (the list of name parts), in order of
   creation, with its [exists] flag.  A node's children are the nodes whose
   path extends it by one part.  Names are rebuilt the way _iter does:
   child_name = delimiter.join((name, child.name)) below a non-root node (the
   fixed code tests `node.parent is not None`), child.name below the root.
   Definitions only. *)
From PV Require Import Base.Prelude Namespace.Glob Namespace.NsBase.

Definition tree := list (path * bool).

Fixpoint tfind (p : path) (t : tree) : option bool :=
  match t with
  | [] => None
  | (q, ex) :: t' => if path_eqb p q then Some ex else tfind p t'
  end.

(* node.children.get(name) or create; [mark] = "child.exists = True" *)
Fixpoint tensure (p : path) (mark : bool) (t : tree) : tree :=
  match t with
  | [] => [(p, mark)]
  | (q, ex) :: t' => if path_eqb p q then (q, ex || mark) :: t'
                     else (q, ex) :: tensure p mark t'
  end.

(* _TreeNode.add( *parts ) from the root: [done] = parts already walked (reversed) *)
Fixpoint tadd_from (done_rev : path) (parts : path) (t : tree) : tree :=
  match parts with
  | [] => t
  | x :: rest =>
    let p := rev (x :: done_rev) in
    tadd_from (x :: done_rev) rest
              (tensure p (match rest with [] => true | _ => false end) t)
  end.

Definition tadd (t : tree) (nm : name) : tree := tadd_from [] (split nm) t.

(* ListTree(delimiter).update( *names ) *)
Definition tupdate (names : list name) : tree := fold_left tadd names [].

(* bool(node.children) *)
Definition is_child (p q : path) : bool :=
  (length q =? S (length p))%nat && is_prefix name_eqb p q.
Definition has_children (t : tree) (p : path) : bool :=
  existsb (fun qe => is_child p (fst qe)) t.

(* the name _iter gives to the node at path p (non-empty) *)
Definition node_name (p : path) : name := join p.

Record entry := { e_name : name; e_exists : bool; e_children : bool }.

(* ListTree.list() as a list (order of creation, not the DFS order of _iter:
   outputs are compared sorted) *)
Definition tlist (t : tree) : list entry :=
  map (fun qe => {| e_name := node_name (fst qe); e_exists := snd qe;
                    e_children := has_children t (fst qe) |}) t.

(* ListTree.get(name) *)
Definition tget (t : tree) (nm : name) : option entry :=
  match tfind (split nm) t with
  | None => None
  | Some ex => Some {| e_name := nm; e_exists := ex;
                       e_children := has_children t (split nm) |}
  end.

(* ListTree.get_renames(from, to): existing nodes at or below [from] *)
Fixpoint drop_prefix (p q : path) : option path :=
  match p, q with
  | [], rest => Some rest
  | x :: p', y :: q' => if name_eqb x y then drop_prefix p' q' else None
  | _ :: _, [] => None
  end.

Definition trenames (t : tree) (src dst : name) : list (name * name) :=
  match tfind (split src) t with
  | None => []
  | Some _ =>
    flat_map (fun qe : path * bool =>
                match drop_prefix (split src) (fst qe) with
                | Some rest => if snd qe then [(src ++ sfx rest, dst ++ sfx rest)] else []
                | None => []
                end) t
  end.

(* ListTree.list_matching(ref_name, filter_) *)
Definition tmatching (t : tree) (query : list N) : list entry :=
  filter (fun e => if name_eqb (e_name e) INBOX then model_match_ci query INBOX
                   else model_match query (e_name e)) (tlist t).

(* ListEntry.attributes (marked is never set by these backends):
   1 = Noselect, 2 = HasChildren, 3 = HasNoChildren *)
Definition attrs (e : entry) : list N :=
  (if e_exists e then [] else [1%N]) ++ [if e_children e then 2%N else 3%N].
