(* Namespace/SubsFileCheck.v — case checkers of harness/c11_subsfile.py.
     chk_subs_write  (names given to add() one by one, bytes the real
                     Subscriptions wrote | None)
     chk_subs_read   (bytes of a file, names the real Subscriptions read | None)
     chk_subs_trip   (names, list(read(write(names))) ) — and, when every name
                     is line_safe, the model's answer is dedup names
     chk_utf8        (bytes, bytes.decode('utf-8') | None)                    *)
From PV Require Import Base.Prelude MaildirFS.UidList Namespace.SubsFile.
Local Open Scope N_scope.

Definition names_eqb : list (list N) -> list (list N) -> bool := eqb_list bytes_eqb.

Definition chk_subs_write (c : list (list N) * option bytes) : bool :=
  option_eqb bytes_eqb (write_file (dedup (fst c))) (snd c).

Definition chk_subs_read (c : bytes * option (list (list N))) : bool :=
  option_eqb names_eqb (read_file (fst c)) (snd c).

Definition chk_subs_trip (c : list (list N) * option (list (list N))) : bool :=
  let m := match write_file (dedup (fst c)) with Some b => read_file b | None => None end in
  option_eqb names_eqb m (snd c)
  && (negb (forallb line_safe (fst c)) || option_eqb names_eqb m (Some (dedup (fst c)))).

Definition chk_utf8 (c : bytes * option (list N)) : bool :=
  option_eqb bytes_eqb (utf8_decode (fst c)) (snd c).
