(* Sync/ThreadRWLock.v -- pymap.concurrent._ThreadingReadWriteLock (the lock the
   maildir backend uses: its commands run in a thread pool) as a transition
   system over any number of threads.  Definitions only.

       def _acquire_read(self):                 def _release_read(self):
           with self._read_lock:          RA1       with self._read_lock:         RR1
               if self._counter == 0:     RA2           self._counter -= 1        RR2 RR3
                   self._write_lock.acquire() RA3       if self._counter == 0:    RR4
               self._counter += 1     RA4 RA5               self._write_lock.release() RR5
                                          RA6 (with exit)                         RR6 (with exit)
       read_lock:  self._acquire_read(); try: yield (RBody) finally: self._release_read()
       write_lock: with self._write_lock: (WA1) yield (WBody) (WR1)

   Granularity: one step = one `threading.Lock.acquire()` (blocking, not
   re-entrant), one `release()` (no ownership: any thread may release; on an
   unlocked lock it is `RuntimeError: release unlocked lock`), one read of
   `_counter`, or one write of `_counter` (`+= 1` is a read and a write).
   The scheduler is an arbitrary list of thread ids; picking a thread whose
   next step is blocked (or that has finished, or does not exist) is a stutter.

   A thread runs a straight-line program of sections; [sraise]: the body of
   the section raises, the `finally` / `with` exit paths run and the exception
   then ends the thread ([TFailed]).  Between the return of `_acquire_read()`
   and `try:` there is no instruction that can raise, and the threading
   variant has no suspension point other than the `yield`, so an exception
   (or the CancelledError of a cancelled command) can only surface in the body. *)
From PV Require Import Base.Prelude Sync.RWLock.

Record sect := mkSect { sk : kind; sraise : bool }.

Inductive thpc :=
| TIdle               (* about to call read_lock() / write_lock(), or to finish *)
| RA1                 (* _read_lock.acquire() *)
| RA2                 (* read _counter for `== 0` *)
| RA3                 (* _write_lock.acquire(), holding the read mutex *)
| RA4                 (* `+= 1`: read _counter *)
| RA5 (v : nat)       (* `+= 1`: write v + 1 *)
| RA6                 (* _read_lock.release() *)
| RBody               (* inside the read section *)
| RR1                 (* _read_lock.acquire() *)
| RR2                 (* `-= 1`: read _counter *)
| RR3 (v : nat)       (* `-= 1`: write v - 1 *)
| RR4                 (* read _counter for `== 0` *)
| RR5                 (* _write_lock.release() *)
| RR6                 (* _read_lock.release() *)
| WA1                 (* _write_lock.acquire() *)
| WBody               (* inside the write section *)
| WR1                 (* _write_lock.release() *)
| TDone
| TFailed.            (* the body's exception left the thread, after the exit path ran *)

(* [texc]: the body of the current section raises / has raised *)
Record thread := mkTh { tprog : list sect; tp : thpc; texc : bool }.

Record tstate := mkTState {
  ths : list thread;
  trl : bool;          (* _read_lock.locked() *)
  twl : bool;          (* _write_lock.locked() *)
  tcnt : nat;          (* _counter *)
  terr : bool          (* RuntimeError: release unlocked lock, or a negative counter *)
}.

Definition tinit (progs : list (list sect)) : tstate :=
  mkTState (map (fun p => mkTh p TIdle false) progs) false false 0 false.

Definition tset_th (st : tstate) (t : nat) (th : thread) : tstate :=
  mkTState (upd (ths st) t th) (trl st) (twl st) (tcnt st) (terr st).
Definition tset_rl (st : tstate) (b : bool) : tstate :=
  mkTState (ths st) b (twl st) (tcnt st) (terr st).
Definition tset_wl (st : tstate) (b : bool) : tstate :=
  mkTState (ths st) (trl st) b (tcnt st) (terr st).
Definition tset_cnt (st : tstate) (n : nat) : tstate :=
  mkTState (ths st) (trl st) (twl st) n (terr st).
Definition tset_err (st : tstate) : tstate :=
  mkTState (ths st) (trl st) (twl st) (tcnt st) true.

(* threading.Lock.release(): RuntimeError on an unlocked lock *)
Definition trelease_rl (st : tstate) : tstate :=
  if trl st then tset_rl st false else tset_err st.
Definition trelease_wl (st : tstate) : tstate :=
  if twl st then tset_wl st false else tset_err st.

(* the section is left: on to the next one, or the exception ends the thread *)
Definition tfinish (th : thread) : thread :=
  mkTh (tprog th) (if texc th then TFailed else TIdle) false.

(* thread t can take a step (it exists, has not finished, is not blocked) *)
Definition tenabled (st : tstate) (t : nat) : bool :=
  match nth_error (ths st) t with
  | None => false
  | Some th =>
      match tp th with
      | RA1 | RR1 => negb (trl st)
      | RA3 | WA1 => negb (twl st)
      | TDone | TFailed => false
      | _ => true
      end
  end.

(* one step of thread t; a stutter if it is blocked / finished / absent *)
Definition tstep (st : tstate) (t : nat) : tstate :=
  match nth_error (ths st) t with
  | None => st
  | Some th =>
      let go := fun p => tset_th st t (mkTh (tprog th) p (texc th)) in
      match tp th with
      | TIdle =>
          match tprog th with
          | [] => go TDone
          | s :: rest =>
              tset_th st t (mkTh rest (match sk s with KR => RA1 | KW => WA1 end) (sraise s))
          end
      | RA1 => if trl st then st else tset_rl (go RA2) true
      | RA2 => go (if Nat.eqb (tcnt st) 0 then RA3 else RA4)
      | RA3 => if twl st then st else tset_wl (go RA4) true
      | RA4 => go (RA5 (tcnt st))
      | RA5 v => tset_cnt (go RA6) (S v)
      | RA6 => trelease_rl (go RBody)
      | RBody => go RR1
      | RR1 => if trl st then st else tset_rl (go RR2) true
      | RR2 => go (RR3 (tcnt st))
      | RR3 v => match v with
                 | O => tset_err (go RR4)
                 | S n => tset_cnt (go RR4) n
                 end
      | RR4 => go (if Nat.eqb (tcnt st) 0 then RR5 else RR6)
      | RR5 => trelease_wl (go RR6)
      | RR6 => trelease_rl (tset_th st t (tfinish th))
      | WA1 => if twl st then st else tset_wl (go WBody) true
      | WBody => go WR1
      | WR1 => trelease_wl (tset_th st t (tfinish th))
      | TDone | TFailed => st
      end
  end.

(* a schedule: any list of thread ids *)
Definition texec (st : tstate) (sched : list nat) : tstate := fold_left tstep sched st.

(* ------------------------------------------------------------ observables *)
Fixpoint lsum (g : thread -> nat) (ts : list thread) : nat :=
  match ts with [] => 0 | th :: r => g th + lsum g r end.
Definition tsum (f : thpc -> nat) (ts : list thread) : nat := lsum (fun th => f (tp th)) ts.

(* a writer holds the lock from the return of acquire() to its release() *)
Definition in_w (p : thpc) : nat := match p with WBody | WR1 => 1 | _ => 0 end.
(* a reader holds it from its increment of the counter to its decrement;
   [RBody] -- the body of the read section -- lies inside *)
Definition in_r (p : thpc) : nat :=
  match p with RA6 | RBody | RR1 | RR2 | RR3 _ => 1 | _ => 0 end.
Definition body_w (p : thpc) : nat := match p with WBody => 1 | _ => 0 end.
Definition body_r (p : thpc) : nat := match p with RBody => 1 | _ => 0 end.

Definition twriters_in (st : tstate) : nat := tsum in_w (ths st).
Definition treaders_in (st : tstate) : nat := tsum in_r (ths st).

Definition tfinished (p : thpc) : bool := match p with TDone | TFailed => true | _ => false end.
Definition tunfinished (st : tstate) (t : nat) : Prop :=
  exists th, nth_error (ths st) t = Some th /\ tfinished (tp th) = false.
Definition tall_finished (st : tstate) : Prop :=
  forall t th, nth_error (ths st) t = Some th -> tfinished (tp th) = true.

(* a budget every effective step consumes *)
Definition pcw (p : thpc) : nat :=
  match p with
  | TIdle => 0 | TDone | TFailed => 0
  | RA1 => 19 | RA2 => 18 | RA3 => 17 | RA4 => 16 | RA5 _ => 15 | RA6 => 14 | RBody => 13
  | RR1 => 12 | RR2 => 11 | RR3 _ => 10 | RR4 => 9 | RR5 => 8 | RR6 => 7
  | WA1 => 19 | WBody => 13 | WR1 => 7
  end.
Definition thw (th : thread) : nat :=
  if tfinished (tp th) then 0 else pcw (tp th) + 1 + 20 * length (tprog th).
Definition tmeasure (st : tstate) : nat := lsum thw (ths st).

(* number of effective (non-stutter) steps of a schedule run from st *)
Fixpoint teff (st : tstate) (sched : list nat) : nat :=
  match sched with
  | [] => 0
  | t :: r => (if tenabled st t then 1 else 0) + teff (tstep st t) r
  end.
