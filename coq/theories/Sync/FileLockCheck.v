(* Sync/FileLockCheck.v -- case checker for the FileLock correspondence: the
   real FileLock on a temporary directory under the harness scheduler, replayed
   step by step (runnable set, events, lock-file state, task results). *)
From PV Require Import Base.Prelude Sync.RWLock Sync.FileLock.

Record fobs := mkFObs {
  fo_label : flabel; fo_enabled : list nat; fo_events : list fevent;
  fo_file : fstate; fo_status : list nat   (* 0 live, 1 finished, 2 cancelled *)
}.

Definition fevent_eqb (a b : fevent) : bool :=
  match a, b with
  | FEnter k t, FEnter k' t' | FExit k t, FExit k' t' | FTimeout k t, FTimeout k' t' =>
      kind_eqb k k' && Nat.eqb t t'
  | _, _ => false
  end.

Definition fstatus_of (tk : ftask) : nat :=
  match fpc_ tk with FFin => 1 | FDead => 2 | _ => 0 end.

Definition fenabled_list (st : fst_) : list nat :=
  filter (fun t => match nth_error (ftasks st) t with Some tk => flive (fpc_ tk) | None => false end)
         (seq 0 (length (ftasks st))).

Fixpoint freplay (n : nat) (st : fst_) (os : list fobs) : bool :=
  match os with
  | [] => true
  | o :: r =>
      eqb_list Nat.eqb (fenabled_list st) (fo_enabled o)
      && match fstep false n st (fo_label o) with
         | None => false
         | Some (st1, ev) =>
             eqb_list fevent_eqb ev (fo_events o)
             && fstate_eqb (file st1) (fo_file o)
             && eqb_list Nat.eqb (map fstatus_of (ftasks st1)) (fo_status o)
             && freplay n st1 r
         end
  end.

(* (number of retry delays, initial lock file, programs, observed run) *)
Definition chk_fl (c : nat * fstate * list (list acq) * list fobs) : bool :=
  let '(n, f0, progs, os) := c in freplay n (finit progs f0) os.

Inductive fotree := FONode (o : fobs) (after : list nat) (kids : list fotree).

Fixpoint freplay_tree (n : nat) (st : fst_) (tr : fotree) : bool :=
  match tr with
  | FONode o after kids =>
      eqb_list Nat.eqb (fenabled_list st) (fo_enabled o)
      && match fstep false n st (fo_label o) with
         | None => false
         | Some (st1, ev) =>
             eqb_list fevent_eqb ev (fo_events o)
             && fstate_eqb (file st1) (fo_file o)
             && eqb_list Nat.eqb (map fstatus_of (ftasks st1)) (fo_status o)
             && eqb_list Nat.eqb (fenabled_list st1) after
             && (fix all (ks : list fotree) : bool :=
                   match ks with [] => true | k :: r => freplay_tree n st1 k && all r end) kids
         end
  end.

Definition chk_fl_tree (c : nat * fstate * list (list acq) * list fotree) : bool :=
  let '(n, f0, progs, trs) := c in forallb (freplay_tree n (finit progs f0)) trs.

(* with_write runs: (what happened, actions observed on the real _FileWriteWith
   in order, an exception left the with-statement, lock file afterwards) *)
Definition chk_ww (c : wrun * list wact * bool * fstate) : bool :=
  let '(r, acts, raised, f) := c in
  eqb_list wact_eqb (ww_exit r) acts && Bool.eqb (ww_raises r) raised
  && fstate_eqb (ww_file_after r) f.
