(* Sync/WorkerPoolCheck.v -- case checker of the worker-pool correspondence.
   The harness (harness/c06_pool.py) runs the maildir backend as production
   builds it (ThreadPoolExecutor(--concurrency), threading subsystem), records
   for every backend call its submit / start / return times (ticks of 10 ms)
   and its class, and hands over, per call r:
     N, the calls not yet returned when r was submitted -- running ones first
     with their remaining time, queued ones in submission order with their
     service time, each with the bound of its class (an idle poll call: one
     poll period + allowance; any other call: the command allowance) --, the
     observation window, the observed start delay of r (None: no worker within
     the window) and the two tolerances.
   The case holds when every call ahead keeps the bound of its class (the
   hypothesis of [started_when_bounded]; a call that waits for DONE inside the
   worker does not) and r started when the FIFO pool model says. *)
From PV Require Import Base.Prelude Sync.WorkerPool.

(* numbers arrive in binary (N) and are converted here: unary literals of a
   few thousand make the case files slow to read *)
Definition pool_case : Type :=
  N * list (N * option N) * N * option N * (N * N).

Definition to_call (c : option N) : call := option_map N.to_nat c.

Definition calls_bounded (ahead : list (N * option N)) : bool :=
  forallb (fun bc => bounded_by (N.to_nat (fst bc)) (to_call (snd bc))) ahead.

Definition start_agrees (window lo hi : nat) (model observed : option nat) : bool :=
  match model, observed with
  | Some m, Some o => (m <=? o + lo) && (o <=? m + hi)
  | None, None => true
  | Some m, None => window <? m + hi       (* would have started after the window closed *)
  | None, Some _ => false
  end.

Definition model_start (n : N) (ahead : list (N * option N)) (window hi : N) : option nat :=
  start_tick (N.to_nat n) (N.to_nat window + N.to_nat hi) 0 (map (fun bc => to_call (snd bc)) ahead).

Definition chk_pool (c : pool_case) : bool :=
  let '(n, ahead, window, observed, (lo, hi)) := c in
  calls_bounded ahead
  && start_agrees (N.to_nat window) (N.to_nat lo) (N.to_nat hi)
       (model_start n ahead window hi) (to_call observed).

(* which half failed (diagnosis only): 0 ok, 1 a call exceeds its class bound,
   2 start time differs from the model, 3 both *)
Definition why_pool (c : pool_case) : nat :=
  let '(n, ahead, window, observed, (lo, hi)) := c in
  (if calls_bounded ahead then 0 else 1)
  + (if start_agrees (N.to_nat window) (N.to_nat lo) (N.to_nat hi)
          (model_start n ahead window hi) (to_call observed) then 0 else 2).
