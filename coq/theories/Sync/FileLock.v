(* Sync/FileLock.v -- pymap.concurrent.FileLock as a transition system.
   Definitions only.

   write_lock:  if self._check_lock() and self._try_lock(): try: yield finally: self._unlock(); return
                for delay in self._write_retry_delay:
                    await asyncio.sleep(delay)
                    if self._try_lock(): try: yield finally: self._unlock(); break
                else: raise TimeoutError()
   read_lock:   if self._check_lock(): yield; return
                for delay in self._read_retry_delay:
                    await asyncio.sleep(delay)
                    if not os.path.exists(self._path): yield; break
                else: raise TimeoutError()
   _check_lock: no file -> True; file at least `expiration` old -> unlink it, True; else False
   _try_lock:   open(path, 'x') succeeds iff the file does not exist
   _unlock:     unlink, errors ignored

   One [FRun t] step is task t from one suspension (sleep / yield) to the next;
   on one event loop these pieces are atomic.  [FExpire] is time passing: the
   lock file, if any, becomes at least `expiration` seconds old. *)
From PV Require Import Base.Prelude Sync.RWLock.

Inductive fstate := Absent | Fresh | Expired.

Definition fstate_eqb (a b : fstate) : bool :=
  match a, b with Absent, Absent | Fresh, Fresh | Expired, Expired => true | _, _ => false end.

Inductive fpc :=
| FStart                 (* before the first acquisition or at the gap after one *)
| FSleep (k : kind) (i : nat)   (* in the retry loop, asleep in the i-th delay *)
| FInR (y : nat)         (* inside a read lock, suspended at a yield, y more follow *)
| FInW (y : nat)         (* inside the write lock *)
| FFin
| FDead.

Record ftask := mkFTask { fprog : list acq; fpc_ : fpc; fmc : bool }.

Inductive fevent := FEnter (k : kind) (t : nat) | FExit (k : kind) (t : nat) | FTimeout (k : kind) (t : nat).

Record fst_ := mkF { ftasks : list ftask; file : fstate }.

Inductive flabel := FRun (t : nat) | FCancel (t : nat) | FExpire.

Definition finit (progs : list (list acq)) (f : fstate) : fst_ :=
  mkF (map (fun p => mkFTask p FStart false) progs) f.

Definition fset (st : fst_) (t : nat) (tk : ftask) (f : fstate) : fst_ :=
  mkF (upd (ftasks st) t tk) f.

(* _check_lock(): (result, file afterwards) *)
Definition check_lock (f : fstate) : bool * fstate :=
  match f with
  | Absent => (true, Absent)
  | Expired => (true, Absent)
  | Fresh => (false, Fresh)
  end.

(* _unlock() for a writer; a reader leaves the file alone *)
Definition after_exit (k : kind) (f : fstate) : fstate :=
  match k with KW => Absent | KR => f end.

(* the lock is granted for [a] with the file in state f: enter, and leave at
   once if there is no yield inside *)
Definition fenter (st : fst_) (t : nat) (k : kind) (a : acq) (rest : list acq) (f : fstate)
  : fst_ * list fevent :=
  match ay a with
  | S y => (fset st t (mkFTask (a :: rest) (match k with KR => FInR y | KW => FInW y end) false) f,
            [FEnter k t])
  | O => (fset st t (mkFTask rest FStart false) (after_exit k f),
          [FEnter k t; FExit k t])
  end.

(* one more round of the retry loop, or TimeoutError when the ladder of
   [n] delays is used up *)
Definition fretry (n : nat) (st : fst_) (t : nat) (k : kind) (a : acq) (rest : list acq) (i : nat)
           (f : fstate) : fst_ * list fevent :=
  if Nat.ltb i n then (fset st t (mkFTask (a :: rest) (FSleep k i) false) f, [])
  else (fset st t (mkFTask rest FStart false) f, [FTimeout k t]).

Definition frun (n : nat) (st : fst_) (t : nat) : option (fst_ * list fevent) :=
  match nth_error (ftasks st) t with
  | None => None
  | Some tk =>
      match fpc_ tk, fprog tk with
      | FStart, p =>
          if fmc tk then Some (fset st t (mkFTask p FDead false) (file st), [])
          else match p with
               | [] => Some (fset st t (mkFTask [] FFin false) (file st), [])
               | a :: rest =>
                   let '(ok, f1) := check_lock (file st) in
                   if ok then
                     (* writer: _try_lock() creates the file, which is absent now *)
                     Some (fenter st t (ak a) a rest (match ak a with KW => Fresh | KR => f1 end))
                   else Some (fretry n st t (ak a) a rest 0 f1)
               end
      | FSleep k i, a :: rest =>
          if fmc tk then Some (fset st t (mkFTask (a :: rest) FDead false) (file st), [])
          else match k, file st with
               | KW, Absent => Some (fenter st t KW a rest Fresh)
               | KR, Absent => Some (fenter st t KR a rest Absent)
               | _, f => Some (fretry n st t k a rest (S i) f)
               end
      | FInR y, a :: rest =>
          if fmc tk then Some (fset st t (mkFTask rest FDead false) (file st), [FExit KR t])
          else match y with
               | S y' => Some (fset st t (mkFTask (a :: rest) (FInR y') false) (file st), [])
               | O => Some (fset st t (mkFTask rest FStart false) (file st), [FExit KR t])
               end
      | FInW y, a :: rest =>
          if fmc tk then Some (fset st t (mkFTask rest FDead false) Absent, [FExit KW t])
          else match y with
               | S y' => Some (fset st t (mkFTask (a :: rest) (FInW y') false) (file st), [])
               | O => Some (fset st t (mkFTask rest FStart false) Absent, [FExit KW t])
               end
      | _, _ => None
      end
  end.

Definition fcancel (st : fst_) (t : nat) : fst_ :=
  match nth_error (ftasks st) t with
  | None => st
  | Some tk =>
      match fpc_ tk with
      | FFin | FDead => st
      | _ => fset st t (mkFTask (fprog tk) (fpc_ tk) true) (file st)
      end
  end.

Definition is_FInW (p : fpc) : bool := match p with FInW _ => true | _ => false end.
Definition fcnt (f : fpc -> bool) (ts : list ftask) : nat :=
  length (filter (fun tk => f (fpc_ tk)) ts).
Definition fwriters_in (st : fst_) : nat := fcnt is_FInW (ftasks st).

(* [strict]: the schedule never lets the lock file reach the expiration age
   while a writer is inside -- the documented assumption of the lock *)
Definition fstep (strict : bool) (n : nat) (st : fst_) (l : flabel) : option (fst_ * list fevent) :=
  match l with
  | FRun t => frun n st t
  | FCancel t => Some (fcancel st t, [])
  | FExpire =>
      if strict && negb (Nat.eqb (fwriters_in st) 0) then None
      else Some (mkF (ftasks st) (match file st with Fresh => Expired | f => f end), [])
  end.

Fixpoint fexec (strict : bool) (n : nat) (st : fst_) (sched : list flabel)
  : option (fst_ * list fevent) :=
  match sched with
  | [] => Some (st, [])
  | l :: r => match fstep strict n st l with
              | None => None
              | Some (st1, ev) =>
                  match fexec strict n st1 r with
                  | None => None
                  | Some (st2, ev2) => Some (st2, ev ++ ev2)
                  end
              end
  end.

Definition flive (p : fpc) : bool := match p with FFin | FDead => false | _ => true end.

(* ------------------------------------------------------------------------
   pymap/backend/maildir/io.py: `async with Cls.with_write(path) as obj` --
   _FileWriteWith, the layer through which UidList and Subscriptions use the
   lock file:
     __aenter__: lock = cls.write_lock(path); await lock.__aenter__();
                 exists = file_exists; obj = file_read; obj._watched = True
     __aexit__:  try:   if not exc_type and obj.touched:
                            if not obj.empty: obj.file_write()      (temp file + os.rename)
                            elif exists:      obj.file_delete()     (os.remove)
                 finally: await lock.__aexit__(None, None, None)     (FileLock._unlock)
   One run of the with-block is described by what happened in it. *)
Inductive wact := WFlushWrite | WFlushDelete | WRelease.

Definition wact_eqb (a b : wact) : bool :=
  match a, b with
  | WFlushWrite, WFlushWrite | WFlushDelete, WFlushDelete | WRelease, WRelease => true
  | _, _ => false
  end.

Record wrun := mkWRun {
  w_body_fails : bool;     (* the body raised (any exception, CancelledError included) *)
  w_touched : bool;        (* obj.touched at exit *)
  w_empty : bool;          (* obj.empty at exit *)
  w_existed : bool;        (* the data file existed at entry *)
  w_flush_fails : bool     (* file_write()/file_delete() raises (rename/remove/write error) *)
}.

Definition ww_flush (r : wrun) : list wact :=
  if negb (w_body_fails r) && w_touched r then
    if negb (w_empty r) then [WFlushWrite]
    else if w_existed r then [WFlushDelete] else []
  else [].

(* what __aexit__ attempts, in order: the release is in a `finally` *)
Definition ww_exit (r : wrun) : list wact := ww_flush r ++ [WRelease].

(* does an exception leave the with-statement? *)
Definition ww_raises (r : wrun) : bool :=
  w_body_fails r || (match ww_flush r with [] => false | _ => w_flush_fails r end).

(* the lock file after the with-statement; it was created at entry (Fresh) *)
Definition ww_file_after (r : wrun) : fstate :=
  if existsb (wact_eqb WRelease) (ww_exit r) then after_exit KW Fresh else Fresh.
