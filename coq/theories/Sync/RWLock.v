(* Sync/RWLock.v -- CPython 3.12 asyncio.Lock and pymap's _AsyncioReadWriteLock
   as a transition system over any number of tasks.  Definitions only.

   A task runs a straight-line program of acquisitions.  One [Run t] step is
   what asyncio really executes atomically: task t from one suspension point
   (an `await` that suspends) to the next.  [Cancel t] is `task.cancel()`
   called between two steps.

   Harness task body (harness/syncdrv.py RWRun._body), per acquisition (k, y, r):
       async with (lock.read_lock() | lock.write_lock()):
           log enter; y times `await sleep(0)`; if r: raise; finally log exit
       await sleep(0)                          # the gap
*)
From PV Require Import Base.Prelude.

Inductive kind := KR | KW.
Inductive wst := Pending | Woken | Cancelled.   (* state of a waiter's future *)

Definition kind_eqb (a b : kind) : bool :=
  match a, b with KR, KR | KW, KW => true | _, _ => false end.
Definition wst_eqb (a b : wst) : bool :=
  match a, b with Pending, Pending | Woken, Woken | Cancelled, Cancelled => true | _, _ => false end.

(* ---------------------------------------------------------------- asyncio.Lock *)
(* [_locked] and the FIFO deque [_waiters] (owner task, future state). *)
Record mutex := mkMutex { locked : bool; waiters : list (nat * wst) }.

Definition free_mutex := mkMutex false [].

Definition is_cancelled (s : wst) : bool := match s with Cancelled => true | _ => false end.
Definition is_pending (s : wst) : bool := match s with Pending => true | _ => false end.

Definition all_cancelled (ws : list (nat * wst)) : bool :=
  forallb (fun e => is_cancelled (snd e)) ws.

(* Lock._wake_up_first: set the result of the first waiter's future if it is not done *)
Definition wake_first (ws : list (nat * wst)) : list (nat * wst) :=
  match ws with
  | (t, Pending) :: r => (t, Woken) :: r
  | _ => ws
  end.

(* Lock.acquire up to its first suspension.  (true, m'): fast path, acquired.
   (false, m'): a future was appended to the deque and the task suspends. *)
Definition m_acquire (m : mutex) (t : nat) : bool * mutex :=
  if negb (locked m) && all_cancelled (waiters m)
  then (true, mkMutex true (waiters m))
  else (false, mkMutex (locked m) (waiters m ++ [(t, Pending)])).

(* Lock.release on a locked lock (the caller tracks RuntimeError on an unlocked one) *)
Definition m_release (m : mutex) : mutex := mkMutex false (wake_first (waiters m)).

Definition remove_waiter (t : nat) (ws : list (nat * wst)) : list (nat * wst) :=
  filter (fun e => negb (Nat.eqb (fst e) t)) ws.

Fixpoint wst_of (ws : list (nat * wst)) (t : nat) : option wst :=
  match ws with
  | [] => None
  | (u, s) :: r => if Nat.eqb u t then Some s else wst_of r t
  end.

(* the suspended acquire of t resumes.  [c = true]: CancelledError is thrown at
   `await fut` (future cancelled, or the task's _must_cancel flag):
       finally: self._waiters.remove(fut)
       except CancelledError: if not self._locked: self._wake_up_first(); raise
   [c = false]: self._locked = True *)
Definition m_resume (m : mutex) (t : nat) (c : bool) : mutex :=
  let ws := remove_waiter t (waiters m) in
  if c then (if locked m then mkMutex true ws else mkMutex false (wake_first ws))
  else mkMutex true ws.

(* fut.cancel() of t's pending future (no effect on a done future) *)
Definition m_cancel (m : mutex) (t : nat) : mutex :=
  mkMutex (locked m)
          (map (fun e => if Nat.eqb (fst e) t && is_pending (snd e) then (fst e, Cancelled) else e)
               (waiters m)).

(* ------------------------------------------------------------------ tasks *)
Record acq := mkAcq { ak : kind; ay : nat; araise : bool }.
(* [araise]: the critical section is left by an exception instead of normally;
   the lock's exit path is the same `finally`, so the model does not look at it. *)

Inductive pc :=
| Start            (* ready: before the first acquisition, or at the gap after one *)
| WaitRL           (* reader suspended in _read_lock.acquire() *)
| WaitWLr          (* reader suspended in _write_lock.acquire() (Fixed: holding the read mutex) *)
| InR (k : nat)    (* reader inside, suspended at a yield, k more yields follow *)
| WaitWLw          (* writer suspended in _write_lock.acquire() *)
| InW (k : nat)
| Fin              (* program finished *)
| Dead             (* CancelledError propagated out of the task *)
(* transient: only while the task is running, never at a suspension point *)
| HoldRL           (* Fixed reader: has the read mutex, about to look at the counter *)
| HoldBoth         (* Fixed reader: has the read mutex, the write mutex belongs to the readers *)
| AtR (k : nat)    (* reader inside, running, k yields to go *)
| AtW (k : nat).

Definition stable (p : pc) : bool :=
  match p with HoldRL | HoldBoth | AtR _ | AtW _ => false | _ => true end.

Record task := mkTask { prog : list acq; tpc : pc; mc : bool (* Task._must_cancel *) }.

Inductive event := Enter (k : kind) (t : nat) | Exit (k : kind) (t : nat).

Record state := mkState {
  tasks : list task;
  rl : mutex;            (* _read_lock *)
  wl : mutex;            (* _write_lock *)
  counter : nat;         (* _counter *)
  err : bool             (* a RuntimeError('Lock is not acquired.') or a negative counter happened *)
}.

Inductive algo := Old | Fixed.
(* Old   = pymap before the fix: counter += 1 under the read mutex (released at
           once), the first reader then awaits the write mutex outside any
           try block; the exit path re-takes the read mutex.  The read mutex
           is never held across a suspension there, so it is never contended
           and the model leaves it untouched.
   Fixed = the current tree:
             async with self._read_lock:
                 if self._counter == 0: await self._write_lock.acquire()
                 self._counter += 1
             try: yield
             finally: self._counter -= 1; if self._counter == 0: self._write_lock.release() *)

Inductive label := Run (t : nat) | Cancel (t : nat).

Fixpoint upd {A} (l : list A) (i : nat) (x : A) : list A :=
  match l, i with
  | [], _ => []
  | _ :: r, O => x :: r
  | y :: r, S j => y :: upd r j x
  end.

Definition init (progs : list (list acq)) : state :=
  mkState (map (fun p => mkTask p Start false) progs) free_mutex free_mutex 0 false.

Definition set_task (st : state) (t : nat) (tk : task) : state :=
  mkState (upd (tasks st) t tk) (rl st) (wl st) (counter st) (err st).
Definition set_rl (st : state) (m : mutex) : state :=
  mkState (tasks st) m (wl st) (counter st) (err st).
Definition set_wl (st : state) (m : mutex) : state :=
  mkState (tasks st) (rl st) m (counter st) (err st).
Definition set_counter (st : state) (n : nat) : state :=
  mkState (tasks st) (rl st) (wl st) n (err st).
Definition set_err (st : state) (b : bool) : state :=
  mkState (tasks st) (rl st) (wl st) (counter st) b.

(* release a mutex, flagging RuntimeError if it is not locked *)
Definition release_wl (st : state) : state :=
  set_wl (set_err st (err st || negb (locked (wl st)))) (m_release (wl st)).
Definition release_rl (st : state) : state :=
  set_rl (set_err st (err st || negb (locked (rl st)))) (m_release (rl st)).

(* the lock's exit path; never suspends *)
Definition unlock_w (st : state) : state := release_wl st.
Definition unlock_r (st : state) : state :=
  match counter st with
  | O => set_err st true
  | S n => let st1 := set_counter st n in
           match n with O => release_wl st1 | S _ => st1 end
  end.

Definition kind_of_pc (p : pc) : option kind :=
  match p with
  | InR _ | AtR _ => Some KR
  | InW _ | AtW _ => Some KW
  | _ => None
  end.

(* task t, inside ([InR]/[AtR]/[InW]/[AtW]) with program [a :: rest], leaves the
   critical section; [dying]: the exit is the unwinding of a CancelledError *)
Definition leave (st : state) (t : nat) (p : pc) (rest : list acq) (dying : bool)
  : option (state * list event) :=
  match kind_of_pc p with
  | None => None
  | Some k =>
      let st1 := match k with KR => unlock_r st | KW => unlock_w st end in
      Some (set_task st1 t (mkTask rest (if dying then Dead else Start) false), [Exit k t])
  end.

(* task t is at [AtR k]/[AtW k]: run to the next suspension *)
Definition at_cs (st : state) (t : nat) (a : acq) (rest : list acq) (p : pc)
  : option (state * list event) :=
  match p with
  | AtR (S k) => Some (set_task st t (mkTask (a :: rest) (InR k) false), [])
  | AtW (S k) => Some (set_task st t (mkTask (a :: rest) (InW k) false), [])
  | AtR O | AtW O => leave st t p rest false
  | _ => None
  end.

Definition cons_ev (e : event) (r : option (state * list event)) : option (state * list event) :=
  match r with Some (st, ev) => Some (st, e :: ev) | None => None end.

(* the lock is held for [a]: log the entry and go on inside *)
Definition enter (st : state) (t : nat) (k : kind) (a : acq) (rest : list acq)
  : option (state * list event) :=
  let p := match k with KR => AtR (ay a) | KW => AtW (ay a) end in
  cons_ev (Enter k t) (at_cs (set_task st t (mkTask (a :: rest) p false)) t a rest p).

(* Fixed reader at [HoldBoth]: count, drop the read mutex, enter *)
Definition hold_both (st : state) (t : nat) (a : acq) (rest : list acq) :=
  enter (release_rl (set_counter st (S (counter st)))) t KR a rest.

(* Fixed reader at [HoldRL] *)
Definition hold_rl (st : state) (t : nat) (a : acq) (rest : list acq) :=
  match counter st with
  | O => let '(ok, m) := m_acquire (wl st) t in
         if ok then hold_both (set_task (set_wl st m) t (mkTask (a :: rest) HoldBoth false)) t a rest
         else Some (set_task (set_wl st m) t (mkTask (a :: rest) WaitWLr false), [])
  | S _ => hold_both (set_task st t (mkTask (a :: rest) HoldBoth false)) t a rest
  end.

Definition begin (al : algo) (st : state) (t : nat) (a : acq) (rest : list acq)
  : option (state * list event) :=
  match ak a with
  | KW => let '(ok, m) := m_acquire (wl st) t in
          if ok then enter (set_wl st m) t KW a rest
          else Some (set_task (set_wl st m) t (mkTask (a :: rest) WaitWLw false), [])
  | KR =>
      match al with
      | Fixed => let '(ok, m) := m_acquire (rl st) t in
                 if ok then hold_rl (set_task (set_rl st m) t (mkTask (a :: rest) HoldRL false)) t a rest
                 else Some (set_task (set_rl st m) t (mkTask (a :: rest) WaitRL false), [])
      | Old => let st1 := set_counter st (S (counter st)) in
               match counter st with
               | O => let '(ok, m) := m_acquire (wl st1) t in
                      if ok then enter (set_wl st1 m) t KR a rest
                      else Some (set_task (set_wl st1 m) t (mkTask (a :: rest) WaitWLr false), [])
               | S _ => enter st1 t KR a rest
               end
      end
  end.

Definition ready_wst (s : option wst) : bool :=
  match s with Some Woken | Some Cancelled => true | _ => false end.

(* task t has a ready handle in the event loop *)
Definition enabled (st : state) (t : nat) : bool :=
  match nth_error (tasks st) t with
  | None => false
  | Some tk =>
      match tpc tk with
      | Start | InR _ | InW _ => true
      | WaitRL => ready_wst (wst_of (waiters (rl st)) t)
      | WaitWLr | WaitWLw => ready_wst (wst_of (waiters (wl st)) t)
      | _ => false
      end
  end.

Definition die (st : state) (t : nat) (tk : task) : state :=
  set_task st t (mkTask (prog tk) Dead false).

(* CancelledError is delivered to the waiter t of m: its future was cancelled or
   the task carries _must_cancel *)
Definition cancelled_at (m : mutex) (t : nat) (tk : task) : bool :=
  mc tk || match wst_of (waiters m) t with Some Cancelled => true | _ => false end.

(* one atomic step of task t *)
Definition run (al : algo) (st : state) (t : nat) : option (state * list event) :=
  if negb (enabled st t) then None else
  match nth_error (tasks st) t with
  | None => None
  | Some tk =>
      match tpc tk, prog tk with
      | Start, p =>
          if mc tk then Some (die st t tk, [])
          else match p with
               | [] => Some (set_task st t (mkTask [] Fin false), [])
               | a :: rest => begin al st t a rest
               end
      | InR k, a :: rest =>
          if mc tk then leave st t (InR k) rest true
          else at_cs (set_task st t (mkTask (a :: rest) (AtR k) false)) t a rest (AtR k)
      | InW k, a :: rest =>
          if mc tk then leave st t (InW k) rest true
          else at_cs (set_task st t (mkTask (a :: rest) (AtW k) false)) t a rest (AtW k)
      | WaitRL, a :: rest =>
          match al with
          | Old => None
          | Fixed =>
              let c := cancelled_at (rl st) t tk in
              let st1 := set_rl st (m_resume (rl st) t c) in
              if c then Some (die st1 t tk, [])
              else hold_rl (set_task st1 t (mkTask (a :: rest) HoldRL false)) t a rest
          end
      | WaitWLr, a :: rest =>
          let c := cancelled_at (wl st) t tk in
          let st1 := set_wl st (m_resume (wl st) t c) in
          match al with
          | Fixed => if c then Some (die (release_rl st1) t tk, [])
                     else hold_both (set_task st1 t (mkTask (a :: rest) HoldBoth false)) t a rest
          | Old => if c then Some (die st1 t tk, []) else enter st1 t KR a rest
          end
      | WaitWLw, a :: rest =>
          let c := cancelled_at (wl st) t tk in
          let st1 := set_wl st (m_resume (wl st) t c) in
          if c then Some (die st1 t tk, []) else enter st1 t KW a rest
      | _, _ => None
      end
  end.

(* task.cancel(): cancel the future the task waits on if it is still pending,
   else set _must_cancel; no effect on a finished task *)
Definition cancel (st : state) (t : nat) : state :=
  match nth_error (tasks st) t with
  | None => st
  | Some tk =>
      let flag := set_task st t (mkTask (prog tk) (tpc tk) true) in
      match tpc tk with
      | Start | InR _ | InW _ => flag
      | WaitRL =>
          match wst_of (waiters (rl st)) t with
          | Some Pending => set_rl st (m_cancel (rl st) t)
          | _ => flag
          end
      | WaitWLr | WaitWLw =>
          match wst_of (waiters (wl st)) t with
          | Some Pending => set_wl st (m_cancel (wl st) t)
          | _ => flag
          end
      | _ => st
      end
  end.

Definition step (al : algo) (st : state) (l : label) : option (state * list event) :=
  match l with
  | Run t => run al st t
  | Cancel t => Some (cancel st t, [])
  end.

(* a whole schedule; None as soon as a label is not enabled *)
Fixpoint exec (al : algo) (st : state) (sched : list label) : option (state * list event) :=
  match sched with
  | [] => Some (st, [])
  | l :: r => match step al st l with
              | None => None
              | Some (st1, ev) =>
                  match exec al st1 r with
                  | None => None
                  | Some (st2, ev2) => Some (st2, ev ++ ev2)
                  end
              end
  end.

(* observables *)
Definition is_inR (p : pc) : bool := match p with InR _ | AtR _ => true | _ => false end.
Definition is_inW (p : pc) : bool := match p with InW _ | AtW _ => true | _ => false end.
Definition cnt (f : pc -> bool) (ts : list task) : nat :=
  length (filter (fun tk => f (tpc tk)) ts).
Definition readers_in (st : state) : nat := cnt is_inR (tasks st).
Definition writers_in (st : state) : nat := cnt is_inW (tasks st).
Definition live (p : pc) : bool := match p with Fin | Dead => false | _ => true end.
Definition unfinished (st : state) (t : nat) : Prop :=
  exists tk, nth_error (tasks st) t = Some tk /\ live (tpc tk) = true.

(* a budget that every step of a task consumes *)
Fixpoint pm (p : list acq) : nat :=
  match p with [] => 1 | a :: r => ay a + 4 + pm r end.
Definition tm (tk : task) : nat :=
  match tpc tk, prog tk with
  | Start, p => pm p
  | WaitRL, a :: r => ay a + 3 + pm r
  | WaitWLr, a :: r => ay a + 2 + pm r
  | WaitWLw, a :: r => ay a + 2 + pm r
  | InR k, _ :: r => k + 1 + pm r
  | InW k, _ :: r => k + 1 + pm r
  | _, _ => 0
  end.
Definition measure (st : state) : nat := list_sum (map tm (tasks st)).
Fixpoint run_steps (sched : list label) : nat :=
  match sched with
  | [] => 0
  | Run _ :: r => S (run_steps r)
  | Cancel _ :: r => run_steps r
  end.
