(* Sync/IdleCheck.v -- case checker for the C16 correspondence.
   A case is one run of the real server: idling sessions (some of them paused
   by the harness inside every writer.drain()), writer sessions issuing bursts
   of commands, client lines ending IDLE.  After every harness action the
   server runs until nothing is runnable; the observation is, per idler, where
   it is (parked in the wait / inside drain / IDLE ended OK / ended BAD) and
   which prefixes of the change history its client has been told about. *)
From PV Require Import Base.Prelude Sync.RWLock Sync.Idle.

Inductive haction :=
| HW (b : nat)                  (* a burst of b commands in one write: atomic for the idlers *)
| HRel (s : nat) (last : bool)  (* let idler s out of the drain it is in; last = its batch is then complete *)
| HDone (s : nat) (ok : bool)   (* client line for idler s (its gate is opened for good) *)
| HN (woken : list nat).        (* a burst that left the mailbox as a client sees it unchanged;
                                   woken = the idlers that started a notification batch on it *)

Record iobs := mkIObs {
  io_phase : list nat;          (* per idler: 0 parked, 1 inside drain, 2 ended OK, 3 ended BAD *)
  io_deliv : list (list nat)    (* per idler: every k such that its client's view = mailbox after k changes *)
}.

Record cstate := mkC { c_st : istate; c_orc : list (list nat); c_gated : list bool }.

(* run idler i until it blocks: in the wait with no event, inside a drain the
   harness holds, or ended.  [o]: batch sizes observed on the implementation *)
Fixpoint settle1 (recheck gated : bool) (h : nat) (fuel : nat) (i : idler) (o : list nat)
  : option (idler * list nat) :=
  match fuel with
  | O => None
  | S f =>
      match ipc_ i with
      | ICont => if gated then Some (i, o) else settle1 recheck gated h f (istep1 recheck h i 0) o
      | IArm => settle1 recheck gated h f (istep1 recheck h i 0) o
      | IWait => if iev i then settle1 recheck gated h f (istep1 recheck h i 0) o else Some (i, o)
      | IDiff => match o with
                 | [] => None
                 | n :: o' => settle1 recheck gated h f (istep1 recheck h i n) o'
                 end
      | IWrite _ n => if gated && negb (Nat.eqb n 0) then Some (i, o)
                      else settle1 recheck gated h f (istep1 recheck h i 0) o
      | IEnd _ => Some (i, o)
      end
  end.

Fixpoint settle_all (recheck : bool) (h : nat) (is_ : list idler) (os : list (list nat)) (gs : list bool)
  : option (list idler * list (list nat)) :=
  match is_, os, gs with
  | [], [], [] => Some ([], [])
  | i :: ir, o :: or_, g :: gr =>
      match settle1 recheck g h 10 i o, settle_all recheck h ir or_ gr with
      | Some (i', o'), Some (ir', or') => Some (i' :: ir', o' :: or')
      | _, _ => None
      end
  | _, _, _ => None
  end.

Definition settle (recheck : bool) (c : cstate) : option cstate :=
  match settle_all recheck (hi (c_st c)) (idlers (c_st c)) (c_orc c) (c_gated c) with
  | Some (is_, os) => Some (mkC (mkI (hi (c_st c)) is_) os (c_gated c))
  | None => None
  end.

Definition phase_of (i : idler) : nat :=
  match ipc_ i with
  | IWait => 0 | IWrite _ _ | ICont => 1 | IEnd true => 2 | IEnd false => 3 | _ => 4
  end.

Fixpoint deliv_ok (is_ : list idler) (ks : list (list nat)) : bool :=
  match is_, ks with
  | [], [] => true
  | i :: ir, k :: kr =>
      (* inside a drain the batch is partly written: the client's view is in flux *)
      (match ipc_ i with IWrite _ _ => true | _ => existsb (Nat.eqb (delivered i)) k end)
      && deliv_ok ir kr
  | _, _ => false
  end.

Definition obs_ok (c : cstate) (o : iobs) : bool :=
  eqb_list Nat.eqb (map phase_of (idlers (c_st c))) (io_phase o)
  && deliv_ok (idlers (c_st c)) (io_deliv o).

Definition is_write (i : idler) : bool :=
  match ipc_ i with IWrite _ _ | ICont => true | _ => false end.

(* idler s runs to its first suspension after the continuation: the wait, or a
   notification batch (even an empty one suspends in shield()) *)
Fixpoint to_first_suspension (recheck : bool) (h : nat) (fuel : nat) (i : idler) (o : list nat)
  : option (idler * list nat) :=
  match fuel with
  | O => None
  | S f =>
      match ipc_ i with
      | ICont | IArm => to_first_suspension recheck h f (istep1 recheck h i 0) o
      | IDiff => match o with
                 | [] => None
                 | n :: o' => to_first_suspension recheck h f (istep1 recheck h i n) o'
                 end
      | _ => Some (i, o)
      end
  end.

Definition act (recheck : bool) (c : cstate) (a : haction) : option cstate :=
  match a with
  | HW b => settle recheck (mkC (iexec recheck (c_st c) (repeat LW b)) (c_orc c) (c_gated c))
  | HRel s last =>
      match nth_error (idlers (c_st c)) s with
      | Some i =>
          if is_write i then
            if last then settle recheck (mkC (istep recheck (c_st c) (LI s 0)) (c_orc c) (c_gated c))
            else Some c
          else None
      | None => None
      end
  | HN woken =>
      (* only an idler parked in its wait can have been woken *)
      if forallb (fun s => match nth_error (idlers (c_st c)) s with
                           | Some i => match ipc_ i with IWait => true | _ => false end
                           | None => false end) woken
      then settle recheck (mkC (iexec recheck (c_st c) (map LS woken)) (c_orc c) (c_gated c))
      else None
  | HDone s ok =>
      (* a line that arrives while the continuation is still being written is read
         only after the update loop has reached its first suspension *)
      match nth_error (idlers (c_st c)) s, nth_error (c_orc c) s with
      | Some i, Some o =>
          match (match ipc_ i with
                 | ICont => to_first_suspension recheck (hi (c_st c)) 6 i o
                 | _ => Some (i, o)
                 end) with
          | Some (i1, o1) =>
              let st1 := mkI (hi (c_st c)) (upd (idlers (c_st c)) s i1) in
              settle recheck (mkC (istep recheck st1 (LDone s ok)) (upd (c_orc c) s o1)
                                  (upd (c_gated c) s false))
          | None => None
          end
      | _, _ => None
      end
  end.

Fixpoint ireplay (recheck : bool) (c : cstate) (run : list (haction * iobs)) : bool :=
  match run with
  | [] => forallb (fun o => match o with [] => true | _ => false end) (c_orc c)
  | (a, o) :: r =>
      match act recheck c a with
      | Some c1 => obs_ok c1 o && ireplay recheck c1 r
      | None => false
      end
  end.

(* (recheck, gated flag per idler, batch sizes per idler, observation after the
   initial settle, actions with observations) *)
Definition chk_idle (k : bool * list bool * list (list nat) * iobs * list (haction * iobs)) : bool :=
  let '(recheck, gated, orc, o0, run) := k in
  match settle recheck (mkC (iinit (length gated)) orc gated) with
  | Some c0 => obs_ok c0 o0 && ireplay recheck c0 run
  | None => false
  end.
