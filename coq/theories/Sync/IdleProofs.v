(* Sync/IdleProofs.v -- progress of the IDLE update loop with the re-check
   (the current tree), for any number of idlers and every interleaving with
   writers and client input. *)
From PV Require Import Base.Prelude Sync.RWLock Sync.RWLockProofs Sync.Idle.
Require Import Lia.

(* per-idler invariant, [h] = number of changes made so far *)
Definition Iinv (h : nat) (i : idler) : Prop :=
  delivered i <= seen i /\ seen i <= h /\
  (idone i <> None -> ipc_ i = IWait -> iev i = true) /\
  match ipc_ i with
  | ICont | IArm | IDiff => delivered i = seen i
  | IWait => delivered i = seen i /\ (iev i = false -> seen i = h)
  | IWrite upto _ => upto = seen i
  | IEnd b => idone i = Some b
  end.

Ltac ifin := unfold Iinv; cbn [ipc_ seen delivered iev idone]; repeat split; intros;
              try lia; try congruence; try tauto.

Lemma Iinv_step h i n : Iinv h i -> Iinv h (istep1 true h i n).
Proof.
  intros (H1 & H2 & H3 & H4). unfold istep1.
  destruct (ipc_ i) eqn:Ep.
  - ifin.
  - destruct (idone i) eqn:Ed; [ifin|].
    cbn [andb]. destruct (Nat.ltb_spec (seen i) h); ifin.
  - destruct H4 as (H4 & H5). destruct (iev i) eqn:Ee; [ifin|].
    unfold Iinv. rewrite Ep, Ee. repeat split; auto.
  - ifin.
  - ifin.
  - unfold Iinv. rewrite Ep. repeat split; auto.
Qed.

Lemma Iinv_write h i : Iinv h i -> Iinv (S h) (set_ev i).
Proof.
  intros (H1 & H2 & H3 & H4). unfold Iinv, set_ev; cbn.
  repeat split; try lia; try reflexivity.
  destruct (ipc_ i); try assumption. destruct H4 as (H4 & _). split; [exact H4|discriminate].
Qed.

Lemma Iinv_setev h i : Iinv h i -> Iinv h (set_ev i).
Proof.
  intros (H1 & H2 & H3 & H4). unfold Iinv, set_ev; cbn.
  repeat split; try lia; try reflexivity.
  destruct (ipc_ i); try assumption. destruct H4 as (H4 & _). split; [exact H4|discriminate].
Qed.

Lemma Iinv_done h i ok : Iinv h i -> (forall b, ipc_ i <> IEnd b) ->
  Iinv h (mkIdler (ipc_ i) (seen i) (delivered i) true (Some ok)).
Proof.
  intros (H1 & H2 & H3 & H4) Hne. unfold Iinv; cbn.
  repeat split; try lia; try reflexivity.
  destruct (ipc_ i) eqn:Ep; try assumption; try discriminate.
  - destruct H4 as (H4 & _). split; [exact H4|discriminate].
  - exfalso. eapply Hne. reflexivity.
Qed.

Definition GI (st : istate) : Prop :=
  forall s i, nth_error (idlers st) s = Some i -> Iinv (hi st) i.

Lemma GI_init k : GI (iinit k).
Proof.
  intros s i H. apply nth_error_In in H. apply repeat_spec in H. subst i.
  unfold Iinv, idler0; cbn. repeat split; try lia; congruence.
Qed.

Lemma GI_step st l : GI st -> GI (istep true st l).
Proof.
  intros HG. destruct l as [|s n|s ok|s]; cbn [istep].
  - intros u i H. cbn [idlers hi] in *. rewrite nth_error_map in H.
    destruct (nth_error (idlers st) u) as [j|] eqn:Eu; [|discriminate]. inversion H; subst.
    apply Iinv_write. apply (HG u j Eu).
  - destruct (nth_error (idlers st) s) as [j|] eqn:Es; [|exact HG].
    intros u i H. cbn [idlers hi] in *. rewrite nth_error_upd, Es in H.
    destruct (Nat.eqb u s); [inversion H; subst; apply Iinv_step, (HG s j Es)|apply (HG u i H)].
  - destruct (nth_error (idlers st) s) as [j|] eqn:Es; [|exact HG].
    destruct (idone j) eqn:Ed; [exact HG|].
    assert (Hd : (forall b, ipc_ j <> IEnd b) ->
                 GI (mkI (hi st) (upd (idlers st) s
                      (mkIdler (ipc_ j) (seen j) (delivered j) true (Some ok))))).
    { intros Hne u i H. cbn [idlers hi] in *. rewrite nth_error_upd, Es in H.
      destruct (Nat.eqb u s); [inversion H; subst; apply Iinv_done; [apply (HG s j Es)|exact Hne]
                              |apply (HG u i H)]. }
    destruct (ipc_ j) eqn:Ep; try exact HG; apply Hd; discriminate.
  - destruct (nth_error (idlers st) s) as [j|] eqn:Es; [|exact HG].
    intros u i H. cbn [idlers hi] in *. rewrite nth_error_upd, Es in H.
    destruct (Nat.eqb u s); [inversion H; subst; apply Iinv_setev, (HG s j Es)|apply (HG u i H)].
Qed.

Lemma GI_exec sched : forall st, GI st -> GI (iexec true st sched).
Proof.
  unfold iexec. induction sched as [|l r IH]; intros st H; cbn [fold_left]; [exact H|].
  apply IH. apply GI_step. exact H.
Qed.

(* ------------------------------------------------------------ never stuck *)
Lemma never_stuck st s i :
  GI st -> nth_error (idlers st) s = Some i -> idone i = None ->
  delivered i <> hi st -> ienabled i = true.
Proof.
  intros HG Hn Hd Hp. destruct (HG s i Hn) as (H1 & H2 & H3 & H4). unfold ienabled.
  destruct (ipc_ i) eqn:Ep; try reflexivity.
  - destruct (iev i) eqn:Ee; [reflexivity|]. destruct H4 as (H4 & H5). specialize (H5 eq_refl). lia.
  - congruence.
Qed.

(* ------------------------------------------------------------ bounded progress *)
(* own steps still needed before everything pending is written *)
Definition dist (h : nat) (i : idler) : nat :=
  if Nat.eqb (delivered i) h then 0 else
  match ipc_ i with
  | ICont => 4
  | IArm | IWait => 3
  | IDiff => 2
  | IWrite upto _ => if Nat.eqb upto h then 1 else 4
  | IEnd _ => 0
  end.

Lemma dist_le4 h i : dist h i <= 4.
Proof. unfold dist. destruct (Nat.eqb (delivered i) h), (ipc_ i); try lia. destruct (Nat.eqb upto h); lia. Qed.

Lemma dist_step h i n : Iinv h i -> idone i = None ->
  dist h (istep1 true h i n) <= dist h i - 1 /\ idone (istep1 true h i n) = None.
Proof.
  intros (H1 & H2 & H3 & H4) Hd. unfold dist, istep1.
  destruct (ipc_ i) eqn:Ep; cbn [delivered ipc_ idone seen].
  - split; [|exact Hd]. destruct (Nat.eqb_spec (delivered i) h); lia.
  - rewrite Hd. cbn [andb]. destruct (Nat.ltb_spec (seen i) h); cbn [delivered ipc_ idone].
    + split; [|reflexivity]. destruct (Nat.eqb_spec (delivered i) h); lia.
    + split; [|reflexivity]. assert (E : delivered i = h) by lia.
      rewrite (proj2 (Nat.eqb_eq _ _) E). lia.
  - destruct H4 as (H4 & H5). destruct (iev i) eqn:Ee; cbn [delivered ipc_ idone].
    + split; [|exact Hd]. destruct (Nat.eqb_spec (delivered i) h); lia.
    + rewrite Ep. split; [|exact Hd]. specialize (H5 eq_refl).
      assert (E : delivered i = h) by lia. rewrite (proj2 (Nat.eqb_eq _ _) E). lia.
  - split; [|exact Hd]. destruct (Nat.eqb_spec h h); [|congruence]. destruct (Nat.eqb_spec (delivered i) h); lia.
  - split; [|exact Hd]. destruct (Nat.eqb_spec upto h) as [->|Hne].
    + destruct (Nat.eqb_spec h h); [|congruence]. destruct (Nat.eqb_spec (delivered i) h); lia.
    + destruct (Nat.eqb_spec upto h); [congruence|]. destruct (Nat.eqb_spec (delivered i) h); lia.
  - congruence.
Qed.

Lemma progress_sched s sched : forall st i,
  GI st -> nth_error (idlers st) s = Some i -> idone i = None ->
  forallb (quiet_for s) sched = true ->
  exists i', nth_error (idlers (iexec true st sched)) s = Some i' /\ idone i' = None /\
             hi (iexec true st sched) = hi st /\
             dist (hi st) i' <= dist (hi st) i - own_steps s sched.
Proof.
  unfold iexec. induction sched as [|l r IH]; intros st i HG Hn Hd Hq.
  - exists i. cbn. repeat split; auto. lia.
  - cbn [forallb] in Hq. apply andb_true_iff in Hq as (Hl & Hr). cbn [fold_left].
    pose proof (GI_step st l HG) as HG1.
    destruct l as [|t n|t ok|t]; cbn [quiet_for] in Hl; [discriminate| | |].
    + (* a step of idler t *)
      cbn [istep] in *. destruct (nth_error (idlers st) t) as [j|] eqn:Et.
      * destruct (Nat.eqb_spec t s) as [->|Hne].
        -- rewrite Hn in Et. inversion Et; subst j.
           destruct (dist_step (hi st) i n (HG s i Hn) Hd) as (Hdist & Hd1).
           destruct (IH (mkI (hi st) (upd (idlers st) s (istep1 true (hi st) i n))) _ HG1
                        (nth_error_upd_same _ _ _ _ Hn) Hd1 Hr) as (i' & Hn' & Hd' & Hh & Hle).
           exists i'. cbn [hi] in *. repeat split; auto.
           unfold own_steps in *. cbn [filter]. rewrite Nat.eqb_refl. cbn [length]. lia.
        -- assert (Hn1 : nth_error (upd (idlers st) t (istep1 true (hi st) j n)) s = Some i)
             by (rewrite nth_error_upd_other by congruence; exact Hn).
           destruct (IH (mkI (hi st) (upd (idlers st) t (istep1 true (hi st) j n))) _ HG1 Hn1 Hd Hr)
             as (i' & Hn' & Hd' & Hh & Hle).
           exists i'. cbn [hi] in *. repeat split; auto.
           unfold own_steps in *. cbn [filter]. rewrite (proj2 (Nat.eqb_neq _ _) Hne). exact Hle.
      * destruct (IH st _ HG Hn Hd Hr) as (i' & Hn' & Hd' & Hh & Hle).
        exists i'. repeat split; auto. unfold own_steps in *. cbn [filter].
        destruct (Nat.eqb_spec t s) as [->|Hne]; [congruence|exact Hle].
    + (* client input of another idler *)
      apply negb_true_iff in Hl. apply Nat.eqb_neq in Hl.
      assert (Hsame : nth_error (idlers (istep true st (LDone t ok))) s = Some i /\
                      hi (istep true st (LDone t ok)) = hi st).
      { cbn [istep]. destruct (nth_error (idlers st) t) as [j|]; [|split; [exact Hn|reflexivity]].
        destruct (idone j); [split; [exact Hn|reflexivity]|].
        destruct (ipc_ j); cbn [idlers hi]; try (split; [exact Hn|reflexivity]);
          (split; [rewrite nth_error_upd_other by congruence; exact Hn|reflexivity]). }
      destruct Hsame as (Hn1 & Hh1).
      destruct (IH _ _ HG1 Hn1 Hd Hr) as (i' & Hn' & Hd' & Hh & Hle).
      exists i'. rewrite Hh1 in *. repeat split; auto.
    + (* a spurious event *)
      assert (Hsame : exists i1, nth_error (idlers (istep true st (LS t))) s = Some i1 /\
                      idone i1 = None /\ dist (hi st) i1 = dist (hi st) i /\
                      hi (istep true st (LS t)) = hi st).
      { cbn [istep]. destruct (nth_error (idlers st) t) as [j|] eqn:Et; [|exists i; auto].
        destruct (Nat.eqb_spec t s) as [->|Hne].
        - rewrite Hn in Et. inversion Et; subst j. exists (set_ev i). cbn [idlers hi].
          rewrite (nth_error_upd_same _ _ _ _ Hn). repeat split; auto.
        - exists i. cbn [idlers hi]. rewrite nth_error_upd_other by congruence. auto. }
      destruct Hsame as (i1 & Hn1 & Hd1 & Hdist & Hh1).
      destruct (IH _ _ HG1 Hn1 Hd1 Hr) as (i' & Hn' & Hd' & Hh & Hle).
      exists i'. rewrite Hh1 in *. repeat split; auto. unfold own_steps in *. cbn [filter]. lia.
Qed.

Lemma progress_thm k sched0 s sched :
  let st := iexec true (iinit k) sched0 in
  idling st s -> forallb (quiet_for s) sched = true -> 4 <= own_steps s sched ->
  delivered_all (iexec true st sched) s.
Proof.
  intros st (i & Hn & Hd) Hq Hk.
  pose proof (GI_exec sched0 _ (GI_init k)) as HG. fold st in HG.
  destruct (progress_sched s sched st i HG Hn Hd Hq) as (i' & Hn' & _ & Hh & Hle).
  exists i'. split; [exact Hn'|]. rewrite Hh. pose proof (dist_le4 (hi st) i) as H4.
  assert (Hz : dist (hi st) i' = 0) by lia. unfold dist in Hz.
  destruct (Nat.eqb_spec (delivered i') (hi st)) as [E|E]; [exact E|].
  pose proof (GI_exec sched _ HG s i' Hn') as (_ & _ & _ & Hpc). rewrite Hh in Hpc.
  destruct (ipc_ i'); try discriminate.
  - destruct (Nat.eqb upto (hi st)); discriminate.
  - (* IEnd is impossible while no DONE was seen *)
    destruct (progress_sched s sched st i HG Hn Hd Hq) as (i2 & Hn2 & Hd2 & _ & _).
    rewrite Hn' in Hn2. inversion Hn2; subst. congruence.
Qed.

Lemma never_stuck_thm k sched0 s i :
  let st := iexec true (iinit k) sched0 in
  nth_error (idlers st) s = Some i -> idone i = None -> delivered i <> hi st -> ienabled i = true.
Proof. intros st Hn Hd Hp. eapply never_stuck; eauto. apply GI_exec, GI_init. Qed.

(* ------------------------------------------------------------ the end of IDLE *)
(* own steps until the tagged response once the client's line was read *)
Definition edist (i : idler) : nat :=
  match ipc_ i with
  | ICont => 5 | IWait => 4 | IDiff => 3 | IWrite _ _ => 2 | IArm => 1 | IEnd _ => 0
  end.

Lemma edist_step h i n ok : Iinv h i -> idone i = Some ok -> ipc_ i <> ICont ->
  edist (istep1 true h i n) <= edist i - 1 /\ idone (istep1 true h i n) = Some ok /\
  ipc_ (istep1 true h i n) <> ICont.
Proof.
  intros (H1 & H2 & H3 & H4) Hd Hc. unfold edist, istep1.
  destruct (ipc_ i) eqn:Ep; cbn [ipc_ idone]; try congruence.
  - rewrite Hd. cbn. repeat split; try lia; try assumption; discriminate.
  - rewrite H3 by congruence. cbn. repeat split; try lia; try assumption; discriminate.
  - cbn. repeat split; try lia; try assumption; discriminate.
  - cbn. repeat split; try lia; try assumption; discriminate.
  - rewrite Ep. cbn. repeat split; try lia; try assumption; discriminate.
Qed.

Lemma done_sched s ok sched : forall st i,
  GI st -> nth_error (idlers st) s = Some i -> idone i = Some ok -> ipc_ i <> ICont ->
  exists i', nth_error (idlers (iexec true st sched)) s = Some i' /\ idone i' = Some ok /\
             ipc_ i' <> ICont /\ edist i' <= edist i - own_steps s sched.
Proof.
  unfold iexec. induction sched as [|l r IH]; intros st i HG Hn Hd Hc.
  - exists i. cbn. repeat split; auto. lia.
  - cbn [fold_left]. pose proof (GI_step st l HG) as HG1.
    destruct l as [|t n|t b|t].
    + (* a writer: position and done flag untouched *)
      assert (Hn1 : nth_error (idlers (istep true st LW)) s = Some (set_ev i))
        by (cbn [istep idlers]; rewrite nth_error_map, Hn; reflexivity).
      destruct (IH _ _ HG1 Hn1 Hd Hc) as (i' & Hn' & Hd' & Hc' & Hle).
      exists i'. repeat split; auto.
    + cbn [istep] in *. destruct (nth_error (idlers st) t) as [j|] eqn:Et.
      * destruct (Nat.eqb_spec t s) as [->|Hne].
        -- rewrite Hn in Et. inversion Et; subst j.
           destruct (edist_step (hi st) i n ok (HG s i Hn) Hd Hc) as (Hdist & Hd1 & Hc1).
           destruct (IH (mkI (hi st) (upd (idlers st) s (istep1 true (hi st) i n))) _ HG1
                        (nth_error_upd_same _ _ _ _ Hn) Hd1 Hc1) as (i' & Hn' & Hd' & Hc' & Hle).
           exists i'. repeat split; auto.
           unfold own_steps in *. cbn [filter]. rewrite Nat.eqb_refl. cbn [length]. lia.
        -- assert (Hn1 : nth_error (upd (idlers st) t (istep1 true (hi st) j n)) s = Some i)
             by (rewrite nth_error_upd_other by congruence; exact Hn).
           destruct (IH (mkI (hi st) (upd (idlers st) t (istep1 true (hi st) j n))) _ HG1 Hn1 Hd Hc)
             as (i' & Hn' & Hd' & Hc' & Hle).
           exists i'. repeat split; auto.
           unfold own_steps in *. cbn [filter]. rewrite (proj2 (Nat.eqb_neq _ _) Hne). exact Hle.
      * destruct (IH st _ HG Hn Hd Hc) as (i' & Hn' & Hd' & Hc' & Hle).
        exists i'. repeat split; auto. unfold own_steps in *. cbn [filter].
        destruct (Nat.eqb_spec t s) as [->|Hne]; [congruence|exact Hle].
    + assert (Hsame : nth_error (idlers (istep true st (LDone t b))) s = Some i).
      { cbn [istep]. destruct (nth_error (idlers st) t) as [j|] eqn:Et; [|exact Hn].
        destruct (Nat.eqb_spec t s) as [->|Hne].
        - rewrite Hn in Et. inversion Et; subst j. rewrite Hd. exact Hn.
        - destruct (idone j); [exact Hn|].
          destruct (ipc_ j); cbn [idlers]; try exact Hn;
            (rewrite nth_error_upd_other by congruence; exact Hn). }
      destruct (IH _ _ HG1 Hsame Hd Hc) as (i' & Hn' & Hd' & Hc' & Hle).
      exists i'. repeat split; auto.
    + assert (Hsame : exists i1, nth_error (idlers (istep true st (LS t))) s = Some i1 /\
                      idone i1 = Some ok /\ ipc_ i1 = ipc_ i).
      { cbn [istep]. destruct (nth_error (idlers st) t) as [j|] eqn:Et; [|exists i; auto].
        destruct (Nat.eqb_spec t s) as [->|Hne].
        - rewrite Hn in Et. inversion Et; subst j. exists (set_ev i). cbn [idlers].
          rewrite (nth_error_upd_same _ _ _ _ Hn). auto.
        - exists i. cbn [idlers]. rewrite nth_error_upd_other by congruence. auto. }
      destruct Hsame as (i1 & Hn1 & Hd1 & Hp1).
      assert (Hc1 : ipc_ i1 <> ICont) by congruence.
      destruct (IH _ _ HG1 Hn1 Hd1 Hc1) as (i' & Hn' & Hd' & Hc' & Hle).
      exists i'. repeat split; auto. unfold edist in *. rewrite Hp1 in Hle.
      unfold own_steps in *. cbn [filter]. exact Hle.
Qed.

(* the client's line is read in any reachable state in which the update loop of
   s exists; whatever happens next (writers included), 4 own steps later IDLE
   has ended with OK iff the line was DONE *)
Lemma done_thm k sched0 s ok sched :
  let st := iexec true (iinit k) sched0 in
  (exists i, nth_error (idlers st) s = Some i /\ idone i = None /\ ipc_ i <> ICont) ->
  4 <= own_steps s sched ->
  ended (iexec true (istep true st (LDone s ok)) sched) s ok.
Proof.
  intros st (i & Hn & Hd & Hc) Hk.
  pose proof (GI_exec sched0 _ (GI_init k)) as HG. fold st in HG.
  pose proof (GI_step st (LDone s ok) HG) as HG1.
  assert (Hi : Iinv (hi st) i) by (apply (HG s i Hn)).
  assert (HnE : forall b, ipc_ i <> IEnd b).
  { intros b E. destruct Hi as (_ & _ & _ & H4). rewrite E in H4. congruence. }
  set (i1 := mkIdler (ipc_ i) (seen i) (delivered i) true (Some ok)).
  assert (Hn1 : nth_error (idlers (istep true st (LDone s ok))) s = Some i1).
  { cbn [istep]. rewrite Hn, Hd. destruct (ipc_ i) eqn:Ep; cbn [idlers];
      try (rewrite (nth_error_upd_same _ _ _ _ Hn); reflexivity); [congruence|exfalso; eapply HnE; reflexivity]. }
  destruct (done_sched s ok sched _ i1 HG1 Hn1 eq_refl Hc) as (i' & Hn' & Hd' & _ & Hle).
  exists i'. split; [exact Hn'|].
  assert (He : edist i1 <= 4) by (unfold edist, i1; cbn [ipc_]; destruct (ipc_ i); try lia; congruence).
  assert (Hz : edist i' = 0) by lia.
  pose proof (GI_exec sched _ HG1 s i' Hn') as (_ & _ & _ & Hpc).
  unfold edist in Hz. destruct (ipc_ i') eqn:Ep'; try discriminate. congruence.
Qed.

(* ------------------------------------------------------------ without the re-check *)
(* the loop before the fix: a change lands while the idler is inside drain;
   afterwards it sleeps in its wait although a change is pending *)
Lemma lost_wakeup :
  exists sched st i,
    st = iexec false (iinit 1) sched /\ nth_error (idlers st) 0 = Some i /\ idone i = None /\
    delivered i < hi st /\ ienabled i = false.
Proof.
  exists [LI 0 0; LI 0 0; LW; LI 0 0; LI 0 1; LW; LI 0 0; LI 0 0].
  eexists. eexists. split; [reflexivity|]. vm_compute. repeat split. lia.
Qed.

(* the same schedule with the re-check: delivered after the idler's next steps *)
Example recheck_delivers :
  exists i, nth_error (idlers (iexec true (iinit 1)
                [LI 0 0; LI 0 0; LW; LI 0 0; LI 0 1; LW; LI 0 0; LI 0 0; LI 0 1; LI 0 0])) 0 = Some i
            /\ delivered i = 2 /\ ipc_ i = IArm.
Proof. eexists. split; [vm_compute; reflexivity|split; reflexivity]. Qed.
