(* Sync/ThreadRWLockProofs.v -- proofs about Sync/ThreadRWLock.v: an inductive
   invariant over every interleaving of lock operations and counter accesses,
   any number of threads, any programs (with raising bodies). *)
From PV Require Import Base.Prelude Sync.RWLock Sync.RWLockProofs Sync.ThreadRWLock.
Require Import Lia.

(* ------------------------------------------------------------- sums *)
Lemma lsum_upd g ts t old new : nth_error ts t = Some old ->
  lsum g (upd ts t new) + g old = lsum g ts + g new.
Proof.
  revert t; induction ts as [|y r IH]; intros [|t] H; cbn in *; try discriminate.
  - inversion H; subst; lia.
  - specialize (IH t H). lia.
Qed.

Lemma tsum_upd f ts t old new : nth_error ts t = Some old ->
  tsum f (upd ts t new) + f (tp old) = tsum f ts + f (tp new).
Proof. apply (lsum_upd (fun th => f (tp th))). Qed.

Lemma lsum_ge g ts t th : nth_error ts t = Some th -> g th <= lsum g ts.
Proof.
  revert t; induction ts as [|y r IH]; intros [|t] H; cbn in *; try discriminate.
  - inversion H; subst; lia.
  - specialize (IH t H). lia.
Qed.

Lemma tsum_ge f ts t th : nth_error ts t = Some th -> f (tp th) <= tsum f ts.
Proof. apply (lsum_ge (fun th => f (tp th))). Qed.

Lemma lsum_pos_inv g ts : 1 <= lsum g ts -> exists t th, nth_error ts t = Some th /\ 1 <= g th.
Proof.
  induction ts as [|y r IH]; cbn; intro H; [lia|].
  destruct (g y) eqn:E.
  - destruct (IH H) as (t & th & Ht & Hg). exists (S t), th. split; assumption.
  - exists 0, y. split; [reflexivity|lia].
Qed.

Lemma tsum_pos_inv f ts : 1 <= tsum f ts ->
  exists t th, nth_error ts t = Some th /\ 1 <= f (tp th).
Proof. apply (lsum_pos_inv (fun th => f (tp th))). Qed.

Lemma lsum_zero g ts : lsum g ts = 0 -> forall t th, nth_error ts t = Some th -> g th = 0.
Proof. intros H t th Ht. pose proof (lsum_ge g ts t th Ht). lia. Qed.

Lemma tsum_le f g ts : (forall p, f p <= g p) -> tsum f ts <= tsum g ts.
Proof.
  intro H. unfold tsum. induction ts as [|y r IH]; cbn; [lia|]. specialize (H (tp y)). lia.
Qed.

(* ------------------------------------------------------------- invariant *)
(* holds the read mutex *)
Definition hr (p : thpc) : nat :=
  match p with RA2 | RA3 | RA4 | RA5 _ | RA6 | RR2 | RR3 _ | RR4 | RR5 | RR6 => 1 | _ => 0 end.
(* the write mutex belongs to the readers although the counter does not show it
   (yet / any more) *)
Definition gg (p : thpc) : nat := match p with RA4 | RA5 _ | RR4 | RR5 => 1 | _ => 0 end.

Definition local_ok (c : nat) (p : thpc) : Prop :=
  match p with
  | RA3 => c = 0
  | RA5 v => v = c
  | RR3 v => v = c
  | RR5 => c = 0
  | _ => True
  end.

Record TInv (st : tstate) : Prop := mkTInv {
  ti_rl : b2n (trl st) = tsum hr (ths st);
  ti_c : tcnt st = tsum in_r (ths st);
  ti_wl : b2n (twl st) = tsum in_w (ths st) + Nat.min 1 (tcnt st + tsum gg (ths st));
  ti_loc : forall t th, nth_error (ths st) t = Some th -> local_ok (tcnt st) (tp th);
  ti_err : terr st = false
}.

Lemma gg_le_hr p : gg p <= hr p.
Proof. destruct p; cbn; lia. Qed.

Lemma local_hr0 c p : hr p = 0 -> local_ok c p.
Proof. destruct p; cbn; intro H; try exact I; discriminate. Qed.

Lemma b2n_le1 b : b2n b <= 1.
Proof. destruct b; cbn; lia. Qed.

Lemma others_hr0 ts t th u thu :
  tsum hr ts <= 1 -> nth_error ts t = Some th -> hr (tp th) = 1 -> u <> t ->
  nth_error ts u = Some thu -> hr (tp thu) = 0.
Proof.
  intros Hs Ht Hh Hne Hu.
  pose proof (tsum_upd hr ts t th (mkTh [] TIdle false) Ht) as U. cbn [tp hr] in U.
  assert (Hu' : nth_error (upd ts t (mkTh [] TIdle false)) u = Some thu).
  { rewrite nth_error_upd_other; assumption. }
  pose proof (tsum_ge hr _ _ _ Hu') as G. lia.
Qed.

(* the generic preservation lemma: thread t goes from [th] to [new], the
   shared fields become rl' wl' c' *)
Lemma tinv_upd st t th new rl' wl' c' :
  TInv st -> nth_error (ths st) t = Some th ->
  b2n rl' + hr (tp th) = b2n (trl st) + hr (tp new) ->
  c' + in_r (tp th) = tcnt st + in_r (tp new) ->
  (forall H G, b2n (twl st) = H + Nat.min 1 (tcnt st + G) ->
               in_w (tp th) <= H -> gg (tp th) <= G -> G <= b2n (trl st) -> G <= 1 ->
               b2n wl' = (H + in_w (tp new) - in_w (tp th))
                         + Nat.min 1 (c' + (G + gg (tp new) - gg (tp th)))) ->
  local_ok c' (tp new) ->
  (c' = tcnt st \/ hr (tp th) = 1) ->
  TInv (mkTState (upd (ths st) t new) rl' wl' c' (terr st)).
Proof.
  intros [I1 I2 I3 I4 I5] Hn Hrl Hc Hwl Hloc Hch.
  pose proof (tsum_upd hr _ _ _ new Hn) as Uhr.
  pose proof (tsum_upd in_r _ _ _ new Hn) as Ucc.
  pose proof (tsum_upd in_w _ _ _ new Hn) as Uhw.
  pose proof (tsum_upd gg _ _ _ new Hn) as Ugg.
  pose proof (tsum_ge in_w _ _ _ Hn) as Ghw.
  pose proof (tsum_ge gg _ _ _ Hn) as Ggg.
  pose proof (tsum_le gg hr (ths st) gg_le_hr) as Gle.
  constructor; cbn [ths trl twl tcnt terr].
  - lia.
  - lia.
  - pose proof (b2n_le1 (trl st)) as Hb. rewrite (Hwl _ _ I3 Ghw Ggg ltac:(lia) ltac:(lia)). lia.
  - intros u thu Hu. rewrite nth_error_upd in Hu. destruct (Nat.eqb_spec u t) as [->|Hne].
    + rewrite Hn in Hu. inversion Hu; subst thu. exact Hloc.
    + destruct Hch as [->|Hh]; [exact (I4 _ _ Hu)|].
      apply local_hr0. apply (others_hr0 (ths st) t th u thu); try assumption.
      pose proof (b2n_le1 (trl st)). lia.
  - exact I5.
Qed.

Ltac tfacts HI Hn E :=
  pose proof (ti_rl _ HI) as F1; pose proof (ti_c _ HI) as F2; pose proof (ti_wl _ HI) as F3;
  pose proof (ti_loc _ HI _ _ Hn) as F4;
  pose proof (tsum_ge hr _ _ _ Hn) as Fhr; pose proof (tsum_ge in_r _ _ _ Hn) as Fcc;
  pose proof (tsum_ge in_w _ _ _ Hn) as Fhw; pose proof (tsum_ge gg _ _ _ Hn) as Fgg;
  rewrite E in F4, Fhr, Fcc, Fhw, Fgg; cbn [hr in_r in_w gg local_ok] in F4, Fhr, Fcc, Fhw, Fgg.

Ltac tcase HI Hn E :=
  apply (tinv_upd _ _ _ _ _ _ _ HI Hn);
  rewrite ?E; cbn [tp hr in_r in_w gg local_ok b2n tfinish ths trl twl tcnt terr];
  [ try lia | try lia
  | intros H G HG1 HG2 HG3 HG4 HG5; cbn [b2n ths trl twl tcnt terr] in *; try lia
  | try exact I; try lia
  | try (left; reflexivity); try (right; reflexivity) ].

Lemma tstep_inv st t : TInv st -> TInv (tstep st t).
Proof.
  intro HI. unfold tstep.
  destruct (nth_error (ths st) t) as [th|] eqn:Hn; [|exact HI].
  destruct (tp th) eqn:E; try exact HI; tfacts HI Hn E;
    unfold trelease_rl, trelease_wl, tset_err, tset_cnt, tset_rl, tset_wl, tset_th;
    destruct st as [ts rl wl c e]; cbn [ths trl twl tcnt terr] in *.
  - (* TIdle *)
    destruct (tprog th) as [|s rest].
    + tcase HI Hn E.
    + destruct (sk s); tcase HI Hn E.
  - (* RA1 *) destruct rl; [exact HI|]. cbn [b2n] in *. tcase HI Hn E.
  - (* RA2 *) destruct (Nat.eqb_spec c 0) as [Hz|Hz]; tcase HI Hn E.
  - (* RA3 *) destruct wl; [exact HI|]. cbn [b2n] in *. tcase HI Hn E.
  - (* RA4 *) tcase HI Hn E.
  - (* RA5 *) subst v. tcase HI Hn E.
  - (* RA6 *) destruct rl; cbn [b2n] in *; [|lia]. tcase HI Hn E.
  - (* RBody *) tcase HI Hn E.
  - (* RR1 *) destruct rl; [exact HI|]. cbn [b2n] in *. tcase HI Hn E.
  - (* RR2 *) tcase HI Hn E.
  - (* RR3 *) subst v. destruct c as [|n]; [lia|]. tcase HI Hn E.
  - (* RR4 *) destruct (Nat.eqb_spec c 0) as [Hz|Hz]; tcase HI Hn E.
  - (* RR5 *) destruct wl; cbn [b2n] in *; [|lia]. tcase HI Hn E.
  - (* RR6 *) destruct rl; cbn [b2n] in *; [|lia].
    unfold tfinish; destruct (texc th); tcase HI Hn E.
  - (* WA1 *) destruct wl; [exact HI|]. cbn [b2n] in *. tcase HI Hn E.
  - (* WBody *) tcase HI Hn E.
  - (* WR1 *) destruct wl; cbn [b2n] in *; [|lia].
    unfold tfinish; destruct (texc th); tcase HI Hn E.
Qed.

Lemma texec_inv sched : forall st, TInv st -> TInv (texec st sched).
Proof.
  induction sched as [|t r IH]; intros st HI; [exact HI|].
  cbn [texec fold_left]. apply IH. apply tstep_inv. exact HI.
Qed.

Lemma tsum_init f progs : f TIdle = 0 -> tsum f (ths (tinit progs)) = 0.
Proof.
  intro H. unfold tinit, tsum. cbn [ths]. induction progs as [|p r IH]; cbn; [reflexivity|].
  rewrite H. exact IH.
Qed.

Lemma tinit_inv progs : TInv (tinit progs).
Proof.
  constructor.
  - rewrite tsum_init; reflexivity.
  - rewrite tsum_init; reflexivity.
  - rewrite !tsum_init; reflexivity.
  - intros t th Ht. unfold tinit in Ht. cbn [ths] in Ht.
    rewrite nth_error_map in Ht. destruct (nth_error progs t); inversion Ht; subst. exact I.
  - reflexivity.
Qed.

Lemma treach_inv progs sched : TInv (texec (tinit progs) sched).
Proof. apply texec_inv, tinit_inv. Qed.

(* ------------------------------------------------------------- safety *)
Lemma tinv_excl st : TInv st ->
  twriters_in st <= 1 /\ (twriters_in st = 1 -> treaders_in st = 0).
Proof.
  intros [I1 I2 I3 I4 I5]. unfold twriters_in, treaders_in.
  pose proof (b2n_le1 (twl st)). split; lia.
Qed.

Lemma body_excl st : TInv st ->
  tsum body_w (ths st) <= 1 /\ (1 <= tsum body_w (ths st) -> tsum body_r (ths st) = 0).
Proof.
  intro HI. destruct (tinv_excl st HI) as [A B]. unfold twriters_in, treaders_in in *.
  assert (tsum body_w (ths st) <= tsum in_w (ths st)) by (apply tsum_le; intros []; cbn; lia).
  assert (tsum body_r (ths st) <= tsum in_r (ths st)) by (apply tsum_le; intros []; cbn; lia).
  split; lia.
Qed.

Lemma thr_excl_thm progs sched :
  let st := texec (tinit progs) sched in
  twriters_in st <= 1 /\ (twriters_in st = 1 -> treaders_in st = 0).
Proof. apply tinv_excl, treach_inv. Qed.

Lemma thr_body_excl_thm progs sched :
  let st := texec (tinit progs) sched in
  tsum body_w (ths st) <= 1 /\ (1 <= tsum body_w (ths st) -> tsum body_r (ths st) = 0).
Proof. apply body_excl, treach_inv. Qed.

Lemma thr_counter_thm progs sched :
  let st := texec (tinit progs) sched in tcnt st = treaders_in st.
Proof. apply ti_c, treach_inv. Qed.

Lemma thr_no_error_thm progs sched : terr (texec (tinit progs) sched) = false.
Proof. apply ti_err, treach_inv. Qed.

(* the lock words say who holds what *)
Lemma thr_lock_words_thm progs sched :
  let st := texec (tinit progs) sched in
  b2n (trl st) = tsum hr (ths st) /\
  b2n (twl st) = twriters_in st + Nat.min 1 (tcnt st + tsum gg (ths st)).
Proof. pose proof (treach_inv progs sched) as [I1 I2 I3 I4 I5]. split; assumption. Qed.

(* every thread finished (normally or by an exception out of a body): the
   lock is back to its initial state *)
Lemma tsum_finished f ts : f TDone = 0 -> f TFailed = 0 ->
  (forall t th, nth_error ts t = Some th -> tfinished (tp th) = true) -> tsum f ts = 0.
Proof.
  intros H1 H2. unfold tsum. induction ts as [|y r IH]; intro Hf; [reflexivity|].
  cbn [lsum]. rewrite IH.
  - pose proof (Hf 0 y eq_refl) as Hy. destruct (tp y); cbn in Hy; try discriminate; lia.
  - intros t th Ht. exact (Hf (S t) th Ht).
Qed.

Lemma finished_free st : TInv st -> tall_finished st ->
  trl st = false /\ twl st = false /\ tcnt st = 0.
Proof.
  intros [I1 I2 I3 I4 I5] Hf.
  rewrite (tsum_finished hr) in I1 by (try reflexivity; exact Hf).
  rewrite (tsum_finished in_r) in I2 by (try reflexivity; exact Hf).
  rewrite (tsum_finished in_w), (tsum_finished gg), I2 in I3 by (try reflexivity; exact Hf).
  cbn in I3. destruct (trl st), (twl st); cbn in *; try lia; auto.
Qed.

Lemma thr_released_thm progs sched :
  let st := texec (tinit progs) sched in
  tall_finished st -> trl st = false /\ twl st = false /\ tcnt st = 0.
Proof. apply finished_free, treach_inv. Qed.

(* ------------------------------------------------------------- progress *)
Ltac en_now v Hv E := exists v; unfold tenabled; rewrite Hv, E; reflexivity.

(* someone holds the read mutex: a thread can step, or the holder is the
   first reader waiting for a writer to leave *)
Lemma rl_progress st : TInv st -> trl st = true ->
  (exists v, tenabled st v = true) \/ (tcnt st = 0 /\ twl st = true).
Proof.
  intros HI Hrl. pose proof (ti_rl _ HI) as I1. rewrite Hrl in I1. cbn in I1.
  destruct (tsum_pos_inv hr (ths st) ltac:(lia)) as (v & th & Hv & Hh).
  pose proof (ti_loc _ HI _ _ Hv) as L.
  destruct (tp th) eqn:E; cbn in Hh, L; try lia; try (left; en_now v Hv E).
  destruct (twl st) eqn:Ewl.
  - right. split; [exact L|reflexivity].
  - left. exists v. unfold tenabled. rewrite Hv, E, Ewl. reflexivity.
Qed.

Lemma wl_progress st : TInv st -> twl st = true -> exists v, tenabled st v = true.
Proof.
  intros HI Hwl. pose proof (ti_wl _ HI) as I3. rewrite Hwl in I3. cbn [b2n] in I3.
  assert (C : 1 <= tsum in_w (ths st) \/ 1 <= tsum gg (ths st) \/ 1 <= tcnt st) by lia.
  destruct C as [C|[C|C]].
  - destruct (tsum_pos_inv _ _ C) as (v & th & Hv & Hh).
    destruct (tp th) eqn:E; cbn in Hh; try lia; en_now v Hv E.
  - destruct (tsum_pos_inv _ _ C) as (v & th & Hv & Hh).
    destruct (tp th) eqn:E; cbn in Hh; try lia; en_now v Hv E.
  - rewrite (ti_c _ HI) in C. destruct (tsum_pos_inv _ _ C) as (v & th & Hv & Hh).
    destruct (tp th) eqn:E; cbn in Hh; try lia; try en_now v Hv E.
    (* RR1 *)
    destruct (trl st) eqn:Erl.
    + destruct (rl_progress st HI Erl) as [P|[P _]]; [exact P|].
      pose proof (ti_c _ HI). pose proof (tsum_ge in_r _ _ _ Hv) as G. rewrite E in G. cbn in G. lia.
    + exists v. unfold tenabled. rewrite Hv, E, Erl. reflexivity.
Qed.

Lemma tinv_no_deadlock st : TInv st -> (exists t, tunfinished st t) ->
  exists t, tenabled st t = true.
Proof.
  intros HI (u & th & Hu & Hf).
  destruct (tp th) eqn:E; cbn in Hf; try discriminate; try en_now u Hu E.
  - (* RA1 *) destruct (trl st) eqn:Erl.
    + destruct (rl_progress st HI Erl) as [P|[_ P]]; [exact P|exact (wl_progress st HI P)].
    + exists u. unfold tenabled. rewrite Hu, E, Erl. reflexivity.
  - (* RA3 *) destruct (twl st) eqn:Ewl; [exact (wl_progress st HI Ewl)|].
    exists u. unfold tenabled. rewrite Hu, E, Ewl. reflexivity.
  - (* RR1 *) destruct (trl st) eqn:Erl.
    + destruct (rl_progress st HI Erl) as [P|[_ P]]; [exact P|exact (wl_progress st HI P)].
    + exists u. unfold tenabled. rewrite Hu, E, Erl. reflexivity.
  - (* WA1 *) destruct (twl st) eqn:Ewl; [exact (wl_progress st HI Ewl)|].
    exists u. unfold tenabled. rewrite Hu, E, Ewl. reflexivity.
Qed.

(* a thread that is not enabled does not move; an enabled one consumes budget *)
Lemma tstep_stutter st t : tenabled st t = false -> tstep st t = st.
Proof.
  unfold tenabled, tstep. destruct (nth_error (ths st) t) as [th|]; [|reflexivity].
  destruct (tp th); intro H; try discriminate; try reflexivity;
    apply Bool.negb_false_iff in H; rewrite H; reflexivity.
Qed.

Lemma ths_release_rl st : ths (trelease_rl st) = ths st.
Proof. unfold trelease_rl. destruct (trl st); reflexivity. Qed.
Lemma ths_release_wl st : ths (trelease_wl st) = ths st.
Proof. unfold trelease_wl. destruct (twl st); reflexivity. Qed.

Lemma tstep_measure st t : tenabled st t = true -> tmeasure (tstep st t) < tmeasure st.
Proof.
  unfold tenabled, tstep, tmeasure. destruct (nth_error (ths st) t) as [th|] eqn:Hn; [|discriminate].
  destruct th as [pr p ex]. cbn [tp tprog texc].
  assert (U : forall new, thw new < thw (mkTh pr p ex) ->
              lsum thw (upd (ths st) t new) < lsum thw (ths st)).
  { intros new Hlt. pose proof (lsum_upd thw _ _ _ new Hn). lia. }
  destruct p; intro H; try discriminate;
    rewrite ?ths_release_rl, ?ths_release_wl;
    try (apply Bool.negb_true_iff in H; rewrite H);
    unfold tset_cnt, tset_rl, tset_wl, tset_err, tset_th, tfinish; cbn [ths tp tprog texc];
    try (apply U; unfold thw; cbn; lia).
  - destruct pr as [|s rest]; cbn [ths]; apply U; unfold thw; cbn [tp tprog tfinished pcw length].
    + lia.
    + destruct (sk s); cbn [tfinished pcw]; lia.
  - destruct (Nat.eqb (tcnt st) 0); cbn [ths]; apply U; unfold thw; cbn; lia.
  - destruct v; cbn [ths]; apply U; unfold thw; cbn; lia.
  - destruct (Nat.eqb (tcnt st) 0); cbn [ths]; apply U; unfold thw; cbn; lia.
  - destruct ex; apply U; unfold thw; cbn; lia.
  - destruct ex; apply U; unfold thw; cbn; lia.
Qed.

Lemma teff_measure sched : forall st, teff st sched + tmeasure (texec st sched) <= tmeasure st.
Proof.
  induction sched as [|t r IH]; intro st; cbn [teff texec fold_left]; [lia|].
  specialize (IH (tstep st t)). unfold texec in IH.
  destruct (tenabled st t) eqn:En.
  - pose proof (tstep_measure st t En). lia.
  - rewrite (tstep_stutter st t En) in *. lia.
Qed.

Lemma measure_zero_finished st : tmeasure st = 0 -> tall_finished st.
Proof.
  intros H t th Ht. pose proof (lsum_zero thw _ H t th Ht) as Z. unfold thw in Z.
  destruct (tfinished (tp th)); [reflexivity|lia].
Qed.

Lemma thr_no_deadlock_thm progs sched :
  let st := texec (tinit progs) sched in
  (exists t, tunfinished st t) ->
  exists t, tenabled st t = true /\ tmeasure (tstep st t) < tmeasure st.
Proof.
  intros st Hu. destruct (tinv_no_deadlock st (treach_inv progs sched) Hu) as (t & Ht).
  exists t. split; [exact Ht|apply tstep_measure; exact Ht].
Qed.

Lemma thr_terminates_thm progs sched :
  teff (tinit progs) sched + tmeasure (texec (tinit progs) sched) <= tmeasure (tinit progs).
Proof. apply teff_measure. Qed.

(* a schedule that contains as many effective steps as the budget of the
   programs has run every thread to its end *)
Lemma thr_fair_finishes_thm progs sched :
  tmeasure (tinit progs) <= teff (tinit progs) sched ->
  tall_finished (texec (tinit progs) sched).
Proof.
  intro H. apply measure_zero_finished. pose proof (teff_measure sched (tinit progs)). lia.
Qed.

(* hypotheses are satisfiable: a run with contention and a raising reader *)
Definition ex_progs : list (list sect) :=
  [[mkSect KW false; mkSect KR false]; [mkSect KR true]; [mkSect KR false]].
Definition ex_sched : list nat := flat_map (fun _ => [0; 1; 2; 2]) (seq 0 40).
Example thr_run_example :
  let st := texec (tinit ex_progs) ex_sched in
  map tp (ths st) = [TDone; TFailed; TDone] /\ trl st = false /\ twl st = false /\ tcnt st = 0.
Proof. vm_compute. repeat split. Qed.
(* ... in which thread 1 was blocked behind the writer (a stutter happened) *)
Example thr_run_contention :
  teff (tinit ex_progs) ex_sched < length ex_sched /\
  twl (texec (tinit ex_progs) [0; 0; 1; 1; 1; 1; 2; 2]) = true /\
  tenabled (texec (tinit ex_progs) [0; 0; 1; 1; 1; 1; 2; 2]) 1 = false /\
  tenabled (texec (tinit ex_progs) [0; 0; 1; 1; 1; 1; 2; 2]) 2 = false.
Proof. vm_compute. repeat split; lia. Qed.
