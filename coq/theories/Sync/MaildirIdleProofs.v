(* Sync/MaildirIdleProofs.v -- progress of the maildir poll loop, DONE, no
   duplicate reports; the or-event specification. *)
From PV Require Import Base.Prelude Sync.MaildirIdle.
Require Import Lia.

Record MInv (P : nat) (st : mstate) : Prop := mkMInv {
  mi_le1 : mdeliv st <= mseen st;
  mi_le2 : mseen st <= mhi st;
  mi_out : chained (mout st) (mdeliv st);
  mi_pc : match mp st with
          | MWrite lo up => lo = mdeliv st /\ up = mseen st
          | MEnd ok => mdone st = Some ok /\ mdeliv st = mseen st
          | MWait => mdead st <= mclock st + P /\ mdeliv st = mseen st
          | _ => mdeliv st = mseen st
          end
}.

Lemma minit_inv P : MInv P minit.
Proof. constructor; cbn; auto. Qed.

Lemma mstep_inv P st l st' : MInv P st -> mstep P st l = Some st' -> MInv P st'.
Proof.
  intros [H1 H2 H3 H4] Hs. destruct st as [p c d hi seen del out dn wk]. cbn in *.
  destruct l; cbn in Hs.
  - inversion Hs; subst; clear Hs. constructor; cbn; auto; try lia; try (destruct p; intuition lia).
  - destruct (ienabled _) eqn:En; [discriminate|]. inversion Hs; subst; clear Hs.
    constructor; cbn; auto; try lia; try (destruct p; cbn in En; try discriminate; intuition lia).
  - destruct (ienabled _) eqn:En; [|discriminate]. inversion Hs; subst; clear Hs.
    unfold istep; cbn -[Nat.ltb]. destruct p; cbn -[Nat.ltb] in *.
    + constructor; cbn; auto.
    + destruct dn; constructor; cbn; auto; lia.
    + destruct H4. constructor; cbn; auto.
    + constructor; cbn; auto; try lia.
    + destruct H4 as [-> ->]. constructor; cbn -[Nat.ltb]; auto; try lia.
      destruct (Nat.ltb_spec del seen) as [L|L]; cbn.
      * repeat split; auto.
      * assert (seen = del) by lia. subst. exact H3.
    + constructor; cbn; auto.
  - destruct p, dn; inversion Hs; subst; clear Hs; constructor; cbn in *; auto.
  - destruct p; inversion Hs; subst; clear Hs; constructor; cbn in *; auto.
Qed.

Lemma mexec_inv P sched : forall st st', MInv P st -> mexec P st sched = Some st' -> MInv P st'.
Proof.
  induction sched as [|l r IH]; intros st st' HI He; cbn in He.
  - inversion He; subst; exact HI.
  - destruct (mstep P st l) as [st1|] eqn:Es; [|discriminate].
    exact (IH _ _ (mstep_inv _ _ _ _ HI Es) He).
Qed.

Lemma work_cons l r : work (l :: r) = counts l + work r.
Proof. reflexivity. Qed.
Lemma isteps_cons l r : isteps (l :: r) = (match l with MI => 1 | _ => 0 end) + isteps r.
Proof. reflexivity. Qed.
Lemma mticks_cons l r : mticks (l :: r) = (match l with MTick => 1 | _ => 0 end) + mticks r.
Proof. reflexivity. Qed.

(* ---------------------------------------------------------------- progress *)
(* upper bound on the ticks + idler steps before everything is written *)
Definition rem (P : nat) (st : mstate) : nat :=
  if mdeliv st =? mhi st then 0 else
  match mp st with
  | MCont => P + 6
  | MTop => P + 5
  | MWait => (mdead st - mclock st) + 3
  | MScan => 2
  | MWrite _ up => if up =? mhi st then 1 else P + 6
  | MEnd _ => 0
  end.

Lemma rem_bound P st : MInv P st -> rem P st <= P + 6.
Proof.
  intros [H1 H2 H3 H4]. unfold rem. destruct (mdeliv st =? mhi st); [lia|].
  destruct (mp st); try lia.
  destruct (upto =? mhi st); lia.
Qed.

Lemma quiet_step_rem P st l st' :
  MInv P st -> mdone st = None -> is_quiet l = true -> mstep P st l = Some st' ->
  mdone st' = None /\ rem P st' <= rem P st - counts l.
Proof.
  intros [H1 H2 H3 H4] Hd Hq Hs. destruct st as [p c d hi seen del out dn wk]. cbn in *. subst dn.
  destruct l; cbn in Hq; try discriminate; cbn in Hs.
  - (* tick *)
    destruct (ienabled _) eqn:En; [discriminate|]. inversion Hs; subst; clear Hs.
    split; [reflexivity|]. unfold rem; cbn.
    destruct p; cbn in En; try discriminate.
    + destruct wk; cbn in En; [discriminate|]. apply Nat.leb_gt in En.
      destruct (del =? hi); lia.
    + destruct H4 as [E _]. discriminate.
  - (* idler step *)
    destruct (ienabled _) eqn:En; [|discriminate]. inversion Hs; subst; clear Hs.
    split; [destruct p; reflexivity|]. unfold rem, istep; cbn.
    destruct p; cbn in *.
    + destruct (del =? hi); lia.
    + destruct (del =? hi); lia.
    + destruct (del =? hi); lia.
    + subst seen. destruct (Nat.eqb_spec del hi); [lia|]. rewrite Nat.eqb_refl. lia.
    + destruct H4 as [-> ->]. destruct (Nat.eqb_spec del hi) as [->|Hne].
      * assert (seen = hi) by lia. subst. rewrite Nat.eqb_refl. lia.
      * destruct (Nat.eqb_spec seen hi); lia.
    + destruct H4 as [E _]. discriminate.
  - (* wake *)
    destruct p; inversion Hs; subst; clear Hs; split; try reflexivity; unfold rem; cbn; lia.
Qed.

Lemma quiet_exec_rem P sched : forall st st',
  MInv P st -> mdone st = None -> forallb is_quiet sched = true ->
  mexec P st sched = Some st' ->
  mdone st' = None /\ rem P st' <= rem P st - work sched.
Proof.
  induction sched as [|l r IH]; intros st st' HI Hd Hq He; cbn in He.
  - inversion He; subst. split; [exact Hd|unfold work; cbn; lia].
  - cbn in Hq. apply andb_prop in Hq. destruct Hq as [Hl Hr].
    destruct (mstep P st l) as [st1|] eqn:Es; [|discriminate].
    destruct (quiet_step_rem _ _ _ _ HI Hd Hl Es) as [Hd1 R1].
    destruct (IH _ _ (mstep_inv _ _ _ _ HI Es) Hd1 Hr He) as [Hd2 R2].
    split; [exact Hd2|]. rewrite work_cons. lia.
Qed.

Lemma rem_zero P st : MInv P st -> mdone st = None -> rem P st = 0 -> mdeliv st = mhi st.
Proof.
  intros [H1 H2 H3 H4] Hd. unfold rem. destruct (Nat.eqb_spec (mdeliv st) (mhi st)); [auto|].
  destruct (mp st); try lia.
  - destruct (upto =? mhi st); lia.
  - destruct H4 as [E _]. congruence.
Qed.

(* every change made while the session idles is completely written after at
   most P + 6 ticks-or-idler-steps in which nothing else happens -- without
   any notification: the model has none *)
Lemma poll_progress P sched0 st sched st' :
  mexec P minit sched0 = Some st -> mdone st = None ->
  forallb is_quiet sched = true -> mexec P st sched = Some st' ->
  P + 6 <= work sched -> mdeliv st' = mhi st'.
Proof.
  intros R Hd Hq He Hw.
  pose proof (mexec_inv P _ _ _ (minit_inv P) R) as HI.
  destruct (quiet_exec_rem P _ _ _ HI Hd Hq He) as [Hd' Hr].
  pose proof (rem_bound P st HI).
  apply (rem_zero P); [exact (mexec_inv P _ _ _ HI He)|exact Hd'|lia].
Qed.

(* ... and never later than one poll period of virtual time: while something
   is still unreported at most P ticks can have passed *)
Definition trem (P : nat) (st : mstate) : nat :=
  match mp st with
  | MCont | MTop => P
  | MWait => mdead st - mclock st
  | MScan => 0
  | MWrite _ up => if up =? mhi st then 0 else P
  | MEnd _ => 0
  end.

Lemma quiet_step_trem P st l st' :
  MInv P st -> mdone st = None -> is_quiet l = true -> mstep P st l = Some st' ->
  mdeliv st' = mhi st' \/
  trem P st' + (match l with MTick => 1 | _ => 0 end) <= trem P st.
Proof.
  intros [H1 H2 H3 H4] Hd Hq Hs. destruct st as [p c d hi seen del out dn wk]. cbn in *. subst dn.
  destruct l; cbn in Hq; try discriminate; cbn in Hs.
  - destruct (ienabled _) eqn:En; [discriminate|]. inversion Hs; subst; clear Hs.
    right. unfold trem; cbn. destruct p; cbn in En; try discriminate.
    + destruct wk; cbn in En; [discriminate|]. apply Nat.leb_gt in En. lia.
    + destruct H4 as [E _]. discriminate.
  - destruct (ienabled _) eqn:En; [|discriminate]. inversion Hs; subst; clear Hs.
    unfold trem, istep; cbn. destruct p; cbn in *; try (right; lia).
    + right. rewrite Nat.eqb_refl. lia.
    + destruct H4 as [-> ->]. destruct (Nat.eqb_spec seen hi); [left; auto|right; lia].
  - right. destruct p; inversion Hs; subst; clear Hs; unfold trem; cbn; lia.
Qed.

Lemma delivered_stays P st l st' :
  MInv P st -> is_quiet l = true -> mstep P st l = Some st' ->
  mdeliv st = mhi st -> mdeliv st' = mhi st'.
Proof.
  intros [H1 H2 H3 H4] Hq Hs E. destruct st as [p c d hi seen del out dn wk]. cbn in *.
  destruct l; cbn in Hq; try discriminate; cbn in Hs.
  - destruct (ienabled _); [discriminate|]. inversion Hs; subst; reflexivity.
  - destruct (ienabled _); [|discriminate]. inversion Hs; subst; clear Hs.
    unfold istep; cbn. destruct p; cbn in *; try reflexivity.
    + destruct dn; reflexivity.
    + destruct H4 as [-> ->]. lia.
  - destruct p; inversion Hs; subst; reflexivity.
Qed.

Lemma delivered_stays_exec P r : forall st st',
  MInv P st -> forallb is_quiet r = true -> mexec P st r = Some st' ->
  mdeliv st = mhi st -> mdeliv st' = mhi st'.
Proof.
  induction r as [|l r IH]; intros st st' HI Hq He D; cbn in He.
  - inversion He; subst; exact D.
  - cbn in Hq. apply andb_prop in Hq. destruct Hq as [Hl Hr].
    destruct (mstep P st l) as [st1|] eqn:Es; [|discriminate].
    exact (IH _ _ (mstep_inv _ _ _ _ HI Es) Hr He (delivered_stays _ _ _ _ HI Hl Es D)).
Qed.

Lemma quiet_exec_trem P sched : forall st st',
  MInv P st -> mdone st = None -> forallb is_quiet sched = true ->
  mexec P st sched = Some st' ->
  mdeliv st' = mhi st' \/ trem P st' + mticks sched <= trem P st.
Proof.
  induction sched as [|l r IH]; intros st st' HI Hd Hq He; cbn in He.
  - inversion He; subst. right. unfold mticks; cbn. lia.
  - cbn in Hq. apply andb_prop in Hq. destruct Hq as [Hl Hr].
    destruct (mstep P st l) as [st1|] eqn:Es; [|discriminate].
    pose proof (mstep_inv _ _ _ _ HI Es) as HI1.
    destruct (quiet_step_rem _ _ _ _ HI Hd Hl Es) as [Hd1 _].
    destruct (quiet_step_trem _ _ _ _ HI Hd Hl Es) as [D|T].
    + left. exact (delivered_stays_exec P r _ _ HI1 Hr He D).
    + destruct (IH _ _ HI1 Hd1 Hr He) as [D|T2]; [left; exact D|right].
      rewrite mticks_cons. destruct l; cbn in *; lia.
Qed.

Lemma trem_bound P st : MInv P st -> trem P st <= P.
Proof.
  intros [H1 H2 H3 H4]. unfold trem. destruct (mp st); try lia.
  destruct (upto =? mhi st); lia.
Qed.

Lemma poll_period P sched0 st sched st' :
  mexec P minit sched0 = Some st -> mdone st = None ->
  forallb is_quiet sched = true -> mexec P st sched = Some st' ->
  mdeliv st' <> mhi st' -> mticks sched <= P.
Proof.
  intros R Hd Hq He Hn.
  pose proof (mexec_inv P _ _ _ (minit_inv P) R) as HI.
  destruct (quiet_exec_trem P _ _ _ HI Hd Hq He) as [D|T]; [contradiction|].
  pose proof (trem_bound P st HI). lia.
Qed.

(* nothing is reported twice, nothing is skipped *)
Lemma no_duplicates P sched st :
  mexec P minit sched = Some st -> chained (mout st) (mdeliv st) /\ mdeliv st <= mhi st.
Proof.
  intro R. destruct (mexec_inv P _ _ _ (minit_inv P) R) as [H1 H2 H3 H4]. split; [exact H3|lia].
Qed.

(* ---------------------------------------------------------------- DONE *)
(* distance to the end once done is set *)
Definition dend (st : mstate) : nat :=
  match mp st with
  | MCont => 6 | MWait => 4 | MScan => 3 | MWrite _ _ => 2 | MTop => 1 | MEnd _ => 0
  end.

Lemma done_step P st l st' ok :
  MInv P st -> mdone st = Some ok -> mp st <> MCont -> mstep P st l = Some st' ->
  mdone st' = Some ok /\ mp st' <> MCont /\
  dend st' + (match l with MI => 1 | _ => 0 end) <= dend st /\
  (match l with MI => True | _ => mp st' = mp st end).
Proof.
  intros [H1 H2 H3 H4] Hd Hc Hs. destruct st as [p c d hi seen del out dn wk]. cbn in *. subst dn.
  destruct l; cbn in Hs.
  - inversion Hs; subst; unfold dend; cbn. repeat split; auto; try lia.
  - destruct (ienabled _) eqn:En; [discriminate|]. inversion Hs; subst; unfold dend; cbn. repeat split; auto; try lia.
  - destruct (ienabled _) eqn:En; [|discriminate]. inversion Hs; subst; clear Hs.
    unfold istep, dend; cbn. destruct p; cbn in *; try congruence; repeat split; auto; try lia;
      try discriminate.
  - destruct p; inversion Hs; subst; unfold dend; cbn; repeat split; auto; try lia; try congruence.
  - destruct p; inversion Hs; subst; unfold dend; cbn; repeat split; auto; try lia; try congruence.
Qed.

Lemma done_exec P sched : forall st st' ok,
  MInv P st -> mdone st = Some ok -> mp st <> MCont -> mexec P st sched = Some st' ->
  mdone st' = Some ok /\ dend st' + isteps sched <= dend st.
Proof.
  induction sched as [|l r IH]; intros st st' ok HI Hd Hc He; cbn in He.
  - inversion He; subst. split; [exact Hd|unfold isteps; cbn; lia].
  - destruct (mstep P st l) as [st1|] eqn:Es; [|discriminate].
    destruct (done_step _ _ _ _ _ HI Hd Hc Es) as (Hd1 & Hc1 & D & _).
    destruct (IH _ _ _ (mstep_inv _ _ _ _ HI Es) Hd1 Hc1 He) as [Hd2 D2].
    split; [exact Hd2|]. rewrite isteps_cons. destruct l; cbn in *; lia.
Qed.

(* the client's line has been read while the update loop exists: whatever
   else happens (changes, wake-ups), IDLE has ended after at most 4 idler
   steps -- and an idler step is always possible until then (no tick needed:
   the wait on `done` returns at once) -- with OK iff the line was DONE *)
Lemma done_ends P sched0 st ok st1 sched st' :
  mexec P minit sched0 = Some st -> mp st <> MCont -> mdone st = None ->
  (forall b, mp st <> MEnd b) ->
  mstep P st (MDone ok) = Some st1 -> mexec P st1 sched = Some st' ->
  (4 <= isteps sched -> mp st' = MEnd ok) /\
  (mp st' <> MEnd ok -> ienabled st' = true).
Proof.
  intros R Hc Hd Hne Hs He.
  pose proof (mexec_inv P _ _ _ (minit_inv P) R) as HI.
  pose proof (mstep_inv _ _ _ _ HI Hs) as HI1.
  assert (Hd1 : mdone st1 = Some ok /\ mp st1 = mp st).
  { destruct st as [p c d hi seen del out dn wk]. cbn in *. subst dn.
    destruct p; try congruence; inversion Hs; subst; cbn; auto; try (exfalso; exact (Hne _ eq_refl)). }
  destruct Hd1 as [Hd1 Hp1].
  assert (Hc1 : mp st1 <> MCont) by congruence.
  destruct (done_exec P _ _ _ _ HI1 Hd1 Hc1 He) as [Hd' D].
  pose proof (mexec_inv P _ _ _ HI1 He) as [_ _ _ H4'].
  assert (B : dend st1 <= 4) by (unfold dend; rewrite Hp1; destruct (mp st); try congruence; lia).
  split.
  - intro H4. assert (Z : dend st' = 0) by lia. unfold dend in Z.
    destruct (mp st') eqn:E; try lia. destruct H4' as [E2 _]. congruence.
  - intro Hn. unfold ienabled. rewrite Hd'. destruct (mp st') eqn:E; try reflexivity.
    destruct H4' as [E2 _]. congruence.
Qed.

(* hypotheses are satisfiable *)
Example poll_run :
  exists st, mexec 4 minit [MI; MI; MChange; MTick; MTick; MChange; MTick; MTick; MI; MI; MI; MI;
                            MTick; MDone true; MI; MI; MI; MI] = Some st /\
             mp st = MEnd true /\ mout st = [(0, 2)] /\ mhi st = 2.
Proof. eexists. vm_compute. repeat split. Qed.

(* ------------------------------------------------------------ or-event *)
(* an or-event is set by set() of any constituent made after its creation;
   it is not set by creation when a constituent is already set; clear() of the
   or-event leaves the constituents alone *)
Lemma set_nth_nth {A} (l : list A) i x d : i < length l -> nth i (set_nth l i x) d = x.
Proof. revert i; induction l as [|y r IH]; intros [|i] H; cbn in *; try lia; auto. apply IH; lia. Qed.

Lemma set_nth_other {A} (l : list A) i j x d : i <> j -> nth j (set_nth l i x) d = nth j l d.
Proof.
  revert i j; induction l as [|y r IH]; intros [|i] [|j] H; cbn; try reflexivity; try lia.
  apply IH; lia.
Qed.

Lemma or_event_fresh s es : let '(s1, o) := ev_or s es in
  o = length (eflag s) /\ ev_is_set s1 o = false /\
  (forall e, e < length (eflag s) -> ev_is_set s1 e = ev_is_set s e).
Proof.
  unfold ev_or, ev_new, ev_is_set. cbn. repeat split.
  - rewrite app_nth2 by lia. rewrite Nat.sub_diag. reflexivity.
  - intros e He. rewrite app_nth1 by lia. reflexivity.
Qed.

Lemma ev_clear_only s e e' : e <> e' -> ev_is_set (ev_clear s e) e' = ev_is_set s e'.
Proof. intro H. unfold ev_clear, ev_is_set. cbn. apply set_nth_other. exact H. Qed.
Lemma length_set_nth {A} (l : list A) i x : length (set_nth l i x) = length l.
Proof. revert i; induction l as [|y r IH]; intros [|i]; cbn; auto. Qed.

Lemma ev_set_fuel_pres f : forall s e,
  elisten (ev_set_fuel f s e) = elisten s /\
  length (eflag (ev_set_fuel f s e)) = length (eflag s).
Proof.
  induction f as [|f IH]; intros s e; cbn [ev_set_fuel]; [split; reflexivity|].
  assert (F : forall ls s0,
    elisten (fold_left (fun s1 l => ev_set_fuel f s1 l) ls s0) = elisten s0 /\
    length (eflag (fold_left (fun s1 l => ev_set_fuel f s1 l) ls s0)) = length (eflag s0)).
  { induction ls as [|l r IHr]; intro s0; cbn [fold_left]; [split; reflexivity|].
    destruct (IHr (ev_set_fuel f s0 l)) as [A B]. destruct (IH s0 l) as [C D].
    split; congruence. }
  destruct (F (nth e (elisten s) []) (mkEvs (set_nth (eflag s) e true) (elisten s))) as [A B].
  cbn [elisten eflag] in A, B. rewrite length_set_nth in B. split; assumption.
Qed.

Lemma fold_set_pres f ls : forall s0,
    elisten (fold_left (fun s1 l => ev_set_fuel f s1 l) ls s0) = elisten s0 /\
    length (eflag (fold_left (fun s1 l => ev_set_fuel f s1 l) ls s0)) = length (eflag s0).
Proof.
  induction ls as [|l r IHr]; intro s0; cbn [fold_left]; [split; reflexivity|].
  destruct (IHr (ev_set_fuel f s0 l)) as [A B]. destruct (ev_set_fuel_pres f s0 l) as [C D].
  split; congruence.
Qed.

(* set() of an event whose listeners end with the event o (o itself without
   listeners) sets o *)
Lemma set_reaches s e o l0 :
  nth e (elisten s) [] = l0 ++ [o] -> nth o (elisten s) [] = [] -> o < length (eflag s) ->
  ev_is_set (ev_set s e) o = true.
Proof.
  intros He Ho Hlt. unfold ev_set. cbn [ev_set_fuel]. rewrite He, fold_left_app. cbn [fold_left].
  set (s' := mkEvs (set_nth (eflag s) e true) (elisten s)).
  set (sX := fold_left (fun s1 l => ev_set_fuel (length (eflag s)) s1 l) l0 s').
  destruct (fold_set_pres (length (eflag s)) l0 s') as [A B]. fold sX in A, B.
  unfold s' in A, B. cbn [elisten eflag] in A, B. rewrite length_set_nth in B.
  destruct (length (eflag s)) as [|n] eqn:En; [lia|]. cbn [ev_set_fuel].
  rewrite A, Ho. cbn [fold_left]. unfold ev_is_set. cbn [eflag].
  apply set_nth_nth. lia.
Qed.

Lemma or_event_set s a b :
  length (elisten s) = length (eflag s) -> a < length (eflag s) -> b < length (eflag s) ->
  let '(s1, o) := ev_or s [a; b] in
  ev_is_set (ev_set s1 a) o = true /\ ev_is_set (ev_set s1 b) o = true.
Proof.
  intros Hwf Ha Hb. unfold ev_or, ev_new. cbn [fold_left elisten eflag].
  set (o := length (eflag s)).
  set (L0 := elisten s ++ [[]]).
  set (X := set_nth L0 a (nth a L0 [] ++ [o])).
  set (ls1 := set_nth X b (nth b X [] ++ [o])).
  assert (LX : length X = S o) by (unfold X, L0; rewrite length_set_nth, app_length; cbn; lia).
  assert (Co : nth o ls1 [] = []).
  { unfold ls1. rewrite set_nth_other by lia. unfold X. rewrite set_nth_other by lia.
    unfold L0. rewrite app_nth2 by lia. replace (o - length (elisten s)) with 0 by lia. reflexivity. }
  assert (Cb : nth b ls1 [] = nth b X [] ++ [o]) by (unfold ls1; apply set_nth_nth; lia).
  assert (Ca : exists l0, nth a ls1 [] = l0 ++ [o]).
  { destruct (Nat.eq_dec a b) as [->|Hne]; [eexists; exact Cb|].
    unfold ls1. rewrite set_nth_other by lia. unfold X. eexists. apply set_nth_nth.
    unfold L0. rewrite app_length. cbn. lia. }
  destruct Ca as [l0 Ca].
  split.
  - apply (set_reaches _ a o l0); cbn [elisten eflag]; try assumption. rewrite app_length. cbn. lia.
  - apply (set_reaches _ b o (nth b X [])); cbn [elisten eflag]; try assumption.
    rewrite app_length. cbn. lia.
Qed.

Lemma or_event_spec : forall s a b,
  length (elisten s) = length (eflag s) -> a < length (eflag s) -> b < length (eflag s) ->
  let '(s1, o) := ev_or s [a; b] in
  ev_is_set s1 o = false /\
  (forall e, e < length (eflag s) -> ev_is_set s1 e = ev_is_set s e) /\
  ev_is_set (ev_set s1 a) o = true /\ ev_is_set (ev_set s1 b) o = true /\
  (forall e, e <> o -> ev_is_set (ev_clear s1 o) e = ev_is_set s1 e).
Proof.
  intros s a b Hwf Ha Hb.
  pose proof (or_event_fresh s [a; b]) as F. pose proof (or_event_set s a b Hwf Ha Hb) as S.
  destruct (ev_or s [a; b]) as [s1 o]. destruct F as (_ & F1 & F2). destruct S as [S1 S2].
  repeat split; auto. intros e He. apply ev_clear_only. auto.
Qed.
