(* Sync/RWLockCheck.v -- case checker for the C20 read-write-lock correspondence.
   A case is a run of the real _AsyncioReadWriteLock under the harness's
   one-handle-at-a-time scheduler: the task programs and, per step, the
   label, the set of runnable tasks *before* the step, the enter/exit events
   of the step and a glass-box view of the lock objects *after* it.  The
   checker replays the labels on the model and compares everything. *)
From PV Require Import Base.Prelude Sync.RWLock.

Record view := mkView {
  v_counter : nat;
  v_rl_locked : bool; v_rl_waiters : list (nat * wst);
  v_wl_locked : bool; v_wl_waiters : list (nat * wst);
  v_status : list nat      (* per task: 0 live, 1 finished, 2 cancelled *)
}.

Record obs := mkObs { o_label : label; o_enabled : list nat; o_events : list event; o_view : view }.

Definition event_eqb (a b : event) : bool :=
  match a, b with
  | Enter k t, Enter k' t' | Exit k t, Exit k' t' => kind_eqb k k' && Nat.eqb t t'
  | _, _ => false
  end.

Definition waiter_eqb (a b : nat * wst) : bool :=
  Nat.eqb (fst a) (fst b) && wst_eqb (snd a) (snd b).

Definition status_of (tk : task) : nat :=
  match tpc tk with Fin => 1 | Dead => 2 | _ => 0 end.

Definition enabled_list (st : state) : list nat :=
  filter (enabled st) (seq 0 (length (tasks st))).

Definition view_ok (st : state) (v : view) : bool :=
  Nat.eqb (counter st) (v_counter v)
  && Bool.eqb (locked (rl st)) (v_rl_locked v)
  && eqb_list waiter_eqb (waiters (rl st)) (v_rl_waiters v)
  && Bool.eqb (locked (wl st)) (v_wl_locked v)
  && eqb_list waiter_eqb (waiters (wl st)) (v_wl_waiters v)
  && eqb_list Nat.eqb (map status_of (tasks st)) (v_status v)
  && negb (err st).

Fixpoint replay (al : algo) (st : state) (os : list obs) : bool :=
  match os with
  | [] => true
  | o :: r =>
      eqb_list Nat.eqb (enabled_list st) (o_enabled o)
      && match step al st (o_label o) with
         | None => false
         | Some (st1, ev) =>
             eqb_list event_eqb ev (o_events o) && view_ok st1 (o_view o) && replay al st1 r
         end
  end.

(* (algorithm, programs, observed run) *)
Definition chk_rw (c : algo * list (list acq) * list obs) : bool :=
  let '(al, progs, os) := c in replay al (init progs) os.

(* the same runs shared as a tree: every node is one executed transition, with
   the runnable set observed after it; children are the transitions explored
   from the state it leads to *)
Inductive otree := ONode (o : obs) (after : list nat) (kids : list otree).

Fixpoint replay_tree (al : algo) (st : state) (tr : otree) : bool :=
  match tr with
  | ONode o after kids =>
      eqb_list Nat.eqb (enabled_list st) (o_enabled o)
      && match step al st (o_label o) with
         | None => false
         | Some (st1, ev) =>
             eqb_list event_eqb ev (o_events o) && view_ok st1 (o_view o)
             && eqb_list Nat.eqb (enabled_list st1) after
             && (fix all (ks : list otree) : bool :=
                   match ks with [] => true | k :: r => replay_tree al st1 k && all r end) kids
         end
  end.

Definition chk_rw_tree (c : algo * list (list acq) * list otree) : bool :=
  let '(al, progs, trs) := c in forallb (replay_tree al (init progs)) trs.
