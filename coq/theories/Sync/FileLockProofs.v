(* Sync/FileLockProofs.v -- the lock-file invariant over every schedule that
   respects the expiry assumption, any number of tasks. *)
From PV Require Import Base.Prelude Sync.RWLock Sync.RWLockProofs Sync.FileLock.
Require Import Lia.

Lemma fcnt_upd f ts t old new :
  nth_error ts t = Some old ->
  fcnt f (upd ts t new) + b2n (f (fpc_ old)) = fcnt f ts + b2n (f (fpc_ new)).
Proof.
  unfold fcnt. revert t; induction ts as [|y r IH]; intros [|t] H; cbn in *; try discriminate.
  - inversion H; subst. destruct (f (fpc_ old)), (f (fpc_ new)); cbn; lia.
  - specialize (IH t H). destruct (f (fpc_ y)); cbn; lia.
Qed.

(* at most one writer inside, and then the lock file is there and fresh *)
Definition FJ (st : fst_) : Prop :=
  fwriters_in st = 0 \/ (fwriters_in st = 1 /\ file st = Fresh).
(* no writer inside -> no lock file (when the run started without one) *)
Definition FJ2 (st : fst_) : Prop := fwriters_in st = 0 -> file st = Absent.

Definition FInv (clean : bool) (st : fst_) : Prop := FJ st /\ (clean = true -> FJ2 st).

Ltac fsolve Hn Ep :=
  match goal with
  | |- FInv _ (fset ?st ?t ?new ?f) =>
      let H := fresh "Hc" in
      pose proof (fcnt_upd is_FInW _ _ _ new Hn) as H;
      rewrite Ep in H; cbn [fpc_ is_FInW b2n] in H;
      unfold FInv, FJ, FJ2, fwriters_in in *; cbn [fset ftasks file] in *
  end.

Lemma fenter_inv clean st t tk k a rest f :
  FInv clean st -> nth_error (ftasks st) t = Some tk -> is_FInW (fpc_ tk) = false ->
  fwriters_in st = 0 ->
  (match k with KW => f = Fresh | KR => f = Absent \/ f = file st end) ->
  FInv clean (fst (fenter st t k a rest f)).
Proof.
  intros (HJ & HJ2) Hn Hp Hz Hf. unfold fenter.
  destruct (ay a) as [|y]; cbn [fst].
  - pose proof (fcnt_upd is_FInW _ _ _ (mkFTask rest FStart false) Hn) as Hc.
    rewrite Hp in Hc. cbn [fpc_ is_FInW b2n] in Hc.
    unfold FInv, FJ, FJ2, fwriters_in in *. cbn [fset ftasks file].
    split; [left; lia|]. intros Hcl _. destruct k; cbn [after_exit]; [|reflexivity].
    destruct Hf as [->| ->]; [reflexivity|]. apply HJ2; [exact Hcl|exact Hz].
  - destruct k.
    + pose proof (fcnt_upd is_FInW _ _ _ (mkFTask (a :: rest) (FInR y) false) Hn) as Hc.
      rewrite Hp in Hc. cbn [fpc_ is_FInW b2n] in Hc.
      unfold FInv, FJ, FJ2, fwriters_in in *. cbn [fset ftasks file].
      split; [left; lia|]. intros Hcl _. destruct Hf as [->| ->]; [reflexivity|].
      apply HJ2; [exact Hcl|exact Hz].
    + pose proof (fcnt_upd is_FInW _ _ _ (mkFTask (a :: rest) (FInW y) false) Hn) as Hc.
      rewrite Hp in Hc. cbn [fpc_ is_FInW b2n] in Hc.
      unfold FInv, FJ, FJ2, fwriters_in in *. cbn [fset ftasks file].
      split; [right; split; [lia|exact Hf]|]. intros _ Hx. lia.
Qed.

Lemma fsame_inv clean st t tk new :
  FInv clean st -> nth_error (ftasks st) t = Some tk ->
  is_FInW (fpc_ new) = is_FInW (fpc_ tk) ->
  FInv clean (fset st t new (file st)).
Proof.
  intros (HJ & HJ2) Hn Hp.
  pose proof (fcnt_upd is_FInW _ _ _ new Hn) as Hc. rewrite Hp in Hc.
  unfold FInv, FJ, FJ2, fwriters_in in *. cbn [fset ftasks file].
  assert (E : fcnt is_FInW (upd (ftasks st) t new) = fcnt is_FInW (ftasks st)) by lia.
  rewrite E. split; assumption.
Qed.

Lemma fretry_inv clean n st t tk k a rest i :
  FInv clean st -> nth_error (ftasks st) t = Some tk -> is_FInW (fpc_ tk) = false ->
  FInv clean (fst (fretry n st t k a rest i (file st))).
Proof.
  intros HI Hn Hp. unfold fretry. destruct (Nat.ltb i n); cbn [fst];
    (eapply fsame_inv; [exact HI|exact Hn|rewrite Hp; reflexivity]).
Qed.

Lemma fexit_w_inv clean st t tk new :
  FInv clean st -> nth_error (ftasks st) t = Some tk ->
  is_FInW (fpc_ tk) = true -> is_FInW (fpc_ new) = false ->
  FInv clean (fset st t new Absent).
Proof.
  intros (HJ & HJ2) Hn Hp Hq.
  pose proof (fcnt_upd is_FInW _ _ _ new Hn) as Hc. rewrite Hp, Hq in Hc. cbn [b2n] in Hc.
  unfold FInv, FJ, FJ2, fwriters_in in *. cbn [fset ftasks file].
  split; [left; lia|]. intros _ _. reflexivity.
Qed.

Lemma absent_no_writer clean st : FInv clean st -> file st <> Fresh -> fwriters_in st = 0.
Proof. unfold FInv, FJ. intros (HJ & _) Hf. destruct HJ as [Hz|(_ & Hx)]; [exact Hz|congruence]. Qed.

Lemma some_pair_fst {A B} (x : A * B) a b : Some x = Some (a, b) -> a = fst x.
Proof. intro H. inversion H. reflexivity. Qed.

Lemma frun_inv clean n st t st' ev :
  FInv clean st -> frun n st t = Some (st', ev) -> FInv clean st'.
Proof.
  intros HI H. unfold frun in H.
  destruct (nth_error (ftasks st) t) as [tk|] eqn:Hn; [|discriminate].
  destruct (fpc_ tk) eqn:Ep.
  - (* FStart *)
    destruct (fmc tk).
    { injection H as <- _. eapply fsame_inv; [exact HI|exact Hn|rewrite Ep; reflexivity]. }
    destruct (fprog tk) as [|a rest].
    { injection H as <- _. eapply fsame_inv; [exact HI|exact Hn|rewrite Ep; reflexivity]. }
    destruct (check_lock (file st)) as [ok f1] eqn:Ec. destruct ok.
    + apply some_pair_fst in H; subst st'.
      assert (Hz : fwriters_in st = 0).
      { apply (absent_no_writer clean); [exact HI|]. intro Hf. rewrite Hf in Ec. discriminate. }
      apply (fenter_inv clean st t tk); [exact HI|exact Hn|rewrite Ep; reflexivity|exact Hz|].
      destruct (ak a); [|reflexivity]. left.
      destruct (file st); cbn in Ec; inversion Ec; reflexivity.
    + apply some_pair_fst in H; subst st'.
      assert (Ef : f1 = file st) by (destruct (file st); cbn in Ec; inversion Ec; reflexivity).
      rewrite Ef. eapply fretry_inv; [exact HI|exact Hn|rewrite Ep; reflexivity].
  - (* FSleep *)
    destruct (fprog tk) as [|a rest]; [discriminate|].
    destruct (fmc tk).
    { apply some_pair_fst in H; subst st'. eapply fsame_inv; [exact HI|exact Hn|rewrite Ep; reflexivity]. }
    assert (Hz : file st = Absent -> fwriters_in st = 0).
    { intro Hf. apply (absent_no_writer clean); [exact HI|congruence]. }
    destruct k, (file st) eqn:Ef; apply some_pair_fst in H; subst st';
      try (rewrite <- Ef; eapply fretry_inv; [exact HI|exact Hn|rewrite Ep; reflexivity]).
    + apply (fenter_inv clean st t tk); [exact HI|exact Hn|rewrite Ep; reflexivity|apply Hz; reflexivity|].
      left; reflexivity.
    + apply (fenter_inv clean st t tk); [exact HI|exact Hn|rewrite Ep; reflexivity|apply Hz; reflexivity|].
      reflexivity.
  - (* FInR *)
    destruct (fprog tk) as [|a rest]; [discriminate|].
    destruct (fmc tk); [|destruct y]; injection H as <- _;
      (eapply fsame_inv; [exact HI|exact Hn|rewrite Ep; reflexivity]).
  - (* FInW *)
    destruct (fprog tk) as [|a rest]; [discriminate|].
    destruct (fmc tk); [|destruct y]; injection H as <- _;
      try (eapply fexit_w_inv; [exact HI|exact Hn|rewrite Ep; reflexivity|reflexivity]).
    eapply fsame_inv; [exact HI|exact Hn|rewrite Ep; reflexivity].
  - discriminate.
  - discriminate.
Qed.

Lemma fcancel_inv clean st t : FInv clean st -> FInv clean (fcancel st t).
Proof.
  intro HI. unfold fcancel. destruct (nth_error (ftasks st) t) as [tk|] eqn:Hn; [|exact HI].
  destruct (fpc_ tk) eqn:Ep; try exact HI;
    (eapply fsame_inv; [exact HI|exact Hn|rewrite Ep; reflexivity]).
Qed.

Lemma fstep_inv clean n st l st' ev :
  FInv clean st -> fstep true n st l = Some (st', ev) -> FInv clean st'.
Proof.
  intros HI H. destruct l as [t|t|]; cbn [fstep] in H.
  - eapply frun_inv; eauto.
  - injection H as <- _. apply fcancel_inv; exact HI.
  - cbn [andb] in H. destruct (Nat.eqb_spec (fwriters_in st) 0) as [Hz|Hz]; cbn [negb] in H; [|discriminate].
    injection H as <- _. destruct HI as (HJ & HJ2). unfold FInv, FJ, FJ2, fwriters_in in *.
    cbn [ftasks file]. split; [left; exact Hz|]. intros Hcl _. rewrite (HJ2 Hcl Hz). reflexivity.
Qed.

Lemma fexec_inv clean n sched : forall st st' ev,
  FInv clean st -> fexec true n st sched = Some (st', ev) -> FInv clean st'.
Proof.
  induction sched as [|l r IH]; intros st st' ev HI H; cbn [fexec] in H.
  - injection H as <- _. exact HI.
  - destruct (fstep true n st l) as [[st1 ev1]|] eqn:Es; [|discriminate].
    destruct (fexec true n st1 r) as [[st2 ev2]|] eqn:Ee; [|discriminate].
    injection H as <- _. eapply IH; [eapply fstep_inv; eauto|exact Ee].
Qed.

Lemma finit_inv progs f : FInv (fstate_eqb f Absent) (finit progs f).
Proof.
  assert (Hz : fwriters_in (finit progs f) = 0).
  { unfold fwriters_in, finit, fcnt; cbn [ftasks]. induction progs as [|p r IH]; cbn; [reflexivity|exact IH]. }
  split; [left; exact Hz|]. intros Hc _. cbn [finit file]. destruct f; cbn in Hc; congruence.
Qed.

(* at most one writer per lock file, whatever lock file the run starts with *)
Lemma filelock_excl_lemma n progs f0 sched st ev :
  fexec true n (finit progs f0) sched = Some (st, ev) -> fwriters_in st <= 1.
Proof.
  intro H. pose proof (fexec_inv _ n sched _ _ _ (finit_inv progs f0) H) as (HJ & _). destruct HJ as [Hz|(Ho & _)]; lia.
Qed.

(* the lock file exists exactly while a writer is inside: every way out of the
   critical section (normal, exception, cancellation) has removed it *)
Lemma filelock_released_lemma n progs sched st ev :
  fexec true n (finit progs Absent) sched = Some (st, ev) ->
  (fwriters_in st = 0 -> file st = Absent) /\ (fwriters_in st = 1 -> file st = Fresh).
Proof.
  intro H. pose proof (fexec_inv _ n sched _ _ _ (finit_inv progs Absent) H) as (HJ & HJ2).
  split; [apply HJ2; reflexivity|]. intro Ho. destruct HJ as [Hz|(_ & Hf)]; [lia|exact Hf].
Qed.

(* without the expiry assumption exclusion is lost: the holder outlives the
   expiration, a newcomer removes the "stale" file and locks *)
Lemma filelock_overstay :
  exists progs sched st ev,
    fexec false 1 (finit progs Absent) sched = Some (st, ev) /\ fwriters_in st = 2.
Proof.
  exists [[mkAcq KW 2 false]; [mkAcq KW 1 false]], [FRun 0; FExpire; FRun 1].
  eexists. eexists. split; [vm_compute; reflexivity|reflexivity].
Qed.

(* the hypotheses are satisfiable by a non-trivial run: contention, a retry, a hand-over *)
Example filelock_run :
  exists st ev, fexec true 2 (finit [[mkAcq KW 1 false]; [mkAcq KW 1 true]] Absent)
                      [FRun 0; FRun 1; FRun 0; FRun 1; FRun 1] = Some (st, ev)
                /\ ev = [FEnter KW 0; FExit KW 0; FEnter KW 1; FExit KW 1] /\ file st = Absent.
Proof. eexists. eexists. split; [vm_compute; reflexivity|split; reflexivity]. Qed.

(* _FileWriteWith: whatever happens in the body and in the exit flush, the
   lock is released last and the lock file is gone afterwards *)
Lemma withwrite_released_lemma r :
  last (ww_exit r) WFlushWrite = WRelease /\ ww_file_after r = Absent.
Proof.
  unfold ww_file_after, ww_exit, ww_flush.
  destruct r as [b t e x f]; destruct b, t, e, x; cbn; split; reflexivity.
Qed.
