(* Sync/RWLockProofs.v -- proofs about the Fixed read-write lock of Sync/RWLock.v:
   an inductive invariant over every interleaving and every cancellation point,
   for any number of tasks and any programs. *)
From PV Require Import Base.Prelude Sync.RWLock.
Require Import Lia.

Definition b2n (b : bool) : nat := if b then 1 else 0.

(* ------------------------------------------------------------ list facts *)
Lemma nth_error_upd {A} (l : list A) i j x :
  nth_error (upd l i x) j =
  if Nat.eqb j i then match nth_error l i with Some _ => Some x | None => None end
  else nth_error l j.
Proof.
  revert i j; induction l as [|y r IH]; intros i j.
  - destruct i, j; cbn; try reflexivity; destruct (Nat.eqb j i); reflexivity.
  - destruct i as [|i], j as [|j]; cbn; try reflexivity. apply IH.
Qed.

Lemma nth_error_upd_same {A} (l : list A) i x old :
  nth_error l i = Some old -> nth_error (upd l i x) i = Some x.
Proof. intro H. rewrite nth_error_upd, Nat.eqb_refl, H. reflexivity. Qed.

Lemma nth_error_upd_other {A} (l : list A) i j x :
  j <> i -> nth_error (upd l i x) j = nth_error l j.
Proof. intro H. rewrite nth_error_upd. destruct (Nat.eqb_spec j i); congruence. Qed.

Lemma upd_upd {A} (l : list A) i x y : upd (upd l i x) i y = upd l i y.
Proof. revert i; induction l as [|z r IH]; intros [|i]; cbn; try reflexivity. now rewrite IH. Qed.

Lemma length_upd {A} (l : list A) i x : length (upd l i x) = length l.
Proof. revert i; induction l as [|z r IH]; intros [|i]; cbn; try reflexivity. now rewrite IH. Qed.

Lemma cnt_upd f ts t old new :
  nth_error ts t = Some old ->
  cnt f (upd ts t new) + b2n (f (tpc old)) = cnt f ts + b2n (f (tpc new)).
Proof.
  unfold cnt. revert t; induction ts as [|y r IH]; intros [|t] H; cbn in *; try discriminate.
  - inversion H; subst. destruct (f (tpc old)), (f (tpc new)); cbn; lia.
  - specialize (IH t H). destruct (f (tpc y)); cbn; lia.
Qed.

Lemma cnt_zero f ts :
  (forall u tk, nth_error ts u = Some tk -> f (tpc tk) = false) -> cnt f ts = 0.
Proof.
  unfold cnt. induction ts as [|y r IH]; intro H; cbn; [reflexivity|].
  rewrite (H 0 y eq_refl). apply IH. intros u tk Hu. exact (H (S u) tk Hu).
Qed.

Lemma cnt_pos f ts u tk :
  nth_error ts u = Some tk -> f (tpc tk) = true -> 1 <= cnt f ts.
Proof.
  unfold cnt. revert u; induction ts as [|y r IH]; intros [|u] H Hf; cbn in *; try discriminate.
  - inversion H; subst. rewrite Hf. cbn. lia.
  - specialize (IH u H Hf). destruct (f (tpc y)); cbn; lia.
Qed.

Lemma cnt_pos_inv f ts : 1 <= cnt f ts -> exists u tk, nth_error ts u = Some tk /\ f (tpc tk) = true.
Proof.
  unfold cnt. induction ts as [|y r IH]; cbn; intro H; [lia|].
  destruct (f (tpc y)) eqn:E.
  - exists 0, y. split; [reflexivity|exact E].
  - destruct (IH H) as (u & tk & Hu & Hf). exists (S u), tk. split; assumption.
Qed.

(* ------------------------------------------------------------ the mutex *)
Definition no_woken (ws : list (nat * wst)) : Prop := forall e, In e ws -> snd e <> Woken.

(* Woken only at the head, and then the lock is free; a free lock with waiters
   has a first waiter whose future is done *)
Definition minv (m : mutex) : Prop :=
  match waiters m with
  | [] => True
  | (t, s) :: r => no_woken r /\ (s = Woken -> locked m = false) /\ (locked m = false -> s <> Pending)
  end.

Definition tids (m : mutex) : list nat := map fst (waiters m).

Lemma minv_no_woken b ws : no_woken ws -> (b = false -> match ws with (_, Pending) :: _ => False | _ => True end) ->
  minv (mkMutex b ws).
Proof.
  intros H Hp. unfold minv; cbn. destruct ws as [|[t s] r]; [exact I|].
  split; [|split].
  - intros e He. apply H. right; exact He.
  - intro E. exfalso. apply (H (t, s)); [left; reflexivity|exact E].
  - intros Eb E. subst s. exact (Hp Eb).
Qed.

Lemma all_cancelled_no_woken ws : all_cancelled ws = true -> no_woken ws.
Proof.
  unfold all_cancelled, no_woken. intros H e He.
  rewrite forallb_forall in H. specialize (H e He). destruct (snd e); discriminate || congruence.
Qed.

Lemma acquire_fast m t m' : m_acquire m t = (true, m') ->
  locked m = false /\ all_cancelled (waiters m) = true /\ m' = mkMutex true (waiters m).
Proof.
  unfold m_acquire. destruct (locked m), (all_cancelled (waiters m)); cbn; intro H; inversion H; auto.
Qed.

Lemma acquire_slow m t m' : m_acquire m t = (false, m') ->
  m' = mkMutex (locked m) (waiters m ++ [(t, Pending)]) /\
  (locked m = true \/ all_cancelled (waiters m) = false).
Proof.
  unfold m_acquire. destruct (locked m), (all_cancelled (waiters m)); cbn; intro H; inversion H; auto.
Qed.

Lemma minv_acquire_fast m t m' : m_acquire m t = (true, m') -> minv m'.
Proof.
  intro H. apply acquire_fast in H as (_ & Hc & ->).
  apply minv_no_woken; [apply all_cancelled_no_woken; exact Hc|discriminate].
Qed.

Lemma minv_acquire_slow m t m' : minv m -> m_acquire m t = (false, m') -> minv m'.
Proof.
  intros Hm H. apply acquire_slow in H as (-> & Hs). unfold minv in *; cbn.
  destruct (waiters m) as [|[u s] r] eqn:E; cbn.
  - split; [intros e []|]. split; [discriminate|]. intros Hl _.
    destruct Hs as [Hs|Hs]; [congruence|discriminate].
  - destruct Hm as (H1 & H2 & H3). split; [|split; assumption].
    intros e He. apply in_app_or in He as [He|[<-|[]]]; [apply H1; exact He|cbn; discriminate].
Qed.

Lemma wake_first_fst ws : map fst (wake_first ws) = map fst ws.
Proof. destruct ws as [|[t []] r]; reflexivity. Qed.

Lemma wake_first_tl ws : tl (wake_first ws) = tl ws.
Proof. destruct ws as [|[t []] r]; reflexivity. Qed.

Lemma minv_wake ws : no_woken (tl ws) -> minv (mkMutex false (wake_first ws)).
Proof.
  intros H. unfold minv; cbn. destruct ws as [|[t s] r]; cbn; [exact I|].
  cbn in H. destruct s; cbn; (split; [exact H|split; [reflexivity || discriminate|intros _; discriminate]]).
Qed.

Lemma minv_tl m : minv m -> no_woken (tl (waiters m)).
Proof. unfold minv, no_woken. destruct (waiters m) as [|[t s] r]; cbn; [intros _ e []|intros (H & _); exact H]. Qed.

Lemma minv_release m : minv m -> minv (m_release m).
Proof. intro H. unfold m_release. apply minv_wake. apply minv_tl. exact H. Qed.

Lemma remove_subset t ws e : In e (remove_waiter t ws) -> In e ws.
Proof. unfold remove_waiter. intro H. apply filter_In in H. tauto. Qed.

Lemma wst_of_In ws t s : wst_of ws t = Some s -> In (t, s) ws.
Proof.
  induction ws as [|[u s0] r IH]; cbn; [discriminate|].
  destruct (Nat.eqb_spec u t); intro H.
  - inversion H; subst. left; reflexivity.
  - right. apply IH. exact H.
Qed.

Lemma In_wst_of ws t : In t (map fst ws) -> exists s, wst_of ws t = Some s.
Proof.
  induction ws as [|[u s0] r IH]; cbn; [intros []|].
  destruct (Nat.eqb_spec u t); intro H; [eexists; reflexivity|].
  destruct H as [H|H]; [contradiction|]. apply IH. exact H.
Qed.

Lemma In_tl {A} (e : A) l : In e (tl l) -> In e l.
Proof. destruct l; cbn; [intros []|intro H; right; exact H]. Qed.

Lemma tl_remove_no_woken t ws : no_woken (tl ws) -> no_woken (tl (remove_waiter t ws)).
Proof.
  unfold no_woken. destruct ws as [|[u s] r]; [intros _ e []|].
  intros H e He. change (tl ((u, s) :: r)) with r in H. apply H.
  unfold remove_waiter in He. cbn [filter fst] in He.
  destruct (negb (Nat.eqb u t)).
  - cbn [tl] in He. apply filter_In in He. tauto.
  - apply In_tl in He. apply filter_In in He. tauto.
Qed.

(* removing a Woken waiter (necessarily the head) leaves no Woken at all *)
Lemma remove_woken_no_woken m t : minv m -> wst_of (waiters m) t = Some Woken ->
  no_woken (remove_waiter t (waiters m)).
Proof.
  unfold minv. destruct (waiters m) as [|[u s] r]; cbn; [discriminate|].
  intros (H1 & _ & _). destruct (Nat.eqb_spec u t) as [Eu|Eu]; cbn.
  - intros _ x Hx. apply H1. eapply remove_subset. exact Hx.
  - intro Hw. apply wst_of_In in Hw. exfalso. apply (H1 _ Hw). reflexivity.
Qed.

Lemma minv_of_parts b ws :
  no_woken (tl ws) ->
  (forall t s, hd_error ws = Some (t, s) -> (s = Woken -> b = false) /\ (b = false -> s <> Pending)) ->
  minv (mkMutex b ws).
Proof.
  intros H1 H2. unfold minv; cbn [waiters locked]. destruct ws as [|[t s] r]; [exact I|].
  destruct (H2 t s eq_refl) as (Ha & Hb). split; [exact H1|split; assumption].
Qed.

Lemma hd_remove t ws e : hd_error (remove_waiter t ws) = Some e ->
  hd_error ws = Some e \/ In e (tl ws).
Proof.
  destruct ws as [|[u s] r]; [discriminate|].
  unfold remove_waiter. cbn [filter fst]. destruct (negb (Nat.eqb u t)); cbn [hd_error tl].
  - intro H; left; exact H.
  - intro H. right. destruct (filter _ r) as [|x y] eqn:E; [discriminate|].
    cbn in H. inversion H; subst x.
    assert (Hin : In e (filter (fun e0 : nat * wst => negb (Nat.eqb (fst e0) t)) r)) by (rewrite E; left; reflexivity).
    apply filter_In in Hin. tauto.
Qed.

Lemma minv_hd m t s : minv m -> hd_error (waiters m) = Some (t, s) ->
  (s = Woken -> locked m = false) /\ (locked m = false -> s <> Pending).
Proof.
  unfold minv. destruct (waiters m) as [|[u s0] r]; [discriminate|].
  intros (_ & H2 & H3) E. cbn in E. inversion E; subst. split; assumption.
Qed.

Lemma minv_resume m t c : minv m ->
  (c = false -> wst_of (waiters m) t = Some Woken) -> minv (m_resume m t c).
Proof.
  intros Hm Hc. unfold m_resume. destruct c.
  - destruct (locked m) eqn:El.
    + apply minv_of_parts; [apply tl_remove_no_woken, minv_tl; exact Hm|].
      intros u s Hh. split; [|discriminate]. intro Es. subst s.
      apply hd_remove in Hh as [Hh|Hh].
      * destruct (minv_hd _ _ _ Hm Hh) as (Ha & _). rewrite (Ha eq_refl) in El. discriminate.
      * exfalso. apply (minv_tl _ Hm _ Hh). reflexivity.
    + apply minv_wake. apply tl_remove_no_woken. apply minv_tl. exact Hm.
  - apply minv_no_woken; [|discriminate]. apply remove_woken_no_woken; auto.
Qed.

Lemma minv_cancel m t : minv m -> minv (m_cancel m t).
Proof.
  intro Hm. unfold m_cancel. apply minv_of_parts.
  - pose proof (minv_tl _ Hm) as Ht. unfold no_woken in *.
    destruct (waiters m) as [|[u s] r]; [intros e []|]. cbn [map tl] in *.
    intros e He. apply in_map_iff in He as (x & <- & Hx).
    destruct (Nat.eqb (fst x) t && is_pending (snd x)); cbn; [discriminate|apply Ht; exact Hx].
  - intros u s Hh. destruct (waiters m) as [|[u0 s0] r] eqn:E; [discriminate|].
    destruct (minv_hd m u0 s0 Hm) as (Ha & Hb); [rewrite E; reflexivity|].
    cbn in Hh. destruct (Nat.eqb u0 t && is_pending s0); inversion Hh; subst.
    + split; [discriminate|intros _; discriminate].
    + split; assumption.
Qed.

Lemma tids_release m : tids (m_release m) = tids m.
Proof. unfold tids, m_release; cbn. apply wake_first_fst. Qed.

Lemma tids_cancel m t : tids (m_cancel m t) = tids m.
Proof.
  unfold tids, m_cancel; cbn. rewrite map_map. apply map_ext. intros [u s]; cbn.
  destruct (Nat.eqb u t && is_pending s); reflexivity.
Qed.

Definition drop (t : nat) (q : list nat) : list nat := filter (fun u => negb (Nat.eqb u t)) q.

Lemma map_fst_remove t ws : map fst (remove_waiter t ws) = drop t (map fst ws).
Proof.
  unfold remove_waiter, drop. induction ws as [|[u s] r IH]; cbn; [reflexivity|].
  destruct (negb (Nat.eqb u t)); cbn; rewrite IH; reflexivity.
Qed.

Lemma tids_resume m t c : tids (m_resume m t c) = drop t (tids m).
Proof.
  unfold tids, m_resume. destruct c; [destruct (locked m)|]; cbn;
    rewrite ?wake_first_fst; apply map_fst_remove.
Qed.

Lemma locked_release m : locked (m_release m) = false.
Proof. reflexivity. Qed.
Lemma locked_cancel m t : locked (m_cancel m t) = locked m.
Proof. reflexivity. Qed.
Lemma locked_resume m t c : locked (m_resume m t c) = if c then locked m else true.
Proof. unfold m_resume. destruct c; [destruct (locked m)|]; reflexivity. Qed.

(* a Woken waiter proves the lock free *)
Lemma woken_unlocked m t : minv m -> wst_of (waiters m) t = Some Woken -> locked m = false.
Proof.
  unfold minv. destruct (waiters m) as [|[u s] r]; cbn; [discriminate|].
  intros (H1 & H2 & _). destruct (Nat.eqb_spec u t).
  - intro E. inversion E; subst. apply H2. reflexivity.
  - intro Hw. apply wst_of_In in Hw. exfalso. apply (H1 _ Hw). reflexivity.
Qed.

(* a free lock with waiters has a runnable first waiter *)
Lemma free_head_ready m : minv m -> locked m = false -> waiters m <> [] ->
  exists t, In t (tids m) /\ ready_wst (wst_of (waiters m) t) = true.
Proof.
  unfold minv, tids. destruct (waiters m) as [|[u s] r]; cbn; [congruence|].
  intros (_ & _ & H3) Hl _. exists u. split; [left; reflexivity|].
  rewrite Nat.eqb_refl. specialize (H3 Hl). destruct s; cbn; congruence.
Qed.

(* ------------------------------------------------------------ queues *)
Definition queue_ok (f : pc -> bool) (ts : list task) (q : list nat) : Prop :=
  NoDup q /\ forall t, In t q <-> exists tk, nth_error ts t = Some tk /\ f (tpc tk) = true.

Lemma drop_In t q u : In u (drop t q) <-> In u q /\ u <> t.
Proof.
  unfold drop. rewrite filter_In. destruct (Nat.eqb_spec u t); cbn; intuition congruence.
Qed.

Lemma has_upd f ts t old new u :
  nth_error ts t = Some old ->
  ((exists tk, nth_error (upd ts t new) u = Some tk /\ f (tpc tk) = true) <->
   (if Nat.eqb u t then f (tpc new) = true
    else exists tk, nth_error ts u = Some tk /\ f (tpc tk) = true)).
Proof.
  intro H. rewrite nth_error_upd, H. destruct (Nat.eqb u t); [|tauto].
  split; [intros (tk & E & Hf); inversion E; subst; exact Hf|intro Hf; eexists; split; [reflexivity|exact Hf]].
Qed.

Lemma q_same f ts q t old new :
  nth_error ts t = Some old -> f (tpc old) = f (tpc new) ->
  queue_ok f ts q -> queue_ok f (upd ts t new) q.
Proof.
  intros H Hf (Hn & Hq). split; [exact Hn|]. intro u.
  rewrite (has_upd f ts t old new u H), Hq. destruct (Nat.eqb_spec u t) as [->|Hu]; [|tauto].
  rewrite <- Hf. split; [intros (tk & E & Hx); congruence|intro Hx; eexists; split; [exact H|exact Hx]].
Qed.

Lemma q_add f ts q t old new :
  nth_error ts t = Some old -> f (tpc old) = false -> f (tpc new) = true ->
  queue_ok f ts q -> queue_ok f (upd ts t new) (q ++ [t]).
Proof.
  intros H Ho Hnw (Hn & Hq).
  assert (Hnot : ~ In t q) by (rewrite Hq; intros (tk & E & Hx); congruence).
  split.
  - apply NoDup_app_remove_l with (l := []) || idtac.
    rewrite <- (rev_involutive (q ++ [t])). apply NoDup_rev. rewrite rev_app_distr. cbn.
    constructor; [rewrite <- in_rev; exact Hnot|apply NoDup_rev; exact Hn].
  - intro u. rewrite (has_upd f ts t old new u H), in_app_iff, Hq. cbn.
    destruct (Nat.eqb_spec u t) as [->|Hu].
    + split; [intros _; exact Hnw|intros _; right; left; reflexivity].
    + split; [intros [Hx|[Hx|[]]]; [exact Hx|congruence]|intro Hx; left; exact Hx].
Qed.

Lemma q_del f ts q t old new :
  nth_error ts t = Some old -> f (tpc new) = false ->
  queue_ok f ts q -> queue_ok f (upd ts t new) (drop t q).
Proof.
  intros H Hnw (Hn & Hq). split; [apply NoDup_filter; exact Hn|]. intro u.
  rewrite (has_upd f ts t old new u H), drop_In, Hq.
  destruct (Nat.eqb_spec u t) as [->|Hu]; [|tauto].
  rewrite Hnw. split; [intros (_ & Hx); congruence|discriminate].
Qed.

Lemma drop_notin t q : ~ In t q -> drop t q = q.
Proof.
  unfold drop. induction q as [|u r IH]; cbn; intro H; [reflexivity|].
  destruct (Nat.eqb_spec u t) as [->|Hu]; cbn; [exfalso; apply H; left; reflexivity|].
  f_equal. apply IH. intro Hx. apply H. right. exact Hx.
Qed.

(* ------------------------------------------------------------ the invariant *)
Definition is_holdRL (p : pc) : bool := match p with WaitWLr | HoldRL | HoldBoth => true | _ => false end.
Definition is_HB (p : pc) : bool := match p with HoldBoth => true | _ => false end.
Definition is_waitRL (p : pc) : bool := match p with WaitRL => true | _ => false end.
Definition is_waitWL (p : pc) : bool := match p with WaitWLr | WaitWLw => true | _ => false end.
Definition needs_prog (p : pc) : bool := match p with Start | Fin | Dead => false | _ => true end.

Record InvG (st : state) : Prop := mkInvG {
  g_err : err st = false;
  g_cnt : counter st = cnt is_inR (tasks st);
  g_wl : b2n (locked (wl st)) =
         cnt is_inW (tasks st) + Nat.min 1 (cnt is_inR (tasks st) + cnt is_HB (tasks st));
  g_rl : b2n (locked (rl st)) = cnt is_holdRL (tasks st);
  g_qr : queue_ok is_waitRL (tasks st) (tids (rl st));
  g_qw : queue_ok is_waitWL (tasks st) (tids (wl st));
  g_mr : minv (rl st);
  g_mw : minv (wl st);
  g_prog : forall t tk, nth_error (tasks st) t = Some tk -> needs_prog (tpc tk) = true -> prog tk <> []
}.

(* every task but t is at a suspension point *)
Definition SE (st : state) (t : nat) : Prop :=
  forall u tk, u <> t -> nth_error (tasks st) u = Some tk -> stable (tpc tk) = true.
Definition Stable (st : state) : Prop :=
  forall u tk, nth_error (tasks st) u = Some tk -> stable (tpc tk) = true.
Definition Inv (st : state) : Prop := InvG st /\ Stable st.

Lemma invg_upd st t old new rl' wl' c' e' :
  InvG st -> nth_error (tasks st) t = Some old ->
  e' = false ->
  c' + b2n (is_inR (tpc old)) = counter st + b2n (is_inR (tpc new)) ->
  b2n (locked wl') = cnt is_inW (upd (tasks st) t new)
                     + Nat.min 1 (cnt is_inR (upd (tasks st) t new) + cnt is_HB (upd (tasks st) t new)) ->
  b2n (locked rl') = cnt is_holdRL (upd (tasks st) t new) ->
  queue_ok is_waitRL (upd (tasks st) t new) (tids rl') ->
  queue_ok is_waitWL (upd (tasks st) t new) (tids wl') ->
  minv rl' -> minv wl' ->
  (needs_prog (tpc new) = true -> prog new <> []) ->
  InvG (mkState (upd (tasks st) t new) rl' wl' c' e').
Proof.
  intros HI Hn -> Hc Hw Hr Hqr Hqw Hmr Hmw Hp.
  constructor; cbn [err counter tasks rl wl]; try assumption; try reflexivity.
  - pose proof (cnt_upd is_inR _ _ _ new Hn). pose proof (g_cnt _ HI). lia.
  - intros u tk. rewrite nth_error_upd, Hn. destruct (Nat.eqb u t).
    + intro E; inversion E; subst. exact Hp.
    + apply (g_prog _ HI).
Qed.

Lemma SE_HB st t tk : SE st t -> nth_error (tasks st) t = Some tk -> is_HB (tpc tk) = false ->
  cnt is_HB (tasks st) = 0.
Proof.
  intros Hs Hn Hb. apply cnt_zero. intros u tk' Hu.
  destruct (Nat.eq_dec u t) as [->|Hne]; [congruence|].
  specialize (Hs u tk' Hne Hu). destruct (tpc tk'); cbn in *; congruence.
Qed.

(* outcome of a function that runs task t to its next suspension *)
Definition Good (st : state) (t : nat) (st' : state) : Prop :=
  InvG st' /\ exists new, tasks st' = upd (tasks st) t new /\ stable (tpc new) = true.

Lemma Good_Inv st t st' : SE st t -> Good st t st' -> Inv st'.
Proof.
  intros Hs (HI & new & Ht & Hst). split; [exact HI|].
  intros u tk. rewrite Ht, nth_error_upd. destruct (Nat.eqb_spec u t) as [->|Hne].
  - destruct (nth_error (tasks st) t); intro E; inversion E; subst; exact Hst.
  - apply Hs. exact Hne.
Qed.

Lemma Good_trans st t mid st' x :
  tasks mid = upd (tasks st) t x -> Good mid t st' -> Good st t st'.
Proof.
  intros Hm (HI & new & Ht & Hst). split; [exact HI|]. exists new. split; [|exact Hst].
  rewrite Ht, Hm. apply upd_upd.
Qed.

Lemma SE_upd st t x mid : SE st t -> tasks mid = upd (tasks st) t x -> SE mid t.
Proof.
  intros Hs Hm u tk Hne. rewrite Hm, nth_error_upd_other by exact Hne. apply Hs. exact Hne.
Qed.

(* ------------------------------------------------------------ one step preserves the invariant *)

Ltac counts Hn new :=
  pose proof (cnt_upd is_inR _ _ _ new Hn);
  pose proof (cnt_upd is_inW _ _ _ new Hn);
  pose proof (cnt_upd is_HB _ _ _ new Hn);
  pose proof (cnt_upd is_holdRL _ _ _ new Hn).

Arguments m_resume : simpl never.
Arguments m_cancel : simpl never.
Ltac norm := cbn [set_task set_wl set_rl set_err set_counter tasks rl wl counter err locked waiters m_release b2n negb orb].

Lemma leave_good st t tk rest dying st' ev :
  InvG st -> SE st t -> nth_error (tasks st) t = Some tk ->
  leave st t (tpc tk) rest dying = Some (st', ev) -> Good st t st'.
Proof.
  intros HI Hs Hn Hl. unfold leave in Hl.
  destruct (kind_of_pc (tpc tk)) as [k|] eqn:Ek; [|discriminate].
  inversion Hl; subst st' ev; clear Hl.
  set (new := mkTask rest (if dying then Dead else Start) false).
  assert (Hnew : is_inR (tpc new) = false /\ is_inW (tpc new) = false /\ is_HB (tpc new) = false
                 /\ is_holdRL (tpc new) = false /\ is_waitRL (tpc new) = false /\ is_waitWL (tpc new) = false
                 /\ needs_prog (tpc new) = false /\ stable (tpc new) = true)
    by (unfold new; destruct dying; cbn; repeat split).
  destruct Hnew as (N1 & N2 & N3 & N4 & N5 & N6 & N7 & N8).
  pose proof (SE_HB _ _ _ Hs Hn) as Hhb.
  counts Hn new. rewrite N1, N2, N3, N4 in *.
  pose proof (g_cnt _ HI) as Gc. pose proof (g_wl _ HI) as Gw. pose proof (g_rl _ HI) as Gr.
  pose proof (g_err _ HI) as Ge.
  assert (Hq1 : forall q, is_waitRL (tpc tk) = false -> queue_ok is_waitRL (tasks st) q -> queue_ok is_waitRL (upd (tasks st) t new) q)
    by (intros q Ho Hq; eapply q_same; eauto; congruence).
  assert (Hq2 : forall q, is_waitWL (tpc tk) = false -> queue_ok is_waitWL (tasks st) q -> queue_ok is_waitWL (upd (tasks st) t new) q)
    by (intros q Ho Hq; eapply q_same; eauto; congruence).
  assert (Hpn : needs_prog (tpc new) = true -> prog new <> []) by (rewrite N7; discriminate).
  split; [|exists new; split; [destruct k; unfold unlock_r, unlock_w, release_wl; destruct (counter st) as [|[|n]]; reflexivity|exact N8]].
  destruct k.
  - (* reader *)
    assert (Er : is_inR (tpc tk) = true /\ is_inW (tpc tk) = false /\ is_HB (tpc tk) = false /\ is_holdRL (tpc tk) = false
                 /\ is_waitRL (tpc tk) = false /\ is_waitWL (tpc tk) = false)
      by (destruct (tpc tk); cbn in Ek; try discriminate; cbn; repeat split).
    destruct Er as (O1 & O2 & O3 & O4 & O5 & O6). rewrite O1, O2, O3, O4 in *. specialize (Hhb eq_refl).
    cbn [b2n] in *.
    unfold unlock_r. destruct (counter st) as [|n] eqn:Ec; [lia|].
    destruct (locked (wl st)) eqn:Elw; cbn [b2n] in Gw; [|lia].
    destruct n as [|n]; unfold release_wl;
      (apply (invg_upd st t tk new); norm;
       [exact HI|exact Hn|rewrite ?Ge, ?Elw; reflexivity|rewrite O1, N1; cbn [b2n]; lia|rewrite ?Elw; cbn [b2n]; lia|lia
       |apply Hq1; [exact O5|apply (g_qr _ HI)]
       |rewrite ?tids_release; apply Hq2; [exact O6|apply (g_qw _ HI)]
       |apply (g_mr _ HI)
       |try apply minv_release; apply (g_mw _ HI)
       |exact Hpn]).
  - (* writer *)
    assert (Er : is_inR (tpc tk) = false /\ is_inW (tpc tk) = true /\ is_HB (tpc tk) = false /\ is_holdRL (tpc tk) = false
                 /\ is_waitRL (tpc tk) = false /\ is_waitWL (tpc tk) = false)
      by (destruct (tpc tk); cbn in Ek; try discriminate; cbn; repeat split).
    destruct Er as (O1 & O2 & O3 & O4 & O5 & O6). rewrite O1, O2, O3, O4 in *. specialize (Hhb eq_refl).
    cbn [b2n] in *.
    destruct (locked (wl st)) eqn:Elw; cbn [b2n] in Gw; [|lia].
    unfold unlock_w, release_wl.
    apply (invg_upd st t tk new); norm;
       [exact HI|exact Hn|rewrite ?Ge, ?Elw; reflexivity|rewrite O1, N1; cbn [b2n]; lia|rewrite ?Elw; cbn [b2n]; lia|lia
       |apply Hq1; [exact O5|apply (g_qr _ HI)]
       |rewrite ?tids_release; apply Hq2; [exact O6|apply (g_qw _ HI)]
       |apply (g_mr _ HI)
       |try apply minv_release; apply (g_mw _ HI)
       |exact Hpn].
Qed.

Lemma set_same st t tk new :
  InvG st -> nth_error (tasks st) t = Some tk ->
  is_inR (tpc new) = is_inR (tpc tk) -> is_inW (tpc new) = is_inW (tpc tk) ->
  is_HB (tpc new) = is_HB (tpc tk) -> is_holdRL (tpc new) = is_holdRL (tpc tk) ->
  is_waitRL (tpc new) = is_waitRL (tpc tk) -> is_waitWL (tpc new) = is_waitWL (tpc tk) ->
  (needs_prog (tpc new) = true -> prog new <> []) ->
  InvG (set_task st t new).
Proof.
  intros HI Hn E1 E2 E3 E4 E5 E6 Hp. counts Hn new. rewrite E1, E2, E3, E4 in *.
  pose proof (g_cnt _ HI) as Gc. pose proof (g_wl _ HI) as Gw. pose proof (g_rl _ HI) as Gr.
  unfold set_task. apply (invg_upd st t tk new);
    [exact HI|exact Hn|apply (g_err _ HI)|rewrite E1; lia|lia|lia
    |eapply q_same; [exact Hn|symmetry; exact E5|apply (g_qr _ HI)]
    |eapply q_same; [exact Hn|symmetry; exact E6|apply (g_qw _ HI)]
    |apply (g_mr _ HI)|apply (g_mw _ HI)|exact Hp].
Qed.

Lemma tasks_set_task st t x : tasks (set_task st t x) = upd (tasks st) t x.
Proof. reflexivity. Qed.

Lemma at_cs_good st t tk a rest st' ev :
  InvG st -> SE st t -> nth_error (tasks st) t = Some tk ->
  at_cs st t a rest (tpc tk) = Some (st', ev) -> Good st t st'.
Proof.
  intros HI Hs Hn H. unfold at_cs in H.
  destruct (tpc tk) as [| | |k| |k| | | | |[|k]|[|k]] eqn:Ep; try discriminate.
  - rewrite <- Ep in H. eapply leave_good; eauto.
  - inversion H; subst. split.
    + eapply set_same; [exact HI|exact Hn|rewrite Ep; reflexivity..|discriminate].
    + eexists; split; [reflexivity|reflexivity].
  - rewrite <- Ep in H. eapply leave_good; eauto.
  - inversion H; subst. split.
    + eapply set_same; [exact HI|exact Hn|rewrite Ep; reflexivity..|discriminate].
    + eexists; split; [reflexivity|reflexivity].
Qed.

Lemma cons_ev_some e r st' ev : cons_ev e r = Some (st', ev) -> exists ev0, r = Some (st', ev0).
Proof. destruct r as [[s x]|]; cbn; intro H; inversion H; subst. eexists; reflexivity. Qed.

(* [mid]: the state right after the lock was obtained and the pc set to AtR/AtW *)
Lemma enter_via st t k a rest st' ev mid :
  mid = set_task st t (mkTask (a :: rest) (match k with KR => AtR (ay a) | KW => AtW (ay a) end) false) ->
  InvG mid -> SE st t -> (exists old, nth_error (tasks st) t = Some old) ->
  enter st t k a rest = Some (st', ev) -> Good st t st'.
Proof.
  intros -> HI Hs (old & Hn) H. unfold enter in H. apply cons_ev_some in H as (ev0 & H).
  eapply Good_trans; [apply tasks_set_task|].
  eapply at_cs_good; [exact HI|eapply SE_upd; [exact Hs|apply tasks_set_task]| |].
  - cbn [tasks set_task]. eapply nth_error_upd_same; exact Hn.
  - cbn [tpc]. exact H.
Qed.

Lemma hold_both_good st t tk a rest st' ev :
  InvG st -> SE st t -> nth_error (tasks st) t = Some tk -> tpc tk = HoldBoth ->
  hold_both st t a rest = Some (st', ev) -> Good st t st'.
Proof.
  intros HI Hs Hn Ep H. unfold hold_both in H.
  assert (Hmid : InvG (set_task (release_rl (set_counter st (S (counter st)))) t
                         (mkTask (a :: rest) (AtR (ay a)) false))).
  { counts Hn (mkTask (a :: rest) (AtR (ay a)) false).
    pose proof (g_cnt _ HI) as Gc. pose proof (g_wl _ HI) as Gw. pose proof (g_rl _ HI) as Gr.
    pose proof (g_err _ HI) as Ge.
    rewrite Ep in *. cbn [tpc is_inR is_inW is_HB is_holdRL b2n] in *.
    destruct (locked (rl st)) eqn:Elr; cbn [b2n] in Gr; [|lia].
    unfold release_rl.
    apply (invg_upd st t tk (mkTask (a :: rest) (AtR (ay a)) false)); norm;
      [exact HI|exact Hn|rewrite Ge, Elr; reflexivity|rewrite Ep; cbn [tpc is_inR b2n]; lia|lia|lia
      |rewrite tids_release; eapply q_same; [exact Hn|rewrite Ep; reflexivity|apply (g_qr _ HI)]
      |eapply q_same; [exact Hn|rewrite Ep; reflexivity|apply (g_qw _ HI)]
      |apply minv_release, (g_mr _ HI)|apply (g_mw _ HI)|discriminate]. }
  assert (Hs' : SE (release_rl (set_counter st (S (counter st)))) t) by exact Hs.
  assert (Hg : Good (release_rl (set_counter st (S (counter st)))) t st').
  { eapply (enter_via _ t KR a rest st' ev); [reflexivity|exact Hmid|exact Hs'|eexists; exact Hn|exact H]. }
  exact Hg.
Qed.

Lemma hold_rl_good st t tk a rest st' ev :
  InvG st -> SE st t -> nth_error (tasks st) t = Some tk -> tpc tk = HoldRL ->
  hold_rl st t a rest = Some (st', ev) -> Good st t st'.
Proof.
  intros HI Hs Hn Ep H. unfold hold_rl in H.
  pose proof (SE_HB _ _ _ Hs Hn) as Hhb. rewrite Ep in Hhb. specialize (Hhb eq_refl).
  pose proof (g_cnt _ HI) as Gc. pose proof (g_wl _ HI) as Gw. pose proof (g_rl _ HI) as Gr.
  pose proof (g_err _ HI) as Ge.
  destruct (counter st) as [|n] eqn:Ec.
  - destruct (m_acquire (wl st) t) as [ok m] eqn:Ea. destruct ok.
    + (* fast *)
      pose proof (minv_acquire_fast _ _ _ Ea) as Hm.
      apply acquire_fast in Ea as (Elw & _ & ->).
      match type of H with hold_both ?m _ _ _ = _ => set (mid := m) in * end.
      assert (Hmid : InvG mid).
      { counts Hn (mkTask (a :: rest) HoldBoth false).
        rewrite Ep in *. cbn [tpc is_inR is_inW is_HB is_holdRL b2n] in *. rewrite Elw in Gw. cbn [b2n] in Gw.
        unfold mid, set_task, set_wl. norm.
        apply (invg_upd st t tk (mkTask (a :: rest) HoldBoth false)); norm;
          [exact HI|exact Hn|exact Ge|rewrite Ep; cbn [tpc is_inR b2n]; lia|lia|lia
          |eapply q_same; [exact Hn|rewrite Ep; reflexivity|apply (g_qr _ HI)]
          |eapply q_same; [exact Hn|rewrite Ep; reflexivity|apply (g_qw _ HI)]
          |apply (g_mr _ HI)|exact Hm|discriminate]. }
      assert (Hg : Good mid t st').
      { eapply (hold_both_good mid t (mkTask (a :: rest) HoldBoth false));
          [exact Hmid|eapply SE_upd; [exact Hs|reflexivity]
          |unfold mid; cbn [tasks set_task set_wl]; eapply nth_error_upd_same; exact Hn
          |reflexivity|exact H]. }
      eapply Good_trans; [|exact Hg]. reflexivity.
    + (* slow: suspend holding the read mutex *)
      pose proof (minv_acquire_slow _ _ _ (g_mw _ HI) Ea) as Hm.
      apply acquire_slow in Ea as (-> & _).
      inversion H; subst st' ev. split; [|eexists; split; [reflexivity|reflexivity]].
      counts Hn (mkTask (a :: rest) WaitWLr false).
      rewrite Ep in *. cbn [tpc is_inR is_inW is_HB is_holdRL b2n] in *.
      unfold set_task, set_wl. norm.
      apply (invg_upd st t tk (mkTask (a :: rest) WaitWLr false)); norm;
        [exact HI|exact Hn|exact Ge|rewrite Ep; cbn [tpc is_inR b2n]; lia|lia|lia
        |eapply q_same; [exact Hn|rewrite Ep; reflexivity|apply (g_qr _ HI)]
        | |apply (g_mr _ HI)|exact Hm|discriminate].
      unfold tids; cbn [waiters]. rewrite map_app. cbn [map fst].
      eapply q_add; [exact Hn|rewrite Ep; reflexivity|reflexivity|apply (g_qw _ HI)].
  - match type of H with hold_both ?m _ _ _ = _ => set (mid := m) in * end.
    assert (Hmid : InvG mid).
    { counts Hn (mkTask (a :: rest) HoldBoth false).
      rewrite Ep in *. cbn [tpc is_inR is_inW is_HB is_holdRL b2n] in *.
      unfold mid, set_task. norm.
      apply (invg_upd st t tk (mkTask (a :: rest) HoldBoth false)); norm;
        [exact HI|exact Hn|exact Ge|rewrite Ep; cbn [tpc is_inR b2n]; lia|lia|lia
        |eapply q_same; [exact Hn|rewrite Ep; reflexivity|apply (g_qr _ HI)]
        |eapply q_same; [exact Hn|rewrite Ep; reflexivity|apply (g_qw _ HI)]
        |apply (g_mr _ HI)|apply (g_mw _ HI)|discriminate]. }
    assert (Hg : Good mid t st').
    { eapply (hold_both_good mid t (mkTask (a :: rest) HoldBoth false));
        [exact Hmid|eapply SE_upd; [exact Hs|reflexivity]
        |unfold mid; cbn [tasks set_task]; eapply nth_error_upd_same; exact Hn
        |reflexivity|exact H]. }
    eapply Good_trans; [|exact Hg]. reflexivity.
Qed.

Lemma begin_good st t tk a rest st' ev :
  InvG st -> SE st t -> nth_error (tasks st) t = Some tk -> tpc tk = Start ->
  begin Fixed st t a rest = Some (st', ev) -> Good st t st'.
Proof.
  intros HI Hs Hn Ep H. unfold begin in H.
  pose proof (SE_HB _ _ _ Hs Hn) as Hhb. rewrite Ep in Hhb. specialize (Hhb eq_refl).
  pose proof (g_cnt _ HI) as Gc. pose proof (g_wl _ HI) as Gw. pose proof (g_rl _ HI) as Gr.
  pose proof (g_err _ HI) as Ge.
  destruct (ak a).
  - (* reader *)
    destruct (m_acquire (rl st) t) as [ok m] eqn:Ea. destruct ok.
    + pose proof (minv_acquire_fast _ _ _ Ea) as Hm.
      apply acquire_fast in Ea as (Elr & _ & ->).
      match type of H with hold_rl ?m _ _ _ = _ => set (mid := m) in * end.
      assert (Hmid : InvG mid).
      { counts Hn (mkTask (a :: rest) HoldRL false).
        rewrite Ep in *. cbn [tpc is_inR is_inW is_HB is_holdRL b2n] in *. rewrite Elr in Gr. cbn [b2n] in Gr.
        unfold mid, set_task, set_rl. norm.
        apply (invg_upd st t tk (mkTask (a :: rest) HoldRL false)); norm;
          [exact HI|exact Hn|exact Ge|rewrite Ep; cbn [tpc is_inR b2n]; lia|lia|lia
          |eapply q_same; [exact Hn|rewrite Ep; reflexivity|apply (g_qr _ HI)]
          |eapply q_same; [exact Hn|rewrite Ep; reflexivity|apply (g_qw _ HI)]
          |exact Hm|apply (g_mw _ HI)|discriminate]. }
      assert (Hg : Good mid t st').
      { eapply (hold_rl_good mid t (mkTask (a :: rest) HoldRL false));
          [exact Hmid|eapply SE_upd; [exact Hs|reflexivity]
          |unfold mid; cbn [tasks set_task set_rl]; eapply nth_error_upd_same; exact Hn
          |reflexivity|exact H]. }
      eapply Good_trans; [|exact Hg]. reflexivity.
    + pose proof (minv_acquire_slow _ _ _ (g_mr _ HI) Ea) as Hm.
      apply acquire_slow in Ea as (-> & _).
      inversion H; subst st' ev. split; [|eexists; split; [reflexivity|reflexivity]].
      counts Hn (mkTask (a :: rest) WaitRL false).
      rewrite Ep in *. cbn [tpc is_inR is_inW is_HB is_holdRL b2n] in *.
      unfold set_task, set_rl. norm.
      apply (invg_upd st t tk (mkTask (a :: rest) WaitRL false)); norm;
        [exact HI|exact Hn|exact Ge|rewrite Ep; cbn [tpc is_inR b2n]; lia|lia|lia
        | |eapply q_same; [exact Hn|rewrite Ep; reflexivity|apply (g_qw _ HI)]
        |exact Hm|apply (g_mw _ HI)|discriminate].
      unfold tids; cbn [waiters]. rewrite map_app. cbn [map fst].
      eapply q_add; [exact Hn|rewrite Ep; reflexivity|reflexivity|apply (g_qr _ HI)].
  - (* writer *)
    destruct (m_acquire (wl st) t) as [ok m] eqn:Ea. destruct ok.
    + pose proof (minv_acquire_fast _ _ _ Ea) as Hm.
      apply acquire_fast in Ea as (Elw & _ & ->).
      match type of H with enter ?m _ _ _ _ = _ => set (st1 := m) in * end.
      assert (Hg : Good st1 t st'); [|exact Hg].
      eapply (enter_via st1 t KW a rest st' ev); [reflexivity| |exact Hs|eexists; exact Hn|exact H].
      unfold st1.
      counts Hn (mkTask (a :: rest) (AtW (ay a)) false).
      rewrite Ep in *. cbn [tpc is_inR is_inW is_HB is_holdRL b2n] in *. rewrite Elw in Gw. cbn [b2n] in Gw.
      unfold set_task, set_wl. norm.
      apply (invg_upd st t tk (mkTask (a :: rest) (AtW (ay a)) false)); norm;
        [exact HI|exact Hn|exact Ge|rewrite Ep; cbn [tpc is_inR b2n]; lia|lia|lia
        |eapply q_same; [exact Hn|rewrite Ep; reflexivity|apply (g_qr _ HI)]
        |eapply q_same; [exact Hn|rewrite Ep; reflexivity|apply (g_qw _ HI)]
        |apply (g_mr _ HI)|exact Hm|discriminate].
    + pose proof (minv_acquire_slow _ _ _ (g_mw _ HI) Ea) as Hm.
      apply acquire_slow in Ea as (-> & _).
      inversion H; subst st' ev. split; [|eexists; split; [reflexivity|reflexivity]].
      counts Hn (mkTask (a :: rest) WaitWLw false).
      rewrite Ep in *. cbn [tpc is_inR is_inW is_HB is_holdRL b2n] in *.
      unfold set_task, set_wl. norm.
      apply (invg_upd st t tk (mkTask (a :: rest) WaitWLw false)); norm;
        [exact HI|exact Hn|exact Ge|rewrite Ep; cbn [tpc is_inR b2n]; lia|lia|lia
        |eapply q_same; [exact Hn|rewrite Ep; reflexivity|apply (g_qr _ HI)]
        | |apply (g_mr _ HI)|exact Hm|discriminate].
      unfold tids; cbn [waiters]. rewrite map_app. cbn [map fst].
      eapply q_add; [exact Hn|rewrite Ep; reflexivity|reflexivity|apply (g_qw _ HI)].
Qed.

Lemma not_cancelled_woken m t tk :
  ready_wst (wst_of (waiters m) t) = true -> cancelled_at m t tk = false ->
  wst_of (waiters m) t = Some Woken.
Proof.
  unfold cancelled_at. destruct (wst_of (waiters m) t) as [[]|]; cbn; try discriminate;
    destruct (mc tk); cbn; congruence.
Qed.

Lemma run_good st t tk st' ev :
  InvG st -> SE st t -> nth_error (tasks st) t = Some tk -> enabled st t = true ->
  run Fixed st t = Some (st', ev) -> Good st t st'.
Proof.
  intros HI Hs Hn En H. unfold run in H. rewrite En, Hn in H. cbn [negb] in H.
  unfold enabled in En. rewrite Hn in En.
  pose proof (SE_HB _ _ _ Hs Hn) as Hhb.
  pose proof (g_cnt _ HI) as Gc. pose proof (g_wl _ HI) as Gw. pose proof (g_rl _ HI) as Gr.
  pose proof (g_err _ HI) as Ge.
  destruct (tpc tk) eqn:Ep; try discriminate.
  - (* Start *)
    destruct (mc tk).
    + injection H as <- <-. split; [|eexists; split; [reflexivity|reflexivity]].
      eapply set_same; [exact HI|exact Hn|rewrite Ep; reflexivity..|discriminate].
    + destruct (prog tk) as [|a rest].
      * injection H as <- <-. split; [|eexists; split; [reflexivity|reflexivity]].
        eapply set_same; [exact HI|exact Hn|rewrite Ep; reflexivity..|discriminate].
      * eapply begin_good; eauto.
  - (* WaitRL *)
    destruct (prog tk) as [|a rest] eqn:Epg; [discriminate|].
    destruct (cancelled_at (rl st) t tk) eqn:Ec.
    + injection H as <- <-. split; [|eexists; split; [reflexivity|reflexivity]].
      counts Hn (mkTask (a :: rest) Dead false).
      rewrite Ep in *. cbn [tpc is_inR is_inW is_HB is_holdRL b2n] in *.
      unfold die, set_task, set_rl. rewrite ?Epg. norm.
      apply (invg_upd st t tk (mkTask (a :: rest) Dead false)); norm;
        [exact HI|exact Hn|exact Ge|rewrite Ep; cbn [tpc is_inR b2n]; lia|lia|rewrite locked_resume; lia
        |rewrite tids_resume; eapply q_del; [exact Hn|reflexivity|apply (g_qr _ HI)]
        |eapply q_same; [exact Hn|rewrite Ep; reflexivity|apply (g_qw _ HI)]
        |apply minv_resume; [apply (g_mr _ HI)|discriminate]|apply (g_mw _ HI)|discriminate].
    + pose proof (not_cancelled_woken _ _ _ En Ec) as Hw.
      pose proof (woken_unlocked _ _ (g_mr _ HI) Hw) as Elr.
      match type of H with hold_rl ?m _ _ _ = _ => set (mid := m) in * end.
      assert (Hmid : InvG mid).
      { counts Hn (mkTask (a :: rest) HoldRL false).
        rewrite Ep in *. cbn [tpc is_inR is_inW is_HB is_holdRL b2n] in *. rewrite Elr in Gr. cbn [b2n] in Gr.
        unfold mid, set_task, set_rl. norm.
        apply (invg_upd st t tk (mkTask (a :: rest) HoldRL false)); norm;
          [exact HI|exact Hn|exact Ge|rewrite Ep; cbn [tpc is_inR b2n]; lia|lia|rewrite locked_resume; cbn [b2n]; lia
          |rewrite tids_resume; eapply q_del; [exact Hn|reflexivity|apply (g_qr _ HI)]
          |eapply q_same; [exact Hn|rewrite Ep; reflexivity|apply (g_qw _ HI)]
          |apply minv_resume; [apply (g_mr _ HI)|intros _; exact Hw]|apply (g_mw _ HI)|discriminate]. }
      assert (Hg : Good mid t st').
      { eapply (hold_rl_good mid t (mkTask (a :: rest) HoldRL false));
          [exact Hmid|eapply SE_upd; [exact Hs|reflexivity]
          |unfold mid; cbn [tasks set_task set_rl]; eapply nth_error_upd_same; exact Hn
          |reflexivity|exact H]. }
      eapply Good_trans; [|exact Hg]. reflexivity.
  - (* WaitWLr *)
    destruct (prog tk) as [|a rest] eqn:Epg; [discriminate|].
    destruct (cancelled_at (wl st) t tk) eqn:Ec.
    + injection H as <- <-. split; [|eexists; split; [reflexivity|reflexivity]].
      counts Hn (mkTask (a :: rest) Dead false).
      rewrite Ep in *. cbn [tpc is_inR is_inW is_HB is_holdRL b2n] in *.
      destruct (locked (rl st)) eqn:Elr; cbn [b2n] in Gr; [|lia].
      unfold die, release_rl, set_task, set_wl, set_rl, set_err. rewrite ?Epg. norm.
      apply (invg_upd st t tk (mkTask (a :: rest) Dead false)); norm;
        [exact HI|exact Hn|rewrite Ge, Elr; reflexivity|rewrite Ep; cbn [tpc is_inR b2n]; lia
        |rewrite locked_resume; lia|lia
        |rewrite tids_release; eapply q_same; [exact Hn|rewrite Ep; reflexivity|apply (g_qr _ HI)]
        |rewrite tids_resume; eapply q_del; [exact Hn|reflexivity|apply (g_qw _ HI)]
        |apply minv_release, (g_mr _ HI)
        |apply minv_resume; [apply (g_mw _ HI)|discriminate]|discriminate].
    + pose proof (not_cancelled_woken _ _ _ En Ec) as Hw.
      pose proof (woken_unlocked _ _ (g_mw _ HI) Hw) as Elw.
      match type of H with hold_both ?m _ _ _ = _ => set (mid := m) in * end.
      assert (Hmid : InvG mid).
      { counts Hn (mkTask (a :: rest) HoldBoth false).
        rewrite Ep in *. cbn [tpc is_inR is_inW is_HB is_holdRL b2n] in *. rewrite Elw in Gw. cbn [b2n] in Gw.
        unfold mid, set_task, set_wl. norm.
        apply (invg_upd st t tk (mkTask (a :: rest) HoldBoth false)); norm;
          [exact HI|exact Hn|exact Ge|rewrite Ep; cbn [tpc is_inR b2n]; lia
          |rewrite locked_resume; cbn [b2n]; lia|lia
          |eapply q_same; [exact Hn|rewrite Ep; reflexivity|apply (g_qr _ HI)]
          |rewrite tids_resume; eapply q_del; [exact Hn|reflexivity|apply (g_qw _ HI)]
          |apply (g_mr _ HI)|apply minv_resume; [apply (g_mw _ HI)|intros _; exact Hw]|discriminate]. }
      assert (Hg : Good mid t st').
      { eapply (hold_both_good mid t (mkTask (a :: rest) HoldBoth false));
          [exact Hmid|eapply SE_upd; [exact Hs|reflexivity]
          |unfold mid; cbn [tasks set_task set_wl]; eapply nth_error_upd_same; exact Hn
          |reflexivity|exact H]. }
      eapply Good_trans; [|exact Hg]. reflexivity.
  - (* InR *)
    destruct (prog tk) as [|a rest] eqn:Epg; [discriminate|].
    destruct (mc tk).
    + rewrite <- Ep in H. eapply leave_good; eauto.
    + match type of H with at_cs ?m _ _ _ _ = _ => set (mid := m) in * end.
      assert (Hmid : InvG mid)
        by (eapply set_same; [exact HI|exact Hn|rewrite Ep; reflexivity..|discriminate]).
      assert (Hg : Good mid t st').
      { eapply (at_cs_good mid t (mkTask (a :: rest) (AtR k) false));
          [exact Hmid|eapply SE_upd; [exact Hs|reflexivity]
          |unfold mid; cbn [tasks set_task]; eapply nth_error_upd_same; exact Hn
          |exact H]. }
      eapply Good_trans; [|exact Hg]. reflexivity.
  - (* WaitWLw *)
    destruct (prog tk) as [|a rest] eqn:Epg; [discriminate|].
    destruct (cancelled_at (wl st) t tk) eqn:Ec.
    + injection H as <- <-. split; [|eexists; split; [reflexivity|reflexivity]].
      counts Hn (mkTask (a :: rest) Dead false).
      rewrite Ep in *. cbn [tpc is_inR is_inW is_HB is_holdRL b2n] in *.
      unfold die, set_task, set_wl. rewrite ?Epg. norm.
      apply (invg_upd st t tk (mkTask (a :: rest) Dead false)); norm;
        [exact HI|exact Hn|exact Ge|rewrite Ep; cbn [tpc is_inR b2n]; lia
        |rewrite locked_resume; lia|lia
        |eapply q_same; [exact Hn|rewrite Ep; reflexivity|apply (g_qr _ HI)]
        |rewrite tids_resume; eapply q_del; [exact Hn|reflexivity|apply (g_qw _ HI)]
        |apply (g_mr _ HI)
        |apply minv_resume; [apply (g_mw _ HI)|discriminate]|discriminate].
    + pose proof (not_cancelled_woken _ _ _ En Ec) as Hw.
      pose proof (woken_unlocked _ _ (g_mw _ HI) Hw) as Elw.
      match type of H with enter ?m _ _ _ _ = _ => set (st1 := m) in * end.
      assert (Hg : Good st1 t st'); [|exact Hg].
      eapply (enter_via st1 t KW a rest st' ev); [reflexivity| |exact Hs|eexists; exact Hn|exact H].
      unfold st1.
      counts Hn (mkTask (a :: rest) (AtW (ay a)) false).
      rewrite Ep in *. cbn [tpc is_inR is_inW is_HB is_holdRL b2n] in *. rewrite Elw in Gw. cbn [b2n] in Gw.
      unfold set_task, set_wl. norm.
      apply (invg_upd st t tk (mkTask (a :: rest) (AtW (ay a)) false)); norm;
        [exact HI|exact Hn|exact Ge|rewrite Ep; cbn [tpc is_inR b2n]; lia
        |rewrite locked_resume; cbn [b2n]; lia|lia
        |eapply q_same; [exact Hn|rewrite Ep; reflexivity|apply (g_qr _ HI)]
        |rewrite tids_resume; eapply q_del; [exact Hn|reflexivity|apply (g_qw _ HI)]
        |apply (g_mr _ HI)|apply minv_resume; [apply (g_mw _ HI)|intros _; exact Hw]|discriminate].
  - (* InW *)
    destruct (prog tk) as [|a rest] eqn:Epg; [discriminate|].
    destruct (mc tk).
    + rewrite <- Ep in H. eapply leave_good; eauto.
    + match type of H with at_cs ?m _ _ _ _ = _ => set (mid := m) in * end.
      assert (Hmid : InvG mid)
        by (eapply set_same; [exact HI|exact Hn|rewrite Ep; reflexivity..|discriminate]).
      assert (Hg : Good mid t st').
      { eapply (at_cs_good mid t (mkTask (a :: rest) (AtW k) false));
          [exact Hmid|eapply SE_upd; [exact Hs|reflexivity]
          |unfold mid; cbn [tasks set_task]; eapply nth_error_upd_same; exact Hn
          |exact H]. }
      eapply Good_trans; [|exact Hg]. reflexivity.
Qed.

Lemma Stable_SE st t : Stable st -> SE st t.
Proof. intros H u tk _ Hu. eapply H; exact Hu. Qed.

Lemma run_inv st t st' ev : Inv st -> run Fixed st t = Some (st', ev) -> Inv st'.
Proof.
  intros (HI & Hst) H.
  destruct (enabled st t) eqn:En; [|unfold run in H; rewrite En in H; discriminate].
  destruct (nth_error (tasks st) t) as [tk|] eqn:Hn;
    [|unfold enabled in En; rewrite Hn in En; discriminate].
  eapply Good_Inv; [apply Stable_SE; exact Hst|]. eapply run_good; eauto using Stable_SE.
Qed.

Lemma invg_set_rl st m :
  InvG st -> minv m -> tids m = tids (rl st) -> locked m = locked (rl st) -> InvG (set_rl st m).
Proof.
  intros HI Hm Ht Hl. constructor; cbn [set_rl err counter tasks rl wl];
    [apply (g_err _ HI)|apply (g_cnt _ HI)|apply (g_wl _ HI)|rewrite Hl; apply (g_rl _ HI)
    |rewrite Ht; apply (g_qr _ HI)|apply (g_qw _ HI)|exact Hm|apply (g_mw _ HI)|apply (g_prog _ HI)].
Qed.

Lemma invg_set_wl st m :
  InvG st -> minv m -> tids m = tids (wl st) -> locked m = locked (wl st) -> InvG (set_wl st m).
Proof.
  intros HI Hm Ht Hl. constructor; cbn [set_wl err counter tasks rl wl];
    [apply (g_err _ HI)|apply (g_cnt _ HI)|rewrite Hl; apply (g_wl _ HI)|apply (g_rl _ HI)
    |apply (g_qr _ HI)|rewrite Ht; apply (g_qw _ HI)|apply (g_mr _ HI)|exact Hm|apply (g_prog _ HI)].
Qed.

Lemma flag_inv st t tk : Inv st -> nth_error (tasks st) t = Some tk ->
  Inv (set_task st t (mkTask (prog tk) (tpc tk) true)).
Proof.
  intros (HI & Hst) Hn. split.
  - eapply set_same; [exact HI|exact Hn|reflexivity..|]. cbn [tpc prog]. apply (g_prog _ HI _ _ Hn).
  - intros u x. cbn [tasks set_task]. rewrite nth_error_upd, Hn.
    destruct (Nat.eqb u t); [intro E; inversion E; subst; cbn [tpc]; eapply Hst; exact Hn|apply Hst].
Qed.

Lemma cancel_inv st t : Inv st -> Inv (cancel st t).
Proof.
  intros HIs. pose proof HIs as (HI & Hst). unfold cancel.
  destruct (nth_error (tasks st) t) as [tk|] eqn:Hn; [|exact HIs].
  destruct (tpc tk) eqn:Ep; try exact HIs; try (rewrite <- Ep; apply flag_inv; assumption).
  - destruct (wst_of (waiters (rl st)) t) as [[]|]; try (rewrite <- Ep; apply flag_inv; assumption).
    split; [|exact Hst]. apply invg_set_rl; [exact HI|apply minv_cancel, (g_mr _ HI)|apply tids_cancel|reflexivity].
  - destruct (wst_of (waiters (wl st)) t) as [[]|]; try (rewrite <- Ep; apply flag_inv; assumption).
    split; [|exact Hst]. apply invg_set_wl; [exact HI|apply minv_cancel, (g_mw _ HI)|apply tids_cancel|reflexivity].
  - destruct (wst_of (waiters (wl st)) t) as [[]|]; try (rewrite <- Ep; apply flag_inv; assumption).
    split; [|exact Hst]. apply invg_set_wl; [exact HI|apply minv_cancel, (g_mw _ HI)|apply tids_cancel|reflexivity].
Qed.

Lemma step_inv st l st' ev : Inv st -> step Fixed st l = Some (st', ev) -> Inv st'.
Proof.
  intros HI H. destruct l as [t|t]; cbn [step] in H.
  - eapply run_inv; eauto.
  - injection H as <- _. apply cancel_inv. exact HI.
Qed.

Lemma exec_inv sched : forall st st' ev, Inv st -> exec Fixed st sched = Some (st', ev) -> Inv st'.
Proof.
  induction sched as [|l r IH]; intros st st' ev HI H; cbn [exec] in H.
  - injection H as <- _. exact HI.
  - destruct (step Fixed st l) as [[st1 ev1]|] eqn:Es; [|discriminate].
    destruct (exec Fixed st1 r) as [[st2 ev2]|] eqn:Ee; [|discriminate].
    injection H as <- _. eapply IH; [eapply step_inv; eauto|exact Ee].
Qed.

Lemma nth_error_init progs t tk :
  nth_error (tasks (init progs)) t = Some tk -> tpc tk = Start.
Proof.
  unfold init; cbn [tasks]. intro H. apply nth_error_In in H. apply in_map_iff in H as (p & <- & _). reflexivity.
Qed.

Lemma init_inv progs : Inv (init progs).
Proof.
  assert (Hz : forall f, f Start = false -> cnt f (tasks (init progs)) = 0).
  { intros f Hf. apply cnt_zero. intros u tk Hu. rewrite (nth_error_init _ _ _ Hu). exact Hf. }
  assert (Hq : forall f, f Start = false -> queue_ok f (tasks (init progs)) []).
  { intros f Hf. split; [constructor|]. intro t. split; [intros []|].
    intros (tk & Hu & Hx). rewrite (nth_error_init _ _ _ Hu) in Hx. congruence. }
  split.
  - constructor; try (rewrite !Hz by reflexivity); try reflexivity; try (apply Hq; reflexivity); try exact I.
    intros t tk Hu. rewrite (nth_error_init _ _ _ Hu). discriminate.
  - intros u tk Hu. rewrite (nth_error_init _ _ _ Hu). reflexivity.
Qed.

(* ------------------------------------------------------------ consequences *)
Lemma inv_excl st : Inv st ->
  writers_in st <= 1 /\ (writers_in st = 1 -> readers_in st = 0).
Proof.
  intros (HI & _). unfold writers_in, readers_in. pose proof (g_wl _ HI) as Gw.
  destruct (locked (wl st)); cbn [b2n] in Gw; lia.
Qed.

Lemma stable_cnt_eq f g ts :
  (forall p, stable p = true -> f p = g p) ->
  (forall u tk, nth_error ts u = Some tk -> stable (tpc tk) = true) -> cnt f ts = cnt g ts.
Proof.
  intros Hfg. unfold cnt. induction ts as [|y r IH]; intro Hs; [reflexivity|]. cbn [filter].
  rewrite (Hfg _ (Hs 0 y eq_refl)).
  assert (Hr : forall u tk, nth_error r u = Some tk -> stable (tpc tk) = true)
    by (intros u tk Hu; exact (Hs (S u) tk Hu)).
  specialize (IH Hr). destruct (g (tpc y)); cbn [length]; rewrite IH; reflexivity.
Qed.

Definition is_start (p : pc) : bool := match p with Start => true | _ => false end.

Lemma enabled_ready st u tk :
  nth_error (tasks st) u = Some tk ->
  (is_start (tpc tk) || is_inR (tpc tk) || is_inW (tpc tk) = true) -> stable (tpc tk) = true ->
  enabled st u = true.
Proof.
  intros Hu Hp Hs. unfold enabled. rewrite Hu. destruct (tpc tk); cbn in *; congruence.
Qed.

Lemma no_deadlock st : Inv st -> (exists t, unfinished st t) -> exists t, enabled st t = true.
Proof.
  intros (HI & Hst) (t0 & tk0 & H0 & Hl0).
  pose proof (g_wl _ HI) as Gw. pose proof (g_rl _ HI) as Gr.
  (* a task at a yield or at its start is runnable *)
  assert (Hrdy : forall f, (forall p, f p = true -> is_start p || is_inR p || is_inW p = true) ->
                 1 <= cnt f (tasks st) -> exists t, enabled st t = true).
  { intros f Hf Hc. apply cnt_pos_inv in Hc as (u & tk & Hu & Hx). exists u.
    eapply enabled_ready; [exact Hu|apply Hf; exact Hx|eapply Hst; exact Hu]. }
  destruct (cnt is_start (tasks st)) as [|n] eqn:Es;
    [|eapply (Hrdy is_start); [intros p Hp; rewrite Hp; reflexivity|lia]].
  destruct (cnt is_inR (tasks st)) as [|n] eqn:Er;
    [|eapply (Hrdy is_inR); [intros p Hp; rewrite Hp; destruct (is_start p); reflexivity|lia]].
  destruct (cnt is_inW (tasks st)) as [|n] eqn:Ew;
    [|eapply (Hrdy is_inW); [intros p Hp; rewrite Hp; destruct (is_start p), (is_inR p); reflexivity|lia]].
  assert (Hhb : cnt is_HB (tasks st) = 0).
  { apply cnt_zero. intros u tk Hu. specialize (Hst u tk Hu). destruct (tpc tk); cbn in *; congruence. }
  rewrite Hhb in Gw. cbn in Gw.
  assert (Elw : locked (wl st) = false) by (destruct (locked (wl st)); cbn in Gw; [lia|reflexivity]).
  destruct (waiters (wl st)) as [|e r] eqn:Eww.
  - (* nobody waits for the write mutex: nobody holds the read mutex *)
    assert (Hnw : forall u tk, nth_error (tasks st) u = Some tk -> is_waitWL (tpc tk) = false).
    { intros u tk Hu. destruct (is_waitWL (tpc tk)) eqn:Ex; [|reflexivity].
      destruct (g_qw _ HI) as (_ & Hq). assert (Hin : In u (tids (wl st))) by (apply Hq; eauto).
      unfold tids in Hin. rewrite Eww in Hin. destruct Hin. }
    assert (Ehr : cnt is_holdRL (tasks st) = 0).
    { apply cnt_zero. intros u tk Hu. specialize (Hnw u tk Hu). specialize (Hst u tk Hu).
      destruct (tpc tk); cbn in *; congruence. }
    rewrite Ehr in Gr.
    assert (Elr : locked (rl st) = false) by (destruct (locked (rl st)); cbn in Gr; [lia|reflexivity]).
    destruct (waiters (rl st)) as [|e r] eqn:Erw.
    + (* nobody waits at all: t0 cannot be unfinished *)
      exfalso.
      assert (Hnr : is_waitRL (tpc tk0) = false).
      { destruct (is_waitRL (tpc tk0)) eqn:Ex; [|reflexivity].
        destruct (g_qr _ HI) as (_ & Hq). assert (Hin : In t0 (tids (rl st))) by (apply Hq; eauto).
        unfold tids in Hin. rewrite Erw in Hin. destruct Hin. }
      pose proof (Hnw _ _ H0) as Hw0. pose proof (Hst _ _ H0) as Hs0.
      assert (Hc : forall f, f (tpc tk0) = true -> cnt f (tasks st) = 0 -> False)
        by (intros f Hf Hz; pose proof (cnt_pos f _ _ _ H0 Hf); lia).
      destruct (tpc tk0) eqn:Ep; cbn in *; try discriminate.
      * apply (Hc is_start); [reflexivity|exact Es].
      * apply (Hc is_inR); [reflexivity|exact Er].
      * apply (Hc is_inW); [reflexivity|exact Ew].
    + destruct (free_head_ready _ (g_mr _ HI) Elr) as (u & Hin & Hr); [rewrite Erw; discriminate|].
      destruct (g_qr _ HI) as (_ & Hq). apply Hq in Hin as (tk & Hu & Hx).
      exists u. unfold enabled. rewrite Hu. destruct (tpc tk); cbn in Hx; try discriminate. exact Hr.
  - destruct (free_head_ready _ (g_mw _ HI) Elw) as (u & Hin & Hr); [rewrite Eww; discriminate|].
    destruct (g_qw _ HI) as (_ & Hq). apply Hq in Hin as (tk & Hu & Hx).
    exists u. unfold enabled. rewrite Hu. destruct (tpc tk); cbn in Hx; try discriminate; exact Hr.
Qed.

(* ------------------------------------------------------------ a runnable task does run *)
Lemma leave_some st t p rest d : kind_of_pc p <> None -> exists r, leave st t p rest d = Some r.
Proof. unfold leave. destruct (kind_of_pc p); [eexists; reflexivity|congruence]. Qed.

Lemma at_cs_some st t a rest p : (exists k, p = AtR k \/ p = AtW k) ->
  exists r, at_cs st t a rest p = Some r.
Proof.
  intros (k & [->| ->]); destruct k; cbn [at_cs]; try (eexists; reflexivity);
    apply leave_some; discriminate.
Qed.

Lemma enter_some st t k a rest : exists r, enter st t k a rest = Some r.
Proof.
  unfold enter.
  destruct (at_cs_some (set_task st t (mkTask (a :: rest) (match k with KR => AtR (ay a) | KW => AtW (ay a) end) false))
              t a rest (match k with KR => AtR (ay a) | KW => AtW (ay a) end)) as ([s e] & ->).
  - exists (ay a). destruct k; auto.
  - eexists; reflexivity.
Qed.

Lemma hold_both_some st t a rest : exists r, hold_both st t a rest = Some r.
Proof. apply enter_some. Qed.

Lemma hold_rl_some st t a rest : exists r, hold_rl st t a rest = Some r.
Proof.
  unfold hold_rl. destruct (counter st); [|apply hold_both_some].
  destruct (m_acquire (wl st) t) as [[] m]; [apply hold_both_some|eexists; reflexivity].
Qed.

Lemma begin_some st t a rest : exists r, begin Fixed st t a rest = Some r.
Proof.
  unfold begin. destruct (ak a).
  - destruct (m_acquire (rl st) t) as [[] m]; [apply hold_rl_some|eexists; reflexivity].
  - destruct (m_acquire (wl st) t) as [[] m]; [apply enter_some|eexists; reflexivity].
Qed.

Lemma enabled_run st t : Inv st -> enabled st t = true -> exists r, run Fixed st t = Some r.
Proof.
  intros (HI & _) En. unfold run. rewrite En. cbn [negb]. unfold enabled in En.
  destruct (nth_error (tasks st) t) as [tk|] eqn:Hn; [|discriminate].
  pose proof (g_prog _ HI _ _ Hn) as Hp.
  destruct (tpc tk) eqn:Ep; try discriminate.
  - destruct (mc tk); [eexists; reflexivity|]. destruct (prog tk); [eexists; reflexivity|apply begin_some].
  - destruct (prog tk) as [|a rest]; [exfalso; apply Hp; reflexivity|].
    destruct (cancelled_at (rl st) t tk); [eexists; reflexivity|apply hold_rl_some].
  - destruct (prog tk) as [|a rest]; [exfalso; apply Hp; reflexivity|].
    destruct (cancelled_at (wl st) t tk); [eexists; reflexivity|apply hold_both_some].
  - destruct (prog tk) as [|a rest]; [exfalso; apply Hp; reflexivity|].
    destruct (mc tk); [apply leave_some; discriminate|apply at_cs_some; eauto].
  - destruct (prog tk) as [|a rest]; [exfalso; apply Hp; reflexivity|].
    destruct (cancelled_at (wl st) t tk); [eexists; reflexivity|apply enter_some].
  - destruct (prog tk) as [|a rest]; [exfalso; apply Hp; reflexivity|].
    destruct (mc tk); [apply leave_some; discriminate|apply at_cs_some; eauto].
Qed.

(* ------------------------------------------------------------ cancellation *)
Lemma wst_of_cancel m t :
  wst_of (waiters m) t = Some Pending -> wst_of (waiters (m_cancel m t)) t = Some Cancelled.
Proof.
  unfold m_cancel; cbn [waiters]. induction (waiters m) as [|[u s] r IH]; cbn; [discriminate|].
  destruct (Nat.eqb_spec u t) as [->|Hne]; cbn.
  - intro E; inversion E; subst. cbn. rewrite Nat.eqb_refl. reflexivity.
  - rewrite (proj2 (Nat.eqb_neq u t) Hne). exact IH.
Qed.

(* the task will get CancelledError at its next step *)
Definition doomed (st : state) (t : nat) (tk : task) : Prop :=
  mc tk = true \/
  (tpc tk = WaitRL /\ wst_of (waiters (rl st)) t = Some Cancelled) \/
  (is_waitWL (tpc tk) = true /\ wst_of (waiters (wl st)) t = Some Cancelled).

Lemma dead_at st t tk x : nth_error (tasks st) t = Some tk ->
  exists tk', nth_error (tasks (set_task st t (mkTask x Dead false))) t = Some tk' /\ tpc tk' = Dead.
Proof.
  intro Hn. eexists; split; [cbn [tasks set_task]; eapply nth_error_upd_same; exact Hn|reflexivity].
Qed.

Lemma doomed_dies st t tk st2 ev :
  nth_error (tasks st) t = Some tk -> doomed st t tk ->
  run Fixed st t = Some (st2, ev) ->
  exists tk', nth_error (tasks st2) t = Some tk' /\ tpc tk' = Dead.
Proof.
  intros Hn Hd H. unfold run in H. destruct (enabled st t); cbn [negb] in H; [|discriminate].
  rewrite Hn in H.
  assert (Hc1 : tpc tk = WaitRL -> cancelled_at (rl st) t tk = true).
  { intro Ep. unfold cancelled_at. destruct Hd as [->|[(_ & ->)|(Hx & _)]]; [reflexivity|apply orb_true_r|].
    rewrite Ep in Hx; discriminate. }
  assert (Hc2 : is_waitWL (tpc tk) = true -> cancelled_at (wl st) t tk = true).
  { intro Ep. unfold cancelled_at. destruct Hd as [->|[(Hx & _)|(_ & ->)]]; [reflexivity| |apply orb_true_r].
    rewrite Hx in Ep; discriminate. }
  assert (Hc3 : stable (tpc tk) = true -> is_waitRL (tpc tk) = false -> is_waitWL (tpc tk) = false -> mc tk = true).
  { intros _ Ha Hb. destruct Hd as [Hm|[(Hx & _)|(Hx & _)]]; [exact Hm|rewrite Hx in Ha; discriminate|congruence]. }
  destruct (tpc tk) eqn:Ep; try discriminate.
  - rewrite Hc3 in H by reflexivity. injection H as <- _. unfold die. eapply dead_at; exact Hn.
  - destruct (prog tk) as [|a rest]; [discriminate|]. rewrite Hc1 in H by reflexivity.
    injection H as <- _. unfold die. eapply (dead_at (set_rl st _)); exact Hn.
  - destruct (prog tk) as [|a rest]; [discriminate|]. rewrite Hc2 in H by reflexivity.
    injection H as <- _. unfold die. eapply (dead_at (release_rl (set_wl st _))); exact Hn.
  - destruct (prog tk) as [|a rest]; [discriminate|]. rewrite Hc3 in H by reflexivity.
    unfold leave in H. cbn [kind_of_pc] in H. injection H as <- _.
    eapply (dead_at (unlock_r st)). unfold unlock_r, release_wl. destruct (counter st) as [|[|n]]; exact Hn.
  - destruct (prog tk) as [|a rest]; [discriminate|]. rewrite Hc2 in H by reflexivity.
    injection H as <- _. unfold die. eapply (dead_at (set_wl st _)); exact Hn.
  - destruct (prog tk) as [|a rest]; [discriminate|]. rewrite Hc3 in H by reflexivity.
    unfold leave in H. cbn [kind_of_pc] in H. injection H as <- _.
    eapply (dead_at (unlock_w st)). exact Hn.
Qed.

Lemma cancel_dooms st t : Inv st -> unfinished st t ->
  enabled (cancel st t) t = true /\
  exists tk, nth_error (tasks (cancel st t)) t = Some tk /\ doomed (cancel st t) t tk.
Proof.
  intros (HI & Hst) (tk & Hn & Hl). unfold cancel. rewrite Hn.
  pose proof (Hst _ _ Hn) as Hs.
  assert (Hflag : (is_start (tpc tk) || is_inR (tpc tk) || is_inW (tpc tk) = true \/
                   (tpc tk = WaitRL /\ ready_wst (wst_of (waiters (rl st)) t) = true) \/
                   (is_waitWL (tpc tk) = true /\ ready_wst (wst_of (waiters (wl st)) t) = true)) ->
          enabled (set_task st t (mkTask (prog tk) (tpc tk) true)) t = true /\
          exists tk', nth_error (tasks (set_task st t (mkTask (prog tk) (tpc tk) true))) t = Some tk' /\
                      doomed (set_task st t (mkTask (prog tk) (tpc tk) true)) t tk').
  { intro Hc. split.
    - unfold enabled. cbn [tasks set_task rl wl]. rewrite (nth_error_upd_same _ _ _ _ Hn). cbn [tpc].
      destruct Hc as [Hc|[(Ep & Hr)|(Ep & Hr)]].
      + destruct (tpc tk); cbn in *; congruence.
      + rewrite Ep. exact Hr.
      + destruct (tpc tk); cbn in Ep; try discriminate; exact Hr.
    - eexists. split; [cbn [tasks set_task]; eapply nth_error_upd_same; exact Hn|]. left. reflexivity. }
  destruct (tpc tk) eqn:Ep; cbn in Hl, Hs; try discriminate;
    try (apply Hflag; left; reflexivity).
  - (* WaitRL *)
    destruct (g_qr _ HI) as (_ & Hq).
    assert (Hin : In t (tids (rl st))) by (apply Hq; exists tk; rewrite Ep; auto).
    apply In_wst_of in Hin as (s & Hw). rewrite Hw. destruct s.
    + split.
      * unfold enabled. cbn [tasks set_rl rl]. rewrite Hn, Ep. rewrite (wst_of_cancel _ _ Hw). reflexivity.
      * exists tk. split; [exact Hn|]. right; left. split; [exact Ep|]. cbn [set_rl rl]. apply wst_of_cancel. exact Hw.
    + apply Hflag. right; left. rewrite Hw. auto.
    + apply Hflag. right; left. rewrite Hw. auto.
  - (* WaitWLr *)
    destruct (g_qw _ HI) as (_ & Hq).
    assert (Hin : In t (tids (wl st))) by (apply Hq; exists tk; rewrite Ep; auto).
    apply In_wst_of in Hin as (s & Hw). rewrite Hw. destruct s.
    + split.
      * unfold enabled. cbn [tasks set_wl wl]. rewrite Hn, Ep. rewrite (wst_of_cancel _ _ Hw). reflexivity.
      * exists tk. split; [exact Hn|]. right; right. split; [rewrite Ep; reflexivity|]. cbn [set_wl wl]. apply wst_of_cancel. exact Hw.
    + apply Hflag. right; right. rewrite Hw. auto.
    + apply Hflag. right; right. rewrite Hw. auto.
  - (* WaitWLw *)
    destruct (g_qw _ HI) as (_ & Hq).
    assert (Hin : In t (tids (wl st))) by (apply Hq; exists tk; rewrite Ep; auto).
    apply In_wst_of in Hin as (s & Hw). rewrite Hw. destruct s.
    + split.
      * unfold enabled. cbn [tasks set_wl wl]. rewrite Hn, Ep. rewrite (wst_of_cancel _ _ Hw). reflexivity.
      * exists tk. split; [exact Hn|]. right; right. split; [rewrite Ep; reflexivity|]. cbn [set_wl wl]. apply wst_of_cancel. exact Hw.
    + apply Hflag. right; right. rewrite Hw. auto.
    + apply Hflag. right; right. rewrite Hw. auto.
Qed.

(* cancelling any unfinished task: it is runnable, its next step ends it, and
   the invariant (hence exclusion and deadlock freedom) holds afterwards *)
Lemma cancel_ok st t : Inv st -> unfinished st t ->
  exists st2 ev, run Fixed (cancel st t) t = Some (st2, ev) /\ Inv st2 /\
                 exists tk, nth_error (tasks st2) t = Some tk /\ tpc tk = Dead.
Proof.
  intros HI Hu. destruct (cancel_dooms _ _ HI Hu) as (En & tk & Hn & Hd).
  pose proof (cancel_inv _ t HI) as HI1.
  destruct (enabled_run _ _ HI1 En) as ([st2 ev] & Hr).
  exists st2, ev. split; [exact Hr|]. split; [eapply run_inv; eauto|eapply doomed_dies; eauto].
Qed.

(* ------------------------------------------------------------ the pre-fix algorithm *)
Definition acq_ (k : kind) (y : nat) : acq := mkAcq k y false.

(* writer inside, first reader queued on the write mutex, second reader walks in *)
Lemma old_second_reader :
  exists progs sched st ev,
    exec Old (init progs) sched = Some (st, ev) /\ writers_in st = 1 /\ readers_in st = 1.
Proof.
  exists [[acq_ KW 2]; [acq_ KR 1]; [acq_ KR 1]], [Run 0; Run 1; Run 2].
  eexists. eexists. split; [vm_compute; reflexivity|split; reflexivity].
Qed.

(* a queued first reader is cancelled: the counter stays at 1 for good, later
   readers never take the write mutex again *)
Lemma old_cancel_breaks :
  exists progs sched st ev,
    exec Old (init progs) sched = Some (st, ev) /\ writers_in st = 1 /\ readers_in st = 1 /\
    counter st = 2 /\ waiters (wl st) = [].
Proof.
  exists [[acq_ KW 1; acq_ KW 1]; [acq_ KR 1]; [acq_ KR 3]],
         [Run 0; Run 1; Cancel 1; Run 1; Run 0; Run 0; Run 2].
  eexists. eexists. split; [vm_compute; reflexivity|repeat split; reflexivity].
Qed.

(* the same two schedules on the fixed algorithm *)
Example fixed_second_reader_waits :
  exists st ev, exec Fixed (init [[acq_ KW 2]; [acq_ KR 1]; [acq_ KR 1]]) [Run 0; Run 1; Run 2] = Some (st, ev)
                /\ writers_in st = 1 /\ readers_in st = 0 /\ tids (rl st) = [2] /\ tids (wl st) = [1].
Proof. eexists. eexists. split; [vm_compute; reflexivity|repeat split; reflexivity]. Qed.

(* ------------------------------------------------------------ statements over whole schedules *)
Lemma exec_app al sched1 : forall st sched2 st1 ev1,
  exec al st sched1 = Some (st1, ev1) ->
  exec al st (sched1 ++ sched2) =
  match exec al st1 sched2 with Some (st2, ev2) => Some (st2, ev1 ++ ev2) | None => None end.
Proof.
  induction sched1 as [|l r IH]; intros st sched2 st1 ev1 H; cbn [exec app] in *.
  - injection H as <- <-. destruct (exec al st sched2) as [[s e]|]; reflexivity.
  - destruct (step al st l) as [[sa ea]|]; [|discriminate].
    destruct (exec al sa r) as [[sb eb]|] eqn:Er; [|discriminate].
    injection H as <- <-. rewrite (IH _ sched2 _ _ Er).
    destruct (exec al sb sched2) as [[s e]|]; [rewrite app_assoc|]; reflexivity.
Qed.

Lemma reach_inv progs sched st ev : exec Fixed (init progs) sched = Some (st, ev) -> Inv st.
Proof. intro H. eapply exec_inv; [apply init_inv|exact H]. Qed.

Lemma excl_thm progs sched st ev :
  exec Fixed (init progs) sched = Some (st, ev) ->
  writers_in st <= 1 /\ (writers_in st = 1 -> readers_in st = 0).
Proof. intro H. apply inv_excl. eapply reach_inv; exact H. Qed.

Lemma no_error_thm progs sched st ev :
  exec Fixed (init progs) sched = Some (st, ev) -> err st = false.
Proof. intro H. apply reach_inv in H as (HI & _). apply (g_err _ HI). Qed.

Lemma no_deadlock_thm progs sched st ev :
  exec Fixed (init progs) sched = Some (st, ev) ->
  (exists t, unfinished st t) ->
  exists t st' ev', enabled st t = true /\ step Fixed st (Run t) = Some (st', ev').
Proof.
  intros H Hu. pose proof (reach_inv _ _ _ _ H) as HI.
  destruct (no_deadlock _ HI Hu) as (t & En). destruct (enabled_run _ _ HI En) as ([st' ev'] & Hr).
  exists t, st', ev'. split; [exact En|exact Hr].
Qed.

Lemma cancel_ok_thm progs sched st ev t :
  exec Fixed (init progs) sched = Some (st, ev) -> unfinished st t ->
  exists st2 ev2,
    exec Fixed (init progs) (sched ++ [Cancel t; Run t]) = Some (st2, ev2) /\
    (exists tk, nth_error (tasks st2) t = Some tk /\ tpc tk = Dead) /\
    ~ In t (tids (rl st2)) /\ ~ In t (tids (wl st2)).
Proof.
  intros H Hu. pose proof (reach_inv _ _ _ _ H) as HI.
  destruct (cancel_ok _ _ HI Hu) as (st2 & ev2 & Hr & HI2 & tk & Hn & Hd).
  exists st2, (ev ++ ev2). split.
  - rewrite (exec_app _ _ _ _ _ _ H). cbn [exec step]. rewrite Hr. rewrite app_nil_r. reflexivity.
  - split; [exists tk; split; assumption|]. destruct HI2 as (HG & _).
    split; intro Hin.
    + apply (proj2 (g_qr _ HG)) in Hin as (tk' & Hn' & Hx). rewrite Hn in Hn'. inversion Hn'; subst.
      rewrite Hd in Hx. discriminate.
    + apply (proj2 (g_qw _ HG)) in Hin as (tk' & Hn' & Hx). rewrite Hn in Hn'. inversion Hn'; subst.
      rewrite Hd in Hx. discriminate.
Qed.

(* the hypotheses are satisfiable by a run with contention, queueing on both
   mutexes, a cancellation and a hand-over *)
Example fixed_run_example :
  exists st ev,
    exec Fixed (init [[acq_ KW 1; acq_ KR 0]; [acq_ KR 1]; [acq_ KR 1]; [acq_ KW 0]])
         [Run 0; Run 1; Run 2; Run 3; Cancel 2; Run 0; Run 1; Run 2; Run 1; Run 3; Run 0] = Some (st, ev)
    /\ ev = [Enter KW 0; Exit KW 0; Enter KR 1; Exit KR 1; Enter KW 3; Exit KW 3; Enter KR 0; Exit KR 0].
Proof. eexists. eexists. split; [vm_compute; reflexivity|reflexivity]. Qed.

(* ------------------------------------------------------------ termination *)
Lemma sum_upd ts t old new :
  nth_error ts t = Some old ->
  list_sum (map tm (upd ts t new)) + tm old = list_sum (map tm ts) + tm new.
Proof.
  revert t; induction ts as [|y r IH]; intros [|t] H; cbn [nth_error upd map list_sum fold_right] in *; try discriminate.
  - inversion H; subst. lia.
  - specialize (IH t H). unfold list_sum in IH. lia.
Qed.

Lemma pm_pos p : 1 <= pm p.
Proof. destruct p; cbn; lia. Qed.

(* the task that t ends up as has a budget of at most b *)
Definition fin_le (st' : state) (t : nat) (b : nat) : Prop :=
  exists new, nth_error (tasks st') t = Some new /\ tm new <= b.

Lemma fin_set st t x b old :
  nth_error (tasks st) t = Some old -> tm x <= b -> fin_le (set_task st t x) t b.
Proof.
  intros Hn Hb. exists x. split; [cbn [tasks set_task]; eapply nth_error_upd_same; exact Hn|exact Hb].
Qed.

Lemma leave_fin st t p rest d st' ev old :
  nth_error (tasks st) t = Some old -> leave st t p rest d = Some (st', ev) -> fin_le st' t (pm rest).
Proof.
  intros Hn H. unfold leave in H. destruct (kind_of_pc p) as [k|]; [|discriminate].
  injection H as <- _. eapply fin_set.
  - destruct k; unfold unlock_r, unlock_w, release_wl; [destruct (counter st) as [|[|n]]|]; exact Hn.
  - destruct d; cbn; lia.
Qed.

Lemma at_cs_fin st t a rest p k st' ev old :
  nth_error (tasks st) t = Some old -> (p = AtR k \/ p = AtW k) ->
  at_cs st t a rest p = Some (st', ev) -> fin_le st' t (k + pm rest).
Proof.
  intros Hn Hp H. destruct Hp as [-> | ->]; destruct k; cbn [at_cs] in H.
  - destruct (leave_fin _ _ _ _ _ _ _ _ Hn H) as (x & Hx & Hb). exists x; split; [exact Hx|lia].
  - injection H as <- _. eapply fin_set; [exact Hn|cbn; lia].
  - destruct (leave_fin _ _ _ _ _ _ _ _ Hn H) as (x & Hx & Hb). exists x; split; [exact Hx|lia].
  - injection H as <- _. eapply fin_set; [exact Hn|cbn; lia].
Qed.

Lemma enter_fin st t k a rest st' ev old :
  nth_error (tasks st) t = Some old -> enter st t k a rest = Some (st', ev) ->
  fin_le st' t (ay a + pm rest).
Proof.
  intros Hn H. unfold enter in H. apply cons_ev_some in H as (ev0 & H).
  destruct k.
  - eapply (at_cs_fin _ t a rest (AtR (ay a)) (ay a) st' ev0); [|left; reflexivity|exact H].
    cbn [tasks set_task]. eapply nth_error_upd_same; exact Hn.
  - eapply (at_cs_fin _ t a rest (AtW (ay a)) (ay a) st' ev0); [|right; reflexivity|exact H].
    cbn [tasks set_task]. eapply nth_error_upd_same; exact Hn.
Qed.

Lemma hold_both_fin st t a rest st' ev old :
  nth_error (tasks st) t = Some old -> hold_both st t a rest = Some (st', ev) ->
  fin_le st' t (ay a + pm rest).
Proof. intros Hn H. unfold hold_both in H. eapply enter_fin; [|exact H]. exact Hn. Qed.

Lemma hold_rl_fin st t a rest st' ev old :
  nth_error (tasks st) t = Some old -> hold_rl st t a rest = Some (st', ev) ->
  fin_le st' t (ay a + 2 + pm rest).
Proof.
  intros Hn H. unfold hold_rl in H.
  assert (Hup : forall s x, tasks s = tasks st -> exists o, nth_error (tasks (set_task s t x)) t = Some o).
  { intros s x Hs. eexists. cbn [tasks set_task]. rewrite Hs. eapply nth_error_upd_same; exact Hn. }
  destruct (counter st).
  - destruct (m_acquire (wl st) t) as [[] m].
    + destruct (Hup (set_wl st m) (mkTask (a :: rest) HoldBoth false) eq_refl) as (o & Ho).
      destruct (hold_both_fin _ _ _ _ _ _ _ Ho H) as (x & Hx & Hb). exists x; split; [exact Hx|lia].
    + injection H as <- _. eapply (fin_set (set_wl st m)); [exact Hn|cbn; lia].
  - destruct (Hup st (mkTask (a :: rest) HoldBoth false) eq_refl) as (o & Ho).
    destruct (hold_both_fin _ _ _ _ _ _ _ Ho H) as (x & Hx & Hb). exists x; split; [exact Hx|lia].
Qed.

Lemma begin_fin st t a rest st' ev old :
  nth_error (tasks st) t = Some old -> begin Fixed st t a rest = Some (st', ev) ->
  fin_le st' t (ay a + 3 + pm rest).
Proof.
  intros Hn H. unfold begin in H. destruct (ak a).
  - destruct (m_acquire (rl st) t) as [[] m].
    + assert (Ho : nth_error (tasks (set_task (set_rl st m) t (mkTask (a :: rest) HoldRL false))) t
                   = Some (mkTask (a :: rest) HoldRL false))
        by (cbn [tasks set_task set_rl]; eapply nth_error_upd_same; exact Hn).
      destruct (hold_rl_fin _ _ _ _ _ _ _ Ho H) as (x & Hx & Hb). exists x; split; [exact Hx|lia].
    + injection H as <- _. eapply (fin_set (set_rl st m)); [exact Hn|cbn; lia].
  - destruct (m_acquire (wl st) t) as [[] m].
    + destruct (enter_fin (set_wl st m) _ _ _ _ _ _ _ Hn H) as (x & Hx & Hb). exists x; split; [exact Hx|lia].
    + injection H as <- _. eapply (fin_set (set_wl st m)); [exact Hn|cbn; lia].
Qed.

Lemma run_fin st t tk st' ev :
  nth_error (tasks st) t = Some tk -> run Fixed st t = Some (st', ev) ->
  exists new, nth_error (tasks st') t = Some new /\ tm new < tm tk.
Proof.
  intros Hn H. unfold run in H. destruct (enabled st t); cbn [negb] in H; [|discriminate].
  rewrite Hn in H. unfold tm at 2.
  assert (Hdie : forall s, tasks s = tasks st -> fin_le (die s t tk) t 0).
  { intros s Hs. unfold die. eapply fin_set; [rewrite Hs; exact Hn|cbn; lia]. }
  destruct (tpc tk) eqn:Ep; try discriminate.
  - pose proof (pm_pos (prog tk)) as Hp. destruct (mc tk).
    + injection H as <- _. destruct (Hdie st eq_refl) as (x & Hx & Hb). exists x; split; [exact Hx|lia].
    + destruct (prog tk) as [|a rest].
      * injection H as <- _. eexists; split; [cbn [tasks set_task]; eapply nth_error_upd_same; exact Hn|cbn; lia].
      * destruct (begin_fin _ _ _ _ _ _ _ Hn H) as (x & Hx & Hb). exists x; split; [exact Hx|cbn [pm]; lia].
  - destruct (prog tk) as [|a rest]; [discriminate|]. destruct (cancelled_at (rl st) t tk).
    + injection H as <- _. destruct (Hdie (set_rl st (m_resume (rl st) t true)) eq_refl) as (x & Hx & Hb).
      exists x; split; [exact Hx|lia].
    + assert (Ho : nth_error (tasks (set_task (set_rl st (m_resume (rl st) t false)) t (mkTask (a :: rest) HoldRL false))) t
                   = Some (mkTask (a :: rest) HoldRL false))
        by (cbn [tasks set_task set_rl]; eapply nth_error_upd_same; exact Hn).
      destruct (hold_rl_fin _ _ _ _ _ _ _ Ho H) as (x & Hx & Hb). exists x; split; [exact Hx|lia].
  - destruct (prog tk) as [|a rest]; [discriminate|]. destruct (cancelled_at (wl st) t tk).
    + injection H as <- _.
      destruct (Hdie (release_rl (set_wl st (m_resume (wl st) t true))) eq_refl) as (x & Hx & Hb).
      exists x; split; [exact Hx|lia].
    + assert (Ho : nth_error (tasks (set_task (set_wl st (m_resume (wl st) t false)) t (mkTask (a :: rest) HoldBoth false))) t
                   = Some (mkTask (a :: rest) HoldBoth false))
        by (cbn [tasks set_task set_wl]; eapply nth_error_upd_same; exact Hn).
      destruct (hold_both_fin _ _ _ _ _ _ _ Ho H) as (x & Hx & Hb). exists x; split; [exact Hx|lia].
  - destruct (prog tk) as [|a rest]; [discriminate|]. destruct (mc tk).
    + destruct (leave_fin _ _ _ _ _ _ _ _ Hn H) as (x & Hx & Hb). exists x; split; [exact Hx|lia].
    + assert (Ho : nth_error (tasks (set_task st t (mkTask (a :: rest) (AtR k) false))) t
                   = Some (mkTask (a :: rest) (AtR k) false))
        by (cbn [tasks set_task]; eapply nth_error_upd_same; exact Hn).
      destruct (at_cs_fin _ _ _ _ _ k _ _ _ Ho (or_introl eq_refl) H) as (x & Hx & Hb).
      exists x; split; [exact Hx|lia].
  - destruct (prog tk) as [|a rest]; [discriminate|]. destruct (cancelled_at (wl st) t tk).
    + injection H as <- _. destruct (Hdie (set_wl st (m_resume (wl st) t true)) eq_refl) as (x & Hx & Hb).
      exists x; split; [exact Hx|lia].
    + destruct (enter_fin (set_wl st (m_resume (wl st) t false)) _ _ _ _ _ _ _ Hn H) as (x & Hx & Hb).
      exists x; split; [exact Hx|lia].
  - destruct (prog tk) as [|a rest]; [discriminate|]. destruct (mc tk).
    + destruct (leave_fin _ _ _ _ _ _ _ _ Hn H) as (x & Hx & Hb). exists x; split; [exact Hx|lia].
    + assert (Ho : nth_error (tasks (set_task st t (mkTask (a :: rest) (AtW k) false))) t
                   = Some (mkTask (a :: rest) (AtW k) false))
        by (cbn [tasks set_task]; eapply nth_error_upd_same; exact Hn).
      destruct (at_cs_fin _ _ _ _ _ k _ _ _ Ho (or_intror eq_refl) H) as (x & Hx & Hb).
      exists x; split; [exact Hx|lia].
Qed.

Lemma run_measure st t st' ev : Inv st -> run Fixed st t = Some (st', ev) -> measure st' < measure st.
Proof.
  intros (HI & Hst) H.
  destruct (enabled st t) eqn:En; [|unfold run in H; rewrite En in H; discriminate].
  destruct (nth_error (tasks st) t) as [tk|] eqn:Hn;
    [|unfold enabled in En; rewrite Hn in En; discriminate].
  destruct (run_good _ _ _ _ _ HI (Stable_SE _ t Hst) Hn En H) as (_ & new & Ht & _).
  destruct (run_fin _ _ _ _ _ Hn H) as (x & Hx & Hlt).
  rewrite Ht, (nth_error_upd_same _ _ _ _ Hn) in Hx. inversion Hx; subst x.
  unfold measure. rewrite Ht. pose proof (sum_upd _ _ _ new Hn). lia.
Qed.

Lemma cancel_measure st t : measure (cancel st t) = measure st.
Proof.
  unfold cancel. destruct (nth_error (tasks st) t) as [tk|] eqn:Hn; [|reflexivity].
  assert (Hf : measure (set_task st t (mkTask (prog tk) (tpc tk) true)) = measure st).
  { unfold measure. cbn [tasks set_task]. pose proof (sum_upd _ _ _ (mkTask (prog tk) (tpc tk) true) Hn) as Hs.
    assert (E : tm (mkTask (prog tk) (tpc tk) true) = tm tk) by reflexivity. lia. }
  destruct (tpc tk); try reflexivity; try exact Hf.
  - destruct (wst_of (waiters (rl st)) t) as [[]|]; try exact Hf; reflexivity.
  - destruct (wst_of (waiters (wl st)) t) as [[]|]; try exact Hf; reflexivity.
  - destruct (wst_of (waiters (wl st)) t) as [[]|]; try exact Hf; reflexivity.
Qed.

Lemma exec_measure sched : forall st st' ev, Inv st -> exec Fixed st sched = Some (st', ev) ->
  run_steps sched + measure st' <= measure st.
Proof.
  induction sched as [|l r IH]; intros st st' ev HI H; cbn [exec] in H.
  - injection H as <- _. cbn. lia.
  - destruct (step Fixed st l) as [[st1 ev1]|] eqn:Es; [|discriminate].
    destruct (exec Fixed st1 r) as [[st2 ev2]|] eqn:Ee; [|discriminate].
    injection H as <- _. pose proof (step_inv _ _ _ _ HI Es) as HI1.
    specialize (IH _ _ _ HI1 Ee). destruct l as [t|t]; cbn [step run_steps] in *.
    + pose proof (run_measure _ _ _ _ HI Es). lia.
    + injection Es as <- _. rewrite cancel_measure in IH. lia.
Qed.

Lemma terminates_thm progs sched st ev :
  exec Fixed (init progs) sched = Some (st, ev) ->
  run_steps sched + measure st <= measure (init progs).
Proof. intro H. eapply exec_measure; [apply init_inv|exact H]. Qed.
