(* Sync/RWLockProofs.v -- proofs about the Fixed read-write lock of Sync/RWLock.v:
   an inductive invariant over every interleaving and every cancellation point,
   for any number of tasks and any programs. *)
From PV Require Import Base.Prelude Sync.RWLock.
Require Import Lia.

Definition b2n (b : bool) : nat := if b then 1 else 0.

(* ------------------------------------------------------------ list facts *)
Lemma nth_error_upd {A} (l : list A) i j x :
  nth_error (upd l i x) j =
  if Nat.eqb j i then match nth_error l i with Some _ => Some x | None => None end
  else nth_error l j.
Proof.
  revert i j; induction l as [|y r IH]; intros i j.
  - destruct i, j; cbn; try reflexivity; destruct (Nat.eqb j i); reflexivity.
  - destruct i as [|i], j as [|j]; cbn; try reflexivity. apply IH.
Qed.

Lemma nth_error_upd_same {A} (l : list A) i x old :
  nth_error l i = Some old -> nth_error (upd l i x) i = Some x.
Proof. intro H. rewrite nth_error_upd, Nat.eqb_refl, H. reflexivity. Qed.

Lemma nth_error_upd_other {A} (l : list A) i j x :
  j <> i -> nth_error (upd l i x) j = nth_error l j.
Proof. intro H. rewrite nth_error_upd. destruct (Nat.eqb_spec j i); congruence. Qed.

Lemma upd_upd {A} (l : list A) i x y : upd (upd l i x) i y = upd l i y.
Proof. revert i; induction l as [|z r IH]; intros [|i]; cbn; try reflexivity. now rewrite IH. Qed.

Lemma length_upd {A} (l : list A) i x : length (upd l i x) = length l.
Proof. revert i; induction l as [|z r IH]; intros [|i]; cbn; try reflexivity. now rewrite IH. Qed.

Lemma cnt_upd f ts t old new :
  nth_error ts t = Some old ->
  cnt f (upd ts t new) + b2n (f (tpc old)) = cnt f ts + b2n (f (tpc new)).
Proof.
  unfold cnt. revert t; induction ts as [|y r IH]; intros [|t] H; cbn in *; try discriminate.
  - inversion H; subst. destruct (f (tpc old)), (f (tpc new)); cbn; lia.
  - specialize (IH t H). destruct (f (tpc y)); cbn; lia.
Qed.

Lemma cnt_zero f ts :
  (forall u tk, nth_error ts u = Some tk -> f (tpc tk) = false) -> cnt f ts = 0.
Proof.
  unfold cnt. induction ts as [|y r IH]; intro H; cbn; [reflexivity|].
  rewrite (H 0 y eq_refl). apply IH. intros u tk Hu. exact (H (S u) tk Hu).
Qed.

Lemma cnt_pos f ts u tk :
  nth_error ts u = Some tk -> f (tpc tk) = true -> 1 <= cnt f ts.
Proof.
  unfold cnt. revert u; induction ts as [|y r IH]; intros [|u] H Hf; cbn in *; try discriminate.
  - inversion H; subst. rewrite Hf. cbn. lia.
  - specialize (IH u H Hf). destruct (f (tpc y)); cbn; lia.
Qed.

Lemma cnt_pos_inv f ts : 1 <= cnt f ts -> exists u tk, nth_error ts u = Some tk /\ f (tpc tk) = true.
Proof.
  unfold cnt. induction ts as [|y r IH]; cbn; intro H; [lia|].
  destruct (f (tpc y)) eqn:E.
  - exists 0, y. split; [reflexivity|exact E].
  - destruct (IH H) as (u & tk & Hu & Hf). exists (S u), tk. split; assumption.
Qed.

(* ------------------------------------------------------------ the mutex *)
Definition no_woken (ws : list (nat * wst)) : Prop := forall e, In e ws -> snd e <> Woken.

(* Woken only at the head, and then the lock is free; a free lock with waiters
   has a first waiter whose future is done *)
Definition minv (m : mutex) : Prop :=
  match waiters m with
  | [] => True
  | (t, s) :: r => no_woken r /\ (s = Woken -> locked m = false) /\ (locked m = false -> s <> Pending)
  end.

Definition tids (m : mutex) : list nat := map fst (waiters m).

Lemma minv_no_woken b ws : no_woken ws -> (b = false -> match ws with (_, Pending) :: _ => False | _ => True end) ->
  minv (mkMutex b ws).
Proof.
  intros H Hp. unfold minv; cbn. destruct ws as [|[t s] r]; [exact I|].
  split; [|split].
  - intros e He. apply H. right; exact He.
  - intro E. exfalso. apply (H (t, s)); [left; reflexivity|exact E].
  - intros Eb E. subst s. exact (Hp Eb).
Qed.

Lemma all_cancelled_no_woken ws : all_cancelled ws = true -> no_woken ws.
Proof.
  unfold all_cancelled, no_woken. intros H e He.
  rewrite forallb_forall in H. specialize (H e He). destruct (snd e); discriminate || congruence.
Qed.

Lemma acquire_fast m t m' : m_acquire m t = (true, m') ->
  locked m = false /\ all_cancelled (waiters m) = true /\ m' = mkMutex true (waiters m).
Proof.
  unfold m_acquire. destruct (locked m), (all_cancelled (waiters m)); cbn; intro H; inversion H; auto.
Qed.

Lemma acquire_slow m t m' : m_acquire m t = (false, m') ->
  m' = mkMutex (locked m) (waiters m ++ [(t, Pending)]) /\
  (locked m = true \/ all_cancelled (waiters m) = false).
Proof.
  unfold m_acquire. destruct (locked m), (all_cancelled (waiters m)); cbn; intro H; inversion H; auto.
Qed.

Lemma minv_acquire_fast m t m' : m_acquire m t = (true, m') -> minv m'.
Proof.
  intro H. apply acquire_fast in H as (_ & Hc & ->).
  apply minv_no_woken; [apply all_cancelled_no_woken; exact Hc|discriminate].
Qed.

Lemma minv_acquire_slow m t m' : minv m -> m_acquire m t = (false, m') -> minv m'.
Proof.
  intros Hm H. apply acquire_slow in H as (-> & Hs). unfold minv in *; cbn.
  destruct (waiters m) as [|[u s] r] eqn:E; cbn.
  - split; [intros e []|]. split; [discriminate|]. intros Hl _.
    destruct Hs as [Hs|Hs]; [congruence|discriminate].
  - destruct Hm as (H1 & H2 & H3). split; [|split; assumption].
    intros e He. apply in_app_or in He as [He|[<-|[]]]; [apply H1; exact He|cbn; discriminate].
Qed.

Lemma wake_first_fst ws : map fst (wake_first ws) = map fst ws.
Proof. destruct ws as [|[t []] r]; reflexivity. Qed.

Lemma wake_first_tl ws : tl (wake_first ws) = tl ws.
Proof. destruct ws as [|[t []] r]; reflexivity. Qed.

Lemma minv_wake ws : no_woken (tl ws) -> minv (mkMutex false (wake_first ws)).
Proof.
  intros H. unfold minv; cbn. destruct ws as [|[t s] r]; cbn; [exact I|].
  cbn in H. destruct s; cbn; (split; [exact H|split; [reflexivity || discriminate|intros _; discriminate]]).
Qed.

Lemma minv_tl m : minv m -> no_woken (tl (waiters m)).
Proof. unfold minv, no_woken. destruct (waiters m) as [|[t s] r]; cbn; [intros _ e []|intros (H & _); exact H]. Qed.

Lemma minv_release m : minv m -> minv (m_release m).
Proof. intro H. unfold m_release. apply minv_wake. apply minv_tl. exact H. Qed.

Lemma remove_subset t ws e : In e (remove_waiter t ws) -> In e ws.
Proof. unfold remove_waiter. intro H. apply filter_In in H. tauto. Qed.

Lemma wst_of_In ws t s : wst_of ws t = Some s -> In (t, s) ws.
Proof.
  induction ws as [|[u s0] r IH]; cbn; [discriminate|].
  destruct (Nat.eqb_spec u t); intro H.
  - inversion H; subst. left; reflexivity.
  - right. apply IH. exact H.
Qed.

Lemma In_wst_of ws t : In t (map fst ws) -> exists s, wst_of ws t = Some s.
Proof.
  induction ws as [|[u s0] r IH]; cbn; [intros []|].
  destruct (Nat.eqb_spec u t); intro H; [eexists; reflexivity|].
  destruct H as [H|H]; [contradiction|]. apply IH. exact H.
Qed.

Lemma In_tl {A} (e : A) l : In e (tl l) -> In e l.
Proof. destruct l; cbn; [intros []|intro H; right; exact H]. Qed.

Lemma tl_remove_no_woken t ws : no_woken (tl ws) -> no_woken (tl (remove_waiter t ws)).
Proof.
  unfold no_woken. destruct ws as [|[u s] r]; [intros _ e []|].
  intros H e He. change (tl ((u, s) :: r)) with r in H. apply H.
  unfold remove_waiter in He. cbn [filter fst] in He.
  destruct (negb (Nat.eqb u t)).
  - cbn [tl] in He. apply filter_In in He. tauto.
  - apply In_tl in He. apply filter_In in He. tauto.
Qed.

(* removing a Woken waiter (necessarily the head) leaves no Woken at all *)
Lemma remove_woken_no_woken m t : minv m -> wst_of (waiters m) t = Some Woken ->
  no_woken (remove_waiter t (waiters m)).
Proof.
  unfold minv. destruct (waiters m) as [|[u s] r]; cbn; [discriminate|].
  intros (H1 & _ & _). destruct (Nat.eqb_spec u t) as [Eu|Eu]; cbn.
  - intros _ x Hx. apply H1. eapply remove_subset. exact Hx.
  - intro Hw. apply wst_of_In in Hw. exfalso. apply (H1 _ Hw). reflexivity.
Qed.

Lemma minv_of_parts b ws :
  no_woken (tl ws) ->
  (forall t s, hd_error ws = Some (t, s) -> (s = Woken -> b = false) /\ (b = false -> s <> Pending)) ->
  minv (mkMutex b ws).
Proof.
  intros H1 H2. unfold minv; cbn [waiters locked]. destruct ws as [|[t s] r]; [exact I|].
  destruct (H2 t s eq_refl) as (Ha & Hb). split; [exact H1|split; assumption].
Qed.

Lemma hd_remove t ws e : hd_error (remove_waiter t ws) = Some e ->
  hd_error ws = Some e \/ In e (tl ws).
Proof.
  destruct ws as [|[u s] r]; [discriminate|].
  unfold remove_waiter. cbn [filter fst]. destruct (negb (Nat.eqb u t)); cbn [hd_error tl].
  - intro H; left; exact H.
  - intro H. right. destruct (filter _ r) as [|x y] eqn:E; [discriminate|].
    cbn in H. inversion H; subst x.
    assert (Hin : In e (filter (fun e0 : nat * wst => negb (Nat.eqb (fst e0) t)) r)) by (rewrite E; left; reflexivity).
    apply filter_In in Hin. tauto.
Qed.

Lemma minv_hd m t s : minv m -> hd_error (waiters m) = Some (t, s) ->
  (s = Woken -> locked m = false) /\ (locked m = false -> s <> Pending).
Proof.
  unfold minv. destruct (waiters m) as [|[u s0] r]; [discriminate|].
  intros (_ & H2 & H3) E. cbn in E. inversion E; subst. split; assumption.
Qed.

Lemma minv_resume m t c : minv m ->
  (c = false -> wst_of (waiters m) t = Some Woken) -> minv (m_resume m t c).
Proof.
  intros Hm Hc. unfold m_resume. destruct c.
  - destruct (locked m) eqn:El.
    + apply minv_of_parts; [apply tl_remove_no_woken, minv_tl; exact Hm|].
      intros u s Hh. split; [|discriminate]. intro Es. subst s.
      apply hd_remove in Hh as [Hh|Hh].
      * destruct (minv_hd _ _ _ Hm Hh) as (Ha & _). rewrite (Ha eq_refl) in El. discriminate.
      * exfalso. apply (minv_tl _ Hm _ Hh). reflexivity.
    + apply minv_wake. apply tl_remove_no_woken. apply minv_tl. exact Hm.
  - apply minv_no_woken; [|discriminate]. apply remove_woken_no_woken; auto.
Qed.

Lemma minv_cancel m t : minv m -> minv (m_cancel m t).
Proof.
  intro Hm. unfold m_cancel. apply minv_of_parts.
  - pose proof (minv_tl _ Hm) as Ht. unfold no_woken in *.
    destruct (waiters m) as [|[u s] r]; [intros e []|]. cbn [map tl] in *.
    intros e He. apply in_map_iff in He as (x & <- & Hx).
    destruct (Nat.eqb (fst x) t && is_pending (snd x)); cbn; [discriminate|apply Ht; exact Hx].
  - intros u s Hh. destruct (waiters m) as [|[u0 s0] r] eqn:E; [discriminate|].
    destruct (minv_hd m u0 s0 Hm) as (Ha & Hb); [rewrite E; reflexivity|].
    cbn in Hh. destruct (Nat.eqb u0 t && is_pending s0); inversion Hh; subst.
    + split; [discriminate|intros _; discriminate].
    + split; assumption.
Qed.

Lemma tids_release m : tids (m_release m) = tids m.
Proof. unfold tids, m_release; cbn. apply wake_first_fst. Qed.

Lemma tids_cancel m t : tids (m_cancel m t) = tids m.
Proof.
  unfold tids, m_cancel; cbn. rewrite map_map. apply map_ext. intros [u s]; cbn.
  destruct (Nat.eqb u t && is_pending s); reflexivity.
Qed.

Definition drop (t : nat) (q : list nat) : list nat := filter (fun u => negb (Nat.eqb u t)) q.

Lemma map_fst_remove t ws : map fst (remove_waiter t ws) = drop t (map fst ws).
Proof.
  unfold remove_waiter, drop. induction ws as [|[u s] r IH]; cbn; [reflexivity|].
  destruct (negb (Nat.eqb u t)); cbn; rewrite IH; reflexivity.
Qed.

Lemma tids_resume m t c : tids (m_resume m t c) = drop t (tids m).
Proof.
  unfold tids, m_resume. destruct c; [destruct (locked m)|]; cbn;
    rewrite ?wake_first_fst; apply map_fst_remove.
Qed.

Lemma locked_release m : locked (m_release m) = false.
Proof. reflexivity. Qed.
Lemma locked_cancel m t : locked (m_cancel m t) = locked m.
Proof. reflexivity. Qed.
Lemma locked_resume m t c : locked (m_resume m t c) = if c then locked m else true.
Proof. unfold m_resume. destruct c; [destruct (locked m)|]; reflexivity. Qed.

(* a Woken waiter proves the lock free *)
Lemma woken_unlocked m t : minv m -> wst_of (waiters m) t = Some Woken -> locked m = false.
Proof.
  unfold minv. destruct (waiters m) as [|[u s] r]; cbn; [discriminate|].
  intros (H1 & H2 & _). destruct (Nat.eqb_spec u t).
  - intro E. inversion E; subst. apply H2. reflexivity.
  - intro Hw. apply wst_of_In in Hw. exfalso. apply (H1 _ Hw). reflexivity.
Qed.

(* a free lock with waiters has a runnable first waiter *)
Lemma free_head_ready m : minv m -> locked m = false -> waiters m <> [] ->
  exists t, In t (tids m) /\ ready_wst (wst_of (waiters m) t) = true.
Proof.
  unfold minv, tids. destruct (waiters m) as [|[u s] r]; cbn; [congruence|].
  intros (_ & _ & H3) Hl _. exists u. split; [left; reflexivity|].
  rewrite Nat.eqb_refl. specialize (H3 Hl). destruct s; cbn; congruence.
Qed.

(* ------------------------------------------------------------ queues *)
Definition queue_ok (f : pc -> bool) (ts : list task) (q : list nat) : Prop :=
  NoDup q /\ forall t, In t q <-> exists tk, nth_error ts t = Some tk /\ f (tpc tk) = true.

Lemma drop_In t q u : In u (drop t q) <-> In u q /\ u <> t.
Proof.
  unfold drop. rewrite filter_In. destruct (Nat.eqb_spec u t); cbn; intuition congruence.
Qed.

Lemma has_upd f ts t old new u :
  nth_error ts t = Some old ->
  ((exists tk, nth_error (upd ts t new) u = Some tk /\ f (tpc tk) = true) <->
   (if Nat.eqb u t then f (tpc new) = true
    else exists tk, nth_error ts u = Some tk /\ f (tpc tk) = true)).
Proof.
  intro H. rewrite nth_error_upd, H. destruct (Nat.eqb u t); [|tauto].
  split; [intros (tk & E & Hf); inversion E; subst; exact Hf|intro Hf; eexists; split; [reflexivity|exact Hf]].
Qed.

Lemma q_same f ts q t old new :
  nth_error ts t = Some old -> f (tpc old) = f (tpc new) ->
  queue_ok f ts q -> queue_ok f (upd ts t new) q.
Proof.
  intros H Hf (Hn & Hq). split; [exact Hn|]. intro u.
  rewrite (has_upd f ts t old new u H), Hq. destruct (Nat.eqb_spec u t) as [->|Hu]; [|tauto].
  rewrite <- Hf. split; [intros (tk & E & Hx); congruence|intro Hx; eexists; split; [exact H|exact Hx]].
Qed.

Lemma q_add f ts q t old new :
  nth_error ts t = Some old -> f (tpc old) = false -> f (tpc new) = true ->
  queue_ok f ts q -> queue_ok f (upd ts t new) (q ++ [t]).
Proof.
  intros H Ho Hnw (Hn & Hq).
  assert (Hnot : ~ In t q) by (rewrite Hq; intros (tk & E & Hx); congruence).
  split.
  - apply NoDup_app_remove_l with (l := []) || idtac.
    rewrite <- (rev_involutive (q ++ [t])). apply NoDup_rev. rewrite rev_app_distr. cbn.
    constructor; [rewrite <- in_rev; exact Hnot|apply NoDup_rev; exact Hn].
  - intro u. rewrite (has_upd f ts t old new u H), in_app_iff, Hq. cbn.
    destruct (Nat.eqb_spec u t) as [->|Hu].
    + split; [intros _; exact Hnw|intros _; right; left; reflexivity].
    + split; [intros [Hx|[Hx|[]]]; [exact Hx|congruence]|intro Hx; left; exact Hx].
Qed.

Lemma q_del f ts q t old new :
  nth_error ts t = Some old -> f (tpc new) = false ->
  queue_ok f ts q -> queue_ok f (upd ts t new) (drop t q).
Proof.
  intros H Hnw (Hn & Hq). split; [apply NoDup_filter; exact Hn|]. intro u.
  rewrite (has_upd f ts t old new u H), drop_In, Hq.
  destruct (Nat.eqb_spec u t) as [->|Hu]; [|tauto].
  rewrite Hnw. split; [intros (_ & Hx); congruence|discriminate].
Qed.

Lemma drop_notin t q : ~ In t q -> drop t q = q.
Proof.
  unfold drop. induction q as [|u r IH]; cbn; intro H; [reflexivity|].
  destruct (Nat.eqb_spec u t) as [->|Hu]; cbn; [exfalso; apply H; left; reflexivity|].
  f_equal. apply IH. intro Hx. apply H. right. exact Hx.
Qed.

(* ------------------------------------------------------------ the invariant *)
Definition is_holdRL (p : pc) : bool := match p with WaitWLr | HoldRL | HoldBoth => true | _ => false end.
Definition is_HB (p : pc) : bool := match p with HoldBoth => true | _ => false end.
Definition is_waitRL (p : pc) : bool := match p with WaitRL => true | _ => false end.
Definition is_waitWL (p : pc) : bool := match p with WaitWLr | WaitWLw => true | _ => false end.
Definition needs_prog (p : pc) : bool := match p with Start | Fin | Dead => false | _ => true end.

Record InvG (st : state) : Prop := mkInvG {
  g_err : err st = false;
  g_cnt : counter st = cnt is_inR (tasks st);
  g_wl : b2n (locked (wl st)) =
         cnt is_inW (tasks st) + Nat.min 1 (cnt is_inR (tasks st) + cnt is_HB (tasks st));
  g_rl : b2n (locked (rl st)) = cnt is_holdRL (tasks st);
  g_qr : queue_ok is_waitRL (tasks st) (tids (rl st));
  g_qw : queue_ok is_waitWL (tasks st) (tids (wl st));
  g_mr : minv (rl st);
  g_mw : minv (wl st);
  g_prog : forall t tk, nth_error (tasks st) t = Some tk -> needs_prog (tpc tk) = true -> prog tk <> []
}.

(* every task but t is at a suspension point *)
Definition SE (st : state) (t : nat) : Prop :=
  forall u tk, u <> t -> nth_error (tasks st) u = Some tk -> stable (tpc tk) = true.
Definition Stable (st : state) : Prop :=
  forall u tk, nth_error (tasks st) u = Some tk -> stable (tpc tk) = true.
Definition Inv (st : state) : Prop := InvG st /\ Stable st.

Lemma invg_upd st t old new rl' wl' c' e' :
  InvG st -> nth_error (tasks st) t = Some old ->
  e' = false ->
  c' + b2n (is_inR (tpc old)) = counter st + b2n (is_inR (tpc new)) ->
  b2n (locked wl') = cnt is_inW (upd (tasks st) t new)
                     + Nat.min 1 (cnt is_inR (upd (tasks st) t new) + cnt is_HB (upd (tasks st) t new)) ->
  b2n (locked rl') = cnt is_holdRL (upd (tasks st) t new) ->
  queue_ok is_waitRL (upd (tasks st) t new) (tids rl') ->
  queue_ok is_waitWL (upd (tasks st) t new) (tids wl') ->
  minv rl' -> minv wl' ->
  (needs_prog (tpc new) = true -> prog new <> []) ->
  InvG (mkState (upd (tasks st) t new) rl' wl' c' e').
Proof.
  intros HI Hn -> Hc Hw Hr Hqr Hqw Hmr Hmw Hp.
  constructor; cbn [err counter tasks rl wl]; try assumption; try reflexivity.
  - pose proof (cnt_upd is_inR _ _ _ new Hn). pose proof (g_cnt _ HI). lia.
  - intros u tk. rewrite nth_error_upd, Hn. destruct (Nat.eqb u t).
    + intro E; inversion E; subst. exact Hp.
    + apply (g_prog _ HI).
Qed.

Lemma SE_HB st t tk : SE st t -> nth_error (tasks st) t = Some tk -> is_HB (tpc tk) = false ->
  cnt is_HB (tasks st) = 0.
Proof.
  intros Hs Hn Hb. apply cnt_zero. intros u tk' Hu.
  destruct (Nat.eq_dec u t) as [->|Hne]; [congruence|].
  specialize (Hs u tk' Hne Hu). destruct (tpc tk'); cbn in *; congruence.
Qed.

(* outcome of a function that runs task t to its next suspension *)
Definition Good (st : state) (t : nat) (st' : state) : Prop :=
  InvG st' /\ exists new, tasks st' = upd (tasks st) t new /\ stable (tpc new) = true.

Lemma Good_Inv st t st' : SE st t -> Good st t st' -> Inv st'.
Proof.
  intros Hs (HI & new & Ht & Hst). split; [exact HI|].
  intros u tk. rewrite Ht, nth_error_upd. destruct (Nat.eqb_spec u t) as [->|Hne].
  - destruct (nth_error (tasks st) t); intro E; inversion E; subst; exact Hst.
  - apply Hs. exact Hne.
Qed.

Lemma Good_trans st t mid st' x :
  tasks mid = upd (tasks st) t x -> Good mid t st' -> Good st t st'.
Proof.
  intros Hm (HI & new & Ht & Hst). split; [exact HI|]. exists new. split; [|exact Hst].
  rewrite Ht, Hm. apply upd_upd.
Qed.

Lemma SE_upd st t x mid : SE st t -> tasks mid = upd (tasks st) t x -> SE mid t.
Proof.
  intros Hs Hm u tk Hne. rewrite Hm, nth_error_upd_other by exact Hne. apply Hs. exact Hne.
Qed.
