(* Sync/MaildirIdleCheck.v -- case checkers for the maildir poll-loop model and
   the _AsyncioEvent model.

   Poll loop: the harness (harness/mdidle.py) drives the real maildir backend
   in-process on an event loop with a *virtual clock* (time jumps to the next
   timer when nothing is ready), one idling session and other sessions that
   change the mailbox.  Actions, each followed by running the loop until
   nothing is ready (no time passes): another session changes the mailbox /
   n ticks (0.25 s) of virtual time pass / the idler's client sends a line.
   Observed after each action: did the idler write a (non-empty) batch of
   untagged data since the previous observation, and has IDLE ended (OK / BAD). *)
From PV Require Import Base.Prelude Sync.MaildirIdle.

Inductive maction := AChange | AAdvance (n : nat) | ADone (ok : bool).
Record mobs := mkMObs { o_wrote : bool; o_ended : option bool }.

(* run the idler until it has nothing to run *)
Fixpoint msettle (P : nat) (fuel : nat) (st : mstate) : mstate :=
  match fuel with
  | O => st
  | S f => if ienabled st then msettle P f (istep P st) else st
  end.

Fixpoint madvance (P : nat) (n : nat) (st : mstate) : option mstate :=
  match n with
  | O => Some st
  | S m => match mstep P (msettle P 12 st) MTick with
           | Some st1 => madvance P m (msettle P 12 st1)
           | None => None
           end
  end.

Definition mact (P : nat) (st : mstate) (a : maction) : option mstate :=
  match a with
  | AChange => option_map (msettle P 12) (mstep P st MChange)
  | AAdvance n => madvance P n st
  | ADone ok => option_map (msettle P 12) (mstep P st (MDone ok))
  end.

Definition ended_of (st : mstate) : option bool :=
  match mp st with MEnd ok => Some ok | _ => None end.

Definition obool_eqb (a b : option bool) : bool :=
  match a, b with
  | None, None => true
  | Some x, Some y => Bool.eqb x y
  | _, _ => false
  end.

Fixpoint mreplay (P : nat) (st : mstate) (xs : list (maction * mobs)) : bool :=
  match xs with
  | [] => true
  | (a, o) :: r =>
      match mact P st a with
      | None => false
      | Some st1 =>
          negb (ienabled st1)
          && Bool.eqb (mdeliv st <? mdeliv st1) (o_wrote o)
          && obool_eqb (ended_of st1) (o_ended o)
          && mreplay P st1 r
      end
  end.

(* (period in ticks, observation after the continuation was written, actions) *)
Definition chk_mdidle (c : nat * mobs * list (maction * mobs)) : bool :=
  let '(P, o0, xs) := c in
  let st0 := msettle P 12 minit in
  negb (o_wrote o0) && obool_eqb (ended_of st0) (o_ended o0) && mreplay P st0 xs.

(* ---------------------------------------------------------------- events *)
Inductive evop := ENew | EOr (es : list nat) | ESet (e : nat) | EClear (e : nat).

Definition ev_apply (s : evs) (op : evop) : evs :=
  match op with
  | ENew => fst (ev_new s)
  | EOr es => fst (ev_or s es)
  | ESet e => ev_set s e
  | EClear e => ev_clear s e
  end.

Fixpoint ev_replay (s : evs) (xs : list (evop * list bool)) : bool :=
  match xs with
  | [] => true
  | (op, flags) :: r =>
      let s1 := ev_apply s op in
      eqb_list Bool.eqb (eflag s1) flags && ev_replay s1 r
  end.

Definition chk_events (xs : list (evop * list bool)) : bool := ev_replay (mkEvs [] []) xs.
