(* Sync/Idle.v -- the IDLE update loop of pymap (dict backend) as a small
   machine per idling session, plus writers.  Definitions only.

   pymap/imap/__init__.py
       idle():            write "+ Idling." (drain); done = new_event()
                          updates_task = handle_updates(); done_task = read_idle_done()
                          ok = await done_task; done.set(); await updates_task
                          -> tagged OK if ok else BAD 'Expected "DONE".'
       handle_updates():  while not done.is_set():
                              untagged = await state.receive_updates(cmd, done)
                              await shield(self.write_updates(untagged))       (drain per response)
   pymap/backend/dict/mailbox.py  update_selected(selected, wait_on=done):
       either = wait_on.or_event(self._updated)                                 [IArm]
       if not wait_on.is_set() and selected.mod_sequence == highest:           (recheck; absent before the fix)
           await either.wait()                                                  [IWait]
       diff from selected.mod_sequence; selected.mod_sequence = highest         [IDiff, with fork()]
   every mutation of the mailbox ends with self._updated.set(), which sets
   every or-event created from it that is still alive.

   [hi] counts the changes made to the mailbox so far (one per writer command;
   a command body is atomic under asyncio).  [seen] is the session's
   mod_sequence, [delivered] the last change whose notification has been
   written to the client completely. *)
From PV Require Import Base.Prelude Sync.RWLock.

Inductive ipc :=
| ICont                   (* writing the continuation "+ Idling." (suspended in its drain); the
                             update loop and the reader of the client's line do not exist yet *)
| IArm                    (* at the top of the loop / creating the or-event *)
| IWait                   (* suspended in either_event.wait() *)
| IDiff                   (* woken (or not waiting): about to diff and fork *)
| IWrite (upto n : nat)   (* suspended in shield(write_updates(batch)): the batch covers the
                             changes <= upto and has n untagged responses (one drain each) *)
| IEnd (ok : bool).       (* IDLE over: tagged OK (true) or BAD (false) written *)

Record idler := mkIdler {
  ipc_ : ipc;
  seen : nat;
  delivered : nat;
  iev : bool;              (* the or-event of the current wait is set *)
  idone : option bool      (* the client's line arrived: Some (it was DONE) *)
}.

Record istate := mkI { hi : nat; idlers : list idler }.

Inductive ilabel :=
| LW                              (* some session changes the mailbox (one command) *)
| LI (s : nat) (n : nat)          (* idler s takes one step; n = number of untagged
                                     responses fork() produces if this step is the diff *)
| LDone (s : nat) (ok : bool)     (* the line the client of idler s sent is read, `done` is set;
                                     ok = the line is DONE *)
| LS (s : nat).                   (* the update event is set for idler s although nothing a client
                                     must be told has changed (a SELECT by another session, a
                                     STORE that changes nothing, ...) *)

Definition idler0 : idler := mkIdler ICont 0 0 false None.
Definition iinit (k : nat) : istate := mkI 0 (repeat idler0 k).

(* is the step enabled (the task has a ready handle)? *)
Definition ienabled (i : idler) : bool :=
  match ipc_ i with
  | IWait => iev i
  | IEnd _ => false
  | _ => true
  end.

(* one step of one idler; [recheck]: the fixed update_selected *)
Definition istep1 (recheck : bool) (h : nat) (i : idler) (n : nat) : idler :=
  match ipc_ i with
  | ICont => mkIdler IArm (seen i) (delivered i) (iev i) (idone i)
  | IArm =>
      match idone i with
      | Some ok => mkIdler (IEnd ok) (seen i) (delivered i) (iev i) (idone i)
      | None =>
          if recheck && Nat.ltb (seen i) h
          then mkIdler IDiff (seen i) (delivered i) false None
          else mkIdler IWait (seen i) (delivered i) false None
      end
  | IWait => if iev i then mkIdler IDiff (seen i) (delivered i) (iev i) (idone i) else i
  | IDiff => mkIdler (IWrite h n) h (delivered i) (iev i) (idone i)
  | IWrite upto _ => mkIdler IArm (seen i) upto (iev i) (idone i)
  | IEnd _ => i
  end.

Definition set_ev (i : idler) : idler := mkIdler (ipc_ i) (seen i) (delivered i) true (idone i).

Definition istep (recheck : bool) (st : istate) (l : ilabel) : istate :=
  match l with
  | LW => mkI (S (hi st)) (map set_ev (idlers st))
  | LI s n =>
      match nth_error (idlers st) s with
      | Some i => mkI (hi st) (upd (idlers st) s (istep1 recheck (hi st) i n))
      | None => st
      end
  | LDone s ok =>
      match nth_error (idlers st) s with
      | Some i =>
          match idone i, ipc_ i with
          | None, IEnd _ => st
          | None, ICont => st     (* nobody reads the line yet: it stays in the buffer *)
          | None, _ => mkI (hi st) (upd (idlers st) s
                                       (mkIdler (ipc_ i) (seen i) (delivered i) true (Some ok)))
          | Some _, _ => st
          end
      | None => st
      end
  | LS s =>
      match nth_error (idlers st) s with
      | Some i => mkI (hi st) (upd (idlers st) s (set_ev i))
      | None => st
      end
  end.

Definition iexec (recheck : bool) (st : istate) (sched : list ilabel) : istate :=
  fold_left (istep recheck) sched st.

(* observables *)
Definition idling (st : istate) (s : nat) : Prop :=
  exists i, nth_error (idlers st) s = Some i /\ idone i = None.
Definition delivered_all (st : istate) (s : nat) : Prop :=
  exists i, nth_error (idlers st) s = Some i /\ delivered i = hi st.
Definition ended (st : istate) (s : nat) (ok : bool) : Prop :=
  exists i, nth_error (idlers st) s = Some i /\ ipc_ i = IEnd ok.

(* schedules made of steps of the idlers only: no writer, no client input for s *)
Definition quiet_for (s : nat) (l : ilabel) : bool :=
  match l with
  | LW => false
  | LI _ _ => true
  | LDone t _ => negb (Nat.eqb t s)
  | LS _ => true
  end.
Definition own_steps (s : nat) (sched : list ilabel) : nat :=
  length (filter (fun l => match l with LI t _ => Nat.eqb t s | _ => false end) sched).
