(* Sync/WorkerPool.v -- the worker pool behind the threading subsystem.

   pymap/backend/maildir/__init__.py: Config.parse_args builds
   ThreadPoolExecutor(args.concurrency) and Subsystem.for_executor(executor);
   pymap/concurrent.py: _ThreadingSubsystem.execute runs every backend call of
   every connection (do_greeting, do_command, do_authenticate,
   receive_updates of an idling connection) with loop.run_in_executor: the
   call occupies one of the N worker threads from its start to its return,
   calls that find no free worker wait in the executor's FIFO work queue.

   Time is counted in ticks.  A call is its remaining service time:
   [Some d] returns at the end of tick d (d more ticks after the current one),
   [None] never returns (a call that waits for something only its own client
   can supply, e.g. Event.wait() without timeout until DONE).

   A pool is the list of calls that were submitted and have not returned, in
   submission order: the first N of them run (FIFO and work conserving: a
   queued call starts as soon as a worker is free), the rest is queued.  For
   the question "when does request r start" only the calls AHEAD of r matter:
   whatever is submitted later is behind r in the queue.  So the state is the
   list [ahead]; r has a worker as soon as fewer than N calls are ahead. *)
From PV Require Import Base.Prelude.

Definition call := option nat.

(* one tick of a running call: [None] = it returned *)
Definition dec (c : call) : option call :=
  match c with
  | None => Some None
  | Some 0 => None
  | Some (S d) => Some (Some d)
  end.

Fixpoint filter_map {A B} (f : A -> option B) (l : list A) : list B :=
  match l with
  | [] => []
  | x :: r => match f x with Some y => y :: filter_map f r | None => filter_map f r end
  end.

(* one tick: the first N calls run, finished ones leave, the queue moves up *)
Definition tick (N : nat) (ahead : list call) : list call :=
  filter_map dec (firstn N ahead) ++ skipn N ahead.

Definition has_worker (N : nat) (ahead : list call) : bool := length ahead <? N.

(* r is started within t ticks *)
Fixpoint started_within (N t : nat) (ahead : list call) : bool :=
  if has_worker N ahead then true
  else match t with
       | 0 => false
       | S t' => started_within N t' (tick N ahead)
       end.

(* the tick at which r starts, searched up to [fuel] *)
Fixpoint start_tick (N fuel now : nat) (ahead : list call) : option nat :=
  if has_worker N ahead then Some now
  else match fuel with
       | 0 => None
       | S f => start_tick N f (S now) (tick N ahead)
       end.

Fixpoint count_inf (l : list call) : nat :=
  match l with
  | [] => 0
  | None :: r => S (count_inf r)
  | Some _ :: r => count_inf r
  end.

(* total finite service time ahead *)
Fixpoint work (l : list call) : nat :=
  match l with
  | [] => 0
  | None :: r => work r
  | Some d :: r => S d + work r
  end.

Definition bounded_by (P : nat) (c : call) : bool :=
  match c with Some d => d <=? P | None => false end.
