(* Sync/WorkerPoolProofs.v -- a request gets a worker after finitely many
   ticks iff fewer than N of the calls ahead of it hold their worker for ever;
   quantitative bound = the finite service time ahead. *)
From PV Require Import Base.Prelude Sync.WorkerPool.

Lemma count_inf_app a b : count_inf (a ++ b) = count_inf a + count_inf b.
Proof. induction a as [|[d|] a IH]; cbn [count_inf app]; lia. Qed.

Lemma work_app a b : work (a ++ b) = work a + work b.
Proof. induction a as [|[d|] a IH]; cbn [work app]; lia. Qed.

Lemma count_inf_le_length l : count_inf l <= length l.
Proof. induction l as [|[d|] l IH]; cbn [count_inf length]; lia. Qed.

Lemma count_inf_fm l : count_inf (filter_map dec l) = count_inf l.
Proof.
  induction l as [|[[|d]|] l IH]; cbn [filter_map dec count_inf]; lia.
Qed.

Lemma count_inf_split n l : count_inf l = count_inf (firstn n l) + count_inf (skipn n l).
Proof. rewrite <- count_inf_app, firstn_skipn. reflexivity. Qed.

Lemma work_split n l : work l = work (firstn n l) + work (skipn n l).
Proof. rewrite <- work_app, firstn_skipn. reflexivity. Qed.

Lemma count_inf_tick N l : count_inf (tick N l) = count_inf l.
Proof.
  unfold tick. rewrite count_inf_app, count_inf_fm. symmetry. apply count_inf_split.
Qed.

Lemma has_worker_false N l : has_worker N l = false <-> N <= length l.
Proof. unfold has_worker. rewrite Nat.ltb_ge. reflexivity. Qed.

Lemma has_worker_true N l : has_worker N l = true <-> length l < N.
Proof. unfold has_worker. apply Nat.ltb_lt. Qed.

(* calls that never return are never removed: N of them ahead, no worker ever *)
Lemma pinned_never N l : N <= count_inf l -> forall t, started_within N t l = false.
Proof.
  intros H t. revert l H. induction t as [|t IH]; intros l H; cbn [started_within];
    pose proof (count_inf_le_length l) as Hl;
    (replace (has_worker N l) with false by (symmetry; apply has_worker_false; lia)).
  - reflexivity.
  - apply IH. rewrite count_inf_tick. exact H.
Qed.

Lemma work_fm_le l : work (filter_map dec l) <= work l.
Proof.
  induction l as [|[[|d]|] l IH]; cbn [filter_map dec work]; lia.
Qed.

Lemma work_fm_lt l : count_inf l < length l -> work (filter_map dec l) < work l.
Proof.
  induction l as [|[[|d]|] l IH]; cbn [filter_map dec work count_inf length]; intro H.
  - lia.
  - pose proof (work_fm_le l). lia.
  - pose proof (work_fm_le l). lia.
  - apply IH. lia.
Qed.

Lemma work_tick_lt N l : N <= length l -> count_inf l < N -> work (tick N l) < work l.
Proof.
  intros Hl Hc. unfold tick. rewrite work_app, (work_split N l).
  assert (Hf : length (firstn N l) = N) by (apply firstn_length_le; exact Hl).
  pose proof (count_inf_split N l) as Hs.
  assert (work (filter_map dec (firstn N l)) < work (firstn N l)) by (apply work_fm_lt; lia).
  lia.
Qed.

(* fewer than N pinned calls ahead: a worker within [work ahead] ticks *)
Lemma started_by_work N : forall w l, work l <= w -> count_inf l < N -> started_within N w l = true.
Proof.
  induction w as [|w IH]; intros l Hw Hc; cbn [started_within];
    destruct (has_worker N l) eqn:E; try reflexivity;
    apply has_worker_false in E; pose proof (work_tick_lt N l E Hc) as Hlt.
  - lia.
  - apply IH; [lia|]. rewrite count_inf_tick. exact Hc.
Qed.

Theorem started_iff N ahead :
  (exists t, started_within N t ahead = true) <-> count_inf ahead < N.
Proof.
  split.
  - intros [t Ht]. destruct (Nat.lt_ge_cases (count_inf ahead) N) as [H|H]; [exact H|].
    rewrite (pinned_never N ahead H t) in Ht. discriminate.
  - intro H. exists (work ahead). apply started_by_work; [lia|exact H].
Qed.

Lemma started_within_mono N : forall t t' l,
  t <= t' -> started_within N t l = true -> started_within N t' l = true.
Proof.
  induction t as [|t IH]; intros t' l Hle H; destruct t' as [|t']; cbn [started_within] in *;
    destruct (has_worker N l); try reflexivity; try discriminate; try lia.
  apply (IH t'); [lia|exact H].
Qed.

Lemma bounded_work P l :
  forallb (bounded_by P) l = true -> work l <= length l * S P /\ count_inf l = 0.
Proof.
  induction l as [|[d|] l IH]; cbn [forallb bounded_by work count_inf length]; intro H.
  - lia.
  - apply andb_true_iff in H as [Hd Hr]. apply Nat.leb_le in Hd. destruct (IH Hr). lia.
  - discriminate.
Qed.

(* every call ahead returns within a period of P+1 ticks (an idle poll call):
   a worker within (calls ahead) * (P+1) ticks, whatever N >= 1 *)
Theorem started_when_bounded N P ahead :
  0 < N -> forallb (bounded_by P) ahead = true ->
  started_within N (length ahead * S P) ahead = true.
Proof.
  intros HN H. destruct (bounded_work P ahead H) as [Hw Hc].
  apply (started_within_mono N (work ahead)); [exact Hw|].
  apply started_by_work; [lia|lia].
Qed.

(* [start_tick] computes the least such t *)
Lemma start_tick_some N : forall fuel now l t,
  start_tick N fuel now l = Some t ->
  now <= t /\ t - now <= fuel /\ started_within N (t - now) l = true.
Proof.
  induction fuel as [|f IH]; intros now l t H; cbn [start_tick] in H;
    destruct (has_worker N l) eqn:E.
  - inversion H; subst. rewrite Nat.sub_diag. cbn [started_within]. rewrite E. lia.
  - discriminate.
  - inversion H; subst. rewrite Nat.sub_diag. cbn [started_within]. rewrite E. lia.
  - apply IH in H as (H1 & H2 & H3).
    replace (t - now) with (S (t - S now)) by lia. cbn [started_within]. rewrite E.
    repeat split; try lia. exact H3.
Qed.

Lemma start_tick_none N : forall fuel now l,
  start_tick N fuel now l = None -> started_within N fuel l = false.
Proof.
  induction fuel as [|f IH]; intros now l H; cbn [start_tick started_within] in *;
    destruct (has_worker N l); try discriminate; try reflexivity.
  eapply IH; exact H.
Qed.
