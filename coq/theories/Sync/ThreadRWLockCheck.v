(* Sync/ThreadRWLockCheck.v -- case checker for the correspondence of
   Sync/ThreadRWLock.v with the real pymap.concurrent._ThreadingReadWriteLock.
   The harness (harness/thrdrv.py) runs real threads over the real object with
   its two `threading.Lock`s and its `_counter` instrumented so that a
   scheduler lets exactly one thread perform exactly one lock operation /
   counter access at a time.  A case is the tree of all explored schedules of
   a configuration, in preorder: per executed transition its depth (= length
   of the schedule before it), the thread picked and, *after* the step, the
   counter, both lock words, what every thread is about to do next (operation
   code, with the value for a counter write) and the set of threads that are
   not blocked -- packed into one binary number per transition (a nested
   Gallina term of 30 000 nodes takes minutes to elaborate). *)
From PV Require Import Base.Prelude Sync.RWLock Sync.ThreadRWLock.
Require Import NArith.
Local Open Scope N_scope.

(* what a thread stopped at a program counter is about to do *)
Definition pc_code (p : thpc) : N :=
  match p with
  | TIdle => 0
  | RA1 | RR1 => 1                  (* _read_lock.acquire() *)
  | RA3 | WA1 => 2                  (* _write_lock.acquire() *)
  | RA2 | RA4 | RR2 | RR4 => 3      (* read _counter *)
  | RA6 | RR6 => 4                  (* _read_lock.release() *)
  | RR5 | WR1 => 5                  (* _write_lock.release() *)
  | RBody => 6
  | WBody => 7
  | TDone => 8
  | TFailed => 9
  | RA5 v => N.min 31 (12 + N.of_nat v)   (* write _counter = v + 1: code 11 + value *)
  | RR3 v => N.min 31 (10 + N.of_nat v)   (* write _counter = v - 1 (value -1 is code 10) *)
  end.

Definition nb (b : bool) : N := if b then 1 else 0.

Fixpoint enabled_mask (st : tstate) (n : nat) (i : nat) : N :=
  match n with
  | O => 0
  | S m => nb (tenabled st i) + 2 * enabled_mask st m (S i)
  end.

(* the view of a state: counter; read mutex + 2 * write mutex + 4 * mask of the
   threads that are not blocked; one operation code per thread *)
Definition view_of (st : tstate) : list N :=
  N.of_nat (tcnt st)
  :: (nb (trl st) + 2 * nb (twl st) + 4 * enabled_mask st (length (ths st)) 0)
  :: map (fun th => pc_code (tp th)) (ths st).

(* [stack]: the states along the current schedule, deepest first.
   A transition is [depth; thread; view after ...] -- small numbers only (a
   Gallina number literal is converted from decimal by evaluation) *)
Fixpoint treplay_flat (stack : list tstate) (xs : list (list N)) : bool :=
  match xs with
  | [] => true
  | (d :: t :: v) :: rest =>
      let d := N.to_nat d in
      let t := N.to_nat t in
      let stk := skipn (length stack - S d) stack in
      match stk with
      | [] => false
      | st :: _ =>
          let st1 := tstep st t in
          (length stk =? S d)%nat && tenabled st t && negb (terr st1)
          && eqb_list N.eqb (view_of st1) v
          && treplay_flat (st1 :: stk) rest
      end
  | _ :: _ => false
  end.

(* (programs, view of the initial state, explored transitions in preorder) *)
Definition chk_thr_tree (c : list (list sect) * list N * list (list N)) : bool :=
  let '(progs, v0, xs) := c in
  eqb_list N.eqb (view_of (tinit progs)) v0 && treplay_flat [tinit progs] xs.
