(* Sync/MaildirIdle.v -- IDLE on the maildir backend: a poll loop.
   Definitions only.

     IMAPConnection.idle:           write "+ Idling."            MCont
       handle_updates:  while not done.is_set():                 MTop
         receive_updates -> maildir update_selected:
            await wait_on.wait(timeout=1.0)   (wait_on = done)   MWait
            all_messages = [... rescan ...]; set_messages; fork  MScan
         await shield(write_updates(untagged))                   MWrite lo upto
       read_idle_done: the client's line -> done.set()           label MDone ok

   There is no notification at all: another session's change ([MChange]) only
   increments [mhi]; the idler learns of it by the rescan after its wait timed
   out.  Virtual clock in ticks, [P] ticks = the poll period (1.0 s).  Time
   advances ([MTick]) only while the idler has nothing to run (the discipline
   of an event loop, and of the virtual-time loop of the harness).  [MWake]: the
   wait returns early for whatever reason (spurious wake-up). *)
From PV Require Import Base.Prelude.

Inductive mpc :=
| MCont | MTop | MWait | MScan
| MWrite (lo upto : nat)     (* writing the batch that reports changes lo+1 .. upto *)
| MEnd (ok : bool).

Inductive mlabel := MChange | MTick | MI | MDone (ok : bool) | MWake.

Record mstate := mkM {
  mp : mpc;
  mclock : nat;
  mdead : nat;               (* deadline of the current wait *)
  mhi : nat;                 (* changes made to the mailbox so far *)
  mseen : nat;               (* changes the session's snapshot includes *)
  mdeliv : nat;              (* changes whose notification is completely written *)
  mout : list (nat * nat);   (* the non-empty batches written, newest first *)
  mdone : option bool;       (* done.set() happened; was the line DONE? *)
  mwoken : bool
}.

Definition minit : mstate := mkM MCont 0 0 0 0 0 [] None false.

Definition is_some {A} (o : option A) : bool := match o with Some _ => true | None => false end.

(* the idler has a ready handle *)
Definition ienabled (st : mstate) : bool :=
  match mp st with
  | MCont | MTop | MScan | MWrite _ _ => true
  | MWait => is_some (mdone st) || mwoken st || (mdead st <=? mclock st)
  | MEnd _ => false
  end.

Definition set_mp (st : mstate) (p : mpc) : mstate :=
  mkM p (mclock st) (mdead st) (mhi st) (mseen st) (mdeliv st) (mout st) (mdone st) (mwoken st).

Definition istep (P : nat) (st : mstate) : mstate :=
  match mp st with
  | MCont => set_mp st MTop
  | MTop =>
      match mdone st with
      | Some ok => set_mp st (MEnd ok)
      | None => mkM MWait (mclock st) (mclock st + P) (mhi st) (mseen st) (mdeliv st) (mout st)
                    (mdone st) false
      end
  | MWait => mkM MScan (mclock st) (mdead st) (mhi st) (mseen st) (mdeliv st) (mout st)
                 (mdone st) false
  | MScan => mkM (MWrite (mseen st) (mhi st)) (mclock st) (mdead st) (mhi st) (mhi st) (mdeliv st)
                 (mout st) (mdone st) (mwoken st)
  | MWrite lo up =>
      mkM MTop (mclock st) (mdead st) (mhi st) (mseen st) up
          (if lo <? up then (lo, up) :: mout st else mout st) (mdone st) (mwoken st)
  | MEnd _ => st
  end.

Definition mstep (P : nat) (st : mstate) (l : mlabel) : option mstate :=
  match l with
  | MChange => Some (mkM (mp st) (mclock st) (mdead st) (S (mhi st)) (mseen st) (mdeliv st)
                         (mout st) (mdone st) (mwoken st))
  | MTick => if ienabled st then None
             else Some (mkM (mp st) (S (mclock st)) (mdead st) (mhi st) (mseen st) (mdeliv st)
                            (mout st) (mdone st) (mwoken st))
  | MI => if ienabled st then Some (istep P st) else None
  | MDone ok =>
      match mp st, mdone st with
      | MCont, _ | MEnd _, _ | _, Some _ => Some st   (* MCont: the line stays in the buffer *)
      | _, None => Some (mkM (mp st) (mclock st) (mdead st) (mhi st) (mseen st) (mdeliv st)
                             (mout st) (Some ok) (mwoken st))
      end
  | MWake =>
      match mp st with
      | MWait => Some (mkM (mp st) (mclock st) (mdead st) (mhi st) (mseen st) (mdeliv st)
                           (mout st) (mdone st) true)
      | _ => Some st
      end
  end.

Fixpoint mexec (P : nat) (st : mstate) (sched : list mlabel) : option mstate :=
  match sched with
  | [] => Some st
  | l :: r => match mstep P st l with None => None | Some st1 => mexec P st1 r end
  end.

Definition is_quiet (l : mlabel) : bool :=     (* neither a change nor client input *)
  match l with MTick | MI | MWake => true | _ => false end.
Definition counts (l : mlabel) : nat := match l with MTick | MI => 1 | _ => 0 end.
Definition work (sched : list mlabel) : nat := list_sum (map counts sched).
Definition isteps (sched : list mlabel) : nat :=
  list_sum (map (fun l => match l with MI => 1 | _ => 0 end) sched).
Definition mticks (sched : list mlabel) : nat :=
  list_sum (map (fun l => match l with MTick => 1 | _ => 0 end) sched).

(* the batches written so far, newest first, are adjacent non-empty intervals
   ending at [d]: every change is reported exactly once, in order *)
Fixpoint chained (out : list (nat * nat)) (d : nat) : Prop :=
  match out with
  | [] => d = 0
  | (lo, up) :: r => up = d /\ lo < up /\ chained r lo
  end.

(* ------------------------------------------------ pymap.concurrent._AsyncioEvent *)
(* the part the idle loops rely on: a flag per event and the listeners.
     or_event(self, *events): new event, registered as a listener of self and events
     set(): self._event.set(); for l in listeners: l.set()
     clear(): only the event's own flag *)
Record evs := mkEvs { eflag : list bool; elisten : list (list nat) }.  (* by event id *)

Definition ev_new (s : evs) : evs * nat :=
  (mkEvs (eflag s ++ [false]) (elisten s ++ [[]]), length (eflag s)).

Fixpoint set_nth {A} (l : list A) (i : nat) (x : A) : list A :=
  match l, i with
  | [], _ => []
  | _ :: r, O => x :: r
  | y :: r, S j => y :: set_nth r j x
  end.

Definition ev_is_set (s : evs) (e : nat) : bool := nth e (eflag s) false.
Definition ev_or (s : evs) (es : list nat) : evs * nat :=
  let '(s1, o) := ev_new s in
  (mkEvs (eflag s1)
         (fold_left (fun ls e => set_nth ls e (nth e ls [] ++ [o])) es (elisten s1)), o).

(* set(): listeners of listeners too ([fuel] = number of events bounds the depth:
   a listener is always younger than the event it listens to) *)
Fixpoint ev_set_fuel (fuel : nat) (s : evs) (e : nat) : evs :=
  match fuel with
  | O => s
  | S f =>
      fold_left (fun s1 l => ev_set_fuel f s1 l) (nth e (elisten s) [])
                (mkEvs (set_nth (eflag s) e true) (elisten s))
  end.
Definition ev_set (s : evs) (e : nat) : evs := ev_set_fuel (S (length (eflag s))) s e.
Definition ev_clear (s : evs) (e : nat) : evs := mkEvs (set_nth (eflag s) e false) (elisten s).
