(* Resp/Examples.v — a non-trivial stream that satisfies the hypotheses of
   C07 (hostile strings, nested structures), and the byte strings of the
   defects found on the unchanged tree, which the recogniser rejects. *)
From PV Require Import Base.Prelude Base.Decimal Resp.Grammar Resp.Printer Resp.Wf.
From Coq Require Import String.
Local Open Scope string_scope.
Local Open Scope N_scope.
Local Open Scope list_scope.

Definition ex_dt : datetime :=
  {| dt_day := 1; dt_month := 2; dt_year := 999; dt_hour := 3; dt_min := 4; dt_sec := 5;
     dt_neg := true; dt_off := 3630 |}.
Definition ex_addr : addr := {| a_name := [104; 233; 34; 92]; a_user := pbs "a"; a_domain := [] |}.
Definition ex_env : envelope :=
  {| e_date := Some ex_dt; e_subject := Some (pbs "a" ++ [13] ++ pbs "b");
     e_from := Some [ex_addr; ex_addr]; e_sender := None; e_reply_to := Some [];
     e_to := None; e_cc := None; e_bcc := None; e_in_reply_to := None;
     e_message_id := Some [0; 10; 55296] |}.
Definition ex_fields : bfields :=
  {| bf_params := [(pbs "name", [120; 34; 121]); ([], [8364])]; bf_id := None;
     bf_desc := Some [8364]; bf_enc := None; bf_size := 12; bf_md5 := None;
     bf_dsp := Some (Some (pbs "attachment"), [(pbs "filename", pbs "z")]);
     bf_lang := Some (pbs "en"); bf_loc := None |}.
Definition ex_body : body :=
  BMulti [BText (pbs "plain") ex_fields 3;
          BMsg ex_fields 4 ex_env (BMulti [] (pbs "mixed") [] None None None);
          BBasic (pbs "audio") [233] ex_fields]
         (pbs "mixed") [(pbs "boundary", pbs "x")] None None None.
Definition ex_section : fsection :=
  {| fs_parts := [1; 2]; fs_spec := Some (pbs "HEADER.FIELDS");
     fs_headers := [pbs "TO"; pbs "A B"; [65; 10; 66]; [233]] |}.
Definition ex_stream : list resp :=
  [ RCond None OK (Some (CCapability [pbs "LITERAL+"; pbs "AUTH=PLAIN"])) (pbs "Server ready");
    RCont (pbs "Literal string"); RCont [];
    RCond (Some (pbs "a1")) OK (Some (CAppendUid 5 [7; 3; 4; 9])) (pbs "done");
    RCond (Some (pbs "a]1")) NO (Some (CCopyUid 5 [7; 3; 4; 9] [1])) (pbs "done");
    RCond None OK (Some (CPermanentFlags [pbs "kw"; pbs "\Seen"; pbs "\*"])) (pbs "Flags");
    RCond None OK (Some (CMailboxId (pbs "Fabc"))) (pbs "x");
    RCond None BYE (Some (CAnon (pbs "SERVERBUG"))) (pbs "Unhandled server error.");
    RCond (Some (pbs "a1")) BAD None (pbs "[X: Unknown command.");
    RCapability [pbs "ID"]; RFlags [pbs "\Seen"; pbs "$Junk"]; RExists 0; RRecent 3; RExpunge 4;
    RSearch []; RSearch [1; 2];
    RStatus [105; 110; 98; 111; 120] [SNum SMessages 3; SMailboxId (pbs "F1")];
    RStatus (pbs "a b" ++ [233; 10; 38; 34; 92; 0]) [];
    RList false [] (Some (pbs "/")) [pbs "HasNoChildren"; pbs "Noselect"];
    RList true [34; 92; 13] None [];
    RId None; RId (Some [(VBytes (pbs "name"), VBytes (pbs "pymap")); (VBytes (pbs "x"), VNone)]);
    RFetch 3 [FUid 4; FFlags []; FInternalDate ex_dt; FEmailId (pbs "M1"); FThreadId None;
              FEnvelope ex_env; FBodyStructure ex_body; FBody ex_body;
              FBodySection ex_section (Some 3) [104; 13; 10; 0; 255];
              FRfc822 R822Header [0; 13; 10]; FRfc822Size 5;
              FBinary {| fs_parts := []; fs_spec := None; fs_headers := [] |} None [0; 255];
              FBinarySize {| fs_parts := [1]; fs_spec := None; fs_headers := [] |} 3] ].

(* what the unchanged tree wrote (DESIGN section 6 rows 10 and 26, and the
   other defects found by this check) *)
Definition bad_cr_in_quoted : bytes :=
  pbs "* 1 FETCH (ENVELOPE (NIL ""a" ++ [13] ++
  pbs "b"" NIL NIL NIL NIL NIL NIL NIL NIL))" ++ CRLF.
Definition bad_empty_text : bytes := pbs "a9 BAD " ++ CRLF.
Definition bad_address_sp : bytes :=
  pbs "* 1 FETCH (ENVELOPE (NIL NIL ((NIL NIL ""a"" ""b"") (NIL NIL ""c"" ""d"")) NIL NIL NIL NIL NIL NIL NIL))"
  ++ CRLF.
Definition bad_address_empty : bytes :=
  pbs "* 1 FETCH (ENVELOPE (NIL NIL NIL NIL NIL () NIL NIL NIL NIL))" ++ CRLF.
Definition bad_dsp_string : bytes :=
  pbs "* 1 FETCH (BODYSTRUCTURE (""text"" ""plain"" NIL NIL NIL ""7BIT"" 1 1 NIL ""attachment"" NIL NIL))"
  ++ CRLF.
Definition bad_mpart_empty : bytes := pbs "* 1 FETCH (BODY ( ""mixed""))" ++ CRLF.
Definition bad_date : bytes :=
  pbs "* 1 FETCH (INTERNALDATE ""01-Jan-999 00:00:00 +000030"")" ++ CRLF.
Definition bad_empty_fetch : bytes := pbs "* 1 FETCH ()" ++ CRLF.
Definition bad_binary_peek : bytes := pbs "* 1 FETCH (BINARY.PEEK[1] ~{0}" ++ CRLF ++ pbs ")" ++ CRLF.
Definition bad_partial_line : bytes := pbs "* 5 FETCH (UID 105 ".
Definition bad_objectid : bytes := pbs "* 1 FETCH (EMAILID ((M1)))" ++ CRLF.
Definition bad_examples : list bytes :=
  [bad_cr_in_quoted; bad_empty_text; bad_address_sp; bad_address_empty; bad_dsp_string;
   bad_mpart_empty; bad_date; bad_empty_fetch; bad_binary_peek; bad_partial_line; bad_objectid].
