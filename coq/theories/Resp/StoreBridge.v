(* Resp/StoreBridge.v — composition of C07 with the message-store model of the
   C01/C02 builder (Store/, see docs/STORE_API.md): the EXPUNGE / EXISTS /
   RECENT / FETCH (FLAGS [UID]) / SEARCH responses that [System.step] produces
   in ANY reachable state of ANY multi-session execution, rendered as response
   objects, satisfy [wf_resp] -- by proof, from the Store invariant and its
   shadow-client theorem, not by measurement.  Hence (C07) their serialisation
   is well-formed. *)
From PV Require Import Base.Prelude Base.Decimal.
From PV Require Store.Base Store.Flags Store.Mailbox Store.View Store.Compare Store.Session
  Store.System Store.MailboxProofs Store.CompareProofs Store.SelProofs Store.SystemProofs
  Store.StoreExamples.
From PV Require Import Resp.Grammar Resp.Printer Resp.Wf Resp.LexProofs Resp.ListProofs
  Resp.RespProofs.
From Coq Require Import Lia String.

Local Open Scope string_scope.
Local Open Scope N_scope.
Local Open Scope list_scope.

Module S := Store.System.
Module C := Store.Compare.

(* ------------------------------------------------------------- rendering *)
(* the name of a flag: the five system flags and \Recent by their numbers
   (Store/Flags.v), every other number through the keyword table [kw] *)
Definition flag_name (kw : N -> bytes) (f : N) : bytes :=
  if f =? 1 then pbs "\Answered" else if f =? 2 then pbs "\Deleted"
  else if f =? 3 then pbs "\Draft" else if f =? 4 then pbs "\Flagged"
  else if f =? 5 then pbs "\Seen" else if f =? 6 then pbs "\Recent" else kw f.

(* a response of the store model as the response object pymap builds for it
   (imap/state.py do_fetch / do_store / do_search, selected.py _compare);
   status lines and response codes are not message data *)
Definition render (kw : N -> bytes) (r : C.resp) : option resp :=
  match r with
  | C.Expunge n => Some (RExpunge n)
  | C.Exists n => Some (RExists n)
  | C.Recent n => Some (RRecent n)
  | C.Fetch seq uid fl show_uid =>
    Some (RFetch seq (FFlags (map (flag_name kw) fl) :: (if show_uid then [FUid uid] else [])))
  | C.Search false ids => Some (RSearch (map fst ids))
  | _ => None
  end.
Fixpoint render_all (kw : N -> bytes) (rs : list C.resp) : list resp :=
  match rs with
  | [] => []
  | r :: t => match render kw r with Some p => p :: render_all kw t | None => render_all kw t end
  end.

(* --------------------------------- what the shadow client's success implies *)
Definition nums_ok (uids : list N) (r : C.resp) : Prop :=
  match r with
  | C.Expunge n => n <> 0
  | C.Fetch seq uid _ _ => seq <> 0 /\ In uid uids
  | C.Search false ids => Forall (fun su => fst su <> 0) ids
  | _ => True
  end.

Lemma nth_error_in_N (l : list N) k u : nth_error l k = Some u -> In u l.
Proof. apply nth_error_In. Qed.

Lemma remove_nth_incl {A} n : forall (l l' : list A),
  S.remove_nth n l = Some l' -> incl l' l.
Proof.
  induction n as [|k IH]; intros [|x r] l'; cbn [S.remove_nth]; try discriminate.
  - intro H; inversion H; subst. intros y Hy. right. exact Hy.
  - destruct (S.remove_nth k r) eqn:E; cbn [option_map]; [|discriminate].
    intro H; inversion H; subst. intros y [<-|Hy]; [left; reflexivity|right; eapply IH; eauto].
Qed.

Lemma client_step_nums st r st' :
  S.client_step st r = Some st' ->
  nums_ok (fst st ++ snd st) r /\ incl (fst st' ++ snd st') (fst st ++ snd st).
Proof.
  destruct st as [cl news]. cbn [fst snd]. destruct r as [n|n|n|seq uid fl sh|by_uid ids|c|n|n| |c cd| ];
    cbn [S.client_step nums_ok]; intro H.
  - destruct (n =? 0) eqn:E; [discriminate|]. apply N.eqb_neq in E.
    destruct (S.remove_nth (N.to_nat n - 1) cl) as [cl'|] eqn:R; [|discriminate].
    cbn [option_map] in H. inversion H; subst. cbn [fst snd]. split; [exact E|].
    intros y Hy. apply in_app_iff in Hy as [Hy|Hy]; apply in_app_iff;
      [left; eapply remove_nth_incl; eauto|right; exact Hy].
  - destruct (n <? Store.Base.N_of_len cl); [discriminate|].
    destruct (Nat.ltb (List.length news) (N.to_nat (n - Store.Base.N_of_len cl))); [discriminate|].
    inversion H; subst. cbn [fst snd]. split; [exact I|].
    rewrite <- app_assoc, firstn_skipn. apply incl_refl.
  - inversion H; subst. split; [exact I|apply incl_refl].
  - destruct (seq =? 0) eqn:E; [discriminate|]. apply N.eqb_neq in E.
    destruct (nth_error cl (N.to_nat seq - 1)) as [u|] eqn:Nt; [|discriminate].
    destruct (u =? uid) eqn:Eu; [|discriminate]. apply N.eqb_eq in Eu. subst u.
    inversion H; subst. cbn [fst snd]. split; [|apply incl_refl]. split; [exact E|].
    apply in_app_iff. left. eapply nth_error_In, Nt.
  - destruct by_uid.
    + inversion H; subst. split; [exact I|apply incl_refl].
    + destruct (forallb _ ids) eqn:F; [|discriminate]. inversion H; subst. cbn [fst snd].
      split; [|apply incl_refl]. apply Forall_forall. intros su Hsu.
      rewrite forallb_forall in F. specialize (F su Hsu). apply andb_true_iff in F as [F _].
      apply negb_true_iff in F. apply N.eqb_neq in F. exact F.
  - inversion H; subst. split; [exact I|apply incl_refl].
  - inversion H; subst. split; [exact I|apply incl_refl].
  - inversion H; subst. split; [exact I|apply incl_refl].
  - inversion H; subst. split; [exact I|apply incl_refl].
  - inversion H; subst. split; [exact I|apply incl_refl].
  - discriminate.
Qed.

Lemma client_run_nums rs : forall st st',
  Store.CompareProofs.client_run_st st rs = Some st' ->
  Forall (nums_ok (fst st ++ snd st)) rs.
Proof.
  induction rs as [|r rs IH]; intros st st' H; [constructor|].
  cbn [Store.CompareProofs.client_run_st] in H.
  destruct (S.client_step st r) as [st1|] eqn:E; [|discriminate].
  destruct (client_step_nums st r st1 E) as [Hn Hi]. constructor; [exact Hn|].
  specialize (IH st1 st' H). eapply Forall_impl; [|exact IH].
  intros a Ha. destruct a as [n|n|n|seq uid fl sh|by_uid ids|c|n|n| |c cd| ]; cbn [nums_ok] in *; auto.
  destruct Ha as [A B]. split; [exact A|apply Hi, B].
Qed.

(* ------------------------------------------ UIDs of reachable views are >= 1 *)
Lemma view_uids_pos sy s V :
  Store.SystemProofs.Inv sy -> S.view_of sy s = Some V -> forall u, In u V -> u <> 0.
Proof.
  intros HI Hv u Hu. pose proof (Store.SystemProofs.inv_sess_of sy s HI) as Hs.
  unfold S.view_of, S.sel_of in Hv. unfold Store.SystemProofs.SessOK in Hs.
  destruct (S.ss_sel (S.sess_of sy s)) as [sel|] eqn:E; [|discriminate].
  cbn [option_map] in Hv. inversion Hv; subst V. destruct Hs as [[b [Hb Hsel]] _].
  pose proof (Store.SelProofs.si_known b sel Hsel u Hu) as Hk.
  destruct HI as [G _]. pose proof (G _ _ Hb) as HB.
  pose proof (Store.MailboxProofs.bi_range b HB u Hk) as Hr. lia.
Qed.

Lemma ndiff_incl a b : incl (Store.Base.ndiff a b) a.
Proof.
  unfold Store.Base.ndiff. intros x Hx. apply filter_In in Hx. tauto.
Qed.

(* ---------------------------------------------------- the rendered responses *)
Definition sys_flag : list bytes := Eval vm_compute in
  map pbs ["\Answered"; "\Deleted"; "\Draft"; "\Flagged"; "\Seen"; "\Recent"].

Lemma wf_atom_flag a : wf_atom a = true -> wf_flag a = true.
Proof.
  intro H. unfold wf_flag. destruct a as [|c t]; [exact H|].
  destruct (N.eq_dec c 92) as [->|Hc].
  - exfalso. unfold wf_atom in H. cbn in H. discriminate H.
  - destruct c as [|p]; [exact H|]. repeat (destruct p as [p|p|]; try exact H). congruence.
Qed.

Lemma flag_name_wf kw f : (forall n, wf_atom (kw n) = true) -> wf_flag (flag_name kw f) = true.
Proof.
  intro Hk. unfold flag_name.
  repeat match goal with |- context [if ?c then _ else _] => destruct c; [reflexivity|] end.
  apply wf_atom_flag, Hk.
Qed.

Lemma render_wf kw uids r p :
  (forall n, wf_atom (kw n) = true) -> (forall u, In u uids -> u <> 0) ->
  nums_ok uids r -> render kw r = Some p -> wf_resp p = true.
Proof.
  intros Hk Hu Hn Hr.
  destruct r as [n|n|n|seq uid fl sh|by_uid ids|c|n|n| |c cd| ]; cbn [render] in Hr; try discriminate.
  - inversion Hr; subst. cbn [wf_resp nums_ok] in *. unfold pos. apply N.ltb_lt. lia.
  - inversion Hr; subst. reflexivity.
  - inversion Hr; subst. reflexivity.
  - inversion Hr; subst. cbn [nums_ok] in Hn. destruct Hn as [Hs Hin]. specialize (Hu _ Hin).
    cbn [wf_resp nonempty]. rewrite andb_true_r.
    assert (Hf : forallb wf_flag (map (flag_name kw) fl) = true).
    { apply forallb_forall. intros x Hx. apply in_map_iff in Hx as (f & <- & _).
      apply flag_name_wf, Hk. }
    apply andb_true_iff. split; [unfold pos; apply N.ltb_lt; lia|].
    destruct sh; cbn [forallb wf_fetch_item]; rewrite Hf; cbn [andb]; [|reflexivity].
    rewrite andb_true_r. unfold pos. apply N.ltb_lt. lia.
  - destruct by_uid; [discriminate|]. inversion Hr; subst. cbn [wf_resp nums_ok] in *.
    apply forallb_forall. intros x Hx. apply in_map_iff in Hx as (su & <- & Hsu).
    rewrite Forall_forall in Hn. specialize (Hn su Hsu). unfold pos. apply N.ltb_lt. lia.
Qed.

(* every message-data response of every step of every reachable state *)
Theorem store_step_wf kw ls l s :
  (forall n, wf_atom (kw n) = true) ->
  let sy := S.exec S.sys_empty ls in
  S.label_actor l = Some s -> S.view_of (fst (S.step sy l)) s <> None ->
  forallb wf_resp (render_all kw (snd (S.step sy l))) = true.
Proof.
  intros Hk sy Ha Hv.
  pose proof (Store.StoreExamples.reachable_inv ls) as HI. fold sy in HI.
  pose proof (Store.SystemProofs.step_ok sy l HI) as (HI' & _ & _ & Cl).
  specialize (Cl s Ha). destruct (S.view_of (fst (S.step sy l)) s) as [V'|] eqn:Ev; [|congruence].
  destruct Cl as (start & Hst & Hrun).
  pose proof (client_run_nums _ _ _ Hrun) as Hn. cbn [fst snd] in Hn.
  assert (Hu : forall u, In u (start ++ Store.Base.ndiff V' start) -> u <> 0).
  { intros u Hin. apply in_app_iff in Hin as [Hin|Hin].
    - destruct (S.starts_fresh sy l); [subst start; destruct Hin|].
      eapply view_uids_pos; [exact HI|exact Hst|exact Hin].
    - apply ndiff_incl in Hin. eapply view_uids_pos; [exact HI'|exact Ev|exact Hin]. }
  clear Hrun Ev Hv HI'. induction (snd (S.step sy l)) as [|r rs IH]; [reflexivity|].
  inversion Hn as [|r' rs' Hr Hrs]; subst. cbn [render_all].
  destruct (render kw r) as [p|] eqn:Er; [|apply IH, Hrs].
  cbn [forallb]. rewrite (render_wf kw _ r p Hk Hu Hr Er). apply IH, Hrs.
Qed.

(* ... hence their serialisation is well-formed (C07 without a measured
   hypothesis for these responses) *)
Theorem store_step_stream_wf kw ls l s :
  (forall n, wf_atom (kw n) = true) ->
  let sy := S.exec S.sys_empty ls in
  S.label_actor l = Some s -> S.view_of (fst (S.step sy l)) s <> None ->
  wf_response (print_stream (render_all kw (snd (S.step sy l)))) = true.
Proof. intros Hk sy Ha Hv. apply stream_wf. apply (store_step_wf kw ls l s); assumption. Qed.
