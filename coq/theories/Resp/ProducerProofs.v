(* Resp/ProducerProofs.v — the responses built by the producer model satisfy
   [wf_resp]; composed with C07 their serialisation is well-formed, for every
   client input and every mailbox content. *)
From PV Require Import Base.Prelude Base.Decimal Resp.Grammar Resp.Printer Resp.Wf
  Resp.LexProofs Resp.ListProofs Resp.RespProofs Resp.Producer.
From Coq Require Import Lia ZifyBool String.

Local Open Scope string_scope.
Local Open Scope N_scope.
Local Open Scope list_scope.

(* ------------------------------------------------------------ the parsers *)
Lemma py_tag_char_ok c : py_tag_char c = true -> is_tag_char c = true.
Proof. unfold py_tag_char, is_tag_char, is_astring_char, is_atom_char, in_rng. lia. Qed.
Lemma py_atom_char_ok c : py_atom_char c = true -> is_atom_char c = true.
Proof. unfold py_atom_char, is_atom_char, in_rng. lia. Qed.

Lemma span_all p l : forallb p (fst (span p l)) = true.
Proof.
  induction l as [|c r IH]; [reflexivity|]. cbn [span]. destruct (p c) eqn:E; [|reflexivity].
  destruct (span p r) as [a b]. cbn [fst forallb] in *. rewrite E, IH. reflexivity.
Qed.

Lemma parse_with_all p buf tok rest :
  parse_with p buf = Some (tok, rest) -> nonempty tok = true /\ forallb p tok = true.
Proof.
  unfold parse_with. pose proof (span_all p (skip_sp buf)) as H.
  destruct (span p (skip_sp buf)) as [[|c t] r]; [discriminate|].
  intro E; inversion E; subst. split; [reflexivity|exact H].
Qed.

(* whatever the client sends, a tag that Tag.parse accepts is a tag of the RFC *)
Lemma parse_tag_wf buf tag rest : parse_tag buf = Some (tag, rest) -> wf_tag tag = true.
Proof.
  intro H. apply parse_with_all in H as [H1 H2]. unfold wf_tag. rewrite H1. cbn [andb].
  eapply forallb_impl; [exact py_tag_char_ok|exact H2].
Qed.

Lemma parse_atom_wf buf a rest : parse_atom buf = Some (a, rest) -> wf_atom a = true.
Proof.
  intro H. apply parse_with_all in H as [H1 H2]. unfold wf_atom. rewrite H1. cbn [andb].
  eapply forallb_impl; [exact py_atom_char_ok|exact H2].
Qed.

Lemma upper_atom c : is_atom_char c = true -> is_atom_char (upper c) = true.
Proof. unfold upper, is_atom_char, in_rng. destruct ((97 <=? c) && (c <=? 122)) eqn:E; lia. Qed.
Lemma lower_atom c : is_atom_char c = true -> is_atom_char (lower c) = true.
Proof. unfold lower, is_atom_char, in_rng. destruct ((65 <=? c) && (c <=? 90)) eqn:E; lia. Qed.

Lemma wf_atom_not_bs c t : wf_atom (c :: t) = true -> c <> 92.
Proof.
  unfold wf_atom. cbn [nonempty forallb andb]. intro H. apply andb_true_iff in H as [H _].
  unfold is_atom_char in H. lia.
Qed.

(* a flag or keyword that Flag.parse accepts is a flag of the RFC *)
Lemma parse_flag_wf buf f rest : parse_flag buf = Some (f, rest) -> wf_flag f = true.
Proof.
  unfold parse_flag. cbv zeta. destruct (match skip_sp buf with c :: _ => c =? 92 | [] => false end).
  - destruct (parse_atom (tl (skip_sp buf))) as [[a r]|] eqn:E; [|discriminate].
    intro H; inversion H; subst. apply parse_atom_wf in E.
    destruct a as [|x t]; [discriminate E|]. cbn [capitalize_flag wf_flag].
    unfold wf_atom in *. cbn [nonempty forallb andb] in *.
    apply andb_true_iff in E as [E1 E2]. rewrite (upper_atom x E1). cbn [andb].
    clear E1 H. induction t as [|y t IH]; [reflexivity|]. cbn [map forallb] in *.
    apply andb_true_iff in E2 as [A B]. rewrite (lower_atom y A), (IH B). reflexivity.
  - destruct (parse_atom (skip_sp buf)) as [[a r]|] eqn:E; [|discriminate].
    intro H; inversion H; subst. apply parse_atom_wf in E.
    destruct a as [|x t]; [discriminate E|]. pose proof (wf_atom_not_bs x t E) as Hx.
    assert (Ec : capitalize_flag (x :: t) = x :: t).
    { unfold capitalize_flag. destruct x as [|p]; [reflexivity|].
      repeat (destruct p as [p|p|]; try reflexivity). congruence. }
    rewrite Ec. unfold wf_flag. destruct x as [|p]; [exact E|].
    repeat (destruct p as [p|p|]; try exact E). congruence.
Qed.

(* ------------------------------------------------------------------ texts *)
Definition text_suffix_ok (suffix : bytes) : bool :=
  forallb is_text_char suffix && negb (has 93 suffix).

Lemma wf_text_atom_words ws suffix :
  ws <> [] -> Forall (fun w => wf_atom w = true) ws ->
  nonempty suffix = true -> text_suffix_ok suffix = true ->
  wf_text (join_sp ws ++ suffix) = true.
Proof.
  intros Hne Hw Hs Hok. unfold text_suffix_ok in Hok. apply andb_true_iff in Hok as [S1 S2].
  apply negb_true_iff in S2.
  assert (Hj : forallb is_text_char (join_sp ws) = true /\ has 93 (join_sp ws) = false
               /\ nonempty (join_sp ws) = true).
  { destruct ws as [|w ws]; [congruence|]. inversion Hw as [|w' ws' Hw1 Hws]; subst.
    rewrite join_sp_cons.
    assert (A : forall a, wf_atom a = true ->
                forallb is_text_char a = true /\ has 93 a = false).
    { intros a Ha. split; [apply tc_atom, Ha|]. unfold wf_atom in Ha.
      apply andb_true_iff in Ha as [_ Ha]. unfold has. induction a as [|c t IH]; [reflexivity|].
      cbn [forallb existsb] in *. apply andb_true_iff in Ha as [Hc Ht]. rewrite (IH Ht).
      unfold is_atom_char in Hc. rewrite orb_false_r. apply N.eqb_neq. lia. }
    destruct (A w Hw1) as [A1 A2].
    assert (B : forallb is_text_char (sp_join ws) = true /\ has 93 (sp_join ws) = false).
    { clear Hne Hw. induction Hws as [|y ys Hy Hys IH]; [split; reflexivity|].
      cbn [sp_join flat_map]. fold (sp_join ys). destruct (A y Hy) as [Y1 Y2]. destruct IH as [I1 I2].
      split.
      - cbn [app forallb]. rewrite forallb_app, Y1, I1. reflexivity.
      - unfold has in *. cbn [app existsb]. rewrite existsb_app, Y2, I2. reflexivity. }
    destruct B as [B1 B2]. split; [rewrite forallb_app, A1, B1; reflexivity|]. split.
    - unfold has in *. rewrite existsb_app, A2, B2. reflexivity.
    - destruct w; [discriminate Hw1|reflexivity]. }
  destruct Hj as (J1 & J2 & J3).
  unfold wf_text. rewrite forallb_app, J1, S1.
  destruct (join_sp ws) as [|c t] eqn:Ej; [discriminate J3|]. cbn [app nonempty andb].
  destruct (N.eq_dec c 91) as [->|Hc].
  - unfold has in *. cbn [existsb] in J2. apply orb_false_iff in J2 as [_ J2].
    rewrite existsb_app, J2, S2. reflexivity.
  - destruct c as [|p]; [reflexivity|]. repeat (destruct p as [p|p|]; try reflexivity). congruence.
Qed.

Lemma commands_atoms : forallb (fun c => forallb (fun w => wf_atom w) [c]) [] = true.
Proof. reflexivity. Qed.

(* a command name of the table, followed by one of the constant endings *)
Definition cmd_text_ok (suffix : bytes) : bool :=
  forallb (fun c => wf_text (c ++ suffix)) COMMANDS.
Lemma completed_texts : cmd_text_ok (pbs " completed.") = true.
Proof. vm_compute. reflexivity. Qed.
Lemma refusal_texts :
  cmd_text_ok (pbs ": Already authenticated.") && cmd_text_ok (pbs ": Must authenticate first.") &&
  cmd_text_ok (pbs ": Must select a mailbox first.") && cmd_text_ok (pbs ": Not Implemented") = true.
Proof. vm_compute. reflexivity. Qed.

Lemma cmd_text_in suffix c : cmd_text_ok suffix = true -> In c COMMANDS -> wf_text (c ++ suffix) = true.
Proof. unfold cmd_text_ok. rewrite forallb_forall. intros H Hc. apply H, Hc. Qed.

Lemma completed_wf tag c cd :
  wf_tag tag = true -> In c COMMANDS -> opt_all wf_code cd = true ->
  wf_resp (completed tag c cd) = true.
Proof.
  intros Ht Hc Hcd. unfold completed. cbn [wf_resp]. rewrite Ht, Hcd.
  rewrite (cmd_text_in _ c completed_texts Hc). reflexivity.
Qed.

Lemma refuse_wf tag c k : wf_tag tag = true -> In c COMMANDS -> wf_resp (refuse tag c k) = true.
Proof.
  intros Ht Hc. pose proof refusal_texts as R.
  apply andb_true_iff in R as [R R4]. apply andb_true_iff in R as [R R3].
  apply andb_true_iff in R as [R1 R2].
  destruct k; cbn [refuse wf_resp opt_all]; rewrite Ht; cbn [andb];
    [rewrite (cmd_text_in _ c R1 Hc)|rewrite (cmd_text_in _ c R2 Hc)
    |rewrite (cmd_text_in _ c R3 Hc)|rewrite (cmd_text_in _ c R4 Hc)]; reflexivity.
Qed.

Lemma status_lines_wf tag c cd k :
  wf_tag tag = true -> In c COMMANDS -> opt_all wf_code cd = true ->
  wf_resp (completed tag c cd) = true /\ wf_resp (refuse tag c k) = true.
Proof. intros Ht Hc Hcd. split; [apply completed_wf|apply refuse_wf]; assumption. Qed.

Lemma upper_bytes_atom w : wf_atom w = true -> wf_atom (upper_bytes w) = true.
Proof.
  unfold wf_atom, upper_bytes. intro H. apply andb_true_iff in H as [H1 H2].
  destruct w as [|c t]; [discriminate|]. cbn [map nonempty andb]. clear H1.
  change (upper c :: map upper t) with (map upper (c :: t)).
  induction (c :: t) as [|y l IH]; [reflexivity|]. cbn [map forallb] in *.
  apply andb_true_iff in H2 as [A B]. rewrite (upper_atom y A), (IH B). reflexivity.
Qed.

(* BAD for an unknown / malformed command: the echoed words are atoms the
   client chose freely *)
Lemma invalid_command_wf tag words known :
  opt_all wf_tag tag = true -> Forall (fun w => wf_atom w = true) words ->
  wf_resp (invalid_command tag words known) = true.
Proof.
  intros Ht Hw. unfold invalid_command. cbn [wf_resp opt_all].
  assert (Htag : match tag with
                 | Some t => wf_tag t && true
                 | None => true
                 end = true) by (destruct tag; cbn [opt_all] in Ht; [rewrite Ht|]; reflexivity).
  rewrite Htag. cbn [andb]. destruct words as [|w ws]; [reflexivity|].
  assert (Hu : Forall (fun w => wf_atom w = true) (map upper_bytes (w :: ws))).
  { apply Forall_forall. intros x Hx. apply in_map_iff in Hx as (y & <- & Hy).
    apply upper_bytes_atom. rewrite Forall_forall in Hw. apply Hw, Hy. }
  destruct known; apply wf_text_atom_words; try exact Hu; try discriminate; reflexivity.
Qed.

(* ------------------------------------------------------------ mailbox data *)
Lemma hex_digit_oid d : d < 16 -> is_oid_char (hex_digit d) = true.
Proof.
  intro H. unfold hex_digit. destruct (d <? 10) eqn:E;
    unfold is_oid_char, is_alpha, is_digit, in_rng; lia.
Qed.

Lemma hex_fixed_oid k : forall x,
  forallb is_oid_char (hex_fixed k x) = true /\ List.length (hex_fixed k x) = k.
Proof.
  induction k as [|k IH]; intro x; [split; reflexivity|]. cbn [hex_fixed].
  destruct (IH (x / 16)) as [A B]. split.
  - rewrite forallb_app, A. cbn [forallb]. rewrite hex_digit_oid; [reflexivity|].
    apply N.mod_lt. lia.
  - rewrite app_length, B. cbn. lia.
Qed.

Lemma mailbox_id_wf bits : wf_oid (mailbox_id_of bits) = true.
Proof.
  unfold wf_oid, mailbox_id_of. destruct (hex_fixed_oid 32 bits) as [A B].
  cbn [nonempty forallb List.length]. rewrite A, B. reflexivity.
Qed.

Lemma uid_validity_pos t r : pos (uid_validity_of t r) = true.
Proof.
  unfold pos, uid_validity_of. cbv zeta. generalize ((t mod 65535) * 65536 + r). intro v.
  destruct (v =? 0) eqn:E; [reflexivity|]. apply N.eqb_neq in E. apply N.ltb_lt. lia.
Qed.

Theorem do_select_wf tag sn : wf_tag tag = true -> forallb wf_resp (do_select tag sn) = true.
Proof.
  intro Ht. unfold do_select. rewrite !forallb_app. cbn [forallb].
  assert (H1 : wf_resp (if sn_readonly sn
                        then RCond None OK (Some (CPermanentFlags [])) (pbs "Read-only mailbox.")
                        else RCond None OK (Some (CPermanentFlags SYSTEM_FLAGS)) (pbs "Flags permitted."))
               = true) by (destruct (sn_readonly sn); reflexivity).
  rewrite H1. cbn [andb].
  replace (wf_resp (RFlags (SYSTEM_FLAGS ++ [RECENT_FLAG]))) with true by reflexivity.
  cbn [wf_resp opt_all wf_code andb].
  assert (Hn : pos (sn_max_uid sn + 1) = true) by (unfold pos; lia).
  rewrite Hn, uid_validity_pos, mailbox_id_wf, Ht.
  replace (wf_text (pbs "Predicted next UID.")) with true by reflexivity.
  replace (wf_text (pbs "UIDs valid.")) with true by reflexivity.
  replace (wf_text (pbs "Object ID.")) with true by reflexivity.
  replace (wf_text (pbs "Selected mailbox.")) with true by reflexivity.
  cbn [andb].
  assert (Hu : forallb wf_resp
            (match sn_first_unseen sn with
             | Some (N.pos p) => [RCond None OK (Some (CUnseen (N.pos p))) (pbs "First unseen message.")]
             | _ => []
             end) = true).
  { destruct (sn_first_unseen sn) as [[|p]|]; reflexivity. }
  rewrite Hu. destruct (sn_readonly sn); reflexivity.
Qed.

Theorem do_status_wf tag name req sn :
  wf_tag tag = true -> forallb wf_resp (do_status tag name req sn) = true.
Proof.
  intro Ht. unfold do_status. cbn [forallb]. rewrite andb_true_r.
  rewrite completed_wf; [|exact Ht|vm_compute; tauto|reflexivity]. rewrite andb_true_r.
  cbn [wf_resp]. apply forallb_forall. intros i Hi. apply in_map_iff in Hi as (q & <- & _).
  destruct q; cbn [status_value wf_status_item]; try reflexivity. apply mailbox_id_wf.
Qed.

Lemma list_attributes_wf e c :
  forallb wf_atom (list_attributes e None c) = true /\
  Nat.leb (count_sflags (list_attributes e None c)) 1 = true.
Proof. destruct e, c; split; reflexivity. Qed.

Theorem do_list_wf tag lsub entries :
  wf_tag tag = true -> forallb wf_resp (do_list tag lsub entries) = true.
Proof.
  intro Ht. unfold do_list. rewrite forallb_app. cbn [forallb]. rewrite andb_true_r.
  rewrite completed_wf; [|exact Ht|destruct lsub; vm_compute; tauto|reflexivity].
  rewrite andb_true_r. apply forallb_forall. intros r Hr. apply in_map_iff in Hr as (e & <- & _).
  cbn [wf_resp]. destruct (list_attributes_wf (snd (fst e)) (snd e)) as [A B]. rewrite A, B.
  reflexivity.
Qed.

Theorem do_list_root_wf tag lsub :
  wf_tag tag = true -> forallb wf_resp (do_list_root tag lsub) = true.
Proof.
  intro Ht. unfold do_list_root. cbn [forallb]. rewrite andb_true_r.
  rewrite completed_wf; [|exact Ht|destruct lsub; vm_compute; tauto|reflexivity].
  rewrite andb_true_r. reflexivity.
Qed.

Lemma num_atom n : forallb is_atom_char (num n) = true.
Proof.
  eapply forallb_impl; [|apply num_digits]. intros c H. unfold is_digit, is_atom_char, in_rng in *. lia.
Qed.

Theorem do_capability_wf tag lim :
  wf_tag tag = true -> forallb wf_resp (do_capability tag lim) = true.
Proof.
  intro Ht. unfold do_capability. cbn [forallb wf_resp opt_all]. rewrite Ht.
  replace (wf_text (pbs "Capabilities listed.")) with true by reflexivity. cbn [andb].
  rewrite andb_true_r. rewrite !forallb_app.
  replace (forallb wf_atom CAPS_A) with true by reflexivity.
  replace (forallb wf_atom CAPS_B) with true by reflexivity. rewrite andb_true_r. cbn [andb].
  destruct lim as [n|]; [|reflexivity]. cbn [forallb]. rewrite andb_true_r.
  unfold wf_atom. rewrite forallb_app, num_atom. reflexivity.
Qed.

Theorem do_id_wf tag : wf_tag tag = true -> forallb wf_resp (do_id tag) = true.
Proof.
  intro Ht. unfold do_id. cbn [forallb]. rewrite completed_wf; [reflexivity|exact Ht| |reflexivity].
  vm_compute. tauto.
Qed.

(* ------------------------------------------- composed with C07 (stream_wf) *)
(* one command line of a logged-in client, end to end: whatever bytes the
   client sent as its tag, whatever the mailbox holds, the bytes written for
   SELECT / EXAMINE are a well-formed stream *)
Theorem select_stream_wf line tag rest sn :
  parse_tag line = Some (tag, rest) ->
  wf_response (print_stream (do_select tag sn)) = true.
Proof. intro H. apply stream_wf, do_select_wf. eapply parse_tag_wf, H. Qed.

Theorem status_stream_wf line tag rest name req sn :
  parse_tag line = Some (tag, rest) ->
  wf_response (print_stream (do_status tag name req sn)) = true.
Proof. intro H. apply stream_wf, do_status_wf. eapply parse_tag_wf, H. Qed.

Theorem list_stream_wf line tag rest lsub entries :
  parse_tag line = Some (tag, rest) ->
  wf_response (print_stream (do_list tag lsub entries)) = true.
Proof. intro H. apply stream_wf, do_list_wf. eapply parse_tag_wf, H. Qed.

Theorem invalid_stream_wf line words known :
  Forall (fun w => exists b r, parse_atom b = Some (w, r)) words ->
  wf_response (print_stream
    [invalid_command (option_map fst (parse_tag line)) words known]) = true.
Proof.
  intro Hw. apply stream_wf. cbn [forallb]. rewrite andb_true_r. apply invalid_command_wf.
  - destruct (parse_tag line) as [[t r]|] eqn:E; [|reflexivity]. cbn [option_map fst opt_all].
    eapply parse_tag_wf, E.
  - eapply Forall_impl; [|exact Hw]. intros w (b & r & E). eapply parse_atom_wf, E.
Qed.
