(* Resp/FetchProducerCheck.v — case checkers for the correspondence family
   `fetch_producer` of harness/props/C07.py: the harness parses a hostile
   message with the real pymap.mime, records what the stdlib email package
   decided for the header of every part (keyed by the start offset of the
   part's first header line), and the bytes of every real fetch value and of
   the real FETCH response; Coq re-parses the literal with C03's model under
   those decisions, rebuilds every fetch value with Resp/FetchProducer.v and
   prints it with Resp/Printer.v. *)
From PV Require Import Base.Prelude Base.Decimal Mime.Lines Mime.Parts Mime.Fields Mime.MimeCheck
     Resp.Grammar Resp.Printer Resp.Wf Resp.FetchProducer.

Local Open Scope N_scope.

Definition key_of (hl : list line) : option nat :=
  match hl with [] => None | l :: _ => Some (l_start l) end.

(* parts not listed have headers none of which the producer reads *)
Definition hd_of_table (t : list (nat * hdata)) (hl : list line) : hdata :=
  match key_of hl with
  | None => no_headers
  | Some k => match find (fun e => Nat.eqb (fst e) k) t with
              | Some e => snd e
              | None => no_headers
              end
  end.
(* decoded bodies of the parts with a non-identity transfer encoding *)
Definition dec_of_table (t : list (nat * bytes)) (c : content) : option bytes :=
  match key_of (c_hl c) with
  | None => None
  | Some k => option_map snd (find (fun e => Nat.eqb (fst e) k) t)
  end.

Definition meta_ok (m : msgmeta) : bool :=
  pos (mm_uid m) && py_datetime (mm_date m) && forallb wf_flag (mm_flags m) &&
  wf_oid (mm_email m) && opt_all wf_oid (mm_thread m).

(* (literal, decisions, decoded bodies, metadata, sequence number,
    [(attribute, bytes(real fetch value))], bytes(real FetchResponse)) *)
Definition fp_case : Type :=
  bytes * list (nat * hdata) * list (nat * bytes) * msgmeta * N * list (fattr * bytes) * bytes.

Definition chk_item (d : bytes) hd dec m c (q : fattr * bytes) : bool :=
  wf_fattr (fst q) &&
  match fetch_value d hd dec m c (fst q) with
  | Ok i => bytes_eqb (print_fetch_item i) (snd q) && wf_fetch_item i
  | _ => false
  end.

(* indices of the items on which model and implementation differ *)
Definition fp_bad_items (x : fp_case) : list nat :=
  let '(d, t, dt, m, seq, qs, whole) := x in
  let hd := hd_of_table t in
  let dec := dec_of_table dt in
  match parse d (ct hd) with
  | Ok c => bad_indices (chk_item d hd dec m c) qs
  | _ => [0%nat]
  end.

Definition chk_fetch_producer (x : fp_case) : bool :=
  let '(d, t, dt, m, seq, qs, whole) := x in
  let hd := hd_of_table t in
  let dec := dec_of_table dt in
  forallb (fun e => hd_ok (snd e)) t && meta_ok m &&
  match parse d (ct hd) with
  | Ok c => forallb (chk_item d hd dec m c) qs
  | _ => false
  end &&
  match fetch_response d hd dec seq m (map fst qs) with
  | Ok r => bytes_eqb (print_resp r) whole && wf_resp r && wf_response whole
  | _ => false
  end.
