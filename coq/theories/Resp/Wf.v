(* Resp/Wf.v — what the response AST may contain: the facts about a response
   object that pymap's own types, parsers and configuration guarantee and that
   the AST's types do not already express.  Nothing here restricts a
   client-influenced string: mailbox names, header-derived values, MIME
   parameter names and values, address parts, literal payloads and the nesting
   of body structures are arbitrary.  What is restricted:
     - the tag is what Tag.parse accepted; flags and keywords are what
       Flag.parse accepted (an optional backslash and an atom);
     - human-readable texts are the non-empty constants of the code (or a
       command name atom followed by one of them);
     - numbers that the RFC wants non-zero (sequence numbers, UIDs, UIDNEXT,
       UIDVALIDITY) are non-zero; object ids are [A-Za-z0-9_-]{1,255};
     - a datetime has Python's field ranges;
     - fetch sections are what FetchAttribute.parse accepted;
     - a single-part body structure that is not a TextBodyStructure /
       MessageBodyStructure does not have the media type "text" /
       "message/rfc822" (pymap/message.py dispatches on exactly that);
     - server configuration (capabilities, ID parameters, hierarchy
       delimiter, LIST attributes) is sane.
   All predicates are boolean so that the correspondence run evaluates them on
   the ASTs taken from the running server.  Definitions only. *)
From PV Require Import Base.Prelude Base.Decimal Resp.Grammar Resp.Printer.
From Coq Require Import String.
Local Open Scope string_scope.

Local Open Scope N_scope.
Local Open Scope list_scope.

Definition nonempty {A} (l : list A) : bool := match l with [] => false | _ => true end.
Definition wf_atom (b : bytes) : bool := nonempty b && forallb is_atom_char b.
Definition wf_flag (f : bytes) : bool :=
  match f with 92 :: r => wf_atom r | _ => wf_atom f end.
Definition wf_flag_perm (f : bytes) : bool :=
  match f with [92; 42] => true | _ => wf_flag f end.
Definition wf_tag (t : bytes) : bool := nonempty t && forallb is_tag_char t.
Definition wf_text (t : bytes) : bool :=
  nonempty t && forallb is_text_char t &&
  negb (match t with 91 :: r => has 93 r | _ => false end).
Definition wf_oid (o : bytes) : bool :=
  nonempty o && forallb is_oid_char o && Nat.leb (List.length o) 255%nat.
Definition pos (n : N) : bool := 0 <? n.

(* names whose response code has an argument syntax of its own *)
Definition CODES_WITH_ARGS : list bytes :=
  K_CAPABILITY :: K_PERMANENTFLAGS :: K_APPENDUID :: K_COPYUID :: K_MAILBOXID :: CODES_NZ.
Definition wf_code (c : code) : bool :=
  match c with
  | CAnon name => wf_atom name && negb (mem_ci name CODES_WITH_ARGS)
  | CCapability caps => forallb wf_atom caps
  | CPermanentFlags fl => forallb wf_flag_perm fl
  | CUidNext n | CUidValidity n | CUnseen n => pos n
  | CAppendUid v uids => pos v && nonempty uids && forallb pos uids
  | CCopyUid v s d => pos v && nonempty s && forallb pos s && nonempty d && forallb pos d
  | CMailboxId o => wf_oid o
  end.

Definition wf_datetime (d : datetime) : bool :=
  (dt_day d <? 100) && (1 <=? dt_month d) && (dt_month d <=? 12) && (dt_year d <? 10000) &&
  (dt_hour d <? 100) && (dt_min d <? 100) && (dt_sec d <? 100) && (dt_off d <? 360000).

Definition opt_all {A} (p : A -> bool) (o : option A) : bool :=
  match o with Some x => p x | None => true end.
Definition wf_envelope (e : envelope) : bool := opt_all wf_datetime (e_date e).

Definition TEXT_U : bytes := Eval vm_compute in pbs "TEXT".
Definition MESSAGE_U : bytes := Eval vm_compute in pbs "MESSAGE".
Definition RFC822_U : bytes := Eval vm_compute in pbs "RFC822".
Fixpoint wf_body (b : body) : bool :=
  match b with
  | BMulti parts _ _ _ _ _ => forallb wf_body parts
  | BBasic mt st _ =>
    negb (eqb_ci mt TEXT_U) && negb (eqb_ci mt MESSAGE_U && eqb_ci st RFC822_U)
  | BText _ _ _ => true
  | BMsg _ _ env b' => wf_envelope env && wf_body b'
  end.

Definition SPEC_PLAIN : list bytes := [K_HEADER; K_TEXT].
Definition SPEC_FIELDS : list bytes := Eval vm_compute in
  [K_HEADER_FIELDS; K_HEADER_FIELDS ++ K_DOTNOT].
(* BODY[...] *)
Definition wf_section (s : fsection) : bool :=
  forallb pos (fs_parts s) &&
  match fs_spec s with
  | None => match fs_headers s with [] => true | _ => false end
  | Some sp =>
    if existsb (bytes_eqb sp) SPEC_PLAIN then match fs_headers s with [] => true | _ => false end
    else if bytes_eqb sp K_MIME then
      nonempty (fs_parts s) && match fs_headers s with [] => true | _ => false end
    else if existsb (bytes_eqb sp) SPEC_FIELDS then
      nonempty (fs_headers s)
    else false
  end.
(* BINARY[...] *)
Definition wf_section_binary (s : fsection) : bool :=
  forallb pos (fs_parts s) &&
  match fs_spec s, fs_headers s with None, [] => true | _, _ => false end.

Definition wf_fetch_item (i : fetch_item) : bool :=
  match i with
  | FUid n => pos n
  | FFlags fl => forallb wf_flag fl
  | FInternalDate d => wf_datetime d
  | FEmailId o => wf_oid o
  | FThreadId o => opt_all wf_oid o
  | FEnvelope e => wf_envelope e
  | FBodyStructure b | FBody b => wf_body b
  | FBodySection s _ _ => wf_section s
  | FRfc822 _ _ | FRfc822Size _ => true
  | FBinary s _ _ => wf_section_binary s
  | FBinarySize s _ => wf_section_binary s
  end.

Definition wf_status_item (i : status_item) : bool :=
  match i with SNum _ _ => true | SMailboxId o => wf_oid o end.
Definition count_sflags (attrs : list bytes) : nat :=
  List.length (filter (fun a => mem_ci a SFLAGS) attrs).
Definition seven_bit (v : pyval) : bool :=
  match v with VBytes b => forallb (fun c => c <? 128) b | _ => true end.
Definition wf_id_pair (kv : pyval * pyval) : bool :=
  match fst kv with VNone => false | _ => true end && seven_bit (fst kv) && seven_bit (snd kv).

Definition wf_resp (r : resp) : bool :=
  match r with
  | RCond t c cd text =>
    match t with
    | None => true
    | Some t => wf_tag t && match c with OK | NO | BAD => true | _ => false end
    end && opt_all wf_code cd && wf_text text
  | RCont text => match text with [] => true | _ => wf_text text end
  | RCapability caps => forallb wf_atom caps
  | RFlags fl => forallb wf_flag fl
  | RExists _ | RRecent _ => true
  | RExpunge n => pos n
  | RFetch n items => pos n && nonempty items && forallb wf_fetch_item items
  | RSearch ids => forallb pos ids
  | RStatus _ items => forallb wf_status_item items
  | RList _ _ sep attrs =>
    forallb wf_atom attrs && Nat.leb (count_sflags attrs) 1%nat &&
    match sep with
    | None | Some [] => true
    | Some [c] => printable c && negb (c =? 38)
    | Some _ => false
    end
  | RId p => opt_all (forallb wf_id_pair) p
  end.
