(* Resp/RespProofs.v — resp-text with codes, FETCH items, mailbox data,
   whole responses and the stream theorem C07. *)
From PV Require Import Base.Prelude Base.Decimal Resp.Grammar Resp.Printer Resp.Wf
  Resp.LexProofs Resp.ListProofs Resp.BodyProofs.
From Coq Require Import Lia ZifyBool String.

Local Open Scope string_scope.
Local Open Scope N_scope.
Local Open Scope list_scope.

(* ------------------------------------------- the inside of a code is text *)
Definition tc (l : bytes) : Prop := forallb is_text_char l = true.

Lemma tc_app a b : tc a -> tc b -> tc (a ++ b).
Proof. unfold tc. intros. rewrite forallb_app. rewrite H, H0. reflexivity. Qed.
Lemma tc_cons c l : is_text_char c = true -> tc l -> tc (c :: l).
Proof. unfold tc. intros. cbn [forallb]. rewrite H, H0. reflexivity. Qed.
Lemma tc_nil : tc [].  Proof. reflexivity. Qed.

Lemma atom_char_text c : is_atom_char c = true -> is_text_char c = true.
Proof. unfold is_atom_char, is_text_char, in_rng. lia. Qed.
Lemma digit_text c : is_digit c = true -> is_text_char c = true.
Proof. unfold is_digit, is_text_char, in_rng. lia. Qed.
Lemma oid_char_text c : is_oid_char c = true -> is_text_char c = true.
Proof. unfold is_oid_char, is_alpha, is_digit, is_text_char, in_rng. lia. Qed.

Lemma tc_num n : tc (num n).
Proof. eapply forallb_impl; [exact digit_text|apply num_digits]. Qed.
Lemma tc_atom a : wf_atom a = true -> tc a.
Proof.
  unfold wf_atom. intro H. apply andb_true_iff in H as [_ H].
  eapply forallb_impl; [exact atom_char_text|exact H].
Qed.
Lemma tc_flag f : wf_flag f = true -> tc f.
Proof.
  unfold wf_flag. intro H. destruct f as [|c t]; [reflexivity|].
  destruct (N.eq_dec c 92) as [->|Hc].
  - apply tc_cons; [reflexivity|]. apply tc_atom, H.
  - apply tc_atom. destruct c as [|p]; [exact H|].
    repeat (destruct p as [p|p|]; try exact H). congruence.
Qed.
Lemma tc_flag_perm f : wf_flag_perm f = true -> tc f.
Proof. intro H. apply wf_flag_perm_cases in H as [->|H]; [reflexivity|apply tc_flag, H]. Qed.

Lemma tc_sp_join ys : Forall tc ys -> tc (sp_join ys).
Proof.
  intro H. induction H as [|y ys Hy Hys IH]; [exact tc_nil|].
  cbn [sp_join flat_map]. apply tc_cons; [reflexivity|]. apply tc_app; assumption.
Qed.
Lemma tc_py_list ys : Forall tc ys -> tc (py_list ys).
Proof.
  intro H. unfold py_list. apply tc_cons; [reflexivity|]. apply tc_app; [|reflexivity].
  destruct H as [|y ys Hy Hys]; [exact tc_nil|]. rewrite join_sp_cons.
  apply tc_app; [exact Hy|apply tc_sp_join, Hys].
Qed.

Lemma tc_print_flags (P : bytes -> bool) fl :
  (forall f, P f = true -> tc f) -> forallb P fl = true -> tc (print_flags fl).
Proof.
  intros HP H. unfold print_flags. apply tc_py_list. apply sort_by_Forall.
  eapply Forall_impl'; [|apply forallb_Forall, H]. exact HP.
Qed.

Lemma tc_group g : tc (print_group g).
Proof.
  unfold print_group. destruct (fst g =? snd g); [apply tc_num|].
  apply tc_app; [apply tc_num|]. apply tc_cons; [reflexivity|apply tc_num].
Qed.
Lemma tc_join_comma gs : tc (join_comma (map print_group gs)).
Proof.
  induction gs as [|g gs IH]; [exact tc_nil|].
  destruct gs as [|g2 gs]; [apply tc_group|].
  change (join_comma (map print_group (g :: g2 :: gs)))
    with (print_group g ++ 44 :: join_comma (map print_group (g2 :: gs))).
  apply tc_app; [apply tc_group|]. apply tc_cons; [reflexivity|exact IH].
Qed.
Lemma tc_uidset uids : tc (print_uidset uids).
Proof. unfold print_uidset. destruct (sorted_set uids); [exact tc_nil|apply tc_join_comma]. Qed.

Lemma code_inner_tc c inner :
  wf_code c = true -> print_code c = 91 :: inner ++ [93] -> tc inner.
Proof.
  intros Hwf E.
  assert (Einj : forall a b : bytes, 91 :: a ++ [93] = 91 :: b ++ [93] -> a = b).
  { intros a b H. injection H as H. apply app_inv_tail in H. exact H. }
  destruct c as [name|caps|fl|n|n|n|v uids|v s d|oid]; cbn [print_code wf_code] in *.
  - apply Einj in E. subst inner. apply andb_true_iff in Hwf as [Ha _]. apply tc_atom, Ha.
  - apply Einj in E. subst inner. unfold capability_string. rewrite join_sp_cons.
    apply tc_app; [reflexivity|]. apply tc_sp_join. constructor; [reflexivity|].
    eapply Forall_impl'; [|apply forallb_Forall, Hwf]. exact tc_atom.
  - replace (91 :: pbs "PERMANENTFLAGS " ++ print_flags fl ++ [93])
      with (91 :: (pbs "PERMANENTFLAGS " ++ print_flags fl) ++ [93]) in E by (assoc; reflexivity).
    apply Einj in E. subst inner. apply tc_app; [reflexivity|].
    apply (tc_print_flags wf_flag_perm); [exact tc_flag_perm|exact Hwf].
  - replace (91 :: pbs "UIDNEXT " ++ num n ++ [93])
      with (91 :: (pbs "UIDNEXT " ++ num n) ++ [93]) in E by (assoc; reflexivity).
    apply Einj in E. subst inner. apply tc_app; [reflexivity|apply tc_num].
  - replace (91 :: pbs "UIDVALIDITY " ++ num n ++ [93])
      with (91 :: (pbs "UIDVALIDITY " ++ num n) ++ [93]) in E by (assoc; reflexivity).
    apply Einj in E. subst inner. apply tc_app; [reflexivity|apply tc_num].
  - replace (91 :: pbs "UNSEEN " ++ num n ++ [93])
      with (91 :: (pbs "UNSEEN " ++ num n) ++ [93]) in E by (assoc; reflexivity).
    apply Einj in E. subst inner. apply tc_app; [reflexivity|apply tc_num].
  - replace (91 :: pbs "APPENDUID " ++ num v ++ SPc :: print_uidset uids ++ [93])
      with (91 :: (pbs "APPENDUID " ++ num v ++ SPc :: print_uidset uids) ++ [93]) in E
      by (assoc; reflexivity).
    apply Einj in E. subst inner. apply tc_app; [reflexivity|]. apply tc_app; [apply tc_num|].
    apply tc_cons; [reflexivity|apply tc_uidset].
  - replace (91 :: pbs "COPYUID " ++ num v ++ SPc :: print_uidset s ++ SPc :: print_uidset d ++ [93])
      with (91 :: (pbs "COPYUID " ++ num v ++ SPc :: print_uidset s ++ SPc :: print_uidset d) ++ [93])
      in E by (assoc; reflexivity).
    apply Einj in E. subst inner. apply tc_app; [reflexivity|]. apply tc_app; [apply tc_num|].
    apply tc_cons; [reflexivity|]. apply tc_app; [apply tc_uidset|].
    apply tc_cons; [reflexivity|apply tc_uidset].
  - replace (91 :: pbs "MAILBOXID (" ++ oid ++ [41; 93])
      with (91 :: (pbs "MAILBOXID (" ++ oid ++ [41]) ++ [93]) in E by (assoc; reflexivity).
    apply Einj in E. subst inner. apply tc_app; [reflexivity|]. apply tc_app; [|reflexivity].
    unfold wf_oid in Hwf. apply andb_true_iff in Hwf as [Hwf _]. apply andb_true_iff in Hwf as [_ Hwf].
    eapply forallb_impl; [exact oid_char_text|exact Hwf].
Qed.

(* Response.text of a response with a condition: [code SP] text *)
Definition code_text (cd : option code) (t : bytes) : bytes :=
  match cd with Some c => print_code c ++ SPc :: t | None => t end.

Lemma resp_text_print cd t fuel rest :
  opt_all wf_code cd = true -> wf_text t = true -> nohead is_text_char rest ->
  fits (code_text cd t ++ rest) fuel ->
  resp_text fuel (code_text cd t ++ rest) = Some rest.
Proof.
  intros Hc Ht Hr Hlen. destruct cd as [c|]; cbn [code_text opt_all] in *.
  - destruct (resp_text_code_print c fuel (SPc :: t ++ rest) Hc) as (inner & E & Hp).
    { revert Hlen. assoc. lens'. }
    pose proof (code_inner_tc c inner Hc E) as Htc.
    rewrite E. unfold resp_text. assoc. cbn [app].
    rewrite has_rbracket_app by exact Htc. rewrite Hp. rewrite ch_cons. unfold SPc. rewrite sp_cons.
    unfold wf_text in Ht. apply andb_true_iff in Ht as [Ht _]. apply andb_true_iff in Ht as [H1 H2].
    apply text_wf; assumption.
  - apply resp_text_plain; assumption.
Qed.

(* ------------------------------------- lists whose items need the fuel bound *)
Lemma sp_items_join' item (ok : bytes -> Prop) n ys : forall fuel rest,
  Forall (fun y => forall r, ok r -> fits (y ++ r) n -> item (y ++ r) = Some r) ys ->
  (forall r, ok (32 :: r)) -> ok rest -> not_sp rest ->
  fits (sp_join ys ++ rest) fuel -> fits (sp_join ys ++ rest) n ->
  sp_items fuel item (sp_join ys ++ rest) = Some rest.
Proof.
  induction ys as [|y ys IH]; intros fuel rest Hall Hsp Hok Hns Hlen Hn.
  - cbn [sp_join flat_map app] in *. destruct fuel as [|f]; [lens'|]. cbn [sp_items].
    destruct rest as [|c r]; [reflexivity|]. cbn in Hns.
    destruct c as [|p]; [reflexivity|].
    repeat (destruct p as [p|p|]; try reflexivity). discriminate Hns.
  - inversion Hall as [|y' ys' Hy Hys]; subst.
    cbn [sp_join flat_map] in *. fold (sp_join ys) in *.
    destruct fuel as [|f]; [lens'|]. cbn [sp_items app].
    rewrite <- app_assoc in *. rewrite Hy.
    + apply IH; try assumption; [revert Hlen; lens'|revert Hn; lens'].
    + destruct ys as [|y2 ys2]; cbn [sp_join flat_map app]; [exact Hok|apply Hsp].
    + revert Hn. lens'.
Qed.

Lemma plist1_py' item (ok : bytes -> Prop) y ys fuel rest :
  Forall (fun y => forall r, ok r -> fits (y ++ r) fuel -> item (y ++ r) = Some r) (y :: ys) ->
  (forall r, ok (32 :: r)) -> ok (41 :: rest) ->
  fits (py_list (y :: ys) ++ rest) fuel ->
  plist1 fuel item (py_list (y :: ys) ++ rest) = Some rest.
Proof.
  intros Hall Hsp Hok Hlen. unfold py_list, plist1 in *. cbn [app] in *. rewrite ch_cons.
  inversion Hall as [|y' ys' Hy Hys]; subst.
  rewrite join_sp_cons in *. rewrite <- !app_assoc in *. rewrite Hy.
  - rewrite sp_items_join' with (ok := ok) (n := fuel); try assumption.
    + cbn [app]. apply ch_cons.
    + reflexivity.
    + revert Hlen. lens'.
    + revert Hlen. lens'.
  - destruct ys; cbn [sp_join flat_map app]; [exact Hok|apply Hsp].
  - revert Hlen. lens'.
Qed.

(* ----------------------------------------------------------------- sections *)
Definition dot_join (l : list N) : bytes := flat_map (fun y => 46 :: num y) l.

Lemma join_dot_flat x r : join_dot (x :: r) = num x ++ dot_join r.
Proof.
  revert x; induction r as [|y r IH]; intro x.
  - cbn. rewrite app_nil_r. reflexivity.
  - change (join_dot (x :: y :: r)) with (num x ++ 46 :: join_dot (y :: r)).
    rewrite IH. reflexivity.
Qed.

Lemma nohead_digit_dot X : nohead is_digit (46 :: X).  Proof. reflexivity. Qed.

Lemma dot_numbers_print l : forall fuel X,
  forallb pos l = true -> nohead is_digit X -> nohead (N.eqb 46) X ->
  fits (dot_join l ++ X) fuel ->
  dot_numbers fuel (dot_join l ++ X) = Some X.
Proof.
  induction l as [|y l IH]; intros fuel X Hp Hd Hn Hlen.
  - cbn [dot_join flat_map app] in *. destruct fuel as [|f]; [lens'|]. cbn [dot_numbers].
    destruct X as [|c r]; [reflexivity|]. cbn in Hn.
    destruct c as [|p]; [reflexivity|]. repeat (destruct p as [p|p|]; try reflexivity).
    discriminate Hn.
  - cbn [forallb] in Hp. apply andb_true_iff in Hp as [Hy Hp].
    cbn [dot_join flat_map] in *. fold (dot_join l) in *.
    destruct fuel as [|f]; [lens'|]. cbn [dot_numbers app]. rewrite <- app_assoc in *.
    rewrite nz_number_num; [|exact Hy|].
    + apply IH; try assumption. revert Hlen. lens'.
    + destruct l; cbn [dot_join flat_map app]; [exact Hd|reflexivity].
Qed.

Lemma section_binary_print s fuel X :
  wf_section_binary s = true -> fits (print_section s ++ X) fuel ->
  section_binary fuel (print_section s ++ X) = Some X.
Proof.
  unfold wf_section_binary, print_section. intros H Hlen.
  apply andb_true_iff in H as [Hp H].
  destruct (fs_spec s); [discriminate|]. destruct (fs_headers s); [|discriminate].
  destruct (fs_parts s) as [|x r] eqn:Ep.
  - reflexivity.
  - rewrite join_dot_flat in *. cbn [app] in *. revert Hlen. assoc. intro Hlen.
    cbn [forallb] in Hp. apply andb_true_iff in Hp as [Hx Hp].
    unfold section_binary. rewrite ch_cons.
    destruct (num_head_not_sp x) as (c & t & Ec & Dc).
    assert (Hm : forall A (P : bytes -> A) (Q : A),
               match num x ++ dot_join r ++ [] ++ [] ++ 93 :: X with 93 :: r' => P r' | _ => Q end = Q).
    { intros A P Q. rewrite Ec. cbn [app].
      destruct (is_digit_cases c Dc) as [->|[->|[->|[->|[->|[->|[->|[->|[->| ->]]]]]]]]];
        reflexivity. }
    cbn [app] in *. rewrite Hm.
    rewrite nz_number_num; [|exact Hx|destruct r; reflexivity].
    rewrite dot_numbers_print; [apply ch_cons|exact Hp|reflexivity|reflexivity|].
    revert Hlen. lens'.
Qed.

Lemma header_name_astring h r :
  nohead is_astring_char r -> astring (print_header_name h ++ r) = Some r.
Proof.
  intro Hr. unfold print_header_name.
  assert (Hlit : astring (print_literal h false ++ r) = Some r).
  { unfold astring. replace (many1 is_astring_char (print_literal h false ++ r)) with (@None bytes)
      by reflexivity. apply string_sobj with (o := OLiteral h false); [reflexivity|discriminate]. }
  destruct (build (VBytes h)) as [|q|l bin] eqn:Eb; try exact Hlit.
  destruct (forallb (fun c => c <? 128) h) eqn:E7; [|exact Hlit].
  apply astring_print; [|exact Hr].
  destruct h as [|c t]; [reflexivity|]. cbn [build] in Eb.
  apply choose_quoted_safe in Eb as (_ & H13 & H10 & H0).
  apply text_chars_of_7bit; assumption.
Qed.

Lemma section_part_tail_dots r : forall fuel T res,
  forallb pos r = true -> nohead is_digit T ->
  (forall fu, fits T fu -> section_part_tail fu T = Some res) ->
  fits (dot_join r ++ T) fuel ->
  section_part_tail fuel (dot_join r ++ T) = Some res.
Proof.
  induction r as [|y r IH]; intros fuel T res Hp Hd HT Hlen.
  - cbn [dot_join flat_map app] in *. apply HT, Hlen.
  - cbn [forallb] in Hp. apply andb_true_iff in Hp as [Hy Hp].
    cbn [dot_join flat_map] in *. fold (dot_join r) in *.
    destruct fuel as [|f]; [lens'|]. cbn [section_part_tail app]. rewrite <- app_assoc in *.
    destruct (num_head_not_sp y) as (c & t & Ec & Dc). rewrite Ec at 1. cbn [app]. rewrite Dc.
    rewrite nz_number_num; [|exact Hy|destruct r; [exact Hd|reflexivity]].
    apply IH; try assumption. revert Hlen. lens'.
Qed.

Lemma msgtext_plain sp fuel X :
  existsb (bytes_eqb sp) SPEC_PLAIN = true -> section_msgtext fuel (sp ++ 93 :: X) = Some (93 :: X).
Proof.
  unfold SPEC_PLAIN. cbn [existsb]. intro H.
  apply orb_true_iff in H as [H|H]; [|apply orb_true_iff in H as [H|H]; [|discriminate]];
    apply bytes_eqb_eq in H; subst sp; reflexivity.
Qed.

Lemma kw_dotnot_sp X : kw K_DOTNOT (32 :: X) = None.
Proof. reflexivity. Qed.

Lemma msgtext_fields sp hs fuel X :
  existsb (bytes_eqb sp) SPEC_FIELDS = true -> nonempty hs = true ->
  fits (sp ++ 32 :: py_list (map print_header_name (sort_by bytes_ltb hs)) ++ 93 :: X) fuel ->
  section_msgtext fuel (sp ++ 32 :: py_list (map print_header_name (sort_by bytes_ltb hs)) ++ 93 :: X)
  = Some (93 :: X).
Proof.
  intros H Hne Hlen.
  assert (Hs : sort_by bytes_ltb hs <> []) by (apply sort_by_nonempty; destruct hs; [discriminate|discriminate]).
  destruct (sort_by bytes_ltb hs) as [|h1 hs1]; [congruence|]. cbn [map] in *.
  assert (Hl : plist1 fuel astring (py_list (print_header_name h1 :: map print_header_name hs1) ++ 93 :: X)
               = Some (93 :: X)).
  { apply plist1_py with (ok := nohead is_astring_char).
    - apply Forall_forall. intros y Hy r Hr.
      assert (Hy' : In y (map print_header_name (h1 :: hs1))) by exact Hy.
      apply in_map_iff in Hy' as (h & <- & _). apply header_name_astring, Hr.
    - reflexivity.
    - reflexivity.
    - revert Hlen. lens'. }
  unfold SPEC_FIELDS in H. cbn [existsb] in H.
  apply orb_true_iff in H as [H|H]; [|apply orb_true_iff in H as [H|H]; [|discriminate]];
    apply bytes_eqb_eq in H; subst sp; unfold section_msgtext.
  - rewrite kw_app by reflexivity. rewrite kw_dotnot_sp. rewrite sp_cons. exact Hl.
  - change ([72; 69; 65; 68; 69; 82; 46; 70; 73; 69; 76; 68; 83; 46; 78; 79; 84])
      with (K_HEADER_FIELDS ++ K_DOTNOT). rewrite <- app_assoc.
    rewrite kw_app by reflexivity. rewrite kw_app by reflexivity. rewrite sp_cons. exact Hl.
Qed.

Lemma section_digit fuel c t : is_digit c = true ->
  section fuel (91 :: c :: t) =
  (r1 <- (x <- nz_number (c :: t) ;; section_part_tail fuel x) ;; ch 93 r1).
Proof.
  intro H. unfold section. rewrite ch_cons.
  destruct (is_digit_cases c H) as [->|[->|[->|[->|[->|[->|[->|[->|[->| ->]]]]]]]]]; reflexivity.
Qed.

Lemma section_spec_start fuel sp t :
  existsb (bytes_eqb sp) (SPEC_PLAIN ++ SPEC_FIELDS) = true ->
  section fuel (91 :: sp ++ t) = (r1 <- section_msgtext fuel (sp ++ t) ;; ch 93 r1).
Proof.
  intro H. unfold SPEC_PLAIN, SPEC_FIELDS in H. cbn [app existsb] in H.
  repeat (apply orb_true_iff in H as [H|H]; [apply bytes_eqb_eq in H; subst sp; reflexivity|]).
  discriminate H.
Qed.

Lemma spec_tail_plain sp X fu :
  existsb (bytes_eqb sp) SPEC_PLAIN = true -> fits (46 :: sp ++ 93 :: X) fu ->
  section_part_tail fu (46 :: sp ++ 93 :: X) = Some (93 :: X).
Proof.
  intros H Hlen. destruct fu as [|f]; [lens'|].
  unfold SPEC_PLAIN in H. cbn [existsb] in H.
  repeat (apply orb_true_iff in H as [H|H]; [apply bytes_eqb_eq in H; subst sp; reflexivity|]).
  discriminate H.
Qed.

Lemma spec_tail_mime X fu :
  fits (46 :: K_MIME ++ 93 :: X) fu ->
  section_part_tail fu (46 :: K_MIME ++ 93 :: X) = Some (93 :: X).
Proof. intro Hlen. destruct fu as [|f]; [lens'|]. reflexivity. Qed.

Lemma spec_tail_fields sp hs X fu :
  existsb (bytes_eqb sp) SPEC_FIELDS = true -> nonempty hs = true ->
  fits (46 :: sp ++ 32 :: py_list (map print_header_name (sort_by bytes_ltb hs)) ++ 93 :: X) fu ->
  section_part_tail fu (46 :: sp ++ 32 :: py_list (map print_header_name (sort_by bytes_ltb hs)) ++ 93 :: X)
  = Some (93 :: X).
Proof.
  intros H Hne Hlen. destruct fu as [|f]; [lens'|].
  pose proof (msgtext_fields sp hs (S f) X H Hne) as Hm.
  assert (Hl : fits (sp ++ 32 :: py_list (map print_header_name (sort_by bytes_ltb hs)) ++ 93 :: X) (S f))
    by (revert Hlen; lens').
  specialize (Hm Hl). revert Hm.
  unfold SPEC_FIELDS in H. cbn [existsb] in H.
  repeat (apply orb_true_iff in H as [H|H];
          [apply bytes_eqb_eq in H; subst sp; intro Hm; cbn [section_part_tail app is_digit];
           cbn [app] in Hm; exact Hm|]).
  discriminate H.
Qed.

Lemma section_print s fuel X :
  wf_section s = true -> fits (print_section s ++ X) fuel ->
  section fuel (print_section s ++ X) = Some X.
Proof.
  unfold wf_section, print_section. intros H Hlen. apply andb_true_iff in H as [Hp H].
  destruct (fs_spec s) as [sp|].
  - destruct (existsb (bytes_eqb sp) SPEC_PLAIN) eqn:E1.
    + (* HEADER / TEXT *)
      destruct (fs_headers s); [|discriminate].
      assert (Hsp : exists c t, sp = c :: t).
      { unfold SPEC_PLAIN in E1. cbn [existsb] in E1.
        repeat (apply orb_true_iff in E1 as [E1|E1];
                [apply bytes_eqb_eq in E1; subst sp; eexists; eexists; reflexivity|]).
        discriminate E1. }
      destruct Hsp as (c0 & t0 & ->).
      destruct (fs_parts s) as [|x r].
      * cbn [app] in *. revert Hlen. assoc. intro Hlen. cbn [app].
        rewrite app_comm_cons. rewrite section_spec_start.
        -- rewrite msgtext_plain by exact E1. apply ch_cons.
        -- rewrite existsb_app, E1. reflexivity.
      * rewrite join_dot_flat in *. cbn [forallb] in Hp. apply andb_true_iff in Hp as [Hx Hp].
        revert Hlen. assoc. intro Hlen. cbn [app] in *.
        destruct (num_head_not_sp x) as (c & t & Ec & Dc).
        assert (Es : forall T, section fuel (91 :: num x ++ T) =
                     (r1 <- (x0 <- nz_number (num x ++ T) ;; section_part_tail fuel x0) ;; ch 93 r1)).
        { intro T. rewrite Ec. cbn [app]. apply section_digit, Dc. }
        rewrite Es. rewrite nz_number_num; [|exact Hx|destruct r; reflexivity].
        match goal with |- context [section_part_tail fuel ?l] =>
          assert (Ht : section_part_tail fuel l = Some (93 :: X)) end.
        { apply section_part_tail_dots; [exact Hp|reflexivity| |revert Hlen; lens'].
          intros fu Hfu. rewrite app_comm_cons. apply spec_tail_plain; [exact E1|].
          rewrite <- app_comm_cons. exact Hfu. }
        rewrite Ht. apply ch_cons.
    + destruct (bytes_eqb sp K_MIME) eqn:E2.
      * (* MIME *)
        apply bytes_eqb_eq in E2. subst sp. apply andb_true_iff in H as [Hne H].
        destruct (fs_headers s); [|discriminate].
        destruct (fs_parts s) as [|x r]; [discriminate|].
        rewrite join_dot_flat in *. cbn [forallb] in Hp. apply andb_true_iff in Hp as [Hx Hp].
        change K_MIME with [77; 73; 77; 69] in *.
        revert Hlen. assoc. intro Hlen. cbn [app] in *.
        destruct (num_head_not_sp x) as (c & t & Ec & Dc).
        assert (Es : forall T, section fuel (91 :: num x ++ T) =
                     (r1 <- (x0 <- nz_number (num x ++ T) ;; section_part_tail fuel x0) ;; ch 93 r1)).
        { intro T. rewrite Ec. cbn [app]. apply section_digit, Dc. }
        rewrite Es. rewrite nz_number_num; [|exact Hx|destruct r; reflexivity].
        match goal with |- context [section_part_tail fuel ?l] =>
          assert (Ht : section_part_tail fuel l = Some (93 :: X)) end.
        { apply section_part_tail_dots; [exact Hp|reflexivity| |revert Hlen; lens'].
          intros fu Hfu. apply (spec_tail_mime X fu). exact Hfu. }
        rewrite Ht. apply ch_cons.
      * destruct (existsb (bytes_eqb sp) SPEC_FIELDS) eqn:E3; [|discriminate].
        (* HEADER.FIELDS / HEADER.FIELDS.NOT *)
        assert (Hsp : exists c t, sp = c :: t).
        { unfold SPEC_FIELDS in E3. cbn [existsb] in E3.
          repeat (apply orb_true_iff in E3 as [E3|E3];
                  [apply bytes_eqb_eq in E3; subst sp; eexists; eexists; reflexivity|]).
          discriminate E3. }
        destruct Hsp as (c0 & t0 & Esp).
        destruct (fs_headers s) as [|h hs] eqn:Eh; [discriminate|].
        set (HL := py_list (map print_header_name (sort_by bytes_ltb (h :: hs)))) in *.
        assert (Hshape : forall P : bytes,
          (91 :: P ++ (match sp with
                       | c :: sp0 => (c :: sp0) ++ SPc :: HL
                       | [] => []
                       end) ++ [93]) ++ X = 91 :: P ++ sp ++ 32 :: HL ++ 93 :: X).
        { intro P. rewrite Esp. unfold SPc. assoc. reflexivity. }
        destruct (fs_parts s) as [|x r].
        -- specialize (Hshape []). cbn [app] in Hshape. cbn [app] in *.
           rewrite Esp in *. cbn [app] in *. revert Hlen. assoc. intro Hlen. cbn [app] in *.
           rewrite app_comm_cons. rewrite <- Esp in *. rewrite section_spec_start.
           ++ unfold HL in *. rewrite msgtext_fields; [apply ch_cons|exact E3|reflexivity|].
              revert Hlen. unfold SPc. rewrite Esp. lens'.
           ++ rewrite existsb_app, E3. apply orb_true_r.
        -- rewrite join_dot_flat in *. cbn [forallb] in Hp. apply andb_true_iff in Hp as [Hx Hp].
           rewrite Esp in *. revert Hlen. assoc. intro Hlen. cbn [app] in *.
           destruct (num_head_not_sp x) as (c & t & Ec & Dc).
           assert (Es : forall T, section fuel (91 :: num x ++ T) =
                        (r1 <- (x0 <- nz_number (num x ++ T) ;; section_part_tail fuel x0) ;; ch 93 r1)).
           { intro T. rewrite Ec. cbn [app]. apply section_digit, Dc. }
           rewrite Es. rewrite nz_number_num; [|exact Hx|destruct r; reflexivity].
           match goal with |- context [section_part_tail fuel ?l] =>
          assert (Ht : section_part_tail fuel l = Some (93 :: X)) end.
        { apply section_part_tail_dots; [exact Hp|reflexivity| |revert Hlen; lens'].
          intros fu Hfu. unfold HL, SPc in *.
          apply (spec_tail_fields (c0 :: t0)); [exact E3|reflexivity|exact Hfu]. }
        rewrite Ht. apply ch_cons.
  - (* no specifier *)
    destruct (fs_headers s); [|discriminate].
    destruct (fs_parts s) as [|x r]; [reflexivity|].
    rewrite join_dot_flat in *. cbn [forallb] in Hp. apply andb_true_iff in Hp as [Hx Hp].
    revert Hlen. assoc. intro Hlen. cbn [app] in *.
    destruct (num_head_not_sp x) as (c & t & Ec & Dc).
    assert (Es : forall T, section fuel (91 :: num x ++ T) =
                 (r1 <- (x0 <- nz_number (num x ++ T) ;; section_part_tail fuel x0) ;; ch 93 r1)).
    { intro T. rewrite Ec. cbn [app]. apply section_digit, Dc. }
    rewrite Es. rewrite nz_number_num; [|exact Hx|destruct r; reflexivity].
    match goal with |- context [section_part_tail fuel ?l] =>
          assert (Ht : section_part_tail fuel l = Some (93 :: X)) end.
        { apply section_part_tail_dots; [exact Hp|reflexivity| |revert Hlen; lens'].
          intros fu Hfu. destruct fu as [|f]; [revert Hfu; lens'|]. reflexivity. }
        rewrite Ht. apply ch_cons.
Qed.

(* -------------------------------------------------------------- fetch items *)
Ltac eval_closed' :=
  repeat match goal with
  | |- context [eqb_ci ?a ?b] =>
    let v := eval vm_compute in (eqb_ci a b) in change (eqb_ci a b) with v
  | |- context [mem_ci ?a ?b] =>
    let v := eval vm_compute in (mem_ci a b) in change (mem_ci a b) with v
  end; cbn iota.

Lemma span_name k X :
  forallb is_name_char k = true -> nohead is_name_char X -> span is_name_char (k ++ X) = (k, X).
Proof. intros. apply span_app; assumption. Qed.

Lemma origin_print o X : nohead (N.eqb 60) X -> origin (print_origin o ++ X) = Some X.
Proof.
  intro H. destruct o as [n|]; cbn [print_origin app].
  - unfold origin. assoc. rewrite number_num by reflexivity. cbn [app]. apply ch_cons.
  - unfold origin. destruct X as [|c r]; [reflexivity|]. cbn in H.
    destruct c as [|p]; [reflexivity|]. repeat (destruct p as [p|p|]; try reflexivity).
    discriminate H.
Qed.

Lemma nstring_literal d X : nstring (print_literal d false ++ X) = Some X.
Proof. apply nstring_sobj with (o := OLiteral d false). reflexivity. Qed.

Lemma nstring_literal8_none d X : nstring (print_literal d true ++ X) = None.
Proof. reflexivity. Qed.

Lemma print_section_head s : exists t, print_section s = 91 :: t.
Proof. eexists. reflexivity. Qed.

Lemma fetch_item_print i fuel r :
  wf_fetch_item i = true -> nohead is_digit r -> fits (print_fetch_item i ++ r) fuel ->
  msg_att_item fuel (print_fetch_item i ++ r) = Some r.
Proof.
  intros Hwf Hr Hlen. unfold msg_att_item.
  destruct i as [n|fl|d|oid|oid|e|b|b|s o d|k d|n|s o d|s n]; cbn [print_fetch_item wf_fetch_item] in *.
  - change (pbs "UID ") with (K_UID ++ [32]). assoc.
    rewrite span_name by reflexivity. change K_UID with [85; 73; 68]. eval_closed'.
    rewrite sp_cons. apply nz_number_num; assumption.
  - change (pbs "FLAGS ") with (K_FLAGS ++ [32]) in *. revert Hlen. assoc. intro Hlen.
    rewrite span_name by reflexivity. change K_FLAGS with [70; 76; 65; 71; 83]. eval_closed'.
    rewrite sp_cons. apply flag_list_print; [exact Hwf|]. revert Hlen. lens'.
  - change (pbs "INTERNALDATE ") with (K_INTERNALDATE ++ [32]). assoc.
    rewrite span_name by reflexivity.
    change K_INTERNALDATE with [73; 78; 84; 69; 82; 78; 65; 76; 68; 65; 84; 69]. eval_closed'.
    rewrite sp_cons. apply date_time_print, Hwf.
  - change (pbs "EMAILID (") with (K_EMAILID ++ [32; 40]). assoc.
    rewrite span_name by reflexivity. change K_EMAILID with [69; 77; 65; 73; 76; 73; 68]. eval_closed'.
    rewrite sp_cons. apply objectid_print, Hwf.
  - destruct oid as [oid|]; cbn [opt_all] in Hwf.
    + change (pbs "THREADID (") with (K_THREADID ++ [32; 40]). assoc.
      rewrite span_name by reflexivity.
      change K_THREADID with [84; 72; 82; 69; 65; 68; 73; 68]. eval_closed'.
      rewrite sp_cons. cbn [app]. rewrite objectid_print by exact Hwf. reflexivity.
    + change (pbs "THREADID NIL") with (K_THREADID ++ 32 :: K_NIL). assoc.
      rewrite span_name by reflexivity.
      change K_THREADID with [84; 72; 82; 69; 65; 68; 73; 68]. eval_closed'.
      rewrite sp_cons. reflexivity.
  - change (pbs "ENVELOPE ") with (K_ENVELOPE ++ [32]) in *. revert Hlen. assoc. intro Hlen.
    rewrite span_name by reflexivity.
    change K_ENVELOPE with [69; 78; 86; 69; 76; 79; 80; 69]. eval_closed'.
    rewrite sp_cons. apply envelope_print; [exact Hwf|]. revert Hlen. lens'.
  - change (pbs "BODYSTRUCTURE ") with (K_BODYSTRUCTURE ++ [32]) in *. revert Hlen. assoc. intro Hlen.
    rewrite span_name by reflexivity.
    change K_BODYSTRUCTURE with [66; 79; 68; 89; 83; 84; 82; 85; 67; 84; 85; 82; 69]. eval_closed'.
    rewrite sp_cons. apply body_print; [exact Hwf|]. revert Hlen. lens'.
  - change (pbs "BODY ") with (K_BODY ++ [32]) in *. revert Hlen. assoc. intro Hlen.
    rewrite span_name by reflexivity. change K_BODY with [66; 79; 68; 89]. eval_closed'.
    rewrite sp_cons. apply body_print; [exact Hwf|]. revert Hlen. lens'.
  - change (pbs "BODY") with K_BODY in *. revert Hlen. assoc. intro Hlen.
    destruct (print_section_head s) as [t Et].
    assert (Esp : span is_name_char (K_BODY ++ print_section s ++ print_origin o ++ SPc :: print_literal d false ++ r)
                  = (K_BODY, print_section s ++ print_origin o ++ SPc :: print_literal d false ++ r)).
    { apply span_name; [reflexivity|]. rewrite Et. reflexivity. }
    rewrite Esp. change K_BODY with [66; 79; 68; 89]. eval_closed'.
    assert (Hm : forall (A : Type) (P Q : A) l,
               match print_section s ++ l with 91 :: _ => P | _ => Q end = P).
    { intros A P Q l. rewrite Et. reflexivity. }
    rewrite Hm. clear Hm.
    rewrite section_print; [|exact Hwf|revert Hlen; lens'].
    rewrite origin_print by reflexivity. unfold SPc. rewrite sp_cons. apply nstring_literal.
  - destruct k.
    + change (pbs "RFC822 ") with (pbs "RFC822" ++ [32]). assoc.
      rewrite span_name by reflexivity. change (pbs "RFC822") with [82; 70; 67; 56; 50; 50].
      eval_closed'. rewrite sp_cons. apply nstring_literal.
    + change (pbs "RFC822.HEADER ") with (pbs "RFC822.HEADER" ++ [32]). assoc.
      rewrite span_name by reflexivity.
      change (pbs "RFC822.HEADER") with [82; 70; 67; 56; 50; 50; 46; 72; 69; 65; 68; 69; 82].
      eval_closed'. rewrite sp_cons. apply nstring_literal.
    + change (pbs "RFC822.TEXT ") with (pbs "RFC822.TEXT" ++ [32]). assoc.
      rewrite span_name by reflexivity.
      change (pbs "RFC822.TEXT") with [82; 70; 67; 56; 50; 50; 46; 84; 69; 88; 84].
      eval_closed'. rewrite sp_cons. apply nstring_literal.
  - change (pbs "RFC822.SIZE ") with (K_RFC822_SIZE ++ [32]). assoc.
    rewrite span_name by reflexivity.
    change K_RFC822_SIZE with [82; 70; 67; 56; 50; 50; 46; 83; 73; 90; 69]. eval_closed'.
    rewrite sp_cons. apply number_num, Hr.
  - change (pbs "BINARY") with K_BINARY in *. revert Hlen. assoc. intro Hlen.
    destruct (print_section_head s) as [t Et].
    assert (Esp : span is_name_char (K_BINARY ++ print_section s ++ print_origin o ++ SPc :: print_literal d true ++ r)
                  = (K_BINARY, print_section s ++ print_origin o ++ SPc :: print_literal d true ++ r)).
    { apply span_name; [reflexivity|]. rewrite Et. reflexivity. }
    rewrite Esp. change K_BINARY with [66; 73; 78; 65; 82; 89]. eval_closed'.
    rewrite section_binary_print; [|exact Hwf|revert Hlen; lens'].
    rewrite origin_print by reflexivity. unfold SPc. rewrite sp_cons.
    rewrite nstring_literal8_none. apply literal8_print.
  - change (pbs "BINARY.SIZE") with K_BINARY_SIZE in *. revert Hlen. assoc. intro Hlen.
    destruct (print_section_head s) as [t Et].
    assert (Esp : span is_name_char (K_BINARY_SIZE ++ print_section s ++ SPc :: num n ++ r)
                  = (K_BINARY_SIZE, print_section s ++ SPc :: num n ++ r)).
    { apply span_name; [reflexivity|]. rewrite Et. reflexivity. }
    rewrite Esp. change K_BINARY_SIZE with [66; 73; 78; 65; 82; 89; 46; 83; 73; 90; 69]. eval_closed'.
    rewrite section_binary_print; [|exact Hwf|revert Hlen; lens'].
    unfold SPc. rewrite sp_cons. apply number_num, Hr.
Qed.

(* ----------------------------------------------------------------- msg-att *)
Lemma msg_att_print items fuel rest :
  nonempty items = true -> forallb wf_fetch_item items = true ->
  fits (py_list (map print_fetch_item items) ++ rest) fuel ->
  msg_att fuel (py_list (map print_fetch_item items) ++ rest) = Some rest.
Proof.
  intros Hne Hwf Hlen. destruct items as [|i items]; [discriminate|]. cbn [map] in *.
  unfold msg_att. apply plist1_py' with (ok := nohead is_digit).
  - apply Forall_forall. intros y Hy r Hr Hf.
    assert (Hy' : In y (map print_fetch_item (i :: items))) by exact Hy.
    apply in_map_iff in Hy' as (it & <- & Hin).
    apply fetch_item_print; [|exact Hr|exact Hf].
    rewrite forallb_forall in Hwf. apply Hwf, Hin.
  - reflexivity.
  - reflexivity.
  - exact Hlen.
Qed.

(* -------------------------------------------------------------- LIST / LSUB *)
Definition bs_attr (a : bytes) : bytes := 92 :: a.

Lemma mbx_flags_print attrs : forall a fuel n X,
  forallb wf_atom (a :: attrs) = true ->
  fits (92 :: a ++ sp_join (map bs_attr attrs) ++ 41 :: X) fuel ->
  mbx_flags fuel n (92 :: a ++ sp_join (map bs_attr attrs) ++ 41 :: X)
  = Some ((n + count_sflags (a :: attrs))%nat, 41 :: X).
Proof.
  induction attrs as [|a2 attrs IH]; intros a fuel n X Hwf Hlen;
    (destruct fuel as [|f]; [lens'|]); cbn [forallb] in Hwf;
    apply andb_true_iff in Hwf as [Ha Hwf]; unfold wf_atom in Ha;
    apply andb_true_iff in Ha as [Ha1 Ha2]; cbn [mbx_flags].
  - cbn [map sp_join flat_map app] in *. rewrite span_app; [|exact Ha2|reflexivity].
    destruct a as [|c t]; [discriminate|]. unfold count_sflags. cbn [filter].
    destruct (mem_ci (c :: t) SFLAGS); cbn [List.length]; f_equal; f_equal; lia.
  - cbn [map sp_join flat_map] in *. fold (sp_join (map bs_attr attrs)) in *.
    unfold bs_attr at 1. unfold bs_attr at 1 in Hlen. revert Hlen. assoc. intro Hlen.
    rewrite span_app; [|exact Ha2|reflexivity].
    destruct a as [|c t]; [discriminate|].
    rewrite IH; [|exact Hwf|revert Hlen; lens'].
    unfold count_sflags. cbn [filter].
    destruct (mem_ci (c :: t) SFLAGS); cbn [List.length]; f_equal; f_equal; lia.
Qed.

Lemma delimiter_print sep X :
  match sep with
  | None | Some [] => True
  | Some [c] => printable c = true /\ (c =? 38) = false
  | Some _ => False
  end ->
  delimiter ((match sep with
              | Some (c :: s) => print_quoted (modutf7_encode (c :: s))
              | _ => NILb
              end) ++ X) = Some X.
Proof.
  destruct sep as [[|c [|d s]]|]; intro H; try reflexivity; [|destruct H].
  destruct H as [Hp Hc]. unfold modutf7_encode. cbn [m7enc]. rewrite Hc, Hp.
  unfold print_quoted, escape. cbn [flat_map].
  destruct ((c =? 34) || (c =? 92)) eqn:E.
  - cbn [app]. unfold delimiter. apply orb_true_iff in E as [E|E]; apply N.eqb_eq in E; subst c;
      reflexivity.
  - apply orb_false_iff in E as [E1 E2]. cbn [app]. unfold delimiter.
    assert (Ht : is_text_char c = true) by (apply printable_text, Hp).
    destruct c as [|p]; [discriminate Hp|].
    (* not 34, not 92: the generic pattern applies *)
    repeat (destruct p as [p|p|]; try discriminate E1; try discriminate E2;
            try reflexivity; try (rewrite Ht, E1, E2; reflexivity)).
Qed.

Lemma mailbox_list_print name sep attrs fuel rest :
  forallb wf_atom attrs = true -> Nat.leb (count_sflags attrs) 1 = true ->
  match sep with
  | None | Some [] => True
  | Some [c] => printable c = true /\ (c =? 38) = false
  | Some _ => False
  end ->
  nohead is_astring_char rest ->
  fits (py_list (map bs_attr attrs) ++ 32 ::
        (match sep with
         | Some (c :: s) => print_quoted (modutf7_encode (c :: s))
         | _ => NILb
         end) ++ 32 :: print_mailbox name ++ rest) fuel ->
  mailbox_list fuel (py_list (map bs_attr attrs) ++ 32 ::
        (match sep with
         | Some (c :: s) => print_quoted (modutf7_encode (c :: s))
         | _ => NILb
         end) ++ 32 :: print_mailbox name ++ rest) = Some rest.
Proof.
  intros Hwf Hc Hsep Hr Hlen. unfold mailbox_list, py_list in *. cbn [app] in *. rewrite ch_cons.
  destruct attrs as [|a attrs].
  - cbn [map join_sp app]. rewrite sp_cons. rewrite delimiter_print by exact Hsep.
    rewrite sp_cons. apply mailbox_print, Hr.
  - cbn [map] in *. rewrite join_sp_cons in *. unfold bs_attr at 1. unfold bs_attr at 1 in Hlen.
    revert Hlen. assoc. intro Hlen. cbn [app] in *. unfold bs_attr at 1. cbn [app].
    rewrite mbx_flags_print; [|exact Hwf|revert Hlen; lens'].
    cbn [Nat.add]. rewrite Hc. rewrite ch_cons, sp_cons.
    rewrite delimiter_print by exact Hsep. rewrite sp_cons. apply mailbox_print, Hr.
Qed.

(* ------------------------------------------------------------------- STATUS *)
Definition status_flat (i : status_item) : bytes :=
  match i with
  | SNum a n => print_status_attr a ++ 32 :: num n
  | SMailboxId oid => pbs "MAILBOXID" ++ 32 :: 40 :: oid ++ [41]
  end.

Lemma status_item_print i r :
  wf_status_item i = true -> nohead is_digit r ->
  Grammar.status_item (status_flat i ++ r) = Some r.
Proof.
  intros Hwf Hr. unfold Grammar.status_item, status_flat. destruct i as [a n|oid].
  - destruct a; cbn [print_status_attr]; assoc; (rewrite span_app; [|reflexivity|reflexivity]).
    + change (pbs "MESSAGES") with [77; 69; 83; 83; 65; 71; 69; 83]. eval_closed'.
      rewrite sp_cons. apply number_num, Hr.
    + change (pbs "RECENT") with [82; 69; 67; 69; 78; 84]. eval_closed'.
      rewrite sp_cons. apply number_num, Hr.
    + change (pbs "UIDNEXT") with [85; 73; 68; 78; 69; 88; 84]. eval_closed'.
      rewrite sp_cons. apply number_num, Hr.
    + change (pbs "UIDVALIDITY") with [85; 73; 68; 86; 65; 76; 73; 68; 73; 84; 89]. eval_closed'.
      rewrite sp_cons. apply number_num, Hr.
    + change (pbs "UNSEEN") with [85; 78; 83; 69; 69; 78]. eval_closed'.
      rewrite sp_cons. apply number_num, Hr.
  - assoc. rewrite span_app; [|reflexivity|reflexivity].
    change (pbs "MAILBOXID") with [77; 65; 73; 76; 66; 79; 88; 73; 68]. eval_closed'.
    rewrite sp_cons. cbn [app]. apply objectid_print, Hwf.
Qed.

Lemma sp_join_status items :
  sp_join (flat_map print_status_item items) = sp_join (map status_flat items).
Proof.
  induction items as [|i items IH]; [reflexivity|].
  cbn [flat_map map]. unfold sp_join in *. rewrite flat_map_app. cbn [flat_map].
  f_equal; [|exact IH].
  destruct i; cbn [print_status_item status_flat flat_map app]; assoc; rewrite ?app_nil_r; reflexivity.
Qed.

Lemma status_flat_head i : exists c t, status_flat i = c :: t /\ (c =? 41) = false.
Proof. destruct i as [[] n|oid]; eexists; eexists; split; reflexivity. Qed.

Lemma status_list_print items fuel rest :
  forallb wf_status_item items = true ->
  fits (py_list (flat_map print_status_item items) ++ rest) fuel ->
  status_att_list fuel (py_list (flat_map print_status_item items) ++ rest) = Some rest.
Proof.
  intros Hwf Hlen.
  assert (E : py_list (flat_map print_status_item items) = py_list (map status_flat items)).
  { unfold py_list. f_equal. f_equal. destruct items as [|i items]; [reflexivity|].
    cbn [flat_map map]. rewrite join_sp_cons.
    destruct i as [a n|oid]; cbn [print_status_item status_flat app]; rewrite join_sp_cons;
      cbn [sp_join flat_map]; fold (sp_join (flat_map print_status_item items));
      rewrite sp_join_status; assoc; reflexivity. }
  rewrite E in *. unfold status_att_list. apply plist_py with (ok := nohead is_digit).
  - apply Forall_forall. intros y Hy r Hr. apply in_map_iff in Hy as (i & <- & Hin).
    apply status_item_print; [|exact Hr]. rewrite forallb_forall in Hwf. apply Hwf, Hin.
  - apply Forall_forall. intros y Hy. apply in_map_iff in Hy as (i & <- & _).
    destruct (status_flat_head i) as (c & t & -> & Hc). exact Hc.
  - reflexivity.
  - reflexivity.
  - exact Hlen.
Qed.

(* ----------------------------------------------------------------------- ID *)
Definition id_items (p : list (pyval * pyval)) : list bytes :=
  flat_map (fun kv => [pstr (fst kv); pstr (snd kv)]) p.

Lemma string_id_key k X : wf_id_pair (k, VNone) = true -> string_ (pstr k ++ X) = Some X.
Proof.
  unfold wf_id_pair. cbn [fst snd seven_bit]. rewrite andb_true_r. intro H.
  apply andb_true_iff in H as [Hk Hk7].
  apply string_sobj; [apply build_ok, Hk7|].
  apply build_not_nil. destruct k; [discriminate|discriminate|discriminate].
Qed.

Lemma wf_id_pair_split k v :
  wf_id_pair (k, v) = true -> wf_id_pair (k, VNone) = true /\ seven_bit v = true.
Proof.
  unfold wf_id_pair. cbn [fst snd seven_bit]. rewrite andb_true_r. intro H.
  apply andb_true_iff in H as [H1 H2]. split; assumption.
Qed.

Lemma id_pairs_print p : forall k v fuel rest,
  forallb wf_id_pair ((k, v) :: p) = true -> nohead (N.eqb 32) rest ->
  fits (pstr k ++ 32 :: pstr v ++ sp_join (id_items p) ++ rest) fuel ->
  id_pairs fuel (pstr k ++ 32 :: pstr v ++ sp_join (id_items p) ++ rest) = Some rest.
Proof.
  induction p as [|[k2 v2] p IH]; intros k v fuel rest Hwf Hn Hlen;
    (destruct fuel as [|f]; [lens'|]); cbn [id_pairs]; cbn [forallb] in Hwf;
    apply andb_true_iff in Hwf as [Hkv Hwf]; apply wf_id_pair_split in Hkv as [Hk Hv7].
  - rewrite string_id_key by exact Hk. rewrite sp_cons, nstring_pstr by exact Hv7.
    cbn [id_items flat_map sp_join app].
    destruct rest as [|c r]; [reflexivity|]. cbn in Hn.
    destruct c as [|q]; [reflexivity|]. repeat (destruct q as [q|q|]; try reflexivity).
    discriminate Hn.
  - rewrite string_id_key by exact Hk. rewrite sp_cons, nstring_pstr by exact Hv7.
    cbn [id_items flat_map sp_join app fst snd] in *. fold (id_items p) in *.
    fold (sp_join (id_items p)) in *. revert Hlen. assoc. intro Hlen.
    apply IH; [exact Hwf|exact Hn|]. revert Hlen. lens'.
Qed.

Lemma id_params_print p fuel rest :
  opt_all (forallb wf_id_pair) p = true ->
  fits ((match p with
         | None => NILb
         | Some p => py_list (id_items p)
         end) ++ rest) fuel ->
  id_params fuel ((match p with
                   | None => NILb
                   | Some p => py_list (id_items p)
                   end) ++ rest) = Some rest.
Proof.
  intros Hwf Hlen. destruct p as [[|[k v] p]|]; try reflexivity.
  cbn [opt_all] in Hwf. unfold py_list in *. cbn [id_items flat_map app fst snd] in *.
  fold (id_items p) in *. rewrite !join_sp_cons in *. cbn [sp_join flat_map] in *.
  fold (sp_join (id_items p)) in *. revert Hlen. assoc. intro Hlen. cbn [app] in *.
  assert (Hk : exists c t, pstr k = c :: t /\ (c =? 41) = false).
  { cbn [forallb] in Hwf. apply andb_true_iff in Hwf as [Hkv _].
    apply wf_id_pair_split in Hkv as [Hkv _]. unfold wf_id_pair in Hkv.
    cbn [fst snd seven_bit] in Hkv. rewrite andb_true_r in Hkv.
    apply andb_true_iff in Hkv as [Hk Hk7].
    destruct (print_sobj_head (build k)) as [t [E|E]].
    - apply build_not_nil. destruct k; [discriminate|discriminate|discriminate].
    - apply build_ok, Hk7.
    - unfold pstr. rewrite E. eexists; eexists; split; reflexivity.
    - unfold pstr. rewrite E. eexists; eexists; split; reflexivity. }
  destruct Hk as (c & t & Ec & Hc).
  assert (Hm : id_params fuel (40 :: pstr k ++ 32 :: pstr v ++ sp_join (id_items p) ++ 41 :: rest)
               = (r1 <- id_pairs fuel (pstr k ++ 32 :: pstr v ++ sp_join (id_items p) ++ 41 :: rest) ;;
                  ch 41 r1)).
  { unfold id_params. rewrite Ec. cbn [app].
    destruct c as [|q]; [reflexivity|]. repeat (destruct q as [q|q|]; try reflexivity).
    discriminate Hc. }
  rewrite Hm. rewrite id_pairs_print; [apply ch_cons|exact Hwf|reflexivity|].
  revert Hlen. lens'.
Qed.

(* ------------------------------------------------------------------- SEARCH *)
Lemma sp_nz_numbers_print ids : forall fuel rest,
  forallb pos ids = true -> nohead is_digit rest -> not_sp rest ->
  fits (sp_join (map num ids) ++ rest) fuel ->
  sp_nz_numbers fuel (sp_join (map num ids) ++ rest) = Some rest.
Proof.
  induction ids as [|x ids IH]; intros fuel rest Hp Hd Hn Hlen;
    (destruct fuel as [|f]; [lens'|]); cbn [sp_nz_numbers].
  - cbn [map sp_join flat_map app]. destruct rest as [|c r]; [reflexivity|]. cbn in Hn.
    destruct c as [|q]; [reflexivity|]. repeat (destruct q as [q|q|]; try reflexivity).
    discriminate Hn.
  - cbn [forallb] in Hp. apply andb_true_iff in Hp as [Hx Hp].
    cbn [map sp_join flat_map] in *. fold (sp_join (map num ids)) in *.
    revert Hlen. assoc. intro Hlen. cbn [app].
    rewrite nz_number_num; [|exact Hx|destruct ids; [exact Hd|reflexivity]].
    apply IH; try assumption. revert Hlen. lens'.
Qed.

(* ---------------------------------------------------------- whole responses *)
Lemma num_head_full n :
  exists c t, num n = c :: t /\ is_digit c = true /\ (pos n = true -> (c =? 48) = false).
Proof.
  destruct (num_head_not_sp n) as (c & t & E & D). exists c, t. split; [exact E|]. split; [exact D|].
  intro Hp. destruct (num_head_nz n Hp) as (c' & t' & E' & H'). rewrite E in E'.
  injection E' as <- <-. exact H'.
Qed.

Lemma untagged_body_num fuel n X :
  exists c, is_digit c = true /\ (pos n = true -> (c =? 48) = false) /\
            untagged_body fuel (num n ++ X) = untagged_numbered fuel c (num n ++ X).
Proof.
  destruct (num_head_full n) as (c & t & E & D & Hz). exists c. split; [exact D|]. split; [exact Hz|].
  unfold untagged_body. rewrite E. cbn [app]. rewrite D. reflexivity.
Qed.

Lemma untagged_body_kw fuel K X :
  forallb is_atom_char K = true -> nohead is_atom_char X ->
  match K with c :: _ => is_digit c = false | [] => False end ->
  untagged_body fuel (K ++ X) = untagged_named fuel K X.
Proof.
  intros Ha Hx Hd. destruct K as [|c t]; [destruct Hd|].
  unfold untagged_body. cbn [app]. rewrite Hd.
  change (c :: t ++ X) with ((c :: t) ++ X). rewrite span_app by assumption. reflexivity.
Qed.

Lemma cond_text_eq c cd text :
  cond_text c cd text = print_cond c ++ SPc :: code_text cd text.
Proof. destruct cd; reflexivity. Qed.

Lemma response_is_tagged fuel c t :
  is_tag_char c = true -> response fuel (c :: t) = response_tagged fuel (c :: t).
Proof.
  intro H. unfold response. destruct c as [|p]; [reflexivity|].
  repeat (destruct p as [p|p|]; try reflexivity); discriminate H.
Qed.

Lemma base64_crlf fuel rest : base64 fuel (13 :: 10 :: rest) = 13 :: 10 :: rest.
Proof. destruct fuel; [reflexivity|]. destruct rest as [|a [|b r]]; reflexivity. Qed.

Theorem response_print r fuel rest :
  wf_resp r = true -> fits (print_resp r ++ rest) fuel ->
  response fuel (print_resp r ++ rest) = Some rest.
Proof.
  intros Hwf Hlen.
  destruct r as [t c cd text|text|caps|fl|n|n|n|n items|ids|name items|lsub name sep attrs|p];
    cbn [print_resp wf_resp] in *; unfold untagged, CRLF in *.
  - (* condition responses *)
    apply andb_true_iff in Hwf as [Hwf Htext]. apply andb_true_iff in Hwf as [Ht Hcd].
    rewrite cond_text_eq in *. unfold SPc in *. revert Hlen. assoc. intro Hlen.
    assert (Hrt : forall X, fits (code_text cd text ++ 13 :: 10 :: X) fuel ->
                            resp_text fuel (code_text cd text ++ 13 :: 10 :: X) = Some (13 :: 10 :: X)).
    { intros X HX. apply resp_text_print; [exact Hcd|exact Htext|reflexivity|exact HX]. }
    destruct t as [tg|]; cbn [print_tag] in *.
    + (* tagged *)
      apply andb_true_iff in Ht as [Htg Hc]. unfold wf_tag in Htg.
      apply andb_true_iff in Htg as [Hne Htc].
      destruct tg as [|c0 tg0]; [discriminate|]. cbn [forallb] in Htc.
      pose proof Htc as Htc'. apply andb_true_iff in Htc' as [Hc0 _].
      cbn [app]. rewrite (response_is_tagged fuel c0 _ Hc0). unfold response_tagged.
      change (c0 :: tg0 ++ 32 :: print_cond c ++ 32 :: code_text cd text ++ 13 :: 10 :: rest)
        with ((c0 :: tg0) ++ 32 :: print_cond c ++ 32 :: code_text cd text ++ 13 :: 10 :: rest).
      unfold tag. rewrite many1_app; [|reflexivity|exact Htc|reflexivity].
      rewrite sp_cons.
      destruct c; try discriminate Hc; cbn [print_cond];
        (rewrite span_app; [|reflexivity|reflexivity]); eval_closed'; rewrite sp_cons;
        (rewrite Hrt by (revert Hlen; lens')); apply crlf_cons.
    + (* untagged *)
      unfold response. cbn [app]. rewrite sp_cons.
      destruct c; cbn [print_cond];
        (rewrite untagged_body_kw; [|reflexivity|reflexivity|reflexivity]);
        unfold untagged_named; eval_closed'; rewrite sp_cons;
        (rewrite Hrt by (revert Hlen; lens')); apply crlf_cons.
  - (* continuation *)
    unfold response. cbn [app]. rewrite sp_cons. destruct text as [|c t].
    + cbn [app]. replace (resp_text fuel (13 :: 10 :: rest)) with (@None bytes) by reflexivity.
      rewrite base64_crlf. apply crlf_cons.
    + rewrite <- app_assoc. rewrite resp_text_plain; [|exact Hwf|reflexivity].
      cbn [app]. rewrite crlf_cons. reflexivity.
  - (* CAPABILITY *)
    unfold response. cbn [app]. rewrite sp_cons. rewrite <- app_assoc.
    destruct (cap_args_print caps fuel (13 :: 10 :: rest)) as (mid & E & Hc & Hl);
      [exact Hwf|reflexivity|reflexivity|revert Hlen; lens'|].
    cbn [app] in *. rewrite E.
    assert (Hmid : nohead is_atom_char mid).
    { unfold capability_string in E. rewrite join_sp_cons in E. rewrite <- app_assoc in E.
      apply app_inv_head in E. rewrite <- E. reflexivity. }
    rewrite untagged_body_kw; [|reflexivity|exact Hmid|reflexivity].
    unfold untagged_named. change K_CAPABILITY with [67; 65; 80; 65; 66; 73; 76; 73; 84; 89].
    eval_closed'. rewrite Hc. apply crlf_cons.
  - (* FLAGS *)
    unfold response. cbn [app]. rewrite sp_cons.
    change (pbs "FLAGS ") with (K_FLAGS ++ [32]) in *. revert Hlen. assoc. intro Hlen.
    rewrite untagged_body_kw; [|reflexivity|reflexivity|reflexivity].
    unfold untagged_named. change K_FLAGS with [70; 76; 65; 71; 83]. eval_closed'.
    rewrite sp_cons. rewrite flag_list_print; [apply crlf_cons|exact Hwf|revert Hlen; lens'].
  - (* EXISTS *)
    unfold response. cbn [app]. rewrite sp_cons. assoc.
    destruct (untagged_body_num fuel n (pbs " EXISTS" ++ 13 :: 10 :: rest)) as (c & D & _ & E).
    rewrite E. unfold untagged_numbered. rewrite number_num by reflexivity.
    change (pbs " EXISTS") with (32 :: K_EXISTS). cbn [app]. rewrite sp_cons.
    rewrite kw_app by reflexivity. apply crlf_cons.
  - (* RECENT *)
    unfold response. cbn [app]. rewrite sp_cons. assoc.
    destruct (untagged_body_num fuel n (pbs " RECENT" ++ 13 :: 10 :: rest)) as (c & D & _ & E).
    rewrite E. unfold untagged_numbered. rewrite number_num by reflexivity.
    change (pbs " RECENT") with (32 :: K_RECENT). cbn [app]. rewrite sp_cons.
    replace (kw K_EXISTS (K_RECENT ++ 13 :: 10 :: rest)) with (@None bytes) by reflexivity.
    rewrite kw_app by reflexivity. apply crlf_cons.
  - (* EXPUNGE *)
    unfold response. cbn [app]. rewrite sp_cons. assoc.
    destruct (untagged_body_num fuel n (pbs " EXPUNGE" ++ 13 :: 10 :: rest)) as (c & D & Hz & E).
    rewrite E. unfold untagged_numbered. rewrite number_num by reflexivity.
    change (pbs " EXPUNGE") with (32 :: K_EXPUNGE). cbn [app]. rewrite sp_cons.
    replace (kw K_EXISTS (K_EXPUNGE ++ 13 :: 10 :: rest)) with (@None bytes) by reflexivity.
    replace (kw K_RECENT (K_EXPUNGE ++ 13 :: 10 :: rest)) with (@None bytes) by reflexivity.
    rewrite (Hz Hwf). rewrite kw_app by reflexivity. apply crlf_cons.
  - (* FETCH *)
    apply andb_true_iff in Hwf as [Hwf Hitems]. apply andb_true_iff in Hwf as [Hn Hne].
    unfold response. cbn [app]. rewrite sp_cons. revert Hlen. assoc. intro Hlen.
    destruct (untagged_body_num fuel n
                (pbs " FETCH " ++ py_list (map print_fetch_item items) ++ 13 :: 10 :: rest))
      as (c & D & Hz & E).
    rewrite E. unfold untagged_numbered. rewrite number_num by reflexivity.
    change (pbs " FETCH ") with (32 :: K_FETCH ++ [32]) in *. revert Hlen. assoc. intro Hlen.
    cbn [app]. rewrite sp_cons.
    replace (kw K_EXISTS (K_FETCH ++ 32 :: py_list (map print_fetch_item items) ++ 13 :: 10 :: rest))
      with (@None bytes) by reflexivity.
    replace (kw K_RECENT (K_FETCH ++ 32 :: py_list (map print_fetch_item items) ++ 13 :: 10 :: rest))
      with (@None bytes) by reflexivity.
    rewrite (Hz Hn).
    replace (kw K_EXPUNGE (K_FETCH ++ 32 :: py_list (map print_fetch_item items) ++ 13 :: 10 :: rest))
      with (@None bytes) by reflexivity.
    rewrite kw_app by reflexivity. rewrite sp_cons.
    rewrite msg_att_print; [apply crlf_cons|exact Hne|exact Hitems|revert Hlen; lens'].
  - (* SEARCH *)
    unfold response. cbn [app]. rewrite sp_cons. rewrite join_sp_cons in *.
    revert Hlen. assoc. intro Hlen.
    assert (Hx : nohead is_atom_char (sp_join (map num ids) ++ 13 :: 10 :: rest))
      by (destruct ids; reflexivity).
    rewrite untagged_body_kw; [|reflexivity|exact Hx|reflexivity].
    unfold untagged_named. change (pbs "SEARCH") with [83; 69; 65; 82; 67; 72]. eval_closed'.
    rewrite sp_nz_numbers_print; [apply crlf_cons|exact Hwf|reflexivity|reflexivity|].
    revert Hlen. lens'.
  - (* STATUS *)
    unfold response. cbn [app]. rewrite sp_cons. rewrite join_sp_cons in *.
    cbn [sp_join flat_map] in *. revert Hlen. assoc. intro Hlen.
    rewrite untagged_body_kw; [|reflexivity|reflexivity|reflexivity].
    unfold untagged_named. change (pbs "STATUS") with [83; 84; 65; 84; 85; 83]. eval_closed'.
    rewrite sp_cons. rewrite mailbox_print by reflexivity. rewrite sp_cons.
    rewrite status_list_print; [apply crlf_cons|exact Hwf|revert Hlen; lens'].
  - (* LIST / LSUB *)
    apply andb_true_iff in Hwf as [Hwf Hsep]. apply andb_true_iff in Hwf as [Hattrs Hcount].
    unfold response. cbn [app]. rewrite sp_cons. rewrite join_sp_cons in *.
    cbn [sp_join flat_map] in *. revert Hlen. assoc. intro Hlen.
    assert (Hsep' : match sep with
                    | None | Some [] => True
                    | Some [c] => printable c = true /\ (c =? 38) = false
                    | Some _ => False
                    end).
    { destruct sep as [[|c [|d s]]|]; try exact I; [|discriminate Hsep].
      apply andb_true_iff in Hsep as [H1 H2]. apply negb_true_iff in H2. split; assumption. }
    assert (Hml : mailbox_list fuel
              (py_list (map bs_attr attrs) ++ 32 ::
               (match sep with
                | Some (c :: s) => print_quoted (modutf7_encode (c :: s))
                | _ => NILb
                end) ++ 32 :: print_mailbox name ++ 13 :: 10 :: rest) = Some (13 :: 10 :: rest)).
    { apply mailbox_list_print; try assumption; [reflexivity|]. revert Hlen. unfold bs_attr. lens'. }
    destruct lsub.
    + rewrite untagged_body_kw; [|reflexivity|reflexivity|reflexivity].
      unfold untagged_named. change (pbs "LSUB") with [76; 83; 85; 66]. eval_closed'.
      rewrite sp_cons. unfold bs_attr in Hml. unfold bytes in *. rewrite Hml. apply crlf_cons.
    + rewrite untagged_body_kw; [|reflexivity|reflexivity|reflexivity].
      unfold untagged_named. change (pbs "LIST") with [76; 73; 83; 84]. eval_closed'.
      rewrite sp_cons. unfold bs_attr in Hml. unfold bytes in *. rewrite Hml. apply crlf_cons.
  - (* ID *)
    assert (Hid : forall X, fits ((match p with
                                   | None => NILb
                                   | Some p => py_list (id_items p)
                                   end) ++ X) fuel ->
                 id_params fuel ((match p with
                                   | None => NILb
                                   | Some p => py_list (id_items p)
                                   end) ++ X) = Some X).
    { intros X HX. apply id_params_print; [exact Hwf|exact HX]. }
    destruct p as [p|]; unfold response; cbn [app]; unfold SPc; rewrite sp_cons.
    + change (pbs "ID ") with (K_ID ++ [32]) in *. revert Hlen. assoc. intro Hlen.
      rewrite untagged_body_kw; [|reflexivity|reflexivity|reflexivity].
      unfold untagged_named. change K_ID with [73; 68]. eval_closed'.
      rewrite sp_cons. unfold id_items in Hid. rewrite Hid; [apply crlf_cons|].
      revert Hlen. lens'.
    + change (pbs "ID NIL") with (K_ID ++ 32 :: NILb) in *. revert Hlen. assoc. intro Hlen.
      rewrite untagged_body_kw; [|reflexivity|reflexivity|reflexivity].
      unfold untagged_named. change K_ID with [73; 68]. eval_closed'.
      rewrite sp_cons. rewrite Hid; [apply crlf_cons|]. revert Hlen. lens'.
Qed.

Lemma print_resp_nonempty r : exists c t, print_resp r = c :: t.
Proof.
  destruct r as [[tg|] c cd text|text|caps|fl|n|n|n|n items|ids|name items|lsub name sep attrs|[p|]];
    try (eexists; eexists; reflexivity).
  cbn [print_resp print_tag]. destruct tg as [|c0 t0]; eexists; eexists; reflexivity.
Qed.

Lemma responses_print rs : forall fuel k,
  forallb wf_resp rs = true -> fits (print_stream rs) fuel -> (List.length rs <= k)%nat ->
  responses fuel k (print_stream rs) = true.
Proof.
  induction rs as [|r rs IH]; intros fuel k Hwf Hlen Hk; [destruct k; reflexivity|].
  cbn [forallb] in Hwf. apply andb_true_iff in Hwf as [Hr Hwf].
  unfold print_stream in *. cbn [flat_map] in *.
  destruct (print_resp_nonempty r) as (c & t & E).
  destruct k as [|k]; [cbn in Hk; lia|].
  assert (Hresp : response fuel (print_resp r ++ flat_map print_resp rs) = Some (flat_map print_resp rs))
    by (apply response_print; assumption).
  rewrite E in *. cbn [app responses] in *. rewrite Hresp.
  apply IH; [exact Hwf| |cbn in Hk; lia]. revert Hlen. lens'.
Qed.

Lemma stream_count rs : (List.length rs <= List.length (print_stream rs))%nat.
Proof.
  induction rs as [|r rs IH]; [apply le_n|]. unfold print_stream in *. cbn [flat_map List.length].
  destruct (print_resp_nonempty r) as (c & t & E). rewrite E. cbn [app List.length].
  rewrite app_length. lia.
Qed.

(* C07: everything a connection writes -- any sequence of well-formed response
   objects, whatever client-influenced strings and structures they carry --
   is a sequence of complete, well-formed IMAP responses *)
Theorem stream_wf rs : forallb wf_resp rs = true -> wf_response (print_stream rs) = true.
Proof.
  intro Hwf. unfold wf_response. apply responses_print; [exact Hwf|unfold fits; lia|].
  pose proof (stream_count rs). lia.
Qed.
