(* Resp/Producer.v — model of what *builds* the response objects for a set of
   commands: pymap/parsing/specials/tag.py (Tag.parse), parsing/commands.py
   (InvalidCommand.message), imap/state.py (check_command, do_select,
   do_status, do_list, the "<COMMAND> completed." answers, do_capability,
   do_id), backend/dict/mailbox.py (MailboxData.snapshot), mailbox.py
   (new_uid_validity), parsing/specials/objectid.py (random ids), listtree.py
   (ListEntry.attributes), parsing/specials/flag.py (Flag.parse, _capitalize).
   With it C07 applies to these commands without any measured hypothesis:
   Resp/ProducerProofs.v shows that every response they build satisfies
   [wf_resp], whatever the client sent and whatever the mailbox contains.
   Definitions only. *)
From PV Require Import Base.Prelude Base.Decimal Resp.Grammar Resp.Printer.
From Coq Require Import String.

Local Open Scope string_scope.
Local Open Scope N_scope.
Local Open Scope list_scope.

(* ------------------------------------------------------- parsing the client *)
(* Parseable._atom_pattern: [\x21\x23\x24\x26\x27\x2B-\x5B\x5E-\x7A\x7C\x7E] *)
Definition py_atom_char (c : N) : bool :=
  (c =? 33) || (c =? 35) || (c =? 36) || (c =? 38) || (c =? 39) ||
  ((43 <=? c) && (c <=? 91)) || ((94 <=? c) && (c <=? 122)) || (c =? 124) || (c =? 126).
(* Tag._pattern: [\x21\x23\x24\x26\x27\x2C-\x5B\x5D\x5E-\x7A\x7C\x7E] *)
Definition py_tag_char (c : N) : bool :=
  (c =? 33) || (c =? 35) || (c =? 36) || (c =? 38) || (c =? 39) ||
  ((44 <=? c) && (c <=? 91)) || (c =? 93) || ((94 <=? c) && (c <=? 122)) ||
  (c =? 124) || (c =? 126).
Fixpoint skip_sp (l : bytes) : bytes :=
  match l with 32 :: r => skip_sp r | _ => l end.
(* Tag.parse / Atom.parse: leading spaces, then the longest match *)
Definition parse_with (p : N -> bool) (buf : bytes) : option (bytes * bytes) :=
  match span p (skip_sp buf) with
  | ([], _) => None
  | (tok, rest) => Some (tok, rest)
  end.
Definition parse_tag : bytes -> option (bytes * bytes) := parse_with py_tag_char.
Definition parse_atom : bytes -> option (bytes * bytes) := parse_with py_atom_char.
Definition upper_bytes (b : bytes) : bytes := map upper b.       (* bytes.upper() *)
Definition lower (c : N) : N := if (65 <=? c) && (c <=? 90) then c + 32 else c.
(* Flag._capitalize *)
Definition capitalize_flag (v : bytes) : bytes :=
  match v with
  | 92 :: c :: r => 92 :: upper c :: map lower r
  | _ => v
  end.
(* Flag.parse: an optional backslash and an atom *)
Definition parse_flag (buf : bytes) : option (bytes * bytes) :=
  let l := skip_sp buf in
  if match l with c :: _ => c =? 92 | [] => false end
  then match parse_atom (tl l) with
       | Some (a, rest) => Some (capitalize_flag (92 :: a), rest)
       | None => None
       end
  else match parse_atom l with
       | Some (a, rest) => Some (capitalize_flag a, rest)
       | None => None
       end.

(* ------------------------------------------------------------ status lines *)
Definition COMMANDS : list bytes := Eval vm_compute in
  map pbs ["APPEND"; "AUTHENTICATE"; "CAPABILITY"; "CHECK"; "CLOSE"; "COPY"; "CREATE"; "DELETE";
           "EXAMINE"; "EXPUNGE"; "FETCH"; "ID"; "IDLE"; "LIST"; "LOGIN"; "LOGOUT"; "LSUB"; "MOVE";
           "NOOP"; "RENAME"; "SEARCH"; "SELECT"; "STARTTLS"; "STATUS"; "STORE"; "SUBSCRIBE";
           "UID COPY"; "UID EXPUNGE"; "UID FETCH"; "UID MOVE"; "UID SEARCH"; "UID STORE"; "UID";
           "UNSUBSCRIBE"].
(* ResponseOk(cmd.tag, cmd.command + b' completed.', code) *)
Definition completed (tag cmdname : bytes) (cd : option code) : resp :=
  RCond (Some tag) OK cd (cmdname ++ pbs " completed.").
(* ConnectionState.check_command *)
Inductive refusal := AlreadyAuth | MustAuth | MustSelect | NotImplemented.
Definition refuse (tag cmdname : bytes) (k : refusal) : resp :=
  match k with
  | AlreadyAuth => RCond (Some tag) BAD None (cmdname ++ pbs ": Already authenticated.")
  | MustAuth => RCond (Some tag) BAD None (cmdname ++ pbs ": Must authenticate first.")
  | MustSelect => RCond (Some tag) BAD None (cmdname ++ pbs ": Must select a mailbox first.")
  | NotImplemented => RCond (Some tag) NO None (cmdname ++ pbs ": Not Implemented")
  end.
(* InvalidCommand.message; the command name is the upper-cased words read so
   far, joined by spaces; tag None = the tag did not parse ("*") *)
Definition invalid_command (tag : option bytes) (words : list bytes) (known : bool) : resp :=
  RCond tag BAD None
    (match words with
     | [] => pbs "Command not given."
     | _ => join_sp (map upper_bytes words) ++
            (if known then pbs ": Invalid arguments." else pbs ": Unknown command.")
     end).

(* ----------------------------------------------------------------- mailbox *)
Definition hex_digit (d : N) : N := if d <? 10 then 48 + d else 87 + d.
(* '%0<k>x' % (x mod 16^k) *)
Fixpoint hex_fixed (k : nat) (x : N) : bytes :=
  match k with
  | O => []
  | S k' => hex_fixed k' (x / 16) ++ [hex_digit (x mod 16)]
  end.
(* ObjectId.random_mailbox_id(): b'F%032x' % getrandbits(128) *)
Definition mailbox_id_of (bits : N) : bytes := 70 :: hex_fixed 32 bits.
(* MailboxSnapshot.new_uid_validity *)
Definition uid_validity_of (time rand : N) : N :=
  let v := (time mod 65535) * 65536 + rand in if v =? 0 then 1 else v.

(* what MailboxData.snapshot() reads from a dict mailbox *)
Record snapshot := {
  sn_readonly : bool; sn_exists : N; sn_recent : N; sn_unseen : N;
  sn_first_unseen : option N;      (* the count when the first unseen message was met *)
  sn_max_uid : N; sn_time : N; sn_rand : N; sn_idbits : N
}.
Definition SYSTEM_FLAGS : list bytes := Eval vm_compute in
  map pbs ["\Answered"; "\Deleted"; "\Draft"; "\Flagged"; "\Seen"].
Definition RECENT_FLAG : bytes := Eval vm_compute in pbs "\Recent".

(* ConnectionState.do_select (dict backend; the first fork adds nothing) *)
Definition do_select (tag : bytes) (sn : snapshot) : list resp :=
  [ if sn_readonly sn
    then RCond None OK (Some (CPermanentFlags [])) (pbs "Read-only mailbox.")
    else RCond None OK (Some (CPermanentFlags SYSTEM_FLAGS)) (pbs "Flags permitted.");
    RFlags (SYSTEM_FLAGS ++ [RECENT_FLAG]);
    RExists (sn_exists sn);
    RRecent (sn_recent sn);
    RCond None OK (Some (CUidNext (sn_max_uid sn + 1))) (pbs "Predicted next UID.");
    RCond None OK (Some (CUidValidity (uid_validity_of (sn_time sn) (sn_rand sn))))
          (pbs "UIDs valid.") ] ++
  (match sn_first_unseen sn with
   | Some (N.pos p) => [RCond None OK (Some (CUnseen (N.pos p))) (pbs "First unseen message.")]
   | _ => []
   end) ++
  [ RCond None OK (Some (CMailboxId (mailbox_id_of (sn_idbits sn)))) (pbs "Object ID.");
    RCond (Some tag) OK (Some (CAnon (if sn_readonly sn then pbs "READ-ONLY" else pbs "READ-WRITE")))
          (pbs "Selected mailbox.") ].

(* ConnectionState.do_status *)
Inductive status_req := QMessages | QRecent | QUidNext | QUidValidity | QUnseen | QMailboxId.
Definition status_value (sn : snapshot) (q : status_req) : status_item :=
  match q with
  | QMessages => SNum SMessages (sn_exists sn)
  | QRecent => SNum SRecent (sn_recent sn)
  | QUidNext => SNum SUidNext (sn_max_uid sn + 1)
  | QUidValidity => SNum SUidValidity (uid_validity_of (sn_time sn) (sn_rand sn))
  | QUnseen => SNum SUnseen (sn_unseen sn)
  | QMailboxId => SMailboxId (mailbox_id_of (sn_idbits sn))
  end.
Definition do_status (tag : bytes) (name : list N) (req : list status_req) (sn : snapshot)
  : list resp :=
  [ RStatus name (map (status_value sn) req); completed tag (pbs "STATUS") None ].

(* ListEntry.attributes *)
Definition list_attributes (exists_ : bool) (marked : option bool) (children : bool) : list bytes :=
  (if exists_ then [] else [pbs "Noselect"]) ++
  [if children then pbs "HasChildren" else pbs "HasNoChildren"] ++
  (match marked with Some true => [pbs "Marked"] | Some false => [pbs "Unmarked"] | None => [] end).
(* ConnectionState.do_list over the entries of ListTree.list (marked is never
   set by any backend: ListTree.set_marked has no caller) *)
Definition do_list (tag : bytes) (lsub : bool) (entries : list (list N * bool * bool)) : list resp :=
  map (fun e => RList lsub (fst (fst e)) (Some (pbs "/"))
                      (list_attributes (snd (fst e)) None (snd e))) entries ++
  [ completed tag (if lsub then pbs "LSUB" else pbs "LIST") None ].

(* LIST with an empty pattern: the hierarchy delimiter and the root name *)
Definition do_list_root (tag : bytes) (lsub : bool) : list resp :=
  [ RList lsub [] (Some (pbs "/")) [pbs "Noselect"];
    completed tag (if lsub then pbs "LSUB" else pbs "LIST") None ].

(* ConnectionState.do_capability / do_id / do_noop ... *)
Definition CAPS_A : list bytes := Eval vm_compute in
  map pbs ["LITERAL+"; "ID"; "BINARY"; "UIDPLUS"; "MOVE"; "CHILDREN"].
Definition CAPS_B : list bytes := Eval vm_compute in map pbs ["IDLE"; "OBJECTID"; "MULTIAPPEND"].
Definition do_capability (tag : bytes) (append_limit : option N) : list resp :=
  [ RCapability (CAPS_A ++
                 match append_limit with Some n => [pbs "APPENDLIMIT=" ++ num n] | None => [] end
                 ++ CAPS_B);
    RCond (Some tag) OK None (pbs "Capabilities listed.") ].
Definition do_id (tag : bytes) : list resp := [ RId None; completed tag (pbs "ID") None ].
