(* Resp/Keywords.v — where the flags of the maildir backend come from:
   pymap/backend/maildir/flags.py (MaildirFlags.read, from_maildir,
   permanent_flags, system_flags) and pymap/parsing/specials/flag.py (Flag(),
   _capitalize), as of the current tree (with the fix that ignores keywords
   that are not atoms).  These are the flags the backend hands to the FLAGS /
   PERMANENTFLAGS / FETCH FLAGS producers.

   A line of the dovecot-keywords file is split by str.split() (stdlib); the
   two fields are data: [idx] the value of int(i), [kwd] the code points of
   the second field (non-empty, without white space).  Definitions only. *)
From PV Require Import Base.Prelude Base.Decimal Resp.Grammar Resp.Printer Resp.Producer.
From Coq Require Import String.
Local Open Scope string_scope.

Local Open Scope N_scope.
Local Open Scope list_scope.

Inductive kw_line :=
| KwError            (* raise ValueError(kwd): the keyword starts with a backslash *)
| KwSkip             (* not an atom: the keyword is not available *)
| KwDef (code : N) (flag : bytes).    (* code = ord('a') + int(i); Flag(kwd).value *)

(* Flag(value): bytes(value, 'ascii') then _capitalize *)
Definition flag_value (v : bytes) : bytes := capitalize_flag v.

(* one line of MaildirFlags.read after line.split() *)
Definition read_kw (idx : N) (kwd : list N) : kw_line :=
  match kwd with
  | [] => KwSkip                         (* _keyword_pattern needs one character *)
  | c :: _ =>
    if c =? 92 then KwError
    else if forallb py_atom_char kwd then KwDef (97 + idx) (flag_value kwd) else KwSkip
  end.

(* the whole file: to_kwd as an association list, later lines win; None =
   the ValueError escapes *)
Fixpoint read_kws (ls : list (N * list N)) (acc : list (N * bytes)) : option (list (N * bytes)) :=
  match ls with
  | [] => Some acc
  | (i, k) :: r =>
    match read_kw i k with
    | KwError => None
    | KwSkip => read_kws r acc
    | KwDef c f => read_kws r ((c, f) :: filter (fun e => negb (fst e =? c)) acc)
    end
  end.

Definition SEEN : bytes := Eval vm_compute in pbs "\Seen".
Definition FLAGGED : bytes := Eval vm_compute in pbs "\Flagged".
Definition DELETED : bytes := Eval vm_compute in pbs "\Deleted".
Definition DRAFT : bytes := Eval vm_compute in pbs "\Draft".
Definition ANSWERED : bytes := Eval vm_compute in pbs "\Answered".
(* _to_sys *)
Definition to_sys (c : N) : option bytes :=
  if c =? 83 then Some SEEN else if c =? 70 then Some FLAGGED else if c =? 84 then Some DELETED
  else if c =? 68 then Some DRAFT else if c =? 82 then Some ANSWERED else None.
Definition to_kwd (t : list (N * bytes)) (c : N) : option bytes :=
  option_map snd (find (fun e => fst e =? c) t).

(* MaildirFlags.from_maildir(codes): the letters of a file name after ":2," *)
Fixpoint from_maildir (t : list (N * bytes)) (codes : list N) : list bytes :=
  match codes with
  | [] => []
  | c :: r =>
    if c =? 44 then []
    else match to_sys c with
         | Some f => f :: from_maildir t r
         | None => match to_kwd t c with
                   | Some f => f :: from_maildir t r
                   | None => from_maildir t r
                   end
         end
  end.
(* the keys of from_kwd: every keyword of an accepted line (also one whose
   letter a later line took over) *)
Fixpoint read_names (ls : list (N * list N)) : list bytes :=
  match ls with
  | [] => []
  | (i, k) :: r =>
    match read_kw i k with
    | KwDef _ f => f :: read_names r
    | _ => read_names r
    end
  end.
(* permanent_flags = system_flags | keywords *)
Definition permanent_flags (names : list bytes) : list bytes :=
  [SEEN; FLAGGED; DELETED; DRAFT; ANSWERED] ++ names.
