(* Resp/KeywordsProofs.v — every flag the maildir backend takes from a
   dovecot-keywords file and from message file names satisfies [wf_flag]. *)
From PV Require Import Base.Prelude Base.Decimal Resp.Grammar Resp.Printer Resp.Wf
     Resp.Producer Resp.ProducerProofs Resp.Keywords.
From Coq Require Import Lia ZifyBool String.

Local Open Scope N_scope.
Local Open Scope list_scope.

Lemma atom_chars_no_backslash c : py_atom_char c = true -> c <> 92.
Proof. unfold py_atom_char. lia. Qed.

Lemma capitalize_id x t : x <> 92 -> capitalize_flag (x :: t) = x :: t.
Proof.
  intro Hx. unfold capitalize_flag. destruct x as [|p]; [reflexivity|].
  repeat (destruct p as [p|p|]; try reflexivity). congruence.
Qed.

Lemma wf_flag_of_atom x t : x <> 92 -> wf_atom (x :: t) = true -> wf_flag (x :: t) = true.
Proof.
  intros Hx E. unfold wf_flag. destruct x as [|p]; [exact E|].
  repeat (destruct p as [p|p|]; try exact E). congruence.
Qed.

Lemma read_kw_wf idx kwd c f : read_kw idx kwd = KwDef c f -> wf_flag f = true.
Proof.
  unfold read_kw. destruct kwd as [|k0 kr]; [discriminate|].
  destruct (k0 =? 92) eqn:E0; [discriminate|].
  assert (Hne : k0 <> 92) by (apply N.eqb_neq; exact E0).
  destruct (forallb py_atom_char (k0 :: kr)) eqn:Ha; [|discriminate].
  intro H. assert (Hf : f = flag_value (k0 :: kr)) by congruence. rewrite Hf. clear H Hf.
  unfold flag_value. rewrite (capitalize_id k0 kr Hne).
  apply wf_flag_of_atom; [exact Hne|]. unfold wf_atom. cbn [nonempty andb].
  apply forallb_forall. intros x Hx. apply py_atom_char_ok.
  eapply forallb_forall in Ha; [exact Ha|exact Hx].
Qed.

Definition FLAGS_PERMITTED : bytes := Eval vm_compute in pbs "Flags permitted."%string.
Definition KW_BAD : bytes := Eval vm_compute in pbs "kw(x"%string.

Definition table_ok (t : list (N * bytes)) : Prop := Forall (fun e => wf_flag (snd e) = true) t.

Lemma read_kws_wf : forall ls acc t,
  table_ok acc -> read_kws ls acc = Some t -> table_ok t.
Proof.
  induction ls as [|[i k] r IH]; intros acc t Hacc H; cbn [read_kws] in H.
  - injection H as <-. exact Hacc.
  - destruct (read_kw i k) as [| |c f] eqn:E; [discriminate|eapply IH; eauto|].
    eapply IH; [|exact H]. constructor.
    + cbn [snd]. eapply read_kw_wf. exact E.
    + unfold table_ok in *. apply Forall_forall. intros e He.
      apply filter_In in He as (He & _). eapply Forall_forall in Hacc; eauto.
Qed.

Lemma to_sys_wf c f : to_sys c = Some f -> wf_flag f = true.
Proof.
  unfold to_sys. repeat (destruct (c =? _); [intro H; injection H as <-; reflexivity|]).
  discriminate.
Qed.

Lemma to_kwd_wf t c f : table_ok t -> to_kwd t c = Some f -> wf_flag f = true.
Proof.
  unfold to_kwd. intros Ht H. destruct (find _ t) as [e|] eqn:E; [|discriminate].
  injection H as <-. apply find_some in E as (E & _).
  eapply Forall_forall in Ht; eauto.
Qed.

Lemma from_maildir_wf t : table_ok t -> forall codes, forallb wf_flag (from_maildir t codes) = true.
Proof.
  intros Ht. induction codes as [|c r IH]; [reflexivity|]. cbn [from_maildir].
  destruct (c =? 44); [reflexivity|].
  destruct (to_sys c) as [f|] eqn:Es.
  - cbn [forallb]. rewrite (to_sys_wf _ _ Es), IH. reflexivity.
  - destruct (to_kwd t c) as [f|] eqn:Ek; [|exact IH].
    cbn [forallb]. rewrite (to_kwd_wf _ _ _ Ht Ek), IH. reflexivity.
Qed.

Lemma read_names_wf : forall ls, forallb wf_flag (read_names ls) = true.
Proof.
  induction ls as [|[i k] r IH]; [reflexivity|]. cbn [read_names].
  destruct (read_kw i k) as [| |c f] eqn:E; try exact IH.
  cbn [forallb]. rewrite (read_kw_wf _ _ _ _ E), IH. reflexivity.
Qed.

Lemma permanent_flags_wf ls : forallb wf_flag (permanent_flags (read_names ls)) = true.
Proof.
  unfold permanent_flags. rewrite forallb_app, read_names_wf. reflexivity.
Qed.

Lemma wf_flag_perm_of_flag f : wf_flag f = true -> wf_flag_perm f = true.
Proof.
  intro H. unfold wf_flag_perm.
  destruct f as [|c l]; [exact H|].
  destruct c as [|p]; [exact H|].
  repeat (destruct p as [p|p|]; try exact H).
  destruct l as [|d l']; [exact H|].
  destruct d as [|p]; [exact H|].
  repeat (destruct p as [p|p|]; try exact H).
  destruct l' as [|e t]; [reflexivity|exact H].
Qed.

(* the form of Props/C07.v: whatever the dovecot-keywords file contains and
   whatever letters a message file name carries, the flags handed to the
   producers satisfy wf_flag; hence the FLAGS / PERMANENTFLAGS responses of
   SELECT and the FETCH FLAGS item satisfy wf_resp *)
Theorem maildir_keywords_wf ls t codes seq :
  read_kws ls [] = Some t -> pos seq = true ->
  let perm := permanent_flags (read_names ls) in
  forallb wf_flag perm = true /\
  forallb wf_flag (from_maildir t codes) = true /\
  wf_resp (RFlags (perm ++ [RECENT_FLAG])) = true /\
  wf_resp (RCond None OK (Some (CPermanentFlags perm)) FLAGS_PERMITTED) = true /\
  wf_resp (RFetch seq [FFlags (from_maildir t codes)]) = true.
Proof.
  intros H Hseq perm.
  assert (Ht : table_ok t) by (eapply read_kws_wf; [constructor|exact H]).
  pose proof (permanent_flags_wf ls) as Hp. pose proof (from_maildir_wf t Ht codes) as Hf.
  fold perm in Hp.
  repeat split; auto.
  - cbn [wf_resp]. rewrite forallb_app, Hp. reflexivity.
  - cbn [wf_resp opt_all wf_code]. apply andb_true_intro. split; [|reflexivity].
    apply forallb_forall. intros f Hin. eapply forallb_forall in Hp; [|exact Hin].
    apply wf_flag_perm_of_flag. exact Hp.
  - cbn [wf_resp wf_fetch_item forallb nonempty]. rewrite Hseq, Hf. reflexivity.
Qed.

(* without the atom check a keyword such as "kw(x" reaches the wire *)
Lemma non_atom_keyword_rejected :
  read_kw 1 KW_BAD = KwSkip /\ wf_flag KW_BAD = false /\
  wf_response (print_resp (RFlags [KW_BAD])) = false.
Proof. repeat split; vm_compute; reflexivity. Qed.
