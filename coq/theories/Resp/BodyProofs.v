(* Resp/BodyProofs.v — date-time, addresses, ENVELOPE, body parameters,
   disposition and BODY / BODYSTRUCTURE of any shape and depth. *)
From PV Require Import Base.Prelude Base.Decimal Resp.Grammar Resp.Printer Resp.Wf
  Resp.LexProofs Resp.ListProofs.
From Coq Require Import Lia ZifyBool String.

Local Open Scope string_scope.
Local Open Scope N_scope.
Local Open Scope list_scope.

Definition fits (l : bytes) (fuel : nat) : Prop := (List.length l < fuel)%nat.
Ltac lens' := unfold fits, bytes, byte in *; lens.

(* ---------------------------------------------------------------- date-time *)
Definition chk2 (n : N) : bool :=
  match pad2 n with [a; b] => is_digit a && is_digit b | _ => false end.
Definition chk4 (n : N) : bool :=
  match pad4 n with [a; b; c; d] => is_digit a && is_digit b && is_digit c && is_digit d
  | _ => false end.

Lemma chk2_all : forallb chk2 (map N.of_nat (seq 0 (N.to_nat 100))) = true.
Proof. vm_compute. reflexivity. Qed.
Lemma chk4_all : forallb chk4 (map N.of_nat (seq 0 (N.to_nat 10000))) = true.
Proof. vm_compute. reflexivity. Qed.

Lemma in_range_list n k : n < k -> In n (map N.of_nat (seq 0 (N.to_nat k))).
Proof.
  intro H. apply in_map_iff. exists (N.to_nat n). split; [apply N2Nat.id|].
  apply in_seq. lia.
Qed.

Lemma digit2_pad2 n r : n < 100 -> digit2 (pad2 n ++ r) = Some r.
Proof.
  intro H. pose proof chk2_all as A. rewrite forallb_forall in A.
  specialize (A n (in_range_list n 100 H)). unfold chk2 in A.
  destruct (pad2 n) as [|a [|b [|c l]]]; try discriminate A.
  apply andb_true_iff in A as [A1 A2]. unfold digit2, digit1. cbn [app]. rewrite A1, A2. reflexivity.
Qed.

Lemma digit4_pad4 n r : n < 10000 -> digit4 (pad4 n ++ r) = Some r.
Proof.
  intro H. pose proof chk4_all as A. rewrite forallb_forall in A.
  specialize (A n (in_range_list n 10000 H)). unfold chk4 in A.
  destruct (pad4 n) as [|a [|b [|c [|d [|e l]]]]]; try discriminate A.
  apply andb_true_iff in A as [A A4]. apply andb_true_iff in A as [A A3].
  apply andb_true_iff in A as [A1 A2].
  unfold digit4, digit2, digit1. cbn [app]. rewrite A1, A2, A3, A4. reflexivity.
Qed.

Lemma pad2_head n : n < 100 -> exists a t, pad2 n = a :: t /\ is_digit a = true.
Proof.
  intro H. pose proof chk2_all as A. rewrite forallb_forall in A.
  specialize (A n (in_range_list n 100 H)). unfold chk2 in A.
  destruct (pad2 n) as [|a [|b [|c l]]]; try discriminate A.
  apply andb_true_iff in A as [A1 A2]. eauto.
Qed.

Lemma month3_name m r :
  1 <= m -> m <= 12 -> month3 (nth (N.to_nat (m - 1)) MONTH_NAMES [] ++ r) = Some r.
Proof.
  intros H1 H2.
  assert (E : m = 1 \/ m = 2 \/ m = 3 \/ m = 4 \/ m = 5 \/ m = 6 \/ m = 7 \/ m = 8 \/
              m = 9 \/ m = 10 \/ m = 11 \/ m = 12) by lia.
  repeat (destruct E as [->|E]; [reflexivity|]). subst m. reflexivity.
Qed.

Lemma date_time_print d rest :
  wf_datetime d = true -> date_time (print_datetime d ++ rest) = Some rest.
Proof.
  unfold wf_datetime. intro H.
  repeat (apply andb_true_iff in H as [H ?H]).
  unfold print_datetime, date_time. assoc. rewrite ch_cons.
  destruct (pad2_head (dt_day d)) as (a & t & Ea & Da); [lia|].
  assert (Hday : forall X, (match pad2 (dt_day d) ++ X with
                            | 32 :: r' => digit1 r' | _ => digit2 (pad2 (dt_day d) ++ X) end)
                           = Some X).
  { intro X. rewrite <- (digit2_pad2 (dt_day d) X) by lia. rewrite Ea. cbn [app].
    destruct (is_digit_cases a Da) as [->|[->|[->|[->|[->|[->|[->|[->|[->| ->]]]]]]]]];
      reflexivity. }
  rewrite Hday. rewrite ch_cons. rewrite month3_name by lia. rewrite ch_cons.
  rewrite digit4_pad4 by lia. unfold SPc. rewrite sp_cons.
  rewrite digit2_pad2 by lia. rewrite ch_cons. rewrite digit2_pad2 by lia. rewrite ch_cons.
  rewrite digit2_pad2 by lia. rewrite sp_cons.
  assert (Hz : dt_off d / 60 / 60 < 100 /\ (dt_off d / 60) mod 60 < 100).
  { split.
    - apply N.div_lt_upper_bound; [lia|]. apply N.div_lt_upper_bound; lia.
    - pose proof (N.mod_lt (dt_off d / 60) 60). lia. }
  destruct Hz as [Hz1 Hz2].
  destruct (dt_neg d); cbn [N.eqb Pos.eqb orb]; unfold digit4;
    rewrite digit2_pad2 by assumption; rewrite digit2_pad2 by assumption; apply ch_cons.
Qed.

(* a printed date-time is also a quoted string (for ENVELOPE's env-date) *)
Definition qplain (c : N) : bool := is_text_char c && negb (c =? 34) && negb (c =? 92).

Lemma quoted_tail_plain xs l : forallb qplain xs = true -> quoted_tail (xs ++ l) = quoted_tail l.
Proof.
  induction xs as [|x xs IH]; [reflexivity|]. cbn [forallb app]. intro H.
  apply andb_true_iff in H as [H1 H2]. unfold qplain in H1.
  apply andb_true_iff in H1 as [H1 Hb]. apply andb_true_iff in H1 as [Ht Hq].
  apply negb_true_iff in Hq. apply negb_true_iff in Hb.
  cbn [quoted_tail]. rewrite Hq, Hb, Ht. apply IH, H2.
Qed.

Lemma digit_qplain c : is_digit c = true -> qplain c = true.
Proof. unfold is_digit, qplain, is_text_char, in_rng. lia. Qed.

Lemma pad2_qplain n : forallb qplain (pad2 n) = true.
Proof.
  unfold pad2. destruct (n <? 10); cbn [forallb];
    (eapply forallb_impl; [exact digit_qplain|apply num_digits]).
Qed.

Lemma pad4_qplain n : forallb qplain (pad4 n) = true.
Proof.
  unfold pad4. destruct (n <? 10); [|destruct (n <? 100); [|destruct (n <? 1000)]];
    cbn [forallb]; (eapply forallb_impl; [exact digit_qplain|apply num_digits]).
Qed.

Lemma month_qplain k : forallb qplain (nth k MONTH_NAMES []) = true.
Proof. do 13 (destruct k as [|k]; [reflexivity|]). reflexivity. Qed.

Lemma nstring_datetime d rest : nstring (print_datetime d ++ rest) = Some rest.
Proof.
  unfold nstring, string_, quoted, print_datetime. cbn [app]. cbn [N.eqb Pos.eqb]. assoc.
  rewrite quoted_tail_plain by apply pad2_qplain. cbn [quoted_tail]. cbn [N.eqb Pos.eqb is_text_char].
  replace (is_text_char 45) with true by reflexivity.
  rewrite quoted_tail_plain by apply month_qplain. cbn [quoted_tail]. cbn [N.eqb Pos.eqb].
  replace (is_text_char 45) with true by reflexivity.
  rewrite quoted_tail_plain by apply pad4_qplain. unfold SPc. cbn [quoted_tail]. cbn [N.eqb Pos.eqb].
  replace (is_text_char 32) with true by reflexivity.
  rewrite quoted_tail_plain by apply pad2_qplain. cbn [quoted_tail]. cbn [N.eqb Pos.eqb].
  replace (is_text_char 58) with true by reflexivity.
  rewrite quoted_tail_plain by apply pad2_qplain. cbn [quoted_tail]. cbn [N.eqb Pos.eqb].
  rewrite quoted_tail_plain by apply pad2_qplain. cbn [quoted_tail]. cbn [N.eqb Pos.eqb].
  destruct (dt_neg d); cbn [quoted_tail N.eqb Pos.eqb];
    [replace (is_text_char 45) with true by reflexivity
    |replace (is_text_char 43) with true by reflexivity];
    rewrite quoted_tail_plain by apply pad2_qplain;
    rewrite quoted_tail_plain by apply pad2_qplain; reflexivity.
Qed.

(* ----------------------------------------------------------------- strings *)
Lemma seven_of_ostr o : seven_bit (of_ostr o) = true.
Proof. destruct o; reflexivity. Qed.

Lemma nstring_postr o rest : nstring (postr o ++ rest) = Some rest.
Proof. apply nstring_pstr, seven_of_ostr. Qed.

Lemma nstring_nil X : nstring (NILb ++ X) = Some X.
Proof. reflexivity. Qed.

(* ---------------------------------------------------------------- addresses *)
Lemma address_print a rest : address (print_address a ++ rest) = Some rest.
Proof.
  unfold print_address, address, py_list. cbn [join_sp flat_map]. unfold SPc. assoc.
  rewrite ch_cons. rewrite nstring_pstr_str. rewrite sp_cons.
  rewrite nstring_nil. rewrite sp_cons. rewrite nstring_pstr_str. rewrite sp_cons. rewrite nstring_pstr_str.
  cbn [app]. apply ch_cons.
Qed.

Lemma print_address_head a : exists t, print_address a = 40 :: t.
Proof. eexists. reflexivity. Qed.

Lemma addresses_print l : forall fuel rest,
  nohead (N.eqb 40) rest ->
  fits (flat_map print_address l ++ rest) fuel ->
  addresses fuel (flat_map print_address l ++ rest) = Some rest.
Proof.
  induction l as [|a l IH]; intros fuel rest Hn Hlen.
  - cbn [flat_map app] in *. destruct fuel as [|f]; [lens'|]. cbn [addresses].
    destruct rest as [|c r]; [reflexivity|]. cbn in Hn.
    destruct c as [|p]; [reflexivity|]. repeat (destruct p as [p|p|]; try reflexivity).
    discriminate Hn.
  - cbn [flat_map] in *. destruct fuel as [|f]; [lens'|]. cbn [addresses].
    rewrite <- app_assoc in *. destruct (print_address_head a) as [t Et].
    pose proof (address_print a (flat_map print_address l ++ rest)) as Ha.
    rewrite Et in *. cbn [app] in *. rewrite Ha. apply IH; [exact Hn|].
    revert Hlen. lens'.
Qed.

Lemma address_list_print f fuel rest :
  fits (print_addr_field f ++ rest) fuel ->
  address_list fuel (print_addr_field f ++ rest) = Some rest.
Proof.
  intro Hlen. unfold print_addr_field in *.
  destruct f as [[|a l]|]; try reflexivity.
  cbn [flat_map] in *. unfold address_list. cbn [app]. assoc.
  rewrite address_print.
  rewrite addresses_print; [cbn [app]; apply ch_cons|reflexivity|].
  revert Hlen. lens'.
Qed.

(* ----------------------------------------------------------------- envelope *)
Lemma envelope_print e fuel rest :
  wf_envelope e = true -> fits (print_envelope e ++ rest) fuel ->
  Grammar.envelope fuel (print_envelope e ++ rest) = Some rest.
Proof.
  intros Hwf Hlen. unfold print_envelope, py_list in *. cbn [join_sp flat_map] in *.
  unfold SPc in *. unfold Grammar.envelope. revert Hlen. assoc. intro Hlen. rewrite ch_cons.
  assert (Hd : forall X, nstring ((match e_date e with Some d => print_datetime d | None => NILb end) ++ X)
                         = Some X).
  { intro X. destruct (e_date e); [apply nstring_datetime|reflexivity]. }
  rewrite Hd, sp_cons. rewrite nstring_postr, sp_cons.
  rewrite address_list_print by (revert Hlen; lens'). rewrite sp_cons.
  rewrite address_list_print by (revert Hlen; lens'). rewrite sp_cons.
  rewrite address_list_print by (revert Hlen; lens'). rewrite sp_cons.
  rewrite address_list_print by (revert Hlen; lens'). rewrite sp_cons.
  rewrite address_list_print by (revert Hlen; lens'). rewrite sp_cons.
  rewrite address_list_print by (revert Hlen; lens'). rewrite sp_cons.
  rewrite nstring_postr, sp_cons. rewrite nstring_postr. cbn [app]. apply ch_cons.
Qed.

(* ------------------------------------------------------------------- params *)
Definition kv_items (p : params) : list bytes :=
  flat_map (fun kv => [pstr (VStr (fst kv)); pstr (VStr (snd kv))]) p.

Lemma param_pairs_print p : forall k v fuel rest,
  nohead (N.eqb 32) rest ->
  fits (pstr (VStr k) ++ 32 :: pstr (VStr v) ++ sp_join (kv_items p) ++ rest) fuel ->
  param_pairs fuel (pstr (VStr k) ++ 32 :: pstr (VStr v) ++ sp_join (kv_items p) ++ rest)
  = Some rest.
Proof.
  induction p as [|[k2 v2] p IH]; intros k v fuel rest Hn Hlen;
    (destruct fuel as [|f]; [lens'|]); cbn [param_pairs].
  - rewrite string_pstr, sp_cons, string_pstr. cbn [kv_items flat_map sp_join app].
    destruct rest as [|c r]; [reflexivity|]. cbn in Hn.
    destruct c as [|q]; [reflexivity|]. repeat (destruct q as [q|q|]; try reflexivity).
    discriminate Hn.
  - rewrite string_pstr, sp_cons, string_pstr.
    cbn [kv_items flat_map sp_join app fst snd] in *. fold (kv_items p) in *. fold (sp_join (kv_items p)) in *.
    revert Hlen. assoc. intro Hlen. apply IH; [exact Hn|]. revert Hlen. lens'.
Qed.

Lemma body_fld_param_print p fuel rest :
  fits (print_params p ++ rest) fuel ->
  body_fld_param fuel (print_params p ++ rest) = Some rest.
Proof.
  intro Hlen. unfold print_params in *. destruct p as [|[k v] p]; [reflexivity|].
  unfold py_list in *. cbn [flat_map] in *. fold (kv_items p) in *.
  cbn [app fst snd] in *. rewrite !join_sp_cons in *. cbn [sp_join flat_map] in *.
  fold (sp_join (kv_items p)) in *. unfold body_fld_param. revert Hlen. assoc. intro Hlen.
  rewrite param_pairs_print; [apply ch_cons|reflexivity|]. revert Hlen. lens'.
Qed.

Lemma print_params_head p : exists c t, print_params p = c :: t /\ (c =? 32) = false.
Proof.
  unfold print_params. destruct p; [|destruct (flat_map _ _)]; eexists; eexists; split; reflexivity.
Qed.

(* -------------------------------------------------------------- disposition *)
Lemma body_fld_dsp_print d fuel rest :
  fits (print_disposition d ++ rest) fuel ->
  body_fld_dsp fuel (print_disposition d ++ rest) = Some rest.
Proof.
  intro Hlen. unfold print_disposition in *.
  destruct d as [[[[|c s]|] p]|]; try reflexivity.
  unfold py_list in *. cbn [join_sp flat_map] in *. unfold SPc in *.
  unfold body_fld_dsp. revert Hlen. assoc. intro Hlen.
  rewrite string_pstr, sp_cons. rewrite body_fld_param_print by (revert Hlen; lens').
  cbn [app]. apply ch_cons.
Qed.

Lemma body_fld_lang_print o fuel rest : body_fld_lang fuel (postr o ++ rest) = Some rest.
Proof. unfold body_fld_lang. rewrite nstring_postr. reflexivity. Qed.

Lemma sp_items_stop fuel item c rest :
  (0 < fuel)%nat -> (c =? 32) = false -> sp_items fuel item (c :: rest) = Some (c :: rest).
Proof.
  intros Hf Hc. destruct fuel as [|f]; [lens'|]. cbn [sp_items].
  destruct c as [|p]; [reflexivity|]. repeat (destruct p as [p|p|]; try reflexivity).
  discriminate Hc.
Qed.

(* SP dsp SP lang SP loc, then the closing parenthesis *)
Lemma body_ext_tail_print d lang loc fuel rest :
  fits (32 :: print_disposition d ++ 32 :: postr lang ++ 32 :: postr loc ++ 41 :: rest) fuel ->
  body_ext_tail fuel (32 :: print_disposition d ++ 32 :: postr lang ++ 32 :: postr loc ++ 41 :: rest)
  = Some (41 :: rest).
Proof.
  intro Hlen. unfold body_ext_tail.
  rewrite body_fld_dsp_print by (revert Hlen; lens').
  rewrite body_fld_lang_print. rewrite nstring_postr.
  apply sp_items_stop; [lens'|reflexivity].
Qed.

(* ------------------------------------------------------------------- fields *)
Lemma body_fields_print f fuel rest :
  nohead is_digit rest ->
  fits (print_params (bf_params f) ++ 32 :: postr (bf_id f) ++ 32 :: postr (bf_desc f) ++
         32 :: pstr_fb (of_ostr (bf_enc f)) SEVENBIT ++ 32 :: num (bf_size f) ++ rest) fuel ->
  body_fields fuel (print_params (bf_params f) ++ 32 :: postr (bf_id f) ++ 32 :: postr (bf_desc f) ++
         32 :: pstr_fb (of_ostr (bf_enc f)) SEVENBIT ++ 32 :: num (bf_size f) ++ rest) = Some rest.
Proof.
  intros Hn Hlen. unfold body_fields.
  rewrite body_fld_param_print by (revert Hlen; lens').
  rewrite sp_cons, nstring_postr, sp_cons, nstring_postr, sp_cons.
  rewrite string_pstr_fb; [|apply seven_of_ostr|reflexivity|reflexivity].
  rewrite sp_cons. apply number_num, Hn.
Qed.

(* ------------------------------------------------- media type recognition *)
Definition kwok (W : bytes) : bool :=
  forallb (fun w => (upper w =? w) && negb (w =? 34) && negb (w =? 92)) W.

Lemma upper_34 c : upper c = 34 -> c = 34.
Proof. unfold upper, in_rng. destruct ((97 <=? c) && (c <=? 122)) eqn:E; lia. Qed.

Lemma kw_escape W : forall s rest r,
  kwok W = true ->
  kw (W ++ [34]) (escape s ++ 34 :: rest) = Some r -> map upper s = W /\ r = rest.
Proof.
  induction W as [|w W IH]; intros s rest r Hok Hk.
  - cbn [app] in Hk. destruct s as [|c s].
    + cbn in Hk. injection Hk as <-. split; reflexivity.
    + exfalso. unfold escape in Hk. cbn [flat_map] in Hk.
      destruct ((c =? 34) || (c =? 92)) eqn:E; cbn [app kw] in Hk.
      * discriminate Hk.
      * apply orb_false_iff in E as [E1 E2].
        destruct (upper c =? upper 34) eqn:Eu; [|discriminate Hk].
        apply N.eqb_eq in Eu. change (upper 34) with 34 in Eu. apply upper_34 in Eu. lia.
  - cbn [kwok forallb] in Hok. apply andb_true_iff in Hok as [Hw Hok].
    apply andb_true_iff in Hw as [Hw Hw3]. apply andb_true_iff in Hw as [Hw1 Hw2].
    apply N.eqb_eq in Hw1. apply negb_true_iff in Hw2. apply negb_true_iff in Hw3.
    cbn [app] in Hk. destruct s as [|c s].
    + exfalso. cbn [escape flat_map app kw] in Hk. rewrite Hw1 in Hk.
      change (upper 34) with 34 in Hk. rewrite N.eqb_sym, Hw2 in Hk. discriminate Hk.
    + unfold escape in Hk. cbn [flat_map] in Hk. fold (escape s) in Hk.
      destruct ((c =? 34) || (c =? 92)) eqn:E; cbn [app kw] in Hk.
      * exfalso. rewrite Hw1 in Hk. change (upper 92) with 92 in Hk.
        rewrite N.eqb_sym, Hw3 in Hk. discriminate Hk.
      * destruct (upper c =? upper w) eqn:Eu; [|discriminate Hk].
        apply N.eqb_eq in Eu. rewrite Hw1 in Eu.
        destruct (IH s rest r Hok Hk) as [E1 E2]. split; [|exact E2].
        cbn [map]. rewrite Eu, E1. reflexivity.
Qed.

Lemma build_str_quoted s q : build (VStr s) = OQuoted q -> q = s.
Proof.
  cbn [build]. destruct s as [|c s]; [intro E; injection E as <-; reflexivity|].
  destruct (is_ascii_str (c :: s)); [|discriminate].
  intro E. apply choose_quoted_safe in E as [-> _]. reflexivity.
Qed.

(* the keyword "W" (in quotes) matches a printed str only when the str is W up to case *)
Lemma kw_pstr W s rest r :
  kwok W = true ->
  kw (34 :: W ++ [34]) (pstr (VStr s) ++ rest) = Some r -> eqb_ci s W = true /\ r = rest.
Proof.
  intros Hok Hk. unfold pstr in Hk. destruct (build (VStr s)) as [|q|l bin] eqn:Eb.
  - exfalso. eapply build_not_nil; [|exact Eb]. discriminate.
  - apply build_str_quoted in Eb. subst q. cbn [print_sobj print_quoted app kw] in Hk.
    change (upper 34 =? upper 34) with true in Hk. cbn iota in Hk.
    rewrite <- app_assoc in Hk. cbn [app] in Hk.
    apply kw_escape in Hk as [E1 E2]; [|exact Hok]. split; [|exact E2].
    unfold eqb_ci. rewrite E1. apply bytes_eqb_eq. reflexivity.
  - exfalso. cbn [print_sobj print_literal] in Hk. destruct bin; cbn [app kw] in Hk; discriminate Hk.
Qed.

Lemma kw_textq_none mt X :
  eqb_ci mt TEXT_U = false -> kw K_TEXTQ (pstr (VStr mt) ++ X) = None.
Proof.
  intro H. destruct (kw K_TEXTQ (pstr (VStr mt) ++ X)) as [r|] eqn:E; [|reflexivity].
  change K_TEXTQ with (34 :: TEXT_U ++ [34]) in E.
  apply kw_pstr in E as [E _]; [congruence|reflexivity].
Qed.

Lemma kw_msg_none mt st X :
  eqb_ci mt MESSAGE_U && eqb_ci st RFC822_U = false ->
  kw K_MSG_RFC822 (pstr (VStr mt) ++ 32 :: pstr (VStr st) ++ X) = None.
Proof.
  intro H.
  destruct (kw K_MSG_RFC822 (pstr (VStr mt) ++ 32 :: pstr (VStr st) ++ X)) as [r|] eqn:E;
    [|reflexivity].
  change K_MSG_RFC822 with ((34 :: MESSAGE_U ++ [34]) ++ 32 :: (34 :: RFC822_U ++ [34])) in E.
  rewrite kw_split in E.
  destruct (kw (34 :: MESSAGE_U ++ [34]) (pstr (VStr mt) ++ 32 :: pstr (VStr st) ++ X)) as [r1|] eqn:E1;
    [|discriminate E].
  apply kw_pstr in E1 as [Em ->]; [|reflexivity].
  cbn [kw] in E. change (upper 32 =? upper 32) with true in E. cbn iota in E.
  apply kw_pstr in E as [Es _]; [|reflexivity].
  rewrite Em, Es in H. discriminate H.
Qed.

(* --------------------------------------------------------------------- body *)
(* induction principle with the hypothesis for every part of a multipart *)
Fixpoint body_ind' (P : body -> Prop)
  (Hm : forall parts st p dsp lang loc, Forall P parts -> P (BMulti parts st p dsp lang loc))
  (Hb : forall mt st f, P (BBasic mt st f))
  (Ht : forall st f lines, P (BText st f lines))
  (Hg : forall f lines env b, P b -> P (BMsg f lines env b))
  (b : body) {struct b} : P b :=
  match b with
  | BMulti parts st p dsp lang loc =>
    Hm parts st p dsp lang loc
       ((fix go (l : list body) : Forall P l :=
           match l with
           | [] => Forall_nil P
           | x :: r => Forall_cons x (body_ind' P Hm Hb Ht Hg x) (go r)
           end) parts)
  | BBasic mt st f => Hb mt st f
  | BText st f lines => Ht st f lines
  | BMsg f lines env b' => Hg f lines env b' (body_ind' P Hm Hb Ht Hg b')
  end.

Lemma print_body_head ext b : exists t, print_body ext b = 40 :: t.
Proof. destruct b; eexists; reflexivity. Qed.

Lemma body_parts_print bodyf ext n ps : forall k tail,
  Forall (fun b => forall rest, fits (print_body ext b ++ rest) n ->
                                bodyf (print_body ext b ++ rest) = Some rest) ps ->
  ps <> [] -> nohead (N.eqb 40) tail -> (List.length ps <= k)%nat ->
  fits (flat_map (print_body ext) ps ++ tail) n ->
  body_parts bodyf k (flat_map (print_body ext) ps ++ tail) = Some tail.
Proof.
  induction ps as [|b ps IH]; intros k tail Hall Hne Hn Hk Hlen; [congruence|].
  inversion Hall as [|b' ps' Hb Hps]; subst.
  destruct k as [|k]; [cbn in Hk; lia|]. cbn [body_parts flat_map] in *.
  rewrite <- app_assoc in *. rewrite Hb by exact Hlen.
  destruct ps as [|b2 ps].
  - cbn [flat_map app]. destruct tail as [|c r]; [reflexivity|]. cbn in Hn.
    destruct c as [|p]; [reflexivity|]. repeat (destruct p as [p|p|]; try reflexivity).
    discriminate Hn.
  - destruct (print_body_head ext b2) as [t Et].
    assert (Hl2 : fits (flat_map (print_body ext) (b2 :: ps) ++ tail) n)
      by (revert Hlen; lens').
    pose proof (IH k tail Hps ltac:(discriminate) Hn ltac:(cbn in *; lia) Hl2) as IH'.
    cbn [flat_map] in *. rewrite Et in *. cbn [app] in *. exact IH'.
Qed.

Lemma body_unfold f r :
  Grammar.body (S f) (40 :: r) =
  match r with 40 :: _ => body_mpart (Grammar.body f) f r | _ => body_1part (Grammar.body f) f r end.
Proof. reflexivity. Qed.

Lemma match40_other {A} (c : N) (t : bytes) (X Y : A) :
  (c =? 40) = false -> match c :: t with 40 :: _ => X | _ => Y end = Y.
Proof.
  intro H. destruct c as [|p]; [reflexivity|].
  repeat (destruct p as [p|p|]; try reflexivity). discriminate H.
Qed.

Lemma match32_other {A} (c : N) (t : bytes) (X : bytes -> A) (Y : A) :
  (c =? 32) = false -> match c :: t with 32 :: r => X r | _ => Y end = Y.
Proof.
  intro H. destruct c as [|p]; [reflexivity|].
  repeat (destruct p as [p|p|]; try reflexivity). discriminate H.
Qed.

Lemma pstr_str_head s : exists c t, pstr (VStr s) = c :: t /\ (c =? 40) = false.
Proof.
  destruct (print_sobj_head (build (VStr s))) as [t [E|E]];
    [apply build_not_nil; discriminate|apply build_str_ok| |];
    unfold pstr; rewrite E; eexists; eexists; split; reflexivity.
Qed.

(* the extension data of a single-part body, after the basic fields *)
Definition ext_tail (ext : bool) (f : bfields) : bytes :=
  if ext then 32 :: postr (bf_md5 f) ++ 32 :: print_disposition (bf_dsp f) ++
              32 :: postr (bf_lang f) ++ 32 :: postr (bf_loc f)
  else [].

Lemma ext_tail_accept ext f fuel rest :
  fits (ext_tail ext f ++ 41 :: rest) fuel ->
  (match ext_tail ext f ++ 41 :: rest with
   | 32 :: r3 => r4 <- nstring r3 ;; r5 <- body_ext_tail fuel r4 ;; ch 41 r5
   | _ => ch 41 (ext_tail ext f ++ 41 :: rest)
   end) = Some rest.
Proof.
  intro Hlen. unfold ext_tail in *. destruct ext.
  - cbn [app]. revert Hlen. assoc. intro Hlen. rewrite nstring_postr.
    rewrite body_ext_tail_print by (revert Hlen; lens'). apply ch_cons.
  - cbn [app]. apply ch_cons.
Qed.

(* py_list of the items of a single-part body, flattened *)
Lemma one_part_shape mt st f (mid : list bytes) (ext : bool) :
  py_list (head_items mt st f ++ mid ++ (if ext then ext_items f else [])) =
  40 :: pstr (VStr mt) ++ 32 :: pstr (VStr st) ++ 32 ::
  (print_params (bf_params f) ++ 32 :: postr (bf_id f) ++ 32 :: postr (bf_desc f) ++
   32 :: pstr_fb (of_ostr (bf_enc f)) SEVENBIT ++ 32 :: num (bf_size f) ++
   sp_join mid ++ ext_tail ext f ++ [41]).
Proof.
  assert (E : forall a b, sp_join (a ++ b) = sp_join a ++ sp_join b).
  { intros a b. unfold sp_join. apply flat_map_app. }
  unfold py_list, head_items. cbn [app]. rewrite join_sp_cons.
  cbn [sp_join flat_map]. fold (sp_join (mid ++ (if ext then ext_items f else []))).
  rewrite E. unfold ext_tail, ext_items.
  destruct ext; cbn [sp_join flat_map]; assoc; rewrite ?app_nil_r; reflexivity.
Qed.

Lemma num_head_not_sp n : exists c t, num n = c :: t /\ is_digit c = true.
Proof.
  pose proof (num_nonempty n) as H1. pose proof (num_digits n) as H2.
  destruct (num n) as [|c t]; [discriminate|]. cbn [forallb] in H2.
  apply andb_true_iff in H2 as [H2 _]. eauto.
Qed.

Lemma body_1part_pstr f s X :
  Grammar.body (S f) (40 :: pstr (VStr s) ++ X) =
  body_1part (Grammar.body f) f (pstr (VStr s) ++ X).
Proof.
  rewrite body_unfold. destruct (pstr_str_head s) as (c & t & E & Hc). rewrite E.
  cbn [app]. exact (match40_other c (t ++ X) _ _ Hc).
Qed.

Lemma kw_textq_text X : kw K_TEXTQ (pstr (VStr TEXTs) ++ X) = Some X.
Proof. reflexivity. Qed.

Lemma kw_msg_message X :
  kw K_MSG_RFC822 (pstr (VStr MESSAGEs) ++ 32 :: pstr (VStr RFC822s) ++ X) = Some X.
Proof. reflexivity. Qed.

Lemma ext_tail_nodigit ext f rest : nohead is_digit (ext_tail ext f ++ 41 :: rest).
Proof. unfold ext_tail. destruct ext; reflexivity. Qed.

Lemma body_text_print st f lines ext fuel rest :
  fits (print_text_body ext st f lines ++ rest) fuel ->
  Grammar.body fuel (print_text_body ext st f lines ++ rest) = Some rest.
Proof.
  intro Hlen. unfold print_text_body in *.
  pose proof (one_part_shape TEXTs st f [num lines] ext) as Sh. cbn [app sp_join flat_map] in Sh.
  rewrite Sh in *. clear Sh.
  destruct fuel as [|fu]; [lens'|]. revert Hlen. assoc. intro Hlen.
  rewrite body_1part_pstr. unfold body_1part. cbv zeta.
  rewrite (kw_msg_none TEXTs st _ eq_refl). rewrite kw_textq_text. cbn [is_some].
  rewrite string_pstr, sp_cons, string_pstr, sp_cons.
  rewrite body_fields_print; [|reflexivity|revert Hlen; lens'].
  rewrite sp_cons. rewrite number_num by apply ext_tail_nodigit.
  apply ext_tail_accept. revert Hlen. lens'.
Qed.

Lemma parts_count ext ps : (List.length ps <= List.length (flat_map (print_body ext) ps))%nat.
Proof.
  induction ps as [|b ps IH]; [apply le_n|]. cbn [flat_map List.length].
  destruct (print_body_head ext b) as [t E]. rewrite E. cbn [app List.length].
  rewrite app_length. lia.
Qed.

Lemma mpart_tail st p dsp lang loc (ext : bool) fu (rest : bytes) :
  let TAIL := pstr (VStr st) ++
              (if ext then 32 :: print_params p ++ 32 :: print_disposition dsp ++
                           32 :: postr lang ++ 32 :: postr loc else []) ++ 41 :: rest in
  fits TAIL fu ->
  (r3 <- string_ TAIL ;;
   match r3 with
   | 32 :: r4 => r5 <- body_fld_param fu r4 ;; r6 <- body_ext_tail fu r5 ;; ch 41 r6
   | _ => ch 41 r3
   end) = Some rest.
Proof.
  intros TAIL Hlen. subst TAIL. rewrite string_pstr. destruct ext.
  - revert Hlen. assoc. intro Hlen.
    rewrite body_fld_param_print by (revert Hlen; lens').
    rewrite body_ext_tail_print by (revert Hlen; lens'). apply ch_cons.
  - cbn [app]. apply ch_cons.
Qed.

Theorem body_print : forall b ext fuel rest,
  wf_body b = true -> fits (print_body ext b ++ rest) fuel ->
  Grammar.body fuel (print_body ext b ++ rest) = Some rest.
Proof.
  intro b. induction b as [parts st p dsp lang loc IHp|mt st f|st f lines|f lines env b IHb]
    using body_ind'; intros ext fuel rest Hwf Hlen.
  - (* multipart *)
    cbn [print_body wf_body] in *.
    set (TAILX := (if ext then [print_params p; print_disposition dsp; postr lang; postr loc]
                   else [])) in *.
    destruct fuel as [|fu]; [lens'|].
    assert (Hshape : forall PB,
      py_list (PB :: pstr (VStr st) :: TAILX) ++ rest =
      40 :: PB ++ 32 :: pstr (VStr st) ++
      (if ext then 32 :: print_params p ++ 32 :: print_disposition dsp ++
                   32 :: postr lang ++ 32 :: postr loc else []) ++ 41 :: rest).
    { intro PB. unfold py_list, TAILX. rewrite join_sp_cons. cbn [sp_join flat_map].
      destruct ext; cbn [flat_map]; assoc; rewrite ?app_nil_r; reflexivity. }
    rewrite Hshape in *. clear Hshape TAILX.
    set (TAIL := pstr (VStr st) ++ _) in *.
    (* the parts actually printed: the given ones, or one empty text part *)
    assert (Hparts : exists ps : list body, ps <> [] /\
              (match parts with [] => print_empty_body ext | _ => flat_map (print_body ext) parts end)
              = flat_map (print_body ext) ps /\
              Forall (fun b => forall rest, fits (print_body ext b ++ rest) fu ->
                                            Grammar.body fu (print_body ext b ++ rest) = Some rest) ps).
    { destruct parts as [|b0 ps0].
      - exists [BText PLAINs empty_fields 0]. split; [discriminate|]. split.
        + cbn [flat_map print_body]. rewrite app_nil_r. reflexivity.
        + constructor; [|constructor]. intros r Hr. cbn [print_body] in *.
          apply body_text_print, Hr.
      - exists (b0 :: ps0). split; [discriminate|]. split; [reflexivity|].
        rewrite forallb_forall in Hwf. rewrite Forall_forall in IHp. apply Forall_forall.
        intros b Hb r Hr. apply IHp; [exact Hb|apply Hwf, Hb|exact Hr]. }
    destruct Hparts as (ps & Hne & Eps & Hall). rewrite Eps in *. clear Eps.
    destruct ps as [|b1 ps1]; [congruence|].
    destruct (print_body_head ext b1) as [t1 E1].
    assert (Hm : Grammar.body (S fu) (40 :: flat_map (print_body ext) (b1 :: ps1) ++ 32 :: TAIL)
                 = body_mpart (Grammar.body fu) fu (flat_map (print_body ext) (b1 :: ps1) ++ 32 :: TAIL)).
    { rewrite body_unfold. cbn [flat_map]. rewrite E1. reflexivity. }
    rewrite Hm. clear Hm. unfold body_mpart. subst TAIL.
    rewrite body_parts_print with (n := fu); try assumption.
    + rewrite sp_cons. apply mpart_tail. cbv zeta. revert Hlen. lens'.
    + reflexivity.
    + pose proof (parts_count ext (b1 :: ps1)). revert Hlen. lens'.
    + revert Hlen. lens'.
  - (* basic *)
    cbn [print_body wf_body] in *.
    apply andb_true_iff in Hwf as [Ht Hm]. apply negb_true_iff in Ht. apply negb_true_iff in Hm.
    pose proof (one_part_shape mt st f [] ext) as Sh. cbn [app sp_join flat_map] in Sh.
    rewrite Sh in *. clear Sh.
    destruct fuel as [|fu]; [lens'|]. revert Hlen. assoc. intro Hlen.
    rewrite body_1part_pstr. unfold body_1part. cbv zeta.
    rewrite (kw_msg_none mt st _ Hm). rewrite (kw_textq_none mt _ Ht). cbn [is_some].
    rewrite string_pstr, sp_cons, string_pstr, sp_cons.
    rewrite body_fields_print; [|apply ext_tail_nodigit|revert Hlen; lens'].
    apply ext_tail_accept. revert Hlen. lens'.
  - (* text *)
    cbn [print_body]. apply body_text_print. exact Hlen.
  - (* message/rfc822 *)
    cbn [print_body wf_body] in *. apply andb_true_iff in Hwf as [Hwe Hwb].
    pose proof (one_part_shape MESSAGEs RFC822s f
                  [print_envelope env; print_body ext b; num lines] ext) as Sh.
    cbn [app sp_join flat_map] in Sh. rewrite Sh in *. clear Sh.
    destruct fuel as [|fu]; [lens'|]. revert Hlen. assoc. intro Hlen.
    rewrite body_1part_pstr. unfold body_1part. cbv zeta.
    rewrite kw_msg_message. cbn [is_some].
    rewrite string_pstr, sp_cons, string_pstr, sp_cons.
    rewrite body_fields_print; [|reflexivity|revert Hlen; lens'].
    rewrite sp_cons. rewrite envelope_print; [|exact Hwe|revert Hlen; lens'].
    rewrite sp_cons. rewrite IHb; [|exact Hwb|revert Hlen; lens'].
    rewrite sp_cons. rewrite number_num by apply ext_tail_nodigit.
    apply ext_tail_accept. revert Hlen. lens'.
Qed.
