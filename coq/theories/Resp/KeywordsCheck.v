(* Resp/KeywordsCheck.v — case checkers for the family `maildir_keywords` of
   harness/props/C07.py (harness/c07_keywords.py): the real
   MaildirFlags.read / from_maildir / permanent_flags on hostile
   dovecot-keywords contents against Resp/Keywords.v. *)
From PV Require Import Base.Prelude Base.Decimal Resp.Grammar Resp.Printer Resp.Wf
     Resp.Producer Resp.Keywords.

Local Open Scope N_scope.

(* a file given as the fields str.split() returned for each line:
   (int(i), code points of the keyword); observed: None = ValueError escaped,
   Some (to_kwd sorted by code, permanent_flags sorted, [(codes, from_maildir sorted)]) *)
Definition kw_case : Type :=
  list (N * list N) * option (list (N * bytes) * list bytes * list (list N * list bytes)).

Definition pair_ltb (a b : N * bytes) : bool := fst a <? fst b.
Definition pair_eqb (a b : N * bytes) : bool := (fst a =? fst b) && bytes_eqb (snd a) (snd b).
Definition set_eqb (a b : list bytes) : bool :=
  eqb_list bytes_eqb (sort_by bytes_ltb a) (sort_by bytes_ltb b).
(* frozenset semantics: duplicates collapse *)
Fixpoint dedup (l : list bytes) : list bytes :=
  match l with
  | [] => []
  | x :: r => if existsb (bytes_eqb x) r then dedup r else x :: dedup r
  end.

Definition chk_keywords (c : kw_case) : bool :=
  match read_kws (fst c) [], snd c with
  | None, None => true
  | Some t, Some (tab, perm, msgs) =>
    eqb_list pair_eqb (sort_by pair_ltb t) tab &&
    set_eqb (dedup (permanent_flags (read_names (fst c)))) perm &&
    forallb wf_flag (permanent_flags (read_names (fst c))) &&
    forallb (fun m => set_eqb (dedup (from_maildir t (fst m))) (snd m) &&
                      forallb wf_flag (from_maildir t (fst m))) msgs
  | _, _ => false
  end.
