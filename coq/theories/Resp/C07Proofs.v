(* Resp/C07Proofs.v — the lemmas of Props/C07.v in the form they are stated
   there. *)
From PV Require Import Base.Prelude Base.Decimal Resp.Grammar Resp.Printer Resp.Wf
  Resp.LexProofs Resp.ListProofs Resp.BodyProofs Resp.RespProofs Resp.Examples.
From Coq Require Import Lia.

Lemma quoted_safe_lemma v q rest :
  seven_bit v = true -> build v = OQuoted q ->
  forallb is_text_char q = true /\ quoted (print_quoted q ++ rest) = Some rest.
Proof.
  intros H7 E. pose proof (build_ok v H7) as Hok. rewrite E in Hok. cbn [sobj_ok] in Hok.
  split; [exact Hok|apply quoted_print, Hok].
Qed.

Lemma build_str_is_seven s : seven_bit (VStr s) = true.
Proof. reflexivity. Qed.

Lemma literal_len_lemma b rest :
  literal (print_literal b false ++ rest) = Some rest /\
  literal8 (print_literal b true ++ rest) = Some rest.
Proof. split; [apply literal_print|apply literal8_print]. Qed.

Lemma examples_ok :
  forallb wf_resp ex_stream = true /\ wf_response (print_stream ex_stream) = true.
Proof. split; vm_compute; reflexivity. Qed.

Lemma bad_examples_rejected : forallb (fun b => negb (wf_response b)) bad_examples = true.
Proof. vm_compute. reflexivity. Qed.

(* the hypothesis on the human-readable text cannot be dropped: an empty text
   (what AuthenticationError() produced) is not a well-formed response *)
Lemma empty_text_refuted :
  exists r, wf_resp r = false /\ wf_response (print_resp r) = false /\
            print_resp r = bad_empty_text.
Proof. exists (RCond (Some [97; 57]%N) BAD None []). repeat split; vm_compute; reflexivity. Qed.
