(* Resp/Printer.v — model of how pymap serialises what it sends:
   pymap/parsing/primitives.py (String.build, QuotedString.__bytes__,
   LiteralString prefix, List.__bytes__/write, Number, Nil),
   pymap/parsing/specials/{astring,mailbox,datetime_,fetchattr,flag}.py,
   pymap/parsing/modutf7.py (modutf7_encode),
   pymap/parsing/response/{__init__,specials,code,fetch}.py and pymap/fetch.py,
   as of the current tree (with the fix: commits listed in docs/C07.md).
   Every client-influenced leaf is an arbitrary [list N].  Definitions only.

   Python values: bytes -> list N (each < 256), str -> list N of code points,
   int -> N.  [bytes(x)] and the streamed form [x.write(writer)] produce the
   same bytes for every class modelled here (checked by the correspondence). *)
From PV Require Import Base.Prelude Base.Decimal.
From Coq Require Import String Ascii.

Local Open Scope N_scope.

Definition pbs (s : string) : bytes := map N_of_ascii (list_ascii_of_string s).
Definition SPc : N := 32.
Definition CRLF : bytes := [13; 10].
Definition join_sp (l : list bytes) : bytes :=            (* b' '.join(items) *)
  match l with
  | [] => []
  | x :: r => x ++ flat_map (fun y => SPc :: y) r
  end.
Definition py_list (items : list bytes) : bytes :=          (* List.__bytes__ *)
  40 :: join_sp items ++ [41].
Definition NILb : bytes := Eval vm_compute in pbs "NIL".
Definition num (n : N) : bytes := dec_of_N n.                 (* b'%d' % n *)

(* ---------------------------------------------------------------- UTF-8 *)
Definition is_surrogate (c : N) : bool := (55296 <=? c) && (c <=? 57343).
(* bytes(value, 'utf-8', 'replace'): a lone surrogate becomes '?' *)
Definition utf8_cp (c : N) : bytes :=
  if c <? 128 then [c]
  else if c <? 2048 then [192 + c / 64; 128 + c mod 64]
  else if is_surrogate c then [63]
  else if c <? 65536 then [224 + c / 4096; 128 + (c / 64) mod 64; 128 + c mod 64]
  else [240 + c / 262144; 128 + (c / 4096) mod 64; 128 + (c / 64) mod 64; 128 + c mod 64].
Definition utf8_replace (s : list N) : bytes := flat_map utf8_cp s.
Definition is_ascii_str (s : list N) : bool := forallb (fun c => c <? 128) s.

(* --------------------------------------------------------- String.build *)
Inductive pyval :=
| VNone                        (* None *)
| VBytes (b : bytes)           (* bytes / memoryview *)
| VStr (s : list N).           (* str, header objects (str subclasses) *)

Inductive sobj :=
| ONil
| OQuoted (b : bytes)
| OLiteral (b : bytes) (binary : bool).

Definition has (x : N) (b : bytes) : bool := existsb (N.eqb x) b.
(* the final choice of String.build (binary = False) *)
Definition choose (b : bytes) : sobj :=
  if (N.of_nat (List.length b) <? 64) && negb (has 13 b) && negb (has 10 b) && negb (has 0 b)
  then OQuoted b else OLiteral b false.
Definition build (v : pyval) : sobj :=
  match v with
  | VNone => ONil
  | VBytes [] => OQuoted []
  | VStr [] => OQuoted []
  | VBytes b => choose b
  | VStr s => if is_ascii_str s then choose s else OLiteral (utf8_replace s) false
  end.
(* String.build(value, fallback=fb) *)
Definition build_fb (v : pyval) (fb : bytes) : sobj :=
  match v with VNone => build (VBytes fb) | _ => build v end.

(* QuotedString.__bytes__: the value between double quotes, every double quote
   and backslash preceded by a backslash (_quoted_specials_pattern.sub) *)
Definition escape (b : bytes) : bytes :=
  flat_map (fun c => if (c =? 34) || (c =? 92) then [92; c] else [c]) b.
Definition print_quoted (b : bytes) : bytes := 34 :: escape b ++ [34].
(* LiteralString: b'%b{%d}\r\n' % (b'~' if binary else b'', len) + payload *)
Definition print_literal (b : bytes) (binary : bool) : bytes :=
  (if binary then [126] else []) ++ 123 :: num (N.of_nat (List.length b)) ++ 125 :: CRLF ++ b.
Definition print_sobj (o : sobj) : bytes :=
  match o with
  | ONil => NILb
  | OQuoted b => print_quoted b
  | OLiteral b bin => print_literal b bin
  end.
Definition pstr (v : pyval) : bytes := print_sobj (build v).
(* a header object (a str) or None *)
Definition ostr := option (list N).
Definition of_ostr (o : ostr) : pyval := match o with Some s => VStr s | None => VNone end.
Definition postr (o : ostr) : bytes := pstr (of_ostr o).
Definition pstr_fb (v : pyval) (fb : bytes) : bytes := print_sobj (build_fb v fb).

(* ------------------------------------------------------- modutf7_encode *)
Definition printable (c : N) : bool := (32 <=? c) && (c <=? 126).
(* str.encode('utf-16-be', 'surrogatepass') *)
Definition utf16_units (c : N) : list N :=
  if c <? 65536 then [c]
  else [55296 + (c - 65536) / 1024; 56320 + (c - 65536) mod 1024].
Definition utf16be (s : list N) : bytes :=
  flat_map (fun u => [u / 256; u mod 256]) (flat_map utf16_units s).
(* base64 sextets, '=' padding stripped *)
Fixpoint b64_groups (b : bytes) : list N :=
  match b with
  | x :: y :: z :: r =>
    x / 4 :: (x mod 4) * 16 + y / 16 :: (y mod 16) * 4 + z / 64 :: z mod 64 :: b64_groups r
  | [x; y] => [x / 4; (x mod 4) * 16 + y / 16; (y mod 16) * 4]
  | [x] => [x / 4; (x mod 4) * 16]
  | [] => []
  end.
(* the modified alphabet A-Z a-z 0-9 + , *)
Definition b64char (x : N) : N :=
  if x <? 26 then 65 + x
  else if x <? 52 then 97 + (x - 26)
  else if x <? 62 then 48 + (x - 52)
  else if x =? 62 then 43 else 44.
Definition mb64 (run : list N) : bytes := map b64char (b64_groups (utf16be run)).
(* run = None: is_usascii; Some acc: the characters since encode_start, reversed *)
Fixpoint m7enc (run : option (list N)) (s : list N) : bytes :=
  match s with
  | [] => match run with
          | None => []
          | Some acc => 38 :: mb64 (rev acc) ++ [45]
          end
  | c :: r =>
    match run with
    | None =>
      if c =? 38 then 38 :: 45 :: m7enc None r
      else if printable c then c :: m7enc None r
      else m7enc (Some [c]) r
    | Some acc =>
      if printable c then
        38 :: mb64 (rev acc) ++ 45 :: (if c =? 38 then [38; 45] else [c]) ++ m7enc None r
      else m7enc (Some (c :: acc)) r
    end
  end.
Definition modutf7_encode (s : list N) : bytes := m7enc None s.

(* ---------------------------------------------------- AString, Mailbox *)
(* AString._pattern: [\x21\x23\x24\x26\x27\x2B-\x5B\x5D\x5E-\x7A\x7C\x7E] *)
Definition py_astring_char (c : N) : bool :=
  (c =? 33) || (c =? 35) || (c =? 36) || (c =? 38) || (c =? 39) ||
  ((43 <=? c) && (c <=? 91)) || (c =? 93) || ((94 <=? c) && (c <=? 122)) ||
  (c =? 124) || (c =? 126).
(* AString.__bytes__ without a cached raw form *)
Definition print_astring (b : bytes) : bytes :=
  match b with
  | [] => print_quoted []
  | _ => if forallb py_astring_char b then b else print_quoted b
  end.
Definition INBOXb : bytes := Eval vm_compute in pbs "INBOX".
(* mailbox.isascii() and mailbox.upper() == 'INBOX' *)
Definition is_inbox (s : list N) : bool :=
  match s with
  | [a; b; c; d; e] =>
    ((a =? 73) || (a =? 105)) && ((b =? 78) || (b =? 110)) &&
    ((c =? 66) || (c =? 98)) && ((d =? 79) || (d =? 111)) && ((e =? 88) || (e =? 120))
  | _ => false
  end.
(* bytes(Mailbox(name)) *)
Definition print_mailbox (name : list N) : bytes :=
  if is_inbox name then INBOXb else print_astring (modutf7_encode name).

(* ------------------------------------------------------------- DateTime *)
Record datetime := {
  dt_day : N; dt_month : N; dt_year : N; dt_hour : N; dt_min : N; dt_sec : N;
  dt_neg : bool;        (* utcoffset() < 0 *)
  dt_off : N            (* abs(utcoffset()) in whole seconds *)
}.
Definition pad2 (n : N) : bytes := if n <? 10 then 48 :: num n else num n.       (* %02d *)
Definition pad4 (n : N) : bytes :=                                              (* %04d *)
  if n <? 10 then 48 :: 48 :: 48 :: num n
  else if n <? 100 then 48 :: 48 :: num n
  else if n <? 1000 then 48 :: num n else num n.
Definition MONTH_NAMES : list bytes := Eval vm_compute in
  map pbs ["Jan"; "Feb"; "Mar"; "Apr"; "May"; "Jun"; "Jul"; "Aug"; "Sep"; "Oct"; "Nov"; "Dec"]%string.
(* bytes(DateTime(when)):
   '"%02d-%s-%04d %02d:%02d:%02d %s%02d%02d"' *)
Definition print_datetime (d : datetime) : bytes :=
  let mins := dt_off d / 60 in
  34 :: pad2 (dt_day d) ++ 45 :: nth (N.to_nat (dt_month d - 1)) MONTH_NAMES [] ++ 45 ::
  pad4 (dt_year d) ++ SPc :: pad2 (dt_hour d) ++ 58 :: pad2 (dt_min d) ++ 58 :: pad2 (dt_sec d) ++
  SPc :: (if dt_neg d then 45 else 43) :: pad2 (mins / 60) ++ pad2 (mins mod 60) ++ [34].

(* ------------------------------------------------------------ sorting *)
(* sorted(): insertion sort is the same function for a total order *)
Fixpoint bytes_ltb (a b : bytes) : bool :=
  match a, b with
  | [], [] => false
  | [], _ :: _ => true
  | _ :: _, [] => false
  | x :: a', y :: b' => if x <? y then true else if y <? x then false else bytes_ltb a' b'
  end.
Fixpoint insert_by {A} (lt : A -> A -> bool) (x : A) (l : list A) : list A :=
  match l with
  | [] => [x]
  | y :: r => if lt x y then x :: l else y :: insert_by lt x r
  end.
Definition sort_by {A} (lt : A -> A -> bool) (l : list A) : list A :=
  fold_right (insert_by lt) [] l.
Definition is_sys (f : bytes) : bool := match f with 92 :: _ => true | _ => false end.
(* Flag.__lt__ *)
Definition flag_ltb (a b : bytes) : bool :=
  if is_sys a && negb (is_sys b) then true
  else if negb (is_sys a) && is_sys b then false
  else bytes_ltb a b.
Definition print_flags (flags : list bytes) : bytes :=    (* List(flags, sort=True) *)
  py_list (sort_by flag_ltb flags).

(* ------------------------------------------------- SequenceSet.build *)
Fixpoint insert_uniq (x : N) (l : list N) : list N :=
  match l with
  | [] => [x]
  | y :: r => if x <? y then x :: l else if x =? y then l else y :: insert_uniq x r
  end.
Definition sorted_set (l : list N) : list N := fold_right insert_uniq [] l.  (* sorted(set(l)) *)
Fixpoint build_groups (cur : N * N) (l : list N) : list (N * N) :=
  match l with
  | [] => [cur]
  | x :: r => if x =? snd cur + 1 then build_groups (fst cur, x) r
              else cur :: build_groups (x, x) r
  end.
Definition print_group (g : N * N) : bytes :=
  if fst g =? snd g then num (fst g) else num (fst g) ++ 58 :: num (snd g).
Fixpoint join_comma (l : list bytes) : bytes :=
  match l with
  | [] => []
  | [x] => x
  | x :: r => x ++ 44 :: join_comma r
  end.
(* bytes(SequenceSet.build(uids)); uids non-empty *)
Definition print_uidset (uids : list N) : bytes :=
  match sorted_set uids with
  | [] => []
  | x :: r => join_comma (map print_group (build_groups (x, x) r))
  end.

(* ------------------------------------------------------ response codes *)
Inductive code :=
| CAnon (name : bytes)                          (* ResponseCode.of(b'...') *)
| CCapability (caps : list bytes)
| CPermanentFlags (flags : list bytes)
| CUidNext (n : N) | CUidValidity (n : N) | CUnseen (n : N)
| CAppendUid (validity : N) (uids : list N)
| CCopyUid (validity : N) (src dst : list N)
| CMailboxId (oid : bytes).

Definition capability_string (caps : list bytes) : bytes :=
  join_sp (pbs "CAPABILITY" :: pbs "IMAP4rev1" :: caps).
Definition print_code (c : code) : bytes :=
  match c with
  | CAnon name => 91 :: name ++ [93]
  | CCapability caps => 91 :: capability_string caps ++ [93]
  | CPermanentFlags flags => 91 :: pbs "PERMANENTFLAGS " ++ print_flags flags ++ [93]
  | CUidNext n => 91 :: pbs "UIDNEXT " ++ num n ++ [93]
  | CUidValidity n => 91 :: pbs "UIDVALIDITY " ++ num n ++ [93]
  | CUnseen n => 91 :: pbs "UNSEEN " ++ num n ++ [93]
  | CAppendUid v uids => 91 :: pbs "APPENDUID " ++ num v ++ SPc :: print_uidset uids ++ [93]
  | CCopyUid v s d =>
    91 :: pbs "COPYUID " ++ num v ++ SPc :: print_uidset s ++ SPc :: print_uidset d ++ [93]
  | CMailboxId oid => 91 :: pbs "MAILBOXID (" ++ oid ++ [41; 93]
  end.

(* ------------------------------------------------- envelope, bodystructure *)
Record addr := { a_name : list N; a_user : list N; a_domain : list N }.
(* _AddressList._parse *)
Definition print_address (a : addr) : bytes :=
  py_list [pstr (VStr (a_name a)); NILb; pstr (VStr (a_user a)); pstr (VStr (a_domain a))].
(* None: no header of that name; Some l: the addresses of all its headers *)
Definition addr_field := option (list addr).
(* EnvelopeStructure._addresses(headers, fallback) *)
Definition with_fallback (f fb : addr_field) : addr_field :=
  match f, fb with
  | None, Some _ => fb
  | _, _ => f
  end.
(* _AddressList._value *)
Definition print_addr_field (f : addr_field) : bytes :=
  match f with
  | Some (a :: l) => 40 :: flat_map print_address (a :: l) ++ [41]
  | _ => NILb
  end.

Record envelope := {
  e_date : option datetime;          (* Date header with a parsed datetime *)
  e_subject : ostr;
  e_from : addr_field; e_sender : addr_field; e_reply_to : addr_field;
  e_to : addr_field; e_cc : addr_field; e_bcc : addr_field;
  e_in_reply_to : ostr; e_message_id : ostr
}.
Definition print_envelope (e : envelope) : bytes :=
  py_list [ match e_date e with Some d => print_datetime d | None => NILb end;
            postr (e_subject e);
            print_addr_field (e_from e);
            print_addr_field (with_fallback (e_sender e) (e_from e));
            print_addr_field (with_fallback (e_reply_to e) (e_from e));
            print_addr_field (e_to e);
            print_addr_field (e_cc e);
            print_addr_field (e_bcc e);
            postr (e_in_reply_to e);
            postr (e_message_id e) ].

Definition params := list (list N * list N).
(* _ParamsList._value *)
Definition print_params (p : params) : bytes :=
  match p with
  | [] => NILb
  | _ => py_list (flat_map (fun kv => [pstr (VStr (fst kv)); pstr (VStr (snd kv))]) p)
  end.
(* the Content-Disposition header: None, or (content_disposition, params) *)
Definition disposition := option (option (list N) * params).
(* _Disposition._value *)
Definition print_disposition (d : disposition) : bytes :=
  match d with
  | Some (Some (c :: s), p) => py_list [pstr (VStr (c :: s)); print_params p]
  | _ => NILb
  end.

Record bfields := {
  bf_params : params; bf_id : ostr; bf_desc : ostr; bf_enc : ostr; bf_size : N;
  bf_md5 : ostr; bf_dsp : disposition; bf_lang : ostr; bf_loc : ostr
}.
Inductive body :=
| BMulti (parts : list body) (subtype : list N) (p : params) (dsp : disposition)
         (lang loc : ostr)
| BBasic (maintype subtype : list N) (f : bfields)          (* ContentBodyStructure *)
| BText (subtype : list N) (f : bfields) (lines : N)        (* TextBodyStructure *)
| BMsg (f : bfields) (lines : N) (env : envelope) (b : body).  (* MessageBodyStructure *)

Definition SEVENBIT : bytes := Eval vm_compute in pbs "7BIT".
(* maintype, subtype, params, id, description, encoding, size *)
Definition head_items (mt st : list N) (f : bfields) : list bytes :=
  [pstr (VStr mt); pstr (VStr st); print_params (bf_params f); postr (bf_id f); postr (bf_desc f);
   pstr_fb (of_ostr (bf_enc f)) SEVENBIT; num (bf_size f)].
(* md5, disposition, language, location *)
Definition ext_items (f : bfields) : list bytes :=
  [postr (bf_md5 f); print_disposition (bf_dsp f); postr (bf_lang f); postr (bf_loc f)].
Definition empty_fields : bfields :=
  {| bf_params := []; bf_id := None; bf_desc := None; bf_enc := None; bf_size := 0;
     bf_md5 := None; bf_dsp := None; bf_lang := None; bf_loc := None |}.
Definition TEXTs : list N := Eval vm_compute in pbs "text".
Definition MESSAGEs : list N := Eval vm_compute in pbs "message".
Definition RFC822s : list N := Eval vm_compute in pbs "rfc822".
Definition PLAINs : list N := Eval vm_compute in pbs "plain".
(* TextBodyStructure._value / .extended *)
Definition print_text_body (ext : bool) (st : list N) (f : bfields) (lines : N) : bytes :=
  py_list (head_items TEXTs st f ++ num lines :: (if ext then ext_items f else [])).
(* BodyStructure.empty(): TextBodyStructure('plain', None, ..., 0, 0) *)
Definition print_empty_body (ext : bool) : bytes :=
  print_text_body ext PLAINs empty_fields 0.

(* bytes(b) = bytes(b._value) when ext = false, bytes(b.extended) when true *)
Fixpoint print_body (ext : bool) (b : body) : bytes :=
  match b with
  | BMulti parts st p dsp lang loc =>
    py_list ((match parts with
              | [] => print_empty_body ext      (* MultipartBodyStructure._parts *)
              | _ => flat_map (print_body ext) parts
              end)
             :: pstr (VStr st)
             :: (if ext then [print_params p; print_disposition dsp; postr lang; postr loc]
                 else []))
  | BBasic mt st f =>
    py_list (head_items mt st f ++ (if ext then ext_items f else []))
  | BText st f lines => print_text_body ext st f lines
  | BMsg f lines env b' =>
    py_list (head_items MESSAGEs RFC822s f ++
             print_envelope env :: print_body ext b' :: num lines ::
             (if ext then ext_items f else []))
  end.

(* ------------------------------------------------------ fetch attributes *)
Record fsection := {
  fs_parts : list N;            (* section.parts *)
  fs_spec : option bytes;       (* section.specifier, upper-cased *)
  fs_headers : list bytes       (* section.headers: the names, upper-cased *)
}.
(* FetchAttribute._header_name: AString(name) when the name is 7-bit and
   String.build would quote it, a literal otherwise *)
Definition print_header_name (h : bytes) : bytes :=
  match build (VBytes h) with
  | OQuoted _ => if forallb (fun c => c <? 128) h then print_astring h
                 else print_literal h false
  | _ => print_literal h false
  end.
Fixpoint join_dot (l : list N) : bytes :=
  match l with
  | [] => []
  | [x] => num x
  | x :: r => num x ++ 46 :: join_dot r
  end.
(* the bracketed part of FetchAttribute.raw *)
Definition print_section (s : fsection) : bytes :=
  91 ::
  (match fs_parts s with
   | [] => []
   | _ => join_dot (fs_parts s) ++
          (match fs_spec s with Some (_ :: _) => [46] | _ => [] end)
   end) ++
  (match fs_spec s with
   | Some (c :: sp) =>
     (c :: sp) ++ (match fs_headers s with
                   | [] => []
                   | hs => SPc :: py_list (map print_header_name (sort_by bytes_ltb hs))
                   end)
   | _ => []
   end) ++ [93].
(* "<start>" of for_response *)
Definition print_origin (o : option N) : bytes :=
  match o with Some n => 60 :: num n ++ [62] | None => [] end.

Inductive rfc822_kind := R822 | R822Header | R822Text.
Inductive fetch_item :=
| FUid (n : N)
| FFlags (flags : list bytes)
| FInternalDate (d : datetime)
| FEmailId (oid : bytes)
| FThreadId (oid : option bytes)
| FEnvelope (e : envelope)
| FBodyStructure (b : body)
| FBody (b : body)                                          (* BODY without section *)
| FBodySection (s : fsection) (o : option N) (data : bytes)   (* BODY[..]<n>, BODY.PEEK *)
| FRfc822 (k : rfc822_kind) (data : bytes)
| FRfc822Size (n : N)
| FBinary (s : fsection) (o : option N) (data : bytes)        (* BINARY[..], BINARY.PEEK *)
| FBinarySize (s : fsection) (n : N).

(* bytes(FetchValue) = attribute.for_response SP value *)
Definition print_fetch_item (i : fetch_item) : bytes :=
  match i with
  | FUid n => pbs "UID " ++ num n
  | FFlags fl => pbs "FLAGS " ++ print_flags fl
  | FInternalDate d => pbs "INTERNALDATE " ++ print_datetime d
  | FEmailId oid => pbs "EMAILID (" ++ oid ++ [41]
  | FThreadId (Some oid) => pbs "THREADID (" ++ oid ++ [41]
  | FThreadId None => pbs "THREADID NIL"
  | FEnvelope e => pbs "ENVELOPE " ++ print_envelope e
  | FBodyStructure b => pbs "BODYSTRUCTURE " ++ print_body true b
  | FBody b => pbs "BODY " ++ print_body false b
  | FBodySection s o d =>
    pbs "BODY" ++ print_section s ++ print_origin o ++ SPc :: print_literal d false
  | FRfc822 R822 d => pbs "RFC822 " ++ print_literal d false
  | FRfc822 R822Header d => pbs "RFC822.HEADER " ++ print_literal d false
  | FRfc822 R822Text d => pbs "RFC822.TEXT " ++ print_literal d false
  | FRfc822Size n => pbs "RFC822.SIZE " ++ num n
  | FBinary s o d =>
    pbs "BINARY" ++ print_section s ++ print_origin o ++ SPc :: print_literal d true
  | FBinarySize s n => pbs "BINARY.SIZE" ++ print_section s ++ SPc :: num n
  end.

(* ------------------------------------------------------------ responses *)
Inductive cond := OK | NO | BAD | BYE | PREAUTH.
Definition print_cond (c : cond) : bytes :=
  match c with
  | OK => pbs "OK" | NO => pbs "NO" | BAD => pbs "BAD" | BYE => pbs "BYE"
  | PREAUTH => pbs "PREAUTH"
  end.
Inductive status_attr := SMessages | SRecent | SUidNext | SUidValidity | SUnseen.
Inductive status_item :=
| SNum (a : status_attr) (n : N)
| SMailboxId (oid : bytes).
Definition print_status_attr (a : status_attr) : bytes :=
  match a with
  | SMessages => pbs "MESSAGES" | SRecent => pbs "RECENT" | SUidNext => pbs "UIDNEXT"
  | SUidValidity => pbs "UIDVALIDITY" | SUnseen => pbs "UNSEEN"
  end.
Definition print_status_item (i : status_item) : list bytes :=
  match i with
  | SNum a n => [print_status_attr a; num n]
  | SMailboxId oid => [pbs "MAILBOXID"; 40 :: oid ++ [41]]
  end.

(* one Response object as it is written: tag SP text CRLF *)
Inductive resp :=
| RCond (tag : option bytes) (c : cond) (code : option code) (text : bytes)
    (* ResponseOk/No/Bad/Bye/PreAuth, UntaggedResponse(condition=...); tag None = "*" *)
| RCont (text : bytes)                              (* ResponseContinuation *)
| RCapability (caps : list bytes)                   (* UntaggedResponse(capability.string) *)
| RFlags (flags : list bytes)
| RExists (n : N) | RRecent (n : N) | RExpunge (n : N)
| RFetch (seq : N) (items : list fetch_item)
| RSearch (ids : list N)
| RStatus (name : list N) (items : list status_item)
| RList (lsub : bool) (name : list N) (sep : option (list N)) (attrs : list bytes)
| RId (p : option (list (pyval * pyval))).

Definition print_tag (t : option bytes) : bytes := match t with Some t => t | None => [42] end.
(* Response.text with a condition *)
Definition cond_text (c : cond) (cd : option code) (text : bytes) : bytes :=
  match cd with
  | Some cd => print_cond c ++ SPc :: print_code cd ++ SPc :: text
  | None => print_cond c ++ SPc :: text
  end.
Definition untagged (text : bytes) : bytes := 42 :: SPc :: text ++ CRLF.

Definition print_resp (r : resp) : bytes :=
  match r with
  | RCond t c cd text => print_tag t ++ SPc :: cond_text c cd text ++ CRLF
  | RCont text => 43 :: SPc :: text ++ CRLF
  | RCapability caps => untagged (capability_string caps)
  | RFlags fl => untagged (pbs "FLAGS " ++ print_flags fl)
  | RExists n => untagged (num n ++ pbs " EXISTS")
  | RRecent n => untagged (num n ++ pbs " RECENT")
  | RExpunge n => untagged (num n ++ pbs " EXPUNGE")
  | RFetch n items => untagged (num n ++ pbs " FETCH " ++ py_list (map print_fetch_item items))
  | RSearch ids => untagged (join_sp (pbs "SEARCH" :: map num ids))
  | RStatus name items =>
    untagged (join_sp [pbs "STATUS"; print_mailbox name;
                       py_list (flat_map print_status_item items)])
  | RList lsub name sep attrs =>
    untagged (join_sp [if lsub then pbs "LSUB" else pbs "LIST";
                       py_list (map (fun a => 92 :: a) attrs);
                       match sep with
                       | Some (c :: s) => print_quoted (modutf7_encode (c :: s))
                       | _ => NILb
                       end;
                       print_mailbox name])
  | RId None => untagged (pbs "ID NIL")
  | RId (Some p) =>
    untagged (pbs "ID " ++ py_list (flat_map (fun kv => [pstr (fst kv); pstr (snd kv)]) p))
  end.

(* everything a connection writes: the concatenation of its responses *)
Definition print_stream (rs : list resp) : bytes := flat_map print_resp rs.
