(* Resp/FetchProducerProofs.v — the FETCH values built by the model of
   pymap/fetch.py + pymap/message.py (Resp/FetchProducer.v) satisfy [wf_resp]:
   for every message literal, every decision of the stdlib email package and
   every nesting depth. *)
From PV Require Import Base.Prelude Base.Decimal Mime.Lines Mime.Parts Mime.Fields
     Mime.LinesProofs Mime.PartsProofs
     Resp.Grammar Resp.Printer Resp.Wf Resp.FetchProducer Resp.RespProofs.
From Coq Require Import Lia ZifyBool.

Local Open Scope N_scope.
Local Open Scope list_scope.

(* ------------------------------------------------------------- strings *)
Lemma str_eqb_eq a b : str_eqb a b = true -> a = b.
Proof. intro H. apply (proj1 (bytes_eqb_eq a b)). exact H. Qed.

Lemma upper_inj_lowered c c' :
  negb ((65 <=? c) && (c <=? 90)) = true -> negb ((65 <=? c') && (c' <=? 90)) = true ->
  upper c = upper c' -> c = c'.
Proof.
  unfold upper, in_rng. intros H H'.
  destruct ((97 <=? c) && (c <=? 122)) eqn:E; destruct ((97 <=? c') && (c' <=? 122)) eqn:E'; lia.
Qed.

Lemma map_upper_inj_lowered : forall s t,
  lowered s = true -> lowered t = true -> map upper s = map upper t -> s = t.
Proof.
  induction s as [|c s IH]; intros [|c' t] Hs Ht H; cbn [map] in H; try discriminate; auto.
  unfold lowered in Hs, Ht. cbn [forallb] in Hs, Ht.
  apply andb_prop in Hs as (Hc & Hs). apply andb_prop in Ht as (Hc' & Ht).
  injection H as H0 H1. f_equal.
  - apply upper_inj_lowered; assumption.
  - apply IH; assumption.
Qed.

(* a lowered string that matches WORD case-insensitively is the lower-case word *)
Lemma lowered_ci s (low : list N) (up : bytes) :
  lowered low = true -> map upper low = up ->
  lowered s = true -> eqb_ci s up = true -> s = low.
Proof.
  intros Hl Hu Hs H. unfold eqb_ci in H. apply bytes_eqb_eq in H.
  apply map_upper_inj_lowered; auto. rewrite H, Hu. reflexivity.
Qed.

(* --------------------------------------------------- the parsed tree *)
(* every node records the decision taken on its own header lines, and its
   nested parts have the shape that decision implies *)
Inductive pinv (ct : list line -> ctype) : content -> Prop :=
| pinv_node hl bl k subs :
    k = kind_of ct hl -> shape_ok k subs -> Forall (pinv ct) subs ->
    pinv ct (Node hl bl k subs).

Lemma parse_lines_pinv d ct : forall fuel ls c,
  parse_lines d ct fuel ls = Ok c -> pinv ct c.
Proof.
  induction fuel as [|f IH]; intros ls c H; [discriminate|].
  cbn [parse_lines] in H. destruct (split_lines d ls) as [hl bl] eqn:Es.
  destruct (kind_of ct hl) as [| |[|b0 b']|] eqn:Ek.
  - injection H as <-. constructor; [symmetry; exact Ek|reflexivity|constructor].
  - injection H as <-. constructor; [symmetry; exact Ek|reflexivity|constructor].
  - injection H as <-. constructor; [symmetry; exact Ek|exact I|constructor].
  - destruct (map_result (parse_lines d ct f) (find_parts d (b0 :: b') bl)) as [subs| | |] eqn:Em;
      cbn [bind] in H; try discriminate.
    injection H as <-. constructor; [symmetry; exact Ek|exact I|].
    eapply map_result_Forall; [exact Em|].
    apply Forall_forall. intros p _ y Hy. eapply IH; exact Hy.
  - destruct (parse_lines d ct f bl) as [s| | |] eqn:Er; cbn [bind] in H; try discriminate.
    injection H as <-. constructor; [symmetry; exact Ek|exists s; reflexivity|].
    constructor; [|constructor]. eapply IH; exact Er.
Qed.

Lemma parse_pinv d ct c : parse d ct = Ok c -> pinv ct c.
Proof. unfold parse. apply parse_lines_pinv. Qed.

Section Proofs.
  Variable d : bytes.
  Variable hd : list line -> hdata.
  Variable dec : content -> option bytes.
  Hypothesis hd_good : forall hl, hd_ok (hd hl) = true.

  Lemma hdx_ok hl : hd_ok (hdx hd hl) = true.
  Proof. destruct hl; [reflexivity|apply hd_good]. Qed.

  Lemma ct_lowered h : hd_ok h = true -> lowered (ct_main h) = true /\ lowered (ct_sub h) = true.
  Proof.
    unfold hd_ok, ct_main, ct_sub, content_type. intro H. apply andb_prop in H as (H & _).
    destruct (hd_ctype h) as [[[mt st] p]|]; cbn [fst snd].
    - apply andb_prop in H. exact H.
    - split; reflexivity.
  Qed.

  Lemma envelope_of_wf h : hd_ok h = true -> wf_envelope (envelope_of h) = true.
  Proof.
    unfold hd_ok, wf_envelope, envelope_of. cbn [e_date]. intro H.
    apply andb_prop in H as (_ & H). unfold date_of.
    destruct (hd_date h) as [[[|c s] [t|]]|]; cbn [opt_all]; try reflexivity.
    unfold py_datetime in H. unfold wf_datetime. lia.
  Qed.

  (* the list of sub-structures of a multipart *)
  Definition bs_list :=
    fix go (l : list content) : result (list body) :=
      match l with
      | [] => Ok []
      | s :: r => bind (body_of_content d hd s) (fun b =>
                  bind (go r) (fun bs => Ok (b :: bs)))
      end.

  Definition good (c : content) : Prop :=
    pinv (ct hd) c -> exists b, body_of_content d hd c = Ok b /\ wf_body b = true.

  Lemma bs_list_ok : forall subs,
    Forall good subs -> Forall (pinv (ct hd)) subs ->
    exists bs, bs_list subs = Ok bs /\ forallb wf_body bs = true.
  Proof.
    induction subs as [|s r IH]; intros HF HP.
    - exists []. split; reflexivity.
    - inversion HF as [|? ? Hs Hr]; subst. inversion HP as [|? ? Ps Pr]; subst.
      destruct (Hs Ps) as (b & Eb & Wb). destruct (IH Hr Pr) as (bs & Ebs & Wbs).
      exists (b :: bs). split.
      + cbn [bs_list]. fold bs_list. rewrite Eb. cbn [bind]. rewrite Ebs. reflexivity.
      + cbn [forallb]. rewrite Wb, Wbs. reflexivity.
  Qed.

  (* message/rfc822 (decided on the strings) has exactly one nested message *)
  Lemma rfc822_has_nested hl bl k subs :
    pinv (ct hd) (Node hl bl k subs) ->
    str_eqb (ct_main (hdx hd hl)) MESSAGEs = true ->
    str_eqb (ct_sub (hdx hd hl)) RFC822s = true ->
    exists s, subs = [s].
  Proof.
    intros HP Hm Hs. inversion HP as [? ? ? ? Hk Hshape _]; subst.
    destruct hl as [|l0 hl'].
    - cbn [hdx] in Hm. vm_compute in Hm. discriminate.
    - cbn [hdx] in Hm, Hs. cbn [kind_of] in Hshape. unfold ct, ct_of in Hshape.
      apply str_eqb_eq in Hm. rewrite Hm in Hshape.
      replace (str_eqb MESSAGEs MULTIPARTs) with false in Hshape by (vm_compute; reflexivity).
      replace (str_eqb MESSAGEs MESSAGEs) with true in Hshape by (vm_compute; reflexivity).
      rewrite Hs in Hshape. cbn [andb] in Hshape. exact Hshape.
  Qed.

  Theorem body_of_content_good : forall c, good c.
  Proof.
    apply content_ind'. intros hl bl k subs HF HP.
    assert (Hsubs : Forall (pinv (ct hd)) subs) by (inversion HP; assumption).
    cbn [body_of_content]. fold bs_list.
    destruct (ct_lowered _ (hdx_ok hl)) as (Lm & Ls).
    destruct (str_eqb (ct_main (hdx hd hl)) MULTIPARTs && nonempty_c subs) eqn:Emul.
    - destruct (bs_list_ok subs HF Hsubs) as (bs & Ebs & Wbs).
      rewrite Ebs. cbn [bind]. eexists. split; [reflexivity|]. cbn [wf_body]. exact Wbs.
    - destruct (str_eqb (ct_main (hdx hd hl)) MESSAGEs && str_eqb (ct_sub (hdx hd hl)) RFC822s) eqn:Emsg.
      + apply andb_prop in Emsg as (Em & Es).
        destruct (rfc822_has_nested hl bl k subs HP Em Es) as (s & ->).
        inversion HF as [|? ? Hs _]; subst. inversion Hsubs as [|? ? Ps _]; subst.
        destruct (Hs Ps) as (b & Eb & Wb). rewrite Eb. cbn [bind].
        eexists. split; [reflexivity|]. cbn [wf_body].
        rewrite envelope_of_wf by apply hdx_ok. exact Wb.
      + destruct (str_eqb (ct_main (hdx hd hl)) TEXTs) eqn:Etxt.
        * eexists. split; reflexivity.
        * eexists. split; [reflexivity|]. cbn [wf_body].
          apply andb_true_intro. split; apply Bool.negb_true_iff.
          -- destruct (eqb_ci (ct_main (hdx hd hl)) TEXT_U) eqn:E; [|reflexivity].
             apply (lowered_ci _ TEXTs) in E; [|reflexivity|reflexivity|exact Lm].
             rewrite E in Etxt. vm_compute in Etxt. discriminate.
          -- destruct (eqb_ci (ct_main (hdx hd hl)) MESSAGE_U) eqn:E1; [|reflexivity].
             destruct (eqb_ci (ct_sub (hdx hd hl)) RFC822_U) eqn:E2; [|reflexivity].
             apply (lowered_ci _ MESSAGEs) in E1; [|reflexivity|reflexivity|exact Lm].
             apply (lowered_ci _ RFC822s) in E2; [|reflexivity|reflexivity|exact Ls].
             rewrite E1, E2 in Emsg. vm_compute in Emsg. discriminate.
  Qed.

  (* BODY / BODYSTRUCTURE of any message: never an exception, always a
     structure the printer turns into a well-formed body *)
  Theorem bodystructure_producer c :
    parse d (ct hd) = Ok c ->
    exists b, body_of_content d hd c = Ok b /\ wf_body b = true.
  Proof. intro H. apply body_of_content_good. eapply parse_pinv. exact H. Qed.

  Theorem envelope_producer hl : wf_envelope (envelope_of (hdx hd hl)) = true.
  Proof. apply envelope_of_wf, hdx_ok. Qed.

  (* ----------------------------------------------------- fetch values *)
  Lemma wf_sec_spec_false s : wf_sec_spec false s = true -> wf_section s = true.
  Proof.
    unfold wf_sec_spec, wf_section. intro H. apply andb_prop in H as (Hp & H).
    change (forallb (fun n => 0 <? n) (fs_parts s)) with (forallb pos (fs_parts s)) in Hp.
    rewrite Hp. cbn [andb]. destruct (fs_spec s) as [sp|]; [|exact H].
    cbn [negb andb] in H.
    change SPEC_FIELDS with [K_HF; K_HFN]. unfold SPEC_PLAIN. cbn [existsb].
    rewrite !Bool.orb_false_r.
    destruct (bytes_eqb sp K_HEADER || bytes_eqb sp K_TEXT); [exact H|].
    destruct (bytes_eqb sp K_MIME); [exact H|].
    destruct (bytes_eqb sp K_HF || bytes_eqb sp K_HFN); [|exact H].
    destruct (fs_headers s); [discriminate|reflexivity].
  Qed.

  Lemma wf_sec_spec_true s : wf_sec_spec true s = true -> wf_section_binary s = true.
  Proof.
    unfold wf_sec_spec, wf_section_binary. intro H. apply andb_prop in H as (Hp & H).
    change (forallb (fun n => 0 <? n) (fs_parts s)) with (forallb pos (fs_parts s)) in Hp.
    rewrite Hp. cbn [andb]. destruct (fs_spec s) as [sp|].
    - cbn [negb andb] in H. discriminate.
    - destruct (fs_headers s); [reflexivity|discriminate].
  Qed.

  (* a section FetchAttribute.parse accepted never reaches `raise ValueError` *)
  Lemma section_data_ok c s binary :
    wf_sec_spec binary s = true -> exists data, section_data d dec c s binary = Ok data.
  Proof.
    unfold wf_sec_spec, section_data. intro H. apply andb_prop in H as (_ & H).
    destruct (fs_spec s) as [sp|]; [|eexists; reflexivity].
    apply andb_prop in H as (_ & H).
    destruct (bytes_eqb sp K_MIME) eqn:E3; [eexists; reflexivity|].
    destruct (bytes_eqb sp K_TEXT) eqn:E2; [eexists; reflexivity|].
    destruct (bytes_eqb sp K_HEADER) eqn:E1; [eexists; reflexivity|].
    destruct (bytes_eqb sp K_HF) eqn:E4; [eexists; reflexivity|].
    destruct (bytes_eqb sp K_HFN) eqn:E5; [eexists; reflexivity|].
    cbn [orb] in H. discriminate.
  Qed.

  Definition wf_meta (m : msgmeta) : bool :=
    pos (mm_uid m) && py_datetime (mm_date m) && forallb wf_flag (mm_flags m) &&
    wf_oid (mm_email m) && opt_all wf_oid (mm_thread m).

  Lemma py_datetime_wf t : py_datetime t = true -> wf_datetime t = true.
  Proof. unfold py_datetime, wf_datetime. lia. Qed.

  Lemma sec_of_rfc822_ok k : wf_sec_spec false (sec_of_rfc822 k) = true.
  Proof. destruct k; vm_compute; reflexivity. Qed.

  Theorem fetch_value_wf m c a :
    parse d (ct hd) = Ok c -> wf_meta m = true -> wf_fattr a = true ->
    exists i, fetch_value d hd dec m c a = Ok i /\ wf_fetch_item i = true.
  Proof.
    intros Hc Hm Ha. unfold wf_meta in Hm.
    apply andb_prop in Hm as (Hm & Hth). apply andb_prop in Hm as (Hm & Hem).
    apply andb_prop in Hm as (Hm & Hfl). apply andb_prop in Hm as (Huid & Hdt).
    destruct (bodystructure_producer c Hc) as (b & Eb & Wb).
    destruct a; cbn [fetch_value wf_fattr] in *.
    - eexists; split; [reflexivity|exact Huid].
    - eexists; split; [reflexivity|exact Hfl].
    - eexists; split; [reflexivity|]. cbn [wf_fetch_item]. apply py_datetime_wf, Hdt.
    - eexists; split; [reflexivity|exact Hem].
    - eexists; split; [reflexivity|exact Hth].
    - eexists; split; [reflexivity|]. cbn [wf_fetch_item]. apply envelope_producer.
    - rewrite Eb. cbn [bind]. eexists; split; [reflexivity|exact Wb].
    - rewrite Eb. cbn [bind]. eexists; split; [reflexivity|exact Wb].
    - unfold get_data. destruct (section_data_ok c s false Ha) as (x & ->). cbn [bind].
      eexists; split; [reflexivity|]. cbn [wf_fetch_item]. apply wf_sec_spec_false, Ha.
    - unfold get_data. destruct (section_data_ok c (sec_of_rfc822 k) false (sec_of_rfc822_ok k)) as (x & ->).
      cbn [bind]. eexists; split; reflexivity.
    - eexists; split; reflexivity.
    - unfold get_data. destruct (section_data_ok c s true Ha) as (x & ->). cbn [bind].
      eexists; split; [reflexivity|]. cbn [wf_fetch_item]. apply wf_sec_spec_true, Ha.
    - unfold get_data. destruct (section_data_ok c s true Ha) as (x & ->). cbn [bind].
      eexists; split; [reflexivity|]. cbn [wf_fetch_item]. apply wf_sec_spec_true, Ha.
  Qed.

  Lemma fetch_values_wf m c : forall attrs,
    parse d (ct hd) = Ok c -> wf_meta m = true -> forallb wf_fattr attrs = true ->
    exists items, fetch_values d hd dec m c attrs = Ok items /\
                  forallb wf_fetch_item items = true /\ length items = length attrs.
  Proof.
    induction attrs as [|a r IH]; intros Hc Hm Ha.
    - exists []. repeat split.
    - cbn [forallb] in Ha. apply andb_prop in Ha as (Ha & Hr).
      destruct (fetch_value_wf m c a Hc Hm Ha) as (i & Ei & Wi).
      destruct (IH Hc Hm Hr) as (is & Eis & Wis & Len).
      exists (i :: is). cbn [fetch_values]. rewrite Ei. cbn [bind]. rewrite Eis. cbn [bind].
      repeat split; [|cbn [length]; congruence]. cbn [forallb]. rewrite Wi, Wis. reflexivity.
  Qed.

  (* the FETCH response of any message for any accepted attribute list *)
  Theorem fetch_response_wf seq m attrs :
    pos seq = true -> wf_meta m = true -> attrs <> [] -> forallb wf_fattr attrs = true ->
    exists r, fetch_response d hd dec seq m attrs = Ok r /\ wf_resp r = true.
  Proof.
    intros Hseq Hm Hne Ha. unfold fetch_response.
    destruct (st_parse_total d (ct hd)) as (c & Hc). rewrite Hc. cbn [bind].
    destruct (fetch_values_wf m c attrs Hc Hm Ha) as (items & -> & Wi & Len). cbn [bind].
    eexists. split; [reflexivity|]. cbn [wf_resp]. rewrite Hseq, Wi.
    destruct items; [destruct attrs; [congruence|discriminate]|reflexivity].
  Qed.

  (* hence (C07) the bytes written are a well-formed response *)
  Theorem fetch_response_stream seq m attrs :
    pos seq = true -> wf_meta m = true -> attrs <> [] -> forallb wf_fattr attrs = true ->
    exists r, fetch_response d hd dec seq m attrs = Ok r /\
              wf_response (print_stream [r]) = true.
  Proof.
    intros Hseq Hm Hne Ha.
    destruct (fetch_response_wf seq m attrs Hseq Hm Hne Ha) as (r & Er & Wr).
    exists r. split; [exact Er|]. apply stream_wf. cbn [forallb]. rewrite Wr. reflexivity.
  Qed.
End Proofs.

(* the statements in the form of Props/C07.v *)
Lemma fetch_content_lemma d hd dec seq m attrs :
  (forall hl, hd_ok (hd hl) = true) ->
  pos seq = true -> wf_meta m = true -> attrs <> [] -> forallb wf_fattr attrs = true ->
  exists r, fetch_response d hd dec seq m attrs = Ok r /\ wf_resp r = true /\
            wf_response (print_stream [r]) = true.
Proof.
  intros Hhd Hseq Hm Hne Ha.
  destruct (fetch_response_wf d hd dec Hhd seq m attrs Hseq Hm Hne Ha) as (r & Er & Wr).
  exists r. repeat split; [exact Er|exact Wr|].
  apply stream_wf. cbn [forallb]. rewrite Wr. reflexivity.
Qed.

(* ------------------------------------------------------------ examples *)
From Coq Require Import String Ascii.
Local Open Scope string_scope.

(* multipart/mixed with a text part and a message/rfc822 part whose message
   is text/plain; the oracle is keyed by the first header line *)
Definition crlf_lines (l : list string) : bytes := flat_map (fun s => (pbs s ++ CRLF)%list) l.
Definition ex_msg : bytes := Eval vm_compute in crlf_lines
  ["Content-Type: multipart/mixed; boundary=b"; "From: a@b"; ""; "--b"; ""; "hi"; "--b";
   "Content-Type: message/rfc822"; ""; "Subject: in"; ""; "x"; "--b--"].

Definition ex_hd (hl : list line) : hdata :=
  match hl with
  | l :: _ =>
    if Nat.eqb (l_start l) 0 then
      {| hd_ctype := Some (pbs "multipart", pbs "mixed", [(pbs "boundary", pbs "b")]);
         hd_dsp := None; hd_lang := None; hd_loc := None; hd_id := None; hd_desc := None;
         hd_enc := None; hd_date := None; hd_subject := None;
         hd_from := Some [[ {| a_name := []; a_user := pbs "a"; a_domain := pbs "b" |} ]];
         hd_sender := None; hd_reply_to := None; hd_to := None; hd_cc := None; hd_bcc := None;
         hd_in_reply_to := None; hd_message_id := None |}
    else if Nat.eqb (l_start l) 72 then
      {| hd_ctype := Some (pbs "message", pbs "rfc822", []);
         hd_dsp := None; hd_lang := None; hd_loc := None; hd_id := None; hd_desc := None;
         hd_enc := None; hd_date := None; hd_subject := None; hd_from := None;
         hd_sender := None; hd_reply_to := None; hd_to := None; hd_cc := None; hd_bcc := None;
         hd_in_reply_to := None; hd_message_id := None |}
    else
      {| hd_ctype := None;
         hd_dsp := None; hd_lang := None; hd_loc := None; hd_id := None; hd_desc := None;
         hd_enc := None; hd_date := None; hd_subject := Some (pbs "in"); hd_from := None;
         hd_sender := None; hd_reply_to := None; hd_to := None; hd_cc := None; hd_bcc := None;
         hd_in_reply_to := None; hd_message_id := None |}
  | [] => no_headers
  end.
Definition ex_meta : msgmeta :=
  {| mm_uid := 7; mm_date := Build_datetime 1 1 2020 0 0 0 false 0; mm_flags := [pbs "\Seen"];
     mm_email := pbs "M1"; mm_thread := None |}.
Definition ex_attrs : list fattr :=
  [AUid; AEnvelope; ABodyStructure; ABody; ARfc822Size;
   ABodySection {| fs_parts := [2]; fs_spec := Some K_HEADER; fs_headers := [] |} (Some (0, 5)%nat)].

Definition ex_result : option resp :=
  match fetch_response ex_msg ex_hd (fun _ => None) 1 ex_meta ex_attrs with
  | Ok r => Some r | _ => None end.
Definition ex_expected : bytes := Eval vm_compute in crlf_lines
  ["* 1 FETCH (UID 7 ENVELOPE (NIL NIL (("""" NIL ""a"" ""b"")) (("""" NIL ""a"" ""b"")) (("""" NIL ""a"" ""b"")) NIL NIL NIL NIL NIL) BODYSTRUCTURE ((""text"" ""plain"" NIL NIL NIL ""7BIT"" 6 1 NIL NIL NIL NIL)(""message"" ""rfc822"" NIL NIL NIL ""7BIT"" 50 (NIL ""in"" NIL NIL NIL NIL NIL NIL NIL NIL) (""text"" ""plain"" NIL NIL NIL ""7BIT"" 18 2 NIL NIL NIL NIL) 4 NIL NIL NIL NIL) ""mixed"" (""boundary"" ""b"") NIL NIL NIL) BODY ((""text"" ""plain"" NIL NIL NIL ""7BIT"" 6 1)(""message"" ""rfc822"" NIL NIL NIL ""7BIT"" 50 (NIL ""in"" NIL NIL NIL NIL NIL NIL NIL NIL) (""text"" ""plain"" NIL NIL NIL ""7BIT"" 18 2) 4) ""mixed"") RFC822.SIZE 129 BODY[2.HEADER]<0> {5}";
   "Subje)"].
Lemma fetch_example :
  (forall hl, hd_ok (ex_hd hl) = true) /\ wf_meta ex_meta = true /\
  forallb wf_fattr ex_attrs = true /\
  option_map print_resp ex_result = Some ex_expected /\
  option_map wf_resp ex_result = Some true /\ wf_response ex_expected = true.
Proof.
  split; [|split; [|split; [|split; [|split]]]].
  - intros [|l r]; [reflexivity|]. cbn [ex_hd].
    destruct (Nat.eqb (l_start l) 0); [reflexivity|].
    destruct (Nat.eqb (l_start l) 72); reflexivity.
  - reflexivity.
  - reflexivity.
  - vm_compute. reflexivity.
  - vm_compute. reflexivity.
  - vm_compute. reflexivity.
Qed.

(* the hypothesis on the case of maintype / subtype is needed: were the
   stdlib to hand out "TEXT" the dispatch of _get_body_structure (which
   compares with 'text') would build a ContentBodyStructure, printed without
   the line count the grammar demands after "TEXT" *)
Definition up_hd (_ : list line) : hdata :=
  {| hd_ctype := Some (pbs "TEXT", pbs "plain", []);
     hd_dsp := None; hd_lang := None; hd_loc := None; hd_id := None; hd_desc := None;
     hd_enc := None; hd_date := None; hd_subject := None; hd_from := None;
     hd_sender := None; hd_reply_to := None; hd_to := None; hd_cc := None; hd_bcc := None;
     hd_in_reply_to := None; hd_message_id := None |}.
Lemma lowered_needed :
  exists d r, hd_ok (up_hd []) = false /\
    fetch_response d up_hd (fun _ => None) 1 ex_meta [ABody] = Ok r /\
    wf_resp r = false /\ wf_response (print_stream [r]) = false.
Proof.
  exists (crlf_lines ["A: b"; ""; "x"]).
  eexists. split; [reflexivity|]. split; [vm_compute; reflexivity|].
  split; vm_compute; reflexivity.
Qed.
