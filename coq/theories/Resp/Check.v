(* Resp/Check.v — boolean case checkers for the correspondence runs of
   harness/props/C07.py.  Each case carries what was observed on the
   implementation; the model recomputes it under vm_compute. *)
From PV Require Import Base.Prelude Base.Decimal Resp.Grammar Resp.Printer Resp.Wf.

(* (bytes, verdict of the independent Python recogniser) *)
Definition chk_wf (c : bytes * bool) : bool := Bool.eqb (wf_response (fst c)) (snd c).

(* (response AST, bytes(resp) of the real object built from the same values) *)
Definition chk_print (c : resp * bytes) : bool := bytes_eqb (print_resp (fst c)) (snd c).

(* the same for ASTs that are meant to satisfy the hypotheses of C07: they do,
   and (an instance of the theorem) the recogniser accepts the bytes *)
Definition chk_print_wf (c : resp * bytes) : bool :=
  bytes_eqb (print_resp (fst c)) (snd c) && wf_resp (fst c) && wf_response (snd c).

(* (the responses one connection wrote, converted from the live objects; every
   byte the connection wrote) *)
Definition chk_stream (c : list resp * bytes) : bool :=
  bytes_eqb (print_stream (fst c)) (snd c) && forallb wf_resp (fst c).

(* leaf functions on their own *)
Definition chk_build (c : pyval * bytes) : bool := bytes_eqb (pstr (fst c)) (snd c).
Definition chk_mailbox (c : list N * bytes) : bool := bytes_eqb (print_mailbox (fst c)) (snd c).
Definition chk_datetime (c : datetime * bytes) : bool := bytes_eqb (print_datetime (fst c)) (snd c).
