(* Resp/Check.v — boolean case checkers for the correspondence runs of
   harness/props/C07.py.  Each case carries what was observed on the
   implementation; the model recomputes it under vm_compute. *)
From PV Require Import Base.Prelude Base.Decimal Resp.Grammar.

(* (bytes, verdict of the independent Python recogniser) *)
Definition chk_wf (c : bytes * bool) : bool := Bool.eqb (wf_response (fst c)) (snd c).
