(* Resp/Check.v — boolean case checkers for the correspondence runs of
   harness/props/C07.py.  Each case carries what was observed on the
   implementation; the model recomputes it under vm_compute. *)
From PV Require Import Base.Prelude Base.Decimal Resp.Grammar Resp.Printer Resp.Wf.

(* (bytes, verdict of the independent Python recogniser) *)
Definition chk_wf (c : bytes * bool) : bool := Bool.eqb (wf_response (fst c)) (snd c).

(* (response AST, bytes(resp) of the real object built from the same values) *)
Definition chk_print (c : resp * bytes) : bool := bytes_eqb (print_resp (fst c)) (snd c).

(* the same for ASTs that are meant to satisfy the hypotheses of C07: they do,
   and (an instance of the theorem) the recogniser accepts the bytes *)
Definition chk_print_wf (c : resp * bytes) : bool :=
  bytes_eqb (print_resp (fst c)) (snd c) && wf_resp (fst c) && wf_response (snd c).

(* (the responses one connection wrote, converted from the live objects; every
   byte the connection wrote) *)
Definition chk_stream (c : list resp * bytes) : bool :=
  bytes_eqb (print_stream (fst c)) (snd c) && forallb wf_resp (fst c).

(* leaf functions on their own *)
Definition chk_build (c : pyval * bytes) : bool := bytes_eqb (pstr (fst c)) (snd c).
Definition chk_mailbox (c : list N * bytes) : bool := bytes_eqb (print_mailbox (fst c)) (snd c).
Definition chk_datetime (c : datetime * bytes) : bool := bytes_eqb (print_datetime (fst c)) (snd c).

(* ------------------------------------------------- the producer model *)
From PV Require Import Resp.Producer.

Fixpoint is_prefix (a b : bytes) : bool :=
  match a, b with
  | [], _ => true
  | x :: a', y :: b' => (x =? y)%N && is_prefix a' b'
  | _ :: _, [] => false
  end.
Definition is_suffix (a b : bytes) : bool := is_prefix (rev a) (rev b).

(* (responses the model builds for a command, the bytes that command wrote):
   the untagged responses come first, the tagged line last; updates of the
   selected mailbox may stand between them *)
Definition chk_frame (c : list resp * bytes) : bool :=
  match rev (fst c) with
  | [] => false
  | t :: u =>
    is_prefix (print_stream (rev u)) (snd c) && is_suffix (print_resp t) (snd c) &&
    (Nat.leb (length (print_stream (fst c))) (length (snd c))) && forallb wf_resp (fst c)
  end.

Definition opt_pair_eqb (a b : option (bytes * bytes)) : bool :=
  match a, b with
  | None, None => true
  | Some (x, y), Some (x', y') => bytes_eqb x x' && bytes_eqb y y'
  | _, _ => false
  end.
Definition chk_parse_tag (c : bytes * option (bytes * bytes)) : bool :=
  opt_pair_eqb (parse_tag (fst c)) (snd c).
Definition chk_parse_atom (c : bytes * option (bytes * bytes)) : bool :=
  opt_pair_eqb (parse_atom (fst c)) (snd c).
Definition chk_parse_flag (c : bytes * option (bytes * bytes)) : bool :=
  opt_pair_eqb (parse_flag (fst c)) (snd c).
(* (byte, Tag._pattern matches it, _atom_pattern matches it) *)
Definition chk_class (c : N * bool * bool) : bool :=
  let '(b, t, a) := c in Bool.eqb (py_tag_char b) t && Bool.eqb (py_atom_char b) a.
Definition chk_attrs (c : bool * option bool * bool * list bytes) : bool :=
  let '(e, m, ch, l) := c in eqb_list bytes_eqb (list_attributes e m ch) l.
Definition chk_oid (c : N * bytes) : bool := bytes_eqb (mailbox_id_of (fst c)) (snd c).
Definition chk_validity (c : N * N * N) : bool :=
  let '(t, r, v) := c in (uid_validity_of t r =? v)%N.

(* the small producer checks as one case type (one Coq run) *)
Inductive leaf_case :=
| LClass (b : N) (t a : bool)
| LAttrs (e : bool) (m : option bool) (ch : bool) (l : list bytes)
| LOid (bits : N) (b : bytes)
| LValidity (t r v : N)
| LTag (buf : bytes) (o : option (bytes * bytes))
| LAtom (buf : bytes) (o : option (bytes * bytes))
| LFlag (buf : bytes) (o : option (bytes * bytes)).
Definition chk_leaf (c : leaf_case) : bool :=
  match c with
  | LClass b t a => chk_class (b, t, a)
  | LAttrs e m ch l => chk_attrs (e, m, ch, l)
  | LOid bits b => chk_oid (bits, b)
  | LValidity t r v => chk_validity (t, r, v)
  | LTag buf o => chk_parse_tag (buf, o)
  | LAtom buf o => chk_parse_atom (buf, o)
  | LFlag buf o => chk_parse_flag (buf, o)
  end.
