(* Resp/ListProofs.v — repetition (list_balanced), flags, UID sets, response
   codes and resp-text: the recogniser accepts what the printer produces. *)
From PV Require Import Base.Prelude Base.Decimal Resp.Grammar Resp.Printer Resp.Wf Resp.LexProofs.
From Coq Require Import Lia ZifyBool String.

Local Open Scope string_scope.
Local Open Scope N_scope.
Local Open Scope list_scope.
Notation len := List.length.

Ltac assoc := repeat (rewrite <- app_assoc || rewrite <- app_comm_cons || rewrite app_nil_l).
Ltac lens := unfold bytes, byte in *; repeat (rewrite app_length in * || cbn [List.length] in * ); lia.

Definition starts_not (a : N) (y : bytes) : Prop :=
  match y with c :: _ => (c =? a) = false | [] => False end.
Definition not_sp (rest : bytes) : Prop := nohead (N.eqb 32) rest.

Definition sp_join (ys : list bytes) : bytes := flat_map (fun y => 32 :: y) ys.

Lemma join_sp_cons x ys : join_sp (x :: ys) = x ++ sp_join ys.
Proof. reflexivity. Qed.

Lemma sp_join_map {A} (pr : A -> bytes) xs :
  flat_map (fun y => SPc :: pr y) xs = sp_join (map pr xs).
Proof. induction xs as [|x xs IH]; [reflexivity|]. cbn [flat_map map sp_join]. f_equal. f_equal. exact IH. Qed.

(* *(SP item): every printed item is accepted when followed by something [ok] *)
Lemma sp_items_join item (ok : bytes -> Prop) ys : forall fuel rest,
  Forall (fun y => forall r, ok r -> item (y ++ r) = Some r) ys ->
  (forall r, ok (32 :: r)) -> ok rest -> not_sp rest ->
  (len (sp_join ys ++ rest) < fuel)%nat ->
  sp_items fuel item (sp_join ys ++ rest) = Some rest.
Proof.
  induction ys as [|y ys IH]; intros fuel rest Hall Hsp Hok Hns Hlen.
  - cbn [sp_join flat_map app] in *. destruct fuel as [|f]; [lia|]. cbn [sp_items].
    destruct rest as [|c r]; [reflexivity|]. cbn in Hns.
    destruct c as [|p]; [reflexivity|].
    repeat (destruct p as [p|p|]; try reflexivity). discriminate Hns.
  - inversion Hall as [|y' ys' Hy Hys]; subst.
    cbn [sp_join flat_map] in *. fold (sp_join ys) in *.
    destruct fuel as [|f]; [lia|]. cbn [sp_items app].
    rewrite <- app_assoc. rewrite Hy.
    + apply IH; try assumption. revert Hlen. lens.
    + destruct ys as [|y2 ys2]; cbn [sp_join flat_map app]; [exact Hok|apply Hsp].
Qed.

(* list_balanced: "(" [item *(SP item)] ")" accepts List.__bytes__ of accepted items *)
Lemma plist_py item (ok : bytes -> Prop) ys fuel rest :
  Forall (fun y => forall r, ok r -> item (y ++ r) = Some r) ys ->
  Forall (starts_not 41) ys ->
  (forall r, ok (32 :: r)) -> ok (41 :: rest) ->
  (len (py_list ys ++ rest) < fuel)%nat ->
  plist fuel item (py_list ys ++ rest) = Some rest.
Proof.
  intros Hall Hst Hsp Hok Hlen. unfold py_list, plist. cbn [app]. rewrite ch_cons.
  destruct ys as [|y ys].
  - cbn [join_sp app]. rewrite ch_cons. reflexivity.
  - inversion Hall as [|y' ys' Hy Hys]; subst. inversion Hst as [|y' ys' Sy Sys]; subst.
    rewrite join_sp_cons. rewrite <- !app_assoc.
    destruct y as [|c t]; [destruct Sy|]. cbn [starts_not] in Sy.
    cbn [app ch]. rewrite Sy. rewrite app_comm_cons.
    rewrite Hy.
    + rewrite sp_items_join with (ok := ok); try assumption.
      * cbn [app]. apply ch_cons.
      * reflexivity.
      * unfold py_list in Hlen. rewrite join_sp_cons in Hlen. revert Hlen. lens.
    + destruct ys; cbn [sp_join flat_map app]; [exact Hok|apply Hsp].
Qed.

Lemma plist1_py item (ok : bytes -> Prop) y ys fuel rest :
  Forall (fun y => forall r, ok r -> item (y ++ r) = Some r) (y :: ys) ->
  (forall r, ok (32 :: r)) -> ok (41 :: rest) ->
  (len (py_list (y :: ys) ++ rest) < fuel)%nat ->
  plist1 fuel item (py_list (y :: ys) ++ rest) = Some rest.
Proof.
  intros Hall Hsp Hok Hlen. unfold py_list, plist1. cbn [app]. rewrite ch_cons.
  inversion Hall as [|y' ys' Hy Hys]; subst.
  rewrite join_sp_cons. rewrite <- !app_assoc. rewrite Hy.
  - rewrite sp_items_join with (ok := ok); try assumption.
    + cbn [app]. apply ch_cons.
    + reflexivity.
    + unfold py_list in Hlen. rewrite join_sp_cons in Hlen. revert Hlen. lens.
  - destruct ys; cbn [sp_join flat_map app]; [exact Hok|apply Hsp].
Qed.

(* ------------------------------------------------------------------ sorting *)
Lemma insert_by_Forall {A} (P : A -> Prop) lt x l :
  P x -> Forall P l -> Forall P (insert_by lt x l).
Proof.
  intros Hx Hl. induction Hl as [|y l Hy Hl IH]; cbn [insert_by].
  - constructor; [exact Hx|constructor].
  - destruct (lt x y); repeat constructor; assumption.
Qed.

Lemma sort_by_Forall {A} (P : A -> Prop) lt l : Forall P l -> Forall P (sort_by lt l).
Proof.
  intro H. induction H as [|x l Hx Hl IH]; cbn [sort_by fold_right]; [constructor|].
  apply insert_by_Forall; assumption.
Qed.

Lemma insert_by_nonempty {A} lt (x : A) l : insert_by lt x l <> [].
Proof. destruct l; cbn [insert_by]; [discriminate|]. destruct (lt x a); discriminate. Qed.

Lemma sort_by_nonempty {A} lt (l : list A) : l <> [] -> sort_by lt l <> [].
Proof. destruct l; [congruence|]. intros _. apply insert_by_nonempty. Qed.

Lemma forallb_Forall {A} (p : A -> bool) l : forallb p l = true -> Forall (fun x => p x = true) l.
Proof. intro H. apply Forall_forall. apply forallb_forall. exact H. Qed.

Lemma Forall_impl' {A} (P Q : A -> Prop) l : (forall x, P x -> Q x) -> Forall P l -> Forall Q l.
Proof. intros H HF. eapply Forall_impl; eassumption. Qed.

(* -------------------------------------------------------------------- flags *)
Definition atom_end (r : bytes) : Prop := nohead is_atom_char r.

Lemma atom_wf a r : wf_atom a = true -> atom_end r -> atom (a ++ r) = Some r.
Proof.
  unfold wf_atom. intros H Hr. apply andb_true_iff in H as [H1 H2].
  apply many1_app; assumption.
Qed.

Lemma flag_wf f r : wf_flag f = true -> atom_end r -> flag (f ++ r) = Some r.
Proof.
  unfold wf_flag, flag. intros H Hr. destruct f as [|c t].
  - discriminate H.
  - destruct (N.eq_dec c 92) as [->|Hc].
    + cbn [app]. apply atom_wf; assumption.
    + assert (E : atom ((c :: t) ++ r) = Some r).
      { apply atom_wf; [|exact Hr]. destruct c as [|p]; [exact H|].
        repeat (destruct p as [p|p|]; try exact H). congruence. }
      cbn [app] in *. destruct c as [|p]; [exact E|].
      repeat (destruct p as [p|p|]; try exact E). congruence.
Qed.

Lemma wf_atom_head a : wf_atom a = true -> exists c t, a = c :: t /\ is_atom_char c = true.
Proof.
  unfold wf_atom. destruct a as [|c t]; [discriminate|]. cbn [nonempty forallb andb].
  intro H. apply andb_true_iff in H as [H1 _]. eauto.
Qed.

Lemma wf_flag_starts f : wf_flag f = true -> starts_not 41 f.
Proof.
  unfold wf_flag. destruct f as [|c t]; [discriminate|]. intro H. cbn [starts_not].
  destruct (N.eq_dec c 92) as [->|Hc]; [reflexivity|].
  assert (Ha : wf_atom (c :: t) = true).
  { destruct c as [|p]; [exact H|]. repeat (destruct p as [p|p|]; try exact H). congruence. }
  apply wf_atom_head in Ha as (c' & t' & E & Hc'). injection E as <- <-.
  unfold is_atom_char, in_rng in Hc'. lia.
Qed.

Lemma wf_flag_perm_cases f : wf_flag_perm f = true -> f = [92; 42] \/ wf_flag f = true.
Proof.
  unfold wf_flag_perm. intro H.
  destruct f as [|c l]; [right; exact H|].
  destruct c as [|p]; [right; exact H|].
  repeat (destruct p as [p|p|]; try (right; exact H)).
  destruct l as [|d l']; [right; exact H|].
  destruct d as [|p]; [right; exact H|].
  repeat (destruct p as [p|p|]; try (right; exact H)).
  destruct l' as [|e t]; [left; reflexivity|right; exact H].
Qed.

Lemma flag_perm_wf f r : wf_flag_perm f = true -> atom_end r -> flag_perm (f ++ r) = Some r.
Proof.
  intros H Hr. apply wf_flag_perm_cases in H as [->|H]; [reflexivity|].
  pose proof (flag_wf f r H Hr) as E. unfold flag_perm.
  destruct f as [|c l]; [discriminate H|]. cbn [app] in *.
  destruct c as [|p]; [exact E|].
  repeat (destruct p as [p|p|]; try exact E).
  (* c = 92 *)
  destruct l as [|d l']; cbn [app] in *.
  - discriminate H.
  - destruct d as [|p]; [exact E|].
    repeat (destruct p as [p|p|]; try exact E).
    (* d = 42: not an atom character *) discriminate H.
Qed.

Lemma wf_flag_perm_starts f : wf_flag_perm f = true -> starts_not 41 f.
Proof.
  intro H. apply wf_flag_perm_cases in H as [->|H]; [reflexivity|]. apply wf_flag_starts, H.
Qed.

Lemma atom_end_sp r : atom_end (32 :: r).  Proof. reflexivity. Qed.
Lemma atom_end_rp r : atom_end (41 :: r).  Proof. reflexivity. Qed.

Lemma flag_list_print fl fuel rest :
  forallb wf_flag fl = true -> (len (print_flags fl ++ rest) < fuel)%nat ->
  flag_list fuel (print_flags fl ++ rest) = Some rest.
Proof.
  intros H Hlen. unfold flag_list, print_flags in *.
  apply plist_py with (ok := atom_end); try assumption.
  - apply sort_by_Forall. eapply Forall_impl'; [|apply forallb_Forall, H].
    intros f Hf r Hr. apply flag_wf; assumption.
  - apply sort_by_Forall. eapply Forall_impl'; [|apply forallb_Forall, H].
    intros f Hf. apply wf_flag_starts, Hf.
  - exact atom_end_sp.
  - apply atom_end_rp.
Qed.

Lemma flag_perm_list_print fl fuel rest :
  forallb wf_flag_perm fl = true -> (len (print_flags fl ++ rest) < fuel)%nat ->
  plist fuel flag_perm (print_flags fl ++ rest) = Some rest.
Proof.
  intros H Hlen. unfold print_flags in *.
  apply plist_py with (ok := atom_end); try assumption.
  - apply sort_by_Forall. eapply Forall_impl'; [|apply forallb_Forall, H].
    intros f Hf r Hr. apply flag_perm_wf; assumption.
  - apply sort_by_Forall. eapply Forall_impl'; [|apply forallb_Forall, H].
    intros f Hf. apply wf_flag_perm_starts, Hf.
  - exact atom_end_sp.
  - apply atom_end_rp.
Qed.

(* ---------------------------------------------------------------- object ids *)
Lemma objectid_print o rest :
  wf_oid o = true -> objectid_parens (40 :: o ++ 41 :: rest) = Some rest.
Proof.
  unfold wf_oid. intro H. apply andb_true_iff in H as [H H3]. apply andb_true_iff in H as [H1 H2].
  unfold objectid_parens. rewrite ch_cons. rewrite span_app; [|exact H2|reflexivity].
  destruct o as [|c t]; [discriminate|]. rewrite H3. apply ch_cons.
Qed.

(* ------------------------------------------------------------------ UID sets *)
Definition uid_end (r : bytes) : Prop := nohead is_digit r /\ nohead (N.eqb 58) r.

Lemma insert_uniq_in x l y : In y (insert_uniq x l) -> y = x \/ In y l.
Proof.
  induction l as [|z l IH]; cbn [insert_uniq].
  - intros [<-|[]]; auto.
  - destruct (x <? z); [intros [<-|H]; auto|].
    destruct (x =? z); [auto|]. intros [<-|H]; [right; left; reflexivity|].
    destruct (IH H); [auto|right; right; assumption].
Qed.

Lemma sorted_set_in l y : In y (sorted_set l) -> In y l.
Proof.
  induction l as [|x l IH]; cbn [sorted_set fold_right]; [auto|].
  intro H. apply insert_uniq_in in H as [->|H]; [left; reflexivity|right; apply IH, H].
Qed.

Lemma insert_uniq_nonempty x l : insert_uniq x l <> [].
Proof.
  destruct l as [|z l]; cbn [insert_uniq]; [discriminate|].
  destruct (x <? z); [discriminate|]. destruct (x =? z); discriminate.
Qed.

Lemma sorted_set_nonempty l : nonempty l = true -> sorted_set l <> [].
Proof. destruct l; [discriminate|]. intros _. apply insert_uniq_nonempty. Qed.

Lemma build_groups_pos l : forall cur,
  pos (fst cur) = true -> pos (snd cur) = true -> Forall (fun x => pos x = true) l ->
  Forall (fun g => pos (fst g) = true /\ pos (snd g) = true) (build_groups cur l).
Proof.
  induction l as [|x l IH]; intros cur H1 H2 Hl; cbn [build_groups].
  - repeat constructor; assumption.
  - inversion Hl; subst. destruct (x =? snd cur + 1).
    + apply IH; assumption.
    + constructor; [split; assumption|]. apply IH; assumption.
Qed.

Lemma build_groups_nonempty l : forall cur, build_groups cur l <> [].
Proof.
  induction l as [|x l IH]; intro cur; cbn [build_groups]; [discriminate|].
  destruct (x =? snd cur + 1); [apply IH|discriminate].
Qed.

Lemma uid_elem_group g r :
  pos (fst g) = true -> pos (snd g) = true -> uid_end r ->
  uid_elem (print_group g ++ r) = Some r.
Proof.
  intros H1 H2 [Hd Hc]. unfold print_group, uid_elem. destruct (fst g =? snd g).
  - rewrite nz_number_num by assumption.
    destruct r as [|c r']; [reflexivity|]. cbn in Hc.
    destruct c as [|p]; [reflexivity|]. repeat (destruct p as [p|p|]; try reflexivity).
    discriminate Hc.
  - rewrite <- app_assoc. rewrite nz_number_num; [|assumption|reflexivity].
    cbn [app]. apply nz_number_num; assumption.
Qed.

Definition cjoin (gs : list (N * N)) : bytes := flat_map (fun g => 44 :: print_group g) gs.

Lemma uid_set_tail_join gs : forall fuel rest,
  Forall (fun g => pos (fst g) = true /\ pos (snd g) = true) gs ->
  uid_end rest -> nohead (N.eqb 44) rest ->
  (len (cjoin gs ++ rest) < fuel)%nat ->
  uid_set_tail fuel (cjoin gs ++ rest) = Some rest.
Proof.
  induction gs as [|g gs IH]; intros fuel rest Hall He Hn Hlen.
  - cbn [cjoin flat_map app] in *. destruct fuel as [|f]; [lia|]. cbn [uid_set_tail].
    destruct rest as [|c r]; [reflexivity|]. cbn in Hn.
    destruct c as [|p]; [reflexivity|]. repeat (destruct p as [p|p|]; try reflexivity).
    discriminate Hn.
  - inversion Hall as [|g' gs' [G1 G2] Hgs]; subst.
    cbn [cjoin flat_map] in *. fold (cjoin gs) in *. destruct fuel as [|f]; [lia|]. cbn [uid_set_tail app].
    rewrite <- app_assoc. rewrite uid_elem_group; try assumption.
    + apply IH; try assumption. revert Hlen. lens.
    + destruct gs; cbn [cjoin flat_map app]; [exact He|split; reflexivity].
Qed.

Lemma join_comma_flat g gs :
  join_comma (map print_group (g :: gs)) =
  print_group g ++ cjoin gs.
Proof.
  revert g; induction gs as [|g2 gs IH]; intro g.
  - cbn. rewrite app_nil_r. reflexivity.
  - change (join_comma (map print_group (g :: g2 :: gs)))
      with (print_group g ++ 44 :: join_comma (map print_group (g2 :: gs))).
    rewrite IH. reflexivity.
Qed.

Lemma uid_set_print uids fuel rest :
  nonempty uids = true -> forallb pos uids = true ->
  uid_end rest -> nohead (N.eqb 44) rest ->
  (len (print_uidset uids ++ rest) < fuel)%nat ->
  uid_set fuel (print_uidset uids ++ rest) = Some rest.
Proof.
  intros Hne Hpos He Hn Hlen. unfold print_uidset in *.
  pose proof (sorted_set_nonempty uids Hne) as Hs.
  assert (Hin : Forall (fun x => pos x = true) (sorted_set uids)).
  { apply Forall_forall. intros y Hy. apply sorted_set_in in Hy.
    rewrite forallb_forall in Hpos. apply Hpos, Hy. }
  destruct (sorted_set uids) as [|x r]; [congruence|].
  inversion Hin as [|x' r' Hx Hr]; subst.
  pose proof (build_groups_pos r (x, x) Hx Hx Hr) as Hg.
  destruct (build_groups (x, x) r) as [|g gs] eqn:Eg.
  - exfalso. exact (build_groups_nonempty r (x, x) Eg).
  - rewrite join_comma_flat in *. fold (cjoin gs) in *. inversion Hg as [|g' gs' [G1 G2] Hgs]; subst.
    unfold uid_set. rewrite <- app_assoc. rewrite uid_elem_group; try assumption.
    + apply uid_set_tail_join; try assumption. revert Hlen. lens.
    + destruct gs; cbn [cjoin flat_map app]; [exact He|split; reflexivity].
Qed.

(* -------------------------------------------------------------- capabilities *)
Lemma cap_args_loop caps : forall fuel rest,
  forallb wf_atom caps = true -> atom_end rest -> not_sp rest ->
  (len (sp_join caps ++ rest) < fuel)%nat ->
  cap_args fuel true (sp_join caps ++ rest) = Some rest.
Proof.
  induction caps as [|c caps IH]; intros fuel rest Hall He Hn Hlen.
  - cbn [sp_join flat_map app] in *. destruct fuel as [|f]; [lia|]. cbn [cap_args].
    destruct rest as [|x r]; [reflexivity|]. cbn in Hn.
    destruct x as [|p]; [reflexivity|]. repeat (destruct p as [p|p|]; try reflexivity).
    discriminate Hn.
  - cbn [forallb] in Hall. apply andb_true_iff in Hall as [Hc Hall].
    cbn [sp_join flat_map] in *. fold (sp_join caps) in *.
    destruct fuel as [|f]; [lia|]. cbn [cap_args app]. rewrite <- app_assoc.
    unfold wf_atom in Hc. apply andb_true_iff in Hc as [Hc1 Hc2].
    rewrite span_app; [|exact Hc2|].
    + destruct c as [|x t]; [discriminate|]. cbn [orb]. apply IH; try assumption.
      revert Hlen. lens.
    + destruct caps; cbn [sp_join flat_map app]; [exact He|reflexivity].
Qed.

Lemma cap_args_print caps fuel rest :
  forallb wf_atom caps = true -> atom_end rest -> not_sp rest ->
  (len (capability_string caps ++ rest) < fuel)%nat ->
  exists mid, capability_string caps ++ rest = K_CAPABILITY ++ mid /\
              cap_args fuel false mid = Some rest /\ (len mid < fuel)%nat.
Proof.
  intros Hall He Hn Hlen. unfold capability_string in *. rewrite join_sp_cons in *.
  cbn [sp_join flat_map] in *. fold (sp_join caps) in *.
  eexists. split; [assoc; reflexivity|]. split.
  - destruct fuel as [|f]; [lia|]. cbn [cap_args app]. assoc.
    rewrite span_app; [|reflexivity|].
    + cbn [orb]. replace (eqb_ci (pbs "IMAP4rev1") K_IMAP4REV1) with true by reflexivity.
      cbn [orb]. change (pbs "IMAP4rev1") with [73; 77; 65; 80; 52; 114; 101; 118; 49].
      apply cap_args_loop; try assumption. revert Hlen. lens.
    + destruct caps; cbn [sp_join flat_map app]; [exact He|reflexivity].
  - revert Hlen. lens.
Qed.

(* -------------------------------------------------------------- resp-text *)
Ltac eval_closed :=
  repeat match goal with
  | |- context [eqb_ci ?a ?b] =>
    let v := eval vm_compute in (eqb_ci a b) in change (eqb_ci a b) with v
  | |- context [mem_ci ?a ?b] =>
    let v := eval vm_compute in (mem_ci a b) in change (mem_ci a b) with v
  end.

Definition code_end (r : bytes) : Prop := exists t, r = 93 :: t.

Lemma span_atom_kw k rest :
  forallb is_atom_char k = true -> atom_end rest ->
  span is_atom_char (k ++ rest) = (k, rest).
Proof. intros; apply span_app; assumption. Qed.

(* a response code, once printed, is accepted up to its closing bracket *)
Lemma resp_text_code_print c fuel t :
  wf_code c = true -> (len (print_code c ++ t) < fuel)%nat ->
  exists inner, print_code c = 91 :: inner ++ [93] /\
                resp_text_code fuel (inner ++ 93 :: t) = Some (93 :: t).
Proof.
  intros Hwf Hlen. destruct c as [name|caps|fl|n|n|n|v uids|v s d|oid];
    cbn [print_code wf_code] in *.
  - (* anonymous: atom *)
    exists name. split; [reflexivity|].
    apply andb_true_iff in Hwf as [Ha Hk]. unfold wf_atom in Ha.
    apply andb_true_iff in Ha as [Ha1 Ha2]. unfold resp_text_code.
    rewrite span_app; [|exact Ha2|reflexivity].
    destruct name as [|x nm]; [discriminate|].
    apply negb_true_iff in Hk. unfold CODES_WITH_ARGS in Hk. cbn [mem_ci] in Hk.
    repeat (apply orb_false_iff in Hk as [?E Hk]).
    destruct (mem_ci (x :: nm) CODES_NOARG); [reflexivity|].
    destruct (eqb_ci (x :: nm) K_BADCHARSET); [reflexivity|].
    unfold CODES_NZ. cbn [mem_ci].
    repeat match goal with H : eqb_ci _ _ = false |- _ => rewrite H; clear H end.
    cbn [orb]. reflexivity.
  - (* CAPABILITY *)
    destruct (cap_args_print caps fuel (93 :: t)) as (mid & E & Hc & Hl);
      [exact Hwf|reflexivity|reflexivity|revert Hlen; lens|].
    exists (capability_string caps). split; [reflexivity|].
    rewrite E. unfold resp_text_code. rewrite span_app; [|reflexivity|].
    + change K_CAPABILITY with [67; 65; 80; 65; 66; 73; 76; 73; 84; 89]. eval_closed.
      exact Hc.
    + (* mid starts with SP *)
      unfold capability_string in E. rewrite join_sp_cons in E. rewrite <- app_assoc in E.
      apply app_inv_head in E. rewrite <- E. reflexivity.
  - (* PERMANENTFLAGS *)
    exists (pbs "PERMANENTFLAGS " ++ print_flags fl). split; [assoc; reflexivity|].
    unfold resp_text_code. assoc.
    change (pbs "PERMANENTFLAGS ") with (K_PERMANENTFLAGS ++ [32]). assoc.
    rewrite span_app; [|reflexivity|reflexivity].
    change K_PERMANENTFLAGS with [80; 69; 82; 77; 65; 78; 69; 78; 84; 70; 76; 65; 71; 83].
    eval_closed. cbn [app]. rewrite sp_cons. apply flag_perm_list_print; [exact Hwf|].
    revert Hlen. lens.
  - exists (pbs "UIDNEXT " ++ num n). split; [assoc; reflexivity|].
    unfold resp_text_code. assoc.
    change (pbs "UIDNEXT ") with (pbs "UIDNEXT" ++ [32]). assoc.
    rewrite span_app; [|reflexivity|reflexivity].
    change (pbs "UIDNEXT") with [85; 73; 68; 78; 69; 88; 84]. eval_closed.
    cbn [app]. rewrite sp_cons. apply nz_number_num; [exact Hwf|reflexivity].
  - exists (pbs "UIDVALIDITY " ++ num n). split; [assoc; reflexivity|].
    unfold resp_text_code. assoc.
    change (pbs "UIDVALIDITY ") with (pbs "UIDVALIDITY" ++ [32]). assoc.
    rewrite span_app; [|reflexivity|reflexivity].
    change (pbs "UIDVALIDITY") with [85; 73; 68; 86; 65; 76; 73; 68; 73; 84; 89]. eval_closed.
    cbn [app]. rewrite sp_cons. apply nz_number_num; [exact Hwf|reflexivity].
  - exists (pbs "UNSEEN " ++ num n). split; [assoc; reflexivity|].
    unfold resp_text_code. assoc.
    change (pbs "UNSEEN ") with (pbs "UNSEEN" ++ [32]). assoc.
    rewrite span_app; [|reflexivity|reflexivity].
    change (pbs "UNSEEN") with [85; 78; 83; 69; 69; 78]. eval_closed.
    cbn [app]. rewrite sp_cons. apply nz_number_num; [exact Hwf|reflexivity].
  - (* APPENDUID *)
    apply andb_true_iff in Hwf as [Hwf H3]. apply andb_true_iff in Hwf as [H1 H2].
    exists (pbs "APPENDUID " ++ num v ++ SPc :: print_uidset uids). split.
    { assoc. reflexivity. }
    unfold resp_text_code.
    change (pbs "APPENDUID ") with (K_APPENDUID ++ [32]). assoc.
    rewrite span_app; [|reflexivity|reflexivity].
    change K_APPENDUID with [65; 80; 80; 69; 78; 68; 85; 73; 68]. eval_closed.
    cbn [app]. rewrite sp_cons. rewrite nz_number_num; [|exact H1|reflexivity].
    unfold SPc. rewrite sp_cons. cbn [app].
    apply uid_set_print; try assumption; try (split; reflexivity); try reflexivity.
    revert Hlen. lens.
  - (* COPYUID *)
    apply andb_true_iff in Hwf as [Hwf H5]. apply andb_true_iff in Hwf as [Hwf H4].
    apply andb_true_iff in Hwf as [Hwf H3]. apply andb_true_iff in Hwf as [H1 H2].
    exists (pbs "COPYUID " ++ num v ++ SPc :: print_uidset s ++ SPc :: print_uidset d). split.
    { assoc. reflexivity. }
    unfold resp_text_code.
    change (pbs "COPYUID ") with (K_COPYUID ++ [32]). assoc.
    rewrite span_app; [|reflexivity|reflexivity].
    change K_COPYUID with [67; 79; 80; 89; 85; 73; 68]. eval_closed.
    cbn [app]. rewrite sp_cons. rewrite nz_number_num; [|exact H1|reflexivity].
    unfold SPc. rewrite sp_cons.
    rewrite uid_set_print; try assumption; try (split; reflexivity); try reflexivity.
    + rewrite sp_cons. cbn [app].
      apply uid_set_print; try assumption; try (split; reflexivity); try reflexivity.
      revert Hlen. lens.
    + revert Hlen. lens.
  - (* MAILBOXID *)
    exists (pbs "MAILBOXID (" ++ oid ++ [41]). split.
    { assoc. reflexivity. }
    unfold resp_text_code. assoc.
    change (pbs "MAILBOXID (") with (K_MAILBOXID ++ [32; 40]). assoc.
    rewrite span_app; [|reflexivity|reflexivity].
    change K_MAILBOXID with [77; 65; 73; 76; 66; 79; 88; 73; 68]. eval_closed.
    cbn [app]. rewrite sp_cons. apply objectid_print, Hwf.
Qed.

Lemma has_rbracket_app p q :
  forallb is_text_char p = true -> has_rbracket (p ++ 93 :: q) = true.
Proof.
  intro H. unfold has_rbracket. induction p as [|c p IH]; cbn [app span].
  - replace (is_text_char 93) with true by reflexivity.
    destruct (span is_text_char q). reflexivity.
  - cbn [forallb] in H. apply andb_true_iff in H as [H1 H2]. rewrite H1.
    specialize (IH H2). destruct (span is_text_char (p ++ 93 :: q)) as [a b].
    cbn [fst existsb] in *. rewrite IH. apply orb_true_r.
Qed.

Lemma text_wf t rest :
  nonempty t = true -> forallb is_text_char t = true -> nohead is_text_char rest ->
  text (t ++ rest) = Some rest.
Proof. intros. apply many1_app; assumption. Qed.

Lemma crlf_end rest : nohead is_text_char (13 :: 10 :: rest).
Proof. reflexivity. Qed.

(* resp-text without a code *)
Lemma resp_text_plain fuel t rest :
  wf_text t = true -> nohead is_text_char rest ->
  resp_text fuel (t ++ rest) = Some rest.
Proof.
  unfold wf_text. intros H Hr. apply andb_true_iff in H as [H H3].
  apply andb_true_iff in H as [H1 H2]. apply negb_true_iff in H3.
  pose proof (text_wf t rest H1 H2 Hr) as Ht.
  unfold resp_text. destruct t as [|c t']; [discriminate|]. cbn [app] in *.
  destruct (N.eq_dec c 91) as [->|Hc].
  - assert (Eh : has_rbracket (t' ++ rest) = false).
    { unfold has_rbracket. cbn [forallb] in H2. apply andb_true_iff in H2 as [_ H2].
      rewrite span_app by assumption. exact H3. }
    rewrite Eh. exact Ht.
  - destruct c as [|p]; [exact Ht|]. repeat (destruct p as [p|p|]; try exact Ht). congruence.
Qed.
