(* Resp/Grammar.v — an independent recogniser for what an IMAP4rev1 server may
   write: RFC 3501 section 9 [response] / [greeting] / [continue-req] and
   everything below them, with the response-side syntax of the extensions
   pymap advertises (ID RFC 2971, BINARY RFC 3516, UIDPLUS RFC 4315,
   MULTIAPPEND RFC 3502, MOVE, CHILDREN, IDLE, OBJECTID RFC 8474, RFC 5530
   response codes).  Written from the RFCs as a PEG (ordered choice, greedy
   repetition, one SP where the RFC says SP, ABNF strings case-insensitive);
   it knows nothing about the printer (Resp/Printer.v).  The same PEG is
   implemented in Python (harness/imap_grammar.py); both are cross-checked on
   every run.  Reading decisions are listed in docs/C07.md.  Definitions only.

   A recogniser takes the remaining input and returns the input left after
   the production, or None.  [fuel] bounds loops and nesting; every caller
   passes at least the length of the input, which always suffices. *)
From PV Require Import Base.Prelude Base.Decimal.
From Coq Require Import String Ascii.

Local Open Scope N_scope.

Definition bs (s : string) : bytes := map N_of_ascii (list_ascii_of_string s).

Notation "x <- a ;; b" := (match a with Some x => b | None => None end)
  (at level 61, a at next level, right associativity).

(* ------------------------------------------------------------ characters *)
Definition in_rng (lo hi c : N) : bool := (lo <=? c) && (c <=? hi).
(* ATOM-CHAR = any CHAR except atom-specials
   ( ) { SP CTL list-wildcards quoted-specials resp-specials *)
Definition is_atom_char (c : N) : bool :=
  in_rng 33 126 c && negb (c =? 40) && negb (c =? 41) && negb (c =? 123) &&
  negb (c =? 37) && negb (c =? 42) && negb (c =? 34) && negb (c =? 92) && negb (c =? 93).
Definition is_astring_char (c : N) : bool := is_atom_char c || (c =? 93).
Definition is_tag_char (c : N) : bool := is_astring_char c && negb (c =? 43).
(* TEXT-CHAR = any CHAR (%x01-7F) except CR and LF *)
Definition is_text_char (c : N) : bool := in_rng 1 127 c && negb (c =? 13) && negb (c =? 10).
Definition is_code_arg_char (c : N) : bool := is_text_char c && negb (c =? 93).
Definition is_alpha (c : N) : bool := in_rng 65 90 c || in_rng 97 122 c.
Definition is_oid_char (c : N) : bool := is_alpha c || is_digit c || (c =? 95) || (c =? 45).
Definition is_name_char (c : N) : bool := is_alpha c || is_digit c || (c =? 46).
Definition is_b64_char (c : N) : bool := is_alpha c || is_digit c || (c =? 43) || (c =? 47).
Definition upper (c : N) : N := if in_rng 97 122 c then c - 32 else c.

(* --------------------------------------------------------------- scanners *)
Fixpoint span (p : N -> bool) (l : bytes) : bytes * bytes :=
  match l with
  | [] => ([], [])
  | c :: r => if p c then let '(a, r') := span p r in (c :: a, r') else ([], l)
  end.
Fixpoint skip (p : N -> bool) (l : bytes) : bytes :=
  match l with c :: r => if p c then skip p r else l | [] => [] end.
Definition many1 (p : N -> bool) (l : bytes) : option bytes :=
  match l with c :: r => if p c then Some (skip p r) else None | [] => None end.

Definition ch (a : N) (l : bytes) : option bytes :=
  match l with c :: r => if c =? a then Some r else None | [] => None end.
(* an ABNF literal string: case-insensitive *)
Fixpoint kw (w : bytes) (l : bytes) : option bytes :=
  match w with
  | [] => Some l
  | a :: w' => match l with
               | c :: r => if upper c =? upper a then kw w' r else None
               | [] => None
               end
  end.
Definition is_some {A} (o : option A) : bool := match o with Some _ => true | None => false end.
Definition crlf (l : bytes) : option bytes :=
  match l with 13 :: 10 :: r => Some r | _ => None end.
Definition sp (l : bytes) : option bytes := ch 32 l.
Definition eqb_ci (tok : bytes) (w : bytes) : bool := bytes_eqb (map upper tok) w.
Fixpoint mem_ci (tok : bytes) (ws : list bytes) : bool :=
  match ws with [] => false | w :: r => eqb_ci tok w || mem_ci tok r end.

Definition number (l : bytes) : option bytes := many1 is_digit l.
Definition nz_number (l : bytes) : option bytes :=
  match l with c :: _ => if c =? 48 then None else many1 is_digit l | [] => None end.
Definition atom (l : bytes) : option bytes := many1 is_atom_char l.
Definition tag (l : bytes) : option bytes := many1 is_tag_char l.
Definition text (l : bytes) : option bytes := many1 is_text_char l.

(* quoted = DQUOTE *QUOTED-CHAR DQUOTE;  QUOTED-CHAR = TEXT-CHAR except
   quoted-specials / "\" quoted-specials.  [quoted_tail]: after the opening quote *)
Fixpoint quoted_tail (l : bytes) : option bytes :=
  match l with
  | [] => None
  | c :: r =>
    if c =? 34 then Some r
    else if c =? 92 then
      match r with
      | d :: r' => if (d =? 34) || (d =? 92) then quoted_tail r' else None
      | [] => None
      end
    else if is_text_char c then quoted_tail r else None
  end.
Definition quoted (l : bytes) : option bytes :=
  match l with c :: r => if c =? 34 then quoted_tail r else None | [] => None end.

(* exactly n octets *)
Fixpoint drop_n (n : N) (l : bytes) : option bytes :=
  match l with
  | [] => if n =? 0 then Some [] else None
  | _ :: r => if n =? 0 then Some l else drop_n (N.pred n) r
  end.
(* literal = "{" number "}" CRLF *OCTET(n) *)
Definition literal (l : bytes) : option bytes :=
  r <- ch 123 l ;;
  match parse_number r with
  | Some (n, r1) => r2 <- ch 125 r1 ;; r3 <- crlf r2 ;; drop_n n r3
  | None => None
  end.
Definition literal8 (l : bytes) : option bytes := r <- ch 126 l ;; literal r.
Definition string_ (l : bytes) : option bytes :=
  match quoted l with Some r => Some r | None => literal l end.
Definition K_NIL : bytes := Eval vm_compute in bs "NIL".
Definition nil_ (l : bytes) : option bytes := kw K_NIL l.
Definition nstring (l : bytes) : option bytes :=
  match string_ l with Some r => Some r | None => nil_ l end.
Definition astring (l : bytes) : option bytes :=
  match many1 is_astring_char l with Some r => Some r | None => string_ l end.

(* ------------------------------------------------------------ repetition *)
(* *(SP item) *)
Fixpoint sp_items (fuel : nat) (item : bytes -> option bytes) (l : bytes) : option bytes :=
  match fuel with
  | O => None
  | S f => match l with
           | 32 :: r => r1 <- item r ;; sp_items f item r1
           | _ => Some l
           end
  end.
(* "(" [item *(SP item)] ")" *)
Definition plist (fuel : nat) (item : bytes -> option bytes) (l : bytes) : option bytes :=
  r <- ch 40 l ;;
  match ch 41 r with
  | Some r' => Some r'
  | None => r1 <- item r ;; r2 <- sp_items fuel item r1 ;; ch 41 r2
  end.
(* "(" item *(SP item) ")" *)
Definition plist1 (fuel : nat) (item : bytes -> option bytes) (l : bytes) : option bytes :=
  r <- ch 40 l ;; r1 <- item r ;; r2 <- sp_items fuel item r1 ;; ch 41 r2.

(* ------------------------------------------------------- flags, object ids *)
(* flag / flag-fetch = ["\"] atom *)
Definition flag (l : bytes) : option bytes :=
  match l with 92 :: r => atom r | _ => atom l end.
(* flag-perm = flag / "\*" *)
Definition flag_perm (l : bytes) : option bytes :=
  match l with 92 :: 42 :: r => Some r | _ => flag l end.
Definition flag_list (fuel : nat) (l : bytes) : option bytes := plist fuel flag l.
Definition mailbox (l : bytes) : option bytes := astring l.
(* "(" objectid ")";  objectid = 1*255(ALPHA / DIGIT / "_" / "-") *)
Definition objectid_parens (l : bytes) : option bytes :=
  r <- ch 40 l ;;
  let '(tok, r1) := span is_oid_char r in
  match tok with
  | [] => None
  | _ => if Nat.leb (List.length tok) 255 then ch 41 r1 else None
  end.

(* uid-set = (uniqueid / uid-range) *("," uid-set) *)
Definition uid_elem (l : bytes) : option bytes :=
  r <- nz_number l ;;
  match r with 58 :: r1 => nz_number r1 | _ => Some r end.
Fixpoint uid_set_tail (fuel : nat) (l : bytes) : option bytes :=
  match fuel with
  | O => None
  | S f => match l with
           | 44 :: r => r1 <- uid_elem r ;; uid_set_tail f r1
           | _ => Some l
           end
  end.
Definition uid_set (fuel : nat) (l : bytes) : option bytes :=
  r <- uid_elem l ;; uid_set_tail fuel r.

(* --------------------------------------------------------------- resp-text *)
Definition K_IMAP4REV1 : bytes := Eval vm_compute in bs "IMAP4REV1".
(* *(SP capability), "IMAP4rev1" among them; after the word CAPABILITY *)
Fixpoint cap_args (fuel : nat) (seen : bool) (l : bytes) : option bytes :=
  match fuel with
  | O => None
  | S f =>
    match l with
    | 32 :: r =>
      let '(tok, r1) := span is_atom_char r in
      match tok with
      | [] => None
      | _ => cap_args f (seen || eqb_ci tok K_IMAP4REV1) r1
      end
    | _ => if seen then Some l else None
    end
  end.

Definition CODES_NOARG : list bytes := Eval vm_compute in
  map bs ["ALERT"; "PARSE"; "READ-ONLY"; "READ-WRITE"; "TRYCREATE"; "UIDNOTSTICKY"]%string.
Definition CODES_NZ : list bytes := Eval vm_compute in
  map bs ["UIDNEXT"; "UIDVALIDITY"; "UNSEEN"]%string.
Definition K_BADCHARSET : bytes := Eval vm_compute in bs "BADCHARSET".
Definition K_CAPABILITY : bytes := Eval vm_compute in bs "CAPABILITY".
Definition K_PERMANENTFLAGS : bytes := Eval vm_compute in bs "PERMANENTFLAGS".
Definition K_APPENDUID : bytes := Eval vm_compute in bs "APPENDUID".
Definition K_COPYUID : bytes := Eval vm_compute in bs "COPYUID".
Definition K_MAILBOXID : bytes := Eval vm_compute in bs "MAILBOXID".

(* resp-text-code, after "[" and up to but excluding "]" *)
Definition resp_text_code (fuel : nat) (l : bytes) : option bytes :=
  let '(name, r) := span is_atom_char l in
  match name with
  | [] => None
  | _ =>
    if mem_ci name CODES_NOARG then Some r
    else if eqb_ci name K_BADCHARSET then
      match r with 32 :: r1 => plist1 fuel astring r1 | _ => Some r end
    else if eqb_ci name K_CAPABILITY then cap_args fuel false r
    else if eqb_ci name K_PERMANENTFLAGS then r1 <- sp r ;; plist fuel flag_perm r1
    else if mem_ci name CODES_NZ then r1 <- sp r ;; nz_number r1
    else if eqb_ci name K_APPENDUID then
      r1 <- sp r ;; r2 <- nz_number r1 ;; r3 <- sp r2 ;; uid_set fuel r3
    else if eqb_ci name K_COPYUID then
      r1 <- sp r ;; r2 <- nz_number r1 ;; r3 <- sp r2 ;; r4 <- uid_set fuel r3 ;;
      r5 <- sp r4 ;; uid_set fuel r5
    else if eqb_ci name K_MAILBOXID then r1 <- sp r ;; objectid_parens r1
    else match r with 32 :: r1 => many1 is_code_arg_char r1 | _ => Some r end
  end.

(* does a "]" occur before the end of the line? *)
Definition has_rbracket (l : bytes) : bool := existsb (N.eqb 93) (fst (span is_text_char l)).
(* resp-text = ["[" resp-text-code "]" SP] text; a text that begins with "["
   and contains "]" must begin with a well-formed code *)
Definition resp_text (fuel : nat) (l : bytes) : option bytes :=
  match l with
  | 91 :: r =>
    if has_rbracket r
    then r1 <- resp_text_code fuel r ;; r2 <- ch 93 r1 ;; r3 <- sp r2 ;; text r3
    else text l
  | _ => text l
  end.

(* ---------------------------------------------------------------- envelope *)
(* address = "(" addr-name SP addr-adl SP addr-mailbox SP addr-host ")" *)
Definition address (l : bytes) : option bytes :=
  r <- ch 40 l ;; r <- nstring r ;; r <- sp r ;; r <- nstring r ;; r <- sp r ;;
  r <- nstring r ;; r <- sp r ;; r <- nstring r ;; ch 41 r.
Fixpoint addresses (fuel : nat) (l : bytes) : option bytes :=
  match fuel with
  | O => None
  | S f => match l with
           | 40 :: _ => r <- address l ;; addresses f r
           | _ => Some l
           end
  end.
(* "(" 1*address ")" / nil *)
Definition address_list (fuel : nat) (l : bytes) : option bytes :=
  match l with
  | 40 :: r => r1 <- address r ;; r2 <- addresses fuel r1 ;; ch 41 r2
  | _ => nil_ l
  end.
Definition envelope (fuel : nat) (l : bytes) : option bytes :=
  r <- ch 40 l ;;
  r <- nstring r ;; r <- sp r ;;              (* env-date *)
  r <- nstring r ;; r <- sp r ;;              (* env-subject *)
  r <- address_list fuel r ;; r <- sp r ;;    (* from *)
  r <- address_list fuel r ;; r <- sp r ;;    (* sender *)
  r <- address_list fuel r ;; r <- sp r ;;    (* reply-to *)
  r <- address_list fuel r ;; r <- sp r ;;    (* to *)
  r <- address_list fuel r ;; r <- sp r ;;    (* cc *)
  r <- address_list fuel r ;; r <- sp r ;;    (* bcc *)
  r <- nstring r ;; r <- sp r ;;              (* in-reply-to *)
  r <- nstring r ;;                           (* message-id *)
  ch 41 r.

(* -------------------------------------------------------------------- body *)
(* string SP string *(SP string SP string) *)
Fixpoint param_pairs (fuel : nat) (l : bytes) : option bytes :=
  match fuel with
  | O => None
  | S f =>
    r <- string_ l ;; r <- sp r ;; r <- string_ r ;;
    match r with 32 :: r' => param_pairs f r' | _ => Some r end
  end.
(* body-fld-param = "(" string SP string *(SP string SP string) ")" / nil *)
Definition body_fld_param (fuel : nat) (l : bytes) : option bytes :=
  match l with
  | 40 :: r => r1 <- param_pairs fuel r ;; ch 41 r1
  | _ => nil_ l
  end.
(* body-fld-dsp = "(" string SP body-fld-param ")" / nil *)
Definition body_fld_dsp (fuel : nat) (l : bytes) : option bytes :=
  match l with
  | 40 :: r => r1 <- string_ r ;; r2 <- sp r1 ;; r3 <- body_fld_param fuel r2 ;; ch 41 r3
  | _ => nil_ l
  end.
(* body-fld-lang = nstring / "(" string *(SP string) ")" *)
Definition body_fld_lang (fuel : nat) (l : bytes) : option bytes :=
  match nstring l with Some r => Some r | None => plist1 fuel string_ l end.
(* body-extension = nstring / number / "(" body-extension *(SP body-extension) ")" *)
Fixpoint body_ext (fuel : nat) (l : bytes) : option bytes :=
  match fuel with
  | O => None
  | S f =>
    match nstring l with
    | Some r => Some r
    | None =>
      match number l with
      | Some r => Some r
      | None => r <- ch 40 l ;; r1 <- body_ext f r ;; r2 <- sp_items f (body_ext f) r1 ;; ch 41 r2
      end
    end
  end.
(* [SP body-fld-dsp [SP body-fld-lang [SP body-fld-loc *(SP body-extension)]]] *)
Definition body_ext_tail (fuel : nat) (l : bytes) : option bytes :=
  match l with
  | 32 :: r =>
    r1 <- body_fld_dsp fuel r ;;
    match r1 with
    | 32 :: r2 =>
      r3 <- body_fld_lang fuel r2 ;;
      match r3 with
      | 32 :: r4 => r5 <- nstring r4 ;; sp_items fuel (body_ext fuel) r5
      | _ => Some r3
      end
    | _ => Some r1
    end
  | _ => Some l
  end.

Definition K_MSG_RFC822 : bytes := Eval vm_compute in
  (34 :: bs "MESSAGE" ++ [34; 32; 34] ++ bs "RFC822" ++ [34]).
Definition K_TEXTQ : bytes := Eval vm_compute in (34 :: bs "TEXT" ++ [34]).

(* body-fields = body-fld-param SP body-fld-id SP body-fld-desc SP body-fld-enc SP
   body-fld-octets *)
Definition body_fields (fuel : nat) (l : bytes) : option bytes :=
  r <- body_fld_param fuel l ;; r <- sp r ;; r <- nstring r ;; r <- sp r ;;
  r <- nstring r ;; r <- sp r ;; r <- string_ r ;; r <- sp r ;; number r.

(* 1*body, given the recogniser of one body *)
Fixpoint body_parts (bodyf : bytes -> option bytes) (k : nat) (l : bytes) : option bytes :=
  match k with
  | O => None
  | S k' => r <- bodyf l ;;
            match r with 40 :: _ => body_parts bodyf k' r | _ => Some r end
  end.

(* body-type-mpart = 1*body SP media-subtype [SP body-ext-mpart], then ")" ;
   [bodyf] recognises one nested body *)
Definition body_mpart (bodyf : bytes -> option bytes) (f : nat) (r : bytes) : option bytes :=
  r1 <- body_parts bodyf f r ;;
  r2 <- sp r1 ;; r3 <- string_ r2 ;;
  match r3 with
  | 32 :: r4 => r5 <- body_fld_param f r4 ;; r6 <- body_ext_tail f r5 ;; ch 41 r6
  | _ => ch 41 r3
  end.
(* body-type-1part = (body-type-basic / body-type-msg / body-type-text)
   [SP body-ext-1part], then ")" *)
Definition body_1part (bodyf : bytes -> option bytes) (f : nat) (r : bytes) : option bytes :=
  let is_msg := is_some (kw K_MSG_RFC822 r) in
  let is_text := is_some (kw K_TEXTQ r) in
  r1 <- string_ r ;; r1 <- sp r1 ;; r1 <- string_ r1 ;; r1 <- sp r1 ;;
  r1 <- body_fields f r1 ;;
  r2 <- (if is_msg then
           x <- sp r1 ;; x <- envelope f x ;; x <- sp x ;; x <- bodyf x ;;
           x <- sp x ;; number x
         else if is_text then x <- sp r1 ;; number x
         else Some r1) ;;
  match r2 with
  | 32 :: r3 => r4 <- nstring r3 ;; r5 <- body_ext_tail f r4 ;; ch 41 r5
  | _ => ch 41 r2
  end.

(* body = "(" (body-type-1part / body-type-mpart) ")" *)
Fixpoint body (fuel : nat) (l : bytes) {struct fuel} : option bytes :=
  match fuel with
  | O => None
  | S f =>
    match l with
    | 40 :: r =>
      match r with
      | 40 :: _ => body_mpart (body f) f r
      | _ => body_1part (body f) f r
      end
    | _ => None
    end
  end.

(* --------------------------------------------------------------- date-time *)
Definition MONTHS : list bytes := Eval vm_compute in
  map bs ["JAN"; "FEB"; "MAR"; "APR"; "MAY"; "JUN"; "JUL"; "AUG"; "SEP"; "OCT"; "NOV"; "DEC"]%string.
Definition digit1 (l : bytes) : option bytes :=
  match l with c :: r => if is_digit c then Some r else None | [] => None end.
Definition digit2 (l : bytes) : option bytes := r <- digit1 l ;; digit1 r.
Definition digit4 (l : bytes) : option bytes := r <- digit2 l ;; digit2 r.
Definition month3 (l : bytes) : option bytes :=
  match l with
  | a :: b :: c :: r => if mem_ci [a; b; c] MONTHS then Some r else None
  | _ => None
  end.
(* date-time = DQUOTE date-day-fixed "-" date-month "-" date-year SP time SP zone DQUOTE *)
Definition date_time (l : bytes) : option bytes :=
  r <- ch 34 l ;;
  r <- (match r with 32 :: r' => digit1 r' | _ => digit2 r end) ;;
  r <- ch 45 r ;; r <- month3 r ;; r <- ch 45 r ;; r <- digit4 r ;; r <- sp r ;;
  r <- digit2 r ;; r <- ch 58 r ;; r <- digit2 r ;; r <- ch 58 r ;; r <- digit2 r ;; r <- sp r ;;
  r <- (match r with c :: r' => if (c =? 43) || (c =? 45) then Some r' else None | [] => None end) ;;
  r <- digit4 r ;; ch 34 r.

(* ------------------------------------------------------------------ msg-att *)
Definition K_HEADER_FIELDS : bytes := Eval vm_compute in bs "HEADER.FIELDS".
Definition K_DOTNOT : bytes := Eval vm_compute in bs ".NOT".
Definition K_HEADER : bytes := Eval vm_compute in bs "HEADER".
Definition K_TEXT : bytes := Eval vm_compute in bs "TEXT".
Definition K_MIME : bytes := Eval vm_compute in bs "MIME".
(* section-msgtext = "HEADER" / "HEADER.FIELDS" [".NOT"] SP header-list / "TEXT" *)
Definition section_msgtext (fuel : nat) (l : bytes) : option bytes :=
  match kw K_HEADER_FIELDS l with
  | Some r =>
    let r1 := match kw K_DOTNOT r with Some r' => r' | None => r end in
    r2 <- sp r1 ;; plist1 fuel astring r2
  | None =>
    match kw K_HEADER l with
    | Some r => Some r
    | None => kw K_TEXT l
    end
  end.
(* after a section-part number:  *("." nz-number) ["." section-text] *)
Fixpoint section_part_tail (fuel : nat) (l : bytes) : option bytes :=
  match fuel with
  | O => None
  | S f =>
    match l with
    | 46 :: r =>
      match r with
      | c :: _ =>
        if is_digit c then r1 <- nz_number r ;; section_part_tail f r1
        else match kw K_MIME r with
             | Some r1 => Some r1
             | None => section_msgtext fuel r
             end
      | [] => None
      end
    | _ => Some l
    end
  end.
(* section = "[" [section-spec] "]" *)
Definition section (fuel : nat) (l : bytes) : option bytes :=
  r <- ch 91 l ;;
  match r with
  | 93 :: r' => Some r'
  | c :: _ =>
    r1 <- (if is_digit c then x <- nz_number r ;; section_part_tail fuel x
           else section_msgtext fuel r) ;;
    ch 93 r1
  | [] => None
  end.
Fixpoint dot_numbers (fuel : nat) (l : bytes) : option bytes :=
  match fuel with
  | O => None
  | S f => match l with
           | 46 :: r => r1 <- nz_number r ;; dot_numbers f r1
           | _ => Some l
           end
  end.
(* section-binary = "[" [section-part] "]" *)
Definition section_binary (fuel : nat) (l : bytes) : option bytes :=
  r <- ch 91 l ;;
  match r with
  | 93 :: r' => Some r'
  | _ => r1 <- nz_number r ;; r2 <- dot_numbers fuel r1 ;; ch 93 r2
  end.
(* ["<" number ">"] *)
Definition origin (l : bytes) : option bytes :=
  match l with
  | 60 :: r => r1 <- number r ;; ch 62 r1
  | _ => Some l
  end.

Definition K_FLAGS : bytes := Eval vm_compute in bs "FLAGS".
Definition K_ENVELOPE : bytes := Eval vm_compute in bs "ENVELOPE".
Definition K_INTERNALDATE : bytes := Eval vm_compute in bs "INTERNALDATE".
Definition K_RFC822S : list bytes := Eval vm_compute in
  map bs ["RFC822"; "RFC822.HEADER"; "RFC822.TEXT"]%string.
Definition K_RFC822_SIZE : bytes := Eval vm_compute in bs "RFC822.SIZE".
Definition K_UID : bytes := Eval vm_compute in bs "UID".
Definition K_BODYSTRUCTURE : bytes := Eval vm_compute in bs "BODYSTRUCTURE".
Definition K_BODY : bytes := Eval vm_compute in bs "BODY".
Definition K_BINARY : bytes := Eval vm_compute in bs "BINARY".
Definition K_BINARY_SIZE : bytes := Eval vm_compute in bs "BINARY.SIZE".
Definition K_EMAILID : bytes := Eval vm_compute in bs "EMAILID".
Definition K_THREADID : bytes := Eval vm_compute in bs "THREADID".

(* one msg-att-dynamic / msg-att-static item *)
Definition msg_att_item (fuel : nat) (l : bytes) : option bytes :=
  let '(name, r) := span is_name_char l in
  if eqb_ci name K_FLAGS then r1 <- sp r ;; flag_list fuel r1
  else if eqb_ci name K_ENVELOPE then r1 <- sp r ;; envelope fuel r1
  else if eqb_ci name K_INTERNALDATE then r1 <- sp r ;; date_time r1
  else if mem_ci name K_RFC822S then r1 <- sp r ;; nstring r1
  else if eqb_ci name K_RFC822_SIZE then r1 <- sp r ;; number r1
  else if eqb_ci name K_UID then r1 <- sp r ;; nz_number r1
  else if eqb_ci name K_BODYSTRUCTURE then r1 <- sp r ;; body fuel r1
  else if eqb_ci name K_BODY then
    match r with
    | 91 :: _ => r1 <- section fuel r ;; r2 <- origin r1 ;; r3 <- sp r2 ;; nstring r3
    | _ => r1 <- sp r ;; body fuel r1
    end
  else if eqb_ci name K_BINARY then
    r1 <- section_binary fuel r ;; r2 <- origin r1 ;; r3 <- sp r2 ;;
    match nstring r3 with Some r4 => Some r4 | None => literal8 r3 end
  else if eqb_ci name K_BINARY_SIZE then
    r1 <- section_binary fuel r ;; r2 <- sp r1 ;; number r2
  else if eqb_ci name K_EMAILID then r1 <- sp r ;; objectid_parens r1
  else if eqb_ci name K_THREADID then
    r1 <- sp r ;;
    match objectid_parens r1 with Some r2 => Some r2 | None => nil_ r1 end
  else None.
(* msg-att = "(" item *(SP item) ")" *)
Definition msg_att (fuel : nat) (l : bytes) : option bytes := plist1 fuel (msg_att_item fuel) l.

(* ------------------------------------------------------------ mailbox-data *)
Definition SFLAGS : list bytes := Eval vm_compute in
  map bs ["NOSELECT"; "MARKED"; "UNMARKED"]%string.
(* "\" atom *(SP "\" atom); counts the selectability flags *)
Fixpoint mbx_flags (fuel : nat) (nsel : nat) (l : bytes) : option (nat * bytes) :=
  match fuel with
  | O => None
  | S f =>
    match l with
    | 92 :: r =>
      let '(tok, r1) := span is_atom_char r in
      match tok with
      | [] => None
      | _ =>
        let nsel' := if mem_ci tok SFLAGS then S nsel else nsel in
        match r1 with
        | 32 :: r2 => mbx_flags f nsel' r2
        | _ => Some (nsel', r1)
        end
      end
    | _ => None
    end
  end.
(* the hierarchy delimiter: DQUOTE QUOTED-CHAR DQUOTE / nil *)
Definition delimiter (l : bytes) : option bytes :=
  match l with
  | 34 :: 92 :: d :: 34 :: r => if (d =? 34) || (d =? 92) then Some r else None
  | 34 :: c :: 34 :: r =>
    if is_text_char c && negb (c =? 34) && negb (c =? 92) then Some r else None
  | _ => nil_ l
  end.
(* mailbox-list = "(" [mbx-list-flags] ")" SP (DQUOTE QUOTED-CHAR DQUOTE / nil) SP mailbox *)
Definition mailbox_list (fuel : nat) (l : bytes) : option bytes :=
  r <- ch 40 l ;;
  r1 <- (match r with
         | 41 :: r' => Some r'
         | _ => match mbx_flags fuel 0 r with
                | Some (nsel, r') => if Nat.leb nsel 1 then ch 41 r' else None
                | None => None
                end
         end) ;;
  r2 <- sp r1 ;; r3 <- delimiter r2 ;; r4 <- sp r3 ;; mailbox r4.

Definition STATUS_NUM : list bytes := Eval vm_compute in
  map bs ["MESSAGES"; "RECENT"; "UIDNEXT"; "UIDVALIDITY"; "UNSEEN"]%string.
Definition status_item (l : bytes) : option bytes :=
  let '(name, r) := span is_atom_char l in
  if mem_ci name STATUS_NUM then r1 <- sp r ;; number r1
  else if eqb_ci name K_MAILBOXID then r1 <- sp r ;; objectid_parens r1
  else None.
Definition status_att_list (fuel : nat) (l : bytes) : option bytes := plist fuel status_item l.

(* ID (RFC 2971): "(" [string SP nstring *(SP string SP nstring)] ")" / nil *)
Fixpoint id_pairs (fuel : nat) (l : bytes) : option bytes :=
  match fuel with
  | O => None
  | S f =>
    r <- string_ l ;; r <- sp r ;; r <- nstring r ;;
    match r with 32 :: r' => id_pairs f r' | _ => Some r end
  end.
Definition id_params (fuel : nat) (l : bytes) : option bytes :=
  match l with
  | 40 :: 41 :: r => Some r
  | 40 :: r => r1 <- id_pairs fuel r ;; ch 41 r1
  | _ => nil_ l
  end.

(* ---------------------------------------------------------------- responses *)
Definition K_EXISTS : bytes := Eval vm_compute in bs "EXISTS".
Definition K_RECENT : bytes := Eval vm_compute in bs "RECENT".
Definition K_EXPUNGE : bytes := Eval vm_compute in bs "EXPUNGE".
Definition K_FETCH : bytes := Eval vm_compute in bs "FETCH".
Definition CONDS_UNTAGGED : list bytes := Eval vm_compute in
  map bs ["OK"; "NO"; "BAD"; "BYE"; "PREAUTH"]%string.
Definition CONDS_TAGGED : list bytes := Eval vm_compute in map bs ["OK"; "NO"; "BAD"]%string.
Definition K_LISTS : list bytes := Eval vm_compute in map bs ["LIST"; "LSUB"]%string.
Definition K_SEARCH : bytes := Eval vm_compute in bs "SEARCH".
Definition K_STATUS : bytes := Eval vm_compute in bs "STATUS".
Definition K_ID : bytes := Eval vm_compute in bs "ID".

Fixpoint sp_nz_numbers (fuel : nat) (l : bytes) : option bytes :=
  match fuel with
  | O => None
  | S f => match l with
           | 32 :: r => r1 <- nz_number r ;; sp_nz_numbers f r1
           | _ => Some l
           end
  end.

(* message-data and the numbered mailbox-data: number SP EXISTS / RECENT,
   nz-number SP EXPUNGE / FETCH SP msg-att; [c] is the first digit *)
Definition untagged_numbered (fuel : nat) (c : N) (l : bytes) : option bytes :=
  r <- number l ;; r1 <- sp r ;;
  match kw K_EXISTS r1 with
  | Some r2 => Some r2
  | None =>
    match kw K_RECENT r1 with
    | Some r2 => Some r2
    | None =>
      if c =? 48 then None
      else match kw K_EXPUNGE r1 with
           | Some r2 => Some r2
           | None => r2 <- kw K_FETCH r1 ;; r3 <- sp r2 ;; msg_att fuel r3
           end
    end
  end.
(* the untagged responses that begin with a word: [name] is that word, [r]
   what follows it *)
Definition untagged_named (fuel : nat) (name r : bytes) : option bytes :=
  if mem_ci name CONDS_UNTAGGED then r1 <- sp r ;; resp_text fuel r1
  else if eqb_ci name K_FLAGS then r1 <- sp r ;; flag_list fuel r1
  else if mem_ci name K_LISTS then r1 <- sp r ;; mailbox_list fuel r1
  else if eqb_ci name K_SEARCH then sp_nz_numbers fuel r
  else if eqb_ci name K_STATUS then
    r1 <- sp r ;; r2 <- mailbox r1 ;; r3 <- sp r2 ;; status_att_list fuel r3
  else if eqb_ci name K_CAPABILITY then cap_args fuel false r
  else if eqb_ci name K_ID then r1 <- sp r ;; id_params fuel r1
  else None.
(* what follows "* " up to, excluding, CRLF *)
Definition untagged_body (fuel : nat) (l : bytes) : option bytes :=
  match l with
  | [] => None
  | c :: _ =>
    if is_digit c then untagged_numbered fuel c l
    else let '(name, r) := span is_atom_char l in untagged_named fuel name r
  end.

(* base64 = *(4base64-char) [base64-terminal]; never fails *)
Fixpoint base64 (fuel : nat) (l : bytes) : bytes :=
  match fuel with
  | O => l
  | S f =>
    match l with
    | a :: b :: c :: d :: r =>
      if is_b64_char a && is_b64_char b then
        if is_b64_char c then
          if is_b64_char d then base64 f r
          else if d =? 61 then r else l
        else if (c =? 61) && (d =? 61) then r else l
      else l
    | _ => l
    end
  end.

(* response-tagged = tag SP resp-cond-state CRLF *)
Definition response_tagged (fuel : nat) (l : bytes) : option bytes :=
  r <- tag l ;; r1 <- sp r ;;
  let '(name, r2) := span is_atom_char r1 in
  if mem_ci name CONDS_TAGGED then r3 <- sp r2 ;; r4 <- resp_text fuel r3 ;; crlf r4
  else None.

(* one response with its CRLF: continue-req / response-data / response-fatal /
   greeting / response-tagged *)
Definition response (fuel : nat) (l : bytes) : option bytes :=
  match l with
  | 43 :: r =>
    r1 <- sp r ;;
    match (x <- resp_text fuel r1 ;; crlf x) with
    | Some r2 => Some r2
    | None => crlf (base64 fuel r1)
    end
  | 42 :: r => r1 <- sp r ;; r2 <- untagged_body fuel r1 ;; crlf r2
  | _ => response_tagged fuel l
  end.

Fixpoint responses (fuel : nat) (k : nat) (l : bytes) : bool :=
  match l with
  | [] => true
  | _ => match k with
         | O => false
         | S k' => match response fuel l with
                   | Some r => responses fuel k' r
                   | None => false
                   end
         end
  end.

(* every byte belongs to a complete, well-formed response *)
Definition wf_response (l : bytes) : bool :=
  let n := S (List.length l) in responses n n l.
