(* Resp/LexProofs.v — the recogniser's terminals accept what the printer's
   primitives produce: numbers, keywords, quoted strings (quoted_safe),
   literals (literal_len), String.build, AString, modutf7_encode, Mailbox. *)
From PV Require Import Base.Prelude Base.Decimal Resp.Grammar Resp.Printer Resp.Wf.
From Coq Require Import Lia ZifyBool.

Local Open Scope N_scope.

(* the first byte of what follows does not satisfy [p] *)
Definition nohead (p : N -> bool) (rest : bytes) : Prop :=
  match rest with [] => True | c :: _ => p c = false end.

Lemma nohead_cons p c r : p c = false -> nohead p (c :: r).
Proof. intro H; exact H. Qed.

Lemma skip_app p xs rest :
  forallb p xs = true -> nohead p rest -> skip p (xs ++ rest) = rest.
Proof.
  induction xs as [|x xs IH]; cbn [forallb app]; intros H Hn.
  - destruct rest as [|c r]; [reflexivity|]. cbn [skip]. cbn in Hn. rewrite Hn. reflexivity.
  - apply andb_true_iff in H as [H1 H2]. cbn [skip]. rewrite H1. apply IH; assumption.
Qed.

Lemma span_app p xs rest :
  forallb p xs = true -> nohead p rest -> span p (xs ++ rest) = (xs, rest).
Proof.
  induction xs as [|x xs IH]; cbn [forallb app]; intros H Hn.
  - destruct rest as [|c r]; [reflexivity|]. cbn [span]. cbn in Hn. rewrite Hn. reflexivity.
  - apply andb_true_iff in H as [H1 H2]. cbn [span]. rewrite H1, IH by assumption. reflexivity.
Qed.

Lemma many1_app p xs rest :
  nonempty xs = true -> forallb p xs = true -> nohead p rest ->
  many1 p (xs ++ rest) = Some rest.
Proof.
  destruct xs as [|x xs]; [discriminate|]. cbn [forallb app many1]. intros _ H Hn.
  apply andb_true_iff in H as [H1 H2]. rewrite H1. f_equal. apply skip_app; assumption.
Qed.

Lemma ch_cons a l : ch a (a :: l) = Some l.
Proof. cbn [ch]. rewrite N.eqb_refl. reflexivity. Qed.

Lemma sp_cons l : sp (32 :: l) = Some l.
Proof. reflexivity. Qed.

Lemma crlf_cons l : crlf (13 :: 10 :: l) = Some l.
Proof. reflexivity. Qed.

Lemma kw_app w x rest :
  map upper x = map upper w -> kw w (x ++ rest) = Some rest.
Proof.
  revert x; induction w as [|a w IH]; intros [|c x] H; try discriminate; [reflexivity|].
  cbn [map] in H. injection H as H1 H2. cbn [kw app]. rewrite H1, N.eqb_refl. apply IH, H2.
Qed.

Lemma kw_split a b l : kw (a ++ b) l = (r <- kw a l ;; kw b r).
Proof.
  revert l; induction a as [|x a IH]; intro l; [reflexivity|].
  cbn [kw app]. destruct l as [|c r]; [reflexivity|].
  destruct (upper c =? upper x); [apply IH|reflexivity].
Qed.

(* ---------------------------------------------------------------- numbers *)
Lemma num_digits n : forallb is_digit (num n) = true.
Proof. apply dec_of_N_digits. Qed.

Lemma num_nonempty n : nonempty (num n) = true.
Proof. unfold num. pose proof (dec_of_N_nonempty n). destruct (dec_of_N n); [congruence|reflexivity]. Qed.

Lemma number_num n rest : nohead is_digit rest -> number (num n ++ rest) = Some rest.
Proof. intro H. apply many1_app; [apply num_nonempty|apply num_digits|exact H]. Qed.

Lemma nohead_digit rest : nohead is_digit rest -> head_is_digit rest = false.
Proof. destruct rest; [reflexivity|]. exact (fun H => H). Qed.

Lemma num_head_nz n : pos n = true -> exists c t, num n = c :: t /\ (c =? 48) = false.
Proof.
  unfold pos, num, dec_of_N. intro Hp. apply N.ltb_lt in Hp.
  pose proof (to_uint_head_nonzero n Hp) as Hz. pose proof (to_uint_nonnil n) as Hn.
  destruct (N.to_uint n) as [|u|u|u|u|u|u|u|u|u|u]; cbn [uint_bytes];
    try congruence; try (eexists; eexists; split; [reflexivity|reflexivity]).
Qed.

Lemma nz_number_num n rest :
  pos n = true -> nohead is_digit rest -> nz_number (num n ++ rest) = Some rest.
Proof.
  intros Hp H. destruct (num_head_nz n Hp) as (c & t & E & Hc).
  pose proof (number_num n rest H) as Hn. unfold number in Hn.
  unfold nz_number. rewrite E in *. cbn [app] in *. rewrite Hc. exact Hn.
Qed.

Lemma parse_number_num n rest :
  nohead is_digit rest -> parse_number (num n ++ rest) = Some (n, rest).
Proof. intro H. apply parse_number_print, nohead_digit, H. Qed.

(* --------------------------------------------------------- quoted strings *)
(* quoted_safe: a byte string of TEXT-CHARs, once escaped, is a well-formed
   quoted string body *)
Lemma quoted_tail_escape b rest :
  forallb is_text_char b = true -> quoted_tail (escape b ++ 34 :: rest) = Some rest.
Proof.
  induction b as [|c b IH]; cbn [forallb]; intro H.
  - cbn. reflexivity.
  - apply andb_true_iff in H as [H1 H2]. unfold escape. cbn [flat_map].
    fold (escape b). destruct ((c =? 34) || (c =? 92)) eqn:E.
    + cbn [app quoted_tail].
      replace (92 =? 34) with false by reflexivity. cbn [N.eqb Pos.eqb].
      rewrite E. apply IH, H2.
    + apply orb_false_iff in E as [E1 E2]. cbn [app quoted_tail].
      rewrite E1, E2, H1. apply IH, H2.
Qed.

Lemma quoted_print b rest :
  forallb is_text_char b = true -> quoted (print_quoted b ++ rest) = Some rest.
Proof.
  intro H. unfold print_quoted. cbn [app quoted]. cbn [N.eqb Pos.eqb].
  rewrite <- app_assoc. cbn [app]. apply quoted_tail_escape, H.
Qed.

(* the quoted alternative is chosen only for strings free of CR, LF and NUL *)
Lemma choose_quoted_safe b q :
  choose b = OQuoted q -> q = b /\ has 13 b = false /\ has 10 b = false /\ has 0 b = false.
Proof.
  unfold choose. destruct (N.of_nat (List.length b) <? 64); cbn [andb]; [|discriminate].
  destruct (has 13 b); cbn [negb andb]; [discriminate|].
  destruct (has 10 b); cbn [negb andb]; [discriminate|].
  destruct (has 0 b); cbn [negb andb]; [discriminate|].
  intro E; injection E as <-. repeat split; reflexivity.
Qed.

Lemma has_false_forall x b : has x b = false -> forallb (fun c => negb (c =? x)) b = true.
Proof.
  unfold has. induction b as [|c b IH]; cbn [existsb forallb]; [reflexivity|].
  intro H. apply orb_false_iff in H as [H1 H2]. rewrite N.eqb_sym, H1. cbn. apply IH, H2.
Qed.

Lemma text_chars_of_7bit b :
  forallb (fun c => c <? 128) b = true ->
  has 13 b = false -> has 10 b = false -> has 0 b = false ->
  forallb is_text_char b = true.
Proof.
  intros H7 H13 H10 H0.
  apply has_false_forall in H13. apply has_false_forall in H10. apply has_false_forall in H0.
  induction b as [|c b IH]; [reflexivity|]. cbn [forallb] in *.
  apply andb_true_iff in H7 as [A1 A2]. apply andb_true_iff in H13 as [B1 B2].
  apply andb_true_iff in H10 as [C1 C2]. apply andb_true_iff in H0 as [D1 D2].
  rewrite IH by assumption. rewrite andb_true_r.
  unfold is_text_char, in_rng. lia.
Qed.

(* --------------------------------------------------------------- literals *)
Lemma drop_n_app b rest : drop_n (N.of_nat (List.length b)) (b ++ rest) = Some rest.
Proof.
  induction b as [|c b IH].
  - cbn [List.length app N.of_nat]. destruct rest; reflexivity.
  - cbn [List.length app drop_n]. rewrite Nat2N.inj_succ.
    destruct (N.succ (N.of_nat (List.length b)) =? 0) eqn:E; [apply N.eqb_eq in E; lia|].
    rewrite N.pred_succ. exact IH.
Qed.

(* literal_len: the announced length is the length of the payload, and the
   recogniser resumes exactly after it, whatever the payload contains *)
Lemma literal_print b rest : literal (print_literal b false ++ rest) = Some rest.
Proof.
  unfold print_literal, literal. cbn [app]. rewrite ch_cons.
  rewrite <- app_assoc. rewrite parse_number_num by (apply nohead_cons; reflexivity).
  cbn [app]. rewrite ch_cons. unfold CRLF. cbn [app]. rewrite crlf_cons.
  apply drop_n_app.
Qed.

Lemma literal8_print b rest : literal8 (print_literal b true ++ rest) = Some rest.
Proof.
  unfold literal8. change (print_literal b true) with (126 :: print_literal b false).
  cbn [app]. rewrite ch_cons. apply literal_print.
Qed.

Lemma quoted_literal_none b rest : quoted (print_literal b false ++ rest) = None.
Proof. reflexivity. Qed.

(* ------------------------------------------------------------ String.build *)
Definition sobj_ok (o : sobj) : Prop :=
  match o with
  | ONil => True
  | OQuoted b => forallb is_text_char b = true
  | OLiteral _ bin => bin = false
  end.

Lemma choose_ok b : forallb (fun c => c <? 128) b = true -> sobj_ok (choose b).
Proof.
  intro H7. destruct (choose b) as [|q|l bin] eqn:E; cbn [sobj_ok]; [exact I| |].
  - apply choose_quoted_safe in E as (-> & H13 & H10 & H0).
    apply text_chars_of_7bit; assumption.
  - unfold choose in E. destruct (_ && _ && _ && _); [discriminate|]. injection E as _ <-. reflexivity.
Qed.

Lemma build_ok v : seven_bit v = true -> sobj_ok (build v).
Proof.
  destruct v as [|b|s]; cbn [build seven_bit]; intro H.
  - exact I.
  - destruct b as [|c b]; [reflexivity|]. apply choose_ok, H.
  - destruct s as [|c s]; [reflexivity|].
    destruct (is_ascii_str (c :: s)) eqn:E; [apply choose_ok, E|reflexivity].
Qed.

Lemma build_str_ok s : sobj_ok (build (VStr s)).
Proof. apply build_ok. reflexivity. Qed.

Lemma build_not_nil v : v <> VNone -> build v <> ONil.
Proof.
  destruct v as [|b|s]; [congruence| |]; intros _; cbn [build].
  - destruct b; [discriminate|]. unfold choose. destruct (_ && _ && _ && _); discriminate.
  - destruct s; [discriminate|]. destruct (is_ascii_str _); [|discriminate].
    unfold choose. destruct (_ && _ && _ && _); discriminate.
Qed.

Lemma string_sobj o rest : sobj_ok o -> o <> ONil -> string_ (print_sobj o ++ rest) = Some rest.
Proof.
  destruct o as [|b|b bin]; cbn [sobj_ok print_sobj]; intros H Hn; [congruence| |].
  - unfold string_. rewrite quoted_print by exact H. reflexivity.
  - subst bin. unfold string_. rewrite quoted_literal_none. apply literal_print.
Qed.

Lemma nstring_sobj o rest : sobj_ok o -> nstring (print_sobj o ++ rest) = Some rest.
Proof.
  intro H. destruct o as [|b|b bin].
  - reflexivity.
  - unfold nstring. rewrite string_sobj; [reflexivity|exact H|discriminate].
  - unfold nstring. rewrite string_sobj; [reflexivity|exact H|discriminate].
Qed.

Lemma string_pstr s rest : string_ (pstr (VStr s) ++ rest) = Some rest.
Proof. apply string_sobj; [apply build_str_ok|apply build_not_nil; discriminate]. Qed.

Lemma nstring_pstr v rest : seven_bit v = true -> nstring (pstr v ++ rest) = Some rest.
Proof. intro H. apply nstring_sobj, build_ok, H. Qed.

Lemma nstring_pstr_str s rest : nstring (pstr (VStr s) ++ rest) = Some rest.
Proof. apply nstring_pstr. reflexivity. Qed.

Lemma string_pstr_fb v fb rest :
  seven_bit v = true -> nonempty fb = true -> forallb (fun c => c <? 128) fb = true ->
  string_ (pstr_fb v fb ++ rest) = Some rest.
Proof.
  intros Hv Hne H7. unfold pstr_fb, build_fb. destruct v as [|b|s].
  - apply string_sobj; [apply build_ok, H7|apply build_not_nil; discriminate].
  - apply string_sobj; [apply build_ok, Hv|apply build_not_nil; discriminate].
  - apply string_sobj; [apply build_ok, Hv|apply build_not_nil; discriminate].
Qed.

(* what a printed string object starts with: never "(" *)
Lemma print_sobj_head o : o <> ONil -> sobj_ok o ->
  exists t, print_sobj o = 34 :: t \/ print_sobj o = 123 :: t.
Proof.
  destruct o as [|b|b bin]; cbn [print_sobj sobj_ok]; intros Hn H; [congruence| |].
  - eexists; left; reflexivity.
  - subst bin. eexists; right; reflexivity.
Qed.

(* ------------------------------------------------------- modutf7, AString *)
Lemma b64char_printable x : printable (b64char x) = true.
Proof.
  unfold b64char, printable.
  destruct (x <? 26) eqn:E1; [lia|]. destruct (x <? 52) eqn:E2; [lia|].
  destruct (x <? 62) eqn:E3; [lia|]. destruct (x =? 62); reflexivity.
Qed.

Lemma mb64_printable run : forallb printable (mb64 run) = true.
Proof.
  unfold mb64. induction (b64_groups (utf16be run)) as [|x l IH]; [reflexivity|].
  cbn [map forallb]. rewrite b64char_printable, IH. reflexivity.
Qed.

Lemma forallb_app' {A} (p : A -> bool) a b :
  forallb p (a ++ b) = forallb p a && forallb p b.
Proof. apply forallb_app. Qed.

(* the encoded form of any name, whatever code points it contains, consists of
   printable ASCII only *)
Lemma m7enc_printable s : forall run, forallb printable (m7enc run s) = true.
Proof.
  induction s as [|c s IH]; intro run; cbn [m7enc].
  - destruct run as [acc|]; [|reflexivity].
    cbn [forallb]. rewrite forallb_app', mb64_printable. reflexivity.
  - destruct run as [acc|].
    + destruct (printable c) eqn:Ep; [|apply IH].
      cbn [forallb]. rewrite forallb_app', mb64_printable. cbn [andb forallb].
      rewrite forallb_app', IH. destruct (c =? 38); cbn [forallb andb]; [reflexivity|].
      rewrite Ep. reflexivity.
    + destruct (c =? 38); [cbn [forallb]; rewrite IH; reflexivity|].
      destruct (printable c) eqn:Ep; [|apply IH]. cbn [forallb]. rewrite Ep, IH. reflexivity.
Qed.

Lemma modutf7_encode_printable s : forallb printable (modutf7_encode s) = true.
Proof. apply m7enc_printable. Qed.

Lemma printable_text c : printable c = true -> is_text_char c = true.
Proof. unfold printable, is_text_char, in_rng. lia. Qed.

Lemma forallb_impl {A} (p q : A -> bool) l :
  (forall x, p x = true -> q x = true) -> forallb p l = true -> forallb q l = true.
Proof.
  intro H. induction l as [|x l IH]; [reflexivity|]. cbn [forallb]. intro E.
  apply andb_true_iff in E as [E1 E2]. rewrite (H x E1), IH by exact E2. reflexivity.
Qed.

(* pymap's unquoted astring characters are ASTRING-CHARs of the RFC *)
Lemma py_astring_char_ok c : py_astring_char c = true -> is_astring_char c = true.
Proof. unfold py_astring_char, is_astring_char, is_atom_char, in_rng. lia. Qed.

Lemma many1_quoted_none b rest : many1 is_astring_char (print_quoted b ++ rest) = None.
Proof. reflexivity. Qed.

(* mailbox_bytes_astring, first half: AString.__bytes__ of TEXT-CHAR bytes *)
Lemma astring_print b rest :
  forallb is_text_char b = true -> nohead is_astring_char rest ->
  astring (print_astring b ++ rest) = Some rest.
Proof.
  intros Hp Hn. unfold print_astring. destruct b as [|c b].
  - reflexivity.
  - destruct (forallb py_astring_char (c :: b)) eqn:E.
    + unfold astring. rewrite many1_app; [reflexivity|reflexivity| |exact Hn].
      eapply forallb_impl; [exact py_astring_char_ok|exact E].
    + unfold astring. rewrite many1_quoted_none.
      unfold string_. rewrite quoted_print; [reflexivity|exact Hp].
Qed.

(* mailbox_bytes_astring: the serialised form of any mailbox name is an astring *)
Lemma mailbox_print name rest :
  nohead is_astring_char rest -> mailbox (print_mailbox name ++ rest) = Some rest.
Proof.
  intro Hn. unfold mailbox, print_mailbox. destruct (is_inbox name).
  - unfold astring. rewrite many1_app; [reflexivity|reflexivity|reflexivity|exact Hn].
  - apply astring_print; [|exact Hn].
    eapply forallb_impl; [exact printable_text|apply modutf7_encode_printable].
Qed.
