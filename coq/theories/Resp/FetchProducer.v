(* Resp/FetchProducer.v — model of what *builds* the FETCH values of a message:
     pymap/fetch.py      MessageAttributes._get, the 16 fetch value classes,
                         DynamicLoadedFetchValue._get_data / _get_partial,
                         FetchAttribute.for_response (the <origin>)
     pymap/message.py    BaseLoadedMessage._get_body_structure (dispatch on
                         maintype / subtype / has_nested, size = len(msg),
                         lines = msg.lines), _get_envelope_structure,
                         _get_params, get_size, get_body(binary=True)
     pymap/mime/__init__.py  MessageBody._parse (the decision multipart with a
                         usable boundary / message/rfc822 / leaf taken from
                         content_type.maintype, .subtype, .params['boundary']),
                         _get_boundary, the default text/plain
     pymap/mime/parsed.py    the typed properties of ParsedHeaders (first
                         header / all headers of a name)
     pymap/parsing/response/fetch.py  EnvelopeStructure._value (truthiness of
                         the Date header, .datetime), _AddressList (addresses
                         of all headers of a name)
   on top of C03's model of the line index and the part tree (Mime/Lines.v,
   Mime/Parts.v, Mime/Fields.v), which supplies the tree, the octet and line
   counts and the payload of every BODY[..] / BINARY[..] item.

   What the stdlib `email` package decides about the header lines of a part
   (decoded header values, the parsed Content-Type / Content-Disposition,
   address lists, the Date) is an oracle [hd] supplied as data; the decoded
   body of a part with a base64 / quoted-printable transfer encoding is an
   oracle [dec].  Definitions only. *)
From PV Require Import Base.Prelude Base.Decimal Mime.Lines Mime.Parts Mime.Fields
     Resp.Grammar Resp.Printer.
From Coq Require Import String.

Local Open Scope N_scope.
Local Open Scope list_scope.

(* ------------------------------------------------ what stdlib email decided *)
(* one header object of an address header: its .addresses *)
Definition addr_header := list addr.
Record hdata := {
  (* parsed.content_type: None = no Content-Type header (or none that parsed);
     maintype, subtype, params.items() *)
  hd_ctype : option (list N * list N * params);
  (* parsed.content_disposition: None, or (content_disposition, params.items()) *)
  hd_dsp : disposition;
  hd_lang : ostr; hd_loc : ostr; hd_id : ostr; hd_desc : ostr; hd_enc : ostr;
  (* parsed.date: None, or (str(header), header.datetime) *)
  hd_date : option (list N * option datetime);
  hd_subject : ostr;
  (* parsed.from_ ...: None = KeyError, Some l = the header objects that parsed *)
  hd_from : option (list addr_header); hd_sender : option (list addr_header);
  hd_reply_to : option (list addr_header); hd_to : option (list addr_header);
  hd_cc : option (list addr_header); hd_bcc : option (list addr_header);
  hd_in_reply_to : ostr; hd_message_id : ostr
}.
(* a part without header lines: every property of ParsedHeaders is None *)
Definition no_headers : hdata :=
  {| hd_ctype := None; hd_dsp := None; hd_lang := None; hd_loc := None; hd_id := None;
     hd_desc := None; hd_enc := None; hd_date := None; hd_subject := None;
     hd_from := None; hd_sender := None; hd_reply_to := None; hd_to := None;
     hd_cc := None; hd_bcc := None; hd_in_reply_to := None; hd_message_id := None |}.

Definition str_eqb : list N -> list N -> bool := eqb_list N.eqb.
Definition MULTIPARTs : list N := Eval vm_compute in pbs "multipart".
Definition BOUNDARYs : list N := Eval vm_compute in pbs "boundary".

(* MessageBody._parse: content_type or _parse_content_type('text/plain') *)
Definition content_type (h : hdata) : list N * list N * params :=
  match hd_ctype h with Some x => x | None => (TEXTs, PLAINs, []) end.
Definition ct_main (h : hdata) : list N := fst (fst (content_type h)).
Definition ct_sub (h : hdata) : list N := snd (fst (content_type h)).
Definition ct_params (h : hdata) : params := snd (content_type h).

(* MessageBody._get_boundary: params['boundary'].encode('ascii'), None when
   absent or not ASCII; an empty boundary is not used ([] stands for both) *)
Definition boundary_of (p : params) : bytes :=
  match find (fun kv => str_eqb (fst kv) BOUNDARYs) p with
  | Some kv => if is_ascii_str (snd kv) then snd kv else []
  | None => []
  end.
(* the decision of MessageBody._parse *)
Definition ct_of (h : hdata) : ctype :=
  if str_eqb (ct_main h) MULTIPARTs then CtMulti (boundary_of (ct_params h))
  else if str_eqb (ct_main h) MESSAGEs && str_eqb (ct_sub h) RFC822s then CtRfc822
  else if str_eqb (ct_main h) TEXTs then CtText
  else CtOther.

(* ---------------------------------------------------------------- envelope *)
(* _AddressList: `headers or []`, addresses.extend(header.addresses) *)
Definition addr_field_of (hs : option (list addr_header)) : addr_field :=
  match hs with
  | None | Some [] => None
  | Some l => Some (List.concat l)
  end.
(* EnvelopeStructure._value: when = self.date.datetime if self.date else None
   (a header object is a str: an empty value is falsy) *)
Definition date_of (dh : option (list N * option datetime)) : option datetime :=
  match dh with
  | Some (_ :: _, Some when) => Some when
  | _ => None
  end.
(* BaseLoadedMessage._get_envelope_structure *)
Definition envelope_of (h : hdata) : envelope :=
  {| e_date := date_of (hd_date h); e_subject := hd_subject h;
     e_from := addr_field_of (hd_from h); e_sender := addr_field_of (hd_sender h);
     e_reply_to := addr_field_of (hd_reply_to h); e_to := addr_field_of (hd_to h);
     e_cc := addr_field_of (hd_cc h); e_bcc := addr_field_of (hd_bcc h);
     e_in_reply_to := hd_in_reply_to h; e_message_id := hd_message_id h |}.

Definition EXC_INDEX : N := 1.     (* IndexError: msg.body.nested[0] *)
Definition EXC_VALUE : N := 2.     (* ValueError(specifier) / RuntimeError in _get_data *)

Section Producer.
  Variable d : bytes.                        (* the message literal *)
  Variable hd : list line -> hdata.          (* stdlib email on a non-empty header *)
  Variable dec : content -> option bytes.    (* MessageDecoder: None = identity *)

  Definition hdx (hl : list line) : hdata :=
    match hl with [] => no_headers | _ => hd hl end.
  (* the Content-Type decision C03's parse takes as its oracle *)
  Definition ct (hl : list line) : ctype := ct_of (hd hl).

  Definition nonempty_c (l : list content) : bool := match l with [] => false | _ => true end.

  (* BaseLoadedMessage._get_body_structure *)
  Fixpoint body_of_content (c : content) : result body :=
    match c with
    | Node hl bl k subs =>
      let h := hdx hl in
      let mt := ct_main h in
      let st := ct_sub h in
      let p := ct_params h in
      let size := N.of_nat (List.length (get_raw d [hl; bl])) in       (* len(msg) *)
      let lines := N.of_nat (List.length hl + List.length bl) - 1 in       (* msg.lines *)
      let f := {| bf_params := p; bf_id := hd_id h; bf_desc := hd_desc h; bf_enc := hd_enc h;
                  bf_size := size; bf_md5 := None; bf_dsp := hd_dsp h; bf_lang := hd_lang h;
                  bf_loc := hd_loc h |} in
      if str_eqb mt MULTIPARTs && nonempty_c subs then
        bind ((fix go (l : list content) : result (list body) :=
                 match l with
                 | [] => Ok []
                 | s :: r => bind (body_of_content s) (fun b =>
                             bind (go r) (fun bs => Ok (b :: bs)))
                 end) subs)
             (fun bs => Ok (BMulti bs st p (hd_dsp h) (hd_lang h) (hd_loc h)))
      else if str_eqb mt MESSAGEs && str_eqb st RFC822s then
        match subs with
        | s :: _ => bind (body_of_content s) (fun b =>
                    Ok (BMsg f lines (envelope_of (hdx (c_hl s))) b))
        | [] => Exc EXC_INDEX
        end
      else if str_eqb mt TEXTs then Ok (BText st f lines)
      else Ok (BBasic mt st f)
    end.

  (* ---------------------------------------------------- BODY[..] payloads *)
  Definition sec_nat (s : fsection) : list nat := map N.to_nat (fs_parts s).
  Definition K_HF : bytes := K_HEADER_FIELDS.
  Definition K_HFN : bytes := Eval vm_compute in K_HEADER_FIELDS ++ K_DOTNOT.

  (* get_body(section, binary=True) *)
  Definition binary_data (c : content) (sec : list nat) : bytes :=
    match get_subpart c sec with
    | Some s =>
      let b := match dec s with Some x => x | None => body_of d s end in
      match sec with [] => header_of d s ++ b | _ => b end
    | None => []
    end.

  (* DynamicLoadedFetchValue._get_data before _get_partial *)
  Definition section_data (c : content) (s : fsection) (binary : bool) : result bytes :=
    let sec := sec_nat s in
    match fs_spec s with
    | None => Ok (if binary then binary_data c sec else fetch_body d c sec)
    | Some sp =>
      if bytes_eqb sp K_MIME then Ok (fetch_mime d c sec)
      else if bytes_eqb sp K_TEXT then Ok (fetch_text d c sec)
      else if bytes_eqb sp K_HEADER then Ok (fetch_header d c sec)
      else if bytes_eqb sp K_HF then Ok (fetch_fields d c sec (fs_headers s) false)
      else if bytes_eqb sp K_HFN then Ok (fetch_fields d c sec (fs_headers s) true)
      else Exc EXC_VALUE
    end.
  Definition fpartial := option (nat * nat).         (* FetchPartial(start, length) *)
  Definition get_data (c : content) (s : fsection) (p : fpartial) (binary : bool)
    : result bytes :=
    bind (section_data c s binary) (fun full => Ok (get_partial full p)).
  (* attribute.for_response: the origin of the partial, without its length *)
  Definition origin_of (p : fpartial) : option N :=
    match p with Some (o, _) => Some (N.of_nat o) | None => None end.

  (* -------------------------------------------------------- fetch values *)
  (* what the message object carries besides its content *)
  Record msgmeta := {
    mm_uid : N; mm_date : datetime; mm_flags : list bytes;   (* get_flags(session_flags) *)
    mm_email : bytes; mm_thread : option bytes               (* None: ValueError -> NIL *)
  }.
  (* a parsed FetchAttribute *)
  Inductive fattr :=
  | AUid | AFlags | AInternalDate | AEmailId | AThreadId
  | AEnvelope | ABodyStructure | ABody
  | ABodySection (s : fsection) (p : fpartial)          (* BODY[..]<..>, BODY.PEEK[..]<..> *)
  | ARfc822 (k : rfc822_kind) | ARfc822Size
  | ABinary (s : fsection) (p : fpartial)               (* BINARY[..]<..>, BINARY.PEEK *)
  | ABinarySize (s : fsection).

  Definition sec_plain : fsection := {| fs_parts := []; fs_spec := None; fs_headers := [] |}.
  Definition sec_of_rfc822 (k : rfc822_kind) : fsection :=
    match k with
    | R822 => sec_plain
    | R822Header => {| fs_parts := []; fs_spec := Some K_HEADER; fs_headers := [] |}
    | R822Text => {| fs_parts := []; fs_spec := Some K_TEXT; fs_headers := [] |}
    end.

  (* MessageAttributes._get(attr) then FetchValue.__bytes__ under load_hook *)
  Definition fetch_value (m : msgmeta) (c : content) (a : fattr) : result fetch_item :=
    match a with
    | AUid => Ok (FUid (mm_uid m))
    | AFlags => Ok (FFlags (mm_flags m))
    | AInternalDate => Ok (FInternalDate (mm_date m))
    | AEmailId => Ok (FEmailId (mm_email m))
    | AThreadId => Ok (FThreadId (mm_thread m))
    | AEnvelope => Ok (FEnvelope (envelope_of (hdx (c_hl c))))
    | ABodyStructure => bind (body_of_content c) (fun b => Ok (FBodyStructure b))
    | ABody => bind (body_of_content c) (fun b => Ok (FBody b))
    | ABodySection s p =>
      bind (get_data c s p false) (fun data => Ok (FBodySection s (origin_of p) data))
    | ARfc822 k =>
      bind (get_data c (sec_of_rfc822 k) None false) (fun data => Ok (FRfc822 k data))
    | ARfc822Size => Ok (FRfc822Size (N.of_nat (size_of d c)))
    | ABinary s p =>
      bind (get_data c s p true) (fun data => Ok (FBinary s (origin_of p) data))
    | ABinarySize s =>
      bind (get_data c s None true) (fun data => Ok (FBinarySize s (N.of_nat (List.length data))))
    end.

  Fixpoint fetch_values (m : msgmeta) (c : content) (l : list fattr) : result (list fetch_item) :=
    match l with
    | [] => Ok []
    | a :: r => bind (fetch_value m c a) (fun i =>
                bind (fetch_values m c r) (fun is => Ok (i :: is)))
    end.

  (* FetchResponse(seq, MessageAttributes(message, selected, attributes)) of a
     message whose literal is [d] *)
  Definition fetch_response (seq : N) (m : msgmeta) (attrs : list fattr) : result resp :=
    bind (parse d ct) (fun c =>
    bind (fetch_values m c attrs) (fun items => Ok (RFetch seq items))).
End Producer.

(* ------------------------------------------------ what is assumed of the data *)
(* datetime.datetime: the ranges its constructor enforces; utcoffset() is
   strictly between -24 h and +24 h *)
Definition py_datetime (t : datetime) : bool :=
  (1 <=? dt_day t) && (dt_day t <=? 31) && (1 <=? dt_month t) && (dt_month t <=? 12) &&
  (1 <=? dt_year t) && (dt_year t <=? 9999) && (dt_hour t <? 24) && (dt_min t <? 60) &&
  (dt_sec t <? 60) && (dt_off t <? 86400).
(* str.lower() leaves no A..Z: maintype / subtype of a ContentTypeHeader *)
Definition lowered (s : list N) : bool := forallb (fun c => negb ((65 <=? c) && (c <=? 90))) s.
Definition hd_ok (h : hdata) : bool :=
  match hd_ctype h with Some (mt, st, _) => lowered mt && lowered st | None => true end &&
  match hd_date h with Some (_, Some t) => py_datetime t | _ => true end.

(* a fetch attribute as FetchAttribute.parse builds it: the specifier is one of
   the five words (MIME only after part numbers, HEADER.FIELDS[.NOT] with a
   non-empty list), BINARY has no specifier, part numbers are non-zero *)
Definition wf_sec_spec (binary : bool) (s : fsection) : bool :=
  forallb (fun n => 0 <? n) (fs_parts s) &&
  match fs_spec s with
  | None => match fs_headers s with [] => true | _ => false end
  | Some sp =>
    negb binary &&
    if bytes_eqb sp K_HEADER || bytes_eqb sp K_TEXT
    then match fs_headers s with [] => true | _ => false end
    else if bytes_eqb sp K_MIME
    then match fs_parts s with [] => false | _ => true end &&
         match fs_headers s with [] => true | _ => false end
    else if bytes_eqb sp K_HF || bytes_eqb sp K_HFN
    then match fs_headers s with [] => false | _ => true end
    else false
  end.
Definition wf_fattr (a : fattr) : bool :=
  match a with
  | ABodySection s _ => wf_sec_spec false s
  | ABinary s _ | ABinarySize s => wf_sec_spec true s
  | _ => true
  end.
