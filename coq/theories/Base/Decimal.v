(* Base/Decimal.v — ASCII decimal numerals, as Python's  b'%d' % n  prints them
   and  int(re.match(br'\d+', buf).group(0))  reads them.  Built on the
   standard library's Decimal.uint so that the round trip is DecimalN.of_to. *)
From PV Require Import Base.Prelude.
From Coq Require Import Decimal DecimalFacts DecimalN DecimalPos.

Definition is_digit (b : N) : bool := (48 <=? b)%N && (b <=? 57)%N.

Fixpoint uint_bytes (u : uint) : bytes :=
  match u with
  | Nil => []
  | D0 u => 48%N :: uint_bytes u | D1 u => 49%N :: uint_bytes u
  | D2 u => 50%N :: uint_bytes u | D3 u => 51%N :: uint_bytes u
  | D4 u => 52%N :: uint_bytes u | D5 u => 53%N :: uint_bytes u
  | D6 u => 54%N :: uint_bytes u | D7 u => 55%N :: uint_bytes u
  | D8 u => 56%N :: uint_bytes u | D9 u => 57%N :: uint_bytes u
  end.

(* print:  b'%d' % n *)
Definition dec_of_N (n : N) : bytes := uint_bytes (N.to_uint n).

(* longest prefix of ASCII digits, as a uint, and the rest *)
Fixpoint span_digits (b : bytes) : uint * bytes :=
  match b with
  | [] => (Nil, [])
  | c :: r =>
    let k (f : uint -> uint) := let '(u, r') := span_digits r in (f u, r') in
    if (c =? 48)%N then k D0 else if (c =? 49)%N then k D1
    else if (c =? 50)%N then k D2 else if (c =? 51)%N then k D3
    else if (c =? 52)%N then k D4 else if (c =? 53)%N then k D5
    else if (c =? 54)%N then k D6 else if (c =? 55)%N then k D7
    else if (c =? 56)%N then k D8 else if (c =? 57)%N then k D9
    else (Nil, b)
  end.

Definition head_is_digit (b : bytes) : bool :=
  match b with [] => false | c :: _ => is_digit c end.

(*  \d+  then int():  None when no digit is present *)
Definition parse_number (b : bytes) : option (N * bytes) :=
  match span_digits b with
  | (Nil, _) => None
  | (u, r) => Some (N.of_uint u, r)
  end.

(*  [1-9]\d*  then int() *)
Definition parse_nznumber (b : bytes) : option (N * bytes) :=
  match b with
  | c :: _ => if (c =? 48)%N then None else parse_number b
  | [] => None
  end.

Lemma is_digit_cases c : is_digit c = true ->
  c = 48%N \/ c = 49%N \/ c = 50%N \/ c = 51%N \/ c = 52%N \/
  c = 53%N \/ c = 54%N \/ c = 55%N \/ c = 56%N \/ c = 57%N.
Proof. unfold is_digit; intro H; apply andb_true_iff in H as [H1 H2];
  apply N.leb_le in H1; apply N.leb_le in H2; lia. Qed.

Lemma span_digits_nondigit c r : is_digit c = false -> span_digits (c :: r) = (Nil, c :: r).
Proof.
  intro H. cbn [span_digits].
  repeat match goal with
  | |- context [(c =? ?k)%N] =>
      destruct (N.eqb_spec c k) as [->|_]; [discriminate H|]
  end. reflexivity.
Qed.

Lemma span_digits_print u rest :
  head_is_digit rest = false -> span_digits (uint_bytes u ++ rest) = (u, rest).
Proof.
  intro H. induction u as [|u IH|u IH|u IH|u IH|u IH|u IH|u IH|u IH|u IH|u IH];
    cbn [uint_bytes app].
  - destruct rest as [|c r]; [reflexivity|]. apply span_digits_nondigit. exact H.
  - cbn [span_digits]. cbn. rewrite IH. reflexivity.
  - cbn [span_digits]. cbn. rewrite IH. reflexivity.
  - cbn [span_digits]. cbn. rewrite IH. reflexivity.
  - cbn [span_digits]. cbn. rewrite IH. reflexivity.
  - cbn [span_digits]. cbn. rewrite IH. reflexivity.
  - cbn [span_digits]. cbn. rewrite IH. reflexivity.
  - cbn [span_digits]. cbn. rewrite IH. reflexivity.
  - cbn [span_digits]. cbn. rewrite IH. reflexivity.
  - cbn [span_digits]. cbn. rewrite IH. reflexivity.
  - cbn [span_digits]. cbn. rewrite IH. reflexivity.
Qed.

Lemma to_uint_nonnil n : N.to_uint n <> Nil.
Proof. destruct n as [|p]; cbn; [discriminate|apply Unsigned.to_uint_nonnil]. Qed.

Theorem parse_number_print n rest :
  head_is_digit rest = false -> parse_number (dec_of_N n ++ rest) = Some (n, rest).
Proof.
  intro H. unfold parse_number, dec_of_N. rewrite span_digits_print by exact H.
  pose proof (to_uint_nonnil n) as Hn.
  destruct (N.to_uint n) eqn:E; try congruence;
    rewrite <- E, DecimalN.Unsigned.of_to; reflexivity.
Qed.

Lemma to_uint_head_nonzero n : (0 < n)%N -> forall u, N.to_uint n <> D0 u.
Proof.
  intros Hn u E. destruct n as [|p]; [lia|]. cbn in E.
  pose proof (DecimalPos.Unsigned.to_of (Pos.to_uint p)) as H.
  rewrite DecimalPos.Unsigned.of_to in H. cbn in H.
  rewrite E in H. unfold unorm in H. rewrite nzhead_D0 in H.
  destruct (nzhead u) eqn:Eu; try discriminate H.
  - rewrite <- E in H. exact (DecimalPos.Unsigned.to_uint_nonzero p H).
  - exact (nzhead_nonzero u _ (eq_trans Eu (eq_sym H))).
Qed.

Theorem parse_nznumber_print n rest : (0 < n)%N ->
  head_is_digit rest = false -> parse_nznumber (dec_of_N n ++ rest) = Some (n, rest).
Proof.
  intros Hn H. unfold parse_nznumber.
  pose proof (parse_number_print n rest H) as P.
  unfold dec_of_N in *. pose proof (to_uint_head_nonzero n Hn) as Hz.
  pose proof (to_uint_nonnil n) as Hnn.
  destruct (N.to_uint n) eqn:E; cbn [uint_bytes app] in *; try congruence;
    try exact P.
Qed.

Lemma dec_of_N_nonempty n : dec_of_N n <> [].
Proof. unfold dec_of_N. pose proof (to_uint_nonnil n).
  destruct (N.to_uint n); cbn; congruence. Qed.

Lemma uint_bytes_digits u : forallb is_digit (uint_bytes u) = true.
Proof. induction u; cbn [uint_bytes forallb]; try rewrite IHu; reflexivity. Qed.

Lemma dec_of_N_digits n : forallb is_digit (dec_of_N n) = true.
Proof. apply uint_bytes_digits. Qed.

Lemma dec_of_N_head n : head_is_digit (dec_of_N n) = true.
Proof. pose proof (dec_of_N_nonempty n). pose proof (dec_of_N_digits n).
  destruct (dec_of_N n); [congruence|]. cbn in *. apply andb_true_iff in H0. tauto. Qed.
