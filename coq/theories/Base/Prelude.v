(* Base/Prelude.v — conventions shared by every model component.
   Python bytes/str -> list N; int -> N or Z; indices/fuel -> nat.
   Only definitions and tiny lemmas; no model here. *)
From Coq Require Export List NArith ZArith Bool Lia.
Export ListNotations.

Definition byte := N.
Definition bytes := list N.

(* Outcome of a Python operation that can raise.  [Exc k] stands for an
   exception other than NotParseable escaping (k identifies which),
   [OutOfFuel] is never a normal-looking value. *)
Inductive result (A : Type) : Type :=
| Ok (a : A)
| NotParseable
| Exc (k : N)
| OutOfFuel.
Arguments Ok {A} a.
Arguments NotParseable {A}.
Arguments Exc {A} k.
Arguments OutOfFuel {A}.

Definition bind {A B} (r : result A) (f : A -> result B) : result B :=
  match r with
  | Ok a => f a
  | NotParseable => NotParseable
  | Exc k => Exc k
  | OutOfFuel => OutOfFuel
  end.

(* Indices (from 0) of the cases on which [chk] is false; generated case
   files end with [Eval vm_compute in (bad_indices chk cases)]. *)
Fixpoint bad_indices_from {A} (chk : A -> bool) (i : nat) (l : list A) : list nat :=
  match l with
  | [] => []
  | x :: xs => if chk x then bad_indices_from chk (S i) xs
               else i :: bad_indices_from chk (S i) xs
  end.
Definition bad_indices {A} (chk : A -> bool) (l : list A) : list nat :=
  bad_indices_from chk 0 l.

Lemma bad_indices_nil_forall {A} (chk : A -> bool) l :
  bad_indices chk l = [] -> forall x, In x l -> chk x = true.
Proof.
  unfold bad_indices. generalize 0 as i. induction l as [|y ys IH]; intros i H x Hx.
  - destruct Hx.
  - cbn [bad_indices_from] in H. destruct (chk y) eqn:E; [|discriminate].
    destruct Hx as [<-|Hx]; [exact E|]. eapply IH; eauto.
Qed.

(* list equality for N lists, computable *)
Fixpoint eqb_list {A} (eqb : A -> A -> bool) (a b : list A) : bool :=
  match a, b with
  | [], [] => true
  | x :: xs, y :: ys => eqb x y && eqb_list eqb xs ys
  | _, _ => false
  end.
Definition bytes_eqb : bytes -> bytes -> bool := eqb_list N.eqb.

Lemma eqb_list_true_iff {A} (eqb : A -> A -> bool)
      (H : forall x y, eqb x y = true <-> x = y) a b :
  eqb_list eqb a b = true <-> a = b.
Proof.
  revert b; induction a as [|x xs IH]; intros [|y ys]; cbn [eqb_list]; split; intro E;
    try reflexivity; try discriminate.
  - apply andb_true_iff in E as [E1 E2]. apply H in E1. apply IH in E2. congruence.
  - inversion E; subst. apply andb_true_iff; split; [apply H|apply IH]; reflexivity.
Qed.

Lemma bytes_eqb_eq a b : bytes_eqb a b = true <-> a = b.
Proof. apply eqb_list_true_iff. intros; apply N.eqb_eq. Qed.

Definition option_eqb {A} (eqb : A -> A -> bool) (a b : option A) : bool :=
  match a, b with
  | None, None => true
  | Some x, Some y => eqb x y
  | _, _ => false
  end.
