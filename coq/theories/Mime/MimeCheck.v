(* Mime/MimeCheck.v — boolean case checkers for the correspondence run of
   harness/props/C03.py.  Every case carries what was observed on the
   implementation; the model recomputes it under vm_compute.

   Case files are large; Coq reads constructor applications much faster than
   numerals, so bytes are written with the constructors of Init.Byte and
   offsets as two such bytes (big endian).  The conversions below are part of
   the checkers. *)
From PV Require Import Base.Prelude Base.Decimal Mime.Lines Mime.Parts Mime.Fields.
From Coq Require Import Init.Byte.

Definition B (l : list Byte.byte) : bytes := map Byte.to_N l.
Definition o (h l : Byte.byte) : nat := N.to_nat (Byte.to_N h * 256 + Byte.to_N l).
Definition q (b : Byte.byte) : nat := N.to_nat (Byte.to_N b).
Definition zo (h l : Byte.byte) : Z := Z.of_nat (o h l).
Definition zq (b : Byte.byte) : Z := Z.of_nat (q b).
Definition l (a b c : Byte.byte) : line := Line (q a) (q b) (q c).
Definition L (a1 a2 b1 b2 c1 c2 : Byte.byte) : line := Line (o a1 a2) (o b1 b2) (o c1 c2).
Definition P (l : list Byte.byte) : list nat := map (fun b => N.to_nat (Byte.to_N b)) l.

(* an expected byte string: a span of the appended data (the usual case: the
   harness found the observed bytes at that offset of the data) or explicit *)
Inductive expect : Type := Sp (off len : nat) | Ex (b : bytes).
Definition expect_eqb (d : bytes) (got : bytes) (e : expect) : bool :=
  match e with
  | Sp a n => bytes_eqb got (slice d a (a + n))
  | Ex b => bytes_eqb got b
  end.

Definition lines_eqb : list line -> list line -> bool := eqb_list line_eqb.

(* the observed Content-Type decisions: start offset of the first header
   line of a node -> its kind; nodes not listed are text (the default) *)
Definition ct_of_table (t : list (nat * ctype)) (hl : list line) : ctype :=
  match hl with
  | [] => CtText
  | l :: _ => match find (fun e => Nat.eqb (fst e) (l_start l)) t with
              | Some e => snd e
              | None => CtText
              end
  end.

(* observed MessageContent tree: header._lines, body._lines, bytes(content),
   bytes(header), bytes(body), nested *)
Inductive otree : Type :=
| ONode (hl bl : list line) (raw hdr body : expect) (subs : list otree).

Fixpoint tree_match (d : bytes) (c : content) (o : otree) {struct c} : bool :=
  match c, o with
  | Node hl bl k subs, ONode hl' bl' raw hdr body osubs =>
    lines_eqb hl hl' && lines_eqb bl bl'
    && expect_eqb d (get_raw d [hl; bl]) raw
    && expect_eqb d (get_raw d [hl]) hdr
    && expect_eqb d (get_raw d [bl]) body
    && (fix go (cs : list content) (os : list otree) : bool :=
          match cs, os with
          | [], [] => true
          | c' :: cs', o' :: os' => tree_match d c' o' && go cs' os'
          | _, _ => false
          end) subs osubs
  end.

Fixpoint bstruct_eqb (a b : bstruct) {struct a} : bool :=
  match a, b with
  | BsMulti xs, BsMulti ys =>
    (fix go (l1 l2 : list bstruct) : bool :=
       match l1, l2 with
       | [], [] => true
       | x :: r1, y :: r2 => bstruct_eqb x y && go r1 r2
       | _, _ => false
       end) xs ys
  | BsMsg n l s, BsMsg n' l' s' => Nat.eqb n n' && Z.eqb l l' && bstruct_eqb s s'
  | BsText n l, BsText n' l' => Nat.eqb n n' && Z.eqb l l'
  | BsOther n, BsOther n' => Nat.eqb n n'
  | _, _ => false
  end.

Inductive qkind :=
| QBody | QMime | QHeader | QText
| QFields (inverse : bool) (subset : list bytes)   (* HEADER.FIELDS(.NOT) *)
| QBinary                                          (* BINARY[..] *)
| QBinarySize.                                     (* BINARY.SIZE[..]: expected = Sp 0 n *)

(* one FETCH data item: kind, section part numbers, partial <o.n>, and the
   literal payload observed *)
Definition query : Type := qkind * list nat * option (nat * nat) * expect.

(* nodes whose Content-Transfer-Encoding is not an identity encoding, by the
   start offset of their first header line (observed: MessageDecoder.of) *)
Definition identity_of (nonid : list nat) (c : content) : bool :=
  match c_hl c with
  | [] => true
  | l :: _ => negb (existsb (Nat.eqb (l_start l)) nonid)
  end.

Definition run_query (d : bytes) (nonid : list nat) (c : content) (k : qkind)
           (sec : list nat) : option bytes :=
  match k with
  | QBody => Some (fetch_body d c sec)
  | QMime => Some (fetch_mime d c sec)
  | QHeader => Some (fetch_header d c sec)
  | QText => Some (fetch_text d c sec)
  | QFields inv subset => Some (fetch_fields d c sec subset inv)
  | QBinary | QBinarySize => fetch_binary d (identity_of nonid) c sec
  end.

Definition chk_query (d : bytes) (nonid : list nat) (c : content) (q : query) : bool :=
  let '(k, sec, partial, expected) := q in
  match run_query d nonid c k sec, k, expected with
  | Some got, QBinarySize, Sp _ n => Nat.eqb (length got) n
  | Some _, QBinarySize, Ex _ => false
  | Some got, _, _ => expect_eqb d (get_partial got partial) expected
  | None, _, _ => false
  end.

(* pure level: (data, decisions, observed tree); the header and body lines
   of the root are _find_lines(data) split in two *)
Definition parse_case : Type := bytes * list (nat * ctype) * otree.

Definition chk_parse (x : parse_case) : bool :=
  let '(d, t, o) := x in
  match parse d (ct_of_table t) with
  | Ok c => tree_match d c o
  | _ => false
  end.

(* _find_lines on its own *)
Definition chk_lines (x : bytes * list line) : bool :=
  lines_eqb (find_lines (fst x)) (snd x).

(* fetch level: (data, decisions, non-identity nodes, RFC822.SIZE, body
   structure, data items) *)
Definition fetch_case : Type :=
  bytes * list (nat * ctype) * list nat * nat * option bstruct * list query.

Definition chk_fetch (x : fetch_case) : bool :=
  let '(d, t, nonid, size, bs, qs) := x in
  match parse d (ct_of_table t) with
  | Ok c =>
    Nat.eqb (size_of d c) size
    && match bs, body_structure d c with
       | None, _ => true           (* structure not observed for this case *)
       | Some b, Some b' => bstruct_eqb b' b
       | Some _, None => false
       end
    && forallb (chk_query d nonid c) qs
  | _ => false
  end.

(* literal8 prefix: (payload length, prefix of bytes(LiteralString(x, True))) *)
Definition chk_literal8 (x : N * bytes) : bool :=
  bytes_eqb (126%N :: literal_prefix (fst x)) (snd x).

(* _find_parts on its own: (data, boundary, lines given, parts observed) *)
Definition parts_case : Type := bytes * bytes * list line * list (list line).

Definition chk_parts (x : parts_case) : bool :=
  let '(d, b, ls, ps) := x in
  eqb_list lines_eqb (find_parts d b ls) ps.

(* literal printing: (payload length, bytes(LiteralString(payload)) prefix) *)
Definition chk_literal (x : N * bytes) : bool :=
  bytes_eqb (literal_prefix (fst x)) (snd x).
