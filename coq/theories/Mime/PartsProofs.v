(* Mime/PartsProofs.v — proofs about the nested parse and the FETCH data
   functions (Mime/Parts.v). *)
From PV Require Import Base.Prelude Base.Decimal Mime.Lines Mime.Parts Mime.LinesProofs.
From Coq Require Import Lia.

(* ------------------------------------------------------------ map_result *)
Lemma map_result_ok {A B} (f : A -> result B) l :
  Forall (fun x => exists y, f x = Ok y) l -> exists ys, map_result f l = Ok ys.
Proof.
  induction 1 as [|x r (y & Hy) _ (ys & Hys)]; cbn [map_result].
  - eexists; reflexivity.
  - rewrite Hy. cbn [bind]. rewrite Hys. cbn [bind]. eexists; reflexivity.
Qed.

Lemma map_result_Forall {A B} (f : A -> result B) (Q : B -> Prop) l : forall ys,
  map_result f l = Ok ys ->
  Forall (fun x => forall y, f x = Ok y -> Q y) l -> Forall Q ys.
Proof.
  induction l as [|x r IH]; intros ys H HF; cbn [map_result] in H.
  - injection H as <-. constructor.
  - inversion HF as [|? ? Hx Hr]; subst.
    destruct (f x) as [y| | |] eqn:Ey; cbn [bind] in H; try discriminate.
    destruct (map_result f r) as [ys'| | |] eqn:Er; cbn [bind] in H; try discriminate.
    injection H as <-. constructor; [apply Hx; reflexivity|apply IH; auto].
Qed.

(* ---------------------------------------------------------- induction *)
Section ContentInd.
  Variable Q : content -> Prop.
  Hypothesis HQ : forall hl bl k subs, Forall Q subs -> Q (Node hl bl k subs).
  Fixpoint content_ind' (c : content) : Q c :=
    match c with
    | Node hl bl k subs =>
      HQ hl bl k subs
         ((fix go (l : list content) : Forall Q l :=
             match l with
             | [] => Forall_nil Q
             | s :: r => Forall_cons s (content_ind' s) (go r)
             end) subs)
    end.
End ContentInd.

(* ------------------------------------------------------- well-formedness *)
(* what every MessageContent built by the parse satisfies: its header and
   body lines tile one range of the data; only multipart and message/rfc822
   nodes have nested content, message/rfc822 exactly one *)
Definition shape_ok (k : ctype) (subs : list content) : Prop :=
  match k with
  | CtRfc822 => exists s, subs = [s]
  | CtMulti _ => True
  | _ => subs = []
  end.

Inductive wf (d : bytes) : content -> Prop :=
| wf_node hl bl k subs :
    (exists a b, chain a (hl ++ bl) b /\ b <= length d) ->
    shape_ok k subs ->
    Forall (wf d) subs ->
    wf d (Node hl bl k subs).

Section ParseProofs.
  Variable d : bytes.
  Variable ct : list line -> ctype.

  Lemma split_lines_eq ls hl bl : split_lines d ls = (hl, bl) -> hl ++ bl = ls.
  Proof. intro H. generalize (split_lines_app d ls). rewrite H. auto. Qed.

  (* the recursion always ends: [length ls < fuel] is enough fuel *)
  Lemma parse_lines_total : forall fuel ls,
    length ls < fuel -> exists c, parse_lines d ct fuel ls = Ok c.
  Proof.
    induction fuel as [|f IH]; intros ls Hlen; [lia|].
    cbn [parse_lines]. destruct (split_lines d ls) as [hl bl] eqn:Es.
    apply split_lines_eq in Es.
    assert (Hl : length hl + length bl = length ls) by (rewrite <- Es, app_length; reflexivity).
    destruct hl as [|h0 hl'].
    - cbn [kind_of]. eexists; reflexivity.
    - cbn [kind_of]. cbn [length] in Hl.
      destruct (ct (h0 :: hl')) as [| |[|b0 b']|]; try (eexists; reflexivity).
      + assert (HF : Forall (fun p => exists y, parse_lines d ct f p = Ok y)
                            (find_parts d (b0 :: b') bl)).
        { eapply Forall_impl; [|apply find_parts_length]. cbn beta.
          intros p Hp. apply IH. lia. }
        destruct (map_result_ok _ _ HF) as (ys & Hys). rewrite Hys. cbn [bind].
        eexists; reflexivity.
      + destruct (IH bl) as (s & Hs); [lia|]. rewrite Hs. cbn [bind]. eexists; reflexivity.
  Qed.

  Lemma parse_lines_wf : forall fuel ls a b c,
    chain a ls b -> b <= length d -> parse_lines d ct fuel ls = Ok c -> wf d c.
  Proof.
    induction fuel as [|f IH]; intros ls a b c Hch Hb H; [discriminate|].
    cbn [parse_lines] in H. destruct (split_lines d ls) as [hl bl] eqn:Es.
    apply split_lines_eq in Es.
    assert (Hrange : exists a b, chain a (hl ++ bl) b /\ b <= length d).
    { exists a, b. rewrite Es. auto. }
    assert (Hch' := Hch). rewrite <- Es in Hch'. apply chain_app in Hch' as (m & Hh & Hbl).
    assert (Hleaf : forall k, shape_ok k [] \/ True) by (intros; right; exact I).
    destruct (kind_of ct hl) as [| |[|b0 b']|] eqn:Ek.
    - injection H as <-. constructor; [exact Hrange|reflexivity|constructor].
    - injection H as <-. constructor; [exact Hrange|reflexivity|constructor].
    - injection H as <-. constructor; [exact Hrange|exact I|constructor].
    - destruct (map_result (parse_lines d ct f) (find_parts d (b0 :: b') bl)) as [subs| | |] eqn:Em;
        cbn [bind] in H; try discriminate.
      injection H as <-. constructor; [exact Hrange|exact I|].
      eapply map_result_Forall; [exact Em|].
      eapply Forall_impl; [|apply (find_parts_chain d (b0 :: b') bl _ _ Hbl)]. cbn beta.
      intros p (a' & b'' & Ha & Hb' & Hc) y Hy. eapply IH; [exact Hc| |exact Hy]. lia.
    - destruct (parse_lines d ct f bl) as [s| | |] eqn:Er; cbn [bind] in H; try discriminate.
      injection H as <-. constructor; [exact Hrange|exists s; reflexivity|].
      constructor; [|constructor]. eapply IH; [exact Hbl|exact Hb|exact Er].
  Qed.

  Lemma parse_lines_root : forall fuel ls c,
    parse_lines d ct fuel ls = Ok c -> c_hl c ++ c_bl c = ls.
  Proof.
    intros [|f] ls c H; [discriminate|]. cbn [parse_lines] in H.
    destruct (split_lines d ls) as [hl bl] eqn:Es. apply split_lines_eq in Es.
    destruct (kind_of ct hl) as [| |[|b0 b']|].
    - injection H as <-. exact Es.
    - injection H as <-. exact Es.
    - injection H as <-. exact Es.
    - destruct (map_result _ _) as [subs| | |]; cbn [bind] in H; try discriminate.
      injection H as <-. exact Es.
    - destruct (parse_lines d ct f bl) as [s| | |]; cbn [bind] in H; try discriminate.
      injection H as <-. exact Es.
  Qed.

  Lemma parse_total : exists c, parse d ct = Ok c.
  Proof. unfold parse. apply parse_lines_total. lia. Qed.

  Lemma parse_not_out_of_fuel : parse d ct <> OutOfFuel.
  Proof. destruct parse_total as (c & H). rewrite H. discriminate. Qed.

  Lemma parse_wf c : parse d ct = Ok c -> wf d c.
  Proof.
    unfold parse. intro H.
    eapply parse_lines_wf; [apply find_lines_chain|apply le_n|exact H].
  Qed.

  Lemma parse_root c : parse d ct = Ok c -> c_hl c ++ c_bl c = find_lines d.
  Proof. unfold parse. apply parse_lines_root. Qed.

  (* ---------------------------------------------- raw = header ++ body *)
  Lemma get_raw_2 hl bl a b :
    chain a (hl ++ bl) b -> get_raw d [hl; bl] = slice d a b.
  Proof.
    intro H. unfold get_raw. cbn [concat]. rewrite app_nil_r.
    generalize (get_raw_chain d a (hl ++ bl) b H). destruct (span_of (hl ++ bl)). auto.
  Qed.

  Lemma get_raw_1 ls a b : chain a ls b -> get_raw d [ls] = slice d a b.
  Proof.
    intro H. unfold get_raw. cbn [concat]. rewrite app_nil_r.
    generalize (get_raw_chain d a ls b H). destruct (span_of ls). auto.
  Qed.

  Lemma wf_raw_split c : wf d c -> raw_of d c = header_of d c ++ body_of d c.
  Proof.
    intros [hl bl k subs (a & b & Hch & Hb) _ _].
    unfold raw_of, header_of, body_of. cbn [c_hl c_bl].
    rewrite (get_raw_2 _ _ _ _ Hch).
    apply chain_app in Hch as (m & Hh & Hbl).
    rewrite (get_raw_1 _ _ _ Hh), (get_raw_1 _ _ _ Hbl).
    symmetry. apply slice_app; [eapply chain_le; eauto|eapply chain_le; eauto|exact Hb].
  Qed.

  Lemma wf_size c : wf d c ->
    size_of d c = length (header_of d c) + length (body_of d c).
  Proof. intro H. unfold size_of. rewrite (wf_raw_split c H), app_length. reflexivity. Qed.

  (* ------------------------------------------------ the top-level clauses *)
  Lemma content_verbatim c : parse d ct = Ok c -> raw_of d c = d.
  Proof.
    intro H. unfold raw_of.
    assert (Hch := find_lines_chain d). rewrite <- (parse_root c H) in Hch.
    rewrite (get_raw_2 _ _ _ _ Hch). apply slice_full.
  Qed.

  Lemma header_text_split c :
    parse d ct = Ok c -> fetch_header d c [] ++ fetch_text d c [] = d.
  Proof.
    intro H. cbn [fetch_header fetch_text].
    rewrite <- (wf_raw_split c (parse_wf c H)). apply content_verbatim. exact H.
  Qed.

  Lemma rfc822_size c : parse d ct = Ok c -> size_of d c = length d.
  Proof. intro H. unfold size_of. rewrite (content_verbatim c H). reflexivity. Qed.

  Lemma fetch_body_full c : parse d ct = Ok c -> fetch_body d c [] = d.
  Proof. intro H. cbn [fetch_body]. apply content_verbatim. exact H. Qed.

  (* ---------------------------------------------------------- sub-parts *)
  Lemma wf_subs c : wf d c -> Forall (wf d) (c_subs c).
  Proof. intros [hl bl k subs _ _ H]. exact H. Qed.

  Lemma next_container_wf s : wf d s -> wf d (next_container s).
  Proof.
    intro H. unfold next_container.
    destruct (is_rfc822 s && has_nested s); [|exact H].
    assert (HF := wf_subs s H). destruct (c_subs s) as [|e r]; [exact H|].
    inversion HF; assumption.
  Qed.

  Lemma walk_wf : forall p cont cur s,
    wf d cont -> wf d cur -> walk cont cur p = Some s -> wf d s.
  Proof.
    induction p as [|i rest IH]; intros cont cur s Hc Hu H; cbn [walk] in H.
    - injection H as <-. exact Hu.
    - destruct (has_nested cont && negb (is_rfc822 cont)).
      + destruct i as [|j]; [discriminate|].
        destruct (nth_error (c_subs cont) j) as [s1|] eqn:En; [|discriminate].
        assert (Hs1 : wf d s1).
        { assert (HF := wf_subs cont Hc). rewrite Forall_forall in HF.
          apply HF. eapply nth_error_In; eauto. }
        eapply IH; [apply next_container_wf; exact Hs1|exact Hs1|exact H].
      + destruct (Nat.eqb i 1); [|discriminate].
        eapply IH; [apply next_container_wf; exact Hc|exact Hc|exact H].
  Qed.

  Lemma get_subpart_wf p c s : wf d c -> get_subpart c p = Some s -> wf d s.
  Proof. intros H. unfold get_subpart. apply walk_wf; assumption. Qed.

  (* the octet count _get_body_structure computes for a node *)
  Definition node_announced (s : content) : option nat :=
    match c_kind s, c_subs s with
    | CtMulti _, _ :: _ => None
    | _, _ => Some (length (raw_of d s))
    end.

  (* announced octets of the node a section reaches =
       length BODY[section.MIME] + length BODY[section] *)
  Lemma part_octets_walk c p s n :
    wf d c -> p <> [] -> get_subpart c p = Some s -> node_announced s = Some n ->
    n = length (fetch_mime d c p) + length (fetch_body d c p).
  Proof.
    intros Hwf Hp Hs Hn. unfold fetch_mime, fetch_body. rewrite Hs.
    destruct p as [|i rest]; [congruence|].
    unfold node_announced in Hn.
    assert (Hws := get_subpart_wf _ _ _ Hwf Hs).
    assert (n = length (raw_of d s)) as ->
      by (destruct (c_kind s); destruct (c_subs s); congruence).
    rewrite (wf_raw_split s Hws), app_length. reflexivity.
  Qed.
End ParseProofs.

(* ------------------------------------------------------------ partial *)
Lemma partial_slice (full : bytes) o n :
  get_partial full (Some (o, n)) = firstn n (skipn o full).
Proof. cbn [get_partial]. unfold slice. f_equal. lia. Qed.

Lemma partial_none (full : bytes) : get_partial full None = full.
Proof. reflexivity. Qed.

(* ------------------------------------------------------------ literal *)
Lemma read_print_literal (p rest : bytes) :
  read_literal (print_literal p ++ rest) = Some (p, rest).
Proof.
  unfold print_literal, literal_prefix, read_literal.
  cbn [app]. rewrite <- !app_assoc. cbn [app].
  rewrite parse_number_print by reflexivity.
  rewrite Nat2N.id.
  assert (Hle : Nat.leb (length p) (length (p ++ rest)) = true).
  { apply Nat.leb_le. rewrite app_length. lia. }
  rewrite Hle. rewrite firstn_app, Nat.sub_diag, firstn_all. cbn [firstn]. rewrite app_nil_r.
  rewrite skipn_app, Nat.sub_diag, skipn_all. reflexivity.
Qed.

Lemma literal_len (p : bytes) :
  print_literal p = literal_prefix (N.of_nat (length p)) ++ p
  /\ parse_number (dec_of_N (N.of_nat (length p)) ++ [125%N; 13%N; 10%N] ++ p)
     = Some (N.of_nat (length p), [125%N; 13%N; 10%N] ++ p).
Proof.
  split; [reflexivity|]. apply parse_number_print. reflexivity.
Qed.

(* --------------------------------------------------- body structure *)
Section Structure.
  Variable d : bytes.

  Definition bs_go :=
    fix go (l : list content) : option (list bstruct) :=
      match l with
      | [] => Some []
      | s :: r => match body_structure d s, go r with
                  | Some b, Some bs => Some (b :: bs)
                  | _, _ => None
                  end
      end.

  Lemma bs_go_nth : forall subs bs j b,
    bs_go subs = Some bs -> nth_error bs j = Some b ->
    exists s, nth_error subs j = Some s /\ body_structure d s = Some b.
  Proof.
    induction subs as [|s r IH]; intros bs j b H Hn; cbn [bs_go] in H.
    - injection H as <-. destruct j; discriminate.
    - fold bs_go in H.
      destruct (body_structure d s) as [b0|] eqn:Eb; [|discriminate].
      destruct (bs_go r) as [bs0|] eqn:Er; [|discriminate].
      injection H as <-. destruct j as [|j]; cbn [nth_error] in *.
      + injection Hn as <-. exists s. auto.
      + eapply IH; eauto.
  Qed.

  Definition rfc_children (p : list nat) :=
    fix children (i : nat) (l : list bstruct) : list (list nat * nat) :=
      match l with
      | [] => []
      | s :: r => rfc_part (p ++ [i]) s ++ children (S i) r
      end.

  Lemma rfc_children_in q : forall bs i p n,
    In (p, n) (rfc_children q i bs) ->
    exists j b, nth_error bs j = Some b /\ In (p, n) (rfc_part (q ++ [i + j]) b).
  Proof.
    induction bs as [|b r IH]; intros i p n H; cbn [rfc_children] in H; [destruct H|].
    fold (rfc_children q) in H. apply in_app_or in H as [H|H].
    - exists 0, b. rewrite Nat.add_0_r. auto.
    - apply IH in H as (j & b' & Hn & Hin). exists (S j), b'.
      rewrite Nat.add_succ_r. auto.
  Qed.

  (* RFC 3501 numbering of the announced structure leads _get_subpart to the
     node whose size was announced.
     [node_ok s]: the parts listed for the structure of the node s, reached
     by the numbers q, are reached from s by the remaining numbers;
     [msg_ok e]: the parts of the message e (numbers starting with q) are
     reached with e as the container, whatever part was reached before. *)
  Definition node_ok (s : content) : Prop :=
    forall q b p n, body_structure d s = Some b -> In (p, n) (rfc_part q b) ->
    exists p' t, p = q ++ p' /\ walk (next_container s) s p' = Some t
                 /\ n = length (raw_of d t).

  Definition msg_ok (e : content) : Prop :=
    forall q b p n cur, body_structure d e = Some b -> In (p, n) (msg_parts q b) ->
    exists p' t, p = q ++ p' /\ p' <> [] /\ walk e cur p' = Some t
                 /\ n = length (raw_of d t).

  Lemma rfc_sound : forall c, wf d c -> node_ok c /\ msg_ok c.
  Proof.
    induction c as [hl bl k subs IH] using content_ind'.
    intros Hwf.
    inversion Hwf as [? ? ? ? Hrange Hshape Hsubs]; subst.
    assert (IH' : forall s, In s subs -> node_ok s /\ msg_ok s).
    { intros s Hs. rewrite Forall_forall in IH, Hsubs. apply IH; auto. }
    assert (Hnode : node_ok (Node hl bl k subs)).
    { intros q b p n Hb Hin. cbn [body_structure] in Hb. fold bs_go in Hb.
      destruct k as [| |bnd|].
      - injection Hb as <-. destruct Hin as [Hin|[]]. injection Hin as <- <-.
        exists [], (Node hl bl CtText subs). rewrite app_nil_r. repeat split.
      - injection Hb as <-. destruct Hin as [Hin|[]]. injection Hin as <- <-.
        exists [], (Node hl bl CtOther subs). rewrite app_nil_r. repeat split.
      - destruct subs as [|s0 subs'].
        + injection Hb as <-. destruct Hin as [Hin|[]]. injection Hin as <- <-.
          exists [], (Node hl bl (CtMulti bnd) []). rewrite app_nil_r. repeat split.
        + destruct (bs_go (s0 :: subs')) as [bs|] eqn:Eg; [|discriminate].
          cbn [option_map] in Hb. injection Hb as <-.
          cbn [rfc_part] in Hin. fold (rfc_children q) in Hin.
          apply rfc_children_in in Hin as (j & bj & Hnb & Hin).
          destruct (bs_go_nth _ _ _ _ Eg Hnb) as (s & Hns & Hbs).
          assert (Hs_in : In s (s0 :: subs')) by (eapply nth_error_In; eauto).
          destruct (proj1 (IH' s Hs_in) _ _ _ _ Hbs Hin) as (p' & t & Hp & Hw & Hn).
          exists ((1 + j) :: p'), t. repeat split.
          * rewrite Hp, <- app_assoc. reflexivity.
          * cbn [walk next_container is_rfc822 has_nested c_kind c_subs andb negb Nat.add].
            rewrite Hns. exact Hw.
          * exact Hn.
      - cbn [shape_ok] in Hshape. destruct Hshape as (e & ->).
        destruct (body_structure d e) as [be|] eqn:Ee; [|discriminate].
        cbn [option_map] in Hb. injection Hb as <-.
        cbn [rfc_part] in Hin. fold (msg_parts q be) in Hin.
        destruct Hin as [Hin|Hin].
        + injection Hin as <- <-.
          exists [], (Node hl bl CtRfc822 [e]). rewrite app_nil_r. repeat split.
        + destruct (proj2 (IH' e (or_introl eq_refl)) _ _ _ _ (Node hl bl CtRfc822 [e]) Ee Hin)
            as (p' & t & Hp & _ & Hw & Hn).
          exists p', t. repeat split; auto. }
    split; [exact Hnode|].
    intros q b p n cur Hb Hin.
    assert (Hb' := Hb). cbn [body_structure] in Hb. fold bs_go in Hb.
    assert (Hleaf : has_nested (Node hl bl k subs) && negb (is_rfc822 (Node hl bl k subs)) = false ->
                    (forall x, b <> BsMulti x) ->
                    exists p' t, p = q ++ p' /\ p' <> [] /\ walk (Node hl bl k subs) cur p' = Some t
                                 /\ n = length (raw_of d t)).
    { intros Hcond Hnm.
      assert (Hin' : In (p, n) (rfc_part (q ++ [1]) b)).
      { unfold msg_parts in Hin. destruct b; try exact Hin. exfalso. eapply Hnm. reflexivity. }
      destruct (Hnode _ _ _ _ Hb' Hin') as (p' & t & Hp & Hw & Hn).
      exists (1 :: p'), t. repeat split.
      - rewrite Hp, <- app_assoc. reflexivity.
      - discriminate.
      - cbn [walk]. rewrite Hcond. cbn [Nat.eqb]. exact Hw.
      - exact Hn. }
    destruct k as [| |bnd|].
    - cbn [shape_ok] in Hshape. subst subs.
      apply Hleaf; [reflexivity|]. injection Hb as <-. discriminate.
    - cbn [shape_ok] in Hshape. subst subs.
      apply Hleaf; [reflexivity|]. injection Hb as <-. discriminate.
    - destruct subs as [|s0 subs'].
      + apply Hleaf; [reflexivity|]. injection Hb as <-. discriminate.
      + destruct (bs_go (s0 :: subs')) as [bs|] eqn:Eg; [|discriminate].
        cbn [option_map] in Hb. injection Hb as <-.
        cbn [msg_parts rfc_part] in Hin. fold (rfc_children q) in Hin.
        apply rfc_children_in in Hin as (j & bj & Hnb & Hin).
        destruct (bs_go_nth _ _ _ _ Eg Hnb) as (s & Hns & Hbs).
        assert (Hs_in : In s (s0 :: subs')) by (eapply nth_error_In; eauto).
        destruct (proj1 (IH' s Hs_in) _ _ _ _ Hbs Hin) as (p' & t & Hp & Hw & Hn).
        exists ((1 + j) :: p'), t. repeat split.
        * rewrite Hp, <- app_assoc. reflexivity.
        * discriminate.
        * cbn [walk is_rfc822 has_nested c_kind c_subs andb negb Nat.add].
          rewrite Hns. exact Hw.
        * exact Hn.
    - cbn [shape_ok] in Hshape. destruct Hshape as (e & ->).
      apply Hleaf; [reflexivity|].
      destruct (body_structure d e); [|discriminate]. injection Hb as <-. discriminate.
  Qed.

  (* the octet clause in RFC numbering, on every tree, to any depth *)
  Lemma part_octets_rfc c b p n :
    wf d c -> body_structure d c = Some b -> In (p, n) (rfc_parts b) ->
    n = length (fetch_mime d c p) + length (fetch_body d c p).
  Proof.
    intros Hwf Hb Hin. unfold rfc_parts in Hin.
    destruct (proj2 (rfc_sound c Hwf) [] b p n c Hb Hin) as (p' & t & Hp & Hne & Hw & Hn).
    cbn [app] in Hp. subst p'.
    unfold fetch_mime, fetch_body, get_subpart. rewrite Hw.
    destruct p as [|i rest]; [congruence|]. subst n.
    rewrite (wf_raw_split d t), app_length; [reflexivity|].
    eapply walk_wf; [exact Hwf|exact Hwf|exact Hw].
  Qed.
End Structure.

(* ------------------------------------------------------------ COPY / MOVE *)
Lemma dict_copy_shares m u :
  dm_content (dict_copy m u) = dm_content m /\ dm_data (dict_copy m u) = dm_data m.
Proof. split; reflexivity. Qed.

Section MaildirProofs.
  Variable rd : bytes -> bytes.
  Hypothesis rd_id : forall x, rd x = x.

  Lemma md_append_load lit : md_load rd (md_append lit) = lit.
  Proof. unfold md_load, md_append. apply rd_id. Qed.

  Lemma md_copy_load lit : md_load rd (md_copy rd (md_append lit)) = lit.
  Proof. unfold md_load, md_copy, md_append. rewrite !rd_id. reflexivity. Qed.

  Lemma md_move_load lit : md_load rd (md_move (md_append lit)) = lit.
  Proof. unfold md_load, md_move, md_append. apply rd_id. Qed.
End MaildirProofs.

(* ------------------------------------------------------------------------ *)
(* The statements of Props/C03.v *)

Lemma st_parse_total d ct : exists c, parse d ct = Ok c.
Proof. apply parse_total. Qed.

Lemma st_content_verbatim d ct c : parse d ct = Ok c -> fetch_body d c [] = d.
Proof. apply fetch_body_full. Qed.

Lemma st_header_text_split d ct c :
  parse d ct = Ok c -> fetch_header d c [] ++ fetch_text d c [] = d.
Proof. apply header_text_split. Qed.

Lemma st_partial_slice d ct c o n :
  parse d ct = Ok c ->
  get_partial (fetch_body d c []) (Some (o, n)) = firstn n (skipn o d).
Proof. intro H. rewrite (fetch_body_full d ct c H). apply partial_slice. Qed.

Lemma st_rfc822_size d ct c : parse d ct = Ok c -> size_of d c = length d.
Proof. apply rfc822_size. Qed.

Lemma st_fetch_roundtrip d ct c o rest :
  parse d ct = Ok c ->
  read_literal (print_literal (get_partial (fetch_body d c []) o) ++ rest)
  = Some (match o with None => d | Some (a, n) => firstn n (skipn a d) end, rest).
Proof.
  intro H. rewrite read_print_literal. rewrite (fetch_body_full d ct c H).
  destruct o as [[a n]|]; [rewrite partial_slice|]; reflexivity.
Qed.

Lemma st_part_octets d ct c b p n :
  parse d ct = Ok c -> body_structure d c = Some b -> In (p, n) (rfc_parts b) ->
  n = length (fetch_mime d c p) + length (fetch_body d c p).
Proof. intros H. apply part_octets_rfc. eapply parse_wf; eauto. Qed.

Lemma st_part_octets_no_header d ct c b p n :
  parse d ct = Ok c -> body_structure d c = Some b -> In (p, n) (rfc_parts b) ->
  fetch_mime d c p = [] -> n = length (fetch_body d c p).
Proof.
  intros H Hb Hin Hm. rewrite (st_part_octets d ct c b p n H Hb Hin), Hm. reflexivity.
Qed.

Lemma st_part_octets_walk d ct c p s n :
  parse d ct = Ok c -> p <> [] -> get_subpart c p = Some s ->
  node_announced d s = Some n ->
  n = length (fetch_mime d c p) + length (fetch_body d c p).
Proof. intro H. apply part_octets_walk. eapply parse_wf; eauto. Qed.

(* "a:b\n\nc" : announced 6 octets for part 1, BODY[1] is 1 octet *)
Definition wit_hdr : bytes := [97; 58; 98; 10; 10; 99]%N.

Lemma st_part_octets_refuted :
  exists d ct c b p n,
    parse d ct = Ok c /\ body_structure d c = Some b
    /\ In (p, n) (rfc_parts b) /\ n <> length (fetch_body d c p).
Proof.
  exists wit_hdr, (fun _ => CtText). eexists. eexists. exists [1], 6.
  split; [vm_compute; reflexivity|].
  split; [vm_compute; reflexivity|].
  split; [left; reflexivity|]. vm_compute. discriminate.
Qed.

(* ---- line counts: what is announced is the number of LF octets of the whole
   message (header included), not the number of lines of BODY[1] *)
Lemma st_lines_top d ct c :
  parse d ct = Ok c -> lines_of c = Z.of_nat (count_lf d).
Proof.
  intro H. unfold lines_of. rewrite <- app_length, (parse_root d ct c H).
  rewrite find_lines_length. unfold count_lf. lia.
Qed.

(* "a:b\n\nc\n": 3 lines announced for the text part 1, BODY[1] = "c\n" has 1 *)
Definition wit_lines : bytes := [97; 58; 98; 10; 10; 99; 10]%N.

Lemma st_lines_refuted :
  exists d ct c n l,
    parse d ct = Ok c /\ body_structure d c = Some (BsText n l)
    /\ l <> Z.of_nat (count_lf (fetch_body d c [1])).
Proof.
  exists wit_lines, (fun _ => CtText). eexists. eexists. eexists.
  split; [vm_compute; reflexivity|].
  split; [vm_compute; reflexivity|]. vm_compute. discriminate.
Qed.

(* ---- RFC822 / RFC822.HEADER / RFC822.TEXT *)
Lemma st_rfc822_aliases d ct c :
  parse d ct = Ok c ->
  fetch_rfc822 d c = d /\ fetch_rfc822_header d c = fetch_header d c []
  /\ fetch_rfc822_text d c = fetch_text d c []
  /\ fetch_rfc822_header d c ++ fetch_rfc822_text d c = d.
Proof.
  intro H. split; [apply fetch_body_full with ct; exact H|].
  split; [reflexivity|]. split; [reflexivity|]. apply header_text_split with ct. exact H.
Qed.

(* ---- BINARY[..] / BINARY.SIZE[..] for identity encodings *)
Lemma st_binary_full d ct identity c :
  parse d ct = Ok c -> identity c = true ->
  fetch_binary d identity c [] = Some d /\ binary_size d identity c [] = Some (length d).
Proof.
  intros H Hi. unfold binary_size, fetch_binary, get_subpart. cbn [walk]. rewrite Hi.
  rewrite <- (wf_raw_split d c (parse_wf d ct c H)), (content_verbatim d ct c H).
  split; reflexivity.
Qed.

Lemma st_binary_part d identity c p s :
  p <> [] -> get_subpart c p = Some s -> identity s = true ->
  fetch_binary d identity c p = Some (fetch_body d c p)
  /\ binary_size d identity c p = Some (length (fetch_body d c p)).
Proof.
  intros Hp Hs Hi. unfold binary_size, fetch_binary, fetch_body. rewrite Hs, Hi.
  destruct p; [congruence|]. split; reflexivity.
Qed.

Lemma read_print_literal8 (p rest : bytes) :
  read_literal8 (print_literal8 p ++ rest) = Some (p, rest).
Proof. unfold print_literal8, read_literal8. cbn [app]. apply read_print_literal. Qed.

(* "C:m\n\nS:i\n\nx" with the outer header deciding message/rfc822: part 1 is
   the enclosed message (6 octets), part 1.1 its body *)
Definition wit_rfc : bytes := [67; 58; 109; 10; 10; 83; 58; 105; 10; 10; 120]%N.
Definition wit_rfc_ct (hl : list line) : ctype :=
  match hl with
  | l :: _ => if Nat.eqb (l_start l) 0 then CtRfc822 else CtText
  | [] => CtText
  end.

Lemma ex_rfc_ok :
  exists c b, parse wit_rfc wit_rfc_ct = Ok c /\ body_structure wit_rfc c = Some b
    /\ rfc_parts b = [([1], 11); ([1; 1], 6)]
    /\ fetch_mime wit_rfc c [1] = [67; 58; 109; 10; 10]%N
    /\ fetch_body wit_rfc c [1] = [83; 58; 105; 10; 10; 120]%N
    /\ fetch_header wit_rfc c [1] = [83; 58; 105; 10; 10]%N
    /\ fetch_text wit_rfc c [1] = [120]%N
    /\ fetch_mime wit_rfc c [1; 1] = [83; 58; 105; 10; 10]%N
    /\ fetch_body wit_rfc c [1; 1] = [120]%N.
Proof.
  eexists. eexists. split; [vm_compute; reflexivity|].
  split; [vm_compute; reflexivity|].
  repeat split; vm_compute; reflexivity.
Qed.

Lemma st_maildir_verbatim (rd : bytes -> bytes) :
  (forall x, rd x = x) ->
  forall lit, md_load rd (md_append lit) = lit
              /\ md_load rd (md_copy rd (md_append lit)) = lit
              /\ md_load rd (md_move (md_append lit)) = lit.
Proof.
  intros H lit.
  split; [apply md_append_load; exact H|].
  split; [apply md_copy_load; exact H|apply md_move_load; exact H].
Qed.

(* the hypotheses of st_part_octets hold of non-trivial messages: a
   multipart/mixed with two parts, the second one without a header *)
Definition ex_multi : bytes :=
  [67;58;109;10;10; 45;45;98;10; 88;58;49;10;10;104;105;10; 45;45;98;10; 121;10; 45;45;98;45;45;10]%N.
Definition ex_multi_ct (hl : list line) : ctype :=
  match hl with
  | l :: _ => if Nat.eqb (l_start l) 0 then CtMulti [98%N] else CtText
  | [] => CtText
  end.

Lemma ex_multi_ok :
  exists c, parse ex_multi ex_multi_ct = Ok c
            /\ body_structure ex_multi c = Some (BsMulti [BsText 8 2%Z; BsText 2 0%Z])
            /\ rfc_parts (BsMulti [BsText 8 2%Z; BsText 2 0%Z]) = [([1], 8); ([2], 2)]
            /\ fetch_body ex_multi c [1] = [104; 105; 10]%N
            /\ fetch_mime ex_multi c [2] = []
            /\ fetch_body ex_multi c [2] = [121; 10]%N.
Proof.
  eexists. split; [vm_compute; reflexivity|].
  repeat split; vm_compute; reflexivity.
Qed.
