(* Mime/LinesProofs.v — proofs about the line index (Mime/Lines.v). *)
From PV Require Import Base.Prelude Mime.Lines.
From Coq Require Import Lia.

(* ------------------------------------------------------------------ slices *)
Lemma slice_full (d : bytes) : slice d 0 (length d) = d.
Proof. unfold slice. rewrite Nat.sub_0_r. cbn [skipn]. apply firstn_all. Qed.

Lemma slice_empty (d : bytes) a : slice d a a = [].
Proof. unfold slice. rewrite Nat.sub_diag. reflexivity. Qed.

Lemma firstn_add {A} (l : list A) : forall n k,
  firstn (n + k) l = firstn n l ++ firstn k (skipn n l).
Proof.
  induction l as [|x l IH]; intros [|n] k; cbn [Nat.add firstn skipn app]; try reflexivity.
  - destruct k; reflexivity.
  - rewrite IH. reflexivity.
Qed.

Lemma skipn_skipn {A} (x y : nat) (l : list A) : skipn x (skipn y l) = skipn (x + y) l.
Proof.
  revert l; induction y as [|y IH]; intros l.
  - rewrite Nat.add_0_r. reflexivity.
  - destruct l as [|a l].
    + rewrite !skipn_nil. reflexivity.
    + rewrite Nat.add_succ_r. cbn [skipn]. apply IH.
Qed.

Lemma slice_app (d : bytes) a m b :
  a <= m -> m <= b -> b <= length d ->
  slice d a m ++ slice d m b = slice d a b.
Proof.
  intros Ham Hmb Hbd. unfold slice.
  replace (b - a) with ((m - a) + (b - m)) by lia.
  rewrite firstn_add. rewrite skipn_skipn.
  replace (m - a + a) with m by lia. reflexivity.
Qed.

Lemma slice_length (d : bytes) a b :
  a <= b -> b <= length d -> length (slice d a b) = b - a.
Proof. intros. unfold slice. rewrite firstn_length, skipn_length. lia. Qed.

(* ------------------------------------------------------------------ chains *)
(* [chain a ls b]: the lines tile the offsets a..b without gap or overlap,
   each with start <= end <= next *)
Fixpoint chain (a : nat) (ls : list line) (b : nat) : Prop :=
  match ls with
  | [] => a = b
  | l :: r => l_start l = a /\ a <= l_end l /\ l_end l <= l_next l /\ chain (l_next l) r b
  end.

Lemma chain_le a ls b : chain a ls b -> a <= b.
Proof.
  revert a; induction ls as [|l r IH]; intros a H; cbn [chain] in H.
  - lia.
  - destruct H as (_ & H1 & H2 & H3). apply IH in H3. lia.
Qed.

Lemma chain_app a l1 l2 b :
  chain a (l1 ++ l2) b <-> exists m, chain a l1 m /\ chain m l2 b.
Proof.
  revert a; induction l1 as [|l r IH]; intros a; cbn [app chain].
  - split.
    + intro H. exists a. split; [reflexivity|exact H].
    + intros (m & -> & H). exact H.
  - split.
    + intros (H0 & H1 & H2 & H3). apply IH in H3 as (m & Hm1 & Hm2).
      exists m. repeat split; assumption.
    + intros (m & (H0 & H1 & H2 & H3) & Hm). repeat split; try assumption.
      apply IH. exists m. split; assumption.
Qed.

Lemma chain_span a l r b :
  chain a (l :: r) b -> span_of (l :: r) = (a, b).
Proof.
  cbn [span_of chain]. intros (H0 & _ & _ & H3). rewrite H0. f_equal.
  clear H0. revert l H3. induction r as [|l' r IH]; intros l H3; cbn [last_next chain] in *.
  - exact H3.
  - destruct H3 as (H0 & _ & _ & H4). apply IH. exact H4.
Qed.

(* the bytes selected by get_raw for a chain are exactly data[a:b] *)
Lemma get_raw_chain (d : bytes) a ls b :
  chain a ls b -> let (x, y) := span_of ls in slice d x y = slice d a b.
Proof.
  destruct ls as [|l r]; intro H.
  - cbn [chain] in H. subst b. cbn [span_of]. rewrite !slice_empty. reflexivity.
  - rewrite (chain_span _ _ _ _ H). reflexivity.
Qed.

(* concatenating the spans (start..next) of a chain gives data[a:b] *)
Definition line_span (d : bytes) (l : line) : bytes := slice d (l_start l) (l_next l).

Lemma concat_spans_chain (d : bytes) ls : forall a b,
  chain a ls b -> b <= length d ->
  concat (map (line_span d) ls) = slice d a b.
Proof.
  induction ls as [|l r IH]; intros a b H Hb; cbn [chain map concat] in *.
  - subst b. rewrite slice_empty. reflexivity.
  - destruct H as (H0 & H1 & H2 & H3).
    rewrite (IH _ _ H3 Hb). unfold line_span. rewrite H0.
    apply slice_app; [lia| apply chain_le in H3; lia | exact Hb].
Qed.

(* ------------------------------------------------------------- find_lines *)
Lemma find_lines_from_chain r : forall st pos pc,
  st <= pos -> (pc = true -> st < pos) ->
  chain st (find_lines_from st pos pc r) (pos + length r).
Proof.
  induction r as [|c r IH]; intros st pos pc Hle Hpc; cbn [find_lines_from length].
  - cbn [chain l_start l_end l_next]. repeat split; lia.
  - destruct (N.eqb c LF) eqn:E.
    + cbn [chain l_start l_end l_next]. split; [reflexivity|].
      assert (IH' := IH (S pos) (S pos) false (le_n _) (fun H => False_ind _ (Bool.diff_false_true H))).
      replace (pos + S (length r)) with (S pos + length r) by lia.
      destruct pc.
      * specialize (Hpc eq_refl). repeat split; try lia. exact IH'.
      * repeat split; try lia. exact IH'.
    + replace (pos + S (length r)) with (S pos + length r) by lia.
      apply IH; [lia|]. intros _. lia.
Qed.

Lemma find_lines_chain (d : bytes) : chain 0 (find_lines d) (length d).
Proof.
  unfold find_lines.
  apply (find_lines_from_chain d 0 0 false (le_n _)). intro H; discriminate.
Qed.

Lemma find_lines_from_nonempty r st pos pc : find_lines_from st pos pc r <> [].
Proof.
  revert st pos pc; induction r as [|c r IH]; intros st pos pc; cbn [find_lines_from].
  - discriminate.
  - destruct (N.eqb c LF); [discriminate|apply IH].
Qed.

(* every line found: its text data[start:end] contains no LF, and its
   terminator data[end:next] is LF, CR LF, or empty for the final line *)
Definition good_term (t : bytes) : Prop := t = [] \/ t = [LF] \/ t = [CR; LF].

Lemma skipn_app_exact {A} (pre r : list A) : skipn (length pre) (pre ++ r) = r.
Proof. induction pre; cbn; auto. Qed.

Lemma slice_app_r (pre r : bytes) a b :
  length pre <= a -> slice (pre ++ r) a b = slice r (a - length pre) (b - length pre).
Proof.
  intro H. unfold slice.
  replace (skipn a (pre ++ r)) with (skipn (a - length pre) (skipn (length pre) (pre ++ r))).
  - rewrite skipn_app_exact. f_equal. lia.
  - rewrite skipn_skipn. f_equal. lia.
Qed.

Lemma find_lines_from_terms r : forall pre st pc,
  st <= length pre ->
  (pc = true -> st < length pre /\ slice pre (length pre - 1) (length pre) = [CR]) ->
  (pc = false -> st < length pre -> slice pre (length pre - 1) (length pre) <> [CR]) ->
  ~ In LF (slice pre st (length pre)) ->
  Forall (fun l => ~ In LF (slice (pre ++ r) (l_start l) (l_end l))
                   /\ good_term (slice (pre ++ r) (l_end l) (l_next l)))
         (find_lines_from st (length pre) pc r).
Proof.
  induction r as [|c r IH]; intros pre st pc Hst Hpc1 Hpc0 Hno; cbn [find_lines_from].
  - constructor; [|constructor]. cbn [l_start l_end l_next]. rewrite app_nil_r. split.
    + exact Hno.
    + left. apply slice_empty.
  - destruct (N.eqb c LF) eqn:E.
    + apply N.eqb_eq in E. subst c. constructor.
      * cbn [l_start l_end l_next]. destruct pc.
        -- destruct (Hpc1 eq_refl) as (Hlt & Hcr). split.
           ++ intro Hin. apply Hno.
              assert (Hs : slice (pre ++ LF :: r) st (length pre - 1) = slice pre st (length pre - 1)).
              { unfold slice. rewrite skipn_app. rewrite firstn_app.
                replace (length pre - 1 - st - length (skipn st pre)) with 0
                  by (rewrite skipn_length; lia).
                cbn [firstn]. rewrite app_nil_r. reflexivity. }
              rewrite Hs in Hin.
              rewrite <- (slice_app pre st (length pre - 1) (length pre)) by lia.
              apply in_or_app. left. exact Hin.
           ++ right; right.
              rewrite <- (slice_app (pre ++ LF :: r) (length pre - 1) (length pre) (S (length pre)))
                by (try rewrite app_length; cbn [length]; lia).
              assert (H1 : slice (pre ++ LF :: r) (length pre - 1) (length pre) = [CR]).
              { rewrite <- Hcr. unfold slice. rewrite skipn_app, firstn_app.
                replace (length pre - (length pre - 1) - length (skipn (length pre - 1) pre)) with 0
                  by (rewrite skipn_length; lia).
                cbn [firstn]. rewrite app_nil_r. reflexivity. }
              rewrite H1.
              rewrite slice_app_r by lia. rewrite Nat.sub_diag.
              replace (S (length pre) - length pre) with 1 by lia. reflexivity.
        -- split.
           ++ intro Hin. apply Hno.
              assert (Hs : slice (pre ++ LF :: r) st (length pre) = slice pre st (length pre)).
              { unfold slice. rewrite skipn_app, firstn_app.
                replace (length pre - st - length (skipn st pre)) with 0
                  by (rewrite skipn_length; lia).
                cbn [firstn]. rewrite app_nil_r. reflexivity. }
              rewrite Hs in Hin. exact Hin.
           ++ right; left. rewrite slice_app_r by lia. rewrite Nat.sub_diag.
              replace (S (length pre) - length pre) with 1 by lia. reflexivity.
      * replace (pre ++ LF :: r) with ((pre ++ [LF]) ++ r) by (rewrite <- app_assoc; reflexivity).
        replace (S (length pre)) with (length (pre ++ [LF])) by (rewrite app_length; cbn; lia).
        apply IH.
        -- lia.
        -- intro H; discriminate.
        -- intros _ H; lia.
        -- rewrite slice_empty. intros [].
    + replace (pre ++ c :: r) with ((pre ++ [c]) ++ r) by (rewrite <- app_assoc; reflexivity).
      replace (S (length pre)) with (length (pre ++ [c])) by (rewrite app_length; cbn; lia).
      assert (Hlast : slice (pre ++ [c]) (length (pre ++ [c]) - 1) (length (pre ++ [c])) = [c]).
      { rewrite app_length. cbn [length]. replace (length pre + 1 - 1) with (length pre) by lia.
        rewrite slice_app_r by lia. rewrite Nat.sub_diag.
        replace (length pre + 1 - length pre) with 1 by lia. reflexivity. }
      apply IH.
      * rewrite app_length; cbn; lia.
      * intro Hc. apply N.eqb_eq in Hc. subst c. split.
        -- rewrite app_length; cbn; lia.
        -- exact Hlast.
      * intros Hc _. rewrite Hlast. intro Heq. injection Heq as Heq.
        apply N.eqb_neq in Hc. congruence.
      * intro Hin.
        assert (Hsp : slice (pre ++ [c]) st (length (pre ++ [c]))
                      = slice pre st (length pre) ++ [c]).
        { rewrite app_length. cbn [length].
          rewrite <- (slice_app (pre ++ [c]) st (length pre) (length pre + 1))
            by (try rewrite app_length; cbn [length]; lia).
          f_equal.
          - unfold slice. rewrite skipn_app, firstn_app.
            replace (length pre - st - length (skipn st pre)) with 0
              by (rewrite skipn_length; lia).
            cbn [firstn]. rewrite app_nil_r. reflexivity.
          - rewrite slice_app_r by lia. rewrite Nat.sub_diag.
            replace (length pre + 1 - length pre) with 1 by lia. reflexivity. }
        rewrite Hsp in Hin. apply in_app_or in Hin as [Hin|Hin].
        -- exact (Hno Hin).
        -- cbn in Hin. destruct Hin as [Hin|[]]. subst c. apply N.eqb_neq in E. congruence.
Qed.

Lemma find_lines_terms (d : bytes) :
  Forall (fun l => ~ In LF (slice d (l_start l) (l_end l))
                   /\ good_term (slice d (l_end l) (l_next l)))
         (find_lines d).
Proof.
  unfold find_lines.
  apply (find_lines_from_terms d [] 0 false).
  - cbn; lia.
  - intro H; discriminate.
  - cbn. intros _ H; lia.
  - cbn. intros [].
Qed.

(* ------------------------------------------------------------ split_lines *)
Lemma split_at_blank_app d ls h b :
  split_at_blank d ls = Some (h, b) -> h ++ b = ls /\ h <> [].
Proof.
  revert h b; induction ls as [|l r IH]; intros h b H; cbn [split_at_blank] in H.
  - discriminate.
  - destruct (line_blank d l).
    + injection H as <- <-. split; [reflexivity|discriminate].
    + destruct (split_at_blank d r) as [[h' b']|] eqn:E; [|discriminate].
      injection H as <- <-. destruct (IH _ _ eq_refl) as (IH1 & _).
      split; [cbn; rewrite IH1; reflexivity|discriminate].
Qed.

Lemma split_lines_app d ls :
  fst (split_lines d ls) ++ snd (split_lines d ls) = ls.
Proof.
  unfold split_lines. destruct (split_at_blank d ls) as [[h b]|] eqn:E.
  - apply split_at_blank_app in E as (E & _). exact E.
  - reflexivity.
Qed.

(* the header, when there is one, ends with the first blank line and no
   earlier line is blank; without a blank line everything is body *)
Lemma split_at_blank_spec d ls h b :
  split_at_blank d ls = Some (h, b) ->
  exists h0 l, h = h0 ++ [l] /\ line_blank d l = true /\ forallb (fun x => negb (line_blank d x)) h0 = true.
Proof.
  revert h b; induction ls as [|l r IH]; intros h b H; cbn [split_at_blank] in H.
  - discriminate.
  - destruct (line_blank d l) eqn:Eb.
    + injection H as <- <-. exists [], l. repeat split; auto.
    + destruct (split_at_blank d r) as [[h' b']|] eqn:E; [|discriminate].
      injection H as <- <-. destruct (IH _ _ eq_refl) as (h0 & l0 & -> & Hb & Hn).
      exists (l :: h0), l0. repeat split; auto. cbn [forallb]. rewrite Eb. exact Hn.
Qed.

Lemma split_at_blank_none d ls :
  split_at_blank d ls = None -> forallb (fun x => negb (line_blank d x)) ls = true.
Proof.
  induction ls as [|l r IH]; cbn [split_at_blank forallb]; intro H; [reflexivity|].
  destruct (line_blank d l); [discriminate|].
  destruct (split_at_blank d r) as [[h' b']|]; [discriminate|]. cbn. auto.
Qed.

(* ------------------------------------------------------------- find_parts *)
(* every part is a contiguous run of the lines scanned *)
Lemma parts_in_chain d bnd ls : forall a b,
  chain a ls b ->
  (exists m, a <= m /\ m <= b /\ chain a (fst (parts_in d bnd ls)) m)
  /\ Forall (fun p => exists a' b', a <= a' /\ b' <= b /\ chain a' p b')
            (snd (parts_in d bnd ls)).
Proof.
  induction ls as [|l r IH]; intros a b H; cbn [parts_in].
  - cbn [fst snd]. split; [|constructor]. exists a. cbn [chain] in *. repeat split; lia.
  - assert (Hab := chain_le _ _ _ H).
    cbn [chain] in H. destruct H as (H0 & H1 & H2 & H3).
    assert (Hnb := chain_le _ _ _ H3).
    destruct (line_is d (stop_marker bnd) l).
    + cbn [fst snd]. split; [|constructor]. exists a. cbn [chain]. repeat split; lia.
    + destruct (IH _ _ H3) as ((m & Hm1 & Hm2 & Hm3) & HF).
      destruct (line_is d (part_marker bnd) l).
      * destruct (parts_in d bnd r) as [c ps]. cbn [fst snd] in *. split.
        -- exists a. cbn [chain]. repeat split; lia.
        -- constructor.
           ++ exists (l_next l), m. repeat split; try lia. exact Hm3.
           ++ eapply Forall_impl; [|exact HF]. cbn beta.
              intros p (a' & b' & Ha & Hb & Hc). exists a', b'. repeat split; try lia. exact Hc.
      * destruct (parts_in d bnd r) as [c ps]. cbn [fst snd] in *. split.
        -- exists m. repeat split; try lia. cbn [chain]. repeat split; try lia. exact Hm3.
        -- eapply Forall_impl; [|exact HF]. cbn beta.
           intros p (a' & b' & Ha & Hb & Hc). exists a', b'. repeat split; try lia. exact Hc.
Qed.

Lemma find_parts_chain d bnd ls : forall a b,
  chain a ls b ->
  Forall (fun p => exists a' b', a <= a' /\ b' <= b /\ chain a' p b') (find_parts d bnd ls).
Proof.
  induction ls as [|l r IH]; intros a b H; cbn [find_parts].
  - constructor.
  - assert (Hab := chain_le _ _ _ H).
    cbn [chain] in H. destruct H as (H0 & H1 & H2 & H3).
    assert (Hnb := chain_le _ _ _ H3).
    destruct (line_is d (stop_marker bnd) l); [constructor|].
    destruct (line_is d (part_marker bnd) l).
    + destruct (parts_in_chain d bnd r _ _ H3) as ((m & Hm1 & Hm2 & Hm3) & HF).
      destruct (parts_in d bnd r) as [c ps]. cbn [fst snd] in *. constructor.
      * exists (l_next l), m. repeat split; try lia. exact Hm3.
      * eapply Forall_impl; [|exact HF]. cbn beta.
        intros p (a' & b' & Ha & Hb & Hc). exists a', b'. repeat split; try lia. exact Hc.
    + eapply Forall_impl; [|exact (IH _ _ H3)]. cbn beta.
      intros p (a' & b' & Ha & Hb & Hc). exists a', b'. repeat split; try lia. exact Hc.
Qed.

(* every part is no longer than the list scanned *)
Lemma parts_in_length d bnd ls :
  length (fst (parts_in d bnd ls)) <= length ls
  /\ Forall (fun p => length p <= length ls) (snd (parts_in d bnd ls)).
Proof.
  induction ls as [|l r IH]; cbn [parts_in].
  - cbn. split; [lia|constructor].
  - destruct IH as (IH1 & IH2).
    destruct (line_is d (stop_marker bnd) l).
    + cbn. split; [lia|constructor].
    + destruct (line_is d (part_marker bnd) l); destruct (parts_in d bnd r) as [c ps];
        cbn [fst snd length] in *.
      * split; [lia|]. constructor; [lia|].
        eapply Forall_impl; [|exact IH2]. cbn beta. intros; lia.
      * split; [lia|]. eapply Forall_impl; [|exact IH2]. cbn beta. intros; lia.
Qed.

Lemma find_parts_length d bnd ls :
  Forall (fun p => length p <= length ls) (find_parts d bnd ls).
Proof.
  induction ls as [|l r IH]; cbn [find_parts]; [constructor|].
  destruct (line_is d (stop_marker bnd) l); [constructor|].
  destruct (line_is d (part_marker bnd) l).
  - destruct (parts_in_length d bnd r) as (H1 & H2).
    destruct (parts_in d bnd r) as [c ps]. cbn [fst snd length] in *.
    constructor; [lia|]. eapply Forall_impl; [|exact H2]. cbn beta. intros; lia.
  - eapply Forall_impl; [|exact IH]. cbn beta. intros; cbn [length]; lia.
Qed.

(* ------------------------------------------------------------ lines_cover *)
Lemma lines_cover (d : bytes) :
  chain 0 (find_lines d) (length d)
  /\ concat (map (line_span d) (find_lines d)) = d
  /\ Forall (fun l => ~ In LF (slice d (l_start l) (l_end l))
                      /\ good_term (slice d (l_end l) (l_next l)))
            (find_lines d).
Proof.
  split; [apply find_lines_chain|]. split; [|apply find_lines_terms].
  rewrite (concat_spans_chain d _ 0 (length d) (find_lines_chain d) (le_n _)).
  apply slice_full.
Qed.

(* ----------------------------------------------------- number of lines *)
Lemma find_lines_from_length r : forall st pos pc,
  length (find_lines_from st pos pc r) = S (length (filter (N.eqb LF) r)).
Proof.
  induction r as [|c r IH]; intros st pos pc; cbn [find_lines_from filter length].
  - reflexivity.
  - rewrite (N.eqb_sym LF c). destruct (N.eqb c LF); cbn [length]; rewrite IH; reflexivity.
Qed.

Lemma find_lines_length (d : bytes) :
  length (find_lines d) = S (length (filter (N.eqb LF) d)).
Proof. apply find_lines_from_length. Qed.
