(* Mime/Fields.v — BODY[HEADER.FIELDS (..)] / BODY[HEADER.FIELDS.NOT (..)]:
   definitions only.

   Models (current tree):
     pymap/mime/__init__.py  MessageHeader._find_folds, _find_folded, folded
     pymap/message.py        BaseLoadedMessage.get_message_headers(subset, inverse)
     pymap/parsing/specials/fetchattr.py  Section: header names upper-cased *)
From PV Require Import Base.Prelude Mime.Lines Mime.Parts.

(* data[start] in whitespace, for a line of length >= 1 *)
Definition starts_ws (d : bytes) (l : line) : bool :=
  match slice d (l_start l) (l_end l) with
  | c :: _ => is_ws c
  | [] => false
  end.

(* _find_folds on the lines given (the caller drops the last header line):
   a line that starts with white space continues the group before it, and
   is dropped when there is none; any other line opens a group.
   [folds_in] returns the continuation lines met before the first opener and
   the groups. *)
Fixpoint folds_in (d : bytes) (ls : list line) : list line * list (list line) :=
  match ls with
  | [] => ([], [])
  | l :: r =>
    let (c, gs) := folds_in d r in
    if starts_ws d l then (l :: c, gs) else ([], (l :: c) :: gs)
  end.

Definition find_folds (d : bytes) (hl : list line) : list (list line) :=
  snd (folds_in d (removelast hl)).

(* bytes.find(b':'), bytes.strip(), bytes.lower(), bytes.upper() *)
Fixpoint index_of (x : N) (b : bytes) : option nat :=
  match b with
  | [] => None
  | c :: r => if N.eqb c x then Some 0
              else match index_of x r with Some k => Some (S k) | None => None end
  end.

Fixpoint drop_ws (b : bytes) : bytes :=
  match b with
  | c :: r => if is_ws c then drop_ws r else b
  | [] => []
  end.
Definition strip (b : bytes) : bytes := rev (drop_ws (rev (drop_ws b))).

Definition lower_byte (c : N) : N := if (65 <=? c)%N && (c <=? 90)%N then (c + 32)%N else c.
Definition upper_byte (c : N) : N := if (97 <=? c)%N && (c <=? 122)%N then (c - 32)%N else c.
Definition lower (b : bytes) : bytes := map lower_byte b.
Definition upper (b : bytes) : bytes := map upper_byte b.

(* _find_folded: groups whose first line has a colon, with the field name
   (stripped, lower case) *)
Definition group_name (d : bytes) (g : list line) : option bytes :=
  match g with
  | [] => None
  | l :: _ =>
    let text := slice d (l_start l) (l_end l) in
    match index_of 58%N text with
    | Some k => Some (lower (strip (firstn k text)))
    | None => None
    end
  end.

Fixpoint find_folded (d : bytes) (gs : list (list line)) : list (bytes * list line) :=
  match gs with
  | [] => []
  | g :: r => match group_name d g with
              | Some n => (n, g) :: find_folded d r
              | None => find_folded d r
              end
  end.

Definition folded_of (d : bytes) (c : content) : list (bytes * list line) :=
  find_folded d (find_folds d (c_hl c)).

Definition mem_bytes (x : bytes) (l : list bytes) : bool := existsb (bytes_eqb x) l.

(* the groups selected by a request: [subset] as sent (Section upper-cases
   the names), [inverse] for HEADER.FIELDS.NOT *)
Definition select_fields (subset : list bytes) (inverse : bool)
           (fs : list (bytes * list line)) : list (list line) :=
  map snd (filter (fun kg => xorb inverse (mem_bytes (upper (fst kg)) (map upper subset))) fs).

Definition fields_of (d : bytes) (subset : list bytes) (inverse : bool) (m : content) : bytes :=
  concat (map (fun g => get_raw d [g]) (select_fields subset inverse (folded_of d m)))
  ++ [13%N; 10%N].

(* get_message_headers(section, subset, inverse) *)
Definition fetch_fields (d : bytes) (c : content) (section : list nat)
           (subset : list bytes) (inverse : bool) : bytes :=
  match section with
  | [] => fields_of d subset inverse c
  | _ => match get_subpart c section with
         | Some s => if is_rfc822 s
                     then match c_subs s with
                          | m :: _ => fields_of d subset inverse m
                          | [] => []
                          end
                     else []
         | None => []
         end
  end.
