(* Mime/Lines.v — the line index of pymap/mime: definitions only.

   Models (pymap/mime/__init__.py, pymap/mime/_util.py, current tree):
     MessageContent._find_lines   -> find_lines
     find_any(data, whitespace, start, end, False, False) < 0  -> line_blank
     MessageContent._split_lines  -> split_lines
     get_raw(view, *groups)       -> get_raw       (as fixed: empty groups are skipped)
     MessageBody._find_parts      -> find_parts    (boundary supplied as data)

   A line is the triple (start, end, next) of offsets into the literal:
   data[start:end] is the line without its terminator, data[end:next] the
   terminator (LF, CRLF, or nothing for the last line). *)
From PV Require Import Base.Prelude.

Record line : Type := Line { l_start : nat; l_end : nat; l_next : nat }.

Definition line_eqb (a b : line) : bool :=
  Nat.eqb (l_start a) (l_start b) && Nat.eqb (l_end a) (l_end b)
  && Nat.eqb (l_next a) (l_next b).

(* Python  d[a:b]  for 0 <= a, 0 <= b *)
Definition slice (d : bytes) (a b : nat) : bytes := firstn (b - a) (skipn a d).

Definition LF : N := 10%N.
Definition CR : N := 13%N.

(* _find_lines: [st] start of the current line, [pos] offset of the head of
   [r], [prev_cr] = (pos-1 >= st and data[pos-1] = CR). *)
Fixpoint find_lines_from (st pos : nat) (prev_cr : bool) (r : bytes) : list line :=
  match r with
  | [] => [Line st pos pos]
  | c :: r' =>
    if N.eqb c LF
    then Line st (if prev_cr then pos - 1 else pos) (S pos)
         :: find_lines_from (S pos) (S pos) false r'
    else find_lines_from st (S pos) (N.eqb c CR) r'
  end.

Definition find_lines (d : bytes) : list line := find_lines_from 0 0 false d.

(* whitespace = frozenset(b' \t\n\r\x0b\f') *)
Definition is_ws (c : N) : bool :=
  N.eqb c 32 || N.eqb c 9 || N.eqb c 10 || N.eqb c 13 || N.eqb c 11 || N.eqb c 12.

(* find_any(...) < 0 : the line consists of whitespace only (or is empty) *)
Definition line_blank (d : bytes) (l : line) : bool :=
  forallb is_ws (slice d (l_start l) (l_end l)).

(* _split_lines: the header is everything up to and including the first
   blank line; without a blank line the header is empty. *)
Fixpoint split_at_blank (d : bytes) (ls : list line) : option (list line * list line) :=
  match ls with
  | [] => None
  | l :: r =>
    if line_blank d l then Some ([l], r)
    else match split_at_blank d r with
         | Some (h, b) => Some (l :: h, b)
         | None => None
         end
  end.

Definition split_lines (d : bytes) (ls : list line) : list line * list line :=
  match split_at_blank d ls with
  | Some p => p
  | None => ([], ls)
  end.

(* get_raw(view, *groups): from the start of the first line of the first
   non-empty group to the `next` of the last line of the last non-empty
   group; the empty view when every group is empty. *)
Fixpoint last_next (l : line) (ls : list line) : nat :=
  match ls with
  | [] => l_next l
  | l' :: r => last_next l' r
  end.

Definition span_of (ls : list line) : nat * nat :=
  match ls with
  | [] => (0, 0)
  | l :: r => (l_start l, last_next l r)
  end.

Definition get_raw (d : bytes) (groups : list (list line)) : bytes :=
  let (a, b) := span_of (concat groups) in slice d a b.

(* _find_parts: lines equal to "--" boundary open a new part, the line
   "--" boundary "--" ends the scan, lines before the first opener are
   dropped.  [parts_in] is the scan once a part is open: it returns the lines
   of the current part and the later parts. *)
Definition DASH : N := 45%N.

Section Parts.
  Variable d : bytes.
  Variable boundary : bytes.

  Definition part_marker : bytes := DASH :: DASH :: boundary.
  Definition stop_marker : bytes := DASH :: DASH :: boundary ++ [DASH; DASH].

  Definition line_is (m : bytes) (l : line) : bool :=
    bytes_eqb (slice d (l_start l) (l_end l)) m.

  Fixpoint parts_in (ls : list line) : list line * list (list line) :=
    match ls with
    | [] => ([], [])
    | l :: r =>
      if line_is stop_marker l then ([], [])
      else if line_is part_marker l
           then ([], let (c, ps) := parts_in r in c :: ps)
           else let (c, ps) := parts_in r in (l :: c, ps)
    end.

  Fixpoint find_parts (ls : list line) : list (list line) :=
    match ls with
    | [] => []
    | l :: r =>
      if line_is stop_marker l then []
      else if line_is part_marker l
           then let (c, ps) := parts_in r in c :: ps
           else find_parts r
    end.
End Parts.
