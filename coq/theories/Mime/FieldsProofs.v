(* Mime/FieldsProofs.v — proofs about HEADER.FIELDS / HEADER.FIELDS.NOT. *)
From PV Require Import Base.Prelude Mime.Lines Mime.Parts Mime.Fields
     Mime.LinesProofs Mime.PartsProofs.
From Coq Require Import Lia.

(* the groups tile a..b: each is a non-empty chain, one after the other *)
Fixpoint gchain (a : nat) (gs : list (list line)) (b : nat) : Prop :=
  match gs with
  | [] => a = b
  | g :: r => g <> [] /\ exists m, chain a g m /\ gchain m r b
  end.

Inductive sublist {A} : list A -> list A -> Prop :=
| sub_nil : sublist [] []
| sub_skip x l1 l2 : sublist l1 l2 -> sublist l1 (x :: l2)
| sub_take x l1 l2 : sublist l1 l2 -> sublist (x :: l1) (x :: l2).

Lemma gchain_le a gs b : gchain a gs b -> a <= b.
Proof.
  revert a; induction gs as [|g r IH]; intros a H; cbn [gchain] in H.
  - lia.
  - destruct H as (_ & m & Hc & Hr). apply chain_le in Hc. apply IH in Hr. lia.
Qed.

(* _find_folds: the continuation lines before the first field are set aside,
   the groups tile the rest *)
Lemma folds_in_tile d ls : forall a b,
  chain a ls b ->
  exists m, chain a (fst (folds_in d ls)) m /\ gchain m (snd (folds_in d ls)) b.
Proof.
  induction ls as [|l r IH]; intros a b H; cbn [folds_in].
  - cbn [fst snd chain gchain] in *. exists a. split; [reflexivity|exact H].
  - cbn [chain] in H. destruct H as (H0 & H1 & H2 & H3).
    destruct (IH _ _ H3) as (m & Hc & Hg).
    destruct (folds_in d r) as [c gs]. cbn [fst snd] in *.
    destruct (starts_ws d l); cbn [fst snd].
    + exists m. split; [|exact Hg]. cbn [chain]. repeat split; assumption.
    + exists a. split; [reflexivity|]. cbn [gchain]. split; [discriminate|].
      exists m. split; [|exact Hg]. cbn [chain]. repeat split; assumption.
Qed.

Lemma chain_removelast a ls b :
  chain a ls b -> exists m, chain a (removelast ls) m /\ m <= b.
Proof.
  intro H. destruct ls as [|l r].
  - exists a. cbn in *. split; [reflexivity|lia].
  - assert (Hne : l :: r <> []) by discriminate.
    rewrite (app_removelast_last l Hne) in H.
    apply chain_app in H as (m & H1 & H2). exists m. split; [exact H1|].
    eapply chain_le; eauto.
Qed.

Lemma group_raw_chain d g a b : chain a g b -> get_raw d [g] = slice d a b.
Proof. apply get_raw_1. Qed.

Lemma gchain_concat d gs : forall a b,
  gchain a gs b -> b <= length d ->
  concat (map (fun g => get_raw d [g]) gs) = slice d a b.
Proof.
  induction gs as [|g r IH]; intros a b H Hb; cbn [gchain map concat] in *.
  - subst b. rewrite slice_empty. reflexivity.
  - destruct H as (_ & m & Hc & Hr).
    rewrite (group_raw_chain d g a m Hc), (IH _ _ Hr Hb).
    apply slice_app; [eapply chain_le; eauto|eapply gchain_le; eauto|exact Hb].
Qed.

Lemma find_folded_sublist d gs : sublist (map snd (find_folded d gs)) gs.
Proof.
  induction gs as [|g r IH]; cbn [find_folded map]; [constructor|].
  destruct (group_name d g); cbn [map snd]; constructor; exact IH.
Qed.

Lemma filter_sublist {A} (f : A -> bool) l : sublist (filter f l) l.
Proof.
  induction l as [|x r IH]; cbn [filter]; [constructor|].
  destruct (f x); constructor; exact IH.
Qed.

Lemma sublist_map {A B} (f : A -> B) l1 l2 : sublist l1 l2 -> sublist (map f l1) (map f l2).
Proof. induction 1; cbn [map]; constructor; assumption. Qed.

Lemma sublist_trans {A} (l1 l2 l3 : list A) : sublist l1 l2 -> sublist l2 l3 -> sublist l1 l3.
Proof.
  intros H12 H23. revert l1 H12. induction H23 as [|x l2 l3 H IH|x l2 l3 H IH]; intros l1 H12.
  - exact H12.
  - constructor. apply IH. exact H12.
  - inversion H12; subst.
    + constructor. apply IH. assumption.
    + apply sub_take. apply IH. assumption.
Qed.

Lemma select_sublist d subset inverse gs :
  sublist (select_fields subset inverse (find_folded d gs)) gs.
Proof.
  unfold select_fields. eapply sublist_trans; [|apply find_folded_sublist].
  apply sublist_map. apply filter_sublist.
Qed.

(* BODY[HEADER.FIELDS (..)] and BODY[HEADER.FIELDS.NOT (..)] of the message:
   the raw bytes of some of the header's field groups, in their order, then
   CR LF; the field groups tile a range a1..m1 inside the header, i.e. each
   group is a run of consecutive header lines returned verbatim *)
Lemma st_header_fields d ct c subset inverse :
  parse d ct = Ok c ->
  exists gs a1 m1,
    fetch_fields d c [] subset inverse
      = concat (map (fun g => get_raw d [g]) gs) ++ [13%N; 10%N]
    /\ sublist gs (find_folds d (c_hl c))
    /\ gchain a1 (find_folds d (c_hl c)) m1
    /\ m1 <= length (header_of d c)
    /\ concat (map (fun g => get_raw d [g]) (find_folds d (c_hl c))) = slice d a1 m1.
Proof.
  intro H.
  assert (Hch := find_lines_chain d). rewrite <- (parse_root d ct c H) in Hch.
  apply chain_app in Hch as (m & Hh & Hb).
  assert (Hm : m <= length d) by (eapply chain_le; eauto).
  destruct (chain_removelast _ _ _ Hh) as (m1 & Hrl & Hm1).
  destruct (folds_in_tile d _ _ _ Hrl) as (a1 & Hlead & Hg).
  exists (select_fields subset inverse (folded_of d c)), a1, m1.
  split; [reflexivity|].
  split; [apply select_sublist|].
  split; [exact Hg|].
  split.
  - unfold header_of. rewrite (get_raw_1 d _ _ _ Hh). rewrite slice_length; lia.
  - apply gchain_concat; [exact Hg|lia].
Qed.

(* a header made of plain fields only: HEADER.FIELDS.NOT of a name that does
   not occur returns the header with its final line replaced by CR LF *)
Definition ex_fields : bytes := [65; 58; 49; 10; 32; 50; 10; 98; 58; 10; 10; 120]%N.

Lemma ex_fields_ok :
  exists c, parse ex_fields (fun _ => CtText) = Ok c
    /\ fetch_fields ex_fields c [] [[66%N]] false = [98; 58; 10; 13; 10]%N
    /\ fetch_fields ex_fields c [] [[66%N]] true = [65; 58; 49; 10; 32; 50; 10; 13; 10]%N
    /\ fetch_fields ex_fields c [] [[122%N]] true
       = [65; 58; 49; 10; 32; 50; 10; 98; 58; 10; 13; 10]%N.
Proof.
  eexists. split; [vm_compute; reflexivity|].
  repeat split; vm_compute; reflexivity.
Qed.
