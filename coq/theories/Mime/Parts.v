(* Mime/Parts.v — nested parse, FETCH data functions, BODYSTRUCTURE sizes,
   literal printing, COPY/MOVE of message content: definitions only.

   Models (current tree):
     pymap/mime/__init__.py   MessageContent._parse, MessageBody._parse,
                              _parse_multipart, _parse_rfc822
     pymap/message.py         BaseLoadedMessage._get_subpart, get_body,
                              get_headers, get_message_headers (no subset),
                              get_message_text, get_size, _get_body_structure
                              (sizes and line counts only)
     pymap/fetch.py           DynamicLoadedFetchValue._get_partial
     pymap/parsing/primitives.py  LiteralString._prefix / write
     pymap/backend/dict/mailbox.py     Message.copy (content shared)
     pymap/backend/maildir/mailbox.py  Message.to_maildir / load_content,
                              MailboxData.copy/move (raw bytes since abfc543)

   The content-type decision (stdlib email: maintype / subtype / boundary of
   the Content-Type header found in the header lines) is an oracle [ct]
   supplied as data; a message or part without header lines has no
   Content-Type header, hence the default text/plain. *)
From PV Require Import Base.Prelude Base.Decimal Mime.Lines.

Inductive ctype : Type :=
| CtText                    (* maintype text *)
| CtOther                   (* any other non-multipart, non message/rfc822 *)
| CtMulti (boundary : bytes) (* multipart; [] = no usable boundary parameter *)
| CtRfc822.                 (* message/rfc822 *)

(* MessageContent: header lines, body lines, content type, nested parts *)
Inductive content : Type :=
| Node (hl bl : list line) (k : ctype) (subs : list content).

Definition c_hl (c : content) := let 'Node hl _ _ _ := c in hl.
Definition c_bl (c : content) := let 'Node _ bl _ _ := c in bl.
Definition c_kind (c : content) := let 'Node _ _ k _ := c in k.
Definition c_subs (c : content) := let 'Node _ _ _ s := c in s.

Fixpoint map_result {A B} (f : A -> result B) (l : list A) : result (list B) :=
  match l with
  | [] => Ok []
  | x :: r => bind (f x) (fun y => bind (map_result f r) (fun ys => Ok (y :: ys)))
  end.

Section Parse.
  Variable d : bytes.
  (* the Content-Type decision for a non-empty list of header lines *)
  Variable ct : list line -> ctype.

  Definition kind_of (hl : list line) : ctype :=
    match hl with [] => CtText | _ => ct hl end.

  (* MessageContent._parse on a list of lines; the recursion of the code is
     on strictly shorter line lists, [fuel] stands for that measure. *)
  Fixpoint parse_lines (fuel : nat) (ls : list line) : result content :=
    match fuel with
    | O => OutOfFuel
    | S f =>
      let (hl, bl) := split_lines d ls in
      let k := kind_of hl in
      match k with
      | CtMulti (b0 :: b') =>
        bind (map_result (parse_lines f) (find_parts d (b0 :: b') bl))
             (fun subs => Ok (Node hl bl k subs))
      | CtRfc822 =>
        bind (parse_lines f bl) (fun s => Ok (Node hl bl k [s]))
      | _ => Ok (Node hl bl k [])
      end
    end.

  (* MessageContent.parse *)
  Definition parse : result content :=
    let ls := find_lines d in parse_lines (S (length ls)) ls.

  (* bytes(content), bytes(content.header), bytes(content.body) *)
  Definition raw_of (c : content) : bytes := get_raw d [c_hl c; c_bl c].
  Definition header_of (c : content) : bytes := get_raw d [c_hl c].
  Definition body_of (c : content) : bytes := get_raw d [c_bl c].

  (* MessageContent.lines = max(header.lines + body.lines - 1, 0) *)
  Definition lines_of (c : content) : Z :=
    Z.max (Z.of_nat (length (c_hl c) + length (c_bl c)) - 1) 0.

  Definition is_rfc822 (c : content) : bool :=
    match c_kind c with CtRfc822 => true | _ => false end.
  Definition has_nested (c : content) : bool :=
    match c_subs c with [] => false | _ => true end.

  (* BaseLoadedMessage._get_subpart (part numbers of RFC 3501 6.4.5, as fixed):
     [container] is what the next number is relative to — the part reached,
     or, after a message/rfc822 part, the message it encloses; [cur] is the
     part reached so far.  None = IndexError. *)
  Definition next_container (s : content) : content :=
    if is_rfc822 s && has_nested s
    then match c_subs s with e :: _ => e | [] => s end
    else s.

  Fixpoint walk (container cur : content) (section : list nat) : option content :=
    match section with
    | [] => Some cur
    | i :: rest =>
      let step :=
        if has_nested container && negb (is_rfc822 container)
        then match i with
             | O => None   (* not produced by the section parser *)
             | S j => nth_error (c_subs container) j
             end
        else if Nat.eqb i 1 then Some container else None in
      match step with
      | Some s => walk (next_container s) s rest
      | None => None
      end
    end.

  Definition get_subpart (c : content) (section : list nat) : option content :=
    walk c c section.

  (* BODY[section] : get_body(section) *)
  Definition fetch_body (c : content) (section : list nat) : bytes :=
    match section with
    | [] => raw_of c
    | _ => match get_subpart c section with
           | Some s => body_of s
           | None => []
           end
    end.

  (* BODY[section.MIME] : get_headers(section) *)
  Definition fetch_mime (c : content) (section : list nat) : bytes :=
    match get_subpart c section with
    | Some s => header_of s
    | None => []
    end.

  (* BODY[HEADER] / BODY[section.HEADER] : get_message_headers(section) *)
  Definition fetch_header (c : content) (section : list nat) : bytes :=
    match section with
    | [] => header_of c
    | _ => match get_subpart c section with
           | Some s => if is_rfc822 s
                       then match c_subs s with m :: _ => header_of m | [] => [] end
                       else []
           | None => []
           end
    end.

  (* BODY[TEXT] / BODY[section.TEXT] : get_message_text(section) *)
  Definition fetch_text (c : content) (section : list nat) : bytes :=
    match section with
    | [] => body_of c
    | _ => match get_subpart c section with
           | Some s => if is_rfc822 s
                       then match c_subs s with m :: _ => body_of m | [] => [] end
                       else []
           | None => []
           end
    end.

  (* RFC822.SIZE : get_size() = len(content) *)
  Definition size_of (c : content) : nat := length (raw_of c).

  (* RFC822, RFC822.HEADER, RFC822.TEXT are parsed into the sections [],
     [HEADER], [TEXT] (FetchAttribute.parse) and served by the same code *)
  Definition fetch_rfc822 (c : content) : bytes := fetch_body c [].
  Definition fetch_rfc822_header (c : content) : bytes := fetch_header c [].
  Definition fetch_rfc822_text (c : content) : bytes := fetch_text c [].

  (* BINARY[section] / BINARY.SIZE[section] : get_body(section, binary=True).
     [identity s] = the Content-Transfer-Encoding of s is absent, 7bit, 8bit
     or binary (MessageDecoder.of -> _NoopDecoder), decided by stdlib email
     and supplied as data; other encodings are not modelled (None). *)
  Variable identity : content -> bool.

  Definition fetch_binary (c : content) (section : list nat) : option bytes :=
    match get_subpart c section with
    | Some s =>
      if identity s
      then Some (match section with
                 | [] => header_of s ++ body_of s
                 | _ => body_of s
                 end)
      else None
    | None => Some []
    end.

  Definition binary_size (c : content) (section : list nat) : option nat :=
    option_map (@length N) (fetch_binary c section).
End Parse.

(* number of LF octets = number of text lines that are terminated *)
Definition count_lf (b : bytes) : nat := length (filter (N.eqb LF) b).

(* _get_partial: full[start:start+length] *)
Definition get_partial (full : bytes) (partial : option (nat * nat)) : bytes :=
  match partial with
  | None => full
  | Some (o, n) => slice full o (o + n)
  end.

(* ------------------------------------------------------------------ *)
(* BODY / BODYSTRUCTURE: what is announced (sizes, line counts, nesting) *)
Inductive bstruct : Type :=
| BsMulti (subs : list bstruct)
| BsMsg (size : nat) (lines : Z) (sub : bstruct)
| BsText (size : nat) (lines : Z)
| BsOther (size : nat).

Section BodyStructure.
  Variable d : bytes.

  (* _get_body_structure; message/rfc822 always has exactly one nested
     message (otherwise the code raises IndexError: modelled as None) *)
  Fixpoint body_structure (c : content) : option bstruct :=
    match c with
    | Node hl bl k subs =>
      let size := length (get_raw d [hl; bl]) in
      let lines := Z.max (Z.of_nat (length hl + length bl) - 1) 0 in
      match k with
      | CtMulti _ =>
        match subs with
        | [] => Some (BsOther size)   (* no parsed sub-part: a basic body *)
        | _ =>
        option_map BsMulti
          ((fix go (l : list content) : option (list bstruct) :=
              match l with
              | [] => Some []
              | s :: r => match body_structure s, go r with
                          | Some b, Some bs => Some (b :: bs)
                          | _, _ => None
                          end
              end) subs)
        end
      | CtRfc822 =>
        match subs with
        | s :: _ => option_map (BsMsg size lines) (body_structure s)
        | [] => None
        end
      | CtText => Some (BsText size lines)
      | CtOther => Some (BsOther size)
      end
    end.
End BodyStructure.

(* The octet count announced for a node of the structure, if any *)
Definition bs_size (b : bstruct) : option nat :=
  match b with
  | BsMulti _ => None
  | BsMsg n _ _ => Some n
  | BsText n _ => Some n
  | BsOther n => Some n
  end.

(* RFC 3501 6.4.5 part numbering of a body structure (written from the RFC,
   independent of _get_subpart): the list of (part specifier, announced
   octets).  A non-multipart message has the single part 1; the parts of a
   multipart are numbered from 1; the parts of a message/rfc822 part p are
   p.1, p.2 .. when the enclosed message is multipart and p.1 otherwise. *)
Fixpoint rfc_part (p : list nat) (b : bstruct) {struct b} : list (list nat * nat) :=
  match b with
  | BsMulti subs =>
    (fix children (i : nat) (l : list bstruct) : list (list nat * nat) :=
       match l with
       | [] => []
       | s :: r => rfc_part (p ++ [i]) s ++ children (S i) r
       end) 1 subs
  | BsMsg n _ sub =>
    (p, n) :: match sub with
              | BsMulti _ => rfc_part p sub
              | _ => rfc_part (p ++ [1]) sub
              end
  | BsText n _ => [(p, n)]
  | BsOther n => [(p, n)]
  end.

(* the parts of a message (top-level or enclosed) whose numbers start with p *)
Definition msg_parts (p : list nat) (b : bstruct) : list (list nat * nat) :=
  match b with
  | BsMulti _ => rfc_part p b
  | _ => rfc_part (p ++ [1]) b
  end.

Definition rfc_parts (b : bstruct) : list (list nat * nat) := msg_parts [] b.

(* ------------------------------------------------------------------ *)
(* LiteralString: prefix "{" decimal(len) "}" CR LF, then the payload *)
Definition literal_prefix (n : N) : bytes :=
  123%N :: dec_of_N n ++ [125%N; 13%N; 10%N].

Definition print_literal (p : bytes) : bytes :=
  literal_prefix (N.of_nat (length p)) ++ p.

(* LiteralString(data, binary=True): "~{" n "}" CRLF payload (literal8) *)
Definition print_literal8 (p : bytes) : bytes := 126%N :: print_literal p.


(* the reader on the client side of a FETCH response: "{" number "}" CRLF and
   then exactly that many octets; the rest of the stream is returned *)
Definition read_literal (s : bytes) : option (bytes * bytes) :=
  match s with
  | 123%N :: s1 =>
    match parse_number s1 with
    | Some (n, 125%N :: 13%N :: 10%N :: s2) =>
      let k := N.to_nat n in
      if Nat.leb k (length s2) then Some (firstn k s2, skipn k s2) else None
    | _ => None
    end
  | _ => None
  end.

Definition read_literal8 (s : bytes) : option (bytes * bytes) :=
  match s with
  | 126%N :: s' => read_literal s'
  | _ => None
  end.

(* ------------------------------------------------------------------ *)
(* COPY / MOVE *)

(* dict backend: a message is (uid, content object); Message.copy builds a new
   message around the *same* content object *)
Record dmsg : Type := DMsg { dm_uid : N; dm_data : bytes; dm_content : content }.

Definition dict_copy (m : dmsg) (new_uid : N) : dmsg :=
  DMsg new_uid (dm_data m) (dm_content m).

(* maildir backend (as of abfc543): the literal is written byte for byte
   (RawMaildirMessage, Maildir._dump_message), COPY writes the bytes read
   with get_bytes, MOVE renames the file, load_content parses get_bytes(key).
   stdlib mailbox.Maildir.get_bytes replaces os.linesep by LF when it reads:
   the function [rd], the identity where os.linesep is LF. *)
Section Maildir.
  Variable rd : bytes -> bytes.

  (* APPEND: Maildir.add(RawMaildirMessage(literal)) -> file bytes *)
  Definition md_append (lit : bytes) : bytes := lit.
  (* load_content: MessageContent.parse(maildir.get_bytes(key)) *)
  Definition md_load (file : bytes) : bytes := rd file.
  (* COPY: dest.add(get_raw_message(key)) *)
  Definition md_copy (file : bytes) : bytes := rd file.
  (* MOVE: the file is renamed *)
  Definition md_move (file : bytes) : bytes := file.
End Maildir.
