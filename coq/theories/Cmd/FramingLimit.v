(* Cmd/FramingLimit.v — the framing of Cmd/Framing.v under a configuration:
   what IMAPConnection.read_command does with the client's byte stream for a
   command whose string arguments are literals, when the server is configured
   with Config(max_append_len=...) (APPENDLIMIT).  The limit decides the
   *answer* (LiteralString._check_too_big: APPEND -> max_append_len, every
   other command -> String._MAX_LEN = 4096), never *how much is read*: a
   non-synchronizing literal {n+} is read by readline together with its line
   whatever n is (RFC 7888: the server consumes it or closes); a synchronizing
   literal {n} over the limit is refused before any continuation request.
   Definitions only. *)
From PV Require Import Base.Prelude Base.Decimal Cmd.CLex Cmd.Framing.
Local Open Scope N_scope.

(* Config.max_append_len -> Config.parsing_params -> Params.max_append_len;
   None = no APPENDLIMIT *)
Record fconfig := { fc_max_append : option N }.

Definition STRING_MAX : N := 4096.          (* String._MAX_LEN *)

(* LiteralString._check_too_big; [append] = params.command_name == b'APPEND'
   (the upper-cased command word, whatever the client's letter case) *)
Definition lit_limit (c : fconfig) (append : bool) : option N :=
  if append then fc_max_append c else Some STRING_MAX.
Definition lit_too_big (c : fconfig) (append : bool) (n : N) : bool :=
  match lit_limit c append with Some m => m <? n | None => false end.

Inductive lclass := LAccept | LTooBig.      (* parsed | tagged BAD, nothing done *)
Inductive lspell := LSync | LPlus.          (* {n} | {n+} *)

Definition lit_class (c : fconfig) (append : bool) (n : N) : lclass :=
  if lit_too_big c append n then LTooBig else LAccept.

(* the literal prefix a client writes *)
Definition lit_marker (sp : lspell) (n : N) : bytes :=
  [LBRACE] ++ dec_of_N n ++ (match sp with LPlus => [PLUS] | LSync => [] end) ++ [RBRACE; CR; LF].

(* read_command after its first readline, literal by literal in the order of
   the command line: the first literal over the limit ends the command (BAD)
   with nothing more read; an accepted {n+} is already in the buffer; an
   accepted {n} costs one continuation request and one read_continuation(n).
   Result: class, continuation requests sent, unread rest of the stream. *)
Fixpoint serve_lits (c : fconfig) (append : bool) (lits : list (lspell * N))
    (r : bytes) (nreq : N) : option (lclass * N * bytes) :=
  match lits with
  | [] => Some (LAccept, nreq, r)
  | (sp, n) :: more =>
    if lit_too_big c append n then Some (LTooBig, nreq, r)
    else match sp with
         | LPlus => serve_lits c append more r nreq
         | LSync =>
           match read_unit n r with
           | Some (_, r') => serve_lits c append more r' (nreq + 1)
           | None => None
           end
         end
  end.

Definition serve_command (c : fconfig) (append : bool) (lits : list (lspell * N))
    (s : bytes) : option (lclass * N * bytes) :=
  match read_unit 0 s with
  | None => None
  | Some (_, r) => serve_lits c append lits r 0
  end.

(* the stream a client sends for a command  head {n..} data tail CRLF  with one
   literal, followed by its next command.  A client that uses {n} waits for
   the continuation request: when the literal is refused it never sends the
   data (and the rest of the line). *)
Definition wire_plus (head : bytes) (n : N) (data tail next : bytes) : bytes :=
  head ++ lit_marker LPlus n ++ data ++ tail ++ [CR; LF] ++ next.
Definition wire_sync (c : fconfig) (append : bool) (head : bytes) (n : N)
    (data tail next : bytes) : bytes :=
  if lit_too_big c append n then head ++ lit_marker LSync n ++ next
  else head ++ lit_marker LSync n ++ data ++ tail ++ [CR; LF] ++ next.

Definition no_lf (b : bytes) : bool := forallb (fun x => negb (x =? LF)) b.
